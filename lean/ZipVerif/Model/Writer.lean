import ZipVerif.Model.Records
import ZipVerif.Spec.Crc32
/-
Model of `ZipWriter` (src/write.rs): the state machine with its seven state components, the
local-header-then-back-patch protocol, `finalize`, `new_append`, raw copy, the extra-data calls and
`GenericZipWriter::switch_to`.  Every `get_plain` / `unwrap` / `unreachable!` site is an explicit
panic branch.  The sink is the `Dev` of `Model/IO.lean`.
-/

namespace ZipVerif.Model
open ZipVerif

/-- External code on the write side. -/
structure WExt where
  /-- complete output of the encoder for `method`/`level` on the whole plaintext of an entry -/
  compress : Method → Int → Bytes → Bytes
  /-- `ZipCryptoWriter::finish`: encrypt the buffered bytes (12-byte header first) under the password -/
  zcEncrypt : (pw : Bytes) → (buffer : Bytes) → Bytes

/-- `MaybeEncrypted`: `none` = writes go to the sink, `some` = buffered by `ZipCryptoWriter`. -/
structure EncState where
  pw : Bytes
  buffer : Bytes
  deriving Repr, DecidableEq

/-- `GenericZipWriter` -/
inductive Inner
  | closed
  | storer (enc : Option EncState)
  | compressor (m : Method) (level : Int) (enc : Option EncState) (pending : Bytes)
  deriving Repr, DecidableEq

structure FileOptions where
  method : Method
  level : Option Int
  time : DateTime
  permissions : Option UInt32
  largeFile : Bool
  encryptWith : Option Bytes
  deriving Repr

structure WState where
  inner : Inner
  files : List FileData
  statsStart : Nat
  statsBytes : Nat
  statsHasher : UInt32      -- raw CRC register (0xFFFFFFFF = fresh)
  writingToFile : Bool
  writingToExtraField : Bool
  centralOnly : Bool
  writingRaw : Bool
  comment : Bytes
  deriving Repr

def WState.init : WState :=
  { inner := .storer none, files := [], statsStart := 0, statsBytes := 0, statsHasher := 0xFFFFFFFF,
    writingToFile := false, writingToExtraField := false, centralOnly := false, writingRaw := false,
    comment := [] }

def hasherFinalize (r : UInt32) : UInt32 := r ^^^ 0xFFFFFFFF

def Inner.currentCompression : Inner → Option Method
  | .closed => none
  | .storer _ => some .stored
  | .compressor m _ _ _ => some m

def Inner.isClosed : Inner → Bool
  | .closed => true
  | _ => false

/-- The writer monad: state + device. Errors keep the state reached so far (Rust mutates in place). -/
def W (α : Type) : Type := WState → M (α × WState)

namespace W
instance : Monad W where
  pure a := fun s => pure (a, s)
  bind m f := fun s => do
    let (a, s') ← m s
    f a s'
def get : W WState := fun s => pure (s, s)
def set (s : WState) : W Unit := fun _ => pure ((), s)
def modify (f : WState → WState) : W Unit := fun s => pure ((), f s)
def lift {α} (m : M α) : W α := fun s => do let a ← m; pure (a, s)
end W

/-
Because an error must preserve the *mutated* writer state, the step functions below are written
in the explicit style `WState → M (Except ZErr α × WState)`: a Rust `?` returns `(.error e, s)`
with the state reached so far.  `M`-level errors only come from the device (injected faults) and
are converted at each call site.
-/

abbrev Step (α : Type) := WState → M (Except ZErr α × WState)

/-- run a device action; a device error becomes the call's error, keeping state `s` -/
def io {α} (s : WState) (m : M α) (k : α → M (Except ZErr β × WState)) : M (Except ZErr β × WState) := do
  let r ← M.attempt m
  match r with
  | .ok a => k a
  | .error e => pure (.error e, s)

def levelRange : Method → Option (Int × Int × Int)   -- (min, max, default)
  | .deflated => some (0, 9, 6)
  | .bzip2 => some (1, 9, 6)
  | .zstd => some (-131072, 22, 3)
  | _ => none

/-- where the bytes of a finished compressor / of `write` go -/
def emit (s : WState) (enc : Option EncState) (bs : Bytes)
    (k : Option EncState → M (Except ZErr β × WState)) : M (Except ZErr β × WState) :=
  match enc with
  | some e => k (some { e with buffer := e.buffer ++ bs })
  | none => io s (M.writeAll bs) fun _ => k none

/-- `w.finish()?` on the encoder `switch_to` replaces: its output goes to the encryption buffer or to
the sink.  When the sink write fails, `?` returns the error and the encoder is dropped on the error
path: flate2's `DeflateEncoder` and bzip2's `BzEncoder` then call `finish` once more from their
destructor (`let _ = self.finish()`) — one more write of the SAME bytes, result ignored (with a
single-shot fault it succeeds and the bytes reach the sink after all); zstd's encoder has no such
destructor.  On a fault-free sink this is `emit`. -/
def emitFinish (s : WState) (m : Method) (enc : Option EncState) (bs : Bytes)
    (k : Option EncState → M (Except ZErr β × WState)) : M (Except ZErr β × WState) :=
  match enc with
  | some e => k (some { e with buffer := e.buffer ++ bs })
  | none => do
    let r ← M.attempt (M.writeAll bs)
    match r with
    | .ok _ => k none
    | .error e =>
      if m == .deflated || m == .bzip2 then do
        let _ ← M.attempt (M.writeAll bs)
        pure (.error e, s)
      else pure (.error e, s)

/-- `GenericZipWriter::switch_to` -/
def switchTo (ext : WExt) (compression : Method) (level : Option Int) : Step Unit := fun s =>
  match s.inner.currentCompression with
  | none => pure (.error (.io .brokenPipe), s)
  | some cur =>
    if cur == compression then pure (.ok (), s) else
    -- take the bare writer out (self = Closed meanwhile)
    let s0 := { s with inner := .closed }
    let cont (enc : Option EncState) : M (Except ZErr Unit × WState) :=
      match compression with
      | .stored =>
        if level.isSome then pure (.error .unsupportedArchive, s0)
        else pure (.ok (), { s0 with inner := .storer enc })
      | .aes => pure (.error .unsupportedArchive, s0)
      | .unsupported _ => pure (.error .unsupportedArchive, s0)
      | m =>
        match levelRange m with
        | none => pure (.error .unsupportedArchive, s0)
        | some (lo, hi, dflt) =>
          let l := level.getD dflt
          if lo ≤ l ∧ l ≤ hi then pure (.ok (), { s0 with inner := .compressor m l enc [] })
          else pure (.error .unsupportedArchive, s0)
    match s.inner with
    | .closed => pure (.error (.io .brokenPipe), s0)
    | .storer enc => cont enc
    | .compressor m l enc pending =>
      -- `w.finish()?`: the encoder's output goes to the sink (or the encryption buffer); a failed
      -- write is retried once by the destructor of a Deflate / Bzip2 encoder
      emitFinish s0 m enc (ext.compress m l pending) cont

/-- `ZipWriter::end_extra_data` (the `u64` result is `data_start`). -/
def validateExtraDataLoop : (fuel : Nat) → Bytes → Except ZErr Unit
  | 0, _ => .ok ()
  | fuel + 1, data =>
    if data.isEmpty then .ok () else
    if data.length < 4 then .error (.io .other) else
    match rd16 data with
    | none => .error (.io .other)
    | some (kind, r1) =>
    match rd16 r1 with
    | none => .error (.io .other)
    | some (size, r2) =>
      if kind == 0x0001 then .error (.io .other)
      else if kind ≤ 31 || reservedExtraIds.contains kind then .error (.io .other)
      else if size.toNat > r2.length then .error (.io .other)
      else validateExtraDataLoop fuel (r2.drop size.toNat)
where
  reservedExtraIds : List UInt16 :=
    [0x0001, 0x0007, 0x0008, 0x0009, 0x000a, 0x000c, 0x000d, 0x000e, 0x000f, 0x0014, 0x0015, 0x0016,
     0x0017, 0x0018, 0x0019, 0x0020, 0x0021, 0x0022, 0x0023, 0x0065, 0x0066, 0x4690, 0x07c8, 0x2605,
     0x2705, 0x2805, 0x334d, 0x4341, 0x4453, 0x4704, 0x470f, 0x4b46, 0x4c41, 0x4d49, 0x4f4c, 0x5356,
     0x5455, 0x554e, 0x5855, 0x6375, 0x6542, 0x7075, 0x756e, 0x7855, 0xa11e, 0xa220, 0xfd4a, 0x9901,
     0x9902]

/-- `validate_extra_data` -/
def validateExtraData (f : FileData) : Except ZErr Unit :=
  if f.extraField.length + (if f.largeFile then 20 else 0) > 65535 then .error (.io .invalidData)
  else validateExtraDataLoop (f.extraField.length + 1) f.extraField

def setLast (files : List FileData) (f : FileData) : List FileData :=
  match files.reverse with
  | [] => []
  | _ :: rest => (f :: rest).reverse

def endExtraData (ext : WExt) : Step Nat := fun s =>
  if !s.writingToExtraField then pure (.error (.io .other), s) else
  if s.inner.isClosed then pure (.error (.io .brokenPipe), s) else
  match s.files.getLast? with
  | none => M.panic "write.rs:624 files.last_mut().unwrap()"
  | some file =>
    match validateExtraData file with
    | .error e => pure (.error e, s)
    | .ok () =>
      if !s.centralOnly then
        match s.inner with
        | .storer none =>
          io s (M.writeAll file.extraField) fun _ =>
          let headerEnd := file.dataStart.toNat + file.extraField.length
          let file1 := { file with dataStart := UInt64.ofNat headerEnd }
          let s1 := { s with statsStart := headerEnd, files := setLast s.files file1 }
          match localExtraLen file1 with
          | .panic site => M.panic site
          | .err e => pure (.error e, s1)
          | .ok el =>
            io s1 (M.seek (.start (file1.headerStart.toNat + 28))) fun _ =>
            io s1 (M.writeAll (le16 el)) fun _ =>
            io s1 (M.seek (.start headerEnd)) fun _ => do
              let (r, s2) ← switchTo ext file1.method file1.level s1
              match r with
              | .error e => pure (.error e, s2)
              | .ok () =>
                pure (.ok headerEnd, { s2 with writingToExtraField := false, centralOnly := false })
        | _ => M.panic "write.rs:1027 get_plain"
      else
        pure (.ok file.dataStart.toNat, { s with writingToExtraField := false, centralOnly := false })

/-- `update_local_file_header` -/
def updateLocalHeader (s : WState) (file : FileData)
    (k : Unit → M (Except ZErr β × WState)) : M (Except ZErr β × WState) :=
  -- the compressed-size guard comes first (the D19 repair): a refused entry leaves the sink untouched
  if !file.largeFile && file.compressedSize > ZIP64_BYTES_THR then pure (.error (.io .other), s) else
  io s (M.seek (.start (file.headerStart.toNat + 14))) fun _ =>
  io s (M.writeAll (le32 file.crc32)) fun _ =>
  if file.largeFile then
    io s (M.seek (.start (file.headerStart.toNat + 30 + file.fileName.length + 4))) fun _ =>
    io s (M.writeAll (le64 file.uncompressedSize)) fun _ =>
    io s (M.writeAll (le64 file.compressedSize)) fun _ => k ()
  else
    io s (M.writeAll (le32 (trunc32 file.compressedSize))) fun _ =>
    io s (M.writeAll (le32 (trunc32 file.uncompressedSize))) fun _ => k ()

/-- `ZipWriter::finish_file` -/
def finishFile (ext : WExt) : Step Unit := fun s => do
  -- implicit end_extra_data
  let (r0, s) ← (if s.writingToExtraField then do
      let (r, s') ← endExtraData ext s
      pure (r.map fun _ => (), s')
    else pure (.ok (), s))
  match r0 with
  | .error e => pure (.error e, s)
  | .ok () =>
  let (r1, s) ← switchTo ext .stored none s
  match r1 with
  | .error e => pure (.error e, s)
  | .ok () =>
  -- take the writer out; an encrypting storer is flushed here
  let afterEnc (s : WState) : M (Except ZErr Unit × WState) :=
    match s.inner with
    | .storer none =>
      if !s.writingRaw then
        match s.files.getLast? with
        | none => pure (.ok (), s)
        | some file =>
          let file := { file with crc32 := hasherFinalize s.statsHasher,
                                  uncompressedSize := UInt64.ofNat s.statsBytes }
          let s := { s with files := setLast s.files file }
          io s M.streamPosition fun fileEnd =>
          if fileEnd < s.statsStart then pure (.error (.io .other), s) else
          let file := { file with compressedSize := UInt64.ofNat (fileEnd - s.statsStart) }
          let s := { s with files := setLast s.files file }
          updateLocalHeader s file fun _ =>
          io s (M.seek (.start fileEnd)) fun _ =>
          pure (.ok (), { s with writingToFile := false, writingRaw := false })
      else pure (.ok (), { s with writingToFile := false, writingRaw := false })
    | _ => M.panic "write.rs:1027 get_plain"
  match s.inner with
  | .storer (some e) =>
    let crc := hasherFinalize s.statsHasher
    let s0 := { s with inner := .closed }
    -- `buffer[11] = …` panics if fewer than 12 bytes were buffered (never: start_entry buffers 12)
    if e.buffer.length < 12 then M.panic "zipcrypto.rs:133 buffer[11]" else
    let buf := e.buffer.take 11 ++ [(crc >>> 24).toUInt8] ++ e.buffer.drop 12
    io s0 (M.writeAll (ext.zcEncrypt e.pw buf)) fun _ =>
    io s0 M.flush fun _ =>
    afterEnc { s0 with inner := .storer none }
  | .storer none => afterEnc s
  | _ => M.panic "write.rs:434 unreachable"

/-- `ZipWriter::start_entry` -/
def startEntry (ext : WExt) (name : Bytes) (o : FileOptions)
    (raw : Option (UInt32 × UInt64 × UInt64)) : Step Unit := fun s => do
  if name.length > 65535 then pure (.error .invalidArchive, s) else
  let (r, s) ← finishFile ext s
  match r with
  | .error e => pure (.error e, s)
  | .ok () =>
  match s.inner with
  | .storer none =>
    io s M.streamPosition fun headerStart =>
    let (crc, cs, us) := raw.getD (0, 0, 0)
    let permissions := o.permissions.getD 0o100644
    let file : FileData := {
      system := .unix, versionMadeBy := DEFAULT_VERSION, encrypted := o.encryptWith.isSome,
      usingDataDescriptor := false, method := o.method, level := o.level, time := o.time,
      crc32 := crc, compressedSize := cs, uncompressedSize := us, fileName := name,
      fileNameRaw := [], extraField := [], fileComment := [],
      headerStart := UInt64.ofNat headerStart, centralHeaderStart := 0, dataStart := 0,
      externalAttributes := permissions <<< 16, largeFile := o.largeFile, aesMode := none }
    match localHeaderChunks file with
    | .panic site => M.panic site
    | .err e => pure (.error e, s)
    | .ok chunks =>
      io s (M.writeChunks chunks) fun _ =>
      io s M.streamPosition fun headerEnd =>
      let file := { file with dataStart := UInt64.ofNat headerEnd }
      let s := { s with statsStart := headerEnd, statsBytes := 0, statsHasher := 0xFFFFFFFF,
                        files := s.files ++ [file] }
      match o.encryptWith with
      | some pw =>
        pure (.ok (), { s with inner := .storer (some { pw, buffer := List.replicate 12 0 }) })
      | none => pure (.ok (), s)
  | _ => M.panic "write.rs:1027 get_plain"

def withFilePerm (o : FileOptions) (dflt ty : UInt32) : FileOptions :=
  { o with permissions := some ((o.permissions.getD dflt) ||| ty) }

/-- `ZipWriter::start_file` -/
def startFile (ext : WExt) (name : Bytes) (o : FileOptions) : Step Unit := fun s => do
  let o := withFilePerm o 0o644 0o100000
  let (r, s) ← startEntry ext name o none s
  match r with
  | .error e => pure (.error e, s)
  | .ok () =>
    let (r, s) ← switchTo ext o.method o.level s
    match r with
    | .error e => pure (.error e, s)
    | .ok () => pure (.ok (), { s with writingToFile := true })

/-- `ZipWriter::start_file_with_extra_data` -/
def startFileWithExtraData (ext : WExt) (name : Bytes) (o : FileOptions) : Step Nat := fun s => do
  let o := withFilePerm o 0o644 0o100000
  let (r, s) ← startEntry ext name o none s
  match r with
  | .error e => pure (.error e, s)
  | .ok () =>
    match s.files.getLast? with
    | none => M.panic "write.rs:599 files.last().unwrap()"
    | some f =>
      pure (.ok f.dataStart.toNat, { s with writingToFile := true, writingToExtraField := true })

/-- `impl Write for ZipWriter`: `write_all(buf)` (one `write` call on sinks that accept everything). -/
def writeData (buf : Bytes) : Step Unit := fun s =>
  if buf.isEmpty then pure (.ok (), s) else     -- write_all of nothing calls nothing
  if !s.writingToFile then pure (.error (.io .other), s) else
  match s.inner with
  | .closed => pure (.error (.io .brokenPipe), s)
  | inner =>
    if s.writingToExtraField then
      match s.files.getLast? with
      | none => M.panic "write.rs:238 files.last_mut().unwrap()"
      | some f =>
        pure (.ok (), { s with files := setLast s.files { f with extraField := f.extraField ++ buf } })
    else
      let account (s : WState) : M (Except ZErr Unit × WState) :=
        let s := { s with statsHasher := Spec.Crc32.updateBytes s.statsHasher buf,
                          statsBytes := s.statsBytes + buf.length }
        match s.files.getLast? with
        | none => M.panic "write.rs:244 files.last_mut().unwrap()"
        | some f =>
          if s.statsBytes > 0xFFFFFFFF && !f.largeFile then
            pure (.error (.io .other), { s with inner := .closed })
          else pure (.ok (), s)
      match inner with
      | .storer none => io s (M.writeAll buf) fun _ => account s
      | .storer (some e) =>
        account { s with inner := .storer (some { e with buffer := e.buffer ++ buf }) }
      | .compressor m l enc pending =>
        account { s with inner := .compressor m l enc (pending ++ buf) }
      | .closed => pure (.error (.io .brokenPipe), s)

/-- `impl Write for ZipWriter`: `flush` forwards to the current inner writer; a closed writer answers
`BrokenPipe`.  Stored and unencrypted (also: no entry open, extra-data mode, a raw copy): the sink's own
`flush`, one I/O call.  Stored under ZipCrypto: `ZipCryptoWriter::flush` is `Ok(())`, no I/O.  An encoder
(flate2 / bzip2 / zstd): its `flush` ends the current block and hands the compressed bytes so far to the
layer below; the writer state of this model does not change, and the byte stream the entry ends up with is
the parameter `ext.compress` - in the correspondence the codec library run with the same flush points.  On a
fault-free sink an encoder's flush cannot fail; the sink calls it makes under an injected fault are NOT
modelled (the fault stream flushes stored entries and closed writers only).  `flush` is outside the call
alphabet `Props.C12.Call`; `Props.C12.flush_*` state what holds of it. -/
def flushWriter : Step Unit := fun s =>
  match s.inner with
  | .closed => pure (.error (.io .brokenPipe), s)
  | .storer none => io s M.flush fun _ => pure (.ok (), s)
  | .storer (some _) => pure (.ok (), s)
  | .compressor _ _ _ _ => pure (.ok (), s)

/-- `end_local_start_central_extra_data` -/
def endLocalStartCentral (ext : WExt) : Step Nat := fun s => do
  let (r, s) ← endExtraData ext s
  match r with
  | .error e => pure (.error e, s)
  | .ok ds =>
    match s.files.getLast? with
    | none => M.panic "write.rs:607 files.last_mut().unwrap()"
    | some f =>
      pure (.ok ds, { s with files := setLast s.files { f with extraField := [] },
                             writingToExtraField := true, centralOnly := true })

/-- `start_file_aligned` -/
def startFileAligned (ext : WExt) (name : Bytes) (o : FileOptions) (align : UInt16) : Step Nat :=
  fun s => do
  let (r, s) ← startFileWithExtraData ext name o s
  match r with
  | .error e => pure (.error e, s)
  | .ok dataStart =>
    let a := align.toNat
    let padStep : M (Except ZErr Unit × WState) :=
      if a > 1 && dataStart % a != 0 then do
        let padLength := (a - (dataStart + 4) % a) % a
        let (r, s) ← writeData [0x7a, 0x61] s
        match r with
        | .error e => pure (.error e, s)
        | .ok () =>
        let (r, s) ← writeData (le16 (UInt16.ofNat padLength)) s
        match r with
        | .error e => pure (.error e, s)
        | .ok () =>
        let (r, s) ← writeData (List.replicate padLength 0) s
        match r with
        | .error e => pure (.error e, s)
        | .ok () =>
        let (r, s) ← endLocalStartCentral ext s
        match r with
        | .error e => pure (.error e, s)
        | .ok ds =>
          if ds % a != 0 then M.panic "write.rs:515 assert_eq" else pure (.ok (), s)
      else pure (.ok (), s)
    let (r, s) ← padStep
    match r with
    | .error e => pure (.error e, s)
    | .ok () =>
      let (r, s) ← endExtraData ext s
      match r with
      | .error e => pure (.error e, s)
      | .ok extraDataEnd =>
        if extraDataEnd < dataStart then M.panic "write.rs:518 sub" else
        pure (.ok (extraDataEnd - dataStart), s)

/-- `add_directory` -/
def addDirectory (ext : WExt) (name : Bytes) (o : FileOptions) : Step Unit := fun s => do
  let o := { withFilePerm o 0o755 0o40000 with method := .stored }
  let name := match name.getLast? with
    | some 0x2f => name       -- '/'
    | some 0x5c => name       -- '\\'
    | _ => name ++ [0x2f]
  let (r, s) ← startEntry ext name o none s
  match r with
  | .error e => pure (.error e, s)
  | .ok () => pure (.ok (), { s with writingToFile := false })

/-- `add_symlink` -/
def addSymlink (ext : WExt) (name target : Bytes) (o : FileOptions) : Step Unit := fun s => do
  let o := { withFilePerm o 0o777 0o120000 with method := .stored }
  let (r, s) ← startEntry ext name o none s
  match r with
  | .error e => pure (.error e, s)
  | .ok () =>
    let (r, s) ← writeData target { s with writingToFile := true }
    match r with
    | .error e => pure (.error e, s)
    | .ok () => pure (.ok (), { s with writingToFile := false })

/-- `raw_copy_file_rename`: `src` is the source entry's metadata, `raw` what its raw reader delivers. -/
def rawCopy (ext : WExt) (src : FileData) (raw : Bytes) (name : Bytes) : Step Unit := fun s => do
  let big := (if src.compressedSize ≥ src.uncompressedSize then src.compressedSize
              else src.uncompressedSize) ≥ ZIP64_BYTES_THR
  let o : FileOptions := {
    method := src.method, level := none, time := src.time,
    permissions := src.unixMode, largeFile := big, encryptWith := none }
  let (r, s) ← startEntry ext name o (some (src.crc32, src.compressedSize, src.uncompressedSize)) s
  match r with
  | .error e => pure (.error e, s)
  | .ok () => writeData raw { s with writingToFile := true, writingRaw := true }

/-- `finalize` -/
def finalize (ext : WExt) : Step Unit := fun s => do
  if s.comment.length > 65535 then pure (.error .invalidArchive, s) else
  let (r, s) ← finishFile ext s
  match r with
  | .error e => pure (.error e, s)
  | .ok () =>
  match s.inner with
  | .storer none =>
    io s M.streamPosition fun centralStart =>
    let rec writeAllCentral : List FileData → M (Except ZErr Unit × WState)
      | [] => pure (.ok (), s)
      | f :: rest =>
        match centralHeaderChunks f with
        | .panic site => M.panic site
        | .err e => pure (.error e, s)
        | .ok chunks => io s (M.writeChunks chunks) fun _ => writeAllCentral rest
    do
    let (r, s) ← writeAllCentral s.files
    match r with
    | .error e => pure (.error e, s)
    | .ok () =>
    io s M.streamPosition fun centralEnd =>
    if centralEnd < centralStart then M.panic "write.rs:837 sub" else
    let centralSize := centralEnd - centralStart
    let n := s.files.length
    let z64 : M (Except ZErr Unit × WState) :=
      if n > ZIP64_ENTRY_THR || (max centralSize centralStart) > 0xFFFFFFFF then
        io s (M.writeChunks (eocd64Chunks {
          versionMadeBy := DEFAULT_VERSION.toUInt16, versionNeeded := DEFAULT_VERSION.toUInt16,
          diskNumber := 0, diskWithCd := 0, filesOnDisk := UInt64.ofNat n, files := UInt64.ofNat n,
          cdSize := UInt64.ofNat centralSize, cdOffset := UInt64.ofNat centralStart })) fun _ =>
        io s (M.writeChunks (locatorChunks {
          diskWithCd := 0, eocd64Offset := UInt64.ofNat (centralStart + centralSize), disks := 1 })) fun _ =>
        pure (.ok (), s)
      else pure (.ok (), s)
    do
    let (r, s) ← z64
    match r with
    | .error e => pure (.error e, s)
    | .ok () =>
    let nf : UInt16 := UInt16.ofNat (min n ZIP64_ENTRY_THR)
    io s (M.writeChunks (eocdChunks {
      diskNumber := 0, diskWithCd := 0, filesOnDisk := nf, files := nf,
      cdSize := UInt32.ofNat (min centralSize 0xFFFFFFFF),
      cdOffset := UInt32.ofNat (min centralStart 0xFFFFFFFF), comment := s.comment })) fun _ =>
    pure (.ok (), s)
  | _ => M.panic "write.rs:1027 get_plain"

/-- `finish` -/
def finish (ext : WExt) : Step Unit := fun s => do
  let (r, s) ← finalize ext s
  match r with
  | .error e => pure (.error e, s)
  | .ok () =>
    match s.inner with
    | .storer none => pure (.ok (), { s with inner := .closed })
    | _ => M.panic "write.rs:1051 unwrap"

/-- Dropping the `GenericZipWriter` field after `Drop::drop` ran: flate2's and bzip2's write-side
encoders finish their stream into the sink when they are dropped (`impl Drop`: `let _ = self.finish()`,
errors ignored); zstd's encoder does not; an encoder over the ZipCrypto layer only fills that layer's
buffer, which is dropped with it.  An encoder is still alive here only when `finalize` failed before
`finish_file` switched back to `Stored` (e.g. an over-long archive comment). -/
def dropInner (ext : WExt) : Step Unit := fun s =>
  match s.inner with
  | .compressor m l none pending =>
    if m == .deflated || m == .bzip2 then do
      let _ ← M.attempt (M.writeAll (ext.compress m l pending))
      pure (.ok (), { s with inner := .closed })
    else pure (.ok (), s)
  | _ => pure (.ok (), s)

/-- `Drop`: finalize unless closed; errors are printed and dropped; then the fields are dropped. -/
def dropWriter (ext : WExt) : Step Unit := fun s => do
  if s.inner.isClosed then pure (.ok (), s) else
  let (_, s) ← finalize ext s
  dropInner ext s

end ZipVerif.Model

namespace ZipVerif.Model
open ZipVerif

/-- `strip_zip64_extra_field`: remove every ZIP64 extended information record (id 0x0001) from a sequence
of extra field records; bytes that do not form a complete record (a malformed tail) are kept.  The ZIP64
record is regenerated by `write_central_directory_header` (the D20 repair). -/
def stripZip64 : (fuel : Nat) → Bytes → Bytes
  | 0, rest => rest
  | fuel + 1, rest =>
    if rest.length < 4 then rest else
    match rd16 rest with
    | none => rest
    | some (kind, r1) =>
    match rd16 r1 with
    | none => rest
    | some (len, r2) =>
      if r2.length < len.toNat then rest
      else if kind != 0x0001 then rest.take (4 + len.toNat) ++ stripZip64 fuel (r2.drop len.toNat)
      else stripZip64 fuel (r2.drop len.toNat)

/-- what `new_append` keeps of a re-hydrated record -/
def appendRecord (f : FileData) : FileData :=
  { f with extraField := stripZip64 (f.extraField.length + 1) f.extraField }

open M in
/-- `ZipWriter::new_append`: device errors / archive errors are `M` errors.  The failure of the first seek to
the directory start is mapped to `InvalidArchive` (`.is_err()`); the failure of the LAST seek — the one that
repositions the writer onto the old central directory, which it is about to overwrite — is returned as the
I/O error it is (`?`; D22: it used to be ignored, `let _ =`). -/
def newAppend : M WState := do
  let (footer, cdeStart) ← findAndParseEocd
  if footer.diskNumber != footer.diskWithCd then throw .unsupportedArchive else do
    let (archiveOffset, directoryStart, numberOfFiles) ← getDirectoryCounts footer cdeStart
    if directoryStart > cdeStart then throw .invalidArchive else
    let r ← attempt (seek (.start directoryStart))
    match r with
    | .error _ => throw .invalidArchive
    | .ok _ =>
      let rec loop : Nat → M (List FileData)
        | 0 => pure []
        | n + 1 => do
          let f ← centralHeader archiveOffset
          -- the record is re-serialised from the DECODED name: refused when that no longer fits the
          -- 16-bit name length field (A6 repair), before the next record is read
          if f.fileName.length > 65535 then throw .unsupportedArchive else
          let rest ← loop n
          pure (appendRecord f :: rest)
      let files ← loop numberOfFiles
      let _ ← seek (.start directoryStart)
      pure { WState.init with files, comment := footer.comment, writingRaw := true }

end ZipVerif.Model
