import ZipVerif.Basic.Bytes
import ZipVerif.Basic.Out
import ZipVerif.Spec.Crc32
/-
Hand model of `/repo/src/zipcrypto.rs` and of the ZipCrypto decisions in `read.rs` / `write.rs`.

* `Keys`, `Keys.update`, `Keys.streamByte`, `decryptByte`, `encryptByte`, `derive` mirror
  `ZipCryptoKeys` (three `Wrapping<u32>`; the stream byte is computed in `Wrapping<u16>` with `| 3`).
  `crc32` indexes the crate's 256-entry table with a `u8`: the index is always in range, so the model
  function is total; that the table *contents* are the CRC-32 table is a Tie obligation
  (`Tie/ZipCrypto.lean`: `Gen.CRCTABLE = Spec.Crc32.table`).
* `Reader.validate` mirrors `ZipCryptoReader::validate` over an in-memory input: `read_exact` of 12
  bytes (short input → `io:eof`), header decrypted in place, byte 11 compared with the validator's byte.
* `Reader.read` mirrors `ZipCryptoReaderValid::read` (current tree: only the `count` bytes the inner
  reader returned are decrypted); `readWith` runs it over an arbitrary sequence of inner read sizes.
* `Writer` mirrors `ZipCryptoWriter`: `write` only buffers; `finish crc` does `buffer[11] = crc>>24`
  (an index expression: **panics** on a buffer shorter than 12 — modelled) and encrypts the whole buffer.
* `openDecision` / `makeCryptoReader` / `openEntry` mirror read.rs `by_index_with_optional_password`
  (lines 605-609) and `make_crypto_reader` for non-AES entries.
* `crcCheckedRead` is the C04 layer (`Crc32Reader` around a Stored entry) in the one-line form this
  property needs: a completed read returns `d` iff `crc32 d` equals the declared CRC.
-/

namespace ZipVerif.Model.ZipCrypto
open ZipVerif

/-- `ZipCryptoKeys` (the `Wrapping` wrappers dropped: UInt32 `+ *` wrap). -/
structure Keys where
  key0 : UInt32
  key1 : UInt32
  key2 : UInt32
  deriving DecidableEq, Repr

/-- `ZipCryptoKeys::new` -/
def Keys.new : Keys := ⟨0x12345678, 0x23456789, 0x34567890⟩

/-- `ZipCryptoKeys::crc32`: `(crc >> 8) ^ CRCTABLE[((crc & 0xff) as u8 ^ input) as usize]`. -/
def crc32 (crc : UInt32) (input : UInt8) : UInt32 :=
  (crc >>> 8) ^^^ Spec.Crc32.tableEntry ((crc &&& 0xff).toUInt8 ^^^ input)

/-- `ZipCryptoKeys::update` -/
def Keys.update (k : Keys) (input : UInt8) : Keys :=
  let key0 := crc32 k.key0 input
  let key1 := (k.key1 + (key0 &&& 0xff)) * 0x08088405 + 1
  let key2 := crc32 k.key2 (key1 >>> 24).toUInt8
  ⟨key0, key1, key2⟩

/-- `ZipCryptoKeys::stream_byte` (16-bit wrapping arithmetic, `| 3`). -/
def Keys.streamByte (k : Keys) : UInt8 :=
  let temp : UInt16 := k.key2.toUInt16 ||| 3
  ((temp * (temp ^^^ 1)) >>> 8).toUInt8

/-- `ZipCryptoKeys::decrypt_byte`: returns the plain byte and the new key state. -/
def decryptByte (k : Keys) (cipher : UInt8) : UInt8 × Keys :=
  let plain := k.streamByte ^^^ cipher
  (plain, k.update plain)

/-- `ZipCryptoKeys::encrypt_byte` -/
def encryptByte (k : Keys) (plain : UInt8) : UInt8 × Keys :=
  let cipher := k.streamByte ^^^ plain
  (cipher, k.update plain)

/-- `ZipCryptoKeys::derive` -/
def derive (password : Bytes) : Keys := password.foldl Keys.update Keys.new

/-- `for byte in buf.iter_mut() { *byte = keys.decrypt_byte(*byte) }` -/
def decryptAll (k : Keys) : Bytes → Bytes × Keys
  | [] => ([], k)
  | c :: cs =>
    let r := decryptByte k c
    let rest := decryptAll r.2 cs
    (r.1 :: rest.1, rest.2)

/-- `for byte in buffer.iter_mut() { *byte = keys.encrypt_byte(*byte) }` -/
def encryptAll (k : Keys) : Bytes → Bytes × Keys
  | [] => ([], k)
  | p :: ps =>
    let r := encryptByte k p
    let rest := encryptAll r.2 ps
    (r.1 :: rest.1, rest.2)

/-! ### Reader -/

inductive Validator
  | pkzipCrc32 (crc32 : UInt32)
  | infoZipMsdosTime (lastModTime : UInt16)
  deriving DecidableEq, Repr

/-- The byte `validate` compares `header_buf[11]` with. -/
def Validator.byte : Validator → UInt8
  | .pkzipCrc32 c => (c >>> 24).toUInt8
  | .infoZipMsdosTime t => (t >>> 8).toUInt8

/-- `ZipCryptoReader` / `ZipCryptoReaderValid` over an in-memory input: the unread rest and the keys. -/
structure Reader where
  file : Bytes
  keys : Keys
  deriving DecidableEq, Repr

/-- `ZipCryptoReader::new` -/
def Reader.new (file password : Bytes) : Reader := ⟨file, derive password⟩

/-- `ZipCryptoReader::validate`.  `ok none` = `Ok(None)` (wrong password). -/
def Reader.validate (r : Reader) (v : Validator) : Out (Option Reader) :=
  match rdN 12 r.file with
  | none => .err (.io .unexpectedEof)
  | some (hdr, rest) =>
    let d := decryptAll r.keys hdr
    if d.1[11]? = some v.byte then .ok (some ⟨rest, d.2⟩) else .ok none

/-- One `ZipCryptoReaderValid::read` call in which the inner reader hands over `count` bytes
(`count` is clipped to what is left): returns the decrypted bytes and the advanced reader. -/
def Reader.read (r : Reader) (count : Nat) : Bytes × Reader :=
  let d := decryptAll r.keys (r.file.take count)
  (d.1, ⟨r.file.drop count, d.2⟩)

/-- A sequence of reads with the given inner read sizes; the concatenated output. -/
def Reader.readWith (r : Reader) : List Nat → Bytes
  | [] => []
  | n :: ns =>
    let x := r.read n
    x.1 ++ x.2.readWith ns

/-- `read_to_end` when every inner read fills the buffer. -/
def Reader.readAll (r : Reader) : Bytes := (decryptAll r.keys r.file).1

/-- `new` + `validate` + `read_to_end`: the function-level decryption path. -/
def decrypt (password : Bytes) (v : Validator) (input : Bytes) : Out (Option Bytes) :=
  match (Reader.new input password).validate v with
  | .ok (some r) => .ok (some r.readAll)
  | .ok none => .ok none
  | .err e => .err e
  | .panic s => .panic s

/-! ### Writer -/

/-- `ZipCryptoWriter` without its sink (the sink receives the result of `finish` in one `write_all`). -/
structure Writer where
  buffer : Bytes
  keys : Keys
  deriving DecidableEq, Repr

/-- `impl Write for ZipCryptoWriter`: `write` only appends to the buffer. -/
def Writer.write (w : Writer) (buf : Bytes) : Writer := { w with buffer := w.buffer ++ buf }

/-- `ZipCryptoWriter::finish`: `self.buffer[11] = (crc32 >> 24) as u8` then encrypt everything. -/
def Writer.finish (w : Writer) (crc : UInt32) : Out Bytes :=
  if 11 < w.buffer.length then
    .ok (encryptAll w.keys (w.buffer.set 11 (crc >>> 24).toUInt8)).1
  else .panic "zipcrypto.rs finish: buffer[11] index out of bounds"

/-- write.rs `start_entry`, `if let Some(keys) = options.encrypt_with`: a fresh writer with the
keys of `with_deprecated_encryption(password)` and twelve zero header bytes buffered. -/
def Writer.start (password : Bytes) : Writer :=
  (Writer.mk [] (derive password)).write (List.replicate 12 0)

/-- An encrypted entry's stored bytes: start, the caller's (already compressed) writes, `finish_file`. -/
def writeEntry (password : Bytes) (writes : List Bytes) (crc : UInt32) : Out Bytes :=
  (writes.foldl Writer.write (Writer.start password)).finish crc

/-! ### Opening an entry (read.rs) -/

/-- read.rs:605-609.  `err passwordRequired` for `(None, true)`; `(Some, false)` discards the password. -/
def openDecision (password : Option Bytes) (encrypted : Bool) : Out (Option Bytes) :=
  match password, encrypted with
  | none, true => .err .passwordRequired
  | some _, false => .ok none
  | p, _ => .ok p

/-- read.rs:243-247: the validator `make_crypto_reader` picks. -/
def chooseValidator (usingDataDescriptor : Bool) (crc : UInt32) (timepart : UInt16) : Validator :=
  if usingDataDescriptor then .infoZipMsdosTime timepart else .pkzipCrc32 crc

inductive Opened
  | plaintext (data : Bytes)         -- `CryptoReader::Plaintext`
  | zipCrypto (r : Reader)           -- `CryptoReader::ZipCrypto`
  | invalidPassword                  -- `Ok(Err(InvalidPassword))`
  deriving DecidableEq, Repr

/-- `make_crypto_reader` for an entry without AES extra field and with a supported method. -/
def makeCryptoReader (password : Option Bytes) (usingDataDescriptor : Bool) (crc : UInt32)
    (timepart : UInt16) (raw : Bytes) : Out Opened :=
  match password with
  | some pw =>
    match (Reader.new raw pw).validate (chooseValidator usingDataDescriptor crc timepart) with
    | .ok (some r) => .ok (.zipCrypto r)
    | .ok none => .ok .invalidPassword
    | .err e => .err e
    | .panic s => .panic s
  | none => .ok (.plaintext raw)

/-- `by_index_with_optional_password` after `find_content` delivered the entry's stored bytes. -/
def openEntry (password : Option Bytes) (encrypted usingDataDescriptor : Bool) (crc : UInt32)
    (timepart : UInt16) (raw : Bytes) : Out Opened :=
  match openDecision password encrypted with
  | .ok p => makeCryptoReader p usingDataDescriptor crc timepart raw
  | .err e => .err e
  | .panic s => .panic s

/-- `by_index` / `by_name` (no password; current tree maps an inner `InvalidPassword` to the
password-required error instead of unwrapping it). -/
def byIndex (encrypted usingDataDescriptor : Bool) (crc : UInt32) (timepart : UInt16) (raw : Bytes) :
    Out Opened :=
  match openEntry none encrypted usingDataDescriptor crc timepart raw with
  | .ok .invalidPassword => .err .passwordRequired
  | o => o

/-- The C04 layer in the form needed here: `Crc32Reader` lets a read of a Stored entry complete
exactly when the CRC-32 of everything delivered equals the declared value, otherwise the read ends in
`io::ErrorKind::Other` ("Invalid checksum"). -/
def crcCheckedRead (crc : UInt32) (data : Bytes) : Out Bytes :=
  if Spec.Crc32.crc32 data = crc then .ok data else .err (.io .other)

/-- Opening a Stored entry and reading it to the end. `ok none` = `InvalidPassword`. -/
def readStoredEntry (password : Option Bytes) (encrypted usingDataDescriptor : Bool) (crc : UInt32)
    (timepart : UInt16) (raw : Bytes) : Out (Option Bytes) :=
  match openEntry password encrypted usingDataDescriptor crc timepart raw with
  | .ok (.plaintext d) => some <$> crcCheckedRead crc d
  | .ok (.zipCrypto r) => some <$> crcCheckedRead crc r.readAll
  | .ok .invalidPassword => .ok none
  | .err e => .err e
  | .panic s => .panic s

/-- Opening an entry of ANY method and reading it to the end.  The decoder is a parameter (`decode`:
flate2 / bzip2 / zstd applied to the whole decrypted stream; `Out.ok` for Stored): read.rs stacks
`Crc32Reader(decoder(CryptoReader(Take)))`, so the decoder sits between the decryption layer and the
CRC gate, and its error (corrupt stream under a wrong password that passed the check byte) is the
read's error. `ok none` = `InvalidPassword`. -/
def readEntry (decode : Bytes → Out Bytes) (password : Option Bytes)
    (encrypted usingDataDescriptor : Bool) (crc : UInt32) (timepart : UInt16) (raw : Bytes) :
    Out (Option Bytes) :=
  match openEntry password encrypted usingDataDescriptor crc timepart raw with
  | .ok (.plaintext d) => some <$> (decode d >>= crcCheckedRead crc)
  | .ok (.zipCrypto r) => some <$> (decode r.readAll >>= crcCheckedRead crc)
  | .ok .invalidPassword => .ok none
  | .err e => .err e
  | .panic s => .panic s

/-- `by_index` / `by_name` (no password) followed by a read to the end. -/
def readEntryNoPassword (decode : Bytes → Out Bytes) (encrypted usingDataDescriptor : Bool) (crc : UInt32)
    (timepart : UInt16) (raw : Bytes) : Out (Option Bytes) :=
  match byIndex encrypted usingDataDescriptor crc timepart raw with
  | .ok (.plaintext d) => some <$> (decode d >>= crcCheckedRead crc)
  | .ok (.zipCrypto r) => some <$> (decode r.readAll >>= crcCheckedRead crc)
  | .ok .invalidPassword => .ok none
  | .err e => .err e
  | .panic s => .panic s

end ZipVerif.Model.ZipCrypto
