import ZipVerif.Lemmas.WLOrigin
import ZipVerif.Props.C03
/-
C01 — What the writer writes, the reader reads back (Level 1).

The basis is `writer_emits_layout`: on a fault-free sink, after any script of Level-1 calls
(`start_file`, `add_directory`, `add_symlink` — unencrypted —, `write`, `set_comment`,
`raw_copy_file`, misuse of the extra-data calls), if `finish` returns `Ok` the live part of the sink
is EXACTLY `Spec.Zip.build (WL.layoutOf es gap comment [])`, where the entries `es`, the dead bytes
`gap` and the comment are computed from the calls and their outcomes alone by the ghost fold
`WL.ghostOf` (Lemmas/WLRun.lean).  Composed with C03 (`reader_on_wf`, `reader_entry_*`) this gives
the round trip.

Lemma layers: `Lemmas/WLBytes.lean` (`writeAt`, live part of a device), `Lemmas/WLRecords.lean`
(serialisers = specification records), `Lemmas/WLSteps.lean` (internal writer functions),
`Lemmas/WLRun.lean` (ghost state, invariant `Lay`, one lemma per call, induction over scripts).
-/

namespace ZipVerif.Props.C01
open ZipVerif ZipVerif.Model ZipVerif.Spec.Zip ZipVerif.WL
open ZipVerif.Props.C12 (Call step runCalls)

/-! ## 1. The writer emits a layout -/

theorem build_trailing (es : List Spec.Zip.Entry) (gap c t : Bytes) :
    build (layoutOf es gap c t) = build (layoutOf es gap c []) ++ t := by
  have e1 : (layoutOf es gap c t).end64 = (layoutOf es gap c []).end64 := rfl
  have e2 : (layoutOf es gap c t).eocd = (layoutOf es gap c []).eocd := rfl
  have e3 : (layoutOf es gap c t).cdBytes = (layoutOf es gap c []).cdBytes := rfl
  unfold build
  rw [e1, e2, e3]
  simp only [layoutOf, List.append_nil, List.append_assoc]

/-- **`writer_emits_layout`** (general form: from ANY writer state / device in step with a ghost state
`g0` — a fresh writer, or the state `new_append` returns).  After a script of Level-1 calls, if the
ghost can be closed (it is neither poisoned, nor stuck on an entry whose stored size does not fit a
non-ZIP64 header — `finish` fails in both cases, `dead_finish_fails` / `stuck_finish_fails` /
`overflow_finish_fails` —, nor `lost`: a panic outcome, a sink position ≥ 2^64 or a pre-1980 timestamp,
all outside the property's quantifier) and `finish` returns `Ok`, then the live part
of the sink is exactly the layout's bytes; the whole sink is the layout with the stale rest (at most
`r` bytes) as `trailing`; and the writer is closed. -/
theorem writer_emits_layout (ext : WExt) (calls : List Call) (hc : ∀ c ∈ calls, Level1 c)
    (ha : ∀ c ∈ calls, c.Admissible) (r : Nat) (g0 : Ghost) (s0 : WState) (d0 : Dev)
    (hI : Inv s0) (h0 : Lay r g0 s0 d0)
    (es : List Spec.Zip.Entry) (gap c : Bytes)
    (hg : (ghostOf ext g0 calls (runCalls ext calls s0 none d0).1).close ext = some (es, gap, c))
    (v : Option Nat) (s' : WState) (d' : Dev)
    (hfin : step ext .finish (runCalls ext calls s0 none d0).2.1 none
      (runCalls ext calls s0 none d0).2.2 = (.ok (.ok v, s'), d')) :
    d'.buf.take d'.pos = build (layoutOf es gap c []) ∧
    d'.buf = build (layoutOf es gap c (d'.buf.drop d'.pos)) ∧
    d'.pos ≤ d'.buf.length ∧ d'.buf.length ≤ d'.pos + r ∧
    c.length ≤ 65535 ∧ s'.inner = .closed := by
  have hL := run_lay ext calls hc ha r g0 s0 d0 hI h0
  generalize ghostOf ext g0 calls (runCalls ext calls s0 none d0).1 = g at hL hg
  generalize (runCalls ext calls s0 none d0).2.1 = s at hL hfin
  generalize (runCalls ext calls s0 none d0).2.2 = d at hL hfin
  have h3 := (C12.mapStep_wsat (fun _ => (none : Option Nat)) (finish ext) s none d _
    (fun rs d' => ∀ v, rs.1 = .ok v →
      (¬ c.length > 65535 ∧ LiveAt d' d'.pos (build (layoutOf es gap c [])) r) ∧ rs.2.inner = .closed)
    (finish_ghost ext hL hg) (by
      intro r1 s1 d1 ⟨hpost, hcl⟩
      cases r1 with
      | error e => intro v hv; cases hv
      | ok u =>
        intro v _
        refine ⟨?_, hcl rfl⟩
        unfold FinalPost at hpost
        by_cases hlong : c.length > 65535
        · rw [if_pos hlong] at hpost; cases hpost.1
        · rw [if_neg hlong] at hpost; exact ⟨hlong, hpost.2⟩)).elim hfin
  obtain ⟨⟨hclen, hl⟩, hcl⟩ := h3 v rfl
  refine ⟨hl.eq, ?_, hl.le, hl.rest, by omega, hcl⟩
  rw [build_trailing, ← hl.eq, List.take_append_drop]

/-- **`writer_emits_layout`, fresh writer** (`ZipWriter::new` on an empty sink): the sink is exactly
`build (layoutOf es gap comment [])`. -/
theorem writer_emits_layout_fresh (ext : WExt) (calls : List Call) (hc : ∀ c ∈ calls, Level1 c)
    (ha : ∀ c ∈ calls, c.Admissible)
    (es : List Spec.Zip.Entry) (gap c : Bytes)
    (hg : (ghostOf ext (.idle [] [] []) calls
      (runCalls ext calls WState.init none (Dev.ofBytes [])).1).close ext = some (es, gap, c))
    (v : Option Nat) (s' : WState) (d' : Dev)
    (hfin : step ext .finish (runCalls ext calls WState.init none (Dev.ofBytes [])).2.1 none
      (runCalls ext calls WState.init none (Dev.ofBytes [])).2.2 = (.ok (.ok v, s'), d')) :
    d'.buf = build (layoutOf es gap c []) ∧ c.length ≤ 65535 ∧ s'.inner = .closed := by
  obtain ⟨h1, _, h3, h4, h5, h6⟩ := writer_emits_layout ext calls hc ha 0 _ _ _ inv_init lay_init_empty
    es gap c hg v s' d' hfin
  refine ⟨?_, h5, h6⟩
  rw [← h1, List.take_of_length_le (by omega)]

/-- **`finish` succeeds** (total form: it returns, and returns `Ok`, unless the sink position has left
the `u64` range): after a Level-1 script, when the ghost closes and the comment fits its length
field, `finish` returns `Ok` and the live part of the sink is the layout. -/
theorem finish_succeeds (ext : WExt) (calls : List Call) (hc : ∀ c ∈ calls, Level1 c)
    (ha : ∀ c ∈ calls, c.Admissible) (r : Nat) (g0 : Ghost) (s0 : WState) (d0 : Dev)
    (hI : Inv s0) (h0 : Lay r g0 s0 d0)
    (es : List Spec.Zip.Entry) (gap c : Bytes) (hclen : c.length ≤ 65535)
    (hg : (ghostOf ext g0 calls (runCalls ext calls s0 none d0).1).close ext = some (es, gap, c)) :
    Sat (finish ext (runCalls ext calls s0 none d0).2.1) none (runCalls ext calls s0 none d0).2.2
      (fun rs d' => rs.1 = .ok () ∧ d'.buf.take d'.pos = build (layoutOf es gap c [])) := by
  have hL := run_lay ext calls hc ha r g0 s0 d0 hI h0
  have hI' := (C12.run_inv ext calls ha s0 hI none d0).1
  apply Sat.mono ((finish_sat ext _ hI' none _).andW (finish_ghost ext hL hg))
  intro rs d' ⟨_, hpost, _⟩
  unfold FinalPost at hpost
  rw [if_neg (by omega)] at hpost
  exact ⟨hpost.1, hpost.2.eq⟩

/-- A poisoned writer (the ghost is `dead`: a refused method/level, or more than 4 GiB written to a
non-ZIP64 entry) cannot be finished: `finish` returns an error and writes nothing. -/
theorem dead_finish_fails (ext : WExt) (calls : List Call) (hc : ∀ c ∈ calls, Level1 c)
    (ha : ∀ c ∈ calls, c.Admissible) (r : Nat) (g0 : Ghost) (s0 : WState) (d0 : Dev)
    (hI : Inv s0) (h0 : Lay r g0 s0 d0)
    (hg : ghostOf ext g0 calls (runCalls ext calls s0 none d0).1 = .dead) :
    ∃ e, finish ext (runCalls ext calls s0 none d0).2.1 =
      pure (.error e, (runCalls ext calls s0 none d0).2.1) := by
  have hL := run_lay ext calls hc ha r g0 s0 d0 hI h0
  rw [hg] at hL
  exact finish_closed ext hL

/-- A stuck writer (the ghost is `stuck`: a non-ZIP64 entry with more than 0xFFFFFFFF stored bytes —
`update_local_file_header` refuses it BEFORE touching the sink, so nothing is corrupted and every later
close is refused the same way) cannot be finished either: `finish` returns an error. -/
theorem stuck_finish_fails (ext : WExt) (calls : List Call) (hc : ∀ c ∈ calls, Level1 c)
    (ha : ∀ c ∈ calls, c.Admissible) (r : Nat) (g0 : Ghost) (s0 : WState) (d0 : Dev)
    (hI : Inv s0) (h0 : Lay r g0 s0 d0) (ss n : Nat) (wf : Bool)
    (hg : ghostOf ext g0 calls (runCalls ext calls s0 none d0).1 = .stuck ss n wf)
    (rs : Except ZErr Unit × WState) (d' : Dev)
    (hfin : finish ext (runCalls ext calls s0 none d0).2.1 none (runCalls ext calls s0 none d0).2.2 =
      (.ok rs, d')) : ∃ e, rs.1 = .error e := by
  have hL := run_lay ext calls hc ha r g0 s0 d0 hI h0
  rw [hg] at hL
  exact (finish_stuck ext hL).elim hfin

/-- … and so does `finish` called directly on the open entry that cannot be closed (the ghost is still
`opened`, `Ghost.stuckAt` says the close is refused). -/
theorem overflow_finish_fails (ext : WExt) (calls : List Call) (hc : ∀ c ∈ calls, Level1 c)
    (ha : ∀ c ∈ calls, c.Admissible) (r : Nat) (g0 : Ghost) (s0 : WState) (d0 : Dev)
    (hI : Inv s0) (h0 : Lay r g0 s0 d0) (ss n : Nat) (wf : Bool)
    (hg : (ghostOf ext g0 calls (runCalls ext calls s0 none d0).1).stuckAt ext = some (ss, n, wf))
    (rs : Except ZErr Unit × WState) (d' : Dev)
    (hfin : finish ext (runCalls ext calls s0 none d0).2.1 none (runCalls ext calls s0 none d0).2.2 =
      (.ok rs, d')) : ∃ e, rs.1 = .error e := by
  have hL := run_lay ext calls hc ha r g0 s0 d0 hI h0
  exact (finish_ghost_stuck ext hL hg).elim hfin

/-- **`finish_eq_drop`** — `finish` and `Drop` leave identical sinks (contents, position, I/O call
count), on every device and for every fault index on which finalisation SUCCEEDS (`hplain`: a
successful `finalize` leaves the plain storer behind — `finalize_sat` gives it from any `Inv` state).
When finalisation fails, `finish` reports the error and the writer lives on; a dropped writer's
still-alive Deflate/Bzip2 encoder then flushes its stream into the sink from its destructor
(`Model.dropInner`), so the statement is about successful finalisation. -/
theorem finish_eq_drop (ext : WExt) (s : WState) (hs : s.inner.isClosed = false) (fa : Option Nat)
    (d : Dev) (u : Unit) (s1 : WState) (d1 : Dev)
    (hf : finalize ext s fa d = (.ok (.ok u, s1), d1)) (hplain : s1.inner = .storer none) :
    (finish ext s fa d).2 = (dropWriter ext s fa d).2 := finish_drop_dev ext s hs fa d u s1 d1 hf hplain

/-- … and so what `Drop` leaves after a script is the same layout. -/
theorem drop_emits_layout (ext : WExt) (calls : List Call) (hc : ∀ c ∈ calls, Level1 c)
    (ha : ∀ c ∈ calls, c.Admissible) (r : Nat) (g0 : Ghost) (s0 : WState) (d0 : Dev)
    (hI : Inv s0) (h0 : Lay r g0 s0 d0)
    (es : List Spec.Zip.Entry) (gap c : Bytes) (hclen : c.length ≤ 65535)
    (hg : (ghostOf ext g0 calls (runCalls ext calls s0 none d0).1).close ext = some (es, gap, c))
    (v : Option Nat) (s' : WState) (d' : Dev)
    (hfin : step ext .drop (runCalls ext calls s0 none d0).2.1 none
      (runCalls ext calls s0 none d0).2.2 = (.ok (.ok v, s'), d')) :
    d'.buf.take d'.pos = build (layoutOf es gap c []) ∧
    d'.buf = build (layoutOf es gap c (d'.buf.drop d'.pos)) := by
  have hL := run_lay ext calls hc ha r g0 s0 d0 hI h0
  generalize ghostOf ext g0 calls (runCalls ext calls s0 none d0).1 = g at hL hg
  generalize (runCalls ext calls s0 none d0).2.1 = s at hL hfin
  generalize (runCalls ext calls s0 none d0).2.2 = d at hL hfin
  have h3 := (C12.mapStep_wsat (fun _ => (none : Option Nat)) (dropWriter ext) s none d _
    (fun _ d' => LiveAt d' d'.pos (build (layoutOf es gap c [])) r)
    (drop_ghost ext hL hg (by omega)) (by
      intro r1 s1 d1 ⟨_, hpost⟩
      exact hpost)).elim hfin
  refine ⟨h3.eq, ?_⟩
  rw [build_trailing, ← h3.eq, List.take_append_drop]

/-! ## 2. The round trip -/

/-- the ghost after the script, and the origins of the entries `finish` emits -/
def finalGhost (ext : WExt) (calls : List Call) : Ghost :=
  ghostOf ext (.idle [] [] []) calls (runCalls ext calls WState.init none (Dev.ofBytes [])).1

def finalOrigins (ext : WExt) (calls : List Call) : List Origin :=
  (finalGhost ext calls).closeOrigins
    (originsOf ext (.idle [] [] []) [] calls (runCalls ext calls WState.init none (Dev.ofBytes [])).1)

/-- **`write_read_roundtrip`** (C01, archive level).  A fresh writer, any script of Level-1 calls
(raw copies of non-AES sources), `finish` returns `Ok`.  Under the property's own exclusion
"names/comments/data do not embed record signatures" (`NoFalseSig`), a total size below 2^63 and
plaintext sizes below 2^63:
* the sink is exactly the layout `L = layoutOf es gap c []` computed from the calls;
* `ZipArchive::new` on the sink succeeds and returns the entries of `L` in order (`viewOf L`: names,
  methods, times, attributes, sizes, CRCs as recorded — spelled out by `entry_view_fields` below),
  one per origin, `offset() = 0`, and the archive comment set by the last `set_comment`;
* `Layout.Fits` and `Layout.Readable` are DISCHARGED from the writer's own checks (they are
  conclusions, not hypotheses). -/
theorem write_read_roundtrip (ext : WExt) (calls : List Call) (hc : ∀ c ∈ calls, Level1R c)
    (ha : ∀ c ∈ calls, c.Admissible) (es : List Spec.Zip.Entry) (gap c : Bytes)
    (hg : (finalGhost ext calls).close ext = some (es, gap, c))
    (v : Option Nat) (s' : WState) (d' : Dev)
    (hfin : step ext .finish (runCalls ext calls WState.init none (Dev.ofBytes [])).2.1 none
      (runCalls ext calls WState.init none (Dev.ofBytes [])).2.2 = (.ok (.ok v, s'), d'))
    (hS : C03.NoFalseSig (layoutOf es gap c []))
    (hsize : (build (layoutOf es gap c [])).length < 2 ^ 63)
    (hu : ∀ e ∈ es, e.usize.toNat < 2 ^ 63) :
    d'.buf = build (layoutOf es gap c []) ∧
    (layoutOf es gap c []).Fits ∧ (layoutOf es gap c []).Readable ∧
    Forall2 (OriginRel ext) (finalOrigins ext calls) es ∧
    ∃ d1, openArchive.runPure (Dev.ofBytes d'.buf) = (.ok (archiveOf (layoutOf es gap c [])), d1) ∧
      d1.buf = build (layoutOf es gap c []) ∧
      (archiveOf (layoutOf es gap c [])).comment = c ∧
      (archiveOf (layoutOf es gap c [])).offset = 0 ∧
      (archiveOf (layoutOf es gap c [])).files = viewOf (layoutOf es gap c []) ∧
      (archiveOf (layoutOf es gap c [])).files.length = es.length := by
  have hc1 : ∀ c ∈ calls, Level1 c := fun c h => (hc c h).level1
  obtain ⟨hbuf, hclen, _⟩ := writer_emits_layout_fresh ext calls hc1 ha es gap c hg v s' d' hfin
  have hgood : Good (finalGhost ext calls) :=
    good_run ext calls _ _ hc (show Good (.idle [] [] []) from fun e he => by cases he)
  obtain ⟨hF, hR⟩ := layout_fits_readable gap c [] (hgood.close hg) hclen hsize hu
  have htr := traced_final (traced_run ext calls _ _ _ (traced_init ext [] [])) hg
  obtain ⟨d1, h1, h2⟩ := C03.reader_on_wf _ hF hR hS (Or.inl rfl)
  refine ⟨hbuf, hF, hR, htr, d1, by rw [hbuf]; exact h1, h2, rfl, rfl, rfl, ?_⟩
  exact (C03.archive_fields _).2.2.2

/-- Raw read-back: `by_index_raw(i)` on the produced archive returns exactly the stored bytes of
entry `i` (for a raw copy: the bytes that were copied). -/
theorem roundtrip_entry_raw {es : List Spec.Zip.Entry} {gap c : Bytes}
    (hF : (layoutOf es gap c []).Fits) (i : Nat) (e : Spec.Zip.Entry) (he : es[i]? = some e)
    (d : Dev) (hd : d.buf = build (layoutOf es gap c [])) :
    ∃ ds d', (byIndexRaw (archiveOf (layoutOf es gap c [])) i).runPure d = (.ok (ds, e.data), d') ∧
      d'.buf = build (layoutOf es gap c []) := by
  obtain ⟨off, d', _, h2, h3⟩ := C03.reader_entry_raw _ hF i e he d hd
  exact ⟨_, d', h2, h3⟩

theorem fromU16_toU16 {m : Method} (h : writable m = true) : Method.fromU16 m.toU16 = m := by
  cases m with
  | aes => simp [writable] at h
  | unsupported v => simp [writable] at h
  | stored => decide
  | deflated => decide
  | bzip2 => decide
  | zstd => decide

/-- **Reading entry `i` returns its plaintext.**  Entry `i` was started through the writer with
record `f` (unencrypted, a method the writer has an encoder for) and the `write` calls delivered
`plain`; the codec round-trips on it (`Stored` is the identity; for the compressing methods this is
the external-code hypothesis `decode m (compress m l p) = p`).  Then `by_index(i)` read to the end
returns exactly `plain` — the CRC check against the recorded CRC-32 passes. -/
theorem roundtrip_entry_plain (wext : WExt) (rext : Ext) {es : List Spec.Zip.Entry} {gap c : Bytes}
    (hF : (layoutOf es gap c []).Fits) (i : Nat) (e : Spec.Zip.Entry) (he : es[i]? = some e)
    (f : FileData) (plain : Bytes) (hrel : OriginRel wext (.written f plain) e)
    (henc : f.encrypted = false) (hw : writable f.method = true)
    (hcodec : rext.decode f.method (dataOf wext f plain) = .ok plain)
    (pw : Option Bytes) (d : Dev) (hd : d.buf = build (layoutOf es gap c [])) :
    ∃ ds d', (byIndexRead rext (archiveOf (layoutOf es gap c [])) i pw).runPure d =
        (.ok (.ok (ds, .ok plain)), d') ∧ d'.buf = build (layoutOf es gap c []) := by
  obtain ⟨dp, gap0, _, hre⟩ := hrel
  have hm : Method.fromU16 e.method = f.method := by rw [hre]; exact fromU16_toU16 hw
  refine C03.reader_entry_decoded rext _ hF i e he pw ?_ ?_ plain ?_ ?_ d hd
  · rw [hre]; exact flagOf_plain _ henc
  · rw [hm]; cases hf : f.method <;> simp_all [writable, Method.decodable]
  · rw [hm, hre]; exact hcodec
  · rw [hre]; rfl

/-- What the reader reports for an entry written through the writer, field by field: the raw name,
the method, the DOS time, the attributes (hence the Unix mode), CRC-32 = CRC-32 of the plaintext,
uncompressed size = its length, compressed size = length of the stored bytes. -/
theorem entry_view_fields (wext : WExt) (e : Spec.Zip.Entry) (f : FileData) (plain : Bytes)
    (hrel : OriginRel wext (.written f plain) e) (hw : writable f.method = true) (off pre chs : Nat) :
    let v := viewEntry e off pre chs
    v.fileNameRaw = f.fileName ∧ v.method = f.method ∧
    v.crc32 = Spec.Crc32.crc32 plain ∧ v.uncompressedSize = UInt64.ofNat plain.length ∧
    v.compressedSize = UInt64.ofNat (dataOf wext f plain).length ∧
    (∃ dp, f.time.datepart = some dp ∧ v.time = DateTime.fromMsdos dp f.time.timepart) ∧
    v.externalAttributes = f.externalAttributes ∧
    v.unixMode.map UInt32.toNat =
      unixModeSpec ((f.system.discr <<< 8) ||| f.versionMadeBy.toUInt16) f.externalAttributes := by
  obtain ⟨dp, gap0, hdp, hre⟩ := hrel
  subst hre
  refine ⟨rfl, fromU16_toU16 hw, rfl, rfl, rfl, ⟨dp, hdp, rfl⟩, rfl, ?_⟩
  exact C03.unix_mode_spec _ off pre chs

/-- The record `start_entry` pushes carries the call's arguments: name, method, level, time, and the
permissions in the upper half of the external attributes, host system Unix. -/
theorem mkRec_fields (name : Bytes) (o : FileOptions) (raw : Option (UInt32 × UInt64 × UInt64))
    (hs : Nat) (ds : UInt64) :
    (mkRec name o raw hs ds).fileName = name ∧ (mkRec name o raw hs ds).method = o.method ∧
    (mkRec name o raw hs ds).level = o.level ∧ (mkRec name o raw hs ds).time = o.time ∧
    (mkRec name o raw hs ds).externalAttributes = (o.permissions.getD 0o100644) <<< 16 ∧
    (mkRec name o raw hs ds).system = .unix ∧
    (mkRec name o raw hs ds).encrypted = o.encryptWith.isSome :=
  ⟨rfl, rfl, rfl, rfl, rfl, rfl, rfl⟩

/-! ## 3. Non-vacuity: concrete scripts evaluated through the model by the kernel -/

/-- a toy codec: "compression" appends a marker byte, decoding strips it -/
def wext1 : WExt := ⟨fun _ _ b => b ++ [0xEE], fun _ b => b⟩
def rext1 : Ext :=
  { decode := fun m b => if m = .stored then .ok b else .ok b.dropLast
    zipCrypto := fun _ _ _ => .ok none
    aes := fun _ _ _ _ => .ok none }

/-- the source entry of a raw copy (Deflated, 3 stored bytes) -/
def srcRec : FileData :=
  { (default : FileData) with method := .deflated, crc32 := 0x12345678, compressedSize := 3, uncompressedSize := 7, time := DateTime.default }

/-- misuse (write before any file, write after a directory, `end_extra_data` never begun) mixed with a
stored file written in two pieces, a directory, a "compressed" file and a comment -/
def script1 : List Call :=
  [.write [9], .startFile [0x61] (C12.opts .stored none), .write [1, 2, 3], .write [4],
   .addDirectory [0x64] (C12.opts .stored none), .write [7], .endExtraData,
   .startFile [0x62] (C12.opts .deflated (some 6)), .write [5, 6], .setComment [0x68, 0x69]]

/-- a raw copy, a stray `write` after it (its byte becomes dead bytes before the next record), a symlink -/
def script2 : List Call :=
  [.rawCopy srcRec [0xA, 0xB, 0xC] [0x72], .write [0x99],
   .addSymlink [0x6c] [0x61] (C12.opts .stored none)]

def finishDev (ext : WExt) (calls : List Call) : Option Dev :=
  let run := runCalls ext calls WState.init none (Dev.ofBytes [])
  match step ext .finish run.2.1 none run.2.2 with
  | (.ok (.ok _, _), d') => some d'
  | _ => none

example : ∀ c ∈ script1 ++ script2, Level1R c ∧ c.Admissible := by decide

/-- `writer_emits_layout_fresh` on `script1`: its hypotheses hold (the ghost closes, `finish` is `Ok`),
and the conclusion is what the model computes; the entries are the expected ones. -/
example :
    (match (finalGhost wext1 script1).close wext1, finishDev wext1 script1 with
     | some (es, gap, c), some d' =>
       d'.buf == build (layoutOf es gap c []) && c == [0x68, 0x69] &&
       es.map Spec.Zip.Entry.name == [[0x61], [0x64, 0x2f], [0x62]] &&
       es.map Spec.Zip.Entry.data == [[1, 2, 3, 4], [], [5, 6, 0xEE]]
     | _, _ => false) = true := by decide +kernel

example :
    (match (finalGhost wext1 script2).close wext1, finishDev wext1 script2 with
     | some (es, gap, c), some d' =>
       d'.buf == build (layoutOf es gap c []) &&
       es.map Spec.Zip.Entry.name == [[0x72], [0x6c]] &&
       es.map Spec.Zip.Entry.data == [[0xA, 0xB, 0xC], [0x61]] &&
       es.map Spec.Zip.Entry.gapBefore == [[], [0x99]]
     | _, _ => false) = true := by decide +kernel

/-- the remaining hypotheses of `write_read_roundtrip` on `script1` -/
example :
    (match (finalGhost wext1 script1).close wext1 with
     | some (es, gap, c) =>
       decide (Spec.Zip.NoFalseSig (layoutOf es gap c [])) &&
       decide ((build (layoutOf es gap c [])).length < 2 ^ 63) &&
       decide (∀ e ∈ es, e.usize.toNat < 2 ^ 63)
     | none => false) = true := by decide +kernel

/-- … and the reader model really returns the expected entries and the plaintext of entry 2 (through
the toy decoder) on the bytes the writer model produced -/
example :
    (match finishDev wext1 script1 with
     | some d' =>
       (match openArchive.runPure (Dev.ofBytes d'.buf) with
        | (.ok a, d1) =>
          a.comment == [0x68, 0x69] && a.files.map (·.fileName) == [[0x61], [0x64, 0x2f], [0x62]] &&
          a.files.map (·.method) == [.stored, .stored, .deflated] &&
          a.files.map (·.unixMode) == [some 0o100644, some 0o40755, some 0o100644] &&
          a.files.map (·.crc32) == [Spec.Crc32.crc32 [1, 2, 3, 4], 0, Spec.Crc32.crc32 [5, 6]] &&
          (match ((byIndexRead rext1 a 2 none).runPure d1).1 with
           | .ok (.ok (_, .ok content)) => content == [5, 6]
           | _ => false)
        | _ => false)
     | none => false) = true := by decide +kernel

/-- the origins of `script1`: three entries written through the writer, with their plaintexts -/
example :
    (match finalOrigins wext1 script1 with
     | [.written f1 p1, .written f2 p2, .written f3 p3] =>
       f1.fileName == [0x61] && p1 == [1, 2, 3, 4] && f2.fileName == [0x64, 0x2f] && p2 == [] &&
       f3.fileName == [0x62] && p3 == [5, 6] && f3.method == .deflated &&
       !f1.encrypted && writable f3.method &&
       (match rext1.decode f3.method (dataOf wext1 f3 p3) with | .ok b => b == p3 | _ => false)
     | _ => false) = true := by decide +kernel

/-- The general form of `writer_emits_layout` applies to the state `new_append` REALLY returns (the
model's `newAppend` run on the bytes the writer model produced for `oldScript`): shape (A) of the
invariant holds with `done` = the old entries (`layIdleB_sound`), so does the C12 invariant
(`inv_idle`); and after `set_comment("")` + `finish` the sink is the layout of the old entries with the
40 bytes of the old, longer end record left over as `trailing`. -/
def oldScript : List Call :=
  [.startFile [0x61] (C12.opts .stored none), .write [1, 2, 3], .setComment (List.replicate 40 0x41)]

example :
    (match (finalGhost wext1 oldScript).close wext1, finishDev wext1 oldScript with
     | some (es, gap, c), some d0 =>
       (match newAppend none (Dev.ofBytes d0.buf) with
        | (.ok s, d) =>
          layIdleB es gap s d && s.comment == c && !s.centralOnly &&
          s.files.all (fun f => decide (¬ f.time.year < 1980)) &&
          (let calls : List Call := [.setComment []]
           let run := runCalls wext1 calls s none d
           match (ghostOf wext1 (.idle es gap s.comment) calls run.1).close wext1,
             step wext1 .finish run.2.1 none run.2.2 with
           | some (es', gap', c'), (.ok (.ok _, _), d') =>
             d'.buf == build (layoutOf es' gap' c' (d'.buf.drop d'.pos)) &&
             d'.buf.take d'.pos == build (layoutOf es' gap' c' []) &&
             (d'.buf.drop d'.pos).length == 40 && es'.length == 1 && c' == []
           | _, _ => false)
        | _ => false)
     | _, _ => false) = true := by decide +kernel

/-- a poisoned script: an unsupported method makes `start_file` fail and the ghost `dead`;
`finish` then fails (`dead_finish_fails`) -/
example :
    (match finalGhost wext1 [.startFile [0x61] (C12.opts (.unsupported 1) none)] with
     | .dead => true
     | _ => false) = true ∧
    finishDev wext1 [.startFile [0x61] (C12.opts (.unsupported 1) none)] = none := by decide +kernel

end ZipVerif.Props.C01
