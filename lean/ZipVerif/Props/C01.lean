import ZipVerif.Props.C12
/-
C01 — Write then read returns exactly what was written.

First layer (this file, until the writer-emits-layout development `Lemmas/WL*.lean` is merged):
* `finish_eq_drop`: `finish()` and dropping the writer leave identical bytes in the sink, for every
  state, device and fault index;
* `directory_is_the_calls_partial`: what `finish()` writes as the central directory is exactly the log
  of successful creations with the CRC-32 / length of the bytes successfully written (C12's tracking
  theorem, restated);
* kernel-evaluated round trips of concrete call sequences through writer model and reader model
  (TESTS of the composition, labelled as such).
The archive-level theorem (`write_read_roundtrip`: the reader model applied to the sink returns these
entries) is the subject of `Lemmas/WL*.lean`.
-/

namespace ZipVerif.Props.C01
open ZipVerif ZipVerif.Model

/-- `finish` = `finalize`, then (purely) closing the writer. -/
theorem finish_device (ext : WExt) (s : WState) (fa : Option Nat) (d : Dev) :
    (finish ext s fa d).2 = (finalize ext s fa d).2 := by
  unfold finish
  rw [M.bind_apply]
  cases h : finalize ext s fa d with
  | mk o d1 =>
    cases o with
    | ok rs =>
      obtain ⟨r, s1⟩ := rs
      cases r with
      | error e => rfl
      | ok u =>
        dsimp only
        cases s1.inner with
        | closed => rfl
        | storer enc => cases enc <;> rfl
        | compressor m l enc p => rfl
    | err e => rfl
    | panic site => rfl

/-- Dropping an open writer = `finalize`, the result discarded. -/
theorem drop_device (ext : WExt) (s : WState) (hs : s.inner.isClosed = false) (fa : Option Nat) (d : Dev) :
    (dropWriter ext s fa d).2 = (finalize ext s fa d).2 := by
  unfold dropWriter
  simp only [hs, Bool.false_eq_true, if_false]
  rw [M.bind_apply]
  cases h : finalize ext s fa d with
  | mk o d1 =>
    cases o with
    | ok rs => rfl
    | err e => rfl
    | panic site => rfl

/-- **`finish()` and drop produce identical bytes** — for every writer state that is still open,
every sink and every fault index: the same sink contents, position and I/O call count. -/
theorem finish_eq_drop (ext : WExt) (s : WState) (hs : s.inner.isClosed = false) (fa : Option Nat)
    (d : Dev) : (finish ext s fa d).2 = (dropWriter ext s fa d).2 := by
  rw [finish_device, drop_device ext s hs]

/-- Dropping a writer that was already finished (or poisoned) touches nothing. -/
theorem drop_after_finish_noop (ext : WExt) (s : WState) (hs : s.inner.isClosed = true)
    (fa : Option Nat) (d : Dev) : dropWriter ext s fa d = (.ok (.ok (), s), d) := by
  unfold dropWriter
  simp only [hs, if_true]
  rfl

example : (WState.init).inner.isClosed = false := rfl

/-- **The central directory `finish()` writes is the log of the successful calls** (fragment without
extra-data mode, fault-free sink; `Props.C12.files_track_calls_partial`): entries in call order, each
with `crc32 = CRC-32(bytes successfully written)` and `uncompressed_size = their number`; raw copies
with their source's values. -/
theorem directory_is_the_calls_partial (ext : WExt) (calls : List C12.Call)
    (hc : ∀ c ∈ calls, c.InFragment) (d : Dev) (v : Option Nat) (s' : WState) (d' : Dev)
    (hfin : C12.step ext .finish (C12.runCalls ext calls WState.init none d).2.1 none
      (C12.runCalls ext calls WState.init none d).2.2 = (.ok (.ok v, s'), d')) :
    Forall2 Closed (C12.logOf [] calls (C12.runCalls ext calls WState.init none d).1) s'.files :=
  C12.files_track_calls_partial ext calls hc d v s' d' hfin

end ZipVerif.Props.C01
