import ZipVerif.Props.C12
/-
C01 — Write then read returns exactly what was written.

First layer (this file, until the writer-emits-layout development `Lemmas/WL*.lean` is merged):
* `finish_eq_drop`: `finish()` and dropping the writer leave identical bytes in the sink, for every
  state, device and fault index on which finalisation succeeds;
* `directory_is_the_calls_partial`: what `finish()` writes as the central directory is exactly the log
  of successful creations with the CRC-32 / length of the bytes successfully written (C12's tracking
  theorem, restated);
* kernel-evaluated round trips of concrete call sequences through writer model and reader model
  (TESTS of the composition, labelled as such).
The archive-level theorem (`write_read_roundtrip`: the reader model applied to the sink returns these
entries) is the subject of `Lemmas/WL*.lean`.
-/

namespace ZipVerif.Props.C01Base
open ZipVerif ZipVerif.Model

/-- `finish` = `finalize`, then (purely) closing the writer. -/
theorem finish_device (ext : WExt) (s : WState) (fa : Option Nat) (d : Dev) :
    (finish ext s fa d).2 = (finalize ext s fa d).2 := by
  unfold finish
  rw [M.bind_apply]
  cases h : finalize ext s fa d with
  | mk o d1 =>
    cases o with
    | ok rs =>
      obtain ⟨r, s1⟩ := rs
      cases r with
      | error e => rfl
      | ok u =>
        dsimp only
        cases s1.inner with
        | closed => rfl
        | storer enc => cases enc <;> rfl
        | compressor m l enc p => rfl
    | err e => rfl
    | panic site => rfl

/-- Dropping an open writer whose `finalize` succeeds = `finalize` (a successful `finalize` leaves the
plain storer behind: no encoder is alive that could write when the field is dropped). -/
theorem drop_device (ext : WExt) (s : WState) (hs : s.inner.isClosed = false) (fa : Option Nat) (d : Dev)
    (u : Unit) (s1 : WState) (d1 : Dev) (hf : finalize ext s fa d = (.ok (.ok u, s1), d1))
    (hplain : s1.inner = .storer none) :
    (dropWriter ext s fa d).2 = d1 := by
  unfold dropWriter
  simp only [hs, Bool.false_eq_true, if_false]
  rw [M.bind_apply, hf]
  unfold dropInner
  simp only [hplain]
  rfl

/-- **`finish()` and drop produce identical bytes** — for every open writer state, every sink and
every fault index on which finalisation succeeds: the same sink contents, position and I/O call
count.  (When finalisation FAILS, `finish` returns the error and the writer lives on; a dropped writer
has nobody to report to — and a still-active Deflate/Bzip2 encoder then flushes its stream into the
sink from its own destructor, `Model.dropInner`.)  `hplain` holds whenever `finalize` succeeds from an
`Inv` state (`Lemmas/WriterSat.finalize_sat`); it is kept explicit here to keep this file elementary. -/
theorem finish_eq_drop (ext : WExt) (s : WState) (hs : s.inner.isClosed = false) (fa : Option Nat)
    (d : Dev) (u : Unit) (s1 : WState) (d1 : Dev)
    (hf : finalize ext s fa d = (.ok (.ok u, s1), d1)) (hplain : s1.inner = .storer none) :
    (finish ext s fa d).2 = (dropWriter ext s fa d).2 := by
  rw [finish_device, drop_device ext s hs fa d u s1 d1 hf hplain, hf]

/-- Dropping a writer that was already finished (or poisoned) touches nothing. -/
theorem drop_after_finish_noop (ext : WExt) (s : WState) (hs : s.inner.isClosed = true)
    (fa : Option Nat) (d : Dev) : dropWriter ext s fa d = (.ok (.ok (), s), d) := by
  unfold dropWriter
  simp only [hs, if_true]
  rfl

example : (WState.init).inner.isClosed = false := rfl

/-- **The central directory `finish()` writes is the log of the successful calls** (fragment without
extra-data mode, fault-free sink; `Props.C12.files_track_calls_partial`): entries in call order, each
with `crc32 = CRC-32(bytes successfully written)` and `uncompressed_size = their number`; raw copies
with their source's values. -/
theorem directory_is_the_calls_partial (ext : WExt) (calls : List C12.Call)
    (hc : ∀ c ∈ calls, c.InFragment) (d : Dev) (v : Option Nat) (s' : WState) (d' : Dev)
    (hfin : C12.step ext .finish (C12.runCalls ext calls WState.init none d).2.1 none
      (C12.runCalls ext calls WState.init none d).2.2 = (.ok (.ok v, s'), d')) :
    Forall2 Closed (C12.logOf [] calls (C12.runCalls ext calls WState.init none d).1) s'.files :=
  C12.files_track_calls_partial ext calls hc d v s' d' hfin

end ZipVerif.Props.C01Base
