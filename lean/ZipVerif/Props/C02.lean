import ZipVerif.Props.C01
/-
C02 — The writer's output is a valid archive (Level 1).

By `C01.writer_emits_layout` the sink after `finish` IS `Spec.Zip.build (WL.layoutOf es gap c [])`.
The facts below are the self-consistency properties of that output, each as a short theorem:
every value is representable (`writer_output_valid`), local and central record of an entry agree,
the UTF-8 flag is set exactly for non-ASCII names, offsets / counts / sizes in the central directory
and the end records are the computed ones and point where they should, ZIP64 records are present
exactly when needed, CRC and sizes are those of the plaintext, and what cannot be represented is
rejected with an error before anything is written (`unrepresentable_rejected`).
-/

namespace ZipVerif.Props.C02
open ZipVerif ZipVerif.Model ZipVerif.Spec.Zip ZipVerif.WL
open ZipVerif.Props.C12 (Call step runCalls)

/-! ## 1. The output is a representable, readable layout -/

/-- **`writer_output_valid`** — after any Level-1 script from a fresh writer, if `finish` returns
`Ok`: the sink is the layout computed from the calls; every entry's name fits its 16-bit length
field, there are no entry comments, no extra data, no data descriptors, no forced ZIP64 fields, no
encryption bit, the method is not the AES pseudo-method; the archive comment fits its length field. -/
theorem writer_output_valid (ext : WExt) (calls : List Call) (hc : ∀ c ∈ calls, Level1R c)
    (ha : ∀ c ∈ calls, c.Admissible) (es : List Spec.Zip.Entry) (gap c : Bytes)
    (hg : (C01.finalGhost ext calls).close ext = some (es, gap, c))
    (v : Option Nat) (s' : WState) (d' : Dev)
    (hfin : step ext .finish (runCalls ext calls WState.init none (Dev.ofBytes [])).2.1 none
      (runCalls ext calls WState.init none (Dev.ofBytes [])).2.2 = (.ok (.ok v, s'), d')) :
    d'.buf = build (layoutOf es gap c []) ∧ (∀ e ∈ es, EntryOk e) ∧ c.length ≤ 65535 ∧
    (layoutOf es gap c []).Readable := by
  obtain ⟨hbuf, hclen, _⟩ := C01.writer_emits_layout_fresh ext calls (fun c h => (hc c h).level1) ha
    es gap c hg v s' d' hfin
  have hgood : Good (C01.finalGhost ext calls) :=
    good_run ext calls _ _ hc (show Good (.idle [] [] []) from fun e he => by cases he)
  exact ⟨hbuf, hgood.close hg, hclen, fun e he => (hgood.close hg e he).readable⟩

/-- … and under the size bounds every value fits the field it is stored in (`Layout.Fits`). -/
theorem writer_output_fits {es : List Spec.Zip.Entry} (gap c : Bytes) (hes : ∀ e ∈ es, EntryOk e)
    (hc : c.length ≤ 65535) (hsize : (build (layoutOf es gap c [])).length < 2 ^ 63)
    (hu : ∀ e ∈ es, e.usize.toNat < 2 ^ 63) : (layoutOf es gap c []).Fits :=
  (layout_fits_readable gap c [] hes hc hsize hu).1

/-! ## 2. Local and central record of an entry agree -/

/-- The local header of an entry without data descriptor, split at its fields. -/
theorem localRecord_fields (e : Spec.Zip.Entry) (hd : e.desc = .none) :
    localRecord e =
      le32 sigLocal ++ (le16 (e.localVersion.getD e.versionNeeded) ++ (le16 e.flags ++ (le16 e.method ++
      (le16 e.time ++ (le16 e.date ++ (le32 e.crc ++
      ((if e.localZip64 then le32 0xFFFFFFFF ++ le32 0xFFFFFFFF
        else le32 (lo32 e.csize) ++ le32 (lo32 e.usize)) ++
      (le16 (UInt16.ofNat e.name.length) ++ (le16 (UInt16.ofNat e.localExtraAll.length) ++
      (e.name ++ e.localExtraAll)))))))))) := by
  unfold localRecord Entry.localExtraAll Entry.flagsOut Entry.hasDesc
  rw [hd]
  simp only [bne_self_eq_false, Bool.false_eq_true, if_false, List.append_assoc]

/-- **`local_central_agree`** — flags, method, time, date and CRC stand at offset 6 of the local and at
offset 8 of the central record, and are the same 12 bytes; the names are the same bytes, with the same
length field; and — unless the entry goes through ZIP64 — so are the two 32-bit sizes. -/
theorem local_central_agree (e : Spec.Zip.Entry) (hd : e.desc = .none) (off : UInt64) :
    ((localRecord e).drop 6).take 12 = ((centralRecord e off).drop 8).take 12 ∧
    ((localRecord e).drop 26).take 2 = ((centralRecord e off).drop 28).take 2 ∧
    ((localRecord e).drop 30).take e.name.length = ((centralRecord e off).drop 46).take e.name.length ∧
    (e.localZip64 = false → e.zU = false → e.zC = false →
      ((localRecord e).drop 18).take 8 = ((centralRecord e off).drop 20).take 8) := by
  have hfo : e.flagsOut = e.flags := by simp [Entry.flagsOut, Entry.hasDesc, hd]
  rw [localRecord_fields e hd, centralRecord_eq, hfo]
  have l2 : ∀ v : UInt16, (le16 v).length = 2 := fun _ => rfl
  have l4 : ∀ v : UInt32, (le32 v).length = 4 := fun _ => rfl
  refine ⟨?_, ?_, ?_, ?_⟩
  · simp [le16, le32]
  · cases e.localZip64 <;> cases e.zC <;> cases e.zU <;> simp [le16, le32]
  · cases e.localZip64 <;> cases e.zC <;> cases e.zU <;> simp [le16, le32]
  · intro h1 h2 h3
    rw [h1, h2, h3]
    simp [le16, le32]

/-! ## 3. UTF-8 flag ⇔ name not ASCII -/

/-- **`utf8_flag_iff`** — bit 11 of the flag word both header writers emit is set exactly when the
name contains a byte ≥ 0x80 (`String::is_ascii` is false). -/
theorem utf8_flag_iff (f : FileData) : (flagOf f &&& 0x0800 != 0) = !isAscii f.fileName := by
  unfold flagOf
  cases isAscii f.fileName <;> cases f.encrypted <;> decide

/-- The flag word of an emitted entry is `flagOf` of its record (local and central alike). -/
theorem emitted_flags (f : FileData) (dp : UInt16) (gap lx data : Bytes) (lv : UInt16) :
    (specEntry f dp gap lx data lv).flagsOut = flagOf f := rfl

/-! ## 4. Offsets, counts and sizes are the computed ones -/

/-- The end-of-central-directory record of the emitted layout, field by field: entry count, size and
offset of the central directory (saturated to 0xFFFF / 0xFFFFFFFF when ZIP64 records carry the true
values), comment length and comment. -/
theorem eocd_fields (es : List Spec.Zip.Entry) (gap c : Bytes) :
    (layoutOf es gap c []).eocd =
      le32 sigEocd ++ le16 0 ++ le16 0 ++
      le16 (if es.length > 0xFFFF then 0xFFFF else UInt16.ofNat es.length) ++
      le16 (if es.length > 0xFFFF then 0xFFFF else UInt16.ofNat es.length) ++
      le32 (if (centralBytes es (localOffsets es 0)).length > 0xFFFFFFFF then 0xFFFFFFFF
            else UInt32.ofNat (centralBytes es (localOffsets es 0)).length) ++
      le32 (if (localsBytes es).length + gap.length > 0xFFFFFFFF then 0xFFFFFFFF
            else UInt32.ofNat ((localsBytes es).length + gap.length)) ++
      le16 (UInt16.ofNat c.length) ++ c := by
  unfold Layout.eocd
  rw [layoutOf_count, layoutOf_cdOffset, layoutOf_cdSize]
  simp only [layoutOf, Bool.false_or, decide_eq_true_eq]

/-- The central directory really starts at the recorded offset and has the recorded size; the end
records follow it. -/
theorem central_directory_placed (es : List Spec.Zip.Entry) (gap c : Bytes) :
    (build (layoutOf es gap c [])).drop ((localsBytes es).length + gap.length) =
      centralBytes es (localOffsets es 0) ++
        ((layoutOf es gap c []).end64 ++ ((layoutOf es gap c []).eocd ++ [])) := by
  unfold build
  rw [layoutOf_cdBytes]
  show ([] ++ localsBytes es ++ gap ++ centralBytes es (localOffsets es 0) ++
    (layoutOf es gap c []).end64 ++ (layoutOf es gap c []).eocd ++ []).drop _ = _
  simp only [List.nil_append, List.append_assoc]
  rw [← List.append_assoc (localsBytes es) gap]
  exact drop_append_len (by simp)

/-- Every recorded local-header offset points at that entry's local header, which is followed by its
data: for the entry after `es1`, the offset `localOffsets` computes (and `centralBytes` records) is the
position of its `localRecord`. -/
theorem offsets_point_to_headers (es1 es2 : List Spec.Zip.Entry) (e : Spec.Zip.Entry) (gap c : Bytes) :
    ∃ rest, (build (layoutOf (es1 ++ e :: es2) gap c [])).drop
        ((localsBytes es1).length + e.gapBefore.length) = localRecord e ++ (e.data ++ rest) := by
  obtain ⟨rest, h⟩ := drop_local (layoutOf (es1 ++ e :: es2) gap c []) es1 es2 e rfl
  refine ⟨rest, ?_⟩
  rw [← h]
  congr 1
  simp [layoutOf]

/-! ## 5. ZIP64 records exactly when needed -/

/-- **ZIP64 end records are present exactly when needed**: more than 0xFFFF entries, or a central
directory size or offset above 0xFFFFFFFF. -/
theorem zip64_end_iff_needed (es : List Spec.Zip.Entry) (gap c : Bytes) :
    ((layoutOf es gap c []).end64 ≠ [] ↔
      (es.length > 0xFFFF ∨ (centralBytes es (localOffsets es 0)).length > 0xFFFFFFFF ∨
       (localsBytes es).length + gap.length > 0xFFFFFFFF)) := by
  have hn := layoutOf_needs64 es gap c []
  unfold Layout.end64
  cases h : (layoutOf es gap c []).needs64 with
  | true =>
    rw [h] at hn
    simp only [if_true]
    constructor
    · intro _
      rcases Bool.or_eq_true_iff.mp hn.symm with h1 | h1
      · left; exact of_decide_eq_true h1
      · have := of_decide_eq_true h1; omega
    · intro _; simp [le32]
  | false =>
    rw [h] at hn
    simp only [Bool.false_eq_true, if_false, ne_eq, not_true_eq_false, false_iff]
    obtain ⟨h1, h2⟩ := Bool.or_eq_false_iff.mp hn.symm
    have h1' : ¬ es.length > 0xFFFF := of_decide_eq_false h1
    have h2' := of_decide_eq_false h2
    omega

/-- **The central ZIP64 extended-information record of an emitted entry is present exactly when one
of its three values does not fit 32 bits** (it then holds exactly those values). -/
theorem central_zip64_iff_needed (e : Spec.Zip.Entry) (hz : e.z64 = (false, false, false)) (off : UInt64) :
    (e.centralZ64 off = [] ↔ (e.usize < 0xFFFFFFFF ∧ e.csize < 0xFFFFFFFF ∧ off < 0xFFFFFFFF)) := by
  unfold Entry.centralZ64 Entry.zU Entry.zC Entry.zO
  rw [hz]
  simp only [Bool.false_or]
  by_cases h1 : e.usize ≥ (0xFFFFFFFF : UInt64) <;>
  by_cases h2 : e.csize ≥ (0xFFFFFFFF : UInt64) <;>
  by_cases h3 : off ≥ (0xFFFFFFFF : UInt64) <;>
  simp [h1, h2, h3, le16, UInt64.not_le.mp, UInt64.not_lt] <;>
  first
  | exact ⟨UInt64.not_le.mp h1, UInt64.not_le.mp h2, UInt64.not_le.mp h3⟩
  | (intro h; try exact absurd h (UInt64.not_lt.mpr ‹_›))
  | skip

/-- The local ZIP64 record is present exactly for entries started with `large_file(true)`. -/
theorem local_zip64_iff_large (f : FileData) (dp : UInt16) (gap data : Bytes) (lv : UInt16) :
    (specEntry f dp gap [] data lv).localZip64 = f.largeFile ∧
    (specEntry f dp gap [] data lv).localExtraAll.length = (if f.largeFile then 20 else 0) := by
  refine ⟨rfl, ?_⟩
  unfold Entry.localExtraAll
  cases h : f.largeFile <;> simp [specEntry, h]

/-! ## 6. Stored CRC and sizes are those of the plaintext -/

/-- **`stored_crc_size`** — for an entry started through the writer: the recorded CRC-32 is the
CRC-32 of the plaintext delivered by `write`, the uncompressed size its length, the compressed size
the length of the stored bytes, which are the plaintext itself for `Stored` and the encoder's output
otherwise. -/
theorem stored_crc_size (ext : WExt) (e : Spec.Zip.Entry) (f : FileData) (plain : Bytes)
    (h : OriginRel ext (.written f plain) e) :
    e.crc = Spec.Crc32.crc32 plain ∧ e.usize = UInt64.ofNat plain.length ∧
    e.csize = UInt64.ofNat e.data.length ∧ e.name = f.fileName ∧ e.method = f.method.toU16 ∧
    (f.method = .stored → e.data = plain) ∧
    (f.method ≠ .stored → e.data = ext.compress f.method (effLevel f.method f.level) plain) := by
  obtain ⟨dp, gap, _, he⟩ := h
  subst he
  refine ⟨rfl, rfl, rfl, rfl, rfl, ?_, ?_⟩
  · intro hm; show dataOf ext f plain = plain; rw [dataOf, if_pos hm]
  · intro hm; show dataOf ext f plain = _; rw [dataOf, if_neg hm]

/-- A raw copy keeps its source's CRC, sizes and method, and stores exactly the copied bytes. -/
theorem raw_copy_values (ext : WExt) (e : Spec.Zip.Entry) (f : FileData) (data : Bytes)
    (h : OriginRel ext (.raw f data) e) :
    e.crc = f.crc32 ∧ e.usize = f.uncompressedSize ∧ e.data = data ∧ e.method = f.method.toU16 := by
  obtain ⟨dp, gap, _, he⟩ := h
  subst he
  exact ⟨rfl, rfl, rfl, rfl⟩

/-! ## 7. What cannot be represented is rejected -/

/-- **`unrepresentable_rejected`** — a name longer than 65535 bytes makes `start_file`,
`add_directory` (for the name with its `/`), `add_symlink` and `raw_copy_file` return
`Err(InvalidArchive)` without any I/O and without changing the writer; a comment longer than 65535
bytes makes `finish` do the same. -/
theorem unrepresentable_rejected (ext : WExt) (s : WState) :
    (∀ n o, n.length > 65535 → startFile ext n o s = pure (.error .invalidArchive, s)) ∧
    (∀ n o, (dirName n).length > 65535 → addDirectory ext n o s = pure (.error .invalidArchive, s)) ∧
    (∀ n t o, n.length > 65535 → addSymlink ext n t o s = pure (.error .invalidArchive, s)) ∧
    (∀ src raw n, n.length > 65535 → rawCopy ext src raw n s = pure (.error .invalidArchive, s)) ∧
    (s.comment.length > 65535 → finish ext s = pure (.error .invalidArchive, s)) := by
  have hse : ∀ n o raw, n.length > 65535 →
      startEntry ext n o raw s = pure (.error .invalidArchive, s) := by
    intro n o raw h; unfold startEntry; rw [if_pos h]
  refine ⟨?_, ?_, ?_, ?_, finish_long_comment ext s⟩
  · intro n o h; unfold startFile; dsimp only; rw [hse _ _ _ h]; rfl
  · intro n o h
    unfold addDirectory
    show (startEntry ext (dirName n) _ none s >>= _) = _
    rw [hse _ _ _ h]; rfl
  · intro n t o h; unfold addSymlink; dsimp only; rw [hse _ _ _ h]; rfl
  · intro src raw n h; unfold rawCopy; dsimp only; rw [hse _ _ _ h]; rfl

/-- `pure` does no I/O: the device (contents, position, call counter) is untouched. -/
theorem rejected_no_io {α} (r : α) (fa : Option Nat) (d : Dev) : (pure r : M α) fa d = (.ok r, d) := rfl

/-! ## 8. Non-vacuity -/

/-- the entries `script1` of C01 emits satisfy `EntryOk`, agree locally/centrally (hypothesis
`desc = none`), and carry no ZIP64 records -/
example :
    (match (C01.finalGhost C01.wext1 C01.script1).close C01.wext1 with
     | some (es, gap, c) =>
       es.all (fun e => e.desc == .none && e.centralExtra == [] && e.localExtra == [] &&
         e.name.length ≤ 0xFFFF && e.method != 99 && (e.centralZ64 0).isEmpty) &&
       (layoutOf es gap c []).end64.isEmpty
     | none => false) = true := by decide +kernel

/-- a non-ASCII name sets bit 11, an ASCII one does not -/
example : flagOf { (default : FileData) with fileName := [0xc3, 0xa9] } = 0x0800 ∧
    flagOf { (default : FileData) with fileName := [0x61] } = 0 := by decide

/-- the rejections of `unrepresentable_rejected` happen on concrete input: a 65536-byte name, a
65536-byte comment -/
example :
    (C12.classes [.startFile (List.replicate 65536 0x61) (C12.opts .stored none)]) = [.err] ∧
    (C12.classes [.setComment (List.replicate 65536 0x61), .finish]) = [.ok, .err] ∧
    (runCalls C12.ext0 [.setComment (List.replicate 65536 0x61), .finish] WState.init none
      (Dev.ofBytes [])).2.2.buf = [] := by decide +kernel

end ZipVerif.Props.C02
