import ZipVerif.Props.C12
/-
C02 — Every archive the writer emits is a valid, self-consistent ZIP file.

First layer (this file, until `Lemmas/WL*.lean` is merged): an input the format cannot represent is
REJECTED — before any byte is written and without touching the writer — for every state, every sink
and every fault index.  The structural half ("the sink holds `Spec.Zip.build l`", from which the
consistency clauses follow by construction) is the subject of `Lemmas/WL*.lean`; until then it is
carried by the serialiser obligations `Tie/Records.lean`, `Tie/SpecRecords.lean` (regenerated
translation of every header writer = the model's serialisers, field by field) and by the independent
strict parser of the `write`/`append`/`rawcopy` streams.
-/

namespace ZipVerif.Props.C02Base
open ZipVerif ZipVerif.Model

/-- A name longer than 65535 bytes is refused by `start_entry` (hence by `start_file`,
`add_directory`, `add_symlink`, `raw_copy_file`): `Err`, the writer unchanged, no I/O call made. -/
theorem name_too_long_rejected (ext : WExt) (name : Bytes) (o : FileOptions)
    (raw : Option (UInt32 × UInt64 × UInt64)) (h : name.length > 65535) (s : WState)
    (fa : Option Nat) (d : Dev) :
    startEntry ext name o raw s fa d = (.ok (.error .invalidArchive, s), d) := by
  unfold startEntry
  simp only [h, if_true]
  rfl

theorem start_file_name_too_long (ext : WExt) (name : Bytes) (o : FileOptions)
    (h : name.length > 65535) (s : WState) (fa : Option Nat) (d : Dev) :
    startFile ext name o s fa d = (.ok (.error .invalidArchive, s), d) := by
  unfold startFile
  rw [M.bind_apply, name_too_long_rejected ext name _ none h]
  rfl

theorem add_symlink_name_too_long (ext : WExt) (name target : Bytes) (o : FileOptions)
    (h : name.length > 65535) (s : WState) (fa : Option Nat) (d : Dev) :
    addSymlink ext name target o s fa d = (.ok (.error .invalidArchive, s), d) := by
  unfold addSymlink
  rw [M.bind_apply, name_too_long_rejected ext name _ none h]
  rfl

theorem raw_copy_name_too_long (ext : WExt) (src : FileData) (raw name : Bytes)
    (h : name.length > 65535) (s : WState) (fa : Option Nat) (d : Dev) :
    rawCopy ext src raw name s fa d = (.ok (.error .invalidArchive, s), d) := by
  unfold rawCopy
  rw [M.bind_apply, name_too_long_rejected ext name _ _ h]
  rfl

/-- An archive comment longer than 65535 bytes makes `finish()` fail before anything is written
(the open entry is not even closed), the writer unchanged: the caller can shorten it and retry. -/
theorem comment_too_long_rejected (ext : WExt) (s : WState) (h : s.comment.length > 65535)
    (fa : Option Nat) (d : Dev) :
    finish ext s fa d = (.ok (.error .invalidArchive, s), d) := by
  unfold finish finalize
  rw [M.bind_apply]
  simp only [h, if_true]
  rfl

/-- Extra data that do not fit the 16-bit length field (together with the 20-byte ZIP64 record of a
`large_file` entry) are refused by `end_extra_data`'s validation. -/
theorem extra_too_long_rejected (f : FileData)
    (h : f.extraField.length + (if f.largeFile then 20 else 0) > 65535) :
    validateExtraData f = .error (.io .invalidData) := by
  unfold validateExtraData
  simp only [h, if_true]

/-- The central header writer refuses (before its first write) an entry whose central extra field
together with the ZIP64 record would exceed 65535 bytes. -/
theorem central_extra_too_long_rejected (f : FileData)
    (h : (centralZip64Bytes f).length + f.extraField.length > 65535) :
    centralHeaderChunks f = .err .invalidArchive := by
  unfold centralHeaderChunks
  simp only [h, if_true]

/-- Non-vacuity: the boundary is exactly 65535 / 65536. -/
example : (List.replicate 65536 (0x61 : UInt8)).length > 65535 := by rw [List.length_replicate]; omega
example : ¬ (List.replicate 65535 (0x61 : UInt8)).length > 65535 := by rw [List.length_replicate]; omega

end ZipVerif.Props.C02Base
