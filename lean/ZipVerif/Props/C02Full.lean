import ZipVerif.Lemmas.WL2Origin
import ZipVerif.Lemmas.WL2Read
import ZipVerif.Props.C02
/-
C02 (full alphabet) — the writer emits a layout, for EVERY call of `ZipWriter`.

Level 2 of the development behind `Props/C01.lean` / `Props/C02.lean`: extra-data mode
(`start_file_with_extra_data`, `write` into the extra field, `end_local_start_central_extra_data`,
`end_extra_data`), `start_file_aligned`, and the ZipCrypto option.  The ghost (`WL.Ghost2`,
`WL.ghostStep2`, Lemmas/WL2Run.lean) computes from the calls and their outcomes the entries of the
archive — now with local extra data `lx`, central extra data `cx` and, for encrypted entries, the stored
bytes `zcEncrypt pw (11 zero bytes ++ [crc >>> 24] ++ payload)`.
-/

namespace ZipVerif.Props.C02Full
open ZipVerif ZipVerif.Model ZipVerif.Spec.Zip ZipVerif.WL
open ZipVerif.Props.C12 (Call step runCalls)

/-- **`writer_emits_layout_full`** (general form: from any writer state / device in step with a ghost
state — a fresh writer, or the state `new_append` returns).  After any script over the WHOLE call
alphabet (`Level2` = `Call.Admissible` + consistent raw copies), if the ghost closes and `finish`
returns `Ok`: the live part of the sink is exactly `build (layoutOf es gap c [])`, the whole sink is
that layout with the stale rest as `trailing`, the comment fits, the writer is closed. -/
theorem writer_emits_layout_full (ext : WExt) (calls : List Call) (hc : ∀ c ∈ calls, Level2 c)
    (r : Nat) (g0 : Ghost2) (s0 : WState) (d0 : Dev) (hI : Inv s0) (h0 : Lay2 r g0 s0 d0)
    (es : List Spec.Zip.Entry) (gap c : Bytes)
    (hg : (ghostOf2 ext g0 calls (runCalls ext calls s0 none d0).1).close ext = some (es, gap, c))
    (v : Option Nat) (s' : WState) (d' : Dev)
    (hfin : step ext .finish (runCalls ext calls s0 none d0).2.1 none
      (runCalls ext calls s0 none d0).2.2 = (.ok (.ok v, s'), d')) :
    d'.buf.take d'.pos = build (layoutOf es gap c []) ∧
    d'.buf = build (layoutOf es gap c (d'.buf.drop d'.pos)) ∧
    d'.pos ≤ d'.buf.length ∧ d'.buf.length ≤ d'.pos + r ∧
    c.length ≤ 65535 ∧ s'.inner = .closed := by
  have hL := run_lay2 ext calls hc r g0 s0 d0 hI h0
  generalize ghostOf2 ext g0 calls (runCalls ext calls s0 none d0).1 = g at hL hg
  generalize (runCalls ext calls s0 none d0).2.1 = s at hL hfin
  generalize (runCalls ext calls s0 none d0).2.2 = d at hL hfin
  have h3 := (C12.mapStep_wsat (fun _ => (none : Option Nat)) (finish ext) s none d _
    (fun rs d' => ∀ v, rs.1 = .ok v →
      (¬ c.length > 65535 ∧ LiveAt d' d'.pos (build (layoutOf es gap c [])) r) ∧ rs.2.inner = .closed)
    (finish_ghost2 ext hL hg) (by
      intro r1 s1 d1 ⟨hpost, hcl⟩
      cases r1 with
      | error e => intro v hv; cases hv
      | ok u =>
        intro v _
        refine ⟨?_, hcl rfl⟩
        unfold FinalPost at hpost
        by_cases hlong : c.length > 65535
        · rw [if_pos hlong] at hpost; cases hpost.1
        · rw [if_neg hlong] at hpost; exact ⟨hlong, hpost.2⟩)).elim hfin
  obtain ⟨⟨hclen, hl⟩, hcl⟩ := h3 v rfl
  refine ⟨hl.eq, ?_, hl.le, hl.rest, by omega, hcl⟩
  rw [C01.build_trailing, ← hl.eq, List.take_append_drop]

/-- the ghost after a script from a fresh writer -/
def finalGhost2 (ext : WExt) (calls : List Call) : Ghost2 :=
  ghostOf2 ext (.idle [] [] []) calls (runCalls ext calls WState.init none (Dev.ofBytes [])).1

/-- **`writer_emits_layout_full`, fresh writer**: the sink is exactly `build (layoutOf es gap c [])`. -/
theorem writer_emits_layout_full_fresh (ext : WExt) (calls : List Call) (hc : ∀ c ∈ calls, Level2 c)
    (es : List Spec.Zip.Entry) (gap c : Bytes)
    (hg : (finalGhost2 ext calls).close ext = some (es, gap, c))
    (v : Option Nat) (s' : WState) (d' : Dev)
    (hfin : step ext .finish (runCalls ext calls WState.init none (Dev.ofBytes [])).2.1 none
      (runCalls ext calls WState.init none (Dev.ofBytes [])).2.2 = (.ok (.ok v, s'), d')) :
    d'.buf = build (layoutOf es gap c []) ∧ c.length ≤ 65535 ∧ s'.inner = .closed := by
  obtain ⟨h1, _, h3, h4, h5, h6⟩ := writer_emits_layout_full ext calls hc 0 _ _ _ inv_init lay2_init_empty
    es gap c hg v s' d' hfin
  refine ⟨?_, h5, h6⟩
  rw [← h1, List.take_of_length_le (by omega)]

/-! ## 2. The output is a readable layout; round trip -/

/-- **`writer_output_valid_full`** — every entry of the emitted layout has a name that fits its length
field, no comment, local and central extra data that are well-formed record sequences without the
identifiers a reader interprets (established by `validate_extra_data`) and fit the local header's length
field, a method other than the AES pseudo-method, no data descriptor; the layout is `Readable`. -/
theorem writer_output_valid_full (ext : WExt) (calls : List Call) (hc : ∀ c ∈ calls, Level2R c)
    (es : List Spec.Zip.Entry) (gap c : Bytes)
    (hg : (finalGhost2 ext calls).close ext = some (es, gap, c))
    (v : Option Nat) (s' : WState) (d' : Dev)
    (hfin : step ext .finish (runCalls ext calls WState.init none (Dev.ofBytes [])).2.1 none
      (runCalls ext calls WState.init none (Dev.ofBytes [])).2.2 = (.ok (.ok v, s'), d')) :
    d'.buf = build (layoutOf es gap c []) ∧ (∀ e ∈ es, EntryOk2 e) ∧ c.length ≤ 65535 ∧
    (layoutOf es gap c []).Readable := by
  obtain ⟨hbuf, hclen, _⟩ := writer_emits_layout_full_fresh ext calls (fun c h => (hc c h).1) es gap c hg
    v s' d' hfin
  have hgood : Good2 (finalGhost2 ext calls) :=
    good2_run ext calls _ _ hc (show Good2 (.idle [] [] []) from fun e he => by cases he)
  have hes := hgood.fin (Ghost2.close_fin hg).1
  exact ⟨hbuf, hes, hclen, fun e he => (hes e he).readable⟩

/-- **`write_read_roundtrip_full`** — the archive a script over the whole alphabet produces opens with
`ZipArchive::new` (under the property's `NoFalseSig`, the size bounds, and room for a ZIP64 record next
to the central extra data), which returns the entries of the layout in order and the comment; and
`by_index_raw(i)` returns the stored bytes of entry `i` — for an encrypted entry the ZipCrypto
ciphertext `zcEncrypt pw (…)` (`encrypted_entry_data`). -/
theorem write_read_roundtrip_full (ext : WExt) (calls : List Call) (hc : ∀ c ∈ calls, Level2R c)
    (es : List Spec.Zip.Entry) (gap c : Bytes)
    (hg : (finalGhost2 ext calls).close ext = some (es, gap, c))
    (v : Option Nat) (s' : WState) (d' : Dev)
    (hfin : step ext .finish (runCalls ext calls WState.init none (Dev.ofBytes [])).2.1 none
      (runCalls ext calls WState.init none (Dev.ofBytes [])).2.2 = (.ok (.ok v, s'), d'))
    (hS : C03.NoFalseSig (layoutOf es gap c []))
    (hsize : (build (layoutOf es gap c [])).length < 2 ^ 63)
    (hu : ∀ e ∈ es, e.usize.toNat < 2 ^ 63)
    (hcx : ∀ e ∈ es, e.centralExtra.length + 28 ≤ 0xFFFF) :
    d'.buf = build (layoutOf es gap c []) ∧ (layoutOf es gap c []).Fits ∧
    ∃ d1, openArchive.runPure (Dev.ofBytes d'.buf) = (.ok (archiveOf (layoutOf es gap c [])), d1) ∧
      d1.buf = build (layoutOf es gap c []) ∧
      (archiveOf (layoutOf es gap c [])).comment = c ∧
      (archiveOf (layoutOf es gap c [])).files = viewOf (layoutOf es gap c []) ∧
      (archiveOf (layoutOf es gap c [])).files.length = es.length ∧
      ∀ (i : Nat) e, es[i]? = some e → ∃ ds d2,
        (byIndexRaw (archiveOf (layoutOf es gap c [])) i).runPure d1 = (.ok (ds, e.data), d2) := by
  obtain ⟨hbuf, hes, hclen, _⟩ := writer_output_valid_full ext calls hc es gap c hg v s' d' hfin
  obtain ⟨hF, hR⟩ := layout_fits_readable2 gap c [] hes hclen hsize hu hcx
  obtain ⟨d1, h1, h2⟩ := C03.reader_on_wf _ hF hR hS (Or.inl rfl)
  refine ⟨hbuf, hF, d1, by rw [hbuf]; exact h1, h2, rfl, rfl, (C03.archive_fields _).2.2.2, ?_⟩
  intro i e he
  obtain ⟨off, d2, _, h, _⟩ := C03.reader_entry_raw _ hF i e he d1 h2
  exact ⟨_, d2, h⟩

/-- … and what `Drop` leaves after a script over the whole alphabet is the same layout (the comment
fitting: `finalize` then succeeds and leaves the plain storer behind, so dropping the fields writes
nothing; cf. `C01.finish_eq_drop`). -/
theorem drop_emits_layout_full (ext : WExt) (calls : List Call) (hc : ∀ c ∈ calls, Level2 c)
    (r : Nat) (g0 : Ghost2) (s0 : WState) (d0 : Dev) (hI : Inv s0) (h0 : Lay2 r g0 s0 d0)
    (es : List Spec.Zip.Entry) (gap c : Bytes) (hclen : c.length ≤ 65535)
    (hg : (ghostOf2 ext g0 calls (runCalls ext calls s0 none d0).1).close ext = some (es, gap, c))
    (v : Option Nat) (s' : WState) (d' : Dev)
    (hfin : step ext .drop (runCalls ext calls s0 none d0).2.1 none
      (runCalls ext calls s0 none d0).2.2 = (.ok (.ok v, s'), d')) :
    d'.buf.take d'.pos = build (layoutOf es gap c []) ∧
    d'.buf = build (layoutOf es gap c (d'.buf.drop d'.pos)) := by
  have hL := run_lay2 ext calls hc r g0 s0 d0 hI h0
  generalize ghostOf2 ext g0 calls (runCalls ext calls s0 none d0).1 = g at hL hg
  generalize (runCalls ext calls s0 none d0).2.1 = s at hL hfin
  generalize (runCalls ext calls s0 none d0).2.2 = d at hL hfin
  have h3 := (C12.mapStep_wsat (fun _ => (none : Option Nat)) (dropWriter ext) s none d _
    (fun _ d' => LiveAt d' d'.pos (build (layoutOf es gap c [])) r)
    (drop_ghost2 ext hL hg (by omega)) (by
      intro r1 s1 d1 ⟨_, hpost⟩
      exact hpost)).elim hfin
  refine ⟨h3.eq, ?_⟩
  rw [C01.build_trailing, ← h3.eq, List.take_append_drop]

/-! ## 2b. Origins: the plaintext of every entry -/

/-- the origins of the entries `finish` emits after a script from a fresh writer -/
def finalOrigins2 (ext : WExt) (calls : List Call) : List Origin2 :=
  (finalGhost2 ext calls).closeOrigins
    (originsOf2 ext (.idle [] [] []) [] calls (runCalls ext calls WState.init none (Dev.ofBytes [])).1)

/-- **One origin per emitted entry, in order**: for every entry of the layout, the record
`start_entry` pushed for it, its password (if encrypted), the local and central extra data, and the
plaintext the `write` calls delivered — `OriginRel2` says the entry IS `specEntry` of those. -/
theorem emitted_origins_full (ext : WExt) (calls : List Call) (es : List Spec.Zip.Entry) (gap c : Bytes)
    (hg : (finalGhost2 ext calls).close ext = some (es, gap, c)) :
    Forall2 (OriginRel2 ext) (finalOrigins2 ext calls) es :=
  traced2_final (traced2_run ext calls _ _ _ (fun _ => .nil)) (Ghost2.close_fin hg).1

/-- **Reading an unencrypted entry returns its plaintext** — also for entries written in extra-data or
aligned mode (their local extra data are skipped through the local header's own length field).  Codec
round trip as in `C01.roundtrip_entry_plain`. -/
theorem roundtrip_entry_plain_full (wext : WExt) (rext : Ext) {es : List Spec.Zip.Entry} {gap c : Bytes}
    (hF : (layoutOf es gap c []).Fits) (i : Nat) (e : Spec.Zip.Entry) (he : es[i]? = some e)
    (f : FileData) (lx cx plain : Bytes) (hrel : OriginRel2 wext (.written f none lx cx plain) e)
    (henc : f.encrypted = false) (hw : writable f.method = true)
    (hcodec : rext.decode f.method (dataOf wext f plain) = .ok plain)
    (pw : Option Bytes) (d : Dev) (hd : d.buf = build (layoutOf es gap c [])) :
    ∃ ds d', (byIndexRead rext (archiveOf (layoutOf es gap c [])) i pw).runPure d =
        (.ok (.ok (ds, .ok plain)), d') ∧ d'.buf = build (layoutOf es gap c []) := by
  obtain ⟨dp, gap0, _, hre⟩ := hrel
  have hm : Method.fromU16 e.method = f.method := by rw [hre]; exact C01.fromU16_toU16 hw
  refine C03.reader_entry_decoded rext _ hF i e he pw ?_ ?_ plain ?_ ?_ d hd
  · rw [hre]; exact flagOf_plain _ henc
  · rw [hm]; cases hf : f.method <;> simp_all [writable, Method.decodable]
  · rw [hm, hre]; exact hcodec
  · rw [hre]; rfl

theorem flagOf_no_desc (f : FileData) : (flagOf f &&& 0x0008 != 0) = false := by
  unfold flagOf
  cases isAscii f.fileName <;> cases f.encrypted <;> decide

/-- **Reading a ZipCrypto entry with its password returns its plaintext.**  The reader hands the stored
bytes — `zcEncrypt pw (11 zero bytes ++ [crc >>> 24] ++ payload)` — and the check byte (the CRC's high
byte: the entry has no data descriptor) to its cipher; under the cipher round trip (`hcipher`: decrypting
what the writer's cipher produced for that buffer returns the payload — for the PKWARE cipher this is
`Props.C15.decrypt_encrypt` together with `writer_emits_pkware`) and the codec round trip, `by_index`
with the password read to the end returns exactly the plaintext; the CRC check passes. -/
theorem roundtrip_entry_zc_full (wext : WExt) (rext : Ext) {es : List Spec.Zip.Entry} {gap c : Bytes}
    (hF : (layoutOf es gap c []).Fits) (i : Nat) (e : Spec.Zip.Entry) (he : es[i]? = some e)
    (f : FileData) (pw lx cx plain : Bytes) (hrel : OriginRel2 wext (.written f (some pw) lx cx plain) e)
    (henc : f.encrypted = true) (hw : writable f.method = true)
    (hcipher : rext.zipCrypto pw (Spec.Crc32.crc32 plain >>> 24).toUInt8
      (wext.zcEncrypt pw (zcPlain (Spec.Crc32.crc32 plain) (dataOf wext f plain))) =
        .ok (some (dataOf wext f plain)))
    (hcodec : rext.decode f.method (dataOf wext f plain) = .ok plain)
    (d : Dev) (hd : d.buf = build (layoutOf es gap c [])) :
    ∃ ds d', (byIndexRead rext (archiveOf (layoutOf es gap c [])) i (some pw)).runPure d =
        (.ok (.ok (ds, .ok plain)), d') ∧ d'.buf = build (layoutOf es gap c []) := by
  obtain ⟨dp, gap0, _, hre⟩ := hrel
  have hm : Method.fromU16 e.method = f.method := by rw [hre]; exact C01.fromU16_toU16 hw
  have hdec : (Method.fromU16 e.method).decodable = true := by
    rw [hm]; cases hf : f.method <;> simp_all [writable, Method.decodable]
  have hfl := (encrypted_entry wext f cx plain pw dp gap0 lx f.versionNeeded henc).2.2.2
  obtain ⟨off, _, hrun⟩ := runs_byIndexRead_zc rext (layoutOf es gap c []) hF i e he pw
    (by rw [hre]; exact hfl) (by rw [hre]; exact flagOf_no_desc _) hdec (dataOf wext f plain)
    (by rw [hre]; exact hcipher) d.pos
  obtain ⟨d', h3, h4, _⟩ := hrun d hd rfl
  refine ⟨e.dataStart off 0, d', ?_, h4⟩
  rw [h3, hm, hcodec]
  have : e.crc = Spec.Crc32.crc32 plain := by rw [hre]; rfl
  simp [crcCheck, this, layoutOf]

/-! ## 3. Extra data, alignment, encryption -/

/-- **Where the extra data end up**: the entry closed from an open entry (data phase, not a raw copy)
carries the bytes `end_extra_data` wrote behind the header as its LOCAL extra data and the extra field
of the record as its CENTRAL extra data; its CRC / sizes are those of the plaintext. -/
theorem extra_placement {ext : WExt} {o : Open2} (hraw : o.raw = false)
    {done : List Spec.Zip.Entry} {gap : Bytes} {es : List Spec.Zip.Entry} {gap' : Bytes}
    (hf : o.finData ext done gap = .ok es gap') :
    ∃ e, es = done ++ [e] ∧ e.localExtra = o.lx ∧ e.centralExtra = o.cx ∧ e.name = o.f.fileName ∧
      e.crc = Spec.Crc32.crc32 o.plain ∧ e.usize = UInt64.ofNat o.plain.length ∧
      e.data = dataOf2 ext o.f o.enc o.plain ∧ e.gapBefore = gap := by
  obtain ⟨dp, _, _, hes⟩ := finData_entry hraw hf
  exact ⟨_, hes, rfl, rfl, rfl, rfl, rfl, rfl, rfl⟩

/-- **What `validate_extra_data` establishes** is (more than) what the layout specification asks of an
extra field: complete records, none with identifier 0x0001 or 0x9901 (validation also refuses
0..31 and every defined or registered identifier — `Props.C17.validate_extra_iff`). -/
theorem validate_gives_extraOk (f : FileData) (h : validateExtraData f = .ok ()) :
    ExtraOk f.extraField ∧ f.extraField.length + (if f.largeFile then 20 else 0) ≤ 65535 :=
  ⟨validate_extraOk h, validate_len h⟩

/-- **`start_file_aligned`, archive level**: when the call succeeds (it leaves the new entry `o4` in its
data phase) the entry's data start — `o4.dataStart es gap` — is a multiple of the alignment; and in the
emitted archive the stored bytes of the entry closed from `o4` lie exactly at that offset. -/
theorem aligned_data_in_archive (ext : WExt) (a : UInt16) (es : List Spec.Zip.Entry) (gap c : Bytes)
    (f : FileData) (o4 o5 : Open2) (ha : 1 ≤ a.toNat)
    (h : alignedAfter a es gap c f = .opened es gap c o4) (hph : o4.phase = .data)
    -- `o5`: the same entry after the `write` calls (same record, same local extra data)
    (h5 : o5.f = o4.f ∧ o5.lx = o4.lx ∧ o5.raw = false)
    (es' : List Spec.Zip.Entry) (gap' : Bytes) (hf : o5.finData ext es gap = .ok es' gap')
    (rest : List Spec.Zip.Entry) (gapCd cm : Bytes) :
    ∃ e tail, es' = es ++ [e] ∧ (o4.dataStart es gap) % a.toNat = 0 ∧
      (build (layoutOf (es ++ e :: rest) gapCd cm [])).drop (o4.dataStart es gap) = e.data ++ tail := by
  obtain ⟨hal, _, _⟩ := aligned_dataStart a es gap c f o4 ha h hph
  obtain ⟨dp, _, _, hes⟩ := finData_entry h5.2.2 hf
  obtain ⟨tail, ht⟩ := C02.offsets_point_to_headers es rest
    (specEntry (closedRec o5.f o5.cx o5.plain (dataOf2 ext o5.f o5.enc o5.plain)) dp gap o5.lx
      (dataOf2 ext o5.f o5.enc o5.plain) o5.f.versionNeeded) gapCd cm
  have hoff := specEntry_data_offset (closedRec o5.f o5.cx o5.plain (dataOf2 ext o5.f o5.enc o5.plain)) dp gap
    o5.lx (dataOf2 ext o5.f o5.enc o5.plain) o5.f.versionNeeded
  have hds : o4.dataStart es gap = ((localsBytes es).length +
      (specEntry (closedRec o5.f o5.cx o5.plain (dataOf2 ext o5.f o5.enc o5.plain)) dp gap o5.lx
        (dataOf2 ext o5.f o5.enc o5.plain) o5.f.versionNeeded).gapBefore.length) +
      (localRecord (specEntry (closedRec o5.f o5.cx o5.plain (dataOf2 ext o5.f o5.enc o5.plain)) dp gap o5.lx
        (dataOf2 ext o5.f o5.enc o5.plain) o5.f.versionNeeded)).length := by
    have hh : hdrLen (closedRec o5.f o5.cx o5.plain (dataOf2 ext o5.f o5.enc o5.plain)) = hdrLen o4.f := by
      rw [← h5.1]; rfl
    unfold Open2.dataStart
    rw [← h5.2.1]
    omega
  refine ⟨_, tail, hes, hal, ?_⟩
  rw [hds, ← List.drop_drop, ht, List.drop_left' rfl]

/-- **Encrypted entries** (`WL.encrypted_entry`): stored bytes = `zcEncrypt pw (11 zero bytes ++
[crc >>> 24] ++ payload)`, CRC = the plaintext's, flag bit 0 set.  `Props.C15.writer_emits_pkware`
identifies `zcEncrypt` on this buffer with the PKWARE encryption under the password's keys. -/
theorem encrypted_entry_data (ext : WExt) (f : FileData) (cx plain pw : Bytes) (dp : UInt16)
    (gap lx : Bytes) (lv : UInt16) (henc : f.encrypted = true) :
    let e := specEntry (closedRec f cx plain (dataOf2 ext f (some pw) plain)) dp gap lx
      (dataOf2 ext f (some pw) plain) lv
    e.data = ext.zcEncrypt pw (zcPlain (Spec.Crc32.crc32 plain) (dataOf ext f plain)) ∧
    e.crc = Spec.Crc32.crc32 plain ∧ e.usize = UInt64.ofNat plain.length ∧
    (e.flagsOut &&& 1 == 1) = true :=
  encrypted_entry ext f cx plain pw dp gap lx lv henc

/-! ## 4. Non-vacuity -/

def xrec : Bytes := le16 0xcafe ++ le16 3 ++ [1, 2, 3]

/-- extra data split between local and central header, then an aligned file -/
def scriptX : List Call :=
  [.startFileWithExtraData [0x78] (C12.opts .deflated none), .write xrec, .endLocalStartCentral,
   .write (le16 0xbeef ++ le16 1 ++ [9]), .endExtraData, .write [5, 6, 7],
   .startFileAligned [0x79] (C12.opts .stored none) 64, .write [1, 2]]

/-- a ZipCrypto file, extra data shared by local and central header, an encrypted directory, a comment -/
def scriptY : List Call :=
  [.startFile [0x7a] { C12.opts .stored none with encryptWith := some [0x70, 0x77] }, .write [8, 8],
   .startFileWithExtraData [0x77] (C12.opts .stored none), .write xrec,
   .addDirectory [0x64] { C12.opts .stored none with encryptWith := some [1] }, .setComment [0x21]]

/-- a toy codec and cipher: "compression" appends a marker, "encryption" flips bits and appends the password -/
def wext2 : WExt := ⟨fun _ _ b => b ++ [0xEE], fun pw b => b.map (· ^^^ 0x55) ++ pw⟩

example : ∀ c ∈ scriptX ++ scriptY, Level2R c := by decide

example :
    (match (finalGhost2 wext2 scriptX).close wext2, C01.finishDev wext2 scriptX with
     | some (es, gap, c), some d' =>
       d'.buf == build (layoutOf es gap c []) &&
       es.map Spec.Zip.Entry.name == [[0x78], [0x79]] &&
       es.map Spec.Zip.Entry.localExtra == [xrec, padRecord 51] &&
       es.map Spec.Zip.Entry.centralExtra == [le16 0xbeef ++ le16 1 ++ [9], []] &&
       es.map Spec.Zip.Entry.data == [[5, 6, 7, 0xEE], [1, 2]] &&
       -- the aligned entry's data start at a multiple of 64 in the bytes the model produced
       (d'.buf.drop 128).take 2 == [1, 2] && 128 % 64 == 0
     | _, _ => false) = true := by decide +kernel

example :
    (match (finalGhost2 wext2 scriptY).close wext2, C01.finishDev wext2 scriptY with
     | some (es, gap, c), some d' =>
       d'.buf == build (layoutOf es gap c []) && c == [0x21] &&
       es.map Spec.Zip.Entry.name == [[0x7a], [0x77], [0x64, 0x2f]] &&
       es.map Spec.Zip.Entry.localExtra == [[], xrec, []] &&
       es.map Spec.Zip.Entry.centralExtra == [[], xrec, []] &&
       es.map Spec.Zip.Entry.flags == [1, 0, 1] &&
       (es.map Spec.Zip.Entry.data)[0]? ==
         some (wext2.zcEncrypt [0x70, 0x77] (zcPlain (Spec.Crc32.crc32 [8, 8]) [8, 8]))
     | _, _ => false) = true := by decide +kernel

/-- invalid extra data (a trailing byte) make the implicit `end_extra_data` of the next call fail: the
call returns an error and the ghost — like the writer — is unchanged (still in extra-data mode) -/
example :
    (match finalGhost2 wext2 [.startFileWithExtraData [0x77] (C12.opts .stored none), .write (xrec ++ [4]),
        .addDirectory [0x64] (C12.opts .stored none)] with
     | .opened _ _ _ o => o.phase == .localX && o.cx == xrec ++ [4]
     | _ => false) = true := by decide +kernel

/-- the reader-side inverse of the toy cipher: strip the password, flip the bits back, compare the check
byte (position 11 of the 12-byte header), drop the header -/
def rext2 : Ext :=
  { decode := fun m b => if m = .stored then .ok b else .ok b.dropLast
    zipCrypto := fun pw check raw =>
      let dec := (raw.take (raw.length - pw.length)).map (· ^^^ 0x55)
      if dec[11]? == some check then .ok (some (dec.drop 12)) else .ok none
    aes := fun _ _ _ _ => .ok none }

/-- the origins of `scriptY`: a ZipCrypto entry with its password and plaintext, an entry whose extra data
are in both headers, an encrypted directory; the hypotheses of `roundtrip_entry_zc_full` (cipher and
codec round trip) hold for the first one -/
example :
    (match finalOrigins2 wext2 scriptY with
     | [.written f1 (some pw1) lx1 cx1 p1, .written f2 none lx2 cx2 p2, .written _ (some pw3) _ _ p3] =>
       f1.fileName == [0x7a] && pw1 == [0x70, 0x77] && p1 == [8, 8] && lx1 == [] && cx1 == [] &&
       f1.encrypted && writable f1.method &&
       f2.fileName == [0x77] && lx2 == xrec && cx2 == xrec && p2 == [] &&
       pw3 == [1] && p3 == [] &&
       (match rext2.zipCrypto pw1 (Spec.Crc32.crc32 p1 >>> 24).toUInt8
           (wext2.zcEncrypt pw1 (zcPlain (Spec.Crc32.crc32 p1) (dataOf wext2 f1 p1))) with
        | .ok (some pt) => pt == dataOf wext2 f1 p1
        | _ => false) &&
       (match rext2.decode f1.method (dataOf wext2 f1 p1) with | .ok b => b == p1 | _ => false)
     | _ => false) = true := by decide +kernel

/-- … and the reader model really decrypts entry 0 of the bytes the writer model produced -/
example :
    (match C01.finishDev wext2 scriptY with
     | some d' =>
       (match openArchive.runPure (Dev.ofBytes d'.buf) with
        | (.ok a, d1) =>
          a.files.map (·.encrypted) == [true, false, true] &&
          (match ((byIndexRead rext2 a 0 (some [0x70, 0x77])).runPure d1).1 with
           | .ok (.ok (_, .ok content)) => content == [8, 8]
           | _ => false)
        | _ => false)
     | none => false) = true := by decide +kernel

end ZipVerif.Props.C02Full
