import ZipVerif.Lemmas.ReadEntry
/-
C03 — Well-formed archives from other producers are read faithfully.

Statements only; the proofs are in `Lemmas/IORun.lean` (fault-free run calculus), `Lemmas/CentralParse.lean`
(the model's central-header parser on the spec's serialisation of an arbitrary entry),
`Lemmas/ZipLayout.lean` (where the records of `build l` lie), `Lemmas/ReadWf.lean` (`ZipArchive::new`)
and `Lemmas/ReadEntry.lean` (`find_content`, `by_index*`, lookup by name, Unix mode).

* the producer is `Spec.Zip.build : Layout → Bytes` (Spec/Zip.lean, written from APPNOTE, validated
  against an independent Rust builder, the real crate and CPython `zipfile` by the `spec` stream);
* what the reader must report is `Spec.Zip.viewOf` (Spec/ZipView.lean), written from the layout alone;
* the reader is `Model.openArchive`, `Model.byIndexRaw`, `Model.byIndexRead`, `Model.byNameRead`,
  `Model.Archive.indexOfName` (Model/Reader.lean; tied to the crate by TRANSLATION since session 4 — Tie/Parsers, Tie/ReaderGlue, ReaderGlue2, ReaderApi, Accessors: `ZipArchive::new`, `find_content`, `by_index*`, `by_name*`, the accessors — and by the `read` stream).
-/

namespace ZipVerif.Props.C03
open ZipVerif ZipVerif.Model ZipVerif.Spec.Zip

/-! ## 0. Hypotheses -/

/-- **"Names/comments do not embed ZIP record signatures"** — `Spec.Zip.NoFalseSig` (defined in
Spec/ZipView.lean so that the driver can evaluate it); its explicit form is `noFalseSig_iff` below. -/
abbrev NoFalseSig (l : Layout) : Prop := Spec.Zip.NoFalseSig l

/-- The explicit, decidable form the reader's control flow needs (DESIGN §4.3):
(i)   the real end record lies inside the 65557-byte search window, and no end-of-central-directory
      signature starts at any offset after the real record's start and ≤ len − 22;
(ii)  without ZIP64 end records: the four bytes at `len − (42 + comment.length)`, where
      `get_directory_counts` probes for a ZIP64 locator, are not the locator signature;
(iii) with ZIP64 end records: no ZIP64 end-record signature in `[nominal, real)`, the range the forward
      search scans first (empty without a prefix). -/
theorem noFalseSig_iff (l : Layout) :
    NoFalseSig l ↔
      (l.comment.length + l.trailing.length ≤ 65535 ∧
      (∀ k, k < l.comment.length + l.trailing.length →
        u32At (build l) (l.eocdPos + 1 + k) ≠ some sigEocd) ∧
      (l.needs64 = false → 42 + l.comment.length ≤ (build l).length →
        u32At (build l) ((build l).length - 42 - l.comment.length) ≠ some sigLocator) ∧
      (l.needs64 = true → ∀ k, k < l.pre.length →
        u32At (build l) (l.cdOffset + l.cdSize + k) ≠ some sigEocd64)) := Iff.rfl

/-- Part (i) holds when nothing follows the 22 fixed bytes of the end record. -/
theorem noFalseSig_i_of_empty_comment (l : Layout) (hc : l.comment = []) (ht : l.trailing = []) :
    l.comment.length + l.trailing.length ≤ 65535 ∧
    (∀ k, k < l.comment.length + l.trailing.length →
      u32At (build l) (l.eocdPos + 1 + k) ≠ some sigEocd) := by
  rw [hc, ht]; exact ⟨by decide, fun k hk => absurd hk (by simp)⟩

/-- No ZIP64 records, empty comment, nothing trailing: only the locator probe (ii) remains. -/
theorem noFalseSig_of_empty_comment (l : Layout) (hc : l.comment = []) (ht : l.trailing = [])
    (h64 : l.needs64 = false)
    (hprobe : 42 ≤ (build l).length → u32At (build l) ((build l).length - 42) ≠ some sigLocator) :
    NoFalseSig l := by
  obtain ⟨h1, h2⟩ := noFalseSig_i_of_empty_comment l hc ht
  refine ⟨h1, h2, fun _ hl => ?_, (fun h => by rw [h64] at h; cases h)⟩
  rw [hc] at hl ⊢
  exact hprobe (by simpa using hl)

/-- An archive that consists of the end record alone (no entries, no prefix, no comment). -/
theorem noFalseSig_of_empty_archive (l : Layout) (hc : l.comment = []) (ht : l.trailing = [])
    (h64 : l.needs64 = false) (hlen : (build l).length < 42) : NoFalseSig l :=
  noFalseSig_of_empty_comment l hc ht h64 (fun h => absurd h (by omega))

/-- ZIP64 end records, empty comment, no prefix: the hypothesis is vacuous. -/
theorem noFalseSig_of_zip64_no_prefix (l : Layout) (hc : l.comment = []) (ht : l.trailing = [])
    (h64 : l.needs64 = true) (hp : l.pre = []) : NoFalseSig l := by
  obtain ⟨h1, h2⟩ := noFalseSig_i_of_empty_comment l hc ht
  refine ⟨h1, h2, (fun h => by rw [h64] at h; cases h), fun _ k hk => ?_⟩
  rw [hp] at hk; exact absurd hk (by simp)

/-- **Usable form: "names, comments and data do not embed ZIP record signatures".**  `NoFalseSig` holds
when (i) the end record's remaining 18 fixed bytes ++ comment ++ trailing bytes do not contain the
end-record signature, (ii) an archive without ZIP64 records contains no locator signature anywhere,
(iii) a ZIP64 archive has no prefix, or contains no ZIP64 end-record signature before the real one. -/
theorem noFalseSig_of_no_embedded_signature (l : Layout)
    (hwin : l.comment.length + l.trailing.length ≤ 65535)
    (h1 : ¬ le32 sigEocd <:+: (l.eocd ++ l.trailing).tail)
    (h2 : l.needs64 = false → ¬ le32 sigLocator <:+: build l)
    (h3 : l.needs64 = true → l.pre = [] ∨ ¬ le32 sigEocd64 <:+: (build l).take (l.end64Pos + 3)) :
    NoFalseSig l :=
  noFalseSig_of_no_embedded l hwin h1 h2 h3

/-! ## 1. Opening: (R) of DESIGN §4.3 -/

/-- **`reader_on_wf`** — for every layout whose values fit their fields (`Fits`), whose central extra
data are plain record sequences and whose entries are not WinZip-AES (`Readable`), and which embeds
no false signature (`NoFalseSig`): `ZipArchive::new` on the bytes an independent producer lays out
returns exactly the entries of the central directory, in order, each with the values recorded there
(`viewOf`), `offset()` = the length of the prepended data, and the archive comment; the device still
holds the archive.  Covered: any prefix, gaps between records, local headers that disagree with the
central ones (descriptors with zeroed fields, local ZIP64 records, different local extra data), each
of the 2^3 subsets of ZIP64 extended-information fields per entry (forced or needed), ZIP64 end
records (forced or needed; nothing may follow the comment then), and — without ZIP64 end records —
arbitrary bytes after the comment. -/
theorem reader_on_wf (l : Layout) (hF : l.Fits) (hR : l.Readable) (hS : NoFalseSig l)
    (ht : l.trailing = [] ∨ l.needs64 = false) :
    ∃ d', openArchive.runPure (Dev.ofBytes (build l)) = (.ok (archiveOf l), d') ∧
      d'.buf = build l := by
  obtain ⟨hwin, hi, hii, hiii⟩ := hS
  have hnfE : ∀ k, l.eocdPos < k → k + 22 ≤ (build l).length →
      u32At (build l) k ≠ some sigEocd := by
    intro k h1 h2
    have hlen := build_length l
    have := hi (k - (l.eocdPos + 1)) (by omega)
    have e : l.eocdPos + 1 + (k - (l.eocdPos + 1)) = k := by omega
    rwa [e] at this
  cases h64 : l.needs64 with
  | false =>
    obtain ⟨q, hq⟩ := open_plain l hF hR h64 hwin hnfE (hii h64) 0
    obtain ⟨d', h1, h2, _⟩ := hq (Dev.ofBytes (build l)) rfl rfl
    exact ⟨d', h1, h2⟩
  | true =>
    have htr : l.trailing = [] := by
      rcases ht with h | h
      · exact h
      · rw [h64] at h; cases h
    have hnf64 : ∀ k, l.cdOffset + l.cdSize ≤ k → k < l.end64Pos →
        u32At (build l) k ≠ some sigEocd64 := by
      intro k h1 h2
      have h64p : l.end64Pos = l.pre.length + l.cdOffset + l.cdSize := by
        simp [Layout.end64Pos, Layout.cdStart]
      have := hiii h64 (k - (l.cdOffset + l.cdSize)) (by omega)
      have e : l.cdOffset + l.cdSize + (k - (l.cdOffset + l.cdSize)) = k := by omega
      rwa [e] at this
    obtain ⟨q, hq⟩ := open_z64 l hF hR h64 htr hnfE hnf64 0
    obtain ⟨d', h1, h2, _⟩ := hq (Dev.ofBytes (build l)) rfl rfl
    exact ⟨d', h1, h2⟩

/-- What `reader_on_wf` returns, field by field. -/
theorem archive_fields (l : Layout) :
    (archiveOf l).offset = l.pre.length ∧ (archiveOf l).comment = l.comment ∧
    (archiveOf l).files = viewOf l ∧ (archiveOf l).files.length = l.entries.length :=
  ⟨rfl, rfl, rfl, viewList_length _ _ _ _⟩

/-- Garbage after the comment of an archive without ZIP64 records (the property's own restriction). -/
theorem trailing_garbage_ok (l : Layout) (hF : l.Fits) (hR : l.Readable) (hS : NoFalseSig l)
    (h64 : l.needs64 = false) :
    ∃ d', openArchive.runPure (Dev.ofBytes (build l)) = (.ok (archiveOf l), d') ∧ d'.buf = build l :=
  reader_on_wf l hF hR hS (Or.inr h64)

/-- Entry `i` of the reported list is the view of entry `i` of the central directory, at the offset the
layout computes for it (shifted by the prefix) — names, sizes, CRC, method, time, attributes, extra data
and comment as recorded in the CENTRAL record. -/
theorem entry_view (l : Layout) (i : Nat) (e : Entry) (he : l.entries[i]? = some e) :
    ∃ off chs, (localOffsets l.entries 0)[i]? = some off ∧
      (archiveOf l).files[i]? = some (viewEntry e off l.pre.length chs) := by
  obtain ⟨es1, es2, chs, _, _, h3, h4⟩ := viewList_getElem l.pre.length l.entries 0 l.cdStart i e he
  exact ⟨_, chs, h3, h4⟩

/-- The reported values, spelled out (each by unfolding `viewEntry`): central sizes/CRC/method/time
are authoritative, `header_start` is shifted by the prefix. -/
theorem view_fields (e : Entry) (off pre chs : Nat) :
    let v := viewEntry e off pre chs
    v.crc32 = e.crc ∧ v.compressedSize = e.csize ∧ v.uncompressedSize = e.usize ∧
    v.method = Method.fromU16 e.method ∧ v.time = DateTime.fromMsdos e.date e.time ∧
    v.fileNameRaw = e.name ∧ v.externalAttributes = e.externalAttrs ∧
    v.headerStart = UInt64.ofNat (off + pre) ∧ v.centralHeaderStart = UInt64.ofNat chs ∧
    v.system = System.fromU8 (e.madeBy >>> 8).toUInt8 ∧ v.versionMadeBy = e.madeBy.toUInt8 ∧
    v.encrypted = (e.flagsOut &&& 1 == 1) ∧ v.usingDataDescriptor = (e.flagsOut &&& 8 != 0) :=
  ⟨rfl, rfl, rfl, rfl, rfl, rfl, rfl, rfl, rfl, rfl, rfl, rfl, rfl⟩

/-- Extra data are returned verbatim: the central record's whole extra field, i.e. the ZIP64 record
the layout needed (if any) followed by the foreign extra records. -/
theorem extra_verbatim (e : Entry) (off pre chs : Nat) :
    (viewEntry e off pre chs).extraField = e.centralZ64 (UInt64.ofNat off) ++ e.centralExtra := rfl

/-- … and nothing but the foreign records when no field goes through ZIP64. -/
theorem extra_verbatim_plain (e : Entry) (off pre chs : Nat)
    (h : e.zU = false ∧ e.zC = false ∧ e.zO (UInt64.ofNat off) = false) :
    (viewEntry e off pre chs).extraField = e.centralExtra := by
  rw [extra_verbatim]
  simp [Entry.centralZ64, h.1, h.2.1, h.2.2]

/-- Names and entry comments are decoded by the flagged encoding (bit 11; C19 says what
`decodeToUtf8` is), the raw name is kept; the archive comment is kept raw. -/
theorem comment_decoded (e : Entry) (off pre chs : Nat) :
    let utf8 : Bool := e.flagsOut &&& 0x0800 != 0
    (viewEntry e off pre chs).fileComment = Text.decodeToUtf8 utf8 e.comment ∧
    (viewEntry e off pre chs).fileName = Text.decodeToUtf8 utf8 e.name ∧
    (viewEntry e off pre chs).fileNameRaw = e.name := ⟨rfl, rfl, rfl⟩

/-- **Attributes → Unix mode**: Unix hosts `attrs >> 16`; DOS hosts from the directory / read-only
bits; other hosts and all-zero attributes none. -/
theorem unix_mode_spec (e : Entry) (off pre chs : Nat) :
    (viewEntry e off pre chs).unixMode.map UInt32.toNat = unixModeSpec e.madeBy e.externalAttrs :=
  unixMode_eq_spec (viewEntry e off pre chs) e.madeBy rfl

/-- The same for any entry record whose host system is the upper byte of `version made by`. -/
theorem unix_mode_spec_general (f : FileData) (madeBy : UInt16)
    (hs : f.system = System.fromU8 (madeBy >>> 8).toUInt8) :
    f.unixMode.map UInt32.toNat = unixModeSpec madeBy f.externalAttributes :=
  unixMode_eq_spec f madeBy hs

example : unixModeSpec 0x0314 ((0o100644 : UInt32) <<< 16) = some 0o100644 := by decide
example : unixModeSpec 0x0014 0x10 = some 0o40775 := by decide
example : unixModeSpec 0x0014 0x20 = some 0o100664 := by decide
example : unixModeSpec 0x0014 0x01 = some 0o444 := by decide
example : unixModeSpec 0x0a14 0x10 = none := by decide
example : unixModeSpec 0x0314 0 = none := by decide

/-! ## 2. Reading entries: (R′) -/

/-- **`reader_entry_raw`** — on the archive `reader_on_wf` returns and any device holding the archive
(in particular the one `reader_on_wf` returns), `by_index_raw(i)` read to the end yields exactly the
stored bytes of entry `i`, and the data start is computed from the LOCAL header's own name and extra
lengths (prefix + offset + 30 + local name length + local extra length) — so descriptor entries with
zeroed local sizes, local ZIP64 records and local extra data that differ from the central record's
are all read correctly: the compressed size comes from the central record. -/
theorem reader_entry_raw (l : Layout) (hF : l.Fits) (i : Nat) (e : Entry)
    (he : l.entries[i]? = some e) (d : Dev) (hd : d.buf = build l) :
    ∃ off d', (localOffsets l.entries 0)[i]? = some off ∧
      (byIndexRaw (archiveOf l) i).runPure d = (.ok (e.dataStart off l.pre.length, e.data), d') ∧
      d'.buf = build l := by
  obtain ⟨off, h1, h2⟩ := runs_byIndexRaw l hF i e he d.pos
  obtain ⟨d', h3, h4, _⟩ := h2 d hd rfl
  exact ⟨off, d', h1, h3, h4⟩

/-- **End to end**: open the foreign archive, then read entry `i` raw on the archive value and the
device `ZipArchive::new` returned. -/
theorem open_then_read_raw (l : Layout) (hF : l.Fits) (hR : l.Readable) (hS : NoFalseSig l)
    (ht : l.trailing = [] ∨ l.needs64 = false) (i : Nat) (e : Entry) (he : l.entries[i]? = some e) :
    ∃ a d1 off d2, openArchive.runPure (Dev.ofBytes (build l)) = (.ok a, d1) ∧
      a.files = viewOf l ∧ a.offset = l.pre.length ∧ a.comment = l.comment ∧
      (localOffsets l.entries 0)[i]? = some off ∧
      (byIndexRaw a i).runPure d1 = (.ok (e.dataStart off l.pre.length, e.data), d2) := by
  obtain ⟨d1, h1, hb⟩ := reader_on_wf l hF hR hS ht
  obtain ⟨off, d2, h2, h3, _⟩ := reader_entry_raw l hF i e he d1 hb
  exact ⟨archiveOf l, d1, off, d2, h1, rfl, rfl, rfl, h2, h3⟩

/-- The data start spelled out. -/
theorem data_start_spec (e : Entry) (off pre : Nat) :
    e.dataStart off pre = pre + off + 30 + e.name.length +
      ((if e.localZip64 then 20 else 0) + e.localExtra.length) := by
  unfold Entry.dataStart Entry.localExtraAll
  cases e.localZip64 <;> simp <;> omega

/-- **Decoding entries, modulo the external decoders**: for an unencrypted entry with a method the
crate has a decoder for, `by_index(i)` (any or no password) read to the end yields what the decoder
makes of the stored bytes, passed through the CRC check against the CENTRAL record's CRC. -/
theorem reader_entry_read (ext : Ext) (l : Layout) (hF : l.Fits) (i : Nat) (e : Entry)
    (he : l.entries[i]? = some e) (pw : Option Bytes)
    (henc : (e.flagsOut &&& 1 == 1) = false) (hdec : (Method.fromU16 e.method).decodable = true)
    (d : Dev) (hd : d.buf = build l) :
    ∃ off d', (localOffsets l.entries 0)[i]? = some off ∧
      (byIndexRead ext (archiveOf l) i pw).runPure d =
        (.ok (.ok (e.dataStart off l.pre.length,
          ext.decode (Method.fromU16 e.method) e.data >>= fun c => crcCheck false e.crc c)), d') ∧
      d'.buf = build l := by
  obtain ⟨off, h1, h2⟩ := runs_byIndexRead ext l hF i e he pw henc hdec d.pos
  obtain ⟨d', h3, h4, _⟩ := h2 d hd rfl
  exact ⟨off, d', h1, h3, h4⟩

/-- `decode m data = ok content ∧ crc32 content = crc → ok content`. -/
theorem reader_entry_decoded (ext : Ext) (l : Layout) (hF : l.Fits) (i : Nat) (e : Entry)
    (he : l.entries[i]? = some e) (pw : Option Bytes)
    (henc : (e.flagsOut &&& 1 == 1) = false) (hdec : (Method.fromU16 e.method).decodable = true)
    (content : Bytes) (hc : ext.decode (Method.fromU16 e.method) e.data = .ok content)
    (hcrc : Spec.Crc32.crc32 content = e.crc) (d : Dev) (hd : d.buf = build l) :
    ∃ ds d', (byIndexRead ext (archiveOf l) i pw).runPure d = (.ok (.ok (ds, .ok content)), d') ∧
      d'.buf = build l := by
  obtain ⟨off, d', _, h2, h3⟩ := reader_entry_read ext l hF i e he pw henc hdec d hd
  refine ⟨e.dataStart off l.pre.length, d', ?_, h3⟩
  rw [h2, hc]
  simp [crcCheck, hcrc]

/-- **`reader_entry_stored`** — an unencrypted stored entry whose recorded CRC is the CRC-32 of its
bytes reads back as exactly those bytes.  (`Stored` is the identity pass-through; the model routes it
through `Ext.decode` like the other methods, hence the hypothesis `hst`.) -/
theorem reader_entry_stored (ext : Ext) (hst : ∀ b, ext.decode .stored b = .ok b)
    (l : Layout) (hF : l.Fits) (i : Nat) (e : Entry) (he : l.entries[i]? = some e)
    (pw : Option Bytes) (henc : (e.flagsOut &&& 1 == 1) = false) (hm : e.method = 0)
    (hcrc : e.crc = Spec.Crc32.crc32 e.data) (d : Dev) (hd : d.buf = build l) :
    ∃ ds d', (byIndexRead ext (archiveOf l) i pw).runPure d = (.ok (.ok (ds, .ok e.data)), d') ∧
      d'.buf = build l := by
  have hm' : Method.fromU16 e.method = .stored := by rw [hm]; rfl
  exact reader_entry_decoded ext l hF i e he pw henc (by rw [hm']; rfl) e.data
    (by rw [hm']; exact hst _) hcrc.symm d hd

/-- **An unsupported method is an error on that entry only**: the archive opens (`reader_on_wf` asks
nothing of the methods except "not 99"), the raw bytes of the entry are readable (`reader_entry_raw`),
`by_index` on it fails with `UnsupportedArchive`, and every other entry reads as usual
(`reader_entry_read` / `reader_entry_stored` mention entry `i` only). -/
theorem unsupported_is_per_entry (ext : Ext) (l : Layout) (hF : l.Fits) (i : Nat) (e : Entry)
    (he : l.entries[i]? = some e) (pw : Option Bytes)
    (hpw : (pw.isNone && (e.flagsOut &&& 1 == 1)) = false) (v : UInt16)
    (hm : Method.fromU16 e.method = .unsupported v) (d : Dev) (hd : d.buf = build l) :
    (∃ d', (byIndexRead ext (archiveOf l) i pw).runPure d = (.err .unsupportedArchive, d') ∧
      d'.buf = build l) ∧
    (∃ ds d', (byIndexRaw (archiveOf l) i).runPure d = (.ok (ds, e.data), d')) := by
  constructor
  · obtain ⟨q, h⟩ := runs_byIndexRead_unsupported ext l hF i e he pw hpw v hm d.pos
    obtain ⟨d', h1, h2, _⟩ := h d hd rfl
    exact ⟨d', h1, h2⟩
  · obtain ⟨off, d', _, h, _⟩ := reader_entry_raw l hF i e he d hd
    exact ⟨_, d', h⟩

example : Method.fromU16 1 = .unsupported 1 := by decide
example : Method.fromU16 14 = .unsupported 14 := by decide

/-! ## 3. Lookup -/

/-- **`by_name_last`** — lookup by name yields index `i` exactly when entry `i` has that (decoded) name
and no later entry has: with duplicate names the LAST one wins. -/
theorem by_name_last (a : Archive) (name : Bytes) (i : Nat) :
    a.indexOfName name = some i ↔
      ((∃ f, a.files[i]? = some f ∧ f.fileName = name) ∧
        ∀ j g, i < j → a.files[j]? = some g → g.fileName ≠ name) :=
  indexOfName_eq_some a name i

/-- `by_name` is `by_index` at that index. -/
theorem by_name_is_by_index (ext : Ext) (a : Archive) (name : Bytes) (i : Nat) (pw : Option Bytes)
    (h : a.indexOfName name = some i) : byNameRead ext a name pw = byIndexRead ext a i pw := by
  unfold byNameRead; rw [h]

/-- On a layout: the name of entry `i`, decoded by its flag, finds entry `i` iff no later entry decodes
to the same name. -/
theorem by_name_last_layout (l : Layout) (i : Nat) (e : Entry) (he : l.entries[i]? = some e)
    (hlast : ∀ j e', i < j → l.entries[j]? = some e' →
      Text.decodeToUtf8 (e'.flagsOut &&& 0x0800 != 0) e'.name ≠
        Text.decodeToUtf8 (e.flagsOut &&& 0x0800 != 0) e.name) :
    (archiveOf l).indexOfName (Text.decodeToUtf8 (e.flagsOut &&& 0x0800 != 0) e.name) = some i := by
  rw [by_name_last]
  obtain ⟨off, chs, _, h⟩ := entry_view l i e he
  refine ⟨⟨_, h, rfl⟩, ?_⟩
  intro j g hj hg
  have hjl : j < l.entries.length := by
    rcases Nat.lt_or_ge j l.entries.length with h' | h'
    · exact h'
    · have : (archiveOf l).files.length ≤ j := by rw [(archive_fields l).2.2.2]; exact h'
      rw [List.getElem?_eq_none this] at hg; cases hg
  obtain ⟨off', chs', _, h'⟩ := entry_view l j l.entries[j] (List.getElem?_eq_getElem hjl)
  rw [h'] at hg
  cases hg
  exact hlast j _ hj (List.getElem?_eq_getElem hjl)

/-- **`by_name_absent`** — a name no entry has is `FileNotFound`. -/
theorem by_name_absent (ext : Ext) (a : Archive) (name : Bytes) (pw : Option Bytes)
    (h : ∀ f ∈ a.files, f.fileName ≠ name) (d : Dev) :
    a.indexOfName name = none ∧ (byNameRead ext a name pw).runPure d = (.err .fileNotFound, d) := by
  have hn := (indexOfName_eq_none a name).mpr h
  refine ⟨hn, ?_⟩
  unfold byNameRead; rw [hn]; rfl

/-- **`by_index_out_of_range`** — an index ≥ `len()` is `FileNotFound` (no I/O happens). -/
theorem by_index_out_of_range (ext : Ext) (a : Archive) (i : Nat) (pw : Option Bytes)
    (h : a.files.length ≤ i) (d : Dev) :
    (byIndexRead ext a i pw).runPure d = (.err .fileNotFound, d) ∧
    (byIndexRaw a i).runPure d = (.err .fileNotFound, d) := by
  have hn : a.files[i]? = none := List.getElem?_eq_none h
  constructor
  · unfold byIndexRead; rw [hn]; rfl
  · unfold byIndexRaw; rw [hn]; rfl

/-! ## 4. Non-vacuity: concrete layouts satisfying every hypothesis, evaluated through the model -/

/-- "a.txt", stored, Unix 0644 -/
def exA : Entry :=
  { madeBy := 0x0314, versionNeeded := 20, flags := 0, method := 0, time := 0x6000, date := 0x5821,
    crc := 0x3610a686, usize := 5, name := [0x61, 0x2e, 0x74, 0x78, 0x74], centralExtra := [], comment := [],
    internalAttrs := 0, externalAttrs := 0x81A40000, z64 := (false, false, false), localExtra := [],
    localZip64 := false, desc := .none, gapBefore := [], data := [0x68, 0x65, 0x6c, 0x6c, 0x6f] }

/-- "b", written by a streaming producer: data descriptor (local CRC/sizes zero), a foreign extra record
in the central header only, another one in the local header only, compressed size forced into ZIP64,
made on DOS with the directory-less archive bit, 3 junk bytes before its local header, an entry comment -/
def exB : Entry :=
  { madeBy := 0x0014, versionNeeded := 45, flags := 0x0800, method := 0, time := 0, date := 0x21,
    crc := 0x3610a686, usize := 5, name := [0x62],
    centralExtra := le16 0x5455 ++ le16 5 ++ [1, 0, 0, 0, 0], comment := [0x63],
    internalAttrs := 1, externalAttrs := 0x20, z64 := (false, true, false),
    localExtra := le16 0x7875 ++ le16 2 ++ [9, 9], localZip64 := false, desc := .sig32,
    gapBefore := [0xde, 0xad, 0xbe], data := [0x68, 0x65, 0x6c, 0x6c, 0x6f] }

def exL : Layout :=
  { pre := [0x23, 0x21, 0x2f, 0x62, 0x0a], entries := [exA, exB], gapBeforeCd := [0],
    comment := [0x68, 0x69], zip64End := false, trailing := [] }

example : exL.Fits ∧ exL.Readable ∧ NoFalseSig exL ∧ exL.needs64 = false := by decide +kernel


/-- … and the model really computes that on these bytes (kernel evaluation of `ZipArchive::new`,
`by_index_raw`, lookup by name on the 251-byte archive). -/
example :
    (match (openArchive.runPure (Dev.ofBytes (build exL))).1 with
     | .ok a => a.offset == 5 && a.comment == [0x68, 0x69] && a.files == viewOf exL &&
        a.files.map (·.fileName) == [[0x61, 0x2e, 0x74, 0x78, 0x74], [0x62]] &&
        a.files.map (·.compressedSize) == [5, 5] && a.files.map (·.largeFile) == [false, true] &&
        a.files.map (·.unixMode) == [some 0o100644, some 0o100664] &&
        a.indexOfName [0x62] == some 1 && a.indexOfName [0x63] == none
     | _ => false) = true := by decide +kernel

example :
    (match ((byIndexRaw (archiveOf exL) 1).runPure (Dev.ofBytes (build exL))).1 with
     | .ok (ds, raw) => ds == exB.dataStart (exA.localBytes.length + 3) 5 && raw == exB.data
     | _ => false) = true := by decide +kernel

example : (build exL).length = 251 := by decide +kernel

/-- The same entries with forced ZIP64 end records (locator + ZIP64 end record found behind the
5-byte prefix by the forward search), and with garbage after the comment of the plain archive. -/
def exL64 : Layout := { exL with zip64End := true, end64Versions := (0x031e, 45) }
def exLg : Layout := { exL with trailing := [0x50, 0x4b, 0x00, 0x00, 0xff] }

example : exL64.Fits ∧ exL64.Readable ∧ NoFalseSig exL64 ∧ exL64.needs64 = true ∧ exL64.trailing = [] := by
  decide +kernel
example : exLg.Fits ∧ exLg.Readable ∧ NoFalseSig exLg ∧ exLg.needs64 = false := by decide +kernel

example :
    (match (openArchive.runPure (Dev.ofBytes (build exL64))).1 with
     | .ok a => a.offset == 5 && a.files == viewOf exL64 && a.files.length == 2
     | _ => false) = true := by decide +kernel

example :
    (match (openArchive.runPure (Dev.ofBytes (build exLg))).1 with
     | .ok a => a.offset == 5 && a.files == viewOf exLg && a.comment == [0x68, 0x69]
     | _ => false) = true := by decide +kernel

/-- hypotheses of the entry theorems on these entries: stored, unencrypted, recorded CRC = CRC-32 of
the data; entry 1 is a descriptor entry whose LOCAL extra data (6 bytes) differ from the central ones
(9 + 12 bytes), so its data start needs the local lengths -/
example : exL.entries[1]? = some exB := rfl
example : exB.method = 0 ∧ (exB.flagsOut &&& 1 == 1) = false ∧
    exB.crc = Spec.Crc32.crc32 exB.data ∧ (Method.fromU16 exB.method).decodable = true ∧
    exB.localExtraAll.length = 6 ∧ (exB.centralExtraAll 43).length = 21 ∧
    (localOffsets exL.entries 0)[1]? = some 43 ∧ exB.dataStart 43 5 = 85 := by decide +kernel

/-- duplicate names: lookup finds the last one (`by_name_last_layout`'s hypothesis holds for index 1,
fails for index 0) -/
def exDup : Layout := { exL with entries := [exA, { exA with data := [0x21], usize := 1, crc := 0x9BD366AE }] }

example : exDup.Fits ∧ exDup.Readable ∧ NoFalseSig exDup ∧
    (archiveOf exDup).indexOfName exA.name = some 1 ∧
    (archiveOf exDup).indexOfName [0x7a] = none := by decide +kernel

/-- the sufficient condition "no embedded signatures" on the same layouts -/
example : ¬ le32 sigEocd <:+: (exL.eocd ++ exL.trailing).tail ∧ ¬ le32 sigLocator <:+: build exL ∧
    ¬ le32 sigEocd64 <:+: (build exL64).take (exL64.end64Pos + 3) := by decide +kernel

/-- The restriction "garbage after the comment only without ZIP64 records" is real: one trailing byte
after a ZIP64 archive moves the locator probe off the locator, the reader falls back to the
0xFFFF/0xFFFFFFFF placeholders of the end record and rejects the archive. -/
def exL64g : Layout := { exL64 with trailing := [0] }

example : exL64g.Fits ∧ exL64g.Readable ∧ NoFalseSig exL64g ∧
    ¬ (exL64g.trailing = [] ∨ exL64g.needs64 = false) := by decide +kernel
example :
    (match (openArchive.runPure (Dev.ofBytes (build exL64g))).1 with
     | .err .invalidArchive => true
     | _ => false) = true := by decide +kernel

/-- `NoFalseSig` is not vacuous the other way either: a comment that embeds an end-record signature
violates (i), and the reader indeed goes wrong on it (it finds the embedded record first). -/
def exBad : Layout :=
  { exL with comment := le32 sigEocd ++ [0, 0, 0, 0, 0, 0, 0, 0, 0, 0, 0, 0, 0, 0, 0, 0, 0, 0] }

example : exBad.Fits ∧ exBad.Readable ∧ ¬ NoFalseSig exBad := by decide +kernel
example :
    (match (openArchive.runPure (Dev.ofBytes (build exBad))).1 with
     | .ok a => a.files == viewOf exBad
     | _ => false) = false := by decide +kernel

end ZipVerif.Props.C03
