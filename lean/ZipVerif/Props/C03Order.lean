import ZipVerif.Lemmas.ReadWfOrder
/-
C03, generalised layouts (review finding F7): "local/central ordering differences", end-record fields that keep
the real values next to forced ZIP64 records, an extensible data sector in the ZIP64 end record, bytes between
the directory and the ZIP64 end record.

`Spec.Zip.Layout` / `build` lay the central records out in the order of the local records and cannot say any
of this.  `Spec.Zip.LayoutG` (Spec/ZipOrder.lean) adds `cdOrder` (the indices the directory lists, in its own
order), `eocdSaturate`, `end64Ext`, `end64Gap`; `buildG` lays the bytes out, `viewOfG` says what a reader must
report: the DIRECTORY's entries in the DIRECTORY's order, each with the offset of its own local header.
With the identity order and the defaults `buildG` is `build` and `viewOfG` is `viewOf` (`buildG_ofLayout`,
`viewOfG_ofLayout`), so `C03.reader_on_wf` is the instance `reader_on_wf_cd_order (LayoutG.ofLayout l)`.

NOT covered by a theorem (generated and read correctly by crate and model reader on the same bytes, `read`
stream class `builder.g`): the central ZIP64 record BEHIND other extra records, and its 4-byte disk-start field.
-/

namespace ZipVerif.Props.C03Order
open ZipVerif ZipVerif.Model ZipVerif.Spec.Zip

/-- **`reader_on_wf_cd_order`** — `ZipArchive::new` on the bytes of ANY generalised layout whose values fit
their fields, whose central extra data are plain record sequences (`Readable`) and which embeds no false
signature returns exactly the entries the central directory lists, IN THE DIRECTORY'S ORDER (whatever the
order of the local records in the file), each with the values of its central record and the offset of its own
local header; `offset()` = prefix length; the comment.  `cdOrder` is unconstrained: a permutation
(`IsPermutation`, the property's "ordering differences"), a sub-list (entries the directory no longer names)
or a list with repetitions. -/
theorem reader_on_wf_cd_order (g : LayoutG) (hF : g.Fits) (hR : g.base.Readable) (hS : NoFalseSigG g)
    (ht : g.base.trailing = [] ∨ g.needs64 = false) :
    ∃ d', openArchive.runPure (Dev.ofBytes (buildG g)) = (.ok (archiveOfG g), d') ∧
      d'.buf = buildG g := by
  obtain ⟨hwin, hi, hii, hiii⟩ := hS
  have hnfE : ∀ k, g.eocdPos < k → k + 22 ≤ (buildG g).length →
      u32At (buildG g) k ≠ some sigEocd := by
    intro k h1 h2
    have hlen := buildG_length g
    have := hi (k - (g.eocdPos + 1)) (by omega)
    have e : g.eocdPos + 1 + (k - (g.eocdPos + 1)) = k := by omega
    rwa [e] at this
  cases h64 : g.needs64 with
  | false =>
    obtain ⟨q, hq⟩ := open_plainG g hF hR h64 hwin hnfE (hii h64) 0
    obtain ⟨d', h1, h2, _⟩ := hq (Dev.ofBytes (buildG g)) rfl rfl
    exact ⟨d', h1, h2⟩
  | true =>
    have htr : g.base.trailing = [] := by
      rcases ht with h | h
      · exact h
      · rw [h64] at h; cases h
    have hnf64 : ∀ k, g.end64Off ≤ k → k < g.end64Pos → u32At (buildG g) k ≠ some sigEocd64 := by
      intro k h1 h2
      have h64p : g.end64Pos = g.base.pre.length + g.end64Off := by
        simp [LayoutG.end64Pos, LayoutG.end64Off, LayoutG.cdStart, Layout.cdStart, LayoutG.cdOffset]; omega
      have := hiii h64 (k - g.end64Off) (by omega)
      have e : g.end64Off + (k - g.end64Off) = k := by omega
      rwa [e] at this
    obtain ⟨q, hq⟩ := open_z64G g hF hR h64 htr hnfE hnf64 0
    obtain ⟨d', h1, h2, _⟩ := hq (Dev.ofBytes (buildG g)) rfl rfl
    exact ⟨d', h1, h2⟩

/-- What `reader_on_wf_cd_order` returns, field by field. -/
theorem archive_fields (g : LayoutG) :
    (archiveOfG g).offset = g.base.pre.length ∧ (archiveOfG g).comment = g.base.comment ∧
    (archiveOfG g).files = viewOfG g ∧ (archiveOfG g).files.length = g.cdList.length :=
  ⟨rfl, rfl, rfl, viewListP_length _ _ _⟩

/-! ### which entry is reported at which index -/

theorem filterMap_getElem_of_isSome {α β} (f : α → Option β) : ∀ (l : List α) (i : Nat),
    (∀ x ∈ l, (f x).isSome) → (l.filterMap f)[i]? = l[i]?.bind f := by
  intro l
  induction l with
  | nil => intro i _; simp
  | cons a l ih =>
    intro i h
    have ha := h a (List.mem_cons_self)
    obtain ⟨b, hb⟩ := Option.isSome_iff_exists.mp ha
    rw [List.filterMap_cons_some hb]
    cases i with
    | zero => simp [hb]
    | succ i => simpa using ih i (fun x hx => h x (List.mem_cons_of_mem _ hx))

/-- element `j` of the placed list: entry `j` with the offset `localOffsets` computes for it -/
theorem placed_getElem_of : ∀ (es : List Entry) (loc j : Nat) (e : Entry), es[j]? = some e →
    ∃ off, (localOffsets es loc)[j]? = some off ∧ (placed es loc)[j]? = some (e, off) := by
  intro es
  induction es with
  | nil => intro loc j e h; simp at h
  | cons x es ih =>
    intro loc j e h
    cases j with
    | zero =>
      simp only [List.getElem?_cons_zero, Option.some.injEq] at h
      subst h
      exact ⟨loc + x.gapBefore.length, by simp [localOffsets], by simp [placed]⟩
    | succ j =>
      simp only [List.getElem?_cons_succ] at h
      obtain ⟨off, h1, h2⟩ := ih (loc + x.localBytes.length) j e h
      exact ⟨off, by simpa [localOffsets] using h1, by simpa [placed] using h2⟩

/-- When every index of `cdOrder` names an entry (in particular for a permutation): position `i` of the
directory holds entry `cdOrder[i]`. -/
theorem cdList_getElem (g : LayoutG) (hin : ∀ j ∈ g.cdOrder, j < g.base.entries.length)
    (i j : Nat) (e : Entry) (hi : g.cdOrder[i]? = some j) (he : g.base.entries[j]? = some e) :
    ∃ off, (localOffsets g.base.entries 0)[j]? = some off ∧ g.cdList[i]? = some (e, off) := by
  obtain ⟨off, h1, h2⟩ := placed_getElem_of g.base.entries 0 j e he
  refine ⟨off, h1, ?_⟩
  unfold LayoutG.cdList
  rw [filterMap_getElem_of_isSome _ _ _ (fun x hx => by
    have := hin x hx
    rw [← placed_length g.base.entries 0] at this
    simp [List.getElem?_eq_getElem this]), hi]
  exact h2

theorem isPermutation_inRange (g : LayoutG) (hp : g.IsPermutation) :
    ∀ j ∈ g.cdOrder, j < g.base.entries.length := by
  intro j hj
  have := (hp.mem_iff (a := j)).mp hj
  simpa using this

/-- a permuted directory lists every entry exactly once: the reader reports as many entries as the archive has -/
theorem count_of_permutation (g : LayoutG) (hp : g.IsPermutation) :
    (archiveOfG g).files.length = g.base.entries.length := by
  rw [(archive_fields g).2.2.2]
  have hin := isPermutation_inRange g hp
  have hl : g.cdList.length = g.cdOrder.length := by
    unfold LayoutG.cdList
    have : ∀ (l : List Nat), (∀ j ∈ l, j < g.base.entries.length) →
        (l.filterMap fun i => (placed g.base.entries 0)[i]?).length = l.length := by
      intro l
      induction l with
      | nil => intro _; rfl
      | cons a l ih =>
        intro h
        have ha := h a (List.mem_cons_self)
        rw [← placed_length g.base.entries 0] at ha
        rw [List.filterMap_cons_some (List.getElem?_eq_getElem ha)]
        simp [ih (fun x hx => h x (List.mem_cons_of_mem _ hx))]
    exact this _ hin
  rw [hl, hp.length_eq, List.length_range]

/-- **Entry `i` of the reported list is the view of entry `cdOrder[i]`**, at the offset of that entry's own
local header (shifted by the prefix): names, sizes, CRC, method, time, attributes, extra data and comment as
recorded in its central record (`C03.view_fields`, `C03.extra_verbatim`, `C03.unix_mode_spec` apply to
`viewEntry` verbatim). -/
theorem entry_view (g : LayoutG) (hin : ∀ j ∈ g.cdOrder, j < g.base.entries.length)
    (i j : Nat) (e : Entry) (hi : g.cdOrder[i]? = some j) (he : g.base.entries[j]? = some e) :
    ∃ off chs, (localOffsets g.base.entries 0)[j]? = some off ∧
      (archiveOfG g).files[i]? = some (viewEntry e off g.base.pre.length chs) := by
  obtain ⟨off, h1, h2⟩ := cdList_getElem g hin i j e hi he
  obtain ⟨chs, h3⟩ := viewListP_getElem g.base.pre.length g.cdList g.cdStart i (e, off) h2
  exact ⟨off, chs, h1, h3⟩

/-! ### reading entries through the permuted directory -/

/-- **`by_index_raw(i)`** on the archive `reader_on_wf_cd_order` returns: exactly the stored bytes of entry
`cdOrder[i]`, found through the offset its central record carries, from the data start computed out of its
LOCAL header's lengths. -/
theorem reader_entry_raw (g : LayoutG) (hF : g.Fits) (hin : ∀ j ∈ g.cdOrder, j < g.base.entries.length)
    (i j : Nat) (e : Entry) (hi : g.cdOrder[i]? = some j) (he : g.base.entries[j]? = some e)
    (d : Dev) (hd : d.buf = buildG g) :
    ∃ off d', (localOffsets g.base.entries 0)[j]? = some off ∧
      (byIndexRaw (archiveOfG g) i).runPure d = (.ok (e.dataStart off g.base.pre.length, e.data), d') ∧
      d'.buf = buildG g := by
  obtain ⟨off, h1, h2⟩ := cdList_getElem g hin i j e hi he
  obtain ⟨d', h3, h4, _⟩ := runs_byIndexRawG g hF i (e, off) h2 d.pos d hd rfl
  exact ⟨off, d', h1, h3, h4⟩

/-- **`by_index(i)` read to the end**: the decoder's output on the stored bytes of entry `cdOrder[i]`, gated by
the CRC of its central record. -/
theorem reader_entry_read (ext : Ext) (g : LayoutG) (hF : g.Fits)
    (hin : ∀ j ∈ g.cdOrder, j < g.base.entries.length)
    (i j : Nat) (e : Entry) (hi : g.cdOrder[i]? = some j) (he : g.base.entries[j]? = some e)
    (pw : Option Bytes) (henc : (e.flagsOut &&& 1 == 1) = false)
    (hdec : (Method.fromU16 e.method).decodable = true) (d : Dev) (hd : d.buf = buildG g) :
    ∃ off d', (localOffsets g.base.entries 0)[j]? = some off ∧
      (byIndexRead ext (archiveOfG g) i pw).runPure d =
        (.ok (.ok (e.dataStart off g.base.pre.length,
          ext.decode (Method.fromU16 e.method) e.data >>= fun c => crcCheck false e.crc c)), d') ∧
      d'.buf = buildG g := by
  obtain ⟨off, h1, h2⟩ := cdList_getElem g hin i j e hi he
  obtain ⟨d', h3, h4, _⟩ := runs_byIndexReadG ext g hF i (e, off) h2 pw henc hdec d.pos d hd rfl
  exact ⟨off, d', h1, h3, h4⟩

/-- **End to end**: open the archive, then read the entry the directory lists at position `i`. -/
theorem open_then_read_raw (g : LayoutG) (hF : g.Fits) (hR : g.base.Readable) (hS : NoFalseSigG g)
    (ht : g.base.trailing = [] ∨ g.needs64 = false) (hin : ∀ j ∈ g.cdOrder, j < g.base.entries.length)
    (i j : Nat) (e : Entry) (hi : g.cdOrder[i]? = some j) (he : g.base.entries[j]? = some e) :
    ∃ a d1 off d2, openArchive.runPure (Dev.ofBytes (buildG g)) = (.ok a, d1) ∧
      a.files = viewOfG g ∧ a.offset = g.base.pre.length ∧ a.comment = g.base.comment ∧
      (localOffsets g.base.entries 0)[j]? = some off ∧
      (byIndexRaw a i).runPure d1 = (.ok (e.dataStart off g.base.pre.length, e.data), d2) := by
  obtain ⟨d1, h1, hb⟩ := reader_on_wf_cd_order g hF hR hS ht
  obtain ⟨off, d2, h2, h3, _⟩ := reader_entry_raw g hF hin i j e hi he d1 hb
  exact ⟨archiveOfG g, d1, off, d2, h1, rfl, rfl, rfl, h2, h3⟩

/-! ### the plain layouts are the instance "identity order, defaults" -/

theorem placed_eq_zip : ∀ (es : List Entry) (loc : Nat), placed es loc = es.zip (localOffsets es loc) := by
  intro es
  induction es with
  | nil => intro _; rfl
  | cons e es ih => intro loc; simp [placed, localOffsets, ih]

theorem filterMap_range_getElem {α} (l : List α) :
    (List.range l.length).filterMap (fun i => l[i]?) = l := by
  apply List.ext_getElem?
  intro i
  rw [filterMap_getElem_of_isSome _ _ _ (fun x hx => by
    have : x < l.length := by simpa using hx
    simp [List.getElem?_eq_getElem this])]
  by_cases h : i < l.length
  · simp [List.getElem?_range h]
  · have h' : l.length ≤ i := Nat.le_of_not_lt h
    simp [List.getElem?_eq_none h', List.getElem?_eq_none (by simpa using h' : (List.range l.length).length ≤ i)]

theorem cdList_ofLayout (l : Layout) : (LayoutG.ofLayout l).cdList = placed l.entries 0 := by
  unfold LayoutG.cdList LayoutG.ofLayout
  have := filterMap_range_getElem (placed l.entries 0)
  rw [placed_length] at this
  exact this

theorem centralBytesP_placed : ∀ (es : List Entry) (loc : Nat),
    centralBytesP (placed es loc) = centralBytes es (localOffsets es loc) := by
  intro es
  induction es with
  | nil => intro _; rfl
  | cons e es ih => intro loc; simp [placed, localOffsets, centralBytesP, centralBytes, ih]

theorem viewListP_placed (pre : Nat) : ∀ (es : List Entry) (loc chs : Nat),
    viewListP pre (placed es loc) chs = viewList pre es loc chs := by
  intro es
  induction es with
  | nil => intro _ _; rfl
  | cons e es ih => intro loc chs; simp [placed, viewListP, viewList, ih]

/-- the reader's obligation for a plain layout is the instance at the identity order -/
theorem viewOfG_ofLayout (l : Layout) : viewOfG (LayoutG.ofLayout l) = viewOf l := by
  unfold viewOfG viewOf
  rw [cdList_ofLayout, viewListP_placed]
  rfl

/-- the bytes of a plain layout are the instance at the identity order -/
theorem buildG_ofLayout (l : Layout) : buildG (LayoutG.ofLayout l) = build l := by
  have hcd : (LayoutG.ofLayout l).cdBytes = l.cdBytes := by
    unfold LayoutG.cdBytes Layout.cdBytes
    rw [cdList_ofLayout, centralBytesP_placed]
  have hsz : (LayoutG.ofLayout l).cdSize = l.cdSize := by unfold LayoutG.cdSize Layout.cdSize; rw [hcd]
  have hcnt : (LayoutG.ofLayout l).count = l.count := by
    unfold LayoutG.count Layout.count; rw [cdList_ofLayout, placed_length]
  have hoff : (LayoutG.ofLayout l).cdOffset = l.cdOffset := rfl
  have hn : (LayoutG.ofLayout l).needs64 = l.needs64 := by
    unfold LayoutG.needs64 Layout.needs64; rw [hsz, hcnt, hoff]; rfl
  have hgap : (LayoutG.ofLayout l).gap = [] := by
    unfold LayoutG.gap; cases (LayoutG.ofLayout l).needs64 <;> rfl
  have heo : (LayoutG.ofLayout l).end64Off = l.cdOffset + l.cdSize := by
    unfold LayoutG.end64Off; rw [hgap, hsz, hoff]; rfl
  have he64 : (LayoutG.ofLayout l).end64 = l.end64 := by
    unfold LayoutG.end64 Layout.end64
    rw [hn, heo, hsz, hcnt, hoff]
    cases l.needs64 <;> simp [LayoutG.ofLayout]
  have heocd : (LayoutG.ofLayout l).eocd = l.eocd := by
    unfold LayoutG.eocd Layout.eocd
    rw [hsz, hcnt, hoff]
    simp [LayoutG.ofLayout]
  unfold buildG build
  rw [hcd, hgap, he64, heocd]
  simp [LayoutG.ofLayout]

/-! ### non-vacuity: a two-entry archive whose directory lists the SECOND local record first -/

def entryA : Entry :=
  { madeBy := 0x0314, versionNeeded := 20, flags := 0, method := 0, time := 0, date := 0x21, crc := 0xe8b7be43,
    usize := 1, name := [0x61], centralExtra := [], comment := [], internalAttrs := 0,
    externalAttrs := 0x81a40000, z64 := (false, false, false), localExtra := [], localZip64 := false,
    desc := .none, gapBefore := [], data := [0x61] }

def entryB : Entry := { entryA with name := [0x62], data := [0x62, 0x62], usize := 2, crc := 0xb5ae1bae }

/-- local order a, b — central order b, a -/
def reversed : LayoutG :=
  { base := { pre := [], entries := [entryA, entryB], gapBeforeCd := [], comment := [], zip64End := false,
              trailing := [] },
    cdOrder := [1, 0] }

example : reversed.IsPermutation := List.Perm.swap 0 1 []
example : reversed.Fits ∧ reversed.base.Readable ∧ NoFalseSigG reversed ∧ reversed.needs64 = false := by decide +kernel
example : (viewOfG reversed).map (·.fileNameRaw) = [[0x62], [0x61]] := by decide +kernel
example : (viewOfG reversed).map (·.headerStart) = [32, 0] := by decide +kernel
example : buildG reversed ≠ build reversed.base := by decide +kernel

/-- the same layout laid out by the INDEPENDENT Rust builder (harness/src/mkzip.rs, test `f7_witness`; the real
crate opens these bytes and lists b, a): `buildG` agrees byte for byte -/
example : buildG reversed = [80, 75, 3, 4, 20, 0, 0, 0, 0, 0, 0, 0, 33, 0, 67, 190, 183, 232, 1, 0, 0, 0, 1, 0, 0, 0, 1, 0, 0, 0, 97, 97, 80, 75, 3, 4, 20, 0, 0, 0, 0, 0, 0, 0, 33, 0, 174, 27, 174, 181, 2, 0, 0, 0, 2, 0, 0, 0, 1, 0, 0, 0, 98, 98, 98, 80, 75, 1, 2, 20, 3, 20, 0, 0, 0, 0, 0, 0, 0, 33, 0, 174, 27, 174, 181, 2, 0, 0, 0, 2, 0, 0, 0, 1, 0, 0, 0, 0, 0, 0, 0, 0, 0, 0, 0, 164, 129, 32, 0, 0, 0, 98, 80, 75, 1, 2, 20, 3, 20, 0, 0, 0, 0, 0, 0, 0, 33, 0, 67, 190, 183, 232, 1, 0, 0, 0, 1, 0, 0, 0, 1, 0, 0, 0, 0, 0, 0, 0, 0, 0, 0, 0, 164, 129, 0, 0, 0, 0, 97, 80, 75, 5, 6, 0, 0, 0, 0, 2, 0, 2, 0, 94, 0, 0, 0, 65, 0, 0, 0, 0, 0] := by decide +kernel

/-- forced ZIP64 end records, real values kept in the plain end record, an extensible data sector and a gap -/
def unsaturated : LayoutG :=
  { base := { reversed.base with zip64End := true }, cdOrder := [1, 0], eocdSaturate := false,
    end64Ext := [0x65, 0, 2, 0, 0, 0, 7, 7], end64Gap := [1, 2, 3] }

example : unsaturated.Fits ∧ unsaturated.base.Readable ∧ NoFalseSigG unsaturated ∧ unsaturated.needs64 = true ∧
    unsaturated.base.trailing = [] := by decide +kernel

/-- ... and so it does on the ZIP64 variant (gap, extensible data sector, real values in the plain end record) -/
example : buildG unsaturated = [80, 75, 3, 4, 20, 0, 0, 0, 0, 0, 0, 0, 33, 0, 67, 190, 183, 232, 1, 0, 0, 0, 1, 0, 0, 0, 1, 0, 0, 0, 97, 97, 80, 75, 3, 4, 20, 0, 0, 0, 0, 0, 0, 0, 33, 0, 174, 27, 174, 181, 2, 0, 0, 0, 2, 0, 0, 0, 1, 0, 0, 0, 98, 98, 98, 80, 75, 1, 2, 20, 3, 20, 0, 0, 0, 0, 0, 0, 0, 33, 0, 174, 27, 174, 181, 2, 0, 0, 0, 2, 0, 0, 0, 1, 0, 0, 0, 0, 0, 0, 0, 0, 0, 0, 0, 164, 129, 32, 0, 0, 0, 98, 80, 75, 1, 2, 20, 3, 20, 0, 0, 0, 0, 0, 0, 0, 33, 0, 67, 190, 183, 232, 1, 0, 0, 0, 1, 0, 0, 0, 1, 0, 0, 0, 0, 0, 0, 0, 0, 0, 0, 0, 164, 129, 0, 0, 0, 0, 97, 1, 2, 3, 80, 75, 6, 6, 52, 0, 0, 0, 0, 0, 0, 0, 45, 0, 45, 0, 0, 0, 0, 0, 0, 0, 0, 0, 2, 0, 0, 0, 0, 0, 0, 0, 2, 0, 0, 0, 0, 0, 0, 0, 94, 0, 0, 0, 0, 0, 0, 0, 65, 0, 0, 0, 0, 0, 0, 0, 101, 0, 2, 0, 0, 0, 7, 7, 80, 75, 6, 7, 0, 0, 0, 0, 162, 0, 0, 0, 0, 0, 0, 0, 1, 0, 0, 0, 80, 75, 5, 6, 0, 0, 0, 0, 2, 0, 2, 0, 94, 0, 0, 0, 65, 0, 0, 0, 0, 0] := by decide +kernel

end ZipVerif.Props.C03Order
