import ZipVerif.Lemmas.ReadWfOrder
/-
C03, generalised layouts (review finding F7): "local/central ordering differences", end-record fields that keep
the real values next to forced ZIP64 records, an extensible data sector in the ZIP64 end record, bytes between
the directory and the ZIP64 end record.

`Spec.Zip.Layout` / `build` lay the central records out in the order of the local records and cannot say any
of this.  `Spec.Zip.LayoutG` (Spec/ZipOrder.lean) adds `cdOrder` (the indices the directory lists, in its own
order), `eocdSaturate`, `end64Ext`, `end64Gap` and — per entry — `z64Place`: the number of foreign central extra
records IN FRONT of the ZIP64 extended information record (APPNOTE 4.5 does not order the records of an extra
field) and its optional 4-byte disk-start field (the record then exists even when it carries nothing else, and
the header's 16-bit disk field holds 0xFFFF).  `buildG` lays the bytes out, `viewOfG` says what a reader must
report: the DIRECTORY's entries in the DIRECTORY's order, each with the offset of its own local header, sizes and
offset taken from the ZIP64 record wherever it sits, the extra field verbatim.
With the identity order and the defaults `buildG` is `build` and `viewOfG` is `viewOf` (`buildG_ofLayout`,
`viewOfG_ofLayout`), so `C03.reader_on_wf` is the instance `reader_on_wf_cd_order (LayoutG.ofLayout l)`.

The record-sequence argument is `Lemmas/CentralParseG` (`parseExtra_front`: foreign records in front are skipped
one by one; `parseExtra_z64G`: the 0x0001 record with any subset of its three 64-bit fields — the empty one
included — and the disk-start field, which the reader skips; `extra_on_centralG`, `parses_centralHeaderG`).
Hypothesis changed with respect to the first version of this file: `LayoutG.Fits` has a fourth clause — the
extra field of every LISTED central record fits its 16-bit length — because with the disk-start field the ZIP64
record may have 32 bytes, 4 more than `Entry.Fits` reserves (for plain layouts it follows from `Entry.Fits`:
`fits_ofLayout`).

Central extra fields with a WinZip-AES record (0x9901) are C16's subject and excluded here by `Readable`
(`ExtraOk`, method ≠ 99).  Before the K-C repair (`fixes/kc-aes-extra-consumed.patch`) an AES record IN FRONT of
the ZIP64 record lost the ZIP64 values; `Props.C16.kc_aes_zip64_any_order` is the kernel-checked statement that
it no longer does.
-/

namespace ZipVerif.Props.C03Order
open ZipVerif ZipVerif.Model ZipVerif.Spec.Zip

/-- **`reader_on_wf_cd_order`** — `ZipArchive::new` on the bytes of ANY generalised layout whose values fit
their fields, whose central extra data are plain record sequences (`Readable`) and which embeds no false
signature returns exactly the entries the central directory lists, IN THE DIRECTORY'S ORDER (whatever the
order of the local records in the file), each with the values of its central record and the offset of its own
local header; `offset()` = prefix length; the comment.  `cdOrder` is unconstrained: a permutation
(`IsPermutation`, the property's "ordering differences"), a sub-list (entries the directory no longer names)
or a list with repetitions. -/
theorem reader_on_wf_cd_order (g : LayoutG) (hF : g.Fits) (hR : g.base.Readable) (hS : NoFalseSigG g)
    (ht : g.base.trailing = [] ∨ g.needs64 = false) :
    ∃ d', openArchive.runPure (Dev.ofBytes (buildG g)) = (.ok (archiveOfG g), d') ∧
      d'.buf = buildG g := by
  obtain ⟨hwin, hi, hii, hiii⟩ := hS
  have hnfE : ∀ k, g.eocdPos < k → k + 22 ≤ (buildG g).length →
      u32At (buildG g) k ≠ some sigEocd := by
    intro k h1 h2
    have hlen := buildG_length g
    have := hi (k - (g.eocdPos + 1)) (by omega)
    have e : g.eocdPos + 1 + (k - (g.eocdPos + 1)) = k := by omega
    rwa [e] at this
  cases h64 : g.needs64 with
  | false =>
    obtain ⟨q, hq⟩ := open_plainG g hF hR h64 hwin hnfE (hii h64) 0
    obtain ⟨d', h1, h2, _⟩ := hq (Dev.ofBytes (buildG g)) rfl rfl
    exact ⟨d', h1, h2⟩
  | true =>
    have htr : g.base.trailing = [] := by
      rcases ht with h | h
      · exact h
      · rw [h64] at h; cases h
    have hnf64 : ∀ k, g.end64Off ≤ k → k < g.end64Pos → u32At (buildG g) k ≠ some sigEocd64 := by
      intro k h1 h2
      have h64p : g.end64Pos = g.base.pre.length + g.end64Off := by
        simp [LayoutG.end64Pos, LayoutG.end64Off, LayoutG.cdStart, Layout.cdStart, LayoutG.cdOffset]; omega
      have := hiii h64 (k - g.end64Off) (by omega)
      have e : g.end64Off + (k - g.end64Off) = k := by omega
      rwa [e] at this
    obtain ⟨q, hq⟩ := open_z64G g hF hR h64 htr hnfE hnf64 0
    obtain ⟨d', h1, h2, _⟩ := hq (Dev.ofBytes (buildG g)) rfl rfl
    exact ⟨d', h1, h2⟩

/-- What `reader_on_wf_cd_order` returns, field by field. -/
theorem archive_fields (g : LayoutG) :
    (archiveOfG g).offset = g.base.pre.length ∧ (archiveOfG g).comment = g.base.comment ∧
    (archiveOfG g).files = viewOfG g ∧ (archiveOfG g).files.length = g.cdList.length :=
  ⟨rfl, rfl, rfl, viewListP_length _ _ _⟩

theorem placeOf_ofLayout (l : Layout) (i : Nat) : (LayoutG.ofLayout l).placeOf i = {} := by
  simp [LayoutG.placeOf, LayoutG.ofLayout]

/-- What `viewEntryG` says, field by field: everything `viewEntry` says (sizes and offset are the ENTRY's, i.e.
the values the ZIP64 record carries when the 32-bit slots hold the marker), and as extra data the central record's
whole extra field as laid out — the foreign records with the ZIP64 record between them. -/
theorem viewG_fields (e : Entry) (off pre chs : Nat) (pl : Z64Place) :
    (viewEntryG e off pre chs pl).compressedSize = e.csize ∧
    (viewEntryG e off pre chs pl).uncompressedSize = e.usize ∧
    (viewEntryG e off pre chs pl).headerStart = UInt64.ofNat (off + pre) ∧
    (viewEntryG e off pre chs pl).largeFile = (e.zU || e.zC) ∧
    (viewEntryG e off pre chs pl).extraField =
      (splitRecords pl.pos e.centralExtra).1 ++ (e.centralZ64G (UInt64.ofNat off) pl.disk ++
        (splitRecords pl.pos e.centralExtra).2) ∧
    (viewEntryG e off pre chs pl).extraField.length =
      e.centralExtra.length + (e.centralZ64G (UInt64.ofNat off) pl.disk).length ∧
    (viewEntryG e off pre chs pl).fileNameRaw = e.name ∧ (viewEntryG e off pre chs pl).crc32 = e.crc :=
  ⟨rfl, rfl, rfl, rfl, rfl, centralExtraAllG_length e _ pl, rfl, rfl⟩

/-- for a plain layout the fourth clause of `LayoutG.Fits` follows from `Entry.Fits` -/
theorem fits_ofLayout (l : Layout) (h : ∀ e ∈ l.entries, e.Fits) :
    ∀ q ∈ (LayoutG.ofLayout l).cdList, (q.1.1.centralExtraAllG (UInt64.ofNat q.1.2) q.2).length ≤ 0xFFFF := by
  intro q hq
  obtain ⟨es1, es2, h1, _⟩ := mem_cdList _ q hq
  have hm : q.1.1 ∈ l.entries := by
    have : (LayoutG.ofLayout l).base.entries = l.entries := rfl
    rw [← this, h1]; simp
  have hf := (h _ hm).2.2.2.1
  have hl := centralExtraAllG_length q.1.1 (UInt64.ofNat q.1.2) q.2
  have hq2 : q.2 = {} := by
    simp only [LayoutG.cdList, List.mem_filterMap, Option.map_eq_some_iff] at hq
    obtain ⟨i, _, p, _, hp⟩ := hq
    rw [← hp]
    exact placeOf_ofLayout l i
  rw [hq2] at hl ⊢
  have hz : (q.1.1.centralZ64G (UInt64.ofNat q.1.2) none).length ≤ 28 := by
    rw [centralZ64G_none]; exact centralZ64_length_le _ _
  have hd : ({} : Z64Place).disk = none := rfl
  rw [hd] at hl
  omega

/-! ### which entry is reported at which index -/

theorem filterMap_getElem_of_isSome {α β} (f : α → Option β) : ∀ (l : List α) (i : Nat),
    (∀ x ∈ l, (f x).isSome) → (l.filterMap f)[i]? = l[i]?.bind f := by
  intro l
  induction l with
  | nil => intro i _; simp
  | cons a l ih =>
    intro i h
    have ha := h a (List.mem_cons_self)
    obtain ⟨b, hb⟩ := Option.isSome_iff_exists.mp ha
    rw [List.filterMap_cons_some hb]
    cases i with
    | zero => simp [hb]
    | succ i => simpa using ih i (fun x hx => h x (List.mem_cons_of_mem _ hx))

/-- element `j` of the placed list: entry `j` with the offset `localOffsets` computes for it -/
theorem placed_getElem_of : ∀ (es : List Entry) (loc j : Nat) (e : Entry), es[j]? = some e →
    ∃ off, (localOffsets es loc)[j]? = some off ∧ (placed es loc)[j]? = some (e, off) := by
  intro es
  induction es with
  | nil => intro loc j e h; simp at h
  | cons x es ih =>
    intro loc j e h
    cases j with
    | zero =>
      simp only [List.getElem?_cons_zero, Option.some.injEq] at h
      subst h
      exact ⟨loc + x.gapBefore.length, by simp [localOffsets], by simp [placed]⟩
    | succ j =>
      simp only [List.getElem?_cons_succ] at h
      obtain ⟨off, h1, h2⟩ := ih (loc + x.localBytes.length) j e h
      exact ⟨off, by simpa [localOffsets] using h1, by simpa [placed] using h2⟩

/-- When every index of `cdOrder` names an entry (in particular for a permutation): position `i` of the
directory holds entry `cdOrder[i]`. -/
theorem cdList_getElem (g : LayoutG) (hin : ∀ j ∈ g.cdOrder, j < g.base.entries.length)
    (i j : Nat) (e : Entry) (hi : g.cdOrder[i]? = some j) (he : g.base.entries[j]? = some e) :
    ∃ off, (localOffsets g.base.entries 0)[j]? = some off ∧
      g.cdList[i]? = some ((e, off), g.placeOf j) := by
  obtain ⟨off, h1, h2⟩ := placed_getElem_of g.base.entries 0 j e he
  refine ⟨off, h1, ?_⟩
  unfold LayoutG.cdList
  rw [filterMap_getElem_of_isSome _ _ _ (fun x hx => by
    have := hin x hx
    rw [← placed_length g.base.entries 0] at this
    simp [List.getElem?_eq_getElem this]), hi]
  simp [h2]

theorem isPermutation_inRange (g : LayoutG) (hp : g.IsPermutation) :
    ∀ j ∈ g.cdOrder, j < g.base.entries.length := by
  intro j hj
  have := (hp.mem_iff (a := j)).mp hj
  simpa using this

/-- a permuted directory lists every entry exactly once: the reader reports as many entries as the archive has -/
theorem count_of_permutation (g : LayoutG) (hp : g.IsPermutation) :
    (archiveOfG g).files.length = g.base.entries.length := by
  rw [(archive_fields g).2.2.2]
  have hin := isPermutation_inRange g hp
  have hl : g.cdList.length = g.cdOrder.length := by
    unfold LayoutG.cdList
    have : ∀ (l : List Nat), (∀ j ∈ l, j < g.base.entries.length) →
        (l.filterMap fun i => ((placed g.base.entries 0)[i]?).map fun p => (p, g.placeOf i)).length =
          l.length := by
      intro l
      induction l with
      | nil => intro _; rfl
      | cons a l ih =>
        intro h
        have ha := h a (List.mem_cons_self)
        rw [← placed_length g.base.entries 0] at ha
        rw [List.filterMap_cons_some (b := ((placed g.base.entries 0)[a], g.placeOf a))
          (by rw [List.getElem?_eq_getElem ha]; rfl)]
        simp [ih (fun x hx => h x (List.mem_cons_of_mem _ hx))]
    exact this _ hin
  rw [hl, hp.length_eq, List.length_range]

/-- **Entry `i` of the reported list is the view of entry `cdOrder[i]`**, at the offset of that entry's own
local header (shifted by the prefix): names, sizes, CRC, method, time, attributes and comment as recorded in its
central record (`C03.view_fields`, `C03.unix_mode_spec` apply to `viewEntry`, which `viewEntryG` equals in every
field but `extraField`), and as extra data the central record's whole extra field — the foreign records with the
ZIP64 record where the layout places it (`Entry.centralExtraAllG`). -/
theorem entry_view (g : LayoutG) (hin : ∀ j ∈ g.cdOrder, j < g.base.entries.length)
    (i j : Nat) (e : Entry) (hi : g.cdOrder[i]? = some j) (he : g.base.entries[j]? = some e) :
    ∃ off chs, (localOffsets g.base.entries 0)[j]? = some off ∧
      (archiveOfG g).files[i]? = some (viewEntryG e off g.base.pre.length chs (g.placeOf j)) := by
  obtain ⟨off, h1, h2⟩ := cdList_getElem g hin i j e hi he
  obtain ⟨chs, h3⟩ := viewListP_getElem g.base.pre.length g.cdList g.cdStart i ((e, off), g.placeOf j) h2
  exact ⟨off, chs, h1, h3⟩

/-! ### reading entries through the permuted directory -/

/-- **`by_index_raw(i)`** on the archive `reader_on_wf_cd_order` returns: exactly the stored bytes of entry
`cdOrder[i]`, found through the offset its central record carries, from the data start computed out of its
LOCAL header's lengths. -/
theorem reader_entry_raw (g : LayoutG) (hF : g.Fits) (hin : ∀ j ∈ g.cdOrder, j < g.base.entries.length)
    (i j : Nat) (e : Entry) (hi : g.cdOrder[i]? = some j) (he : g.base.entries[j]? = some e)
    (d : Dev) (hd : d.buf = buildG g) :
    ∃ off d', (localOffsets g.base.entries 0)[j]? = some off ∧
      (byIndexRaw (archiveOfG g) i).runPure d = (.ok (e.dataStart off g.base.pre.length, e.data), d') ∧
      d'.buf = buildG g := by
  obtain ⟨off, h1, h2⟩ := cdList_getElem g hin i j e hi he
  obtain ⟨d', h3, h4, _⟩ := runs_byIndexRawG g hF i ((e, off), g.placeOf j) h2 d.pos d hd rfl
  exact ⟨off, d', h1, h3, h4⟩

/-- **`by_index(i)` read to the end**: the decoder's output on the stored bytes of entry `cdOrder[i]`, gated by
the CRC of its central record. -/
theorem reader_entry_read (ext : Ext) (g : LayoutG) (hF : g.Fits)
    (hin : ∀ j ∈ g.cdOrder, j < g.base.entries.length)
    (i j : Nat) (e : Entry) (hi : g.cdOrder[i]? = some j) (he : g.base.entries[j]? = some e)
    (pw : Option Bytes) (henc : (e.flagsOut &&& 1 == 1) = false)
    (hdec : (Method.fromU16 e.method).decodable = true) (d : Dev) (hd : d.buf = buildG g) :
    ∃ off d', (localOffsets g.base.entries 0)[j]? = some off ∧
      (byIndexRead ext (archiveOfG g) i pw).runPure d =
        (.ok (.ok (e.dataStart off g.base.pre.length,
          ext.decode (Method.fromU16 e.method) e.data >>= fun c => crcCheck false e.crc c)), d') ∧
      d'.buf = buildG g := by
  obtain ⟨off, h1, h2⟩ := cdList_getElem g hin i j e hi he
  obtain ⟨d', h3, h4, _⟩ := runs_byIndexReadG ext g hF i ((e, off), g.placeOf j) h2 pw henc hdec d.pos d hd rfl
  exact ⟨off, d', h1, h3, h4⟩

/-- **End to end**: open the archive, then read the entry the directory lists at position `i`. -/
theorem open_then_read_raw (g : LayoutG) (hF : g.Fits) (hR : g.base.Readable) (hS : NoFalseSigG g)
    (ht : g.base.trailing = [] ∨ g.needs64 = false) (hin : ∀ j ∈ g.cdOrder, j < g.base.entries.length)
    (i j : Nat) (e : Entry) (hi : g.cdOrder[i]? = some j) (he : g.base.entries[j]? = some e) :
    ∃ a d1 off d2, openArchive.runPure (Dev.ofBytes (buildG g)) = (.ok a, d1) ∧
      a.files = viewOfG g ∧ a.offset = g.base.pre.length ∧ a.comment = g.base.comment ∧
      (localOffsets g.base.entries 0)[j]? = some off ∧
      (byIndexRaw a i).runPure d1 = (.ok (e.dataStart off g.base.pre.length, e.data), d2) := by
  obtain ⟨d1, h1, hb⟩ := reader_on_wf_cd_order g hF hR hS ht
  obtain ⟨off, d2, h2, h3, _⟩ := reader_entry_raw g hF hin i j e hi he d1 hb
  exact ⟨archiveOfG g, d1, off, d2, h1, rfl, rfl, rfl, h2, h3⟩

/-! ### the plain layouts are the instance "identity order, defaults" -/

theorem placed_eq_zip : ∀ (es : List Entry) (loc : Nat), placed es loc = es.zip (localOffsets es loc) := by
  intro es
  induction es with
  | nil => intro _; rfl
  | cons e es ih => intro loc; simp [placed, localOffsets, ih]

theorem filterMap_range_getElem {α} (l : List α) :
    (List.range l.length).filterMap (fun i => l[i]?) = l := by
  apply List.ext_getElem?
  intro i
  rw [filterMap_getElem_of_isSome _ _ _ (fun x hx => by
    have : x < l.length := by simpa using hx
    simp [List.getElem?_eq_getElem this])]
  by_cases h : i < l.length
  · simp [List.getElem?_range h]
  · have h' : l.length ≤ i := Nat.le_of_not_lt h
    simp [List.getElem?_eq_none h', List.getElem?_eq_none (by simpa using h' : (List.range l.length).length ≤ i)]

theorem cdList_ofLayout (l : Layout) :
    (LayoutG.ofLayout l).cdList = (placed l.entries 0).map fun p => (p, ({} : Z64Place)) := by
  unfold LayoutG.cdList
  simp only [placeOf_ofLayout]
  have := filterMap_range_getElem (placed l.entries 0)
  rw [placed_length] at this
  have hm : (List.range l.entries.length).filterMap
        (fun i => ((placed l.entries 0)[i]?).map fun p => (p, ({} : Z64Place))) =
      ((List.range l.entries.length).filterMap fun i => (placed l.entries 0)[i]?).map
        fun p => (p, ({} : Z64Place)) := by
    rw [List.map_filterMap]
  exact hm.trans (by rw [this])

theorem centralBytesP_placed : ∀ (es : List Entry) (loc : Nat),
    centralBytesP ((placed es loc).map fun p => (p, ({} : Z64Place))) = centralBytes es (localOffsets es loc) := by
  intro es
  induction es with
  | nil => intro _; rfl
  | cons e es ih =>
    intro loc
    simp [placed, localOffsets, centralBytesP, centralBytes, ih, centralRecordG_default]

theorem viewListP_placed (pre : Nat) : ∀ (es : List Entry) (loc chs : Nat),
    viewListP pre ((placed es loc).map fun p => (p, ({} : Z64Place))) chs = viewList pre es loc chs := by
  intro es
  induction es with
  | nil => intro _ _; rfl
  | cons e es ih =>
    intro loc chs
    simp [placed, viewListP, viewList, ih, centralRecordG_default, viewEntryG_default]

/-- the reader's obligation for a plain layout is the instance at the identity order -/
theorem viewOfG_ofLayout (l : Layout) : viewOfG (LayoutG.ofLayout l) = viewOf l := by
  unfold viewOfG viewOf
  rw [cdList_ofLayout, viewListP_placed]
  rfl

/-- the bytes of a plain layout are the instance at the identity order -/
theorem buildG_ofLayout (l : Layout) : buildG (LayoutG.ofLayout l) = build l := by
  have hcd : (LayoutG.ofLayout l).cdBytes = l.cdBytes := by
    unfold LayoutG.cdBytes Layout.cdBytes
    rw [cdList_ofLayout, centralBytesP_placed]
  have hsz : (LayoutG.ofLayout l).cdSize = l.cdSize := by unfold LayoutG.cdSize Layout.cdSize; rw [hcd]
  have hcnt : (LayoutG.ofLayout l).count = l.count := by
    unfold LayoutG.count Layout.count; rw [cdList_ofLayout, List.length_map, placed_length]
  have hoff : (LayoutG.ofLayout l).cdOffset = l.cdOffset := rfl
  have hn : (LayoutG.ofLayout l).needs64 = l.needs64 := by
    unfold LayoutG.needs64 Layout.needs64; rw [hsz, hcnt, hoff]; rfl
  have hgap : (LayoutG.ofLayout l).gap = [] := by
    unfold LayoutG.gap; cases (LayoutG.ofLayout l).needs64 <;> rfl
  have heo : (LayoutG.ofLayout l).end64Off = l.cdOffset + l.cdSize := by
    unfold LayoutG.end64Off; rw [hgap, hsz, hoff]; rfl
  have he64 : (LayoutG.ofLayout l).end64 = l.end64 := by
    unfold LayoutG.end64 Layout.end64
    rw [hn, heo, hsz, hcnt, hoff]
    cases l.needs64 <;> simp [LayoutG.ofLayout]
  have heocd : (LayoutG.ofLayout l).eocd = l.eocd := by
    unfold LayoutG.eocd Layout.eocd
    rw [hsz, hcnt, hoff]
    simp [LayoutG.ofLayout]
  unfold buildG build
  rw [hcd, hgap, he64, heocd]
  simp [LayoutG.ofLayout]

/-! ### non-vacuity: a two-entry archive whose directory lists the SECOND local record first -/

def entryA : Entry :=
  { madeBy := 0x0314, versionNeeded := 20, flags := 0, method := 0, time := 0, date := 0x21, crc := 0xe8b7be43,
    usize := 1, name := [0x61], centralExtra := [], comment := [], internalAttrs := 0,
    externalAttrs := 0x81a40000, z64 := (false, false, false), localExtra := [], localZip64 := false,
    desc := .none, gapBefore := [], data := [0x61] }

def entryB : Entry := { entryA with name := [0x62], data := [0x62, 0x62], usize := 2, crc := 0xb5ae1bae }

/-- local order a, b — central order b, a -/
def reversed : LayoutG :=
  { base := { pre := [], entries := [entryA, entryB], gapBeforeCd := [], comment := [], zip64End := false,
              trailing := [] },
    cdOrder := [1, 0] }

example : reversed.IsPermutation := List.Perm.swap 0 1 []
example : reversed.Fits ∧ reversed.base.Readable ∧ NoFalseSigG reversed ∧ reversed.needs64 = false := by decide +kernel
example : (viewOfG reversed).map (·.fileNameRaw) = [[0x62], [0x61]] := by decide +kernel
example : (viewOfG reversed).map (·.headerStart) = [32, 0] := by decide +kernel
example : buildG reversed ≠ build reversed.base := by decide +kernel

/-- the same layout laid out by the INDEPENDENT Rust builder (harness/src/mkzip.rs, test `f7_witness`; the real
crate opens these bytes and lists b, a): `buildG` agrees byte for byte -/
example : buildG reversed = [80, 75, 3, 4, 20, 0, 0, 0, 0, 0, 0, 0, 33, 0, 67, 190, 183, 232, 1, 0, 0, 0, 1, 0, 0, 0, 1, 0, 0, 0, 97, 97, 80, 75, 3, 4, 20, 0, 0, 0, 0, 0, 0, 0, 33, 0, 174, 27, 174, 181, 2, 0, 0, 0, 2, 0, 0, 0, 1, 0, 0, 0, 98, 98, 98, 80, 75, 1, 2, 20, 3, 20, 0, 0, 0, 0, 0, 0, 0, 33, 0, 174, 27, 174, 181, 2, 0, 0, 0, 2, 0, 0, 0, 1, 0, 0, 0, 0, 0, 0, 0, 0, 0, 0, 0, 164, 129, 32, 0, 0, 0, 98, 80, 75, 1, 2, 20, 3, 20, 0, 0, 0, 0, 0, 0, 0, 33, 0, 67, 190, 183, 232, 1, 0, 0, 0, 1, 0, 0, 0, 1, 0, 0, 0, 0, 0, 0, 0, 0, 0, 0, 0, 164, 129, 0, 0, 0, 0, 97, 80, 75, 5, 6, 0, 0, 0, 0, 2, 0, 2, 0, 94, 0, 0, 0, 65, 0, 0, 0, 0, 0] := by decide +kernel

/-- forced ZIP64 end records, real values kept in the plain end record, an extensible data sector and a gap -/
def unsaturated : LayoutG :=
  { base := { reversed.base with zip64End := true }, cdOrder := [1, 0], eocdSaturate := false,
    end64Ext := [0x65, 0, 2, 0, 0, 0, 7, 7], end64Gap := [1, 2, 3] }

example : unsaturated.Fits ∧ unsaturated.base.Readable ∧ NoFalseSigG unsaturated ∧ unsaturated.needs64 = true ∧
    unsaturated.base.trailing = [] := by decide +kernel

/-- ... and so it does on the ZIP64 variant (gap, extensible data sector, real values in the plain end record) -/
example : buildG unsaturated = [80, 75, 3, 4, 20, 0, 0, 0, 0, 0, 0, 0, 33, 0, 67, 190, 183, 232, 1, 0, 0, 0, 1, 0, 0, 0, 1, 0, 0, 0, 97, 97, 80, 75, 3, 4, 20, 0, 0, 0, 0, 0, 0, 0, 33, 0, 174, 27, 174, 181, 2, 0, 0, 0, 2, 0, 0, 0, 1, 0, 0, 0, 98, 98, 98, 80, 75, 1, 2, 20, 3, 20, 0, 0, 0, 0, 0, 0, 0, 33, 0, 174, 27, 174, 181, 2, 0, 0, 0, 2, 0, 0, 0, 1, 0, 0, 0, 0, 0, 0, 0, 0, 0, 0, 0, 164, 129, 32, 0, 0, 0, 98, 80, 75, 1, 2, 20, 3, 20, 0, 0, 0, 0, 0, 0, 0, 33, 0, 67, 190, 183, 232, 1, 0, 0, 0, 1, 0, 0, 0, 1, 0, 0, 0, 0, 0, 0, 0, 0, 0, 0, 0, 164, 129, 0, 0, 0, 0, 97, 1, 2, 3, 80, 75, 6, 6, 52, 0, 0, 0, 0, 0, 0, 0, 45, 0, 45, 0, 0, 0, 0, 0, 0, 0, 0, 0, 2, 0, 0, 0, 0, 0, 0, 0, 2, 0, 0, 0, 0, 0, 0, 0, 94, 0, 0, 0, 0, 0, 0, 0, 65, 0, 0, 0, 0, 0, 0, 0, 101, 0, 2, 0, 0, 0, 7, 7, 80, 75, 6, 7, 0, 0, 0, 0, 162, 0, 0, 0, 0, 0, 0, 0, 1, 0, 0, 0, 80, 75, 5, 6, 0, 0, 0, 0, 2, 0, 2, 0, 94, 0, 0, 0, 65, 0, 0, 0, 0, 0] := by decide +kernel

/-! ### non-vacuity: the ZIP64 record BEHIND foreign records, with the disk-start field -/

/-- entry a with two foreign central records (0x5455, 0xcafe) and compressed size + offset forced through the
ZIP64 record -/
def entryAz : Entry :=
  { entryA with centralExtra := [0x55, 0x54, 1, 0, 7, 0xfe, 0xca, 2, 0, 8, 9], z64 := (false, true, true) }

/-- entry b with one foreign central record; its ZIP64 record will hold the disk-start field only -/
def entryBz : Entry := { entryB with centralExtra := [0x0a, 0, 0, 0] }

/-- local order a, b — central order b, a; a's ZIP64 record behind its FIRST foreign record, b's behind its only
one (position 5 is clamped to the number of records); both carry the disk-start field -/
def placedZ64 : LayoutG :=
  { base := { pre := [], entries := [entryAz, entryBz], gapBeforeCd := [], comment := [], zip64End := false,
              trailing := [] },
    cdOrder := [1, 0],
    z64Place := [{ pos := 1, disk := some 0 }, { pos := 5, disk := some 0 }] }

example : placedZ64.Fits ∧ placedZ64.base.Readable ∧ NoFalseSigG placedZ64 ∧ placedZ64.needs64 = false ∧
    placedZ64.IsPermutation := ⟨by decide +kernel, by decide +kernel, by decide +kernel, by decide +kernel,
      List.Perm.swap 0 1 []⟩

/-- the extra fields as laid out: b = foreign record, then a ZIP64 record of 4 bytes (disk number); a = UT record,
ZIP64 record of 20 bytes (compressed size 1, offset 0, disk 0), then the 0xcafe record -/
example : (viewOfG placedZ64).map (·.extraField) =
    [[0x0a, 0, 0, 0, 1, 0, 4, 0, 0, 0, 0, 0],
     [0x55, 0x54, 1, 0, 7, 1, 0, 20, 0, 1, 0, 0, 0, 0, 0, 0, 0, 0, 0, 0, 0, 0, 0, 0, 0, 0, 0, 0, 0,
      0xfe, 0xca, 2, 0, 8, 9]] := by decide +kernel

/-- ... and what the reader must report for them: the real sizes and offsets -/
example : (viewOfG placedZ64).map (fun f => (f.fileNameRaw, f.compressedSize, f.uncompressedSize, f.headerStart,
    f.largeFile)) = [([0x62], 2, 2, 32, false), ([0x61], 1, 1, 0, true)] := by decide +kernel

/-- the same layout laid out by the INDEPENDENT Rust builder (harness/src/mkzip.rs, test `f7_witness`, `PLACED`;
the real crate opens these bytes and reports a with compressed size 1, size 1, header offset 0): `buildG` agrees
byte for byte -/
example : buildG placedZ64 = [80, 75, 3, 4, 20, 0, 0, 0, 0, 0, 0, 0, 33, 0, 67, 190, 183, 232, 1, 0, 0, 0, 1, 0, 0, 0, 1, 0, 0, 0, 97, 97, 80, 75, 3, 4, 20, 0, 0, 0, 0, 0, 0, 0, 33, 0, 174, 27, 174, 181, 2, 0, 0, 0, 2, 0, 0, 0, 1, 0, 0, 0, 98, 98, 98, 80, 75, 1, 2, 20, 3, 20, 0, 0, 0, 0, 0, 0, 0, 33, 0, 174, 27, 174, 181, 2, 0, 0, 0, 2, 0, 0, 0, 1, 0, 12, 0, 0, 0, 255, 255, 0, 0, 0, 0, 164, 129, 32, 0, 0, 0, 98, 10, 0, 0, 0, 1, 0, 4, 0, 0, 0, 0, 0, 80, 75, 1, 2, 20, 3, 20, 0, 0, 0, 0, 0, 0, 0, 33, 0, 67, 190, 183, 232, 255, 255, 255, 255, 1, 0, 0, 0, 1, 0, 35, 0, 0, 0, 255, 255, 0, 0, 0, 0, 164, 129, 255, 255, 255, 255, 97, 85, 84, 1, 0, 7, 1, 0, 20, 0, 1, 0, 0, 0, 0, 0, 0, 0, 0, 0, 0, 0, 0, 0, 0, 0, 0, 0, 0, 0, 254, 202, 2, 0, 8, 9, 80, 75, 5, 6, 0, 0, 0, 0, 2, 0, 2, 0, 141, 0, 0, 0, 65, 0, 0, 0, 0, 0] := by decide +kernel

end ZipVerif.Props.C03Order
