import ZipVerif.Lemmas.ReadWfZ
import ZipVerif.Lemmas.AppendOpen
import ZipVerif.Props.C03
/-
C03, weakened hypothesis — archives whose central extra data contain FURTHER ZIP64 (0x0001) records
behind the one the format prescribes are read faithfully too.

`Layout.ReadableZ` (Lemmas/CentralParseZ.lean) replaces `Layout.Readable`: per entry, at the offset the
layout gives it, `e.centralExtra` is a well-formed record sequence without identifier 0x9901 in which
0x0001 records are allowed provided none of the entry's real uncompressed size, compressed size and
local-header offset is exactly 0xFFFFFFFF (`ExtraOkZ`); and the method is not 99.  Such archives are what
`new_append` + `finish` make of an archive with ZIP64 entries (C13): the old ZIP64 record is kept inside
the re-hydrated extra field and a new one is written in front of it.

Why the reader copes: `parse_extra_field` takes 8 bytes from a 0x0001 record for each field whose CURRENT
value equals 0xFFFFFFFF; after the first record the fields hold the real values, so a later record takes
nothing and is skipped by its length (`Model.parseExtraZ_ok_aux`).  Why the side condition is needed: see
the witness at the end of this file.
-/

namespace ZipVerif.Props.C03Z
open ZipVerif ZipVerif.Model ZipVerif.Spec.Zip

/-- `ReadableZ` generalises `Readable`: every theorem below contains its C03 counterpart. -/
theorem readable_imp_readableZ (l : Layout) (h : l.Readable) : l.ReadableZ :=
  Spec.Zip.readable_imp_readableZ l h

/-- Entry-wise: C03's condition on the foreign extra data implies the weaker one at every offset. -/
theorem extraOk_imp_extraOkZ (e : Entry) (off : UInt64) (h : ExtraOk e.centralExtra) : ExtraOkZ e off :=
  extraOkZ_of_extraOk e off h

/-- What `ExtraOkZ` says when a 0x0001 record is present: the three real values differ from 0xFFFFFFFF. -/
theorem noThr_iff (e : Entry) (off : UInt64) :
    noThr e off = true ↔ e.usize ≠ 0xFFFFFFFF ∧ e.csize ≠ 0xFFFFFFFF ∧ off ≠ 0xFFFFFFFF := by
  unfold noThr
  simp only [Bool.and_eq_true, bne_iff_ne, ne_eq, and_assoc]

/-- **The central-header parser on an `ExtraOkZ` entry** returns the same view as for an `ExtraOk` one —
`large_file` included (a skipped ZIP64 record does not set it). -/
theorem central_header_viewZ (e : Entry) (off ao p : Nat) (hf : e.Fits)
    (hx : ExtraOkZ e (UInt64.ofNat off)) (hm : e.method ≠ 99) (ho : off + ao < 2 ^ 64) :
    Parses (centralHeader ao) p (centralRecord e (UInt64.ofNat off)) (viewEntry e off ao p) :=
  parses_centralHeaderZ e off ao p hf hx hm ho

/-- **`reader_on_wfZ`** — the statement of `C03.reader_on_wf` under `ReadableZ`. -/
theorem reader_on_wfZ (l : Layout) (hF : l.Fits) (hR : l.ReadableZ) (hS : Spec.Zip.NoFalseSig l)
    (ht : l.trailing = [] ∨ l.needs64 = false) :
    ∃ d', openArchive.runPure (Dev.ofBytes (build l)) = (.ok (archiveOf l), d') ∧
      d'.buf = build l := by
  obtain ⟨hwin, hi, hii, hiii⟩ := hS
  have hnfE : ∀ k, l.eocdPos < k → k + 22 ≤ (build l).length →
      u32At (build l) k ≠ some sigEocd := by
    intro k h1 h2
    have hlen := build_length l
    have := hi (k - (l.eocdPos + 1)) (by omega)
    have e : l.eocdPos + 1 + (k - (l.eocdPos + 1)) = k := by omega
    rwa [e] at this
  cases h64 : l.needs64 with
  | false =>
    obtain ⟨q, hq⟩ := open_plainZ l hF hR h64 hwin hnfE (hii h64) 0
    obtain ⟨d', h1, h2, _⟩ := hq (Dev.ofBytes (build l)) rfl rfl
    exact ⟨d', h1, h2⟩
  | true =>
    have htr : l.trailing = [] := by
      rcases ht with h | h
      · exact h
      · rw [h64] at h; cases h
    have hnf64 : ∀ k, l.cdOffset + l.cdSize ≤ k → k < l.end64Pos →
        u32At (build l) k ≠ some sigEocd64 := by
      intro k h1 h2
      have h64p : l.end64Pos = l.pre.length + l.cdOffset + l.cdSize := by
        simp [Layout.end64Pos, Layout.cdStart]
      have := hiii h64 (k - (l.cdOffset + l.cdSize)) (by omega)
      have e : l.cdOffset + l.cdSize + (k - (l.cdOffset + l.cdSize)) = k := by omega
      rwa [e] at this
    obtain ⟨q, hq⟩ := open_z64Z l hF hR h64 htr hnfE hnf64 0
    obtain ⟨d', h1, h2, _⟩ := hq (Dev.ofBytes (build l)) rfl rfl
    exact ⟨d', h1, h2⟩

/-- `C03.reader_on_wf` is the special case. -/
theorem reader_on_wf_corollary (l : Layout) (hF : l.Fits) (hR : l.Readable) (hS : Spec.Zip.NoFalseSig l)
    (ht : l.trailing = [] ∨ l.needs64 = false) :
    ∃ d', openArchive.runPure (Dev.ofBytes (build l)) = (.ok (archiveOf l), d') ∧ d'.buf = build l :=
  reader_on_wfZ l hF (readable_imp_readableZ l hR) hS ht

/-- **End to end under `ReadableZ`**: open, then read entry `i` raw (`C03.reader_entry_raw` asks nothing
of the extra data). -/
theorem open_then_read_rawZ (l : Layout) (hF : l.Fits) (hR : l.ReadableZ) (hS : Spec.Zip.NoFalseSig l)
    (ht : l.trailing = [] ∨ l.needs64 = false) (i : Nat) (e : Entry) (he : l.entries[i]? = some e) :
    ∃ a d1 off d2, openArchive.runPure (Dev.ofBytes (build l)) = (.ok a, d1) ∧
      a.files = viewOf l ∧ a.offset = l.pre.length ∧ a.comment = l.comment ∧
      (localOffsets l.entries 0)[i]? = some off ∧
      (byIndexRaw a i).runPure d1 = (.ok (e.dataStart off l.pre.length, e.data), d2) := by
  obtain ⟨d1, h1, hb⟩ := reader_on_wfZ l hF hR hS ht
  obtain ⟨off, d2, h2, h3, _⟩ := C03.reader_entry_raw l hF i e he d1 hb
  exact ⟨archiveOf l, d1, off, d2, h1, rfl, rfl, rfl, h2, h3⟩

/-- **`newAppend_on_layoutZ`** — `C13.newAppend_on_layout` under `ReadableZ`: `new_append` re-hydrates the
same views (minus their ZIP64 extra records, D20) from a foreign archive with redundant ZIP64 records. -/
theorem newAppend_on_layoutZ (l : Layout) (hF : l.Fits) (hN : ∀ e ∈ l.entries, AppendNameFits e)
    (hR : l.ReadableZ) (hS : Spec.Zip.NoFalseSig l)
    (ht : l.trailing = [] ∨ l.needs64 = false) :
    ∃ d', newAppend.runPure (Dev.ofBytes (build l)) =
        (.ok { WState.init with files := (viewOf l).map appendRecord, comment := l.comment,
                                writingRaw := true }, d') ∧
      d'.buf = build l ∧ d'.pos = l.cdStart :=
  Model.newAppend_on_layoutZ l hF hN hR hS ht

/-! ## Non-vacuity -/

open ZipVerif.Props.C03 (exA exB exL)

/-- `exA` with a SECOND ZIP64 record (uncompressed size 5 again) in its foreign extra data and the
compressed size forced through the prescribed first record: not `Readable`, but `ReadableZ`; the model
reads it as the view of the layout. -/
def exAz : Entry :=
  { exA with z64 := (false, true, false), centralExtra := le16 1 ++ le16 8 ++ le64 5 ++ le16 0x5455 ++ le16 1 ++ [3] }

def exLz : Layout := { exL with entries := [exAz, exB] }

example : exLz.Fits ∧ ¬ exLz.Readable ∧ exLz.ReadableZ ∧ Spec.Zip.NoFalseSig exLz ∧ exLz.needs64 = false := by
  decide +kernel

example :
    (match (openArchive.runPure (Dev.ofBytes (build exLz))).1 with
     | .ok a => a.files == viewOf exLz && a.files.map (·.largeFile) == [true, true] &&
        a.files.map (·.compressedSize) == [5, 5] && a.files.map (·.uncompressedSize) == [5, 5]
     | _ => false) = true := by decide +kernel

/-- **The side condition is needed**: `usize = 0xFFFFFFFF` exactly and a further 0x0001 record (carrying
7): the entry is not `ExtraOkZ`, and the reader — having restored the real value 0xFFFFFFFF from the first
record, which EQUALS the placeholder — consumes the second record too and reports 7. -/
def exThr : Entry := { exA with usize := 0xFFFFFFFF, centralExtra := le16 1 ++ le16 8 ++ le64 7 }

example :
    let l : Layout := { exL with entries := [exThr] }
    l.Fits ∧ ¬ l.ReadableZ ∧ Spec.Zip.NoFalseSig l ∧
    (match openArchive.runPure (Dev.ofBytes (build l)) with
     | (.ok a, _) => a.files.map (·.uncompressedSize) == [7] && a.files != viewOf l
     | _ => false) = true := by decide +kernel

end ZipVerif.Props.C03Z
