import ZipVerif.Lemmas.Layers
import ZipVerif.Lemmas.Crc32
import ZipVerif.Lemmas.EntryBridge
import ZipVerif.Lemmas.EntryBridgeAes
/-
C04 — A read that completes successfully returned uncorrupted data.
Property theorems only; helper lemmas are in `Lemmas/Layers.lean` and `Lemmas/Crc32.lean`.

`make_reader` (read.rs:260-292) wraps EVERY decoder in `Crc32Reader`, for the seekable reader
(`by_index*`) and the streaming one (`read_zipfile_from_stream`) alike, so the first theorem - which
assumes nothing at all about what is underneath the CRC layer - covers every method, every crypto
reader and both readers.
-/

namespace ZipVerif.Props.C04
open ZipVerif ZipVerif.Spec ZipVerif.Model.Layers

variable {σ κ : Type}

/-- **Soundness of a completed read.** For ANY inner reader (no contract needed: a reader that
returns too large a count makes the layer panic, which is not a successful read) and ANY sequence
`pre` of earlier calls with arbitrary buffer sizes, zeros included, successful or failed: if the next
read, with a non-empty buffer, returns `Ok(0)`, then the entry is AE-2 or the CRC-32 of all bytes
handed to the caller so far equals the declared CRC. -/
theorem crcReader_eof_sound (inner : Src σ) (check : UInt32) (ae2 : Bool) (s : σ) (pre : List Nat)
    (n : Nat) (hn : 0 < n)
    (h : ((crcLayer inner check ae2).rd (run (crcLayer inner check ae2) (s, Crc32.init) pre).2 n).1
        = .ok []) :
    ae2 = true ∨
      Crc32.crc32 (delivered (run (crcLayer inner check ae2) (s, Crc32.init) pre).1) = check := by
  have hreg := crc_run_register inner check ae2 s Crc32.init pre
  rcases crcLayer_ok_nil hn h with h1 | h1
  · exact Or.inl h1
  · right
    rw [Crc32.crc32_eq_finalize, ← hreg]
    exact h1

/-- The invariant behind it: the hasher state is the fold of exactly the bytes returned. -/
theorem crc_register_invariant (inner : Src σ) (check : UInt32) (ae2 : Bool) (s : σ)
    (reqs : List Nat) :
    (run (crcLayer inner check ae2) (s, Crc32.init) reqs).2.2 =
      Crc32.updateBytes Crc32.init (delivered (run (crcLayer inner check ae2) (s, Crc32.init) reqs).1) :=
  crc_run_register inner check ae2 s Crc32.init reqs

/-- The same for a whole entry reader, any method (`c` is an arbitrary decoder, nothing assumed
about it), any crypto layer underneath: a read-to-end loop that ends with a clean EOF has returned
bytes whose CRC-32 is the declared one, unless AE-2. -/
theorem entry_read_sound (inner : Src σ) (check : UInt32) (ae2 : Bool) (s : σ) (reqs : List Nat)
    {b : Bytes} {s' : σ × UInt32}
    (h : readToEnd (crcLayer inner check ae2) (s, Crc32.init) reqs = some (b, .eof, s')) :
    ae2 = true ∨ Crc32.crc32 b = check := by
  suffices H : ∀ (reqs : List Nat) (s : σ) (reg : UInt32) (b : Bytes) (s' : σ × UInt32),
      readToEnd (crcLayer inner check ae2) (s, reg) reqs = some (b, .eof, s') →
      ae2 = true ∨ Crc32.finalize (Crc32.updateBytes reg b) = check by
    exact H reqs s Crc32.init b s' h
  intro reqs
  induction reqs with
  | nil => intro s reg b s' h; cases h
  | cons n ns ih =>
    intro s reg b s' h
    simp only [readToEnd] at h
    match e : (crcLayer inner check ae2).rd (s, reg) n, h with
    | (.ok bs, (s1, reg1)), h =>
      simp only at h
      by_cases hc : 0 < n ∧ bs = []
      · rw [if_pos hc] at h
        cases h
        have h1 : ((crcLayer inner check ae2).rd (s, reg) n).1 = .ok [] := by rw [e, hc.2]
        exact crcLayer_ok_nil hc.1 h1
      · rw [if_neg hc] at h
        match e2 : readToEnd (crcLayer inner check ae2) (s1, reg1) ns, h with
        | some (b2, t2, s2), h =>
          simp only [Option.map_some, Option.some.injEq, Prod.mk.injEq] at h
          obtain ⟨hb, ht, hs⟩ := h
          subst hb ht hs
          have hreg1 : reg1 = Crc32.updateBytes reg bs := by
            have := crc_run_register inner check ae2 s reg [n]
            simp only [run, e, delivered, List.append_nil] at this
            exact this
          have := ih s1 reg1 b2 s2 e2
          rw [Crc32.updateBytes_append, ← hreg1]
          exact this
    | (.err e', s1), h => cases h
    | (.panic, s1), h => cases h

/-- **What a zero-length read does** (current code): it returns `Ok(0)` at once - the inner reader
is not consulted, the check is not evaluated, hasher and inner state are unchanged. It is therefore
neither an end-of-file signal nor a way to skip the check. -/
theorem zero_len_read_is_not_eof (inner : Src σ) (check : UInt32) (ae2 : Bool) (st : σ × UInt32) :
    (crcLayer inner check ae2).rd st 0 = (.ok [], st) :=
  crcLayer_rd_zero st

/-- In particular at the end of a stream whose CRC does NOT match: zero-length reads return `Ok(0)`
any number of times, and every non-empty read reports the mismatch. -/
theorem zero_len_read_at_bad_eof (inner : Src σ) (check : UInt32) {s : σ}
    (h : Denotes inner s [] .eof) (reg : UInt32) (hbad : check ≠ Crc32.finalize reg) :
    (crcLayer inner check false).rd (s, reg) 0 = (.ok [], (s, reg)) ∧
    (∀ n, 0 < n → ∃ s', (crcLayer inner check false).rd (s, reg) n = (.err .other, (s', reg))) := by
  constructor
  · exact crcLayer_rd_zero _
  · intro n hn
    obtain ⟨s', e, _⟩ := Model.Layers.eof_sticky h n
    refine ⟨s', ?_⟩
    rw [crcLayer_rd_ok (by omega) e, if_pos ⟨rfl, hbad, rfl⟩]

/-! ## Corruption is detected -/

/-- **Stored payload corruption.** Whatever reader holds the (damaged) archive bytes `data' ++ tail`
from the entry's data start - any short-read behaviour - if the CRC-32 of the damaged payload differs
from the declared CRC and the entry is not AE-2, the entry reader delivers the damaged bytes and
then fails: its denotation ends in `Err("Invalid checksum")`. -/
theorem stored_corruption_detected (inner : Src σ) {s : σ} (data' tail : Bytes) {o : Term}
    (declared : UInt32) (h : Denotes inner s (data' ++ tail) o)
    (hbad : Crc32.crc32 data' ≠ declared) :
    Denotes (entryPipeline storedCodec inner declared false) ((s, data'.length), Crc32.init)
      data' (.err .other) := by
  have hd := Model.Layers.crc_denotes (take inner) declared false
    (Model.Layers.take_denotes inner data'.length h)
  have e1 : takeBytes data'.length (data' ++ tail) = data' := by
    simp [takeBytes]
  have e2 : takeTerm data'.length (data' ++ tail) o = .eof := by
    simp [takeTerm]
  rw [e1, e2] at hd
  have e3 : crcTerm declared false data' .eof = .err .other := by
    simp [crcTerm, hbad]
  rw [e3] at hd
  exact hd

/-- Observable form: every read loop over the damaged entry, with any buffer sizes, ends in an error
no later than end-of-file - and it does end once it has made more than `data'.length` non-empty reads. -/
theorem stored_corruption_read_fails (inner : Src σ) {s : σ} (data' tail : Bytes) {o : Term}
    (declared : UInt32) (h : Denotes inner s (data' ++ tail) o)
    (hbad : Crc32.crc32 data' ≠ declared) (reqs : List Nat) :
    (∀ b t s', readToEnd (entryPipeline storedCodec inner declared false)
        ((s, data'.length), Crc32.init) reqs = some (b, t, s') → t = .err .other) ∧
    (data'.length < nonzero reqs →
      (readToEnd (entryPipeline storedCodec inner declared false)
        ((s, data'.length), Crc32.init) reqs).isSome = true) := by
  have hd := stored_corruption_detected inner data' tail declared h hbad
  exact ⟨fun b t s' hr => (denotes_readToEnd hd hr).2.1, fun hn => denotes_readToEnd_terminates hd hn⟩

/-- **CRC field corruption.** Intact payload, declared CRC changed to anything else: error. -/
theorem crc_field_corruption_detected (inner : Src σ) {s : σ} (data tail : Bytes) {o : Term}
    (declared' : UInt32) (h : Denotes inner s (data ++ tail) o)
    (hbad : declared' ≠ Crc32.crc32 data) :
    Denotes (entryPipeline storedCodec inner declared' false) ((s, data.length), Crc32.init)
      data (.err .other) :=
  stored_corruption_detected inner data tail declared' h (fun e => hbad e.symm)

/-! ### Every method: the decoder is an ARBITRARY reader

REMOVED (review finding F3): `codec_corruption_detected` took `Codec.ChunkIndependentNZ` as a
hypothesis - chunk independence of the decoder on EVERY stream, damaged ones included.  The real
decoders do not satisfy it (`pickyCodec_not_chunk_independent` shows the failure on a model decoder
of the same kind), so the theorem said nothing exactly where it matters.  What follows needs no
hypothesis on the decoder at all: it may error early or late, end early, or hand out garbage, and
all of that may depend on the buffer sizes. -/

/-- **Soundness at entry level, every method, unencrypted entries**: `c` is any decoder (its `layer`
is an arbitrary function from readers to readers - nothing is assumed, not even determinism in the
schedule), `inner` any reader holding the archive from the entry's data start, `csize` the compressed
size in the central record: a read loop with any buffer sizes that ends with a clean end-of-file has
returned bytes whose CRC-32 is the declared one (or the entry is AE-2). -/
theorem entry_read_sound_any_method (c : Codec) (inner : Src σ) (check : UInt32) (ae2 : Bool)
    (s : σ) (csize : Nat) (reqs : List Nat) {b : Bytes} {s' : c.St (σ × Nat) × UInt32}
    (h : readToEnd (entryPipeline c inner check ae2) (c.init (s, csize), Crc32.init) reqs
      = some (b, .eof, s')) :
    ae2 = true ∨ Crc32.crc32 b = check :=
  entry_read_sound (c.layer (take inner)) check ae2 (c.init (s, csize)) reqs h

/-- The same for ZipCrypto entries (any cipher step `dec`, any decoder). -/
theorem entry_read_sound_zipcrypto (c : Codec) (dec : κ → UInt8 → UInt8 × κ) (inner : Src σ)
    (check : UInt32) (s : σ) (lim : Nat) (k : κ) (reqs : List Nat) {b : Bytes}
    {s' : c.St ((σ × Nat) × κ) × UInt32}
    (h : readToEnd (entryPipelineZc c dec inner check) (c.init ((s, lim), k), Crc32.init) reqs
      = some (b, .eof, s')) :
    Crc32.crc32 b = check := by
  rcases entry_read_sound (c.layer (zipCryptoLayer dec (take inner))) check false
    (c.init ((s, lim), k)) reqs h with h1 | h1
  · cases h1
  · exact h1

/-- **Corruption of stored / compressed data, every method: detected unless CRC-32 collides.**
Two reads of "the same entry" (same declared CRC, not AE-2): one over the intact archive (reader
`inner₁`), one over a damaged copy (reader `inner₂`, which may also fragment differently), with any
two decoders behaviours and any two buffer schedules.  If the damage changes what the read returns in
a way CRC-32 sees (`crc32 b₂ ≠ crc32 b₁`) the damaged read does NOT end with a clean end-of-file: a
finished loop has ended in an error. -/
theorem damage_detected_unless_collision {σ₁ σ₂ : Type} (c₁ c₂ : Codec) (inner₁ : Src σ₁)
    (inner₂ : Src σ₂) (check : UInt32) (s₁ : σ₁) (s₂ : σ₂) (csize₁ csize₂ : Nat)
    (reqs₁ reqs₂ : List Nat) {b₁ b₂ : Bytes} {t₂ : Term} {e₁ : c₁.St (σ₁ × Nat) × UInt32}
    {e₂ : c₂.St (σ₂ × Nat) × UInt32}
    (h₁ : readToEnd (entryPipeline c₁ inner₁ check false) (c₁.init (s₁, csize₁), Crc32.init) reqs₁
      = some (b₁, .eof, e₁))
    (h₂ : readToEnd (entryPipeline c₂ inner₂ check false) (c₂.init (s₂, csize₂), Crc32.init) reqs₂
      = some (b₂, t₂, e₂))
    (hdiff : Crc32.crc32 b₂ ≠ Crc32.crc32 b₁) :
    t₂ ≠ .eof := by
  intro ht
  subst ht
  rcases entry_read_sound_any_method c₁ inner₁ check false s₁ csize₁ reqs₁ h₁ with h | h
  · cases h
  rcases entry_read_sound_any_method c₂ inner₂ check false s₂ csize₂ reqs₂ h₂ with h' | h'
  · cases h'
  exact hdiff (h'.trans h.symm)

/-- In particular a damaged read whose output differs from the intact one in exactly one byte (hence
in one bit) ends in an error - no collision is possible. -/
theorem decoded_single_byte_change_detected (c : Codec) (inner : Src σ) (s : σ) (csize : Nat)
    (reqs : List Nat) (p q : Bytes) (a b : UInt8) (hab : a ≠ b) {t : Term}
    {e : c.St (σ × Nat) × UInt32}
    (h : readToEnd (entryPipeline c inner (Crc32.crc32 (p ++ a :: q)) false)
      (c.init (s, csize), Crc32.init) reqs = some (p ++ b :: q, t, e)) :
    t ≠ .eof := by
  intro ht
  subst ht
  rcases entry_read_sound_any_method c inner _ false s csize reqs h with h1 | h1
  · cases h1
  · exact Crc32.crc32_detects_single_byte p q a b hab h1.symm

/-- **Corruption of the declared CRC, every method.** Same reader below (any decoder over any
archive reader), same buffer sizes: if the read completes with declared CRC `check`, then with any
other declared CRC it returns the same bytes and fails with "Invalid checksum". -/
theorem crc_field_corruption_detected_any_method (c : Codec) (inner : Src σ) (check check' : UInt32)
    (hne : check' ≠ check) (s : σ) (csize : Nat) (reqs : List Nat) {b : Bytes}
    {e : c.St (σ × Nat) × UInt32}
    (h : readToEnd (entryPipeline c inner check false) (c.init (s, csize), Crc32.init) reqs
      = some (b, .eof, e)) :
    ∃ e', readToEnd (entryPipeline c inner check' false) (c.init (s, csize), Crc32.init) reqs
      = some (b, .err .other, e') :=
  readToEnd_crc_other_check (c.layer (take inner)) check check' hne reqs _ _ h

/-- **CRC-32 detects every single-byte substitution** (hence every single-bit flip): two messages
that differ in exactly one byte have different CRC-32. Not a 1 − 2⁻³² statement: the register update
is a bijection in the register and injective in the byte. -/
theorem crc32_detects_single_byte (p q : Bytes) (a b : UInt8) (hab : a ≠ b) :
    Crc32.crc32 (p ++ a :: q) ≠ Crc32.crc32 (p ++ b :: q) :=
  Crc32.crc32_detects_single_byte p q a b hab

/-- Hence: **any single-byte (or single-bit) damage inside a Stored payload always surfaces as a
read error**, through every reader and every schedule. -/
theorem stored_single_byte_damage_detected (inner : Src σ) {s : σ} (p q tail : Bytes) (a b : UInt8)
    {o : Term} (hab : a ≠ b) (h : Denotes inner s ((p ++ b :: q) ++ tail) o) :
    Denotes (entryPipeline storedCodec inner (Crc32.crc32 (p ++ a :: q)) false)
      ((s, (p ++ b :: q).length), Crc32.init) (p ++ b :: q) (.err .other) :=
  stored_corruption_detected inner (p ++ b :: q) tail _ h
    (fun e => crc32_detects_single_byte p q a b hab e.symm)

/-- Truncated payload (the archive ends inside the entry's data): the reader delivers what is there
and then fails unless the CRC of the truncated data happens to equal the declared one. -/
theorem truncated_payload_detected (inner : Src σ) {s : σ} (part : Bytes) (csize : Nat)
    (declared : UInt32) (h : Denotes inner s part .eof) (hbad : Crc32.crc32 part ≠ declared)
    (hshort : part.length < csize) :
    Denotes (entryPipeline storedCodec inner declared false) ((s, csize), Crc32.init)
      part (.err .other) := by
  have hd := Model.Layers.crc_denotes (take inner) declared false
    (Model.Layers.take_denotes inner csize h)
  have e1 : takeBytes csize part = part := by
    simp only [takeBytes]; exact List.take_of_length_le (by omega)
  have e2 : takeTerm csize part .eof = .eof := by
    simp [takeTerm]
  rw [e1, e2] at hd
  have e3 : crcTerm declared false part .eof = .err .other := by
    simp [crcTerm, hbad]
  rw [e3] at hd
  exact hd

/-! ## Archive level: every entry of every byte string accepted as an archive (finding F9)

The theorems above speak about the entry reader `Crc32Reader(decoder(Take(reader)))` with free
parameters `check`, `csize`.  `Model/Reader.lean` describes what `ZipArchive::new` + `by_index` do with an
arbitrary byte string, but reads the entry in one go (`takeAll`, pure `Ext.decode`, `crcCheck`).
`Lemmas/EntryBridge.lean` connects the two; here the consequences for C04, with the parameters
`by_index` really uses: `crc32` and `compressed_size` of the parsed CENTRAL record, the bytes behind the
data start computed from the LOCAL header. -/

/-- **C04 for the seekable reader, all byte strings, all unencrypted entries, all methods.**
`bs` is ANY byte string `ZipArchive::new` accepts (valid or damaged), `i` any index, `by_index` hands
out the entry with read-to-end result `res` (in the reader model).  Then
(1) if `res` is a success its bytes have the CRC-32 the central record declares;
(2) call by call: over ANY reader holding the archive's bytes from the data start (any short reads),
    with ANY decoder behaviour `c` (nothing assumed: damaged input, schedule dependent, …) and ANY
    caller buffers, a loop that ends with a clean end-of-file has returned bytes with that CRC-32;
(3) the two descriptions agree whenever `c` is the decoder `ext` summarises on this entry's stored
    bytes (`CodecFor`: a theorem for Stored, `Codec.IntactOK` for intact compressed entries): every
    finished loop returns `res` - same bytes on success, an error iff an error. -/
theorem archive_entry_sound (ext : Model.Ext) (bs : Bytes) {fa₀ : Option Nat} {a : Model.Archive}
    {d₀ : Model.Dev} (hopen : Model.openArchive fa₀ (Model.Dev.ofBytes bs) = (.ok a, d₀))
    {i : Nat} {data : Model.FileData} (hfile : a.files[i]? = some data)
    (henc : data.encrypted = false) {pw : Option Bytes} {fa : Option Nat} {d' : Model.Dev} {ds : Nat}
    {res : Out Bytes} (h : Model.byIndexRead ext a i pw fa d₀ = (.ok (.ok (ds, res)), d')) :
    (∀ content, res = .ok content → Crc32.crc32 content = data.crc32) ∧
    (∀ {σ : Type} (c : Codec) (inner : Src σ) (s : σ) (reqs : List Nat) (b : Bytes)
        (e : c.St (σ × Nat) × UInt32),
      readToEnd (entryPipeline c inner data.crc32 false)
        (c.init (s, data.compressedSize.toNat), Crc32.init) reqs = some (b, .eof, e) →
      Crc32.crc32 b = data.crc32) ∧
    (∀ {σ : Type} (c : Codec),
      Model.CodecFor ext data.method c ((bs.drop ds).take data.compressedSize.toNat) →
      ∀ (inner : Src σ) (s : σ), Denotes inner s (bs.drop ds) .eof →
      ∀ (reqs : List Nat) (b : Bytes) (t : Term) (e : c.St (σ × Nat) × UInt32),
        readToEnd (entryPipeline c inner data.crc32 false)
          (c.init (s, data.compressedSize.toNat), Crc32.init) reqs = some (b, t, e) →
        res = Model.outOfLoop (b, t)) := by
  have hbuf : d₀.buf = bs := by
    have := Model.openArchive_readOnly.elim fa₀ (Model.Dev.ofBytes bs)
    rw [hopen] at this; exact this
  obtain ⟨_, _, _, hres⟩ := Model.byIndexRead_plain_inv hfile henc h
  refine ⟨?_, ?_, ?_⟩
  · intro content hc
    rw [hres] at hc
    cases hd : ext.decode data.method ((d₀.buf.drop ds).take data.compressedSize.toNat) with
    | ok x =>
      rw [hd] at hc
      change Model.crcCheck false data.crc32 x = .ok content at hc
      unfold Model.crcCheck at hc
      split at hc
      · cases hc
      · rename_i hne
        cases hc
        simpa using hne
    | err e => rw [hd] at hc; cases hc
    | panic s => rw [hd] at hc; cases hc
  · intro σ c inner s reqs b e hr
    rcases entry_read_sound_any_method c inner data.crc32 false s _ reqs hr with h1 | h1
    · cases h1
    · exact h1
  · intro σ c hc inner s hin reqs b t e hr
    rw [← hbuf] at hc hin
    exact Model.entry_bridge hfile henc h c hc inner s hin reqs hr

/-- **C04 for the streaming reader** (`read_zipfile_from_stream`), any byte stream: the entry's CRC
and size come from the LOCAL record `f`, the bytes are those behind it. -/
theorem stream_entry_sound (ext : Model.Ext) {fa : Option Nat} {d d' : Model.Dev}
    {f : Model.FileData} {res : Out Bytes}
    (h : Model.streamEntry ext fa d = (.ok (some (f, res)), d')) :
    (∀ content, res = .ok content → Crc32.crc32 content = f.crc32) ∧
    (∀ {σ : Type} (c : Codec) (inner : Src σ) (s : σ) (reqs : List Nat) (b : Bytes)
        (e : c.St (σ × Nat) × UInt32),
      readToEnd (entryPipeline c inner f.crc32 false)
        (c.init (s, f.compressedSize.toNat), Crc32.init) reqs = some (b, .eof, e) →
      Crc32.crc32 b = f.crc32) ∧
    (∃ d1, Model.streamHeader fa d = (.ok (some f), d1) ∧ d1.buf = d.buf ∧
      ∀ {σ : Type} (c : Codec),
        Model.CodecFor ext f.method c ((d.buf.drop d1.pos).take f.compressedSize.toNat) →
      ∀ (inner : Src σ) (s : σ), Denotes inner s (d.buf.drop d1.pos) .eof →
      ∀ (reqs : List Nat) (b : Bytes) (t : Term) (e : c.St (σ × Nat) × UInt32),
        readToEnd (entryPipeline c inner f.crc32 false)
          (c.init (s, f.compressedSize.toNat), Crc32.init) reqs = some (b, t, e) →
        res = Model.outOfLoop (b, t)) := by
  obtain ⟨d1, h1, hb, hres⟩ := Model.streamEntry_inv h
  refine ⟨?_, ?_, ⟨d1, h1, hb, ?_⟩⟩
  · intro content hc
    rw [hres] at hc
    cases hd : ext.decode f.method ((d1.buf.drop d1.pos).take f.compressedSize.toNat) with
    | ok x =>
      rw [hd] at hc
      change Model.crcCheck false f.crc32 x = .ok content at hc
      unfold Model.crcCheck at hc
      split at hc
      · cases hc
      · rename_i hne
        cases hc
        simpa using hne
    | err e => rw [hd] at hc; cases hc
    | panic s => rw [hd] at hc; cases hc
  · intro σ c inner s reqs b e hr
    rcases entry_read_sound_any_method c inner f.crc32 false s _ reqs hr with h1 | h1
    · cases h1
    · exact h1
  · intro σ c hc inner s hin reqs b t e hr
    rw [hres, hb]
    exact Model.pipeline_eq_decode_crc ext f.method c _ _ _ hc inner s hin reqs hr

/-- **C04 for WinZip-AES entries of every byte string accepted as an archive** (seekable reader,
`by_index_decrypt`, the crate's own AES layer: `Model.cryptoExt`).  `by_index_decrypt(i, pw)` hands out entry `i`
(encryption flag, AES extra record `(mode, vv)`) with read-to-end result `res`.  Then, for every short-read
schedule `sched` of a reader holding the entry's stored bytes, `AesReader::validate` hands out `aesReader .. sc`, and
(1) if `res` is a success: payload and authentication code are all there and the code IS the HMAC-SHA1 of the
    payload under the key derived from `pw` and the salt (`aesCodeOk`: AE-1 and AE-2 alike), and for AE-1 the
    bytes have the CRC-32 the central record declares (for AE-2 the format has no CRC; `make_reader` skips it);
(2) call by call, ANY decoder behaviour `c` on top of `AesReaderValid`, ANY caller buffers: a loop over
    `Crc32Reader(decoder(AesReaderValid))` that ends with a clean end-of-file has, for AE-1, returned bytes with
    the declared CRC-32;
(3) if the code is not the HMAC of the payload, or bytes are missing: `res` is an I/O error and no run - AES layer
    or `ZipFile::read` with any error-propagating decoder and `finish_crypto` - reaches a successful end-of-file
    (`Aes.NeverEof`): a completed read of an AE-2 entry has a verified MAC;
(4) `AesVerdict`: the one-shot and the call-by-call descriptions agree (every finished loop returns `res` when
    `c` is the decoder `ext` summarises on the decrypted stream). -/
theorem archive_entry_sound_aes (P : Model.Aes.AesPrims) (hW : P.WF)
    (decode : Model.Method → Bytes → Out Bytes) (bs : Bytes)
    {fa₀ : Option Nat} {a : Model.Archive} {d₀ : Model.Dev}
    (hopen : Model.openArchive fa₀ (Model.Dev.ofBytes bs) = (.ok a, d₀))
    {i : Nat} {data : Model.FileData} (hfile : a.files[i]? = some data)
    (henc : data.encrypted = true) {mode : Model.AesMode} {vv : Model.AesVendorVersion}
    (haes : data.aesMode = some (mode, vv)) {pw : Bytes} {fa : Option Nat}
    {d' : Model.Dev} {ds : Nat} {res : Out Bytes}
    (h : Model.byIndexRead (Model.cryptoExt P decode) a i (some pw) fa d₀ = (.ok (.ok (ds, res)), d')) :
    ∃ L, Model.Aes.dataLength (Model.aesModeView mode) data.compressedSize.toNat = some L ∧
    ∀ sched : List Nat, ∃ sc,
      Model.Aes.validate P Model.Aes.listSrc (Model.aesModeView mode) (some L)
          ⟨(bs.drop ds).take data.compressedSize.toNat, sched⟩ pw =
        (.ok (some (Model.aesReader P pw mode ((bs.drop ds).take data.compressedSize.toNat) L sc)),
          ⟨Model.aesBody mode ((bs.drop ds).take data.compressedSize.toNat), sc⟩) ∧
      (∀ content, res = .ok content →
        L + Model.Aes.AUTH_CODE_LENGTH ≤
          (Model.aesBody mode ((bs.drop ds).take data.compressedSize.toNat)).length ∧
        Model.aesCodeOk P pw mode ((bs.drop ds).take data.compressedSize.toNat) L ∧
        (vv = .ae1 → Crc32.crc32 content = data.crc32)) ∧
      (∀ (c : Codec) (reqs : List Nat) (b : Bytes) (e : c.St (Model.Aes.Valid Model.Aes.ListSrc) × UInt32),
        readToEnd (Model.entryPipelineAes c P Model.Aes.listSrc data.crc32 (vv == .ae2))
          (c.init (Model.aesReader P pw mode ((bs.drop ds).take data.compressedSize.toNat) L sc), Crc32.init) reqs
          = some (b, .eof, e) →
        vv = .ae1 → Crc32.crc32 b = data.crc32) ∧
      (¬ (L + Model.Aes.AUTH_CODE_LENGTH ≤
            (Model.aesBody mode ((bs.drop ds).take data.compressedSize.toNat)).length ∧
          Model.aesCodeOk P pw mode ((bs.drop ds).take data.compressedSize.toNat) L) →
        (∃ k, res = .err (.io k)) ∧
        Model.Aes.NeverEof P (Model.aesReader P pw mode ((bs.drop ds).take data.compressedSize.toNat) L sc)) ∧
      Model.AesVerdict P (Model.cryptoExt P decode) data.method data.crc32 (vv == .ae2) pw mode
        ((bs.drop ds).take data.compressedSize.toNat) L
        (Model.aesReader P pw mode ((bs.drop ds).take data.compressedSize.toNat) L sc) res := by
  have hbuf : d₀.buf = bs := by
    have := Model.openArchive_readOnly.elim fa₀ (Model.Dev.ofBytes bs)
    rw [hopen] at this; exact this
  obtain ⟨ds', ⟨d1, hf1, _, _⟩, L, hdl, _, _, hA⟩ := Model.entry_bridge_aes hW hfile henc haes h
  obtain ⟨ds2, d2, hf2, _, _, hr⟩ := Model.byIndexRead_aes_inv hfile henc haes h
  have hds : ds' = ds := by
    rw [hf1] at hf2
    have e12 : ds' = ds2 := by injection hf2 with h1 _; injection h1
    rcases hr with ⟨_, _, hh⟩ | ⟨_, hh⟩
    · injection hh with hh; injection hh with hh _; rw [e12, hh]
    · cases hh
  subst hds
  rw [hbuf] at hA
  refine ⟨L, hdl, fun sched => ?_⟩
  obtain ⟨_, sc, hv, hV⟩ := (hA sched).2 res rfl
  refine ⟨sc, hv, ?_, ?_, fun hbad => hV.damaged hbad, hV⟩
  · intro content hc
    by_cases hgood : L + Model.Aes.AUTH_CODE_LENGTH ≤
          (Model.aesBody mode ((bs.drop ds').take data.compressedSize.toNat)).length ∧
        Model.aesCodeOk P pw mode ((bs.drop ds').take data.compressedSize.toNat) L
    · refine ⟨hgood.1, hgood.2, fun hv1 => ?_⟩
      obtain ⟨pt, cfin, _, hres, _⟩ := hV.intact hgood.1 hgood.2
      subst hv1
      rw [hres] at hc
      cases hd : (Model.cryptoExt P decode).decode data.method pt with
      | ok x =>
        rw [hd] at hc
        change Model.crcCheck false data.crc32 x = .ok content at hc
        unfold Model.crcCheck at hc
        split at hc
        · cases hc
        · rename_i hne
          cases hc
          simpa using hne
      | err e => rw [hd] at hc; cases hc
      | panic s => rw [hd] at hc; cases hc
    · obtain ⟨⟨k, hk⟩, _⟩ := hV.damaged hgood
      rw [hk] at hc; cases hc
  · intro c reqs b e hr hv1
    subst hv1
    rcases entry_read_sound (c.layer (Model.aesSrc P Model.Aes.listSrc)) data.crc32 false _ reqs hr with h1 | h1
    · cases h1
    · exact h1

/-- The hypotheses of `archive_entry_sound_aes` on a concrete archive (`Model.aesExArchive`, AE-2: no CRC, the MAC
decides), and the two outcomes: intact - content handed out, same bytes call by call; one ciphertext byte
changed - accepted as an archive, but neither description reads the entry to a successful end. -/
example :
    Model.aesOpenRead Model.aesExArchive [0x70, 0x77] [0, 2] [2, 0, 1, 9, 9] =
      some (42, some [1, 2, 3, 4, 5], some [1, 2, 3, 4, 5]) ∧
    Model.aesOpenRead (Model.aesExArchive.set 53 0) [0x70, 0x77] [0, 2] [2, 0, 1, 9, 9] = some (42, none, none) ∧
    Model.exPrims.WF :=
  ⟨by decide +kernel, by decide +kernel, Model.exPrims_wf⟩

/-! ## Non-vacuity -/

/-- Hypotheses of `stored_corruption_detected` on a concrete instance: a reader delivering one byte
at a time, payload `[1,2,4]` where `[1,2,3]` was declared. -/
example : Denotes scripted ⟨[1, 2, 4] ++ [9], [1], [1], none⟩ ([1, 2, 4] ++ [9]) .eof ∧
    Crc32.crc32 [1, 2, 4] ≠ Crc32.crc32 [1, 2, 3] :=
  ⟨scripted_denotes _, by decide +kernel⟩

/-- … and the run: bytes `[1,2,4]` are delivered, then the error, with zero-length reads interleaved. -/
example :
    (readToEnd (entryPipeline storedCodec scripted (Crc32.crc32 [1, 2, 3]) false)
      (((⟨[1, 2, 4, 9], [1], [1], none⟩ : Scripted), 3), Crc32.init) [0, 2, 0, 2, 0, 2, 2]).map
        (fun r => (r.1, r.2.1)) = some ([1, 2, 4], Term.err .other) := by
  decide +kernel

/-- `crcReader_eof_sound` is not vacuous: an intact entry does reach `Ok(0)` on a non-empty read. -/
example :
    ((crcLayer scripted (Crc32.crc32 [1, 2, 3]) false).rd
      (run (crcLayer scripted (Crc32.crc32 [1, 2, 3]) false)
        ((⟨[1, 2, 3], [2], [2], none⟩ : Scripted), Crc32.init) [0, 5, 5]).2 4).1 = .ok [] := by
  decide +kernel

/-- AE-2: the check is skipped - a wrong CRC still ends with a clean EOF (covered by the MAC, C16). -/
example :
    (readToEnd (crcLayer scripted 12345 true)
      ((⟨[1, 2, 3], [], [], none⟩ : Scripted), Crc32.init) [4, 4]).map
        (fun r => (r.1, r.2.1)) = some ([1, 2, 3], Term.eof) := by
  decide +kernel

/-- A single flipped bit: `0x31` → `0x30`. -/
example : Crc32.crc32 [0x31, 0x32] ≠ Crc32.crc32 [0x30, 0x32] :=
  crc32_detects_single_byte [] [0x32] 0x31 0x30 (by decide)

/-- `entry_read_sound_any_method` / `damage_detected_unless_collision` with a decoder whose behaviour
on damaged input DOES depend on the buffer sizes (`pickyCodec`: a chunk containing a byte outside the
format is rejected as a whole).  Stored bytes `[1, 2, 0x83]` where `[1, 2, 3]` was written: with
1-byte buffers two bytes come out before the error, with a 4-byte buffer none - an error both times. -/
example :
    (readToEnd (entryPipeline pickyCodec scripted (Crc32.crc32 [1, 2, 3]) false)
      (pickyCodec.init ((⟨[1, 2, 0x83, 9], [], [], none⟩ : Scripted), 3), Crc32.init) [1, 1, 1, 1]).map
        (fun r => (r.1, r.2.1)) = some ([1, 2], Term.err .invalidData) ∧
    (readToEnd (entryPipeline pickyCodec scripted (Crc32.crc32 [1, 2, 3]) false)
      (pickyCodec.init ((⟨[1, 2, 0x83, 9], [], [], none⟩ : Scripted), 3), Crc32.init) [4, 4]).map
        (fun r => (r.1, r.2.1)) = some ([], Term.err .invalidData) ∧
    (readToEnd (entryPipeline pickyCodec scripted (Crc32.crc32 [1, 2, 3]) false)
      (pickyCodec.init ((⟨[1, 2, 3, 9], [], [], none⟩ : Scripted), 3), Crc32.init) [4, 4]).map
        (fun r => (r.1, r.2.1)) = some ([1, 2, 3], Term.eof) := by
  refine ⟨by decide +kernel, by decide +kernel, by decide +kernel⟩

/-- `crc_field_corruption_detected_any_method`, instance: the intact run above with the declared CRC
changed. -/
example :
    (readToEnd (entryPipeline pickyCodec scripted (Crc32.crc32 [1, 2, 3] ^^^ 1) false)
      (pickyCodec.init ((⟨[1, 2, 3, 9], [], [], none⟩ : Scripted), 3), Crc32.init) [4, 4]).map
        (fun r => (r.1, r.2.1)) = some ([1, 2, 3], Term.err .other) := by
  decide +kernel

/-- The hypotheses of `archive_entry_sound` on a concrete archive, and its three conclusions observed:
accepted, entry 0 handed out with data start 31 and content "Z"; the call-by-call read over a reader
delivering one byte at a time, with zero-length buffers interleaved, returns the same. -/
example : Model.openReadBoth Model.oneEntry 0 [1] [0, 3, 0, 3] = some (31, [0x5a], some ([0x5a], .eof)) := by
  decide +kernel

/-- One bit of the payload flipped (`Z` -> `[`): the archive is still accepted, the reader model
reports an error for the entry (no content) … -/
example : Model.openReadBoth (Model.oneEntry.set 31 0x5b) 0 [1] [0, 3, 0, 3] = none := by decide +kernel

end ZipVerif.Props.C04
