import ZipVerif.Lemmas.ReaderBounds
import ZipVerif.Lemmas.CryptoExtTotal
/-
C05 — Untrusted bytes never crash, hang or exhaust memory in the readers.

Property theorems only.  Helper lemmas: `Lemmas/ReaderTotal.lean` (`NoPanic`, `ReadOnly`, `PostV` and
their closure rules, one lemma per reader-model function) and `Lemmas/ReaderBounds.lean` (`Adv`: bytes
consumed by a successful parser; fuel adequacy; iteration and size bounds).  The model is
`Model/IO.lean`, `Model/Records.lean`, `Model/Reader.lean`, `Model/Writer.lean` (`newAppend`).

What is proved here is proved about the MODEL, for every byte string, every fault index and every
external decoder that does not itself panic.  The model is tied to the crate by translation (Tie/Parsers, ReaderGlue, ReaderGlue2, StreamGlue, Drain, Visit,
the layer ties: every reader function on the open / by_index / stream paths is generated from the source) and by the `read`
correspondence stream (outcome classes must agree on liars / truncations / substitutions / random
bytes, both readers and `new_append`).  Memory in BYTES and wall time are MEASURED by the harness
(`read.mem` op: counting global allocator, peak during `ZipArchive::new` against `K·len + C`); the
theorems below bound them in ELEMENTS (entries, loop iterations, buffer lengths).
-/

namespace ZipVerif.Props.C05
open ZipVerif ZipVerif.Model

/-! ## 1. No panic: every reader entry point, on every input -/

/-- `ZipArchive::new` never panics — any bytes, any device position, any injected I/O fault. -/
theorem open_total (fa : Option Nat) (d : Dev) : ¬ (openArchive fa d).1.isPanic = true :=
  openArchive_noPanic.elim fa d

/-- `by_index` / `by_index_decrypt` followed by `read_to_end`: neither the call nor the read of the
returned handle panics, for every archive value (not only those `openArchive` can produce), index and
password.  `DevSane` (input shorter than 2^63 bytes) is what makes `find_content`'s
`header_start + 30 + n + m` (read.rs:201) unreachable as an overflow. -/
theorem by_index_total (ext : Ext) (hext : ExtNoPanic ext) (a : Archive) (i : Nat)
    (pw : Option Bytes) (fa : Option Nat) (d : Dev) (hd : DevSane d) :
    ¬ (byIndexRead ext a i pw fa d).1.isPanic = true ∧
    ∀ ds res d', byIndexRead ext a i pw fa d = (.ok (.ok (ds, res)), d') → ¬ res.isPanic = true :=
  ⟨byIndexRead_noPanicOn ext hext a i pw fa d hd,
   fun _ _ _ h => (byIndexRead_inner ext hext a i pw).elim h⟩

/-- `by_name` / `by_name_decrypt` followed by `read_to_end`: an unknown name is `FileNotFound`. -/
theorem by_name_total (ext : Ext) (hext : ExtNoPanic ext) (a : Archive) (name : Bytes)
    (pw : Option Bytes) (fa : Option Nat) (d : Dev) (hd : DevSane d) :
    ¬ (byNameRead ext a name pw fa d).1.isPanic = true ∧
    ∀ ds res d', byNameRead ext a name pw fa d = (.ok (.ok (ds, res)), d') → ¬ res.isPanic = true :=
  ⟨byNameRead_noPanicOn ext hext a name pw fa d hd,
   fun _ _ _ h => (byNameRead_inner ext hext a name pw).elim h⟩

/-- `by_index_raw` followed by `read_to_end`. -/
theorem by_index_raw_total (a : Archive) (i : Nat) (fa : Option Nat) (d : Dev) (hd : DevSane d) :
    ¬ (byIndexRaw a i fa d).1.isPanic = true :=
  byIndexRaw_noPanicOn a i fa d hd

/-- `ZipStreamReader::visit` reading every entry to the end: no panic in the walk and none in any
entry's `read_to_end` outcome. -/
theorem stream_total (ext : Ext) (hext : ExtNoPanic ext) (fa : Option Nat) (d : Dev) :
    ¬ (streamVisit ext fa d).1.isPanic = true ∧
    ∀ files metas d', streamVisit ext fa d = (.ok (files, metas), d') →
      ∀ x ∈ files, ¬ x.2.isPanic = true :=
  ⟨(streamVisit_noPanic ext).elim fa d, fun _ _ _ h => (streamVisit_inner ext hext).elim h⟩

/-- `ZipWriter::new_append` never panics and does not modify the bytes it is given. -/
theorem append_open_total (fa : Option Nat) (d : Dev) :
    ¬ (newAppend fa d).1.isPanic = true ∧ (newAppend fa d).2.buf = d.buf :=
  ⟨newAppend_noPanic.elim fa d, newAppend_readOnly.elim fa d⟩

/-- After a successful `new_append` the writer stands inside the input: at the directory start,
which is at most `cde_start_pos ≤ len - 22` — under every fault index too (since the D22 repair the
final, repositioning seek reports its failure: `Ok` means the writer stands on the directory start).
What `finish()` later adds is therefore bounded by the records it writes, not by a number read from
the input. -/
theorem append_open_position_bounded {fa : Option Nat} {d d' : Dev} {s : WState}
    (h : newAppend fa d = (.ok s, d')) :
    d'.buf = d.buf ∧ d'.pos + 22 ≤ d.buf.length :=
  newAppend_position_bounded h

/-- The only `panic` of the reader model is reachable in principle (so `DevSane` is a real
hypothesis, not decoration): `NoPanic` is false for the panic action itself. -/
theorem noPanic_not_vacuous : ¬ NoPanic (M.panic "read.rs:201 data_start overflow" : M Nat) :=
  fun h => M.panic_noPanic_false h

/-! ### Scripts: any sequence of reader calls on one input -/

/-- One call of the reader API (entry-opening calls include reading the entry to its end). -/
inductive Step
  /-- `ZipArchive::new` on the bytes -/
  | openArchive
  /-- `by_index(i)` (`pw = none`) or `by_index_decrypt(i, pw)`, then `read_to_end` -/
  | byIndex (i : Nat) (pw : Option Bytes)
  /-- `by_index_raw(i)`, then `read_to_end` -/
  | byIndexRaw (i : Nat)
  /-- `by_name(name)` / `by_name_decrypt(name, pw)`, then `read_to_end` -/
  | byName (name : Bytes) (pw : Option Bytes)
  /-- `ZipStreamReader::new(bytes).visit(..)` reading every entry -/
  | stream
  /-- `ZipWriter::new_append(bytes)` -/
  | appendOpen

/-- The script state: the device, and the archive most recently opened on it (if any). -/
structure State where
  dev : Dev
  archive : Option Archive

/-- Run an `M` action as a script step: did it panic (at the outer level or, through `inner`, inside
the value it returned), and the device it leaves. -/
def observe {α} (x : M α) (inner : α → Bool) (fa : Option Nat) (d : Dev) : Bool × Dev :=
  match x fa d with
  | (.ok a, d') => (inner a, d')
  | (.err _, d') => (false, d')
  | (.panic _, d') => (true, d')

/-- The `read_to_end` outcome inside a `by_index*` result. -/
def pwInner : PwResult (Nat × Out Bytes) → Bool
  | .ok (_, res) => res.isPanic
  | .invalidPassword => false

/-- One step: `(panicked?, next state)`.  Entry calls without an open archive are no-ops (there is no
handle to call them on); a failed `openArchive` keeps the previous archive. -/
def runStep (ext : Ext) (fa : Option Nat) (s : State) : Step → Bool × State
  | .openArchive =>
    match Model.openArchive fa s.dev with
    | (.ok a, d') => (false, ⟨d', some a⟩)
    | (.err _, d') => (false, ⟨d', s.archive⟩)
    | (.panic _, d') => (true, ⟨d', s.archive⟩)
  | .byIndex i pw =>
    match s.archive with
    | none => (false, s)
    | some a => let r := observe (byIndexRead ext a i pw) pwInner fa s.dev; (r.1, ⟨r.2, some a⟩)
  | .byIndexRaw i =>
    match s.archive with
    | none => (false, s)
    | some a => let r := observe (byIndexRaw a i) (fun _ => false) fa s.dev; (r.1, ⟨r.2, some a⟩)
  | .byName name pw =>
    match s.archive with
    | none => (false, s)
    | some a => let r := observe (byNameRead ext a name pw) pwInner fa s.dev; (r.1, ⟨r.2, some a⟩)
  | .stream =>
    let r := observe (streamVisit ext) (fun v => v.1.any fun x => x.2.isPanic) fa s.dev
    (r.1, ⟨r.2, s.archive⟩)
  | .appendOpen =>
    let r := observe newAppend (fun _ => false) fa s.dev
    (r.1, ⟨r.2, s.archive⟩)

/-- Did any step of the script panic? -/
def runScript (ext : Ext) (fa : Option Nat) : State → List Step → Bool
  | _, [] => false
  | s, st :: rest => (runStep ext fa s st).1 || runScript ext fa (runStep ext fa s st).2 rest

private theorem observe_spec {α} {x : M α} {inner : α → Bool} {fa : Option Nat} {d : Dev}
    (hnp : ¬ (x fa d).1.isPanic = true) (hro : ReadOnly x)
    (hin : ∀ a d', x fa d = (.ok a, d') → inner a = false) :
    (observe x inner fa d).1 = false ∧ (observe x inner fa d).2.buf = d.buf := by
  have hb := hro.elim fa d
  unfold observe
  generalize hr : x fa d = r at hnp hb hin
  obtain ⟨(a | e | s), d'⟩ := r
  · exact ⟨hin a d' rfl, hb⟩
  · exact ⟨rfl, hb⟩
  · exact (hnp rfl).elim

private theorem pwInner_false {r : PwResult (Nat × Out Bytes)} (h : PwResult.InnerNoPanic r) :
    pwInner r = false := by
  cases r with
  | invalidPassword => rfl
  | ok p =>
    obtain ⟨ds, res⟩ := p
    cases hres : res.isPanic with
    | false => exact hres
    | true => exact (h hres).elim

/-- One step neither panics nor changes the bytes (so the next step sees a sane device again). -/
theorem step_total (ext : Ext) (hext : ExtNoPanic ext) (fa : Option Nat) (s : State)
    (hd : DevSane s.dev) (st : Step) :
    (runStep ext fa s st).1 = false ∧ (runStep ext fa s st).2.dev.buf = s.dev.buf := by
  have hbi : ∀ a i pw,
      (observe (byIndexRead ext a i pw) pwInner fa s.dev).1 = false ∧
      (observe (byIndexRead ext a i pw) pwInner fa s.dev).2.buf = s.dev.buf := fun a i pw =>
    observe_spec (byIndexRead_noPanicOn ext hext a i pw fa s.dev hd) (byIndexRead_readOnly ext a i pw)
      fun r d' h => pwInner_false ((byIndexRead_inner ext hext a i pw).elim h)
  cases st with
  | openArchive =>
    have hnp := open_total fa s.dev
    have hb := openArchive_readOnly.elim fa s.dev
    unfold runStep
    generalize Model.openArchive fa s.dev = r at hnp hb
    obtain ⟨(a | e | p), d'⟩ := r
    · exact ⟨rfl, hb⟩
    · exact ⟨rfl, hb⟩
    · exact (hnp rfl).elim
  | byIndex i pw =>
    unfold runStep
    cases s.archive with
    | none => exact ⟨rfl, rfl⟩
    | some a => exact hbi a i pw
  | byIndexRaw i =>
    unfold runStep
    cases s.archive with
    | none => exact ⟨rfl, rfl⟩
    | some a =>
      exact observe_spec (byIndexRaw_noPanicOn a i fa s.dev hd) (byIndexRaw_readOnly a i)
        fun _ _ _ => rfl
  | byName name pw =>
    unfold runStep
    cases s.archive with
    | none => exact ⟨rfl, rfl⟩
    | some a =>
      exact observe_spec (byNameRead_noPanicOn ext hext a name pw fa s.dev hd)
        (byNameRead_readOnly ext a name pw)
        fun r d' h => pwInner_false ((byNameRead_inner ext hext a name pw).elim h)
  | stream =>
    unfold runStep
    refine observe_spec ((streamVisit_noPanic ext).elim fa s.dev) (streamVisit_readOnly ext) ?_
    intro v d' h
    have hv := (streamVisit_inner ext hext).elim h
    cases hany : (v.1.any fun x => x.2.isPanic) with
    | false => rfl
    | true =>
      obtain ⟨x, hx, hp⟩ := List.any_eq_true.mp hany
      exact (hv x hx hp).elim
  | appendOpen =>
    unfold runStep
    exact observe_spec (newAppend_noPanic.elim fa s.dev) newAppend_readOnly fun _ _ _ => rfl

/-- **C05, panic-freedom.**  For every byte string shorter than 2^63, every panic-free external
codec/decryption layer, every fault index, every (even unreachable) starting archive value and every
sequence of `open / by_index(_decrypt) / by_index_raw / by_name(_decrypt) / stream visit / new_append`
calls with arbitrary indices, names and passwords: no step panics — neither the call nor reading the
returned entry to its end. -/
theorem reader_total (ext : Ext) (hext : ExtNoPanic ext) (fa : Option Nat) (script : List Step) :
    ∀ (s : State), DevSane s.dev → runScript ext fa s script = false := by
  induction script with
  | nil => intro s _; rfl
  | cons st rest ih =>
    intro s hd
    obtain ⟨h1, h2⟩ := step_total ext hext fa s hd st
    unfold runScript
    rw [h1, Bool.false_or]
    apply ih
    unfold DevSane at hd ⊢
    rw [h2]
    exact hd

/-- The statement of `reader_total` for a fresh input. -/
theorem reader_total_bytes (ext : Ext) (hext : ExtNoPanic ext) (bytes : Bytes)
    (hlen : bytes.length < 2 ^ 63) (fa : Option Nat) (script : List Step) :
    runScript ext fa ⟨Dev.ofBytes bytes, none⟩ script = false :=
  reader_total ext hext fa script _ hlen

/-- Interrupted writes and downloads: a prefix of any byte string (in particular of a valid archive)
is a byte string, so everything above applies to it. -/
theorem prefix_is_ordinary_input (ext : Ext) (hext : ExtNoPanic ext) (bytes : Bytes)
    (hlen : bytes.length < 2 ^ 63) (n : Nat) (fa : Option Nat) (script : List Step) :
    runScript ext fa ⟨Dev.ofBytes (bytes.take n), none⟩ script = false := by
  apply reader_total_bytes ext hext
  rw [List.length_take]
  omega

/-! ### The crate's own decryption layers (finding F4)

`ExtNoPanic` above quantifies over the reader's whole environment.  Two of its three parts are not external
code at all: `ext.zipCrypto` stands for src/zipcrypto.rs and `ext.aes` for src/aes.rs + src/aes_ctr.rs.  Until
this finding the only instance for which `ExtNoPanic` was PROVED was `storedExt` (every decryption =
`UnsupportedArchive`), so "with or without a password" was covered for the glue only.  `Model.cryptoExt P decode`
(Model/CryptoExt.lean) plugs in the models of the two layers - the functions the translated layer methods are
tied to (Tie/ZcLayer.lean, Tie/AesLayer.lean) - and `Lemmas/CryptoExtTotal.lean` proves `ExtNoPanic` for it.  What
remains assumed is code outside the crate: the decompressors do not panic, and PBKDF2 / the AES block function /
HMAC-SHA1 return outputs of their fixed lengths (`AesPrims.WF`; in Rust: facts of the types). -/

/-- The decryption layers never panic: any password, any declared mode and size, any bytes. -/
theorem crypto_layers_total (P : Aes.AesPrims) (hW : P.WF) (decode : Method → Bytes → Out Bytes)
    (hdec : ∀ m bs, ¬ (decode m bs).isPanic = true) : ExtNoPanic (cryptoExt P decode) :=
  cryptoExt_noPanic P hW decode hdec

/-- **C05, panic-freedom, with the crate's own ZipCrypto and AES layers in place**: every script of
`open / by_index(_decrypt) / by_index_raw / by_name(_decrypt) / stream visit / new_append` calls with arbitrary
indices, names and PASSWORDS on arbitrary bytes - the call, the password check, the decryption of the whole
entry, the authentication-code check, decoding and the CRC check. -/
theorem reader_total_crypto (P : Aes.AesPrims) (hW : P.WF) (decode : Method → Bytes → Out Bytes)
    (hdec : ∀ m bs, ¬ (decode m bs).isPanic = true) (fa : Option Nat) (script : List Step) :
    ∀ (s : State), DevSane s.dev → runScript (cryptoExt P decode) fa s script = false :=
  reader_total _ (cryptoExt_noPanic P hW decode hdec) fa script

/-- … in particular on every prefix of every byte string (interrupted write or download). -/
theorem reader_total_crypto_prefix (P : Aes.AesPrims) (hW : P.WF) (decode : Method → Bytes → Out Bytes)
    (hdec : ∀ m bs, ¬ (decode m bs).isPanic = true) (bytes : Bytes) (hlen : bytes.length < 2 ^ 63) (n : Nat)
    (fa : Option Nat) (script : List Step) :
    runScript (cryptoExt P decode) fa ⟨Dev.ofBytes (bytes.take n), none⟩ script = false :=
  prefix_is_ordinary_input _ (cryptoExt_noPanic P hW decode hdec) bytes hlen n fa script

/-- "Encrypted entries shorter than their crypto header" are errors, for every password: ZipCrypto below 12
bytes is `UnexpectedEof`, AES below salt + 2 + 10 is `InvalidData` (D4) before a byte is read. -/
theorem short_encrypted_entry_is_error (P : Aes.AesPrims) (pw : Bytes) :
    (∀ check raw, raw.length < 12 → zipCryptoLayer pw check raw = .err (.io .unexpectedEof)) ∧
    (∀ mode (csize : UInt64) raw, csize.toNat < 12 + (aesModeView mode).saltLength →
      aesLayer P pw mode csize raw = .err (.io .invalidData)) :=
  ⟨fun c raw h => zipCryptoLayer_short pw c raw h, fun m cs raw h => aesLayer_short P pw m cs raw h⟩

/-- Primitives for evaluation: all-zero outputs of the right lengths (the theorems hold for every `P` with `WF`;
these make `decide` able to run the layers). -/
def zeroPrims : Aes.AesPrims where
  pbkdf2 _ _ n := List.replicate n 0
  block _ _ := List.replicate 16 0
  hmac _ _ := List.replicate 20 0

theorem zeroPrims_wf : zeroPrims.WF :=
  ⟨fun _ _ _ => List.length_replicate .., fun _ _ => List.length_replicate ..,
   fun _ _ => List.length_replicate ..⟩

/-- Stored-only decoding, as in `storedExt`, but with the decryption layers in place. -/
def cryptoStoredExt : Ext := cryptoExt zeroPrims (fun _ raw => .ok raw)

example : ExtNoPanic cryptoStoredExt := crypto_layers_total zeroPrims zeroPrims_wf _ (fun _ _ h => by cases h)

/-- The hypotheses are satisfiable: the Stored-only `Ext` is panic-free … -/
example : ExtNoPanic storedExt := storedExt_noPanic
/-- … and small devices are sane. -/
example : DevSane (Dev.ofBytes [0x50, 0x4b, 0x05, 0x06]) := by
  show 4 < 2 ^ 63
  omega

/-! ## 2. Termination: every fuel parameter of the model is adequate

All model functions are total by construction (structural recursion or fuel).  Fuel is adequate when
giving MORE fuel never changes the result: then the fuel-exhaustion branch never cuts short a loop the
real code would continue. -/

/-- Backward EOCD search (spec.rs:76-90), as called by `findAndParseEocd`: with file length `len ≥ 22`
the fuel `len - 22 - bound + 1` can be increased arbitrarily without changing anything.  (The `0`
branch is reached only at `pos = bound - 1`, where the `while pos >= bound` test fails too, with the
same error.) -/
theorem eocd_search_fuel_adequate (len extra : Nat) :
    findEocdLoop (len - (22 + 65535)) (len - 22 - (len - (22 + 65535)) + 1 + extra) (len - 22) =
      findEocdLoop (len - (22 + 65535)) (len - 22 - (len - (22 + 65535)) + 1) (len - 22) :=
  findEocdLoop_fuel_mono _ _ _ _ (by omega)

/-- General form: any fuel covering the positions `pos, pos-1, …, bound`. -/
theorem eocd_search_fuel_adequate_gen (bound fuel pos extra : Nat) (h : pos + 1 - bound ≤ fuel) :
    findEocdLoop bound (fuel + extra) pos = findEocdLoop bound fuel pos :=
  findEocdLoop_fuel_mono bound fuel pos extra h

/-- The backward search probes at most 65 536 positions (≤ 65 536 + 22), whatever the file length. -/
theorem eocd_search_steps (len : Nat) : len - 22 - (len - (22 + 65535)) + 1 ≤ 65536 := by
  omega

/-- Forward ZIP64 search (spec.rs:160-203), as called by `findEocd64`. -/
theorem zip64_search_fuel_adequate (nominal upper extra : Nat) :
    findEocd64Loop nominal upper (upper + 1 - nominal + extra) nominal = findEocd64 nominal upper :=
  findEocd64Loop_fuel_mono nominal upper _ _ _ (Nat.le_refl _)

/-- Its iteration count is at most the input length: `get_directory_counts` calls it with
`upper = cde_start_pos - 60` after a successful backward search, which found `cde_start_pos + 22 ≤ len`. -/
theorem zip64_search_steps {fa : Option Nat} {d d' : Dev} {e : Eocd} {cde : Nat}
    (h : findAndParseEocd fa d = (.ok (e, cde), d')) (nominal : Nat) :
    (cde - 60) + 1 - nominal ≤ d.buf.length := by
  have := findAndParseEocd_cde_le h
  omega

/-- `parse_extra_field`: the model's fuel `extra.length + 1` is adequate (each iteration consumes at
least the 4-byte record header). -/
theorem extra_field_fuel_adequate (f : FileData) (extraBytes : Bytes) (more : Nat) :
    parseExtraField (extraBytes.length + 1 + more) f extraBytes =
      parseExtraField (extraBytes.length + 1) f extraBytes :=
  parseExtraField_fuel_mono _ f extraBytes more (Nat.lt_succ_self _)

/-- Streaming reader: the fuels `len/30 + 1` (entries: ≥ 30 bytes each) and `len/46 + 1` (central
records: ≥ 46 bytes each) used by `streamVisit` are adequate — any larger fuels give the same result,
on every device and under every fault. -/
theorem stream_fuel_adequate (ext : Ext) (fa : Option Nat) (d : Dev) (k1 k2 : Nat) :
    streamVisitFuel ext (d.buf.length / 30 + 1 + k1) (d.buf.length / 46 + 1 + k2) fa d =
      streamVisit ext fa d :=
  (streamVisitFuel_mono ext fa d k1 k2).trans (streamVisit_eq_fuel ext fa d).symm

/-- The two loops separately, in terms of the bytes left on the device. -/
theorem stream_entries_fuel_adequate (ext : Ext) (fuel extra : Nat) (fa : Option Nat) (d : Dev)
    (h : d.buf.length - d.pos < 30 * fuel) :
    streamEntries ext (fuel + extra) fa d = streamEntries ext fuel fa d :=
  streamEntries_fuel_mono ext fuel extra fa d h

theorem stream_central_fuel_adequate (fuel extra : Nat) (fa : Option Nat) (d : Dev)
    (h : d.buf.length - d.pos < 46 * fuel) :
    streamCentralLoop (fuel + extra) fa d = streamCentralLoop fuel fa d :=
  streamCentralLoop_fuel_mono fuel extra fa d h

/-- The central-directory loop of `ZipArchive::new` runs `number_of_files` times in the code — a
64-bit number taken from the input.  It stops at the first error, and every successful header
consumes ≥ 46 existing bytes: for every declared count above `len/46` the loop behaves exactly as
the loop of `len/46 + 1` iterations, which fails. -/
theorem central_loop_iters (off n : Nat) (fa : Option Nat) (d : Dev)
    (hn : d.buf.length / 46 + 1 ≤ n) :
    ∃ e d', readCentralLoop off (d.buf.length / 46 + 1) fa d = (.err e, d') ∧
      readCentralLoop off n fa d = (.err e, d') :=
  readCentralLoop_iters off n fa d hn

/-- … and `n` successful iterations need `46·n` bytes after the directory start. -/
theorem central_loop_consumes (off n : Nat) {fa : Option Nat} {d d' : Dev} {files : List FileData}
    (h : readCentralLoop off n fa d = (.ok files, d')) :
    files.length = n ∧ d.pos + 46 * n ≤ d'.pos ∧ (0 < n → d'.pos ≤ d.buf.length) := by
  obtain ⟨h1, _, h2, h3⟩ := readCentralLoop_ok off n h
  exact ⟨h1, h2, h3⟩

/-! ## 3. Memory, in elements -/

/- `Model.fileCapacity` (Model/Reader.lean): the capacity handed to `Vec::with_capacity` /
`HashMap::with_capacity` by `ZipArchive::new`.  `Tie/ReaderGlue.lean` (`tie_zip_archive_new`) shows that the
TRANSLATED `ZipArchive::new` requests exactly the capacity that `openArchiveAlloc` reports. -/

/-- The pre-allocation, in elements: every reserved slot is paid for by 46 input bytes lying between the declared
start of the directory and the end record, and the end record starts at `cde_start_pos ≤ len - 22` whenever the
EOCD search succeeded.  A declared count of 2^64 - 1 reserves nothing; so does any count when the directory is
declared to start behind the end record.  (Strengthened with the repair of finding F1: the unrepaired code
compared the count with `cde_start_pos`, which only gave `capacity ≤ cde_start_pos`, one slot per input BYTE —
`prealloc_bound_old_guard_witness` below.) -/
theorem prealloc_bound (numberOfFiles directoryStart : Nat) {fa : Option Nat} {d d' : Dev} {e : Eocd} {cde : Nat}
    (h : findAndParseEocd fa d = (.ok (e, cde), d')) :
    fileCapacity numberOfFiles cde directoryStart * 46 ≤ cde - directoryStart ∧ cde + 22 ≤ d.buf.length := by
  refine ⟨?_, findAndParseEocd_cde_le h⟩
  unfold fileCapacity
  split <;> omega

/-- Corollary in terms of the input length alone: at most `(len - 22) / 46` elements. -/
theorem prealloc_le_len_div_46 (numberOfFiles directoryStart : Nat) {fa : Option Nat} {d d' : Dev} {e : Eocd}
    {cde : Nat} (h : findAndParseEocd fa d = (.ok (e, cde), d')) :
    fileCapacity numberOfFiles cde directoryStart ≤ (d.buf.length - 22) / 46 := by
  obtain ⟨h1, h2⟩ := prealloc_bound numberOfFiles directoryStart h
  rw [Nat.le_div_iff_mul_le (by omega)]
  omega

example : fileCapacity 18446744073709551615 1000 0 = 0 := by decide
example : fileCapacity 3 1000 0 = 3 := by decide
/-- exactly as many as fit: 21 headers of 46 bytes in 1000 bytes -/
example : fileCapacity 21 1000 0 = 21 ∧ fileCapacity 22 1000 0 = 0 := by decide
/-- the directory start counts: only 100 bytes are left for headers -/
example : fileCapacity 3 1000 900 = 0 ∧ fileCapacity 2 1000 900 = 2 := by decide
/-- a directory declared to start behind the end record has room for no header -/
example : fileCapacity 1 1000 2000 = 0 := by decide

/-- What the guard looked like before the repair (count compared with the position of the end record), and the
witness of finding F1: with an end record at offset 8 000 076 a declared count of 8 000 076 was reserved in
full — 8 000 076 elements (≈ 1.9 GB) for an 8 MB input, 46 times what the repaired guard allows for ANY input
of that length. -/
def fileCapacityOldGuard (numberOfFiles cdeStartPos : Nat) : Nat :=
  if numberOfFiles > cdeStartPos then 0 else numberOfFiles

theorem prealloc_bound_old_guard_witness :
    fileCapacityOldGuard 8000076 8000076 = 8000076 ∧ fileCapacity 8000076 8000076 0 = 0 ∧
    ∀ n, fileCapacity n 8000076 0 ≤ 173914 := by
  refine ⟨by decide, by decide, fun n => ?_⟩
  unfold fileCapacity
  split <;> omega

/-- The capacity `ZipArchive::new` requests before it has validated a single central header
(`openArchiveAlloc` is the model function the translated source is tied to): 46 input bytes per reserved element,
hence at most `len / 46` elements whatever count and directory offset the archive declares; the archive that is
finally returned holds at most `len / 46` entries as well. -/
theorem open_prealloc_bound {fa : Option Nat} {d d' : Dev} {a : Archive} {cap : Nat}
    (h : openArchiveAlloc fa d = (.ok (a, cap), d')) :
    cap * 46 + 22 ≤ d.buf.length ∧ cap ≤ d.buf.length / 46 ∧ a.files.length ≤ d.buf.length / 46 := by
  obtain ⟨hfiles, e, cde, d1, n, ds, h1, hcap⟩ := openArchiveAlloc_bounds h
  have hb := prealloc_bound n ds h1
  have h46 : cap * 46 + 22 ≤ d.buf.length := by omega
  refine ⟨h46, ?_, by omega⟩
  rw [Nat.le_div_iff_mul_le (by omega)]
  omega

/-- Every transient buffer of the parsers (`vec![0; n]` for the archive comment, entry names, extra
fields, entry comments) has a 16-bit length: the lengths come from `u16` fields, and a successful
`read_exact(n)` returns exactly `n` bytes. -/
theorem transient_alloc_bound :
    (∀ (n : UInt16), n.toNat ≤ 65535) ∧
    (∀ n fa d r d', M.readExact n fa d = (.ok r, d') → r.length = n) ∧
    (∀ fa d e d', parseEocd fa d = (.ok e, d') → e.comment.length ≤ 65535) ∧
    (∀ off fa d f d', centralHeader off fa d = (.ok f, d') →
      f.fileNameRaw.length ≤ 65535 ∧ f.extraField.length ≤ 65535) :=
  ⟨u16_le, fun _ _ _ _ _ h => (M.readExact_ok_inv h).1,
   fun _ _ _ _ h => parseEocd_comment_len.elim h,
   fun off _ _ _ _ h => (centralHeader_raw_len off).elim h⟩

/-- An opened archive holds at most `len / 46` entries (so `len/46 + 1` bounds it with room). -/
theorem entries_bound {fa : Option Nat} {d d' : Dev} {a : Archive}
    (h : openArchive fa d = (.ok a, d')) :
    a.files.length ≤ d.buf.length / 46 ∧ a.files.length ≤ d.buf.length / 46 + 1 := by
  have := openArchive_entries_bound h
  omega

/-! ## 4. Non-vacuity: adversarial inputs evaluated through the model -/

/-- Outcome class of a model run (the strings of the correspondence protocol). -/
def outcome {α} : Out α → String
  | .ok _ => "ok"
  | .err e => Out.className e
  | .panic _ => "panic"

/-- The run ended with an error value (neither a result nor a panic). -/
def isErr {α} : Out α → Bool
  | .err _ => true
  | _ => false

/-- Number of entries of a successfully opened archive. -/
def okEntries : Out Archive → Option Nat
  | .ok a => some a.files.length
  | _ => none

/-- empty input -/
example : outcome (openArchive.runPure (Dev.ofBytes [])).1 = "err invalid" := by decide +kernel

/-- 21 bytes: one short of the smallest archive -/
example : outcome (openArchive.runPure (Dev.ofBytes (List.replicate 21 0))).1 = "err invalid" := by
  decide +kernel

/-- The 22-byte empty archive opens, with no entries. -/
def emptyZip : Bytes := [0x50, 0x4b, 0x05, 0x06] ++ List.replicate 18 0

example : okEntries (openArchive.runPure (Dev.ofBytes emptyZip)).1 = some 0 := by decide +kernel

/-- `open_prealloc_bound` is not vacuous: the tied function succeeds on it, requesting no memory. -/
example : (match (openArchiveAlloc.runPure (Dev.ofBytes emptyZip)).1 with
    | .ok (a, cap) => a.files.length == 0 && cap == 0
    | _ => false) = true := by decide +kernel

/-- Every proper prefix of it is rejected (an interrupted write), by all three openers. -/
example : ∀ n < 22,
    outcome (openArchive.runPure (Dev.ofBytes (emptyZip.take n))).1 = "err invalid" ∧
    outcome (newAppend.runPure (Dev.ofBytes (emptyZip.take n))).1 = "err invalid" ∧
    (outcome ((streamVisit storedExt).runPure (Dev.ofBytes (emptyZip.take n))).1 = "err invalid" ∨
     outcome ((streamVisit storedExt).runPure (Dev.ofBytes (emptyZip.take n))).1 = "err io:eof") := by
  decide +kernel

/-- A liar: 65 535 entries declared (on-disk count 0xFFFF), central directory "at offset 0".  The
capacity guard reserves nothing (65535 > (cde_start_pos - directory_start) / 46 = 0) and the first header fails. -/
def liarCount : Bytes :=
  [0x50, 0x4b, 0x05, 0x06, 0, 0, 0, 0, 0xff, 0xff, 0xff, 0xff, 0, 0, 0, 0, 0, 0, 0, 0, 0, 0]

example : outcome (openArchive.runPure (Dev.ofBytes liarCount)).1 = "err invalid" := by decide +kernel
example : outcome (newAppend.runPure (Dev.ofBytes liarCount)).1 = "err invalid" := by decide +kernel
example : outcome ((streamVisit storedExt).runPure (Dev.ofBytes liarCount)).1 = "err invalid" := by
  decide +kernel
example : fileCapacity 65535 0 0 = 0 := by decide

/-- A liar entry whose local header offset is 2^64 - 1: `find_content` fails with `UnexpectedEof`
at the signature read — the overflowing addition of read.rs:201 is never evaluated. -/
def farEntry : FileData := { (default : FileData) with headerStart := 0xFFFFFFFFFFFFFFFF }

example : outcome ((byIndexRead storedExt ⟨[farEntry], 0, []⟩ 0 none).runPure
    (Dev.ofBytes emptyZip)).1 = "err io:eof" := by decide +kernel
example : outcome ((byIndexRaw ⟨[farEntry], 0, []⟩ 0).runPure (Dev.ofBytes emptyZip)).1 =
    "err io:eof" := by decide +kernel
/-- index out of range -/
example : outcome ((byIndexRaw ⟨[farEntry], 0, []⟩ 7).runPure (Dev.ofBytes emptyZip)).1 =
    "err notfound" := by decide +kernel

/-- A script over the liar: nothing panics (evaluated, not just proved). -/
example : runScript storedExt none ⟨Dev.ofBytes liarCount, some ⟨[farEntry], 0, []⟩⟩
    [.openArchive, .byIndex 0 none, .byIndexRaw 0, .byName [] (some [1]), .stream, .appendOpen] =
    false := by decide +kernel

/-- The same script under an injected I/O fault at each of the first 40 calls. -/
example : ∀ k < 40, runScript storedExt (some k) ⟨Dev.ofBytes liarCount, none⟩
    [.openArchive, .stream, .appendOpen] = false := by decide +kernel

/-- A well-formed one-entry archive (`a` = "Z", Stored), 101 bytes. -/
def oneEntry : Bytes :=
  [0x50, 0x4b, 0x3, 0x4, 0x14, 0x0, 0x0, 0x0, 0x0, 0x0, 0x0, 0x0, 0x21, 0x0, 0x67, 0x57, 0xbc, 0x59,
   0x1, 0x0, 0x0, 0x0, 0x1, 0x0, 0x0, 0x0, 0x1, 0x0, 0x0, 0x0, 0x61, 0x5a,
   0x50, 0x4b, 0x1, 0x2, 0x14, 0x0, 0x14, 0x0, 0x0, 0x0, 0x0, 0x0, 0x0, 0x0, 0x21, 0x0, 0x67, 0x57,
   0xbc, 0x59, 0x1, 0x0, 0x0, 0x0, 0x1, 0x0, 0x0, 0x0, 0x1, 0x0, 0x0, 0x0, 0x0, 0x0, 0x0, 0x0, 0x0,
   0x0, 0x0, 0x0, 0x0, 0x0, 0x0, 0x0, 0x0, 0x0, 0x61,
   0x50, 0x4b, 0x5, 0x6, 0x0, 0x0, 0x0, 0x0, 0x1, 0x0, 0x1, 0x0, 0x2f, 0x0, 0x0, 0x0, 0x20, 0x0, 0x0,
   0x0, 0x0, 0x0]

/-- Open, then read entry 0 — `some (data_start, content)`. -/
def openAndRead (bytes : Bytes) (i : Nat) : Option (Nat × Bytes) :=
  match openArchive.runPure (Dev.ofBytes bytes) with
  | (.ok a, d) =>
    match (byIndexRead storedExt a i none).runPure d with
    | (.ok (.ok (ds, .ok content)), _) => some (ds, content)
    | _ => none
  | _ => none

example : okEntries (openArchive.runPure (Dev.ofBytes oneEntry)).1 = some 1 := by decide +kernel
example : openAndRead oneEntry 0 = some (31, [0x5a]) := by decide +kernel

/-- `open_prealloc_bound` on an archive that does reserve: one entry declared, 47 bytes between the directory start
(32) and the end record (79) - room for exactly one header -, one slot requested, one entry returned. -/
example : (match (openArchiveAlloc.runPure (Dev.ofBytes oneEntry)).1 with
    | .ok (a, cap) => a.files.length == 1 && cap == 1
    | _ => false) = true := by decide +kernel
example : fileCapacity 1 79 32 = 1 ∧ fileCapacity 2 79 32 = 0 := by decide

/-- The calls of the property statement, in one script. -/
def fullScript : List Step :=
  [.openArchive, .byIndex 0 none, .byIndexRaw 0, .byName [0x61] none, .byIndex 0 (some [0x70]),
   .stream, .appendOpen]

/-- Cut points: every third length plus the record boundaries (32 = end of the entry, 79 = end of
the central directory, 100 = last byte missing). -/
def cuts : List Nat := (List.range 101).filter fun n => n % 3 == 0 || n == 32 || n == 79 || n == 100

/-- Proper prefixes (an interrupted download): the seekable opener and `new_append` answer with an
error; the streaming reader does not panic (it succeeds once the central record is complete) … -/
example : cuts.all (fun n =>
    isErr (openArchive.runPure (Dev.ofBytes (oneEntry.take n))).1 &&
    isErr (newAppend.runPure (Dev.ofBytes (oneEntry.take n))).1 &&
    !((streamVisit storedExt).runPure (Dev.ofBytes (oneEntry.take n))).1.isPanic) = true := by
  decide +kernel

/-- … and the whole script over each of these prefixes — evaluated — has no panicking step. -/
example : cuts.all (fun n =>
    !runScript storedExt none ⟨Dev.ofBytes (oneEntry.take n), none⟩ fullScript) = true := by
  decide +kernel

/-- Single-byte substitutions by 0xFF (signatures, counts, sizes, offsets, lengths). -/
example : cuts.all (fun p =>
    !runScript storedExt none ⟨Dev.ofBytes (oneEntry.set p 0xff), none⟩ fullScript) = true := by
  decide +kernel

/-! ### Passwords on adversarial entries, evaluated through the model (finding F4) -/

/-- A local header (no name, no extra field) followed by 40 zero bytes of "data".  Under `zeroPrims` the zero
bytes are a VALID AES payload for every password (derived keys, key stream and authentication code are all
zero), so every branch of the AES layer is reached by varying the declared size alone. -/
def cryptoDev : Bytes := [0x50, 0x4b, 0x03, 0x04] ++ List.replicate 26 0 ++ List.replicate 40 0

/-- An entry at offset 0 with the encryption flag, an AES-256/AE-2 record and a declared size of `k`. -/
def aesEntry (k : Nat) : FileData :=
  { (default : FileData) with encrypted := true, compressedSize := UInt64.ofNat k,
                              aesMode := some (.aes256, .ae2) }

/-- The same without AES record: the ZipCrypto path (check byte = high byte of the CRC = 0). -/
def zcEntry (k : Nat) : FileData :=
  { (default : FileData) with encrypted := true, compressedSize := UInt64.ofNat k }

/-- Outcome class of `by_index_decrypt(0, pw)` + `read_to_end` on a one-entry archive value. -/
def decryptOutcome (f : FileData) (pw : Option Bytes) : String :=
  match (byIndexRead cryptoStoredExt ⟨[f], 0, []⟩ 0 pw).runPure (Dev.ofBytes cryptoDev) with
  | (.ok (.ok (_, res)), _) => "read " ++ outcome res
  | (.ok .invalidPassword, _) => "invalidpw"
  | (.err e, _) => Out.className e
  | (.panic _, _) => "panic"

/-- AES-256 needs 16 + 2 + 10 = 28 bytes: every shorter declared size is `InvalidData` (D4: was an overflow
panic), 28 is the empty entry, 40 uses all the bytes there are, 41 and more find the authentication code cut
short (`UnexpectedEof`, D9), the maximal size too. -/
example : (List.range 28).all (fun k => decryptOutcome (aesEntry k) (some [0x70]) == "err io:invaliddata") = true := by
  decide +kernel
example : decryptOutcome (aesEntry 28) (some [0x70]) = "read ok" := by decide +kernel
example : decryptOutcome (aesEntry 40) (some []) = "read ok" := by decide +kernel
example : decryptOutcome (aesEntry 41) (some [0x70]) = "read err io:eof" := by decide +kernel
example : decryptOutcome (aesEntry 0xFFFFFFFFFFFFFFFF) (some [0x70]) = "read err io:eof" := by decide +kernel
/-- no password on an encrypted entry; a password on an entry whose flag is clear is ignored (AES record
without the flag: `InvalidPassword`, D2: was an unwrap panic) -/
example : decryptOutcome (aesEntry 30) none = "err passwordrequired" := by decide +kernel
example : decryptOutcome { aesEntry 30 with encrypted := false } (some [0x70]) = "invalidpw" := by decide +kernel

/-- ZipCrypto entries of every length 0 … 13: below the 12-byte header `UnexpectedEof`; from 12 on the check
byte decides. -/
example : (List.range 12).all (fun k => decryptOutcome (zcEntry k) (some [0x70]) == "err io:eof") = true := by
  decide +kernel
example : decryptOutcome (zcEntry 12) (some [0x70]) = "invalidpw" := by decide +kernel
/-- the password `[4]` passes the check byte on these bytes: the empty entry reads (CRC of nothing = 0 = declared),
the 13-byte one delivers a byte whose CRC-32 is not the declared one -/
example : decryptOutcome (zcEntry 12) (some [4]) = "read ok" := by decide +kernel
example : decryptOutcome (zcEntry 13) (some [4]) = "read err io:other" := by decide +kernel

/-- Whole scripts with passwords over these entries, every declared size 0 … 44, also under an injected fault:
evaluated, no panicking step. -/
example : (List.range 45).all (fun k =>
    !runScript cryptoStoredExt none ⟨Dev.ofBytes cryptoDev, some ⟨[aesEntry k, zcEntry k], 0, []⟩⟩
      [.byIndex 0 (some [0x70]), .byIndex 1 (some [0x70]), .byName [] (some []), .byIndex 0 none,
       .byIndexRaw 0, .byIndex 1 (some [1, 2, 3])]) = true := by decide +kernel
example : (List.range 12).all (fun fk =>
    !runScript cryptoStoredExt (some fk) ⟨Dev.ofBytes cryptoDev, some ⟨[aesEntry 40, zcEntry 20], 0, []⟩⟩
      [.byIndex 0 (some [0x70]), .byIndex 1 (some [0x70])]) = true := by decide +kernel

/-! ### D16 (found by this property's stream, fixed in the crate and mirrored in the model)

`new_append` used to accept an empty ZIP64 archive whose central directory offset points far beyond
the input: opening was panic-free and cheap, but the writer it returned stood at that offset, so
`finish()` / `Drop` wrote there (4 GiB zero fill from the 98-byte witness below, a capacity-overflow
panic or an allocation abort for larger offsets).  The code now rejects `directory_start >
cde_start_pos`; `append_open_position_bounded` is the corresponding theorem. -/

/-- ZIP64 end record (0 entries, directory "at" 2^32), locator, end record with 0xFFFFFFFF markers. -/
def appendBeyond : Bytes :=
  [0x50, 0x4b, 0x06, 0x06, 0x2c, 0, 0, 0, 0, 0, 0, 0, 0x2d, 0, 0x2d, 0, 0, 0, 0, 0, 0, 0, 0, 0,
   0, 0, 0, 0, 0, 0, 0, 0, 0, 0, 0, 0, 0, 0, 0, 0, 0, 0, 0, 0, 0, 0, 0, 0, 0, 0, 0, 0, 1, 0, 0, 0,
   0x50, 0x4b, 0x06, 0x07, 0, 0, 0, 0, 0, 0, 0, 0, 0, 0, 0, 0, 1, 0, 0, 0,
   0x50, 0x4b, 0x05, 0x06, 0, 0, 0, 0, 0, 0, 0, 0, 0, 0, 0, 0, 0xff, 0xff, 0xff, 0xff, 0, 0]

/-- `(entries, writer position)` after a successful `new_append`. -/
def appendOpenView (bytes : Bytes) : Option (Nat × Nat) :=
  match newAppend.runPure (Dev.ofBytes bytes) with
  | (.ok s, d) => some (s.files.length, d.pos)
  | _ => none

example : appendBeyond.length = 98 := by decide
example : appendOpenView appendBeyond = none := by decide +kernel
example : outcome (newAppend.runPure (Dev.ofBytes appendBeyond)).1 = "err invalid" := by decide +kernel
example : okEntries (openArchive.runPure (Dev.ofBytes appendBeyond)).1 = some 0 := by decide +kernel

end ZipVerif.Props.C05
