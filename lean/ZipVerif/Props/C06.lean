import ZipVerif.Lemmas.Paths
/-
C06 — Sanitised entry paths can never escape the extraction root.
Property theorems only; helper lemmas are in `Lemmas/Paths.lean`, the model of the two accessors and of
`Path::components` / `PathBuf::push` (Unix) in `Model/Paths.lean`, the vocabulary (`depth`, `NeverClimbs`,
lexical normalisation `resolve`, `StaysInside`) in `Spec/Paths.lean`.

Names are `List Char` (a Rust `String`); all statements quantify over every name, of any length.
-/

namespace ZipVerif.Props.C06
open ZipVerif ZipVerif.Spec.Paths ZipVerif.Model.Paths

/-! ### enclosed_name -/

/-- Exact characterisation: `enclosed_name` answers `Some` precisely for the names without NUL that
do not start with '/' and whose component walk never climbs above its starting directory. -/
theorem enclosed_iff (n : Name) :
    (enclosedName n).isSome ↔
      '\x00' ∉ n ∧ n.head? ≠ some '/' ∧ NeverClimbs (components n) := by
  unfold enclosedName NeverClimbs
  by_cases h0 : '\x00' ∈ n
  · simp [h0]
  · simp only [h0, if_false, not_false_eq_true, true_and]
    have hw := walk_isSome_iff (components n) 0
    rw [rootDir_mem_components_iff] at hw
    simp only [Int.natCast_zero, Int.zero_add] at hw
    rw [← hw]
    cases walk (components n) 0 <;> simp

/-- The returned path is the name itself (`Some(Path::new(&self.file_name))`). -/
theorem enclosed_is_name {n p : Name} (h : enclosedName n = some p) : p = n := by
  unfold enclosedName at h
  split at h
  · cases h
  · split at h
    · exact (Option.some.inj h).symm
    · cases h

/-- **Soundness.** A returned path contains no NUL, is relative (does not start with '/', has no
`RootDir` component anywhere) and after every initial part of its component walk the depth is ≥ 0. -/
theorem enclosed_sound {n p : Name} (h : enclosedName n = some p) :
    '\x00' ∉ p ∧ p.head? ≠ some '/' ∧ Comp.rootDir ∉ components p ∧
      ∀ k, 0 ≤ depth ((components p).take k) := by
  have hp := enclosed_is_name h
  subst hp
  obtain ⟨h1, h2, h3⟩ := (enclosed_iff p).mp (by rw [h]; rfl)
  exact ⟨h1, h2, fun hm => h2 ((rootDir_mem_components_iff p).mp hm), h3⟩

/-- **Completeness.** `None` is returned only for a name that contains NUL, or is absolute, or whose
walk climbs above its start after some initial part. -/
theorem enclosed_complete {n : Name} (h : enclosedName n = none) :
    '\x00' ∈ n ∨ n.head? = some '/' ∨ ∃ k, depth ((components n).take k) < 0 := by
  have hi := enclosed_iff n
  rw [h] at hi
  simp only [Option.isSome_none, Bool.false_eq_true, false_iff] at hi
  by_cases h0 : '\x00' ∈ n
  · exact Or.inl h0
  · by_cases h1 : n.head? = some '/'
    · exact Or.inr (Or.inl h1)
    · refine Or.inr (Or.inr ?_)
      apply Classical.byContradiction
      intro hne
      apply hi
      refine ⟨h0, h1, fun k => ?_⟩
      apply Classical.byContradiction
      intro hk
      exact hne ⟨k, by omega⟩

/-- **Joining stays inside.** For every base directory (any list of ordinary components below the
root), lexically normalising `base.join(p)` — after the whole walk and after every initial part of it
— yields `base` followed by something: no step pops an element of `base`, nothing replaces it. -/
theorem enclosed_join_inside {n p : Name} (h : enclosedName n = some p) (base : List Name) :
    StaysInside base (components p) := by
  have hp := enclosed_is_name h
  subst hp
  apply staysInside_of_walk
  unfold enclosedName at h
  split at h
  · cases h
  · split at h
    · next hw => rw [hw]; rfl
    · cases h

/-- The final position: `resolve(base.join(p)) = base ++ rest`. -/
theorem enclosed_join_prefix {n p : Name} (h : enclosedName n = some p) (base : List Name) :
    ∃ rest, joinResolve base (components p) = base ++ rest := by
  have := enclosed_join_inside h base (components p).length
  rwa [List.take_length] at this

/-- **Joining stays inside ANY base directory** — relative to any working directory `cwd` or absolute,
written with or without "." / "..": after the whole walk and after every initial part of it the
joined path normalises to the directory the base itself denotes, followed by something.
(`enclosed_join_inside` is the instance of an absolute, normalised base: `staysInside_iff_any`.) -/
theorem enclosed_join_inside_any {n p : Name} (h : enclosedName n = some p) (cwd : List Name)
    (base : List Comp) : StaysInsideAny cwd base (components p) := by
  have hp := enclosed_is_name h
  subst hp
  apply staysInsideAny_of_walk
  unfold enclosedName at h
  split at h
  · cases h
  · split at h
    · next hw => rw [hw]; rfl
    · cases h

/-- `depth += 1` cannot overflow: every value the counter takes is at most `len + 1`, and a Rust
string has `len ≤ isize::MAX`. -/
theorem enclosed_depth_no_overflow (n : Name) (k d : Nat)
    (h : walk ((components n).take k) 0 = some d) : d ≤ n.length + 1 := by
  have h1 := walk_le _ _ _ h
  have h2 := components_length_le n
  have h3 : ((components n).take k).length ≤ (components n).length := by
    rw [List.length_take]; omega
  omega

/-! ### mangled_name -/

/-- `&name[0..first NUL]`: the longest NUL-free prefix. -/
theorem truncNul_spec (n : Name) :
    '\x00' ∉ truncNul n ∧
      ∃ rest, n = truncNul n ++ rest ∧ (rest = [] ∨ rest.head? = some '\x00') := by
  constructor
  · intro hm
    have := of_mem_takeWhile _ _ _ hm
    simp at this
  · refine ⟨n.dropWhile (· != '\x00'), (List.takeWhile_append_dropWhile).symm, ?_⟩
    induction n with
    | nil => simp
    | cons a r ih =>
      rw [List.dropWhile_cons]
      split
      · exact ih
      · next hh => right; simpa using hh

/-- Reading the returned `PathBuf` back with `components()` gives exactly the kept components, all
`Normal`, in order (this also justifies the driver printing `mangledComps`). -/
theorem mangled_components (n : Name) :
    components (mangledName n) = (mangledComps n).map Comp.normal := by
  unfold mangledName
  apply components_foldl_push
  intro s hs
  unfold mangledComps at hs
  rw [components_filterMap_normalOnly] at hs
  exact (plain_of_mem_segments_ordinary _ s hs).1

/-- **Specification of `mangled_name`.** The result's components are the `Normal` components — the
'/'-separated segments that are not empty, "." or ".." — taken in order from the part of the name
before the first NUL, with '\\' read as '/'. -/
theorem mangled_spec (n : Name) :
    components (mangledName n) =
      ((segments (toMainSep (truncNul n))).filter ordinary).map Comp.normal := by
  rw [mangled_components]
  unfold mangledComps
  rw [components_filterMap_normalOnly]

/-- Every component of the result is an ordinary file name: non-empty, not "." or "..", without
'/', '\\' or NUL. -/
theorem mangled_components_normal (n s : Name) (hs : s ∈ mangledComps n) :
    s ≠ [] ∧ s ≠ ['.'] ∧ s ≠ ['.', '.'] ∧ '/' ∉ s ∧ '\\' ∉ s ∧ '\x00' ∉ s := by
  unfold mangledComps at hs
  rw [components_filterMap_normalOnly] at hs
  obtain ⟨⟨a, b, c, d⟩, hmem⟩ := plain_of_mem_segments_ordinary _ s hs
  refine ⟨a, c, d, b, fun hm => ?_, fun hm => ?_⟩
  · exact (mem_toMainSep_truncNul n _ (hmem _ hm)).2 rfl
  · exact (mem_toMainSep_truncNul n _ (hmem _ hm)).1 rfl

/-- The result is a relative path and contains no NUL. -/
theorem mangled_relative (n : Name) :
    (mangledName n).head? ≠ some '/' ∧ '\x00' ∉ mangledName n := by
  constructor
  · intro h
    have := (rootDir_mem_components_iff _).mpr h
    rw [mangled_components] at this
    simp at this
  · have hpl : ∀ s ∈ mangledComps n, Plain s := by
      intro s hs
      obtain ⟨a, c, d, b, _, _⟩ := mangled_components_normal n s hs
      exact ⟨a, b, c, d⟩
    unfold mangledName
    rw [foldl_push_nil _ hpl]
    intro hm
    cases hc : mangledComps n with
    | nil => rw [hc] at hm; simp [joinSlash] at hm
    | cons c r =>
      rw [hc] at hm
      simp only [joinSlash, List.mem_append, slashed, List.mem_flatMap, List.mem_cons] at hm
      rcases hm with hm | ⟨s, hs, hm | hm⟩
      · exact (mangled_components_normal n c (by rw [hc]; simp)).2.2.2.2.2 hm
      · exact absurd hm (by decide)
      · exact (mangled_components_normal n s (by rw [hc]; simp [hs])).2.2.2.2.2 hm

/-- **Joining stays inside**, for every name and every base directory. -/
theorem mangled_join_inside (n : Name) (base : List Name) :
    StaysInside base (components (mangledName n)) := by
  apply staysInside_of_walk
  rw [mangled_components, walk_isSome_iff]
  refine ⟨by simp, fun k => ?_⟩
  rw [← List.map_take]
  generalize (mangledComps n).take k = l
  induction l with
  | nil => simp [depth]
  | cons a l ih => simp only [List.map_cons, depth]; omega

/-- … and every base directory however written (relative, unnormalised, from any working directory). -/
theorem mangled_join_inside_any (n : Name) (cwd : List Name) (base : List Comp) :
    StaysInsideAny cwd base (components (mangledName n)) := by
  apply staysInsideAny_of_walk
  rw [mangled_components, walk_isSome_iff]
  refine ⟨by simp, fun k => ?_⟩
  rw [← List.map_take]
  generalize (mangledComps n).take k = l
  induction l with
  | nil => simp [depth]
  | cons a l ih => simp only [List.map_cons, depth]; omega

theorem mangled_join_prefix (n : Name) (base : List Name) :
    ∃ rest, joinResolve base (components (mangledName n)) = base ++ rest := by
  have := mangled_join_inside n base (components (mangledName n)).length
  rwa [List.take_length] at this

/-! ### non-vacuity -/

-- "a/../b" is accepted, "a/../../b" (climbs after 3 components), "/a", "../a", "a\0" are rejected
example : enclosedName "a/../b".toList = some "a/../b".toList := by decide
example : enclosedName "a/../../b".toList = none := by decide
example : depth ((components "a/../../b".toList).take 3) = -1 := by decide
example : enclosedName "/a".toList = none := by decide
example : enclosedName "../a".toList = none := by decide
example : enclosedName ['a', '\x00'] = none := by decide
example : enclosedName "./a//b/.".toList = some "./a//b/.".toList := by decide
-- the depth counter on "a/b/../c" after 2 components is 2 (≤ len + 1 = 9)
example : walk ((components "a/b/../c".toList).take 2) 0 = some 2 := by decide
-- on Unix a backslash is an ordinary character for `enclosed_name` …
example : components "..\\..\\a".toList = [.normal "..\\..\\a".toList] := by decide
-- … but a separator for `mangled_name`
example : mangledComps "..\\../a\\.\\b".toList = ["a".toList, "b".toList] := by decide
example : mangledName "/../a\\b/./c".toList = "a/b/c".toList := by decide
example : mangledName ['a', '/', 'b', '\x00', '/', 'c'] = "a/b".toList := by decide
-- std `components()` corner cases (validated against the implementation by the `paths` stream)
example : components ".".toList = [.curDir] := by decide
example : components "./.".toList = [.curDir] := by decide
example : components "a/.".toList = [.normal ['a']] := by decide
example : components "//a".toList = [.rootDir, .normal ['a']] := by decide
example : components "".toList = [] := by decide
-- the stack machine: joining "a/../b" onto /base/dir stays inside, "../x" would not
example : joinResolve ["base".toList, "dir".toList] (components "a/../b".toList)
    = ["base".toList, "dir".toList, "b".toList] := by decide
example : joinResolve ["base".toList, "dir".toList] (components "../x".toList)
    = ["base".toList, "x".toList] := by decide
-- a relative, unnormalised base "../out/./x/.." seen from /home/u: it denotes /home/out, and joining
-- "a/../b" onto it ends in /home/out/b, passing only through /home/out/…
example : resolveFrom ["home".toList, "u".toList] (components "../out/./x/..".toList)
    = ["home".toList, "out".toList] := by decide
example : resolveFrom ["home".toList, "u".toList]
    (components "../out/./x/..".toList ++ components "a/../b".toList)
    = ["home".toList, "out".toList, "b".toList] := by decide
example : StaysInsideAny ["home".toList, "u".toList] (components "../out/./x/..".toList)
    (components "a/../b".toList) :=
  enclosed_join_inside_any (n := "a/../b".toList) (by decide) _ _
-- an absolute base given to a process elsewhere: the `rootDir` component resets the stack
example : resolveFrom ["home".toList] (components "/srv/../tmp".toList ++ components "a/../b".toList)
    = ["tmp".toList, "b".toList] := by decide
-- "../x" leaves also such a base
example : ¬ StaysInsideAny ["home".toList, "u".toList] (components "../out".toList)
    (components "../x".toList) := by
  intro h
  obtain ⟨rest, hr⟩ := h 1
  have e : resolveFrom ["home".toList, "u".toList]
      (components "../out".toList ++ (components "../x".toList).take 1) = ["home".toList] := by decide
  have e2 : resolveFrom ["home".toList, "u".toList] (components "../out".toList)
      = ["home".toList, "out".toList] := by decide
  rw [e, e2] at hr
  have := congrArg List.length hr
  simp at this
example : ¬ StaysInside ["base".toList] (components "../x".toList) := by
  intro h
  obtain ⟨rest, hr⟩ := h 1
  revert hr
  have : joinResolve ["base".toList] ((components "../x".toList).take 1) = [] := by decide
  rw [this]
  simp

end ZipVerif.Props.C06
