import ZipVerif.Lemmas.TreeFactsStream
/-
C07 — extract() reproduces the tree and writes nothing outside the target.

LEVEL: proof about the filesystem MODEL (`Spec/FS.lean`: finite map from resolved absolute paths to
`dir mode | file bytes mode`, kernel path resolution component by component through the existing
directories, `mkdir`/`open(O_CREAT|O_TRUNC)`/`chmod`/`stat`, std's `create_dir_all` algorithm, owner
permission bits or superuser); PARTIAL with respect to the real filesystem: symbolic links or mount
points already present in the target, other users' objects, ACLs, name-length limits, ENOSPC, races
with other processes are outside the model and only observed by the sandbox comparison of the `fs`
stream (which also validates the model itself: every generated archive is extracted by the real crate
into a fresh sandbox and compared with the model's prediction, tree and modes included).

The extractor models are `Model/Extract.lean` (`extractSeek` = `ZipArchive::extract`, `extractStream`
= `ZipStreamReader::extract`); what the archive reader delivers per entry (name, bytes, errors,
`unix_mode()`) is their input.  Both return the final filesystem together with the optional error: a
run that fails leaves what it did so far on disk, and the confinement theorems cover those runs too.
-/

namespace ZipVerif.Props.C07
open ZipVerif ZipVerif.Spec.Paths ZipVerif.Spec.FS ZipVerif.Spec.Tree ZipVerif.Model.Paths
  ZipVerif.Model.Extract

/-! ### confinement, every archive, every outcome -/

/-- **Operation targets (seekable).** For every entry list, target directory and initial filesystem, the
bindings the run adds to the write log — its sequence of operation targets — are all at resolved paths
inside `root`, except that missing ancestors of `root` may be created as directories. -/
theorem extract_targets_inside (c : Cfg) (root : Path) (es : List EntryView) (fs : FS) :
    ∃ new : List (Path × Node), (extractSeek c root es fs).1.nodes = new ++ fs.nodes ∧
      ∀ t ∈ new, root <+: t.1 ∨ (t.1 <+: root ∧ ∃ m, t.2 = .dir m) :=
  (extractSeek_steps c root es fs).log

/-- **Operation targets (streaming).** -/
theorem extractStream_targets_inside (c : Cfg) (root : Path) (files : List EntryView)
    (metas : List (Name × Option Nat)) (fs : FS) :
    ∃ new : List (Path × Node), (extractStream c root files metas fs).1.nodes = new ++ fs.nodes ∧
      ∀ t ∈ new, root <+: t.1 ∨ (t.1 <+: root ∧ ∃ m, t.2 = .dir m) :=
  (extractStream_steps c root files metas fs).log

/-- **Confinement (seekable).** Whatever the names are and whether or not the run ends in an error: a
path that is not inside `root` maps to the same node before and after — the only exception being a
missing ancestor of `root`, which `create_dir_all` creates as a directory. -/
theorem extract_confined (c : Cfg) (root : Path) (es : List EntryView) (fs : FS) (p : Path)
    (hp : ¬ root <+: p) :
    (extractSeek c root es fs).1.lookup p = fs.lookup p ∨
      (p <+: root ∧ fs.lookup p = none ∧ ∃ m, (extractSeek c root es fs).1.lookup p = some (.dir m)) :=
  (extractSeek_steps c root es fs).frame p hp

/-- **Confinement (streaming).** -/
theorem extractStream_confined (c : Cfg) (root : Path) (files : List EntryView)
    (metas : List (Name × Option Nat)) (fs : FS) (p : Path) (hp : ¬ root <+: p) :
    (extractStream c root files metas fs).1.lookup p = fs.lookup p ∨
      (p <+: root ∧ fs.lookup p = none ∧
        ∃ m, (extractStream c root files metas fs).1.lookup p = some (.dir m)) :=
  (extractStream_steps c root files metas fs).frame p hp

/-- When the target directory's ancestors all exist, nothing at all changes outside it. -/
theorem extract_confined_exact (c : Cfg) (root : Path) (es : List EntryView) (fs : FS)
    (hroot : ∀ q, q <+: root → fs.lookup q ≠ none) (p : Path) (hp : ¬ root <+: p) :
    (extractSeek c root es fs).1.lookup p = fs.lookup p := by
  rcases extract_confined c root es fs p hp with h | ⟨h1, h2, _⟩
  · exact h
  · exact absurd h2 (hroot p h1)

theorem extractStream_confined_exact (c : Cfg) (root : Path) (files : List EntryView)
    (metas : List (Name × Option Nat)) (fs : FS)
    (hroot : ∀ q, q <+: root → fs.lookup q ≠ none) (p : Path) (hp : ¬ root <+: p) :
    (extractStream c root files metas fs).1.lookup p = fs.lookup p := by
  rcases extractStream_confined c root files metas fs p hp with h | ⟨h1, h2, _⟩
  · exact h
  · exact absurd h2 (hroot p h1)

/-! ### unsafe names -/

/-- **Unsafe name ⇒ error (seekable).** If any entry's name is rejected by `enclosed_name` — it contains
NUL, is absolute, or climbs above its start (`C06.enclosed_complete`) — the run ends in an error. -/
theorem extract_unsafe_errors (c : Cfg) (root : Path) (es : List EntryView) (fs : FS)
    (h : ∃ e ∈ es, enclosedName e.name = none) : (extractSeek c root es fs).2.isSome = true :=
  extractSeek_unsafe c root es fs h

/-- The first unsafe entry that is reached stops the run with `InvalidArchive("Invalid file path")`;
nothing is done for it or for any later entry (the state is the one the earlier entries left). -/
theorem extract_unsafe_stops (c : Cfg) (root : Path) (pre post : List EntryView) (e : EntryView)
    (fs fs1 : FS) (hpre : extractSeek c root pre fs = (fs1, none)) (ho : e.openErr = none)
    (hn : enclosedName e.name = none) :
    extractSeek c root (pre ++ e :: post) fs = (fs1, some .invalidPath) :=
  extractSeek_unsafe_at c root pre post e fs fs1 hpre ho hn

/-- **Unsafe name ⇒ error (streaming)**: in a local header or in a central record. -/
theorem extractStream_unsafe_errors (c : Cfg) (root : Path) (files : List EntryView)
    (metas : List (Name × Option Nat)) (fs : FS)
    (h : (∃ e ∈ files, enclosedName e.name = none) ∨ (∃ m ∈ metas, enclosedName m.1 = none)) :
    (extractStream c root files metas fs).2.isSome = true :=
  extractStream_unsafe c root files metas fs h

/-! ### faithfulness -/

/-- **Faithful extraction (seekable).** For a consistent archive and a fresh target directory the run
succeeds and the final filesystem is exactly `treeOf`: entry by entry, the directories on the way to
the entry exist, a file entry's path holds exactly its bytes, a recorded mode is applied. -/
theorem extract_faithful (c : Cfg) (root : Path) (rootMode : Nat) (es : List EntryView) (fs : FS)
    (hf : Fresh c fs root rootMode) (hc : Consistent c rootMode es) :
    extractSeek c root es fs = (treeOf c root es fs, none) :=
  extractSeek_eq (Consistent.permCfg hc) (Consistent.disjoint hc) es (fun _ he => Consistent.entryOK hc he) fs
    (Fresh.inv hf hc) (Fresh.kinds es hf)

/-- **Faithful extraction (streaming).** The archive has at least one entry (the streaming reader
rejects an archive without entries) and the central records repeat the local names. -/
theorem extractStream_faithful (c : Cfg) (root : Path) (rootMode : Nat) (es : List EntryView) (fs : FS)
    (hf : Fresh c fs root rootMode) (hc : Consistent c rootMode es) (hne : es ≠ []) :
    extractStream c root es (es.map fun e => (e.name, e.mode)) fs = (treeOfStream c root es fs, none) :=
  extractStream_eq (Consistent.permCfg hc) (Consistent.disjoint hc) (fun _ he => Consistent.entryOK hc he) hne fs
    (Fresh.inv hf hc) (Fresh.kinds es hf)

/-- **The extracted tree, read declaratively (seekable).** Under the hypotheses of `extract_faithful`,
below the target directory there is afterwards
(a) nothing but what the archive describes: every directory is the target itself or a directory on
    the way to (or named by) some entry, every regular file is the path of some file entry;
(b) every directory on the way to, or named by, any entry;
(c) at the path of an entry that no later entry denotes again (last duplicate wins): a directory,
    resp. a regular file holding exactly the entry's bytes, with the entry's recorded mode (low twelve
    bits) when it has one. -/
theorem extract_tree (c : Cfg) (root : Path) (rootMode : Nat) (es : List EntryView) (fs : FS)
    (hf : Fresh c fs root rootMode) (hc : Consistent c rootMode es) :
    (∀ r n, (extractSeek c root es fs).1.lookup (root ++ r) = some n →
      match n with
      | .dir _ => r = [] ∨ ∃ e ∈ es, r ∈ dirPaths e
      | .file _ _ => ∃ e ∈ es, filePath e = some r) ∧
    (∀ e ∈ es, ∀ r ∈ dirPaths e, ∃ m, (extractSeek c root es fs).1.lookup (root ++ r) = some (.dir m)) ∧
    (∀ pre e post, es = pre ++ e :: post → (∀ e' ∈ post, target e' ≠ target e) →
      ∃ n, (extractSeek c root es fs).1.lookup (root ++ target e) = some n ∧ NodeIs e n) := by
  rw [extract_faithful c root rootMode es fs hf hc]
  have hpc := Consistent.permCfg hc
  have hDF := Consistent.disjoint hc
  have hall : ∀ e ∈ es, EntryOK c es e := fun _ he => Consistent.entryOK hc he
  have hi := Fresh.inv hf hc
  have hk := Fresh.kinds es hf
  refine ⟨?_, ?_, ?_⟩
  · exact (treeOf_inv hpc hDF es hall fs hi hk).2.1
  · exact treeOf_dirs hpc hDF es hall fs hi hk
  · intro pre e post hes hlast
    subst hes
    exact treeOf_last hpc hDF pre post e hall fs hi hk hlast

/-- **The extracted tree, read declaratively (streaming).** -/
theorem extractStream_tree (c : Cfg) (root : Path) (rootMode : Nat) (es : List EntryView) (fs : FS)
    (hf : Fresh c fs root rootMode) (hc : Consistent c rootMode es) (hne : es ≠ []) :
    (∀ r n, (extractStream c root es (es.map fun e => (e.name, e.mode)) fs).1.lookup (root ++ r) = some n →
      match n with
      | .dir _ => r = [] ∨ ∃ e ∈ es, r ∈ dirPaths e
      | .file _ _ => ∃ e ∈ es, filePath e = some r) ∧
    (∀ e ∈ es, ∀ r ∈ dirPaths e,
      ∃ m, (extractStream c root es (es.map fun e => (e.name, e.mode)) fs).1.lookup (root ++ r) = some (.dir m)) ∧
    (∀ pre e post, es = pre ++ e :: post → (∀ e' ∈ post, target e' ≠ target e) →
      ∃ n, (extractStream c root es (es.map fun e => (e.name, e.mode)) fs).1.lookup (root ++ target e) = some n ∧
        NodeIs e n) := by
  rw [extractStream_faithful c root rootMode es fs hf hc hne]
  have hpc := Consistent.permCfg hc
  have hDF := Consistent.disjoint hc
  have hall : ∀ e ∈ es, EntryOK c es e := fun _ he => Consistent.entryOK hc he
  have hi := Fresh.inv hf hc
  have hk := Fresh.kinds es hf
  obtain ⟨h1, h2⟩ := treeOfStream_kinds_dirs hpc hDF hall fs hi hk
  refine ⟨h1, h2, ?_⟩
  intro pre e post hes hlast
  subst hes
  exact treeOfStream_last hpc hDF pre post e hall fs hi hk hlast

/-! ### non-vacuity -/

private def cfg : Cfg := { dirMode := 0o755, fileMode := 0o644, priv := false }
private def root0 : Path := ["t".toList]
private def fs0 : FS := ⟨[(root0, .dir 0o755), ([], .dir 0o755), (["etc".toList], .dir 0o755)]⟩

/-- a 3-entry tree: a directory with a mode, a file below it with a mode, a file without a mode -/
private def tree3 : List EntryView :=
  [ { name := "a/".toList, mode := some 0o40750 },
    { name := "a/b.txt".toList, data := [104, 105], mode := some 0o100600 },
    { name := "c".toList, data := [120] } ]

example : Fresh cfg fs0 root0 0o755 := by
  refine ⟨rfl, by decide, ?_⟩
  intro r hr
  cases r with
  | nil => exact absurd rfl hr
  | cons a r => simp [fs0, root0, FS.lookup, List.lookup]

example : Consistent cfg 0o755 tree3 := by decide

-- the run succeeds …
example : (extractSeek cfg root0 tree3 fs0).2 = none := by decide
-- … and leaves exactly: t/a (0o750), t/a/b.txt = "hi" (0o600), t/c = "x" (default 0o644)
example : (extractSeek cfg root0 tree3 fs0).1.lookup ["t".toList, "a".toList] = some (.dir 0o750) := by decide
example : (extractSeek cfg root0 tree3 fs0).1.lookup ["t".toList, "a".toList, "b.txt".toList]
    = some (.file [104, 105] 0o600) := by decide
example : (extractSeek cfg root0 tree3 fs0).1.lookup ["t".toList, "c".toList] = some (.file [120] 0o644) := by
  decide
example : (extractStream cfg root0 tree3 (tree3.map fun e => (e.name, e.mode)) fs0).2 = none := by decide
example : (extractStream cfg root0 tree3 (tree3.map fun e => (e.name, e.mode)) fs0).1.lookup
    ["t".toList, "a".toList, "b.txt".toList] = some (.file [104, 105] 0o600) := by decide

-- an unsafe name after a good entry: error, the good entry stays, /etc untouched
private def hostile : List EntryView :=
  [ { name := "ok".toList, data := [1] }, { name := "../etc/passwd".toList, data := [2] },
    { name := "never".toList } ]

example : ∃ e ∈ hostile, enclosedName e.name = none :=
  ⟨{ name := "../etc/passwd".toList, data := [2] }, by simp [hostile], by decide⟩
example : (extractSeek cfg root0 hostile fs0).2 = some .invalidPath := by decide
example : (extractSeek cfg root0 hostile fs0).1.lookup ["t".toList, "ok".toList] = some (.file [1] 0o644) := by
  decide
example : (extractSeek cfg root0 hostile fs0).1.lookup ["etc".toList, "passwd".toList] = none := by decide
example : (extractSeek cfg root0 hostile fs0).1.lookup ["t".toList, "never".toList] = none := by decide
example : (extractSeek cfg root0 [{ name := "/etc/passwd".toList }] fs0).2 = some .invalidPath := by decide

-- "a/../b" is accepted by `enclosed_name`; the kernel needs `a` to exist for the walk, so
-- `create_dir_all("t/a/..")` creates it: the tree has BOTH `a` and `b`
example : Consistent cfg 0o755 [{ name := "a/../b".toList, data := [7] }] := by decide
example : (extractSeek cfg root0 [{ name := "a/../b".toList, data := [7] }] fs0).1.lookup
    ["t".toList, "a".toList] = some (.dir 0o755) := by decide
example : (extractSeek cfg root0 [{ name := "a/../b".toList, data := [7] }] fs0).1.lookup
    ["t".toList, "b".toList] = some (.file [7] 0o644) := by decide

/-- Clause 3 of `Consistent` is needed: the safe name "a/./" alone makes `create_dir_all` fail with
ENOENT (`mkdir("t/a/.")` → ENOENT, `Path::parent` = "t", which exists, `mkdir("t/a/.")` → ENOENT). -/
theorem create_dir_all_dot_fails :
    (enclosedName "a/./".toList).isSome = true ∧
    (extractSeek cfg root0 [{ name := "a/./".toList }] fs0).2 = some (.fs .notFound) := by decide

-- clause 4 is needed: a file and a directory at the same path
example : (extractSeek cfg root0 [{ name := "x".toList }, { name := "x/y".toList }] fs0).2
    = some (.fs .notADirectory) := by decide
-- clause 5 is needed (unprivileged caller): a directory made unwritable before its child arrives
example : (extractSeek cfg root0 [{ name := "d/".toList, mode := some 0o40555 }, { name := "d/f".toList }] fs0).2
    = some (.fs .permissionDenied) := by decide
-- … the streaming extractor applies modes last and succeeds on the same archive
example : (extractStream cfg root0 [{ name := "d/".toList }, { name := "d/f".toList }]
    [("d/".toList, some 0o40555), ("d/f".toList, none)] fs0).2 = none := by decide

end ZipVerif.Props.C07
