import ZipVerif.Lemmas.TreeFactsStream
/-
C07 — extract() reproduces the tree and writes nothing outside the target.

LEVEL: proof about the filesystem MODEL (`Spec/FS.lean`: finite map from resolved absolute paths to
`dir mode | file bytes mode`, kernel path resolution component by component through the existing
directories, `mkdir`/`open(O_CREAT|O_TRUNC)`/`chmod`/`stat`, std's `create_dir_all` algorithm, owner
permission bits or superuser); PARTIAL with respect to the real filesystem: symbolic links or mount
points already present in the target, other users' objects, ACLs, name-length limits, ENOSPC, races
with other processes are outside the model and only observed by the sandbox comparison of the `fs`
stream (which also validates the model itself: every generated archive is extracted by the real crate
into a fresh sandbox and compared with the model's prediction, tree and modes included).

The extractor models are `Model/Extract.lean` (`extractSeek` = `ZipArchive::extract`, `extractStream`
= `ZipStreamReader::extract`); what the archive reader delivers per entry (name, bytes, errors,
`unix_mode()`) is their input.  Both return the final filesystem together with the optional error: a
run that fails leaves what it did so far on disk, and the confinement theorems cover those runs too.
-/

namespace ZipVerif.Props.C07
open ZipVerif ZipVerif.Spec.Paths ZipVerif.Spec.FS ZipVerif.Spec.Tree ZipVerif.Model.Paths
  ZipVerif.Model.Extract

/-! ### confinement, every archive, every outcome -/

/-- **Operation targets (seekable).** For every entry list, target directory and initial filesystem, the
bindings the run adds to the write log — its sequence of operation targets — are all at resolved paths
inside `root`, except that missing ancestors of `root` may be created as directories. -/
theorem extract_targets_inside (c : Cfg) (root : Path) (es : List EntryView) (fs : FS) :
    ∃ new : List (Path × Node), (extractSeek c root es fs).1.nodes = new ++ fs.nodes ∧
      ∀ t ∈ new, root <+: t.1 ∨ (t.1 <+: root ∧ ∃ m, t.2 = .dir m) :=
  (extractSeek_steps c root es fs).log

/-- **Operation targets (streaming).** -/
theorem extractStream_targets_inside (c : Cfg) (root : Path) (files : List EntryView)
    (metas : List (Name × Option Nat)) (fs : FS) :
    ∃ new : List (Path × Node), (extractStream c root files metas fs).1.nodes = new ++ fs.nodes ∧
      ∀ t ∈ new, root <+: t.1 ∨ (t.1 <+: root ∧ ∃ m, t.2 = .dir m) :=
  (extractStream_steps c root files metas fs).log

/-- **Confinement (seekable).** Whatever the names are and whether or not the run ends in an error: a
path that is not inside `root` maps to the same node before and after — the only exception being a
missing ancestor of `root`, which `create_dir_all` creates as a directory. -/
theorem extract_confined (c : Cfg) (root : Path) (es : List EntryView) (fs : FS) (p : Path)
    (hp : ¬ root <+: p) :
    (extractSeek c root es fs).1.lookup p = fs.lookup p ∨
      (p <+: root ∧ fs.lookup p = none ∧ ∃ m, (extractSeek c root es fs).1.lookup p = some (.dir m)) :=
  (extractSeek_steps c root es fs).frame p hp

/-- **Confinement (streaming).** -/
theorem extractStream_confined (c : Cfg) (root : Path) (files : List EntryView)
    (metas : List (Name × Option Nat)) (fs : FS) (p : Path) (hp : ¬ root <+: p) :
    (extractStream c root files metas fs).1.lookup p = fs.lookup p ∨
      (p <+: root ∧ fs.lookup p = none ∧
        ∃ m, (extractStream c root files metas fs).1.lookup p = some (.dir m)) :=
  (extractStream_steps c root files metas fs).frame p hp

/-- When the target directory's ancestors all exist, nothing at all changes outside it. -/
theorem extract_confined_exact (c : Cfg) (root : Path) (es : List EntryView) (fs : FS)
    (hroot : ∀ q, q <+: root → fs.lookup q ≠ none) (p : Path) (hp : ¬ root <+: p) :
    (extractSeek c root es fs).1.lookup p = fs.lookup p := by
  rcases extract_confined c root es fs p hp with h | ⟨h1, h2, _⟩
  · exact h
  · exact absurd h2 (hroot p h1)

theorem extractStream_confined_exact (c : Cfg) (root : Path) (files : List EntryView)
    (metas : List (Name × Option Nat)) (fs : FS)
    (hroot : ∀ q, q <+: root → fs.lookup q ≠ none) (p : Path) (hp : ¬ root <+: p) :
    (extractStream c root files metas fs).1.lookup p = fs.lookup p := by
  rcases extractStream_confined c root files metas fs p hp with h | ⟨h1, h2, _⟩
  · exact h
  · exact absurd h2 (hroot p h1)

/-! ### unsafe names -/

/-- **Unsafe name ⇒ error (seekable).** If any entry's name is rejected by `enclosed_name` — it contains
NUL, is absolute, or climbs above its start (`C06.enclosed_complete`) — the run ends in an error. -/
theorem extract_unsafe_errors (c : Cfg) (root : Path) (es : List EntryView) (fs : FS)
    (h : ∃ e ∈ es, enclosedName e.name = none) : (extractSeek c root es fs).2.isSome = true :=
  extractSeek_unsafe c root es fs h

/-- The first unsafe entry that is reached stops the run with `InvalidArchive("Invalid file path")`;
nothing is done for it or for any later entry.  The modes recorded for the entries BEFORE it are
applied to what the placing of those entries left (`fs1`) — deepest path first, up to the first
`set_permissions` that fails, that failure ignored (best effort) — and nothing else happens: a failed
run does not leave an earlier entry more accessible than recorded (repair `fix: a failed extract
still applies the Unix modes recorded for the entries written so far`; before it this theorem read
"no mode is applied": `… = (fs1, some .invalidPath)`).  Confinement of such a run: `extract_confined`
(every input, every outcome). -/
theorem extract_unsafe_stops (c : Cfg) (root : Path) (pre post : List EntryView) (e : EntryView)
    (fs fs1 : FS) (hpre : placeFiles c true root pre fs = (fs1, none)) (ho : e.openErr = none)
    (hn : enclosedName e.name = none) :
    extractSeek c root (pre ++ e :: post) fs =
      ((applyModes c root (modeOrder (pre.map fun e => (e.name, e.mode))) fs1).1, some .invalidPath) :=
  extractSeek_unsafe_at c root pre post e fs fs1 hpre ho hn

/-- **A failed run, any failure.** When placing the entries fails — an entry that cannot be opened,
an unsafe name, a filesystem error, a read error such as a checksum mismatch — the result is the
error of the placing, and the filesystem is what the placing left with the modes of the entries
placed completely before the failing one (`placedCount` of them) applied. -/
theorem extract_failed_run (c : Cfg) (root : Path) (es : List EntryView) (fs fs1 : FS) (er : Err)
    (h : placeFiles c true root es fs = (fs1, some er)) :
    extractSeek c root es fs =
      ((applyModes c root
          (modeOrder ((es.take (placedCount c true root es fs)).map fun e => (e.name, e.mode))) fs1).1,
        some er) := by
  unfold extractSeek; rw [h]

/-- **A failed run (streaming).** A failure while the files are placed precedes every central record:
no mode is known and none is applied.  When all files are placed and a central record is rejected
(`enclosed_name`), the modes of the central records BEFORE it (`checkedCount` of them) are applied to
what the placing left, best effort, and the error is `InvalidArchive("Invalid file path")`. -/
theorem extractStream_failed_placing (c : Cfg) (root : Path) (files : List EntryView)
    (metas : List (Name × Option Nat)) (fs fs1 : FS) (er : Err)
    (h : placeFiles c false root files fs = (fs1, some er)) :
    extractStream c root files metas fs = (fs1, some er) := by
  unfold extractStream; rw [h]

theorem extractStream_failed_central (c : Cfg) (root : Path) (files : List EntryView)
    (metas : List (Name × Option Nat)) (fs fs1 : FS) (er : Err)
    (h : placeFiles c false root files fs = (fs1, none)) (hm : checkMetas metas = some er) :
    extractStream c root files metas fs =
      ((applyModes c root (modeOrder (metas.take (checkedCount metas))) fs1).1, some er) := by
  unfold extractStream; rw [h]
  cases metas with
  | nil => simp [checkMetas] at hm
  | cons m r => simp only [hm]

/-- **Unsafe name ⇒ error (streaming)**: in a local header or in a central record. -/
theorem extractStream_unsafe_errors (c : Cfg) (root : Path) (files : List EntryView)
    (metas : List (Name × Option Nat)) (fs : FS)
    (h : (∃ e ∈ files, enclosedName e.name = none) ∨ (∃ m ∈ metas, enclosedName m.1 = none)) :
    (extractStream c root files metas fs).2.isSome = true :=
  extractStream_unsafe c root files metas fs h

/-! ### faithfulness -/

/-- **Faithful extraction (seekable).** For a consistent archive and a fresh target directory the run
succeeds and the final filesystem is exactly `treeOf`: entry by entry, the directories on the way to
the entry exist, a file entry's path holds exactly its bytes; then the recorded modes are applied. -/
theorem extract_faithful (c : Cfg) (root : Path) (rootMode : Nat) (es : List EntryView) (fs : FS)
    (hf : Fresh c fs root rootMode) (hc : Consistent c rootMode es) :
    extractSeek c root es fs = (treeOf c root es fs, none) :=
  extractSeek_eq (Consistent.permCfg hc) (Consistent.disjoint hc) (Consistent.unlocked hc)
    (fun _ he => Consistent.entryOK hc he) fs (Fresh.inv hf hc) (Fresh.kinds es hf)

/-- **Faithful extraction (streaming).** The archive has at least one entry (the streaming reader
rejects an archive without entries) and the central records repeat the local names.  The result is
the SAME tree as the seekable extractor's. -/
theorem extractStream_faithful (c : Cfg) (root : Path) (rootMode : Nat) (es : List EntryView) (fs : FS)
    (hf : Fresh c fs root rootMode) (hc : Consistent c rootMode es) (hne : es ≠ []) :
    extractStream c root es (es.map fun e => (e.name, e.mode)) fs = (treeOf c root es fs, none) :=
  extractStream_eq (Consistent.permCfg hc) (Consistent.disjoint hc) (Consistent.unlocked hc)
    (fun _ he => Consistent.entryOK hc he) hne fs (Fresh.inv hf hc) (Fresh.kinds es hf)

/-- **Any permission bits.** For names made of ordinary components only (`PlainNames`: no "..", no
final "."), clause 5 of `Consistent` asks nothing of the RECORDED modes: with clauses 1–4, a umask whose
defaults keep owner write+search (any sane one) and a target directory the caller may write to, the
archive is consistent whatever the modes are — read-only or unsearchable directories before or after
their contents, read-only files repeated later, mode 000 — also for an unprivileged caller. -/
theorem consistent_of_plain (c : Cfg) (rootMode : Nat) (es : List EntryView)
    (h1 : ∀ e ∈ es, (enclosedName e.name).isSome = true ∧ e.openErr = none ∧ e.readErr = none)
    (h2 : ∀ e ∈ es, isDirName e.name = false → tailDot e.name = false ∧ lastNormal (relComps e.name) = true)
    (h4 : ∀ e1 ∈ es, ∀ e2 ∈ es, ∀ p ∈ (filePath e1).toList, p ∉ dirPaths e2)
    (hd : hasBits c.dirMode 0o300 = true) (hfm : hasBits c.fileMode 0o200 = true)
    (hr : hasBits rootMode 0o300 = true) (hp : PlainNames es) : Consistent c rootMode es :=
  ⟨h1, h2, fun e he _ hdot => absurd hdot (by rw [(hp e he).1]; simp), h4,
    Or.inr ⟨hd, hfm, hr, unlocked_of_plain hp⟩⟩

/-- **Faithful extraction, any permission bits** (`extract_faithful` ∘ `consistent_of_plain`). -/
theorem extract_faithful_any_modes (c : Cfg) (root : Path) (rootMode : Nat) (es : List EntryView) (fs : FS)
    (hf : Fresh c fs root rootMode)
    (h1 : ∀ e ∈ es, (enclosedName e.name).isSome = true ∧ e.openErr = none ∧ e.readErr = none)
    (h2 : ∀ e ∈ es, isDirName e.name = false → tailDot e.name = false ∧ lastNormal (relComps e.name) = true)
    (h4 : ∀ e1 ∈ es, ∀ e2 ∈ es, ∀ p ∈ (filePath e1).toList, p ∉ dirPaths e2)
    (hd : hasBits c.dirMode 0o300 = true) (hfm : hasBits c.fileMode 0o200 = true)
    (hr : hasBits rootMode 0o300 = true) (hp : PlainNames es) :
    extractSeek c root es fs = (treeOf c root es fs, none) ∧
      (es ≠ [] → extractStream c root es (es.map fun e => (e.name, e.mode)) fs = (treeOf c root es fs, none)) :=
  have hc := consistent_of_plain c rootMode es h1 h2 h4 hd hfm hr hp
  ⟨extract_faithful c root rootMode es fs hf hc, extractStream_faithful c root rootMode es fs hf hc⟩

/-- **The extracted tree, read declaratively.** Under the hypotheses of `extract_faithful`, below the
target directory there is afterwards
(a) nothing but what the archive describes: every directory is the target itself or a directory on
    the way to (or named by) some entry, every regular file is the path of some file entry;
(b) every directory on the way to, or named by, any entry;
(c) at the path of an entry that no later entry denotes again (last duplicate wins): a directory,
    resp. a regular file holding exactly the entry's bytes, with the entry's recorded mode (low twelve
    bits) when it has one. -/
theorem extract_tree (c : Cfg) (root : Path) (rootMode : Nat) (es : List EntryView) (fs : FS)
    (hf : Fresh c fs root rootMode) (hc : Consistent c rootMode es) :
    (∀ r n, (extractSeek c root es fs).1.lookup (root ++ r) = some n →
      match n with
      | .dir _ => r = [] ∨ ∃ e ∈ es, r ∈ dirPaths e
      | .file _ _ => ∃ e ∈ es, filePath e = some r) ∧
    (∀ e ∈ es, ∀ r ∈ dirPaths e, ∃ m, (extractSeek c root es fs).1.lookup (root ++ r) = some (.dir m)) ∧
    (∀ pre e post, es = pre ++ e :: post → (∀ e' ∈ post, target e' ≠ target e) →
      ∃ n, (extractSeek c root es fs).1.lookup (root ++ target e) = some n ∧ NodeIs e n) := by
  rw [extract_faithful c root rootMode es fs hf hc]
  have hpc := Consistent.permCfg hc
  have hDF := Consistent.disjoint hc
  have hall : ∀ e ∈ es, EntryOK c es e := fun _ he => Consistent.entryOK hc he
  have hi := Fresh.inv hf hc
  have hk := Fresh.kinds es hf
  obtain ⟨h1, h2⟩ := treeOf_kinds_dirs hpc hDF hall fs hi hk
  refine ⟨h1, h2, ?_⟩
  intro pre e post hes hlast
  subst hes
  exact treeOf_last hpc hDF pre post e hall fs hi hk hlast

/-- The streaming extractor leaves the same tree (`extractStream_faithful`), so `extract_tree` reads
for it word for word. -/
theorem extractStream_tree (c : Cfg) (root : Path) (rootMode : Nat) (es : List EntryView) (fs : FS)
    (hf : Fresh c fs root rootMode) (hc : Consistent c rootMode es) (hne : es ≠ []) :
    (extractStream c root es (es.map fun e => (e.name, e.mode)) fs).1 = (extractSeek c root es fs).1 := by
  rw [extractStream_faithful c root rootMode es fs hf hc hne, extract_faithful c root rootMode es fs hf hc]

/-! ### non-vacuity -/

private def cfg : Cfg := { dirMode := 0o755, fileMode := 0o644, priv := false }
private def root0 : Path := ["t".toList]
private def fs0 : FS := ⟨[(root0, .dir 0o755), ([], .dir 0o755), (["etc".toList], .dir 0o755)]⟩

/-- a 3-entry tree: a directory with a mode, a file below it with a mode, a file without a mode -/
private def tree3 : List EntryView :=
  [ { name := "a/".toList, mode := some 0o40750 },
    { name := "a/b.txt".toList, data := [104, 105], mode := some 0o100600 },
    { name := "c".toList, data := [120] } ]

example : Fresh cfg fs0 root0 0o755 := by
  refine ⟨rfl, by decide, ?_⟩
  intro r hr
  cases r with
  | nil => exact absurd rfl hr
  | cons a r => simp [fs0, root0, FS.lookup, List.lookup]

example : Consistent cfg 0o755 tree3 := by decide

-- the run succeeds …
example : (extractSeek cfg root0 tree3 fs0).2 = none := by decide
-- … and leaves exactly: t/a (0o750), t/a/b.txt = "hi" (0o600), t/c = "x" (default 0o644)
example : (extractSeek cfg root0 tree3 fs0).1.lookup ["t".toList, "a".toList] = some (.dir 0o750) := by decide
example : (extractSeek cfg root0 tree3 fs0).1.lookup ["t".toList, "a".toList, "b.txt".toList]
    = some (.file [104, 105] 0o600) := by decide
example : (extractSeek cfg root0 tree3 fs0).1.lookup ["t".toList, "c".toList] = some (.file [120] 0o644) := by
  decide
example : (extractStream cfg root0 tree3 (tree3.map fun e => (e.name, e.mode)) fs0).2 = none := by decide
example : (extractStream cfg root0 tree3 (tree3.map fun e => (e.name, e.mode)) fs0).1.lookup
    ["t".toList, "a".toList, "b.txt".toList] = some (.file [104, 105] 0o600) := by decide

-- an unsafe name after a good entry: error, the good entry stays, /etc untouched
private def hostile : List EntryView :=
  [ { name := "ok".toList, data := [1] }, { name := "../etc/passwd".toList, data := [2] },
    { name := "never".toList } ]

example : ∃ e ∈ hostile, enclosedName e.name = none :=
  ⟨{ name := "../etc/passwd".toList, data := [2] }, by simp [hostile], by decide⟩
example : (extractSeek cfg root0 hostile fs0).2 = some .invalidPath := by decide
example : (extractSeek cfg root0 hostile fs0).1.lookup ["t".toList, "ok".toList] = some (.file [1] 0o644) := by
  decide
example : (extractSeek cfg root0 hostile fs0).1.lookup ["etc".toList, "passwd".toList] = none := by decide
example : (extractSeek cfg root0 hostile fs0).1.lookup ["t".toList, "never".toList] = none := by decide
example : (extractSeek cfg root0 [{ name := "/etc/passwd".toList }] fs0).2 = some .invalidPath := by decide

/-- a restrictive entry followed by one that fails (checksum mismatch / unsafe name): the run fails and
the first entry has its recorded mode (it was left at 0o644 between the two repairs of `extract`) -/
private def secretThenBad : List EntryView :=
  [{ name := "secret".toList, data := [1], mode := some 0o100600 },
   { name := "bad".toList, data := [2], readErr := some .ioOther, mode := some 0o100644 }]
example : (extractSeek cfg root0 secretThenBad fs0).2 = some (.src .ioOther) := by decide
example : (extractSeek cfg root0 secretThenBad fs0).1.lookup ["t".toList, "secret".toList]
    = some (.file [1] 0o600) := by decide
example : (extractSeek cfg root0 secretThenBad fs0).1.lookup ["t".toList, "bad".toList]
    = some (.file [2] 0o644) := by decide
example : (extractSeek cfg root0 [{ name := "secret".toList, data := [1], mode := some 0o100600 },
    { name := "../x".toList }] fs0).1.lookup ["t".toList, "secret".toList] = some (.file [1] 0o600) := by decide
/-- streaming: both files are written, the second central record carries an unsafe name -/
example : (extractStream cfg root0 [{ name := "secret".toList, data := [1] }, { name := "fine".toList, data := [2] }]
      [("secret".toList, some 0o100600), ("../x".toList, some 0o100644)] fs0).2 = some .invalidPath := by decide
example : (extractStream cfg root0 [{ name := "secret".toList, data := [1] }, { name := "fine".toList, data := [2] }]
      [("secret".toList, some 0o100600), ("../x".toList, some 0o100644)] fs0).1.lookup
        ["t".toList, "secret".toList] = some (.file [1] 0o600) := by decide

-- "a/../b" is accepted by `enclosed_name`; the kernel needs `a` to exist for the walk, so
-- `create_dir_all("t/a/..")` creates it: the tree has BOTH `a` and `b`
example : Consistent cfg 0o755 [{ name := "a/../b".toList, data := [7] }] := by decide
example : (extractSeek cfg root0 [{ name := "a/../b".toList, data := [7] }] fs0).1.lookup
    ["t".toList, "a".toList] = some (.dir 0o755) := by decide
example : (extractSeek cfg root0 [{ name := "a/../b".toList, data := [7] }] fs0).1.lookup
    ["t".toList, "b".toList] = some (.file [7] 0o644) := by decide

/-- Clause 3 of `Consistent` is needed: the safe name "a/./" alone makes `create_dir_all` fail with
ENOENT (`mkdir("t/a/.")` → ENOENT, `Path::parent` = "t", which exists, `mkdir("t/a/.")` → ENOENT). -/
theorem create_dir_all_dot_fails :
    (enclosedName "a/./".toList).isSome = true ∧
    (extractSeek cfg root0 [{ name := "a/./".toList }] fs0).2 = some (.fs .notFound) := by decide

-- clause 4 is needed: a file and a directory at the same path
example : (extractSeek cfg root0 [{ name := "x".toList }, { name := "x/y".toList }] fs0).2
    = some (.fs .notADirectory) := by decide
/-! #### any permission bits, unprivileged caller (F2: these failed before the repair of the crate) -/

-- a read-only directory listed BEFORE the file inside it
private def roDir : List EntryView :=
  [{ name := "d/".toList, mode := some 0o40555 }, { name := "d/f".toList, data := [120] }]
-- a read-only file, then the same name again
private def roDup : List EntryView :=
  [{ name := "f".toList, data := [1], mode := some 0o100444 }, { name := "f".toList, data := [2] }]
-- an unsearchable directory before its contents, which carry modes; nested; the top repeated
private def locked : List EntryView :=
  [{ name := "a/".toList, mode := some 0o40000 }, { name := "a/b/".toList, mode := some 0o40700 },
   { name := "a/b/c".toList, data := [122], mode := some 0o100000 }, { name := "a/".toList, mode := some 0o40111 }]

example : PlainNames roDir ∧ PlainNames roDup ∧ PlainNames locked := by decide
example : Consistent cfg 0o755 roDir ∧ Consistent cfg 0o755 roDup ∧ Consistent cfg 0o755 locked := by decide
example : (extractSeek cfg root0 roDir fs0).2 = none := by decide
example : (extractSeek cfg root0 roDir fs0).1.lookup ["t".toList, "d".toList] = some (.dir 0o555) := by decide
example : (extractSeek cfg root0 roDir fs0).1.lookup ["t".toList, "d".toList, "f".toList]
    = some (.file [120] 0o644) := by decide
example : (extractSeek cfg root0 roDup fs0).2 = none := by decide
example : (extractSeek cfg root0 roDup fs0).1.lookup ["t".toList, "f".toList] = some (.file [2] 0o444) := by decide
example : (extractSeek cfg root0 locked fs0).2 = none := by decide
example : (extractSeek cfg root0 locked fs0).1.lookup ["t".toList, "a".toList] = some (.dir 0o111) := by decide
example : (extractSeek cfg root0 locked fs0).1.lookup ["t".toList, "a".toList, "b".toList, "c".toList]
    = some (.file [122] 0) := by decide
example : (extractStream cfg root0 locked (locked.map fun e => (e.name, e.mode)) fs0).2 = none := by decide

/-- Clause 5 (`Unlocked`) is needed for names with ".." or a final ".", whatever the order of
application: `chmod` takes a path, and these two paths are each walked through the other's directory. -/
theorem chmod_by_path_lockout :
    (extractSeek cfg root0 [{ name := "a/../b/".toList, mode := some 0o40000 },
      { name := "b/../a/".toList, mode := some 0o40000 }] fs0).2 = some (.fs .permissionDenied) ∧
    (extractSeek cfg root0 [{ name := "b/../a/".toList, mode := some 0o40000 },
      { name := "a/../b/".toList, mode := some 0o40000 }] fs0).2 = some (.fs .permissionDenied) := by decide

-- … and "./" with mode 000 followed by "./" again: looking up "." needs search permission
example : (extractSeek cfg root0 [{ name := "./".toList, mode := some 0o40000 },
    { name := "./".toList, mode := some 0o40755 }] fs0).2 = some (.fs .permissionDenied) := by decide
-- the superuser is never locked out
example : Consistent { cfg with priv := true } 0o755 [{ name := "a/../b/".toList, mode := some 0o40000 },
    { name := "b/../a/".toList, mode := some 0o40000 }] := by decide

end ZipVerif.Props.C07
