import ZipVerif.Lemmas.Zip64
import ZipVerif.Lemmas.MRun
/-
C08 — Archives beyond the 16/32-bit limits stay correct (ZIP64).
Record-level theorems over ALL `UInt64` values (no payload is materialised) and the writer's
4 GiB guard.  The archive-level round trip is C01/C03 instantiated at these records.
-/

namespace ZipVerif.Props.C08
open ZipVerif ZipVerif.Model

/-- A 32-bit size/offset field of the central header holds the value itself, or the marker
0xFFFFFFFF exactly when the value is ≥ 0xFFFFFFFF. -/
theorem field32_value_or_marker (x : UInt64) :
    (x < ZIP64_BYTES_THR → (min32 x).toUInt64 = x) ∧
    (x ≥ ZIP64_BYTES_THR → (min32 x).toUInt64 = ZIP64_BYTES_THR) := by
  constructor
  · intro h
    apply min32_toUInt64_of_lt
    intro hge
    have h1 := UInt64.lt_iff_toNat_lt.mp h
    have h2 := UInt64.le_iff_toNat_le.mp hge
    omega
  · exact min32_toUInt64_of_ge

/-- The writer emits a ZIP64 record in the central header exactly when one of the three values does
not fit below the marker, … -/
theorem zip64_record_iff (f : FileData) :
    centralZip64Bytes f ≠ [] ↔
      (f.uncompressedSize ≥ ZIP64_BYTES_THR ∨ f.compressedSize ≥ ZIP64_BYTES_THR ∨
        f.headerStart ≥ ZIP64_BYTES_THR) := by
  unfold centralZip64Bytes
  by_cases hu : f.uncompressedSize ≥ ZIP64_BYTES_THR <;>
  by_cases hc : f.compressedSize ≥ ZIP64_BYTES_THR <;>
  by_cases hh : f.headerStart ≥ ZIP64_BYTES_THR <;>
  simp [hu, hc, hh, le16]

/-- … and it is at most 28 bytes long (it is assembled in a 28-byte scratch buffer). -/
theorem zip64_record_length (f : FileData) : (centralZip64Bytes f).length ≤ 28 := by
  unfold centralZip64Bytes
  by_cases hu : f.uncompressedSize ≥ ZIP64_BYTES_THR <;>
  by_cases hc : f.compressedSize ≥ ZIP64_BYTES_THR <;>
  by_cases hh : f.headerStart ≥ ZIP64_BYTES_THR <;>
  simp [hu, hc, hh]

/-- **Central record round trip**: for every value of uncompressed size, compressed size and header
offset — every subset of fields needing ZIP64, values exactly 0xFFFFFFFF and either side — what the
reader's `parse_extra_field` recovers from (32-bit fields, ZIP64 record ++ further extra data) is
exactly what the writer was given.  (`f32 f`: the entry as reconstructed from the 32-bit fields;
`f64 f`: `f` with the reader's `large_file` marker.) -/
theorem central_zip64_rt (f : FileData) (rest : Bytes) (fuel : Nat) :
    parseExtraField (fuel + 1) (f32 f) (centralZip64Bytes f ++ rest) =
      if centralZip64Bytes f = [] then parseExtraField (fuel + 1) (f64 f) rest
      else parseExtraField fuel (f64 f) rest :=
  parse_central_zip64 f rest fuel

/-- With no further extra data the recovered entry carries exactly the written 64-bit values. -/
theorem central_zip64_values (f : FileData) :
    let r := (parseExtraField ((centralZip64Bytes f).length + 1) (f32 f) (centralZip64Bytes f)).1
    r.uncompressedSize = f.uncompressedSize ∧ r.compressedSize = f.compressedSize ∧
      r.headerStart = f.headerStart ∧ (parseExtraField ((centralZip64Bytes f).length + 1) (f32 f) (centralZip64Bytes f)).2 = none := by
  have h := parse_central_zip64 f [] (centralZip64Bytes f).length
  rw [List.append_nil] at h
  simp only []
  rw [h]
  split
  · simp [parseExtraField, f64]
  · cases hlen : (centralZip64Bytes f).length with
    | zero => simp [parseExtraField, f64]
    | succ n => simp [parseExtraField, f64]

/-- **Local header of a large file** (streaming reader): both sizes are stored as the marker and the
20-byte ZIP64 record carries both, in the order uncompressed, compressed. -/
theorem local_zip64_rt (f0 : FileData) (usize csize : UInt64) (rest : Bytes) (fuel : Nat)
    (hu : f0.uncompressedSize = ZIP64_BYTES_THR) (hc : f0.compressedSize = ZIP64_BYTES_THR)
    (hh : f0.headerStart = 0) :
    parseExtraField (fuel + 1) f0
      ((localZip64Chunks { f0 with uncompressedSize := usize, compressedSize := csize }).flatten ++ rest) =
    parseExtraField fuel
      { f0 with largeFile := true, uncompressedSize := usize, compressedSize := csize } rest := by
  have key := parse_zip64_record f0 true true false usize csize 0 rest fuel
    (by rw [hu]; decide) (by rw [hc]; decide) (by rw [hh]; decide)
  simp only [if_true, Bool.false_eq_true, if_false, List.append_nil, Bool.or_true,
    Nat.add_zero] at key
  have e : (localZip64Chunks { f0 with uncompressedSize := usize, compressedSize := csize }).flatten ++ rest
      = le16 1 ++ le16 (UInt16.ofNat (8 + 8)) ++ le64 usize ++ le64 csize ++ rest := by
    simp [localZip64Chunks, List.flatten]
  rw [e, key]

/-! ### The 4 GiB guard of entries not declared large -/

/-- Writing past 4 GiB into an entry not declared `large_file` fails, and closes the writer …
(for every device and every injected fault: the only other outcome is the device's own error). -/
theorem large_write_rejected (s : WState) (buf : Bytes) (f : FileData)
    (hw : s.writingToFile = true) (hi : s.inner = .storer none) (hx : s.writingToExtraField = false)
    (hf : s.files.getLast? = some f) (hl : f.largeFile = false) (hne : buf ≠ [])
    (hbig : s.statsBytes + buf.length > 0xFFFFFFFF) (fa : Option Nat) (d : Dev) :
    ∃ e s' d', writeData buf s fa d = (.ok (.error e, s'), d') ∧
      ((e = .io .other ∧ s'.inner = .closed) ∨ (e = .io d.fkind ∧ s' = s)) := by
  have hb : buf.isEmpty = false := by cases buf <;> simp_all
  have hbig' : decide (s.statsBytes + buf.length > 0xFFFFFFFF) = true := by simpa using hbig
  unfold writeData
  simp only [hb, hw, hi, hx, Bool.false_eq_true, if_false, Bool.not_true]
  rw [io_run, M.writeAll_run buf hne]
  by_cases hfa : fa = some d.calls
  · rw [if_pos hfa]
    exact ⟨_, _, _, rfl, Or.inr ⟨rfl, rfl⟩⟩
  · rw [if_neg hfa]
    simp only [hf, hl, hbig', Bool.not_false, Bool.and_self, if_true]
    exact ⟨_, _, _, rfl, Or.inl ⟨rfl, rfl⟩⟩

/-- … and a closed writer can never finish: `finish` (and every later call that reaches
`switch_to`) returns BrokenPipe. -/
theorem closed_writer_cannot_finish (ext : WExt) (s : WState) (hc : s.inner = .closed)
    (hx : s.writingToExtraField = false) (hlen : s.comment.length ≤ 65535)
    (fa : Option Nat) (d : Dev) :
    finish ext s fa d = (.ok (.error (.io .brokenPipe), s), d) := by
  have h1 : ¬ s.comment.length > 65535 := by omega
  unfold finish finalize finishFile switchTo
  simp [hc, hx, h1, Inner.currentCompression, bind, pure]

/-- The compressed size is guarded as well: an entry not declared large whose compressed size
exceeds 0xFFFFFFFF is refused when its header is to be back-patched — BEFORE the header is touched
(D19): no I/O call is made, the sink keeps its contents and stays positioned at the end of the entry,
for every fault index. -/
theorem compressed_overflow_rejected {β} (s : WState) (file : FileData)
    (k : Unit → M (Except ZErr β × WState))
    (hl : file.largeFile = false) (hbig : file.compressedSize > ZIP64_BYTES_THR) (fa : Option Nat) (d : Dev) :
    updateLocalHeader s file k fa d = (.ok (.error (.io .other), s), d) := by
  unfold updateLocalHeader
  simp only [hl, hbig, Bool.not_false, decide_true, Bool.and_self, if_true]
  rfl

/-! ### Non-vacuity and the boundary values -/

/-- exactly 0xFFFFFFFF next to a field that overflows (the case the pinned tree got wrong, D8):
the record now carries both fields -/
example : centralZip64Bytes { (default : FileData) with uncompressedSize := 0xFFFFFFFF, headerStart := 0x100000000 }
    = le16 1 ++ le16 16 ++ le64 0xFFFFFFFF ++ le64 0x100000000 := by decide

example : centralZip64Bytes { (default : FileData) with uncompressedSize := 0xFFFFFFFE } = [] := by decide

end ZipVerif.Props.C08
