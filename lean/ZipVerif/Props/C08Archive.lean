import ZipVerif.Props.C01
import ZipVerif.Props.C02
import ZipVerif.Props.C08
/-
C08 at ARCHIVE level — archives beyond the 16/32-bit limits stay correct.

`Props/C08.lean` is about single records (the ZIP64 extended-information record, the 32-bit slots, the
two size guards).  Here the same property is stated on whole archives, without materialising any payload:
everything is said about the layout `L = layoutOf es gap c []` that `C01.writer_emits_layout` proves the
sink to be, for arbitrary (possibly astronomically long) `es` and `data`.

(a) more than 0xFFFF entries, or a central directory size / offset above 0xFFFFFFFF: the ZIP64 end record
    and locator are present with the TRUE count / size / offset, the classic end record carries the
    saturated values, and the reader returns ALL entries;
(b) an entry whose uncompressed size, compressed size or local-header offset is ≥ 0xFFFFFFFF: its central
    record carries the ZIP64 record with exactly the needed fields in APPNOTE order, the reader reports
    the true 64-bit values and `by_index_raw` returns its stored bytes from the true offset; a
    `large_file` entry's local header has the 0xFFFFFFFF markers and the 16-byte local ZIP64 record;
(c) what cannot be represented is refused: the writer is poisoned / stuck and `finish` fails.

All statements are instances / compositions of C01, C02, C03, C08.
-/

namespace ZipVerif.Props.C08Archive
open ZipVerif ZipVerif.Model ZipVerif.Spec.Zip ZipVerif.WL
open ZipVerif.Props.C12 (Call step runCalls)

/-! ## (a) The end records of an archive over the limits -/

/-- "over a 16/32-bit limit of the end record" -/
def OverLimit (es : List Spec.Zip.Entry) (gap : Bytes) : Prop :=
  es.length > 0xFFFF ∨ (centralBytes es (localOffsets es 0)).length > 0xFFFFFFFF ∨
    (localsBytes es).length + gap.length > 0xFFFFFFFF

instance (es : List Spec.Zip.Entry) (gap : Bytes) : Decidable (OverLimit es gap) := by
  unfold OverLimit; infer_instance

/-- **ZIP64 end record and locator carry the TRUE values.**  Over a limit, the emitted layout has
`needs64`, and `end64` is the 56-byte ZIP64 end record (version 46/46, disk numbers 0) with the true
entry count (twice), central directory size and offset as 64-bit values, followed by the 20-byte locator
pointing at `offset + size` with 1 disk; the classic end record holds the saturated 16/32-bit values. -/
theorem zip64_end_true_values (es : List Spec.Zip.Entry) (gap c : Bytes) (h : OverLimit es gap) :
    let L := layoutOf es gap c []
    L.needs64 = true ∧
    L.end64 =
      le32 sigEocd64 ++ le64 44 ++ le16 46 ++ le16 46 ++ le32 0 ++ le32 0 ++
      le64 (UInt64.ofNat es.length) ++ le64 (UInt64.ofNat es.length) ++
      le64 (UInt64.ofNat (centralBytes es (localOffsets es 0)).length) ++
      le64 (UInt64.ofNat ((localsBytes es).length + gap.length)) ++
      le32 sigLocator ++ le32 0 ++
      le64 (UInt64.ofNat ((localsBytes es).length + gap.length + (centralBytes es (localOffsets es 0)).length)) ++
      le32 1 ∧
    L.eocd =
      le32 sigEocd ++ le16 0 ++ le16 0 ++
      le16 (if es.length > 0xFFFF then 0xFFFF else UInt16.ofNat es.length) ++
      le16 (if es.length > 0xFFFF then 0xFFFF else UInt16.ofNat es.length) ++
      le32 (if (centralBytes es (localOffsets es 0)).length > 0xFFFFFFFF then 0xFFFFFFFF
            else UInt32.ofNat (centralBytes es (localOffsets es 0)).length) ++
      le32 (if (localsBytes es).length + gap.length > 0xFFFFFFFF then 0xFFFFFFFF
            else UInt32.ofNat ((localsBytes es).length + gap.length)) ++
      le16 (UInt16.ofNat c.length) ++ c := by
  intro L
  have hn : L.needs64 = true := by
    have := (C02.zip64_end_iff_needed es gap c).mpr h
    cases hh : L.needs64 with
    | true => rfl
    | false => exact absurd (by simp [Layout.end64, L, hh] : (layoutOf es gap c []).end64 = []) this
  refine ⟨hn, ?_, C02.eocd_fields es gap c⟩
  unfold Layout.end64
  rw [hn]
  rfl

/-- … and below every limit there are no ZIP64 end records and the classic fields hold the true values. -/
theorem no_zip64_end_below (es : List Spec.Zip.Entry) (gap c : Bytes) (h : ¬ OverLimit es gap) :
    (layoutOf es gap c []).end64 = [] := by
  exact Classical.byContradiction fun hne => h ((C02.zip64_end_iff_needed es gap c).mp hne)

/-- **The reader returns ALL entries** of a layout over the limits (in particular more than 65535 of
them): `ZipArchive::new` follows the locator to the ZIP64 end record and takes the 64-bit count — the
statement a count clamped to 16 bits would break. -/
theorem over_limit_read_back (es : List Spec.Zip.Entry) (gap c : Bytes)
    (hF : (layoutOf es gap c []).Fits) (hR : (layoutOf es gap c []).Readable)
    (hS : C03.NoFalseSig (layoutOf es gap c [])) :
    ∃ d', openArchive.runPure (Dev.ofBytes (build (layoutOf es gap c []))) =
        (.ok (archiveOf (layoutOf es gap c [])), d') ∧
      (archiveOf (layoutOf es gap c [])).files = viewOf (layoutOf es gap c []) ∧
      (archiveOf (layoutOf es gap c [])).files.length = es.length := by
  obtain ⟨d', h1, _⟩ := C03.reader_on_wf _ hF hR hS (Or.inl rfl)
  exact ⟨d', h1, rfl, (C03.archive_fields _).2.2.2⟩

/-- **Archive level, end to end**: a fresh writer, any Level-1 script, `finish` returns `Ok`, and the
result is over a limit.  Then the sink is the layout with ZIP64 end records holding the true values, and
re-opening it yields exactly `es.length` entries, in order, one per origin. -/
theorem over_limit_roundtrip (ext : WExt) (calls : List Call) (hc : ∀ c ∈ calls, Level1R c)
    (ha : ∀ c ∈ calls, c.Admissible) (es : List Spec.Zip.Entry) (gap c : Bytes)
    (hg : (C01.finalGhost ext calls).close ext = some (es, gap, c))
    (v : Option Nat) (s' : WState) (d' : Dev)
    (hfin : step ext .finish (runCalls ext calls WState.init none (Dev.ofBytes [])).2.1 none
      (runCalls ext calls WState.init none (Dev.ofBytes [])).2.2 = (.ok (.ok v, s'), d'))
    (hS : C03.NoFalseSig (layoutOf es gap c []))
    (hsize : (build (layoutOf es gap c [])).length < 2 ^ 63)
    (hu : ∀ e ∈ es, e.usize.toNat < 2 ^ 63) (hbig : OverLimit es gap) :
    d'.buf = build (layoutOf es gap c []) ∧ (layoutOf es gap c []).needs64 = true ∧
    Forall2 (OriginRel ext) (C01.finalOrigins ext calls) es ∧
    ∃ d1, openArchive.runPure (Dev.ofBytes d'.buf) = (.ok (archiveOf (layoutOf es gap c [])), d1) ∧
      (archiveOf (layoutOf es gap c [])).files = viewOf (layoutOf es gap c []) ∧
      (archiveOf (layoutOf es gap c [])).files.length = es.length := by
  obtain ⟨h1, _, _, h4, d1, h5, _, _, _, h9, h10⟩ :=
    C01.write_read_roundtrip ext calls hc ha es gap c hg v s' d' hfin hS hsize hu
  exact ⟨h1, (zip64_end_true_values es gap c hbig).1, h4, d1, h5, h9, h10⟩

/-! ## (b) Entries beyond 32 bits -/

/-- Every entry the writer emits puts into the central ZIP64 record exactly the fields that do not fit
(nothing is forced): `z64 = (false, false, false)`. -/
theorem emitted_z64 (f : FileData) (dp : UInt16) (gap lx data : Bytes) (lv : UInt16) :
    (specEntry f dp gap lx data lv).z64 = (false, false, false) := rfl

/-- **The central ZIP64 extended-information record: exactly the needed fields, in APPNOTE order**
(uncompressed size, compressed size, local-header offset), with the length of what follows; the three
32-bit slots of the central header hold 0xFFFFFFFF exactly for those fields and the value otherwise. -/
theorem central_zip64_exact (e : Spec.Zip.Entry) (hz : e.z64 = (false, false, false)) (off : UInt64) :
    let u := decide (e.usize ≥ 0xFFFFFFFF); let c := decide (e.csize ≥ 0xFFFFFFFF)
    let o := decide (off ≥ 0xFFFFFFFF)
    let n : Nat := (if u then 8 else 0) + (if c then 8 else 0) + (if o then 8 else 0)
    e.zU = u ∧ e.zC = c ∧ e.zO off = o ∧
    e.centralZ64 off =
      (if n = 0 then [] else
        le16 1 ++ le16 (UInt16.ofNat n) ++ (if u then le64 e.usize else []) ++
        (if c then le64 e.csize else []) ++ (if o then le64 off else [])) ∧
    (e.centralExtraAll off = e.centralZ64 off ++ e.centralExtra) := by
  intro u c o n
  have h1 : e.zU = u := by simp [Entry.zU, hz, u]
  have h2 : e.zC = c := by simp [Entry.zC, hz, c]
  have h3 : e.zO off = o := by simp [Entry.zO, hz, o]
  refine ⟨h1, h2, h3, ?_, rfl⟩
  unfold Entry.centralZ64
  rw [h1, h2, h3]

/-- where the slots and the record sit in the central header: `Spec.Zip.centralRecord_eq` -/
theorem central_record_layout (e : Spec.Zip.Entry) (off : UInt64) :
    centralRecord e off =
      le32 sigCentral ++ (le16 e.madeBy ++ (le16 e.versionNeeded ++ (le16 e.flagsOut ++ (le16 e.method ++
      (le16 e.time ++ (le16 e.date ++ (le32 e.crc ++
      (le32 (if e.zC then 0xFFFFFFFF else lo32 e.csize) ++
      (le32 (if e.zU then 0xFFFFFFFF else lo32 e.usize) ++
      (le16 (UInt16.ofNat e.name.length) ++ (le16 (UInt16.ofNat (e.centralExtraAll off).length) ++
      (le16 (UInt16.ofNat e.comment.length) ++ (le16 0 ++ (le16 e.internalAttrs ++ (le32 e.externalAttrs ++
      (le32 (if e.zO off then 0xFFFFFFFF else lo32 off) ++
      (e.name ++ (e.centralExtraAll off ++ e.comment)))))))))))))))))) :=
  centralRecord_eq e off

/-- **A `large_file` entry's local header**: both 32-bit size slots hold 0xFFFFFFFF and the extra field is
the 20-byte local ZIP64 record: id 1, length 16, uncompressed size, compressed size — in that order. -/
theorem large_file_local_header (f : FileData) (dp : UInt16) (gap data : Bytes) (lv : UInt16)
    (hl : f.largeFile = true) :
    localRecord (specEntry f dp gap [] data lv) =
      le32 sigLocal ++ le16 lv ++ le16 (flagOf f) ++ le16 f.method.toU16 ++ le16 f.time.timepart ++ le16 dp ++
      le32 f.crc32 ++ le32 0xFFFFFFFF ++ le32 0xFFFFFFFF ++
      le16 (UInt16.ofNat f.fileName.length) ++ le16 20 ++ f.fileName ++
      (le16 1 ++ le16 16 ++ le64 f.uncompressedSize ++ le64 (UInt64.ofNat data.length)) := by
  unfold localRecord specEntry
  have hd : (Desc.none != Desc.none) = false := by decide
  simp only [Entry.hasDesc, Entry.flagsOut, Entry.csize, hd, hl, Bool.false_eq_true, if_false, if_true,
    Option.getD_some, List.append_nil]
  simp only [List.append_assoc]
  rfl

/-- … and an entry not declared large has the two values in the slots and no local ZIP64 record. -/
theorem small_file_local_header (f : FileData) (dp : UInt16) (gap data : Bytes) (lv : UInt16)
    (hl : f.largeFile = false) :
    localRecord (specEntry f dp gap [] data lv) =
      le32 sigLocal ++ le16 lv ++ le16 (flagOf f) ++ le16 f.method.toU16 ++ le16 f.time.timepart ++ le16 dp ++
      le32 f.crc32 ++ le32 (lo32 (UInt64.ofNat data.length)) ++ le32 (lo32 f.uncompressedSize) ++
      le16 (UInt16.ofNat f.fileName.length) ++ le16 0 ++ f.fileName := by
  unfold localRecord specEntry
  have hd : (Desc.none != Desc.none) = false := by decide
  simp only [Entry.hasDesc, Entry.flagsOut, Entry.csize, hd, hl, Bool.false_eq_true, if_false,
    Option.getD_some, List.append_nil]
  simp only [List.append_assoc]
  rfl

/-- **Reading a ≥ 4 GiB entry back**: entry `i` of the emitted archive — whatever its sizes and offset —
is reported with the TRUE 64-bit uncompressed size, compressed size (= number of stored bytes) and
local-header offset, `large_file` set exactly when a size went through the ZIP64 record, and
`by_index_raw(i)` returns exactly its stored bytes, found at the true offset. -/
theorem big_entry_read_back (es : List Spec.Zip.Entry) (gap c : Bytes)
    (hF : (layoutOf es gap c []).Fits) (i : Nat) (e : Spec.Zip.Entry) (he : es[i]? = some e)
    (d : Dev) (hd : d.buf = build (layoutOf es gap c [])) :
    ∃ off chs d', (localOffsets es 0)[i]? = some off ∧
      (archiveOf (layoutOf es gap c [])).files[i]? = some (viewEntry e off 0 chs) ∧
      (viewEntry e off 0 chs).uncompressedSize = e.usize ∧
      (viewEntry e off 0 chs).compressedSize = UInt64.ofNat e.data.length ∧
      (viewEntry e off 0 chs).headerStart = UInt64.ofNat off ∧
      (viewEntry e off 0 chs).largeFile = (e.zU || e.zC) ∧
      (byIndexRaw (archiveOf (layoutOf es gap c [])) i).runPure d = (.ok (e.dataStart off 0, e.data), d') ∧
      e.dataStart off 0 = off + 30 + e.name.length + e.localExtraAll.length := by
  obtain ⟨off, chs, h1, h2⟩ := C03.entry_view (layoutOf es gap c []) i e he
  obtain ⟨off', d', h1', h3, _⟩ := C03.reader_entry_raw (layoutOf es gap c []) hF i e he d hd
  have : off' = off := by rw [h1] at h1'; cases h1'; rfl
  subst this
  refine ⟨off', chs, d', h1, h2, rfl, rfl, rfl, rfl, h3, ?_⟩
  simp [Entry.dataStart]

/-! ## (c) What cannot be represented is refused -/

/-- **The 4 GiB plaintext guard, on the archive.**  A `write` that would take an entry not declared
`large_file` past 0xFFFFFFFF plaintext bytes fails and closes the writer (`C08.large_write_rejected`);
the expected archive becomes `dead` … -/
theorem failed_write_poisons (ext : WExt) (D : List Spec.Zip.Entry) (gap c : Bytes) (o : OpenRec)
    (hwf : o.wf = true) (b : Bytes) (e : ZErr) :
    ghostStep ext (.opened D gap c o) (.write b) (.err e) = .dead := by
  show Ghost.writeStep b false (.opened D gap c o) = .dead
  simp [Ghost.writeStep, hwf]

/-- … and a poisoned writer cannot produce an archive: `finish` returns an error without any I/O. -/
theorem poisoned_cannot_finish (ext : WExt) (calls : List Call) (hc : ∀ c ∈ calls, Level1 c)
    (ha : ∀ c ∈ calls, c.Admissible) (hg : C01.finalGhost ext calls = .dead) :
    ∃ e, finish ext (runCalls ext calls WState.init none (Dev.ofBytes [])).2.1 =
      pure (.error e, (runCalls ext calls WState.init none (Dev.ofBytes [])).2.1) :=
  C01.dead_finish_fails ext calls hc ha 0 _ _ _ inv_init lay_init_empty hg

/-- **The compressed-size guard, on the archive.**  An entry not declared `large_file` whose STORED bytes
exceed 0xFFFFFFFF cannot be closed (`C08.compressed_overflow_rejected`: refused before the header is
touched); the writer is stuck and every `finish` — directly on the open entry, or later — fails. -/
theorem oversized_entry_cannot_finish (ext : WExt) (calls : List Call) (hc : ∀ c ∈ calls, Level1 c)
    (ha : ∀ c ∈ calls, c.Admissible) (ss n : Nat) (wf : Bool)
    (hg : C01.finalGhost ext calls = .stuck ss n wf ∨
      (C01.finalGhost ext calls).stuckAt ext = some (ss, n, wf))
    (rs : Except ZErr Unit × WState) (d' : Dev)
    (hfin : finish ext (runCalls ext calls WState.init none (Dev.ofBytes [])).2.1 none
      (runCalls ext calls WState.init none (Dev.ofBytes [])).2.2 = (.ok rs, d')) :
    ∃ e, rs.1 = .error e := by
  rcases hg with hg | hg
  · exact C01.stuck_finish_fails ext calls hc ha 0 _ _ _ inv_init lay_init_empty ss n wf hg rs d' hfin
  · exact C01.overflow_finish_fails ext calls hc ha 0 _ _ _ inv_init lay_init_empty ss n wf hg rs d' hfin

/-- When the ghost refuses to close an entry: not `large_file`, and more than 0xFFFFFFFF stored bytes (or
plaintext bytes).  An entry declared `large_file` is never refused for its size. -/
theorem close_refused_iff (ext : WExt) (D : List Spec.Zip.Entry) (gap : Bytes) (o : OpenRec) (dp : UInt16)
    (hdp : o.f.time.datepart = some dp) (hraw : o.raw = false) :
    closeRec ext D gap o = none ↔
      (o.f.largeFile = false ∧ (UInt64.ofNat (dataOf ext o.f o.plain).length > ZIP64_BYTES_THR ∨
        o.plain.length > 0xFFFFFFFF)) := by
  unfold closeRec
  rw [hdp]
  simp only [hraw, Bool.false_eq_true, if_false]
  split <;> simp_all

/-! ## Non-vacuity -/

/-- 65536 entries are over the limit, whatever they are — no payload is materialised. -/
example (e : Spec.Zip.Entry) (gap : Bytes) : OverLimit (List.replicate 65536 e) gap :=
  Or.inl (by rw [List.length_replicate]; decide)

/-- the end records of such an archive: `needs64`, true count 65536 in the ZIP64 record, 0xFFFF in the
classic one -/
example (e : Spec.Zip.Entry) :
    (layoutOf (List.replicate 65536 e) [] [] []).needs64 = true ∧
    ((layoutOf (List.replicate 65536 e) [] [] []).end64.drop 24).take 8 = le64 65536 ∧
    ((layoutOf (List.replicate 65536 e) [] [] []).eocd.drop 8).take 4 = [0xFF, 0xFF, 0xFF, 0xFF] := by
  obtain ⟨h1, h2, h3⟩ := zip64_end_true_values (List.replicate 65536 e) [] []
    (Or.inl (by rw [List.length_replicate]; decide))
  refine ⟨h1, ?_, ?_⟩
  · rw [h2, List.length_replicate]; rfl
  · rw [h3, List.length_replicate]; rfl

/-- an entry claiming 4 GiB + 1 of content at offset 5 GiB: the ZIP64 record carries exactly (uncompressed
size, offset), in that order; the compressed size (5) stays in its 32-bit slot -/
example :
    let e : Spec.Zip.Entry := { C03.exA with usize := 0x100000001 }
    e.centralZ64 0x140000000 = le16 1 ++ le16 16 ++ le64 0x100000001 ++ le64 0x140000000 ∧
    ((centralRecord e 0x140000000).drop 20).take 8 = le32 5 ++ le32 0xFFFFFFFF ∧
    ((centralRecord e 0x140000000).drop 42).take 4 = le32 0xFFFFFFFF := by decide +kernel

/-- the local header of a `large_file` record -/
example :
    let f : FileData := { (default : FileData) with largeFile := true, uncompressedSize := 7, fileName := [0x61] }
    (localRecord (specEntry f 0x21 [] [] [1, 2, 3] 45)).drop 18 =
      le32 0xFFFFFFFF ++ le32 0xFFFFFFFF ++ le16 1 ++ le16 20 ++ [0x61] ++
        (le16 1 ++ le16 16 ++ le64 7 ++ le64 3) := by decide +kernel

end ZipVerif.Props.C08Archive
