import ZipVerif.Lemmas.Layers
import ZipVerif.Lemmas.EntryBridge
import ZipVerif.Lemmas.EntryBridgeCrypto
import ZipVerif.Lemmas.EntryBridgeAes
import ZipVerif.Lemmas.ShortRead
/-
C09 — Results do not depend on how I/O is chunked.
Property theorems only; helper lemmas are in `Lemmas/Layers.lean`, the model in `Model/Layers.lean`.

Reading: `Denotes src s B o` is the schedule-free meaning of a reader ("delivers exactly `B`, then
ends with `o`, for every sequence of caller buffer sizes, zeros included"); every short-read
behaviour is some source, so a theorem `∀ inner, Denotes inner … → Denotes (layer inner) …` covers
every fragmentation of the underlying reads. `denotes_readToEnd` turns a denotation into the
observable statement about read loops.
-/

namespace ZipVerif.Props.C09
open ZipVerif ZipVerif.Spec ZipVerif.Model.Layers

variable {σ κ ω : Type}

/-! ## Reader layers -/

/-- `std::io::Take`: delivers the first `lim` bytes; ends cleanly at the limit, otherwise as the
inner reader ends. -/
theorem take_denotes (inner : Src σ) {s : σ} {B : Bytes} {o : Term} (lim : Nat)
    (h : Denotes inner s B o) :
    Denotes (take inner) (s, lim) (B.take lim) (takeTerm lim B o) :=
  Model.Layers.take_denotes inner lim h

/-- `Crc32Reader` needs its inner reader to behave on non-empty requests only (zero-length reads
are answered without consulting it). -/
theorem crc_denotes_nz (inner : Src σ) (check : UInt32) (ae2 : Bool) {s : σ} {B : Bytes} {o : Term}
    (h : Denotes (guardZero inner) s B o) :
    Denotes (crcLayer inner check ae2) (s, Crc32.init) B (crcTerm check ae2 B o) :=
  Model.Layers.crc_denotes_nz inner check ae2 h

/-- `Crc32Reader`: delivers the same bytes; a clean end becomes `Err("Invalid checksum")` exactly
when the CRC-32 of everything delivered differs from the declared one and the entry is not AE-2. -/
theorem crc_denotes (inner : Src σ) (check : UInt32) (ae2 : Bool) {s : σ} {B : Bytes} {o : Term}
    (h : Denotes inner s B o) :
    Denotes (crcLayer inner check ae2) (s, Crc32.init) B (crcTerm check ae2 B o) :=
  Model.Layers.crc_denotes inner check ae2 h

/-- Any count-preserving per-byte stateful transform (the AES-CTR layer instantiates this):
delivers the transform of the whole stream, same end. -/
theorem map_layer_denotes (f : κ → UInt8 → UInt8 × κ) (inner : Src σ) (k : κ) {s : σ} {B : Bytes}
    {o : Term} (h : Denotes inner s B o) :
    Denotes (statefulMapLayer f inner) (s, k) (mapBytes f k B) o :=
  Model.Layers.map_layer_denotes f inner k h

/-- The transform itself is chunk independent (`crypt (a ++ b) = crypt a ; crypt b` with the state
carried over). -/
theorem map_chunk_independent (f : κ → UInt8 → UInt8 × κ) (k : κ) (xs ys : Bytes) :
    mapBytes f k (xs ++ ys) = mapBytes f k xs ++ mapBytes f (mapKey f k xs) ys :=
  mapBytes_append f k xs ys

/-- `ZipCryptoReaderValid` (current code): delivers the decryption of the whole stream. -/
theorem zipcrypto_denotes (dec : κ → UInt8 → UInt8 × κ) (inner : Src σ) (k : κ) {s : σ}
    {B : Bytes} {o : Term} (h : Denotes inner s B o) :
    Denotes (zipCryptoLayer dec inner) (s, k) (mapBytes dec k B) o :=
  Model.Layers.map_layer_denotes dec inner k h

/-- `ZipCryptoReader::validate`: acceptance of the password and the reader it yields depend only on
the stream's bytes. -/
theorem zipcrypto_validate_schedule_independent (dec : κ → UInt8 → UInt8 × κ) (inner : Src σ)
    {s : σ} {B : Bytes} {o : Term} (k : κ) (expect : UInt8) (h : Denotes inner s B o) :
    (12 ≤ B.length → (mapBytes dec k (B.take 12))[11]? = some expect →
      ∃ s', zcValidate dec inner s k expect = .valid (s', mapKey dec k (B.take 12)) ∧
        Denotes (zipCryptoLayer dec inner) (s', mapKey dec k (B.take 12))
          (mapBytes dec (mapKey dec k (B.take 12)) (B.drop 12)) o) ∧
    (12 ≤ B.length → (mapBytes dec k (B.take 12))[11]? ≠ some expect →
      zcValidate dec inner s k expect = .wrongPassword) ∧
    (B.length < 12 → zcValidate dec inner s k expect = .err (exactErr o)) :=
  zcValidate_denotes dec inner k expect h

/-- Stored entries have no decoder: the codec hypothesis is a theorem for them. -/
theorem stored_codec_chunk_independent : storedCodec.ChunkIndependent :=
  ⟨fun _ _ _ _ h => h⟩

/-! ## Pipelines -/

/-! ### Compressed methods: what is asked of the external decoders

CHANGED (review finding F3).  `pipeline_denotes_codec` / `pipeline_denotes_zipcrypto` used to take
`Codec.ChunkIndependentNZ` - chunk independence of the decoder on EVERY compressed stream, damaged ones
included - which flate2 / bzip2 / zstd do not satisfy (on damaged input the point where they notice
depends on the buffer sizes; `picky_codec_separates` below is a model decoder of that kind).  The
"all methods" clause was therefore proved from a hypothesis no real decoder meets.  Now:

* `pipeline_denotes_codec` needs chunk independence on THE ONE stream the entry holds
  (`Codec.ChunkIndependentOn`, implied by the old hypothesis, so nothing is lost);
* `pipeline_denotes_intact` instantiates it for archives whose stored bytes are an encoder's output,
  under `Codec.IntactOK` - chunk independence of decoding WELL-FORMED streams, the only thing assumed
  about flate2 / bzip2 / zstd;
* for damaged compressed streams schedule independence is NOT claimed (it is false for the real
  decoders: the error may come earlier or later, zstd may even end cleanly with fewer bytes); what
  holds for them under every schedule is C04 (`entry_read_sound_any_method`,
  `damage_detected_unless_collision`). -/

/-- **Entry pipeline, any method.** Whatever reader holds the archive bytes `A` from the entry's data
start (any short-read behaviour), if the decoder is chunk independent on the entry's compressed
stream `A.take csize` (for NON-EMPTY requests: `Crc32Reader` answers zero-length reads itself), the
entry reader `Crc32Reader(decoder(Take(csize)))` delivers the decoding of that stream and ends with
the CRC verdict - for every schedule of caller buffers, zeros included. -/
theorem pipeline_denotes_codec (c : Codec) (inner : Src σ) {s : σ} {A : Bytes} {o : Term}
    (csize : Nat) (hc : c.ChunkIndependentOn (A.take csize) (takeTerm csize A o))
    (check : UInt32) (ae2 : Bool) (h : Denotes inner s A o) :
    Denotes (entryPipeline c inner check ae2) (c.init (s, csize), Crc32.init)
      (c.decode (A.take csize) (takeTerm csize A o)).1
      (crcTerm check ae2 (c.decode (A.take csize) (takeTerm csize A o)).1
        (c.decode (A.take csize) (takeTerm csize A o)).2) :=
  Model.Layers.crc_denotes_nz _ check ae2 (hc _ _ (Model.Layers.take_denotes inner csize h))

/-- **Intact entries, any method, modulo `Codec.IntactOK`.** The archive holds, from the entry's data
start, at least `csize` bytes and the first `csize` are what the encoder made of the payload `p`:
under every short-read behaviour of the archive reader and every schedule of caller buffers the entry
reader delivers exactly `p` and ends with the CRC verdict on `p`. -/
theorem pipeline_denotes_intact (c : Codec) (encode : Bytes → Bytes) (hc : c.IntactOK encode)
    (inner : Src σ) {s : σ} {A : Bytes} {o : Term} (csize : Nat) (check : UInt32) (ae2 : Bool)
    (p : Bytes) (h : Denotes inner s A o) (hA : A.take csize = encode p) (hlen : csize ≤ A.length) :
    Denotes (entryPipeline c inner check ae2) (c.init (s, csize), Crc32.init) p
      (crcTerm check ae2 p .eof) := by
  have ht : takeTerm csize A o = .eof := by simp only [takeTerm, hlen, if_true]
  have h1 := pipeline_denotes_codec c inner csize (by rw [ht, hA]; exact hc.chunk p) check ae2 h
  rw [ht, hA, hc.roundtrip p] at h1
  exact h1

/-- … with the right CRC in the central record: every read loop returns the payload and a clean
end-of-file, and two loops (different fragmentation below, different buffers above) agree. -/
theorem intact_entry_reads_payload (c : Codec) (encode : Bytes → Bytes) (hc : c.IntactOK encode)
    (inner : Src σ) {s : σ} {A : Bytes} {o : Term} (csize : Nat) (ae2 : Bool) (p : Bytes)
    (h : Denotes inner s A o) (hA : A.take csize = encode p) (hlen : csize ≤ A.length)
    {reqs : List Nat} {b : Bytes} {t : Term} {e : c.St (σ × Nat) × UInt32}
    (hr : readToEnd (entryPipeline c inner (Crc32.crc32 p) ae2) (c.init (s, csize), Crc32.init) reqs
      = some (b, t, e)) :
    b = p ∧ t = .eof := by
  have hd := pipeline_denotes_intact c encode hc inner csize (Crc32.crc32 p) ae2 p h hA hlen
  have ht : crcTerm (Crc32.crc32 p) ae2 p .eof = .eof := by simp [crcTerm]
  rw [ht] at hd
  obtain ⟨h1, h2, _⟩ := denotes_readToEnd hd hr
  exact ⟨h1, h2⟩

/-- The all-streams hypotheses imply the per-stream one (so the old statements follow from the new). -/
theorem codec_on_of_nz (c : Codec) (hc : c.ChunkIndependentNZ) (C : Bytes) (o : Term) :
    c.ChunkIndependentOn C o :=
  hc.on C o

/-- **The per-stream hypothesis is strictly weaker, and the difference is exactly the real decoders'
behaviour**: `pickyCodec` (rejects a whole chunk that contains a byte outside its format, so the
number of bytes delivered before the error depends on the chunking) is chunk independent on every
stream inside its format and violates the all-streams hypothesis. -/
theorem picky_codec_separates :
    (∀ C o, C.all (· < 0x80) = true → pickyCodec.ChunkIndependentOn C o) ∧
      ¬ pickyCodec.ChunkIndependentNZ :=
  ⟨fun _ o hC => pickyCodec_on_intact hC o, pickyCodec_not_chunk_independent⟩

/-- **Defect D12 (fixed by 80de80b): before the fix a zero-length read reached the decoder.** With a
decoder that fails zero-length reads while output is outstanding - the observed behaviour of the
zstd 0.11 decoder - the pre-fix entry reader is NOT schedule independent: the same one-byte entry
reads fine with buffers `[4096, 4096]` and fails with `[0, 4096]` … -/
theorem crc_prefix_zero_len_read_breaks_zstd_entry :
    ∃ (st : Scripted) (check : UInt32) (r₁ r₂ : List Nat),
      (readToEnd (crcLayerPreFix zeroLenErrScripted check false) (st, Crc32.init) r₁).map
          (fun r => (r.1, r.2.1)) = some ([0xc0], Term.eof) ∧
      (readToEnd (crcLayerPreFix zeroLenErrScripted check false) (st, Crc32.init) r₂).map
          (fun r => (r.1, r.2.1)) = some ([], Term.err .other) :=
  ⟨⟨[0xc0], [], [], none⟩, Crc32.crc32 [0xc0], [4096, 4096], [0, 4096], by decide +kernel,
    by decide +kernel⟩

/-- … while the current reader gives the same result for both schedules. -/
example :
    (readToEnd (crcLayer zeroLenErrScripted (Crc32.crc32 [0xc0]) false)
        ((⟨[0xc0], [], [], none⟩ : Scripted), Crc32.init) [0, 4096, 0, 4096]).map
          (fun r => (r.1, r.2.1)) = some ([0xc0], Term.eof) := by
  decide +kernel

/-- **Stored entries, no assumption.** -/
theorem pipeline_denotes_stored (inner : Src σ) {s : σ} {A : Bytes} {o : Term} (csize : Nat)
    (check : UInt32) (ae2 : Bool) (h : Denotes inner s A o) :
    Denotes (entryPipeline storedCodec inner check ae2) ((s, csize), Crc32.init)
      (A.take csize) (crcTerm check ae2 (A.take csize) (takeTerm csize A o)) :=
  pipeline_denotes_codec storedCodec inner csize (storedCodec_on _ _) check ae2 h

/-- ZipCrypto entries (after validation), any method: as `pipeline_denotes_codec`, the compressed
stream being the decryption of the first `lim` bytes. -/
theorem pipeline_denotes_zipcrypto (c : Codec) (dec : κ → UInt8 → UInt8 × κ) (inner : Src σ) {s : σ}
    {A : Bytes} {o : Term} (lim : Nat) (k : κ)
    (hc : c.ChunkIndependentOn (mapBytes dec k (A.take lim)) (takeTerm lim A o))
    (check : UInt32) (h : Denotes inner s A o) :
    Denotes (entryPipelineZc c dec inner check) (c.init ((s, lim), k), Crc32.init)
      (c.decode (mapBytes dec k (A.take lim)) (takeTerm lim A o)).1
      (crcTerm check false (c.decode (mapBytes dec k (A.take lim)) (takeTerm lim A o)).1
        (c.decode (mapBytes dec k (A.take lim)) (takeTerm lim A o)).2) :=
  Model.Layers.crc_denotes_nz _ check false
    (hc _ _ (Model.Layers.map_layer_denotes dec _ k (Model.Layers.take_denotes inner lim h)))

/-- Intact ZipCrypto entries, any method, modulo `Codec.IntactOK`: the decryption of the stored bytes
is the encoder's output for `p`. -/
theorem pipeline_denotes_zipcrypto_intact (c : Codec) (encode : Bytes → Bytes)
    (hc : c.IntactOK encode) (dec : κ → UInt8 → UInt8 × κ) (inner : Src σ) {s : σ} {A : Bytes}
    {o : Term} (lim : Nat) (k : κ) (check : UInt32) (p : Bytes) (h : Denotes inner s A o)
    (hA : mapBytes dec k (A.take lim) = encode p) (hlen : lim ≤ A.length) :
    Denotes (entryPipelineZc c dec inner check) (c.init ((s, lim), k), Crc32.init) p
      (crcTerm check false p .eof) := by
  have ht : takeTerm lim A o = .eof := by simp only [takeTerm, hlen, if_true]
  have h1 := pipeline_denotes_zipcrypto c dec inner lim k (by rw [ht, hA]; exact hc.chunk p) check h
  rw [ht, hA, hc.roundtrip p] at h1
  exact h1

/-- Stored + ZipCrypto, no assumption. -/
theorem pipeline_denotes_stored_zipcrypto (dec : κ → UInt8 → UInt8 × κ) (inner : Src σ) {s : σ}
    {A : Bytes} {o : Term} (lim : Nat) (k : κ) (check : UInt32) (h : Denotes inner s A o) :
    Denotes (entryPipelineZc storedCodec dec inner check) (((s, lim), k), Crc32.init)
      (mapBytes dec k (A.take lim))
      (crcTerm check false (mapBytes dec k (A.take lim)) (takeTerm lim A o)) :=
  pipeline_denotes_zipcrypto storedCodec dec inner lim k (storedCodec_on _ _) check h

/-! ## From denotations to what a caller observes -/

/-- **Schedule independence, observable form.** Two readers with the same denotation - e.g. the same
pipeline over two underlying readers that fragment their reads differently - driven by two arbitrary
lists of buffer sizes (zeros allowed): whenever both read-to-end loops finish they have returned the
same bytes and ended the same way. -/
theorem read_loops_agree {σ₁ σ₂ : Type} {src₁ : Src σ₁} {src₂ : Src σ₂} {s₁ : σ₁} {s₂ : σ₂}
    {B : Bytes} {o : Term} (h₁ : Denotes src₁ s₁ B o) (h₂ : Denotes src₂ s₂ B o)
    {reqs₁ reqs₂ : List Nat} {b₁ b₂ : Bytes} {t₁ t₂ : Term} {e₁ : σ₁} {e₂ : σ₂}
    (r₁ : readToEnd src₁ s₁ reqs₁ = some (b₁, t₁, e₁))
    (r₂ : readToEnd src₂ s₂ reqs₂ = some (b₂, t₂, e₂)) :
    b₁ = b₂ ∧ t₁ = t₂ := by
  obtain ⟨hb1, ht1, _⟩ := denotes_readToEnd h₁ r₁
  obtain ⟨hb2, ht2, _⟩ := denotes_readToEnd h₂ r₂
  exact ⟨hb1.trans hb2.symm, ht1.trans ht2.symm⟩

/-- A read loop returns exactly the denotation. -/
theorem read_loop_returns_denotation {src : Src σ} {s : σ} {B : Bytes} {o : Term}
    (h : Denotes src s B o) {reqs : List Nat} {b : Bytes} {t : Term} {s' : σ}
    (hr : readToEnd src s reqs = some (b, t, s')) :
    b = B ∧ t = o ∧ (t = .eof → Denotes src s' [] .eof) :=
  denotes_readToEnd h hr

/-- The loop does finish: more than `B.length` non-empty buffers suffice, however many zero-length
reads are interleaved. -/
theorem read_loop_terminates {src : Src σ} {s : σ} {B : Bytes} {o : Term} (h : Denotes src s B o)
    {reqs : List Nat} (hn : B.length < nonzero reqs) : (readToEnd src s reqs).isSome = true :=
  denotes_readToEnd_terminates h hn

/-- After end-of-file every further read, of any size, returns 0 bytes - forever. -/
theorem eof_sticky {src : Src σ} {s : σ} (h : Denotes src s [] .eof) (reqs : List Nat) :
    ∀ r ∈ (run src s reqs).1, r = .ok [] :=
  eof_sticky_run h reqs

/-- Metadata is read with `read_exact`: over any short-read behaviour it returns the same `n` bytes
and leaves the rest of the stream, or fails with `UnexpectedEof` (or the stream's own error). -/
theorem read_exact_schedule_independent {src : Src σ} {o : Term} {s : σ} {B : Bytes}
    (h : Denotes src s B o) (n : Nat) :
    (n ≤ B.length → ∃ s', readExact src s n = (.ok (B.take n), s') ∧ Denotes src s' (B.drop n) o) ∧
    (B.length < n → ∃ s', readExact src s n = (.err (exactErr o), s')) :=
  readExact_denotes h n

/-- Two readers holding the same bytes give the same `read_exact` result. -/
theorem read_exact_agree {σ₁ σ₂ : Type} {src₁ : Src σ₁} {src₂ : Src σ₂} {s₁ : σ₁} {s₂ : σ₂}
    {B : Bytes} {o : Term} (h₁ : Denotes src₁ s₁ B o) (h₂ : Denotes src₂ s₂ B o) (n : Nat) :
    (readExact src₁ s₁ n).1 = (readExact src₂ s₂ n).1 := by
  by_cases hn : n ≤ B.length
  · obtain ⟨_, e1, _⟩ := (readExact_denotes h₁ n).1 hn
    obtain ⟨_, e2, _⟩ := (readExact_denotes h₂ n).1 hn
    rw [e1, e2]
  · obtain ⟨_, e1⟩ := (readExact_denotes h₁ n).2 (by omega)
    obtain ⟨_, e2⟩ := (readExact_denotes h₂ n).2 (by omega)
    rw [e1, e2]

/-! ## Archive level: the entries `by_index` / the streaming reader hand out (finding F9)

`Lemmas/EntryBridge.lean` connects the call-by-call layer model with the reader model
(`Model/Reader.lean`: `byIndexRead`, `streamEntry`), so the pipeline theorems apply to every entry of
every byte string `ZipArchive::new` accepts, with the parameters `by_index` takes from the parsed
central record. -/

/-- **Bytes of an entry do not depend on chunking - seekable reader, every accepted byte string.**
`by_index` hands out unencrypted entry `i` with read-to-end result `res`; `c` is the decoder `ext`
summarises on this entry's stored bytes (`CodecFor`: a theorem for Stored - `codecFor_stored` -, for
compressed methods the hypothesis on intact streams - `codecFor_intact`).  Two readers holding the
archive's bytes from the data start, with arbitrary and different short-read behaviour, read with two
arbitrary buffer schedules (zeros included): both loops return the same bytes and end the same way,
namely as `res` says; after a clean end every further read returns 0 bytes. -/
theorem archive_entry_chunk_independent {σ₁ σ₂ : Type} (ext : Model.Ext) (bs : Bytes)
    {fa₀ : Option Nat} {a : Model.Archive} {d₀ : Model.Dev}
    (hopen : Model.openArchive fa₀ (Model.Dev.ofBytes bs) = (.ok a, d₀))
    {i : Nat} {data : Model.FileData} (hfile : a.files[i]? = some data)
    (henc : data.encrypted = false) {pw : Option Bytes} {fa : Option Nat} {d' : Model.Dev} {ds : Nat}
    {res : Out Bytes} (h : Model.byIndexRead ext a i pw fa d₀ = (.ok (.ok (ds, res)), d'))
    (c : Codec)
    (hc : Model.CodecFor ext data.method c ((bs.drop ds).take data.compressedSize.toNat))
    (inner₁ : Src σ₁) (s₁ : σ₁) (h₁ : Denotes inner₁ s₁ (bs.drop ds) .eof)
    (inner₂ : Src σ₂) (s₂ : σ₂) (h₂ : Denotes inner₂ s₂ (bs.drop ds) .eof)
    {reqs₁ reqs₂ : List Nat} {b₁ b₂ : Bytes} {t₁ t₂ : Term} {e₁ : c.St (σ₁ × Nat) × UInt32}
    {e₂ : c.St (σ₂ × Nat) × UInt32}
    (r₁ : readToEnd (entryPipeline c inner₁ data.crc32 false)
      (c.init (s₁, data.compressedSize.toNat), Crc32.init) reqs₁ = some (b₁, t₁, e₁))
    (r₂ : readToEnd (entryPipeline c inner₂ data.crc32 false)
      (c.init (s₂, data.compressedSize.toNat), Crc32.init) reqs₂ = some (b₂, t₂, e₂)) :
    b₁ = b₂ ∧ t₁ = t₂ ∧ res = Model.outOfLoop (b₁, t₁) ∧
      (t₁ = .eof → ∀ more, ∀ r ∈ (run (entryPipeline c inner₁ data.crc32 false) e₁ more).1,
        r = .ok []) := by
  have hbuf : d₀.buf = bs := by
    have := Model.openArchive_readOnly.elim fa₀ (Model.Dev.ofBytes bs)
    rw [hopen] at this; exact this
  have hd₁ := pipeline_denotes_codec c inner₁ data.compressedSize.toNat
    (by rw [Model.takeTerm_eof]; exact hc.chunk) data.crc32 false h₁
  have hd₂ := pipeline_denotes_codec c inner₂ data.compressedSize.toNat
    (by rw [Model.takeTerm_eof]; exact hc.chunk) data.crc32 false h₂
  obtain ⟨hb, ht⟩ := read_loops_agree hd₁ hd₂ r₁ r₂
  obtain ⟨_, _, hst⟩ := denotes_readToEnd hd₁ r₁
  refine ⟨hb, ht, ?_, fun hte more => eof_sticky_run (hst hte) more⟩
  rw [← hbuf] at hc h₁
  exact Model.entry_bridge hfile henc h c hc inner₁ s₁ h₁ reqs₁ r₁

/-- The same for the streaming reader: parameters from the LOCAL record, bytes behind the header. -/
theorem stream_entry_chunk_independent {σ₁ σ₂ : Type} (ext : Model.Ext) {fa : Option Nat}
    {d d' : Model.Dev} {f : Model.FileData} {res : Out Bytes}
    (h : Model.streamEntry ext fa d = (.ok (some (f, res)), d')) :
    ∃ d1, Model.streamHeader fa d = (.ok (some f), d1) ∧ d1.buf = d.buf ∧
    ∀ (c : Codec), Model.CodecFor ext f.method c ((d.buf.drop d1.pos).take f.compressedSize.toNat) →
    ∀ (inner₁ : Src σ₁) (s₁ : σ₁), Denotes inner₁ s₁ (d.buf.drop d1.pos) .eof →
    ∀ (inner₂ : Src σ₂) (s₂ : σ₂), Denotes inner₂ s₂ (d.buf.drop d1.pos) .eof →
    ∀ (reqs₁ reqs₂ : List Nat) (b₁ b₂ : Bytes) (t₁ t₂ : Term) (e₁ : c.St (σ₁ × Nat) × UInt32)
      (e₂ : c.St (σ₂ × Nat) × UInt32),
      readToEnd (entryPipeline c inner₁ f.crc32 false)
        (c.init (s₁, f.compressedSize.toNat), Crc32.init) reqs₁ = some (b₁, t₁, e₁) →
      readToEnd (entryPipeline c inner₂ f.crc32 false)
        (c.init (s₂, f.compressedSize.toNat), Crc32.init) reqs₂ = some (b₂, t₂, e₂) →
      b₁ = b₂ ∧ t₁ = t₂ ∧ res = Model.outOfLoop (b₁, t₁) := by
  obtain ⟨d1, h1, hb, hres⟩ := Model.streamEntry_inv h
  refine ⟨d1, h1, hb, ?_⟩
  intro c hc inner₁ s₁ h₁ inner₂ s₂ h₂ reqs₁ reqs₂ b₁ b₂ t₁ t₂ e₁ e₂ r₁ r₂
  have hd₁ := pipeline_denotes_codec c inner₁ f.compressedSize.toNat
    (by rw [Model.takeTerm_eof]; exact hc.chunk) f.crc32 false h₁
  have hd₂ := pipeline_denotes_codec c inner₂ f.compressedSize.toNat
    (by rw [Model.takeTerm_eof]; exact hc.chunk) f.crc32 false h₂
  obtain ⟨hbb, ht⟩ := read_loops_agree hd₁ hd₂ r₁ r₂
  refine ⟨hbb, ht, ?_⟩
  rw [hres, hb]
  exact Model.pipeline_eq_decode_crc ext f.method c _ _ _ hc inner₁ s₁ h₁ reqs₁ r₁

/-- **Bytes of a ZipCrypto entry do not depend on chunking - seekable reader, every accepted byte string.**
The reader model with the crate's own decryption layer (`Model.cryptoExt`: one shot over the whole entry)
answers `by_index_decrypt(i, pw)` on a ZipCrypto entry with `r`.  Two readers holding the archive's bytes from
the data start, with arbitrary and different short-read behaviour:

* `r = Err(InvalidPassword)`: `ZipCryptoReader::validate` (a `read_exact` of the 12-byte header through the
  `Take`) rejects the password over both;
* `r = Ok(file)` with read-to-end result `res`: `validate` accepts over both, and two read loops over
  `Crc32Reader(decoder(ZipCryptoReaderValid(Take(..))))` with two arbitrary buffer schedules (zeros included)
  return the same bytes and end the same way, namely as `res` says - under `CodecFor` for the decoder on the
  DECRYPTED stream (a theorem for Stored: `codecFor_available`). -/
theorem archive_entry_chunk_independent_zipcrypto {σ₁ σ₂ : Type} (P : Model.Aes.AesPrims)
    (decode : Model.Method → Bytes → Out Bytes) (bs : Bytes)
    {fa₀ : Option Nat} {a : Model.Archive} {d₀ : Model.Dev}
    (hopen : Model.openArchive fa₀ (Model.Dev.ofBytes bs) = (.ok a, d₀))
    {i : Nat} {data : Model.FileData} (hfile : a.files[i]? = some data)
    (henc : data.encrypted = true) (haes : data.aesMode = none) {pw : Bytes} {fa : Option Nat}
    {d' : Model.Dev} {r : Model.PwResult (Nat × Out Bytes)}
    (h : Model.byIndexRead (Model.cryptoExt P decode) a i (some pw) fa d₀ = (.ok r, d')) :
    ∃ ds, ∀ (inner₁ : Src σ₁) (s₁ : σ₁), Denotes inner₁ s₁ (bs.drop ds) .eof →
      ∀ (inner₂ : Src σ₂) (s₂ : σ₂), Denotes inner₂ s₂ (bs.drop ds) .eof →
      (r = .invalidPassword →
        zcValidate Model.ZipCrypto.decryptByte (take inner₁) (s₁, data.compressedSize.toNat)
          (Model.ZipCrypto.derive pw) (Model.zcCheck data) = .wrongPassword ∧
        zcValidate Model.ZipCrypto.decryptByte (take inner₂) (s₂, data.compressedSize.toNat)
          (Model.ZipCrypto.derive pw) (Model.zcCheck data) = .wrongPassword) ∧
      (∀ res, r = .ok (ds, res) →
        ∃ st₁ st₂ pt,
          zcValidate Model.ZipCrypto.decryptByte (take inner₁) (s₁, data.compressedSize.toNat)
            (Model.ZipCrypto.derive pw) (Model.zcCheck data) = .valid st₁ ∧
          zcValidate Model.ZipCrypto.decryptByte (take inner₂) (s₂, data.compressedSize.toNat)
            (Model.ZipCrypto.derive pw) (Model.zcCheck data) = .valid st₂ ∧
          Model.zipCryptoLayer pw (Model.zcCheck data) ((bs.drop ds).take data.compressedSize.toNat) = .ok (some pt) ∧
          ∀ (c : Codec), Model.CodecFor (Model.cryptoExt P decode) data.method c pt →
          ∀ (reqs₁ reqs₂ : List Nat) (b₁ b₂ : Bytes) (t₁ t₂ : Term)
            (e₁ : c.St ((σ₁ × Nat) × Model.ZipCrypto.Keys) × UInt32)
            (e₂ : c.St ((σ₂ × Nat) × Model.ZipCrypto.Keys) × UInt32),
            readToEnd (entryPipelineZc c Model.ZipCrypto.decryptByte inner₁ data.crc32) (c.init st₁, Crc32.init)
              reqs₁ = some (b₁, t₁, e₁) →
            readToEnd (entryPipelineZc c Model.ZipCrypto.decryptByte inner₂ data.crc32) (c.init st₂, Crc32.init)
              reqs₂ = some (b₂, t₂, e₂) →
            b₁ = b₂ ∧ t₁ = t₂ ∧ res = Model.outOfLoop (b₁, t₁)) := by
  have hbuf : d₀.buf = bs := by
    have := Model.openArchive_readOnly.elim fa₀ (Model.Dev.ofBytes bs)
    rw [hopen] at this; exact this
  obtain ⟨ds, _, hA⟩ := Model.entry_bridge_zipcrypto hfile henc haes h
  rw [hbuf] at hA
  refine ⟨ds, ?_⟩
  intro inner₁ s₁ h₁ inner₂ s₂ h₂
  obtain ⟨hA1, hA2⟩ := hA σ₁ inner₁ s₁ h₁
  obtain ⟨hB1, hB2⟩ := hA σ₂ inner₂ s₂ h₂
  refine ⟨fun hinv => ⟨hA2 hinv, hB2 hinv⟩, fun res hres => ?_⟩
  obtain ⟨st₁, hv₁, pt, hpt, hden₁, hrun₁⟩ := hA1 res hres
  obtain ⟨st₂, hv₂, pt', hpt', hden₂, hrun₂⟩ := hB1 res hres
  have hpp : pt' = pt := by
    rw [hpt] at hpt'
    injection hpt' with hpt'
    injection hpt' with hpt'
    exact hpt'.symm
  subst hpp
  refine ⟨st₁, st₂, pt', hv₁, hv₂, hpt, ?_⟩
  intro c hc reqs₁ reqs₂ b₁ b₂ t₁ t₂ e₁ e₂ r₁ r₂
  have q₁ := hrun₁ c hc reqs₁ b₁ t₁ e₁ r₁
  have hd₁ := Model.Layers.crc_denotes_nz _ data.crc32 false (hc.chunk _ _ hden₁)
  have hd₂ := Model.Layers.crc_denotes_nz _ data.crc32 false (hc.chunk _ _ hden₂)
  obtain ⟨hb, ht⟩ := read_loops_agree hd₁ hd₂ r₁ r₂
  exact ⟨hb, ht, q₁⟩

/-- **Bytes of a WinZip-AES entry do not depend on chunking - seekable reader, every accepted byte string.**
The reader model with the crate's own AES layer (`Model.cryptoExt`: `validate` and a read-to-end over a
never-short byte list, one fixed pair of buffers) answers `by_index_decrypt(i, pw)` on an entry with the
encryption flag and an AES extra record with `r`.  Two readers holding the entry's stored bytes with two
arbitrary short-read schedules `sched₁`, `sched₂`:

* `r = Err(InvalidPassword)`: `AesReader::validate` answers `Ok(None)` over both;
* `r = Ok(file)` with read-to-end result `res`: `validate` accepts over both and hands out the readers
  `aesReader .. sc₁` / `.. sc₂`; `AesVerdict` holds for both (code right: `AesReaderValid` DENOTES the
  decryption of the payload, for every schedule of caller buffers; code wrong / bytes missing: `res` is the I/O
  error and NO run reaches a successful end-of-file, `Aes.NeverEof`); and when the code is right, two read
  loops over `Crc32Reader(decoder(AesReaderValid(..)))` with two arbitrary buffer schedules (zeros included)
  return the same bytes and end the same way, namely as `res` says - under `CodecFor` for the decoder on the
  DECRYPTED stream (a theorem for Stored: `codecFor_available`). -/
theorem archive_entry_chunk_independent_aes (P : Model.Aes.AesPrims) (hW : P.WF)
    (decode : Model.Method → Bytes → Out Bytes) (bs : Bytes)
    {fa₀ : Option Nat} {a : Model.Archive} {d₀ : Model.Dev}
    (hopen : Model.openArchive fa₀ (Model.Dev.ofBytes bs) = (.ok a, d₀))
    {i : Nat} {data : Model.FileData} (hfile : a.files[i]? = some data)
    (henc : data.encrypted = true) {mode : Model.AesMode} {vv : Model.AesVendorVersion}
    (haes : data.aesMode = some (mode, vv)) {pw : Bytes} {fa : Option Nat}
    {d' : Model.Dev} {r : Model.PwResult (Nat × Out Bytes)}
    (h : Model.byIndexRead (Model.cryptoExt P decode) a i (some pw) fa d₀ = (.ok r, d')) :
    ∃ ds L, Model.Aes.dataLength (Model.aesModeView mode) data.compressedSize.toNat = some L ∧
    ∀ sched₁ sched₂ : List Nat,
      (r = .invalidPassword →
        (Model.Aes.validate P Model.Aes.listSrc (Model.aesModeView mode) (some L)
          ⟨(bs.drop ds).take data.compressedSize.toNat, sched₁⟩ pw).1 = .ok none ∧
        (Model.Aes.validate P Model.Aes.listSrc (Model.aesModeView mode) (some L)
          ⟨(bs.drop ds).take data.compressedSize.toNat, sched₂⟩ pw).1 = .ok none) ∧
      (∀ res, r = .ok (ds, res) → ∃ sc₁ sc₂,
        Model.Aes.validate P Model.Aes.listSrc (Model.aesModeView mode) (some L)
            ⟨(bs.drop ds).take data.compressedSize.toNat, sched₁⟩ pw =
          (.ok (some (Model.aesReader P pw mode ((bs.drop ds).take data.compressedSize.toNat) L sc₁)),
            ⟨Model.aesBody mode ((bs.drop ds).take data.compressedSize.toNat), sc₁⟩) ∧
        Model.Aes.validate P Model.Aes.listSrc (Model.aesModeView mode) (some L)
            ⟨(bs.drop ds).take data.compressedSize.toNat, sched₂⟩ pw =
          (.ok (some (Model.aesReader P pw mode ((bs.drop ds).take data.compressedSize.toNat) L sc₂)),
            ⟨Model.aesBody mode ((bs.drop ds).take data.compressedSize.toNat), sc₂⟩) ∧
        Model.AesVerdict P (Model.cryptoExt P decode) data.method data.crc32 (vv == .ae2) pw mode
          ((bs.drop ds).take data.compressedSize.toNat) L
          (Model.aesReader P pw mode ((bs.drop ds).take data.compressedSize.toNat) L sc₁) res ∧
        Model.AesVerdict P (Model.cryptoExt P decode) data.method data.crc32 (vv == .ae2) pw mode
          ((bs.drop ds).take data.compressedSize.toNat) L
          (Model.aesReader P pw mode ((bs.drop ds).take data.compressedSize.toNat) L sc₂) res ∧
        (L + Model.Aes.AUTH_CODE_LENGTH ≤
            (Model.aesBody mode ((bs.drop ds).take data.compressedSize.toNat)).length →
          Model.aesCodeOk P pw mode ((bs.drop ds).take data.compressedSize.toNat) L →
          ∃ pt cfin, Model.Aes.cryptBytes P (Model.aesKey P pw mode ((bs.drop ds).take data.compressedSize.toNat))
              Model.Aes.CtrState.new
              ((Model.aesBody mode ((bs.drop ds).take data.compressedSize.toNat)).take L) = .ok (pt, cfin) ∧
          ∀ (c : Codec), Model.CodecFor (Model.cryptoExt P decode) data.method c pt →
          ∀ (reqs₁ reqs₂ : List Nat) (b₁ b₂ : Bytes) (t₁ t₂ : Term)
            (e₁ e₂ : c.St (Model.Aes.Valid Model.Aes.ListSrc) × UInt32),
            readToEnd (Model.entryPipelineAes c P Model.Aes.listSrc data.crc32 (vv == .ae2))
              (c.init (Model.aesReader P pw mode ((bs.drop ds).take data.compressedSize.toNat) L sc₁), Crc32.init)
              reqs₁ = some (b₁, t₁, e₁) →
            readToEnd (Model.entryPipelineAes c P Model.Aes.listSrc data.crc32 (vv == .ae2))
              (c.init (Model.aesReader P pw mode ((bs.drop ds).take data.compressedSize.toNat) L sc₂), Crc32.init)
              reqs₂ = some (b₂, t₂, e₂) →
            b₁ = b₂ ∧ t₁ = t₂ ∧ res = Model.outOfLoop (b₁, t₁))) := by
  have hbuf : d₀.buf = bs := by
    have := Model.openArchive_readOnly.elim fa₀ (Model.Dev.ofBytes bs)
    rw [hopen] at this; exact this
  obtain ⟨ds, _, L, hdl, _, _, hA⟩ := Model.entry_bridge_aes hW hfile henc haes h
  rw [hbuf] at hA
  refine ⟨ds, L, hdl, ?_⟩
  intro sched₁ sched₂
  obtain ⟨hA1, hA2⟩ := hA sched₁
  obtain ⟨hB1, hB2⟩ := hA sched₂
  refine ⟨fun hinv => ⟨(hA1 hinv).2, (hB1 hinv).2⟩, fun res hres => ?_⟩
  obtain ⟨_, sc₁, hv₁, hV₁⟩ := hA2 res hres
  obtain ⟨_, sc₂, hv₂, hV₂⟩ := hB2 res hres
  refine ⟨sc₁, sc₂, hv₁, hv₂, hV₁, hV₂, ?_⟩
  intro hlen hcode
  obtain ⟨pt, cfin, hpt, hres₁, hden₁⟩ := hV₁.intact hlen hcode
  obtain ⟨pt', cfin', hpt', _, hden₂⟩ := hV₂.intact hlen hcode
  have hpp : pt' = pt := by
    rw [hpt] at hpt'
    injection hpt' with hpt'
    injection hpt' with hpt' _
    exact hpt'.symm
  subst hpp
  refine ⟨pt', cfin, hpt, ?_⟩
  intro c hc reqs₁ reqs₂ b₁ b₂ t₁ t₂ e₁ e₂ r₁ r₂
  have hd₁ := Model.Layers.crc_denotes_nz _ data.crc32 (vv == .ae2) (hc.chunk _ _ hden₁)
  have hd₂ := Model.Layers.crc_denotes_nz _ data.crc32 (vv == .ae2) (hc.chunk _ _ hden₂)
  obtain ⟨hb, ht⟩ := read_loops_agree hd₁ hd₂ r₁ r₂
  refine ⟨hb, ht, ?_⟩
  rw [hres₁]
  exact Model.layer_eq_decode_crc_ae2 (Model.cryptoExt P decode) data.method c pt' data.crc32 (vv == .ae2) hc _ _
    hden₁ reqs₁ r₁

/-- The hypotheses of `archive_entry_chunk_independent_aes` on a concrete archive (`Model.aesExArchive`: accepted,
entry 0 with flag and AES record, handed out for the password "pw" with data start 42), and its conclusion
observed under two short-read schedules of the byte source and two buffer schedules (zeros included). -/
example :
    Model.aesOpenRead Model.aesExArchive [0x70, 0x77] [0, 2] [2, 0, 1, 9, 9] =
      some (42, some [1, 2, 3, 4, 5], some [1, 2, 3, 4, 5]) ∧
    Model.aesOpenRead Model.aesExArchive [0x70, 0x77] [] [1, 1, 0, 1, 1, 1, 4] =
      some (42, some [1, 2, 3, 4, 5], some [1, 2, 3, 4, 5]) ∧ Model.exPrims.WF :=
  ⟨by decide +kernel, by decide +kernel, Model.exPrims_wf⟩

/-- `CodecFor` for Stored entries is a theorem (no decoder), for compressed entries whose stored bytes
are an encoder's output it follows from `Codec.IntactOK`. -/
theorem codecFor_available (ext : Model.Ext) :
    (∀ C, (∀ x, ext.decode .stored x = .ok x) → Model.CodecFor ext .stored storedCodec C) ∧
    (∀ (m : Model.Method) (c : Codec) (encode : Bytes → Bytes) (p : Bytes), c.IntactOK encode →
      ext.decode m (encode p) = .ok p → Model.CodecFor ext m c (encode p)) :=
  ⟨fun C hst => Model.codecFor_stored ext hst C,
   fun m c encode p hc hdec => Model.codecFor_intact ext m c encode hc p hdec⟩

/-! ## Metadata under short reads of the underlying reader (finding F9(2))

The reader model's monad runs over a never-short `Cursor`.  `Model/ShortRead.lean` runs the SAME
parsers (`G.openArchive` … written generically over their I/O vocabulary and proved EQUAL to the
model's parsers at `M`: `G.openArchive_M`) over the same device with an arbitrary short-read schedule
`sch` (call number `k` delivers at most `max (sch k) 1` bytes, i.e. any non-empty prefix of what is
available) and the real `read_exact` retry loop. -/

/-- **The metadata do not depend on how the underlying reader splits its reads.**  For every byte
string and every short-read schedule, `ZipArchive::new` over the short-reading reader ends exactly as
over the `Cursor`: the same archive value (entries in order, offset, comment) or the same error, and
the reader is left on the same bytes at the same position. -/
theorem open_archive_short_read_independent (bs : Bytes) (sch : Nat → Nat) :
    ∃ o d' sd', Model.openArchive none (Model.Dev.ofBytes bs) = (o, d') ∧
      (Model.G.openArchive : Model.MS Model.Archive) sch (Model.Dev.ofBytes bs) = (o, sd') ∧
      sd'.buf = d'.buf ∧ sd'.pos = d'.pos := by
  have h := Model.G.sim_openArchive.elim sch (Model.Dev.ofBytes bs) (Model.Dev.ofBytes bs) ⟨rfl, rfl⟩
  rw [Model.G.openArchive_M] at h
  exact h

/-- Two schedules give the same view. -/
theorem open_archive_schedules_agree (bs : Bytes) (sch₁ sch₂ : Nat → Nat) :
    ((Model.G.openArchive : Model.MS Model.Archive) sch₁ (Model.Dev.ofBytes bs)).1 =
      ((Model.G.openArchive : Model.MS Model.Archive) sch₂ (Model.Dev.ofBytes bs)).1 := by
  obtain ⟨o₁, _, _, e₁, f₁, _⟩ := open_archive_short_read_independent bs sch₁
  obtain ⟨o₂, _, _, e₂, f₂, _⟩ := open_archive_short_read_independent bs sch₂
  rw [f₁, f₂]
  rw [e₁] at e₂
  exact (Prod.mk.inj e₂).1

/-- The local-header reads of `by_index` (`find_content`) likewise: same data start or same error,
from any state of the reader, and the reader is left at the same position - where the entry's data
path (`archive_entry_chunk_independent`) takes over, for which the short-reading device is one of
the readers (`short_device_denotes`). -/
theorem find_content_short_read_independent (f : Model.FileData) (sch : Nat → Nat)
    (d sd : Model.Dev) (hb : sd.buf = d.buf) (hp : sd.pos = d.pos) :
    ∃ o d' sd', Model.findContent f none d = (o, d') ∧
      (Model.G.findContent f : Model.MS Nat) sch sd = (o, sd') ∧
      sd'.buf = d'.buf ∧ sd'.pos = d'.pos := by
  have h := (Model.G.sim_findContent f).elim sch d sd ⟨hb, hp⟩
  rw [Model.G.findContent_M] at h
  exact h

/-- **Streaming reader, one header** (`read_zipfile_from_stream` up to the construction of the entry; no
seek is ever issued): from any state of the reader, over any short-read schedule, the same local record -
or "central directory reached", or the same error - and the reader is left at the same position. -/
theorem stream_header_short_read_independent (sch : Nat → Nat) (d sd : Model.Dev) (hb : sd.buf = d.buf)
    (hp : sd.pos = d.pos) :
    ∃ o d' sd', Model.streamHeader none d = (o, d') ∧
      (Model.G.streamHeader : Model.MS (Option Model.FileData)) sch sd = (o, sd') ∧
      sd'.buf = d'.buf ∧ sd'.pos = d'.pos := by
  have h := Model.G.sim_streamHeader.elim sch d sd ⟨hb, hp⟩
  rw [Model.G.streamHeader_M] at h
  exact h

/-- **Streaming reader, the whole visit** (`ZipStreamReader::visit`: every entry in stream order - header,
then its data drained to the end of its `Take`, which is what positions the reader for the next header -
then the central directory records).  For every byte string and every short-read schedule the visitor sees
exactly the events it sees over the `Cursor`: the same entries with the same metadata and the same
read-to-end results, the same central records, or the same error. -/
theorem stream_visit_short_read_independent (ext : Model.Ext) (bs : Bytes) (sch : Nat → Nat) :
    ∃ o d' sd', Model.streamVisit ext none (Model.Dev.ofBytes bs) = (o, d') ∧
      (Model.G.streamVisitF ext (bs.length / 30 + 1) (bs.length / 46 + 1) :
        Model.MS (List (Model.FileData × Out Bytes) × List Model.FileData)) sch (Model.Dev.ofBytes bs) = (o, sd') ∧
      sd'.buf = d'.buf ∧ sd'.pos = d'.pos := by
  have h := (Model.G.sim_streamVisitF ext (bs.length / 30 + 1) (bs.length / 46 + 1)).elim sch
    (Model.Dev.ofBytes bs) (Model.Dev.ofBytes bs) ⟨rfl, rfl⟩
  rw [Model.G.streamVisit_M]
  exact h

/-- Two schedules show the visitor the same events. -/
theorem stream_visit_schedules_agree (ext : Model.Ext) (bs : Bytes) (sch₁ sch₂ : Nat → Nat) :
    ((Model.G.streamVisitF ext (bs.length / 30 + 1) (bs.length / 46 + 1) :
        Model.MS (List (Model.FileData × Out Bytes) × List Model.FileData)) sch₁ (Model.Dev.ofBytes bs)).1 =
    ((Model.G.streamVisitF ext (bs.length / 30 + 1) (bs.length / 46 + 1) :
        Model.MS (List (Model.FileData × Out Bytes) × List Model.FileData)) sch₂ (Model.Dev.ofBytes bs)).1 := by
  obtain ⟨o₁, _, _, e₁, f₁, _⟩ := stream_visit_short_read_independent ext bs sch₁
  obtain ⟨o₂, _, _, e₂, f₂, _⟩ := stream_visit_short_read_independent ext bs sch₂
  rw [f₁, f₂]
  rw [e₁] at e₂
  exact (Prod.mk.inj e₂).1

/-- The short-reading device as a reader of the layer model: delivers the bytes behind its position,
then a clean end of file, under every schedule. -/
theorem short_device_denotes (sch : Nat → Nat) (d : Model.Dev) :
    Denotes (Model.shortSrc sch) d (d.buf.drop d.pos) .eof :=
  Model.shortSrc_denotes sch d

/-! ## Headers under short writes of the sink (finding F9(2), writer side)

The writer model (`Model/Writer.lean`) performs every header / central-directory / end-record write as
`M.writeAll` or `M.writeChunks` (a list of `write_all`s) over a sink whose `write` takes the whole
buffer.  The real `write_all` is a retry loop; over the same device with an ARBITRARY short-write
schedule (`Model.shortWr sch`: call `k` accepts at most `max (sch k) 1` bytes, overwriting / extending
at the current position like `Cursor<Vec<u8>>`) the loop leaves exactly the bytes and the position the
model's whole write leaves - including writes in the middle of the file (the size/CRC patch after
seeking back) and writes past the end (zero fill).  The entry DATA path is `caller_split_independent`
below. -/

/-- One `write_all`. -/
theorem write_all_absorbs_short_writes (sch : Nat → Nat) (bs : Bytes) (d sd : Model.Dev)
    (hb : sd.buf = d.buf) (hp : sd.pos = d.pos) :
    ∃ d' sd', Model.M.writeAll bs none d = (.ok (), d') ∧
      writeAll (Model.shortWr sch) sd bs = (.ok (), sd') ∧ sd'.buf = d'.buf ∧ sd'.pos = d'.pos :=
  Model.short_writeAll_sim sch bs d sd ⟨hb, hp⟩

/-- A record written as a list of `write_all`s (local header, central header, end records). -/
theorem header_writes_absorb_short_writes (sch : Nat → Nat) (chunks : List Bytes) (d sd : Model.Dev)
    (hb : sd.buf = d.buf) (hp : sd.pos = d.pos) :
    ∃ d' sd', Model.M.writeChunks chunks none d = (.ok (), d') ∧
      writeAllSeq (Model.shortWr sch) sd chunks = (.ok (), sd') ∧ sd'.buf = d'.buf ∧
        sd'.pos = d'.pos :=
  Model.short_writeChunks_sim sch chunks d sd ⟨hb, hp⟩

/-! ## Defect D1 (fixed by c83eb5a): the old ZipCrypto reader was not chunk independent -/

/-- Two underlying readers holding the same two ciphertext bytes - one hands them over together, the
other one at a time - make the *pre-fix* `ZipCryptoReaderValid::read` return different plaintext for
the same caller schedule (two 2-byte buffers, then one more): the key state advanced over the
unread tail of the first buffer. Real PKWARE cipher, key state derived from the password "p". -/
theorem zipcrypto_buggy_not_chunk_independent :
    ∃ (s₁ s₂ : Scripted) (B : Bytes) (k : Pk.Keys) (reqs : List Nat),
      Denotes scripted s₁ B .eof ∧ Denotes scripted s₂ B .eof ∧
      (readToEnd (zipCryptoLayerBuggy Pk.dec 0 scripted) (s₁, k) reqs).map (·.1) ≠
        (readToEnd (zipCryptoLayerBuggy Pk.dec 0 scripted) (s₂, k) reqs).map (·.1) := by
  refine ⟨⟨[0x11, 0x22], [], [], none⟩, ⟨[0x11, 0x22], [1], [], none⟩, [0x11, 0x22],
    Pk.derive [0x70], [2, 2, 2], scripted_denotes _, scripted_denotes _, ?_⟩
  decide +kernel

/-- The same two runs through the current code agree (instance of `zipcrypto_denotes`). -/
example :
    (readToEnd (zipCryptoLayer Pk.dec scripted)
        ((⟨[0x11, 0x22], [], [], none⟩ : Scripted), Pk.derive [0x70]) [2, 2, 2]).map (·.1) =
      (readToEnd (zipCryptoLayer Pk.dec scripted)
        ((⟨[0x11, 0x22], [1], [], none⟩ : Scripted), Pk.derive [0x70]) [2, 2, 2]).map (·.1) := by
  decide +kernel

/-! ## Writer side -/

/-- `write_all` (headers, central directory) over any sink that accepts an arbitrary non-empty prefix
per call: succeeds and the sink holds exactly the buffer appended. -/
theorem write_all_schedule_independent {w : Wr ω} {contents : ω → Bytes}
    (hs : SinkSpec w contents) (hl : SinkLive w) (t : ω) (buf : Bytes) :
    ∃ t', writeAll w t buf = (.ok (), t') ∧ contents t' = contents t ++ buf :=
  writeAllAux_spec hs hl buf.length t buf (Nat.le_refl _)

/-- Two sinks with different short-write behaviour end up with identical contents. -/
theorem write_all_sinks_agree {ω₁ ω₂ : Type} {w₁ : Wr ω₁} {w₂ : Wr ω₂} {c₁ : ω₁ → Bytes}
    {c₂ : ω₂ → Bytes} (hs₁ : SinkSpec w₁ c₁) (hl₁ : SinkLive w₁) (hs₂ : SinkSpec w₂ c₂)
    (hl₂ : SinkLive w₂) (t₁ : ω₁) (t₂ : ω₂) (h0 : c₁ t₁ = c₂ t₂) (buf : Bytes) :
    c₁ (writeAll w₁ t₁ buf).2 = c₂ (writeAll w₂ t₂ buf).2 ∧
      (writeAll w₁ t₁ buf).1 = .ok () ∧ (writeAll w₂ t₂ buf).1 = .ok () := by
  obtain ⟨a, ea, ha⟩ := write_all_schedule_independent hs₁ hl₁ t₁ buf
  obtain ⟨b, eb, hb⟩ := write_all_schedule_independent hs₂ hl₂ t₂ buf
  rw [ea, eb]
  exact ⟨by simp only [ha, hb, h0], rfl, rfl⟩

/-- `ZipWriter::write buf = Ok(k)`: the sink received exactly `buf[0..k]`, and the hasher and the
byte counter advanced by exactly those bytes. -/
theorem writer_accounts_accepted_bytes {w : Wr ω} {contents : ω → Bytes} (hs : SinkSpec w contents)
    {st st' : ZwState ω} {buf : Bytes} {k : Nat} (h : (zipWriterWr w).wr st buf = (.ok k, st')) :
    k ≤ buf.length ∧ contents st'.sink = contents st.sink ++ buf.take k ∧
      st'.reg = Crc32.updateBytes st.reg (buf.take k) ∧ st'.written = st.written + k ∧
      st'.closed = false ∧ st'.largeFile = st.largeFile :=
  zipWriterWr_ok hs h

/-- `write_all` through `ZipWriter` over any short-writing sink: data, CRC and size are those of the
whole buffer (below the 4 GiB threshold, or with `large_file`). -/
theorem writer_bytes_schedule_independent {w : Wr ω} {contents : ω → Bytes}
    (hs : SinkSpec w contents) (hl : SinkLive w) (st : ZwState ω) (buf : Bytes)
    (hopen : st.closed = false)
    (hsz : st.written + buf.length ≤ zip64BytesThr ∨ st.largeFile = true) :
    ∃ st', writeAll (zipWriterWr w) st buf = (.ok (), st') ∧
      contents st'.sink = contents st.sink ++ buf ∧
      st'.reg = Crc32.updateBytes st.reg buf ∧ st'.written = st.written + buf.length ∧
      st'.closed = false ∧ st'.largeFile = st.largeFile :=
  zipWriter_writeAllAux hs hl buf.length st buf (Nat.le_refl _) hopen hsz

/-- **However the caller splits its writes** (and however the sink fragments them), a Stored entry
gets byte-identical data, the same CRC and the same size: they depend only on the concatenation. -/
theorem caller_split_independent {w : Wr ω} {contents : ω → Bytes} (hs : SinkSpec w contents)
    (hl : SinkLive w) (st : ZwState ω) (cs : List Bytes) (hopen : st.closed = false)
    (hsz : st.written + cs.flatten.length ≤ zip64BytesThr ∨ st.largeFile = true) :
    ∃ st', writeAllSeq (zipWriterWr w) st cs = (.ok (), st') ∧
      contents st'.sink = contents st.sink ++ cs.flatten ∧
      st'.reg = Crc32.updateBytes st.reg cs.flatten ∧
      st'.written = st.written + cs.flatten.length ∧
      st'.closed = false ∧ st'.largeFile = st.largeFile :=
  zipWriter_writeAllSeq hs hl st cs hopen hsz

/-- Two splittings of the same data over two different sinks. -/
theorem caller_splits_agree {ω₁ ω₂ : Type} {w₁ : Wr ω₁} {w₂ : Wr ω₂} {c₁ : ω₁ → Bytes}
    {c₂ : ω₂ → Bytes} (hs₁ : SinkSpec w₁ c₁) (hl₁ : SinkLive w₁) (hs₂ : SinkSpec w₂ c₂)
    (hl₂ : SinkLive w₂) (st₁ : ZwState ω₁) (st₂ : ZwState ω₂) (cs₁ cs₂ : List Bytes)
    (hflat : cs₁.flatten = cs₂.flatten) (h0 : c₁ st₁.sink = c₂ st₂.sink) (hreg : st₁.reg = st₂.reg)
    (hw : st₁.written = st₂.written) (ho₁ : st₁.closed = false) (ho₂ : st₂.closed = false)
    (hsz : st₁.written + cs₁.flatten.length ≤ zip64BytesThr) :
    c₁ (writeAllSeq (zipWriterWr w₁) st₁ cs₁).2.sink = c₂ (writeAllSeq (zipWriterWr w₂) st₂ cs₂).2.sink ∧
    (writeAllSeq (zipWriterWr w₁) st₁ cs₁).2.reg = (writeAllSeq (zipWriterWr w₂) st₂ cs₂).2.reg ∧
    (writeAllSeq (zipWriterWr w₁) st₁ cs₁).2.written = (writeAllSeq (zipWriterWr w₂) st₂ cs₂).2.written := by
  obtain ⟨a, ea, a1, a2, a3, _⟩ := caller_split_independent hs₁ hl₁ st₁ cs₁ ho₁ (Or.inl hsz)
  obtain ⟨b, eb, b1, b2, b3, _⟩ := caller_split_independent hs₂ hl₂ st₂ cs₂ ho₂
    (Or.inl (by rw [← hw, ← hflat]; exact hsz))
  rw [ea, eb]
  simp only [a1, a2, a3, b1, b2, b3, hflat, h0, hreg, hw, and_self]

/-! ## Non-vacuity -/

/-- The harness's scripted reader is a source with a denotation, for every script (so the hypotheses
`Denotes inner …` above are satisfiable by readers with arbitrary short-read patterns). -/
example (data : Bytes) (script : List Nat) :
    Denotes scripted ⟨data, script, script, none⟩ data .eof :=
  scripted_denotes _

/-- A failing reader: data, then an error. -/
example : Denotes scripted ⟨[1, 2, 3], [2], [2], some .injected⟩ [1, 2, 3] (.err .injected) :=
  scripted_denotes _

/-- The scripted sink satisfies the sink hypotheses for every script. -/
example : SinkSpec scriptedSink SSink.contents ∧ SinkLive scriptedSink :=
  ⟨scriptedSink_spec, scriptedSink_live⟩

/-- A concrete Stored pipeline: 5 archive bytes after the data start, entry of 3 bytes with the right
CRC, inner reader delivering 2 bytes at a time, caller buffers 0,1,0,7,…: reads `[1,2,3]`, clean EOF. -/
example :
    (readToEnd (entryPipeline storedCodec scripted (Crc32.crc32 [1, 2, 3]) false)
      (((⟨[1, 2, 3, 9, 9], [2], [2], none⟩ : Scripted), 3), Crc32.init) [0, 1, 0, 7, 0, 7, 7]).map
        (fun r => (r.1, r.2.1)) = some ([1, 2, 3], Term.eof) := by
  decide +kernel

/-- Same entry, wrong declared CRC: same bytes, then the error. -/
example :
    (readToEnd (entryPipeline storedCodec scripted 0 false)
      (((⟨[1, 2, 3, 9, 9], [2], [2], none⟩ : Scripted), 3), Crc32.init) [0, 1, 0, 7, 0, 7, 7]).map
        (fun r => (r.1, r.2.1)) = some ([1, 2, 3], Term.err .other) := by
  decide +kernel

/-- Writer: three caller chunks over a sink accepting 1 then 2 bytes per call, cyclically. -/
example :
    let r := writeAllSeq (zipWriterWr scriptedSink)
      ⟨⟨[], [1, 2], [1, 2]⟩, Crc32.init, 0, false, false⟩ [[1, 2, 3], [], [4, 5]]
    r.2.sink.contents = [1, 2, 3, 4, 5] ∧ r.2.written = 5 ∧
      Crc32.finalize r.2.reg = Crc32.crc32 [1, 2, 3, 4, 5] := by
  decide +kernel

/-- `Codec.IntactOK` is satisfiable by a codec that is not the identity: every byte xor `0x55`. -/
example : xorCodec.IntactOK (fun p => p.map (· ^^^ 0x55)) := xorCodec_intact

/-- Hypotheses of `pipeline_denotes_intact` on a concrete instance: payload `[1,2,3]` encoded by
`xorCodec`'s encoder, two more archive bytes behind it, reader delivering 2 bytes at a time. -/
example :
    Denotes scripted ⟨[0x54, 0x57, 0x56, 9, 9], [2], [2], none⟩ [0x54, 0x57, 0x56, 9, 9] .eof ∧
      ([0x54, 0x57, 0x56, 9, 9] : Bytes).take 3 = ([1, 2, 3] : Bytes).map (· ^^^ 0x55) ∧
      3 ≤ ([0x54, 0x57, 0x56, 9, 9] : Bytes).length :=
  ⟨scripted_denotes _, by decide, by decide⟩

/-- … and the run, with zero-length reads interleaved. -/
example :
    (readToEnd (entryPipeline xorCodec scripted (Crc32.crc32 [1, 2, 3]) false)
      (xorCodec.init ((⟨[0x54, 0x57, 0x56, 9, 9], [2], [2], none⟩ : Scripted), 3), Crc32.init)
        [0, 1, 0, 7, 0, 7, 7]).map (fun r => (r.1, r.2.1)) = some ([1, 2, 3], Term.eof) := by
  decide +kernel

/-- `pipeline_denotes_codec` with the decoder whose behaviour on damaged input depends on the
chunking: on a stream inside its format the hypothesis holds. -/
example (inner : Src σ) (s : σ) (tail : Bytes) (o : Term)
    (h : Denotes inner s ([1, 2, 3] ++ tail) o) :
    Denotes (entryPipeline pickyCodec inner (Crc32.crc32 [1, 2, 3]) false)
      (pickyCodec.init (s, 3), Crc32.init) [1, 2, 3] .eof := by
  have h1 := pipeline_denotes_codec pickyCodec inner 3
    (pickyCodec_on_intact (by simp) _) (Crc32.crc32 [1, 2, 3]) false h
  have e1 : ([1, 2, 3] ++ tail).take 3 = [1, 2, 3] := by simp
  have e2 : takeTerm 3 ([1, 2, 3] ++ tail) o = .eof := by simp [takeTerm]
  rw [e1, e2] at h1
  have e3 : pickyCodec.decode [1, 2, 3] .eof = ([1, 2, 3], .eof) := by decide
  rw [e3] at h1
  simpa [crcTerm] using h1

/-- `archive_entry_chunk_independent` on a concrete archive (101 bytes, one Stored entry "Z"): accepted,
entry 0 handed out by the reader model with content "Z", and the call-by-call read gives the same over
a reader delivering 1 byte at a time with buffers 0,3,0,3 and over one delivering 5 bytes at a time
with buffers 1,1,1. -/
example :
    Model.openReadBoth Model.oneEntry 0 [1] [0, 3, 0, 3] = some (31, [0x5a], some ([0x5a], .eof)) ∧
    Model.openReadBoth Model.oneEntry 0 [5] [1, 1, 1] = some (31, [0x5a], some ([0x5a], .eof)) := by
  refine ⟨by decide +kernel, by decide +kernel⟩

/-- `archive_entry_chunk_independent_zipcrypto` on a concrete archive (117 bytes, one Stored entry `a` =
`[1,2,3,4,5]` ZipCrypto-encrypted under "pw", produced by the writer model): accepted, entry 0 handed out by
the reader model (one-shot decryption) with content `[1,2,3,4,5]`; `validate` + the call-by-call read through
`Crc32Reader(ZipCryptoReaderValid(Take(..)))` give the same over a reader delivering 1 byte at a time with
buffers 0,3,0,3,… and over one delivering 7 bytes at a time with buffers 1,1,…; the wrong password is rejected. -/
example :
    Model.zcReadBoth Model.zcEntry 0 [0x70, 0x77] [1] [0, 3, 0, 3, 3, 3, 3, 3, 3] =
      some (31, [1, 2, 3, 4, 5], some ([1, 2, 3, 4, 5], .eof)) ∧
    Model.zcReadBoth Model.zcEntry 0 [0x70, 0x77] [7] [1, 1, 1, 1, 1, 1] =
      some (31, [1, 2, 3, 4, 5], some ([1, 2, 3, 4, 5], .eof)) ∧
    Model.zcReadBoth Model.zcEntry 0 [0x70, 0x78] [7] [1, 1, 1, 1, 1, 1] = none := by
  refine ⟨by decide +kernel, by decide +kernel, by decide +kernel⟩

/-- `open_archive_short_read_independent` observed on the 101-byte archive: one byte per call and the
`Cursor` give the same single entry `a` and end at the same position; the short-reading run needed
more calls (so short reads did occur). -/
example :
    (Model.openBoth Model.oneEntry (fun _ => 1)).map (fun r => (r.1, r.2.1, r.2.2.1.2 == r.2.2.2.2,
      decide (r.2.2.1.1 < r.2.2.2.1))) = some ([[0x61]], [[0x61]], true, true) := by
  decide +kernel

/-- For the example below: the streaming visit of `bs` over the `Cursor` and over the short-reading
device (names of the streamed entries with their read-to-end results, names of the central records, final
position; number of `read` calls of both runs). -/
def streamBoth (bs : Bytes) (sch : Nat → Nat) :
    Option ((List (Bytes × Option Bytes) × List Bytes × Nat) × Bool × Bool) :=
  let view (r : List (Model.FileData × Out Bytes) × List Model.FileData) (d : Model.Dev) :
      List (Bytes × Option Bytes) × List Bytes × Nat :=
    (r.1.map (fun x => (x.1.fileNameRaw, match x.2 with | .ok b => some b | _ => none)),
      r.2.map (fun (f : Model.FileData) => f.fileNameRaw), d.pos)
  match Model.streamVisit Model.storedExt none (Model.Dev.ofBytes bs),
    (Model.G.streamVisitF Model.storedExt (bs.length / 30 + 1) (bs.length / 46 + 1) :
      Model.MS (List (Model.FileData × Out Bytes) × List Model.FileData)) sch (Model.Dev.ofBytes bs) with
  | (.ok a, d), (.ok b, sd) => some (view a d, decide (view a d = view b sd), decide (d.calls < sd.calls))
  | _, _ => none

set_option synthInstance.maxSize 1000 in
/-- `stream_visit_short_read_independent` observed on the 101-byte archive: over a reader that delivers one
byte per call the visitor sees the same entry `a` with content "Z", the same central record, and stops at
the same position (83: behind the central record); the short-reading run needed more calls. -/
example :
    streamBoth Model.oneEntry (fun _ => 1) = some (([([0x61], some [0x5a])], [[0x61]], 83), true, true) := by
  decide +kernel

/-- `header_writes_absorb_short_writes` observed: two chunks written at position 1 of a 3-byte device
(overwriting, then extending), sink accepting 1 or 2 bytes per call alternately. -/
example :
    (writeAllSeq (Model.shortWr (fun k => 1 + k % 2)) { buf := [1, 2, 3], pos := 1, calls := 0 } [[9, 9, 9], [8]]).2.buf
        = [1, 9, 9, 9, 8] ∧
    (Model.M.writeChunks [[9, 9, 9], [8]] none { buf := [1, 2, 3], pos := 1, calls := 0 }).2.buf = [1, 9, 9, 9, 8] ∧
    (writeAllSeq (Model.shortWr (fun k => 1 + k % 2)) { buf := [1, 2, 3], pos := 1, calls := 0 } [[9, 9, 9], [8]]).2.calls = 3 := by
  decide +kernel

end ZipVerif.Props.C09
