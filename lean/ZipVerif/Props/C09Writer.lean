import ZipVerif.Lemmas.ShortWrite
import ZipVerif.Lemmas.EntryBridgeCrypto
/-
C09 — Results do not depend on how I/O is chunked: the WRITER STATE MACHINE over a short-writing sink.

`Props/C09.lean` has the reader side, the metadata parsers and the single writes (`write_all_absorbs_short_writes`,
`header_writes_absorb_short_writes`).  Here: whole sequences of writer calls (the `Call` alphabet of C12).

The writer is written once more, generically over its I/O vocabulary (`Model/ShortWrite.lean`: `GW.*` over
`WriterIO`), proved EQUAL to the writer model at the model monad (`GW.step_M`: the functions the translated
`impl ZipWriter` is tied to in `Tie/WriterSM`), and run over the same device with an ARBITRARY short-write
schedule: `write_all` is the real retry loop, `ZipWriter::write` is ONE call on the sink / encoder that
accounts the count ACCEPTED (`GW.write`, the shape of the translated `Gen.ZipWriter.write`), the caller's
`write_all` loops on top of it, and the encoder in front of the sink may itself take fewer bytes than offered
(`acc`, any function with `AccOk`).
-/

deriving instance DecidableEq for ZipVerif.Out

namespace ZipVerif.Props.C09
open ZipVerif ZipVerif.Model ZipVerif.Props.C12

/-- **The generic writer at the model monad IS the writer model** (every call of the alphabet, every state,
every device and fault index): an equation between `M` computations. -/
theorem generic_writer_is_model (ext : WExt) (c : Call) (s : WState) :
    (GW.step (fun x => x.length) ext c s : M _) = Props.C12.step ext c s :=
  GW.step_M ext c s

/-- **The data path accounts what was accepted.**  `write_all(buf)` through `ZipWriter::write` over a sink
with any short-write schedule and an encoder with any accept counts, against the model's `writeData`
(whole write, whole accept), from any writer state: same outcome, same writer state afterwards (CRC
register, byte count, contents of the encoder / of the ZipCrypto buffer), same sink bytes and position - or
both refuse the entry for the 4 GiB limit (`Err(Other)`, writer closed), or both panic at the same site
(only in the unreachable states without an open entry). -/
theorem write_all_through_writer_short_write_independent {acc : Bytes → Nat} (ha : AccOk acc)
    (buf : Bytes) (s : WState) :
    SimS (Model.writeData buf s) (GW.writeData acc buf s : MS _) :=
  GW.simS_writeData ha buf s

/-- **Every sequence of writer calls, any state, any sink position, any schedule** - the general form.
Running the call list over the short-writing device and over the whole-write device from the same bytes at
the same position: (1) the per-call outcomes are identical, the final writer states are identical and the
sinks hold the same bytes at the same position; or (2) up to some call everything was identical and that
call was refused by both for the 4 GiB limit (`GW.RefusedAt`); or (3) the outcomes are identical and the last
one is a panic (never, for admissible calls: C12 `writer_no_panic`). -/
theorem writer_calls_short_write_sim {acc : Bytes → Nat} (ha : AccOk acc) (ext : WExt) (sch : Nat → Nat)
    (calls : List Call) (s : WState) (d sd : Dev) (hb : sd.buf = d.buf) (hp : sd.pos = d.pos) :
    ((runCalls ext calls s none d).1 = (GW.runCallsS acc ext calls s sch sd).1 ∧
      (runCalls ext calls s none d).2.1 = (GW.runCallsS acc ext calls s sch sd).2.1 ∧
      (GW.runCallsS acc ext calls s sch sd).2.2.buf = (runCalls ext calls s none d).2.2.buf ∧
      (GW.runCallsS acc ext calls s sch sd).2.2.pos = (runCalls ext calls s none d).2.2.pos) ∨
    GW.RefusedAt acc ext sch calls s d sd ∨
    ((runCalls ext calls s none d).1 = (GW.runCallsS acc ext calls s sch sd).1 ∧
      ∃ site, Out.panic site ∈ (runCalls ext calls s none d).1) :=
  GW.run_sim ha ext sch calls s d sd ⟨hb, hp⟩

/-- **What the caller is told never depends on the schedule.**  Every call sequence (admissible or not),
from every writer state, over every sink: the per-call outcomes over the short-writing sink are those of the
whole-write run - also after a 4 GiB refusal (a closed writer answers every call without I/O, as a function
of the call, its two mode flags and the comment length: `GW.step_closed`, `GW.closedStep`), and up to and
including a panic. -/
theorem writer_outcomes_short_write_independent {acc : Bytes → Nat} (ha : AccOk acc) (ext : WExt)
    (sch : Nat → Nat) (calls : List Call) (s : WState) (d sd : Dev) (hb : sd.buf = d.buf) (hp : sd.pos = d.pos) :
    (GW.runCallsS acc ext calls s sch sd).1 = (runCalls ext calls s none d).1 :=
  (GW.run_outcomes ha ext sch calls s d sd ⟨hb, hp⟩).symm

/-- **The archive a writer produces is byte-identical however the sink accepts short writes.**  A fresh
writer, any admissible call sequence (C12's quantifier), any sink contents and position to start from, any
short-write schedule of the sink, any accept counts of the encoders: if no call of the whole-write run
failed with `io::ErrorKind::Other` (the kind of the 4 GiB refusal), then over the short-writing sink every
call returns the same outcome (the same offsets, the same errors), the writer ends in the same state and the
sink holds exactly the same bytes, at the same position. -/
theorem writer_archive_short_write_independent {acc : Bytes → Nat} (ha : AccOk acc) (ext : WExt)
    (sch : Nat → Nat) (calls : List Call) (hc : ∀ c ∈ calls, c.Admissible) (d : Dev)
    (hd : Dev.InRange (runCalls ext calls WState.init none d).2.2)
    (hno : Out.err (.io .other) ∉ (runCalls ext calls WState.init none d).1) :
    (GW.runCallsS acc ext calls WState.init sch d).1 = (runCalls ext calls WState.init none d).1 ∧
    (GW.runCallsS acc ext calls WState.init sch d).2.1 = (runCalls ext calls WState.init none d).2.1 ∧
    (GW.runCallsS acc ext calls WState.init sch d).2.2.buf = (runCalls ext calls WState.init none d).2.2.buf ∧
    (GW.runCallsS acc ext calls WState.init sch d).2.2.pos = (runCalls ext calls WState.init none d).2.2.pos := by
  rcases GW.run_sim ha ext sch calls WState.init d d ⟨rfl, rfl⟩ with ⟨h1, h2, h3, h4⟩ | h | ⟨_, site, h⟩
  · exact ⟨h1.symm, h2.symm, h3, h4⟩
  · exact absurd (GW.refusedAt_mem calls _ _ _ h) hno
  · have := writer_no_panic ext calls hc none d hd _ h
    cases this

/-- In particular when every call of the whole-write run succeeded (the writer produced an archive). -/
theorem writer_success_short_write_independent {acc : Bytes → Nat} (ha : AccOk acc) (ext : WExt)
    (sch : Nat → Nat) (calls : List Call) (hc : ∀ c ∈ calls, c.Admissible) (d : Dev)
    (hd : Dev.InRange (runCalls ext calls WState.init none d).2.2)
    (hok : ∀ o ∈ (runCalls ext calls WState.init none d).1, ∃ v, o = .ok v) :
    (GW.runCallsS acc ext calls WState.init sch d).1 = (runCalls ext calls WState.init none d).1 ∧
    (GW.runCallsS acc ext calls WState.init sch d).2.2.buf = (runCalls ext calls WState.init none d).2.2.buf := by
  have := writer_archive_short_write_independent ha ext sch calls hc d hd
    (fun h => by obtain ⟨v, hv⟩ := hok _ h; cases hv)
  exact ⟨this.1, this.2.2.1⟩

/-- Two schedules (two sinks with different short-write behaviour, two encoders with different accept
counts) give the same archive. -/
theorem writer_schedules_agree {acc₁ acc₂ : Bytes → Nat} (ha₁ : AccOk acc₁) (ha₂ : AccOk acc₂) (ext : WExt)
    (sch₁ sch₂ : Nat → Nat) (calls : List Call) (hc : ∀ c ∈ calls, c.Admissible) (d : Dev)
    (hd : Dev.InRange (runCalls ext calls WState.init none d).2.2)
    (hno : Out.err (.io .other) ∉ (runCalls ext calls WState.init none d).1) :
    (GW.runCallsS acc₁ ext calls WState.init sch₁ d).1 = (GW.runCallsS acc₂ ext calls WState.init sch₂ d).1 ∧
    (GW.runCallsS acc₁ ext calls WState.init sch₁ d).2.2.buf =
      (GW.runCallsS acc₂ ext calls WState.init sch₂ d).2.2.buf := by
  obtain ⟨a1, _, a3, _⟩ := writer_archive_short_write_independent ha₁ ext sch₁ calls hc d hd hno
  obtain ⟨b1, _, b3, _⟩ := writer_archive_short_write_independent ha₂ ext sch₂ calls hc d hd hno
  exact ⟨a1.trans b1.symm, a3.trans b3.symm⟩

/-! ### The excluded case is real: a 4 GiB refusal leaves schedule-dependent bytes behind

FULL STATEMENT (false): "for every call sequence the sink holds the same bytes under every schedule".
`ZipWriter::write` checks the 4 GiB limit after EACH `write` call of the caller's `write_all` loop, so a
sink that accepts the buffer in pieces is refused after the first piece that crosses the limit, a sink that
takes it whole after the whole buffer.  Both runs return the same error and leave the writer closed (no
archive can be finished either way); only the number of stray bytes in the sink differs. -/

/-- A writer state as it is after 4 GiB − 2 bytes have been written to a Stored entry without
`large_file` (the byte count is set directly; the hasher value plays no role). -/
def nearLimit : WState :=
  let s := (runCalls ext0 [.startFile [0x61] (opts .stored none)] WState.init none (Dev.ofBytes [])).2.1
  { s with statsBytes := 4294967294 }

/-- `write_all([1,2,3,4])`, then `finish()`, in that state: both runs are refused with `Err(Other)` and then
answer `BrokenPipe`; the whole-write sink has received all four bytes, the sink that accepts one byte per call
only two. -/
def refusalWhole := runCalls ext0 [.write [1, 2, 3, 4], .finish] nearLimit none { buf := [], pos := 31, calls := 0 }
def refusalShort := GW.runCallsS (fun b => b.length) ext0 [.write [1, 2, 3, 4], .finish] nearLimit (fun _ => 1)
  { buf := [], pos := 31, calls := 0 }

theorem refusal_bytes_depend_on_schedule :
    refusalWhole.1 = [.err (.io .other), .err (.io .brokenPipe)] ∧
    refusalShort.1 = [.err (.io .other), .err (.io .brokenPipe)] ∧
      refusalWhole.2.2.buf.length = 35 ∧ refusalShort.2.2.buf.length = 33 ∧
      refusalWhole.2.1.inner = .closed ∧ refusalShort.2.1.inner = .closed := by
  decide +kernel

/-! ### Non-vacuity -/

/-- an encoder that takes at most 3 bytes per call -/
theorem accOk_min3 : AccOk (fun b => min b.length 3) :=
  ⟨fun b => Nat.min_le_left _ _, fun b hb => by
    have : 0 < b.length := List.length_pos_iff.mpr hb
    omega⟩

theorem accOk_whole : AccOk (fun b => b.length) :=
  ⟨fun _ => Nat.le_refl _, fun b hb => List.length_pos_iff.mpr hb⟩

/-- a Stored entry written in two calls, a directory, a Deflated entry (identity "compressor"), `finish` -/
def demo : List Call :=
  [.startFile [0x61] (opts .stored none), .write [1, 2, 3, 4, 5], .write [6, 7],
   .addDirectory [0x64] (opts .stored none),
   .startFile [0x62] (opts .deflated none), .write [8, 9, 10, 11, 12, 13, 14], .finish]

example : ∀ c ∈ demo, c.Admissible := by decide

/-- `writer_archive_short_write_independent` observed: a sink taking 1, 2, 3, 1, 2, 3 … bytes per call
and an encoder taking at most 3 bytes per call produce the archive of the whole-write run, byte for byte,
with the same outcomes; the short run needed more sink calls (so short writes did occur). -/
def demoWhole := runCalls ext0 demo WState.init none (Dev.ofBytes [])
def demoShort := GW.runCallsS (fun b => min b.length 3) ext0 demo WState.init (fun k => 1 + k % 3) (Dev.ofBytes [])

example :
    demoWhole.1 = demoShort.1 ∧ demoWhole.2.2.buf = demoShort.2.2.buf ∧
      demoWhole.1.map cls = [.ok, .ok, .ok, .ok, .ok, .ok, .ok] ∧ demoWhole.2.2.calls < demoShort.2.2.calls ∧
      demoWhole.2.2.buf.length = 272 := by
  decide +kernel

/-- The C15 cipher as the writer's `zcEncrypt`. -/
def wextZc : WExt := ⟨fun _ _ b => b, fun pw b => (ZipCrypto.encryptAll (ZipCrypto.derive pw) b).1⟩

/-- The ZipCrypto archive of C09's reader-side example (`Model.zcEntry`) is what the writer model produces for
`start_file("a", encrypt_with "pw"); write([1,2,3,4,5]); finish()` - over the whole-write sink and over a sink
accepting 1, 2, 3, 1, … bytes per call. -/
theorem writer_produces_zcEntry :
    (runCalls wextZc [.startFile [0x61] { opts .stored none with encryptWith := some [0x70, 0x77] },
      .write [1, 2, 3, 4, 5], .finish] WState.init none (Dev.ofBytes [])).2.2.buf = Model.zcEntry ∧
    (GW.runCallsS (fun b => b.length) wextZc [.startFile [0x61] { opts .stored none with encryptWith := some [0x70, 0x77] },
      .write [1, 2, 3, 4, 5], .finish] WState.init (fun k => 1 + k % 3) (Dev.ofBytes [])).2.2.buf = Model.zcEntry := by
  refine ⟨by decide +kernel, by decide +kernel⟩

end ZipVerif.Props.C09
