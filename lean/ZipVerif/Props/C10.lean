import ZipVerif.Lemmas.StreamRun
import ZipVerif.Props.C03
/-
C10 — The streaming reader agrees with the seekable reader.

Statements only; the proofs are in `Lemmas/StreamParse.lean` (the model's `read_zipfile_from_stream`
on the spec's serialisation of the LOCAL record of an arbitrary entry, the refusals, soundness on
arbitrary input) and `Lemmas/StreamRun.lean` (the entry loops, the visitor's central-directory loop and
`ZipStreamReader::visit` on `Spec.Zip.build l`), on top of the C03 development (`Lemmas/IORun.lean`,
`CentralParse.lean`, `ZipLayout.lean`, `ReadWf.lean`, `ReadEntry.lean`, `Props/C03.lean`).

* the producer is `Spec.Zip.build : Layout → Bytes` (APPNOTE, independent of the crate);
* the streaming reader is `Model.streamHeader` / `streamEntryC` / `streamEntriesC` (a consumer `Consume`
  per entry: it asks for `k` decoded bytes, its reads pull `pulled` compressed bytes through the `Take` in
  reads of `chunk` bytes — decoder read-ahead is any `pulled` —, then it drops the handle and `drain` reads
  what is left of the `Take` in 64 KiB reads, as `ZipFile::drop` does) / `streamEntries`
  (read everything) / `streamVisit` (Model/Reader.lean, tied to the crate by the `read` stream:
  `read.stream`, `read.streamc`);
* the seekable reader is `Model.openArchive` / `byIndexRead` (C03).

What the stream must report for an entry is `Spec.Zip.streamViewEntry` (written from the LOCAL record).
NOT available to a stream, as documented by the crate (`ZipStreamVisitor::visit_file`,
`read_zipfile_from_stream`): the entry comment (empty), the external attributes (0, so `unix_mode()`
is `None`), header / data / central-header offsets (0) — `stream_eq_seek` states these explicitly; they
arrive afterwards through `visit_additional_metadata` (`visit_order`).  `system` / `version_made_by`
are read from the local header's only version field ("version needed to extract") and the extra field
is the LOCAL one: neither is comparable with the central record's value.
-/

namespace ZipVerif.Props.C10
open ZipVerif ZipVerif.Model ZipVerif.Spec.Zip

/-! ## 0. Hypotheses -/

/-- **The local records lie back to back from offset 0 and the central directory follows the last one**:
no prefix, no gaps, no data descriptors — a stream has no other way to find the next record. -/
def Contiguous (l : Layout) : Prop :=
  l.pre = [] ∧ (∀ e ∈ l.entries, e.gapBefore = [] ∧ e.desc = .none) ∧ l.gapBeforeCd = []

instance (l : Layout) : Decidable (Contiguous l) := by unfold Contiguous; infer_instance

/-- **Every local header carries the sizes** (`Spec.Zip.LocalSizesOk`, Lemmas/StreamParse.lean): no data
descriptor (neither laid out nor flagged: bit 3 clear), not encrypted (bit 0 clear), the foreign local
extra data are well-formed records without the identifiers 0x0001 / 0x9901, the method has a decoder,
and without a local ZIP64 record both sizes fit 32 bits. -/
def LocalSizes (l : Layout) : Prop := ∀ e ∈ l.entries, LocalSizesOk e

instance (l : Layout) : Decidable (LocalSizes l) := by unfold LocalSizes; infer_instance

theorem localSizesOk_iff (e : Entry) :
    LocalSizesOk e ↔
      (e.hasDesc = false ∧ (e.flags &&& 1 == 1) = false ∧ (e.flags &&& 0x0008 != 0) = false ∧
       ExtraOk e.localExtra ∧ (Method.fromU16 e.method).decodable = true ∧
       (e.localZip64 = false → e.csize.toNat < 4294967296 ∧ e.usize.toNat < 4294967296)) := Iff.rfl

/-- the per-entry hypotheses in the form the loop lemmas use -/
theorem contiguous_entries {l : Layout} (hC : Contiguous l) (hS : LocalSizes l) :
    ∀ e ∈ l.entries, LocalSizesOk e ∧ e.gapBefore = [] :=
  fun e he => ⟨hS e he, (hC.2.1 e he).1⟩

/-! ## 1. One entry: header, consumption, drain -/

/-- **`stream_header_view`** — on any device whose bytes at the current position are the local record of
a servable entry, `read_zipfile_from_stream` returns the stream view of the entry (sizes from the local
header, or from the local ZIP64 record when present; name decoded by the flag; comment empty, attributes
0, offsets 0), having consumed exactly the record: the device stands at the first data byte. -/
theorem stream_header_view (e : Entry) (hf : e.Fits) (hs : LocalSizesOk e) (d : Dev) (rest : Bytes)
    (hd : d.buf.drop d.pos = localRecord e ++ rest) :
    ∃ d', streamHeader.runPure d = (.ok (some (streamViewEntry e)), d') ∧ d'.buf = d.buf ∧
      d'.pos = d.pos + (localRecord e).length :=
  (parses_streamHeader e d.pos hf hs).toRuns hd d rfl rfl

/-- The reported values, spelled out. -/
theorem stream_view_fields (e : Entry) :
    let v := streamViewEntry e
    v.crc32 = e.crc ∧ v.compressedSize = e.csize ∧ v.uncompressedSize = e.usize ∧
    v.method = Method.fromU16 e.method ∧ v.time = DateTime.fromMsdos e.date e.time ∧
    v.fileNameRaw = e.name ∧ v.fileName = Text.decodeToUtf8 (e.flagsOut &&& 0x0800 != 0) e.name ∧
    v.extraField = e.localExtraAll ∧ v.largeFile = e.localZip64 ∧
    v.fileComment = [] ∧ v.externalAttributes = 0 ∧ v.unixMode = none ∧
    v.headerStart = 0 ∧ v.dataStart = 0 ∧ v.centralHeaderStart = 0 :=
  ⟨rfl, rfl, rfl, rfl, rfl, rfl, rfl, rfl, rfl, rfl, rfl, rfl, rfl, rfl, rfl⟩

/-- **`drain_positions`** — whatever the consumer `c` does before it drops the handle — asks for any number
`c.k` of decoded bytes, has pulled ANY number `c.pulled` of compressed bytes through the `Take` by then (a
decoder reading ahead, a consumer stopping early or never reading), in reads of ANY size `c.chunk` — the
entry is reported as `streamViewEntry e`, the consumer has seen `consumeK` of the decoder's output, and the
drain of `ZipFile::drop` leaves the device exactly `compressed size` bytes behind the first data byte, i.e.
on the next record.  (`streamEntryC` performs the consumer's reads and the drain's reads as device steps: a
reader that skipped or shortened the drain would end at `data start + pulled` — `no_drain_counter_model`.) -/
theorem drain_positions (ext : Ext) (c : Consume) (e : Entry) (hf : e.Fits) (hs : LocalSizesOk e) (d : Dev)
    (rest : Bytes) (hd : d.buf.drop d.pos = localRecord e ++ (e.data ++ rest)) :
    ∃ d', (streamEntryC ext c).runPure d =
        (.ok (some (streamViewEntry e, consumeK e.crc (ext.decode (Method.fromU16 e.method) e.data)
          (ext.decodeBefore (Method.fromU16 e.method) e.data c.k) c.k)), d') ∧
      d'.buf = d.buf ∧ d'.pos = d.pos + (localRecord e).length + e.data.length ∧
      d'.buf.drop d'.pos = rest := by
  obtain ⟨d', h1, h2, h3⟩ := runs_streamEntryC ext c e hf hs hd d rfl rfl
  refine ⟨d', h1, h2, h3, ?_⟩
  rw [h2, h3]
  exact drop_past (drop_past hd)

/-- **`drain_reads_the_rest`** — the two device phases separately: on a device holding the `csize` bytes of the
`Take` at `ds`, the consumer's reads deliver some `n ≤ min pulled csize` bytes without error and leave the
device at `ds + n`; the drain, started there with the `Take`'s remaining limit `csize − n`, ends at
`ds + csize` — for every `pulled` and `chunk`. -/
theorem drain_reads_the_rest (B : Bytes) (ds csize pulled chunk : Nat) (h : csize ≤ B.length - ds) :
    ∃ n, n ≤ min pulled csize ∧
      Runs (takeLoop chunk (min pulled csize) (min pulled csize)) B ds (.ok (n, none)) (ds + n) ∧
      Runs (drain (csize - n)) B (ds + n) (.ok ()) (ds + csize) := by
  obtain ⟨n, hn, hr, _⟩ := runs_takeLoop (B := B) chunk (min pulled csize) (min pulled csize) ds (by omega)
  exact ⟨n, hn, hr, (runs_drain (B := B) (csize - n) (ds + n) (by omega)).cast rfl (by omega)⟩

/-- the data start is the one the seekable reader computes (`Props.C03.reader_entry_raw`) -/
theorem drain_position_spec (e : Entry) (off : Nat) :
    off + (localRecord e).length + e.data.length = e.dataStart off 0 + e.data.length := by
  rw [localRecord_length]; simp [Entry.dataStart]; omega

/-- What the consumer sees (`consumeK`): nothing; the first `k` bytes; everything and the CRC verdict. -/
theorem consume_none (crc : UInt32) (dec bf : Bytes) : consumeK crc (.ok dec) bf 0 = .ok [] := by
  simp [consumeK]

theorem consume_part (crc : UInt32) (dec bf : Bytes) (k : Nat) (h : k ≤ dec.length) :
    consumeK crc (.ok dec) bf k = .ok (dec.take k) := by
  simp [consumeK, h]

theorem consume_all (crc : UInt32) (dec bf : Bytes) (k : Nat) (h : dec.length < k) :
    consumeK crc (.ok dec) bf k = crcCheck false crc dec := by
  simp [consumeK, Nat.not_le.mpr h]

/-- … and on a DAMAGED stream (the decoder ends with an error `x`): the bytes the decoder hands out before
it notices are delivered — `k` of them when there are that many —, else the error.  (Before review finding
F5 the model answered `x` for every `k`; the crate returns the first bytes: a 70 000-byte deflate entry
damaged near its end still yields its first byte.) -/
theorem consume_damaged_part (crc : UInt32) (x : ZErr) (bf : Bytes) (k : Nat) (h : k ≤ bf.length) :
    consumeK crc (.err x) bf k = .ok (bf.take k) := by
  simp [consumeK, h]

theorem consume_damaged_err (crc : UInt32) (x : ZErr) (bf : Bytes) (k : Nat) (h : bf.length < k) :
    consumeK crc (.err x) bf k = .err x := by
  simp [consumeK, Nat.not_le.mpr h]

/-- a consumer that never reads sees no error, whatever the state of the stream -/
theorem consume_zero (crc : UInt32) (x : ZErr) (bf : Bytes) : consumeK crc (.err x) bf 0 = .ok [] := by
  simp [consumeK]

/-! ## 2. The entry loop under a consumption pattern -/

/-- **`stream_entries_eq`** — for every layout whose values fit their fields, whose local records are
contiguous and carry the sizes, with at least one entry, and for EVERY consumption pattern `c` (a list of
consumers — decoded bytes asked for, compressed bytes pulled, read size —, cycled over the entries):
`read_zipfile_from_stream` called in a loop on `build l`, reading `c_i.k` decoded bytes of entry `i` and
dropping the handle, returns for each entry, in order,
`(streamViewEntry e_i, consumeK e_i.crc (decode m_i e_i.data) (decodeBefore …) c_i.k)`, then signals the end of entries at
the central directory (exactly `l.entries.length` entries), and leaves the device 4 bytes into the central
directory (the signature it has consumed). -/
theorem stream_entries_eq (ext : Ext) (l : Layout) (hF : l.Fits) (hC : Contiguous l) (hS : LocalSizes l)
    (hne : l.entries ≠ []) (c : List Consume) :
    ∃ r d', (streamEntriesC ext c ((build l).length / 30 + 1) 0).runPure (Dev.ofBytes (build l)) = (.ok r, d') ∧
      r.length = l.entries.length ∧
      (∀ i e, l.entries[i]? = some e →
        r[i]? = some (streamViewEntry e,
          consumeK e.crc (ext.decode (Method.fromU16 e.method) e.data)
            (ext.decodeBefore (Method.fromU16 e.method) e.data (patAt c i).k) (patAt c i).k)) ∧
      d'.buf = build l ∧ d'.pos = l.cdStart + 4 ∧ r = streamResultsC ext c 0 l.entries := by
  obtain ⟨d', h1, h2, h3⟩ := runs_streamEntriesC_build ext c l hF hC.1 hC.2.2 (contiguous_entries hC hS) hne
    (Dev.ofBytes (build l)) rfl rfl
  refine ⟨_, d', h1, streamResultsC_length ext c _ _, fun i e he => ?_, h2, h3, rfl⟩
  have := streamResultsC_getElem ext c l.entries 0 i e he
  rw [Nat.zero_add] at this
  exact this

/-- entry `i` of the result -/
theorem stream_entries_get (ext : Ext) (c : List Consume) (l : Layout) (i : Nat) (e : Entry)
    (he : l.entries[i]? = some e) :
    (streamResultsC ext c 0 l.entries)[i]? =
      some (streamViewEntry e,
        consumeK e.crc (ext.decode (Method.fromU16 e.method) e.data)
          (ext.decodeBefore (Method.fromU16 e.method) e.data (patAt c i).k) (patAt c i).k) := by
  have := streamResultsC_getElem ext c l.entries 0 i e he
  rw [Nat.zero_add] at this
  exact this

/-- `patAt c i` is the `i`-th element of the pattern, cycled. -/
theorem patAt_spec (c : List Consume) (i : Nat) (hc : c ≠ []) :
    c[i % c.length]? = some (patAt c i) := by
  have hl : 0 < c.length := List.length_pos_iff.mpr hc
  have : i % c.length < c.length := Nat.mod_lt _ hl
  unfold patAt Consume.at
  rw [List.getElem?_eq_getElem this]

/-- **`stream_consumption_independent`** — two consumers with different patterns (different byte counts,
different amounts of compressed data pulled through the `Take`, different read sizes) see the same sequence
of entries (metadata) and leave the stream at the same position: the drain makes the position after each
entry `data start + compressed size` whatever was consumed (`drain_positions`). -/
theorem stream_consumption_independent (ext : Ext) (l : Layout) (hF : l.Fits) (hC : Contiguous l)
    (hS : LocalSizes l) (hne : l.entries ≠ []) (c c' : List Consume) :
    ∃ r r' d d', (streamEntriesC ext c ((build l).length / 30 + 1) 0).runPure (Dev.ofBytes (build l)) = (.ok r, d) ∧
      (streamEntriesC ext c' ((build l).length / 30 + 1) 0).runPure (Dev.ofBytes (build l)) = (.ok r', d') ∧
      r.map Prod.fst = r'.map Prod.fst ∧ r.map Prod.fst = l.entries.map streamViewEntry ∧
      d.pos = d'.pos ∧ d.buf = d'.buf := by
  obtain ⟨r, d, h1, _, _, h2, h3, hr⟩ := stream_entries_eq ext l hF hC hS hne c
  obtain ⟨r', d', h1', _, _, h2', h3', hr'⟩ := stream_entries_eq ext l hF hC hS hne c'
  refine ⟨r, r', d, d', h1, h1', ?_, ?_, by rw [h3, h3'], by rw [h2, h2']⟩
  · rw [hr, hr', streamResultsC_fst, streamResultsC_fst]
  · rw [hr, streamResultsC_fst]

/-- A consumer that reads every entry to end-of-file (`c_i.k` beyond the decoded length; on a damaged
stream beyond what comes out before the error: `Model.Beyond`) sees what the read-everything loop
`streamEntries` reports: the decoder's output gated by the CRC. -/
theorem stream_entries_all (ext : Ext) (c : List Consume) (l : Layout)
    (hall : ∀ i e, l.entries[i]? = some e → Beyond ext e (patAt c i).k) :
    streamResultsC ext c 0 l.entries = streamResults ext l.entries :=
  streamResultsC_all ext c l.entries 0 (fun j e he => by
    rw [Nat.zero_add]; exact hall j e he)

/-! ## 3. Agreement with the seekable reader -/

/-- **`stream_eq_seek`** — under the hypotheses of `stream_entries_eq` and those of C03's `reader_on_wf`
(`Readable`, `NoFalseSig`): the seekable reader opens `build l`, the streaming reader (reading every
entry to the end) runs through it, both report the same number of entries, and for every index `i` the
stream's entry and the seekable reader's entry agree on decoded name, raw name, method, timestamp, CRC,
compressed size, uncompressed size and the two flags, and the CONTENT outcome of the stream (decoder
output gated by the CRC: `decode >>= crcCheck`) is exactly what `by_index(i)` read to the end returns on
the seekable side.  Fields NOT available to the stream are stated: comment empty, external attributes 0
(`unix_mode() = None`), header / central-header / data offsets 0. -/
theorem stream_eq_seek (ext : Ext) (l : Layout) (hF : l.Fits) (hC : Contiguous l) (hS : LocalSizes l)
    (hne : l.entries ≠ []) (hR : l.Readable) (hN : Props.C03.NoFalseSig l)
    (ht : l.trailing = [] ∨ l.needs64 = false) :
    ∃ a d1 files d2,
      openArchive.runPure (Dev.ofBytes (build l)) = (.ok a, d1) ∧
      (streamEntries ext ((build l).length / 30 + 1)).runPure (Dev.ofBytes (build l)) = (.ok files, d2) ∧
      a.files = viewOf l ∧ files.length = a.files.length ∧ files.length = l.entries.length ∧
      d2.pos = l.cdStart + 4 ∧
      ∀ i, i < files.length → ∃ v sv res, a.files[i]? = some v ∧ files[i]? = some (sv, res) ∧
        sv.fileName = v.fileName ∧ sv.fileNameRaw = v.fileNameRaw ∧ sv.method = v.method ∧
        sv.time = v.time ∧ sv.crc32 = v.crc32 ∧ sv.compressedSize = v.compressedSize ∧
        sv.uncompressedSize = v.uncompressedSize ∧ sv.encrypted = v.encrypted ∧
        sv.usingDataDescriptor = v.usingDataDescriptor ∧
        (∃ ds d3, (byIndexRead ext a i none).runPure d1 = (.ok (.ok (ds, res)), d3)) ∧
        sv.fileComment = [] ∧ sv.externalAttributes = 0 ∧ sv.unixMode = none ∧
        sv.headerStart = 0 ∧ sv.centralHeaderStart = 0 ∧ sv.dataStart = 0 := by
  obtain ⟨d1, ho, hb1⟩ := Props.C03.reader_on_wf l hF hR hN ht
  obtain ⟨d2, hs1, _, hs3⟩ := runs_streamEntries_build ext l hF hC.1 hC.2.2 (contiguous_entries hC hS) hne
    (Dev.ofBytes (build l)) rfl rfl
  have hlen : (streamResults ext l.entries).length = l.entries.length := by simp [streamResults]
  have hvl : (archiveOf l).files.length = l.entries.length := (Props.C03.archive_fields l).2.2.2
  refine ⟨archiveOf l, d1, streamResults ext l.entries, d2, ho, hs1, rfl, by rw [hlen, hvl], hlen, hs3, ?_⟩
  intro i hi
  rw [hlen] at hi
  have he : l.entries[i]? = some l.entries[i] := List.getElem?_eq_getElem hi
  generalize l.entries[i] = e at he
  obtain ⟨off, chs, _, hv⟩ := Props.C03.entry_view l i e he
  have hse := hS e (List.mem_of_getElem? he)
  have henc : (e.flagsOut &&& 1 == 1) = false := by rw [flagsOut_of_noDesc hse.1]; exact hse.2.1
  obtain ⟨off', d3, _, hr, _⟩ := Props.C03.reader_entry_read ext l hF i e he none henc hse.2.2.2.2.1 d1 hb1
  exact ⟨viewEntry e off l.pre.length chs, streamViewEntry e, streamSeenAll ext e, hv,
    streamResults_getElem ext l.entries i e he, rfl, rfl, rfl, rfl, rfl, rfl, rfl, rfl, rfl,
    ⟨_, d3, hr⟩, rfl, rfl, rfl, rfl, rfl, rfl⟩

/-- **`stream_prefix_of_seek`** — when the seekable reader's `by_index` read to the end returns `content`
(decoder succeeded, CRC matched), a streaming consumer that asks for `k` bytes of that entry sees exactly
the first `k` bytes of `content` — all of it when `k` exceeds its length — for every `k`. -/
theorem stream_prefix_of_seek (ext : Ext) (e : Entry) (content : Bytes) (k : Nat)
    (h : (ext.decode (Method.fromU16 e.method) e.data >>= fun dec => crcCheck false e.crc dec) = .ok content) :
    consumeK e.crc (ext.decode (Method.fromU16 e.method) e.data)
      (ext.decodeBefore (Method.fromU16 e.method) e.data k) k = .ok (content.take k) := by
  cases hd : ext.decode (Method.fromU16 e.method) e.data with
  | err x => rw [hd] at h; cases h
  | panic x => rw [hd] at h; cases h
  | ok dec =>
    rw [hd] at h
    have hc : crcCheck false e.crc dec = .ok content := h
    have hdc : dec = content := by
      unfold crcCheck at hc
      split at hc
      · cases hc
      · cases hc; rfl
    subst hdc
    unfold consumeK
    dsimp only
    by_cases hk : k ≤ dec.length
    · rw [if_pos hk]
    · rw [if_neg hk, hc, List.take_of_length_le (by omega)]

/-! ## 4. The visitor -/

/-- **`visit_order`** — `ZipStreamReader::visit` on `build l` delivers (`files`) one `visit_file` per
entry, in order, with the stream view and the content outcome of `stream_eq_seek`, and then (`metas`) one
`visit_additional_metadata` per entry, in order, once each, carrying the CENTRAL record's view of the
entry — exactly the seekable reader's entry list `viewOf l` with `central_header_start` replaced by the
dummy 0 the stream passes (the prefix length, `archive_offset`, is 0 for a contiguous layout) — and stops
at the first non-central signature (ZIP64 end record or end record), 4 bytes into it.  The first central
record's signature has been consumed by the entry loop: the visitor parses the rest of that record. -/
theorem visit_order (ext : Ext) (l : Layout) (hF : l.Fits) (hC : Contiguous l) (hS : LocalSizes l)
    (hne : l.entries ≠ []) (hR : l.Readable) :
    ∃ d', (streamVisit ext).runPure (Dev.ofBytes (build l)) =
        (.ok (streamResults ext l.entries,
              (viewOf l).map (fun v => { v with centralHeaderStart := 0 })), d') ∧
      d'.buf = build l ∧ d'.pos = l.end64Pos + 4 := by
  obtain ⟨d', h1, h2, h3⟩ := runs_streamVisit_build ext l hF hC.1 hC.2.2 (contiguous_entries hC hS) hR hne
    (Dev.ofBytes (build l)) rfl rfl
  refine ⟨d', ?_, h2, h3⟩
  rw [h1, metaList_eq_viewList l.entries 0 l.cdStart]
  unfold viewOf
  rw [hC.1]
  rfl

/-- one file callback and one metadata callback per entry; the metadata names are the entries' names in
order, the same sequence as the files' names -/
theorem visit_counts (ext : Ext) (l : Layout) :
    (streamResults ext l.entries).length = l.entries.length ∧
    ((viewOf l).map (fun v => { v with centralHeaderStart := 0 })).length = l.entries.length ∧
    ((viewOf l).map (fun v => { v with centralHeaderStart := 0 })).map (·.fileNameRaw) =
      (streamResults ext l.entries).map (·.1.fileNameRaw) := by
  refine ⟨by simp [streamResults], by simp [viewOf, viewList_length], ?_⟩
  have h1 : (streamResults ext l.entries).map (·.1.fileNameRaw) = l.entries.map (·.name) := by
    simp only [streamResults, List.map_map]; rfl
  have h2 : ((viewOf l).map (fun v => { v with centralHeaderStart := 0 })).map (·.fileNameRaw) =
      l.entries.map (·.name) := by
    rw [List.map_map]
    exact viewList_names _ _ _ _
  rw [h1, h2]


/-! ## 5. Entries the stream cannot serve -/

/-- the three reasons, on the layout: a data descriptor (laid out, hence flagged), the encryption bit,
a method without a decoder — in particular 99, the WinZip-AES pseudo method -/
theorem refused_cases (e : Entry) :
    (e.hasDesc = true → StreamRefused e) ∧ ((e.flagsOut &&& 1 == 1) = true → StreamRefused e) ∧
    ((e.flagsOut &&& 0x0008 != 0) = true → StreamRefused e) ∧ (e.method = 99 → StreamRefused e) ∧
    (∀ v, Method.fromU16 e.method = .unsupported v → StreamRefused e) :=
  ⟨hasDesc_refused, Or.inl, fun h => Or.inr (Or.inl h),
   fun h => Or.inr (Or.inr (by rw [h]; rfl)), fun v h => Or.inr (Or.inr (by rw [h]; rfl))⟩

/-- **`stream_refuses_header`** — on any device whose bytes at the current position are the local record
of an entry with the data-descriptor bit, the encryption bit or an undecodable method,
`read_zipfile_from_stream` answers `UnsupportedArchive` (after consuming the header): no entry, no data. -/
theorem stream_refuses_header (e : Entry) (hf : e.Fits) (hx : ExtraOk e.localExtra) (hr : StreamRefused e)
    (d : Dev) (rest : Bytes) (hd : d.buf.drop d.pos = localRecord e ++ rest) :
    ∃ d', streamHeader.runPure d = (.err .unsupportedArchive, d') ∧ d'.buf = d.buf :=
  let ⟨d', h1, h2, _⟩ := (parsesO_streamHeader_refuses e d.pos hf hx hr).toRuns hd d rfl rfl
  ⟨d', h1, h2⟩

/-- **`stream_refuses`** — in a layout without prefix whose first entries `es1` are servable and
contiguous, an entry `e` the stream cannot serve (encrypted, data descriptor, no decoder) makes the entry
loop — under every consumption pattern — and the visitor end with `UnsupportedArchive` when they reach
it: an error, never an entry, never data. -/
theorem stream_refuses (ext : Ext) (c : List Consume) (l : Layout) (hF : l.Fits) (hp : l.pre = [])
    (es1 es2 : List Entry) (e : Entry) (hes : l.entries = es1 ++ e :: es2)
    (h1 : ∀ x ∈ es1, LocalSizesOk x ∧ x.gapBefore = []) (hg : e.gapBefore = [])
    (hx : ExtraOk e.localExtra) (hr : StreamRefused e) :
    (∃ d', (streamEntriesC ext c ((build l).length / 30 + 1) 0).runPure (Dev.ofBytes (build l)) =
      (.err .unsupportedArchive, d')) ∧
    (∃ d', (streamVisit ext).runPure (Dev.ofBytes (build l)) = (.err .unsupportedArchive, d')) := by
  obtain ⟨d1, h1', _, _⟩ := runs_streamEntriesC_build_refuses ext c l hF hp es1 es2 e hes h1 hg hx hr
    (Dev.ofBytes (build l)) rfl rfl
  obtain ⟨d2, h2', _, _⟩ := runs_streamVisit_build_refuses ext l hF hp es1 es2 e hes h1 hg hx hr
    (Dev.ofBytes (build l)) rfl rfl
  exact ⟨⟨d1, h1'⟩, ⟨d2, h2'⟩⟩

/-- **`stream_never_data`** — on ANY device (arbitrary bytes, truncated, hostile) and under ANY injected
I/O fault: whenever the streaming reader hands out an entry, that entry has the encryption flag and the
data-descriptor flag clear and a method the crate has a decoder for.  Contrapositive: encrypted and
data-descriptor entries never yield an entry (hence never data) — the call ends in an error. -/
theorem stream_never_data (ext : Ext) (c : Consume) (fa : Option Nat) (d d' : Dev) (f : FileData)
    (res : Out Bytes) (h : streamEntryC ext c fa d = (.ok (some (f, res)), d')) :
    f.encrypted = false ∧ f.usingDataDescriptor = false ∧ f.method.decodable = true := by
  unfold streamEntryC at h
  obtain ⟨hd, d1, h1, h2⟩ := M.bind_ok_elim h
  cases hd with
  | none => cases M.pure_ok_eq h2
  | some f0 =>
    obtain ⟨dv, d2, _, h3⟩ := M.bind_ok_elim h2
    obtain ⟨ne, d3, _, h4⟩ := M.bind_ok_elim h3
    obtain ⟨_, d4, _, h5⟩ := M.bind_ok_elim h4
    have hf : f0 = f := by
      obtain ⟨n, eo⟩ := ne
      cases eo with
      | none => exact congrArg Prod.fst (Option.some.inj (M.pure_ok_eq h5))
      | some x => exact congrArg Prod.fst (Option.some.inj (M.pure_ok_eq h5))
    rw [← hf]
    exact streamHeader_some_sound fa d d1 f0 h1

/-! ## 6. Non-vacuity: concrete layouts satisfying every hypothesis, evaluated through the model -/

/-- decoders for the examples: stored is the identity, nothing else is available -/
def exExt : Ext :=
  { decode := fun m b => match m with
      | .stored => .ok b
      | _ => .err (.io .other)
    zipCrypto := fun _ _ _ => .err .unsupportedArchive
    aes := fun _ _ _ _ => .err .unsupportedArchive }

/-- "a.txt", stored, Unix 0644, comment "c" (central only) -/
def exA : Entry :=
  { madeBy := 0x0314, versionNeeded := 20, flags := 0, method := 0, time := 0x6000, date := 0x5821,
    crc := 0x3610a686, usize := 5, name := [0x61, 0x2e, 0x74, 0x78, 0x74], centralExtra := [], comment := [0x63],
    internalAttrs := 0, externalAttrs := 0x81A40000, z64 := (false, false, false), localExtra := [],
    localZip64 := false, desc := .none, gapBefore := [], data := [0x68, 0x65, 0x6c, 0x6c, 0x6f] }

/-- "b", UTF-8 flag, local ZIP64 record (sizes 0xFFFFFFFF in the header) followed by a foreign local extra
record, a different foreign record in the central header, compressed size forced into the central ZIP64
record, DOS host, wrong CRC recorded (so reading to the end reports a checksum error, reading part of it
does not) -/
def exB : Entry :=
  { madeBy := 0x0014, versionNeeded := 45, flags := 0x0800, method := 0, time := 0, date := 0x21,
    crc := 0x12345678, usize := 3, name := [0x62],
    centralExtra := le16 0x5455 ++ le16 5 ++ [1, 0, 0, 0, 0], comment := [],
    internalAttrs := 1, externalAttrs := 0x20, z64 := (false, true, false),
    localExtra := le16 0x7875 ++ le16 2 ++ [9, 9], localZip64 := true, desc := .none,
    gapBefore := [], data := [0x61, 0x62, 0x63] }

def exL : Layout :=
  { pre := [], entries := [exA, exB], gapBeforeCd := [], comment := [0x68, 0x69], zip64End := false,
    trailing := [] }

example : exL.Fits ∧ Contiguous exL ∧ LocalSizes exL ∧ exL.entries ≠ [] ∧ exL.Readable ∧
    Props.C03.NoFalseSig exL ∧ exL.needs64 = false := by decide +kernel

example : LocalSizesOk exA ∧ LocalSizesOk exB ∧ exA.Fits ∧ exB.Fits := by decide +kernel

example : (build exL).length = 244 ∧ exL.cdStart = 100 ∧ exL.end64Pos = 220 := by decide +kernel

attribute [local instance] decEqOutBytes

/-- … and the model really computes that on these 244 bytes (kernel evaluation of the entry loop under
three patterns — nothing asked and nothing pulled / 2 bytes asked with ONE compressed byte pulled in 1-byte
reads, then everything + 1 with a read-ahead beyond the compressed size / everything + 1 —, positions
included: the drain makes up for whatever was not pulled). -/
example :
    (match (streamEntriesC exExt [⟨0, 0, 65536⟩] ((build exL).length / 30 + 1) 0).runPure (Dev.ofBytes (build exL)) with
     | (.ok r, d) => r == [(streamViewEntry exA, .ok []), (streamViewEntry exB, .ok [])] && d.pos == 104
     | _ => false) = true := by decide +kernel

example :
    (match (streamEntriesC exExt [⟨2, 1, 1⟩, ⟨4, 1000, 2⟩] ((build exL).length / 30 + 1) 0).runPure (Dev.ofBytes (build exL)) with
     | (.ok r, d) => r == [(streamViewEntry exA, .ok [0x68, 0x65]), (streamViewEntry exB, .err (.io .other))] &&
        d.pos == 104
     | _ => false) = true := by decide +kernel

example :
    (match (streamEntriesC exExt [⟨1000, 1000, 65536⟩] ((build exL).length / 30 + 1) 0).runPure (Dev.ofBytes (build exL)) with
     | (.ok r, d) => r == [(streamViewEntry exA, .ok exA.data), (streamViewEntry exB, .err (.io .other))] &&
        r == streamResults exExt exL.entries && d.pos == 104
     | _ => false) = true := by decide +kernel

/-- **`no_drain_counter_model`** — the consumption theorems are not true by construction: the same entry
reader WITHOUT the drain (or with a drain that is skipped once the consumer has asked for `size()` bytes —
the seeded change "drop-time drain skipped once the consumer has read size() bytes") ends where the
consumer's reads ended, `data start + pulled`, and the next call reads entry data as a header. -/
def streamEntryNoDrain (ext : Ext) (c : Consume) : M (Option (FileData × Out Bytes)) := do
  let h ← streamHeader
  match h with
  | none => pure none
  | some f => do
    let csize := f.compressedSize.toNat
    let d ← M.getDev
    let raw := (d.buf.drop d.pos).take csize
    let p := min c.pulled csize
    let (n, e) ← takeLoop c.chunk p p
    if c.k < f.uncompressedSize.toNat then drain (csize - n) else pure ()
    match e with
    | some e => pure (some (f, .err e))
    | none => pure (some (f, ext.consume f raw c.k))

/-- "a.txt" (5 stored bytes at 35..40): a consumer that asks for all 5 bytes while the decoder has pulled only
3 compressed bytes — with the drain the device stands at 40, the next record; without it at 38, and the next
header read fails -/
example :
    (match (streamEntryC exExt ⟨5, 3, 65536⟩).runPure (Dev.ofBytes (build exL)),
           (streamEntryNoDrain exExt ⟨5, 3, 65536⟩).runPure (Dev.ofBytes (build exL)) with
     | (.ok (some (_, r)), d), (.ok (some (_, r')), d') =>
        r == .ok exA.data && r' == .ok exA.data && d.pos == 40 && d'.pos == 38 &&
        (match streamHeader.runPure d, streamHeader.runPure d' with
         | (.ok (some f), _), (.err .invalidArchive, _) => f.fileNameRaw == exB.name
         | _, _ => false)
     | _, _ => false) = true := by decide +kernel

/-- a decoder for the examples of a DAMAGED stream: method 8 "decodes" by failing with `InvalidInput` after
handing out the first two bytes -/
def exExtDamaged : Ext :=
  { exExt with
    decode := fun m b => match m with
      | .stored => .ok b
      | _ => .err (.io .invalidInput)
    decodeBefore := fun _ b _ => b.take 2 }

/-- "a.txt" declared Deflated: asking for 0, 1, 2 bytes delivers them, asking for 3 or for everything is the
decoder's error; the position after the entry is the same in all cases -/
example :
    let l : Layout := { exL with entries := [{ exA with method := 8 }, exB] }
    ([0, 1, 2, 3, 1000].map fun k =>
      match (streamEntryC exExtDamaged ⟨k, k, 65536⟩).runPure (Dev.ofBytes (build l)) with
      | (.ok (some (_, r)), d) => (r == .ok (exA.data.take k), r == .err (.io .invalidInput), d.pos)
      | _ => (false, false, 0)) =
    [(true, false, 40), (true, false, 40), (true, false, 40), (false, true, 40), (false, true, 40)] := by
  decide +kernel

/-- the stream's view of "b": sizes from the local ZIP64 record, local extra field verbatim, UTF-8 name,
no comment / attributes / offsets -/
example :
    (streamViewEntry exB).compressedSize = 3 ∧ (streamViewEntry exB).uncompressedSize = 3 ∧
    (streamViewEntry exB).largeFile = true ∧ (streamViewEntry exB).extraField.length = 26 ∧
    (streamViewEntry exB).fileName = [0x62] ∧ (streamViewEntry exB).unixMode = none := by decide +kernel

/-- the visitor: two files, then two metadata records carrying what the stream could not know (comment
"c" and mode 0644 of "a.txt", DOS attributes of "b"), in order, ending 4 bytes into the end record -/
example :
    (match (streamVisit exExt).runPure (Dev.ofBytes (build exL)) with
     | (.ok (files, metas), d) =>
        files == streamResults exExt exL.entries &&
        metas == (viewOf exL).map (fun v => { v with centralHeaderStart := 0 }) &&
        metas.map (·.fileNameRaw) == [exA.name, exB.name] && metas.map (·.fileComment) == [[0x63], []] &&
        metas.map (·.unixMode) == [some 0o100644, some 0o100664] && d.pos == 224
     | _ => false) = true := by decide +kernel

/-- the seekable reader on the same bytes, entry by entry (hypotheses of `stream_eq_seek`) -/
example :
    (match openArchive.runPure (Dev.ofBytes (build exL)) with
     | (.ok a, d1) =>
        a.files.map (·.fileName) == (streamResults exExt exL.entries).map (·.1.fileName) &&
        (match (byIndexRead exExt a 0 none).runPure d1 with
         | (.ok (.ok (_, res)), _) => res == .ok exA.data
         | _ => false) &&
        (match (byIndexRead exExt a 1 none).runPure d1 with
         | (.ok (.ok (_, res)), _) => res == .err (.io .other)
         | _ => false)
     | _ => false) = true := by decide +kernel

/-- refusals: the same archive with "b" encrypted / carrying a data descriptor / using method 99 — the
first entry is servable, the loop and the visitor end with `UnsupportedArchive` -/
def exEnc : Layout := { exL with entries := [exA, { exB with flags := 0x0801 }] }
def exDesc : Layout := { exL with entries := [exA, { exB with desc := .sig32 }] }
def exAes : Layout := { exL with entries := [exA, { exB with method := 99 }] }

example : StreamRefused { exB with flags := 0x0801 } ∧ StreamRefused { exB with desc := .sig32 } ∧
    StreamRefused { exB with method := 99 } ∧ ExtraOk exB.localExtra ∧ exEnc.Fits ∧ exDesc.Fits ∧ exAes.Fits ∧
    ¬ StreamRefused exA ∧ ¬ StreamRefused exB := by decide +kernel

example :
    (match (streamEntriesC exExt [⟨3, 3, 65536⟩] ((build exEnc).length / 30 + 1) 0).runPure (Dev.ofBytes (build exEnc)),
           (streamEntriesC exExt [⟨0, 0, 65536⟩] ((build exDesc).length / 30 + 1) 0).runPure (Dev.ofBytes (build exDesc)),
           (streamVisit exExt).runPure (Dev.ofBytes (build exAes)) with
     | (.err .unsupportedArchive, _), (.err .unsupportedArchive, _), (.err .unsupportedArchive, _) => true
     | _, _, _ => false) = true := by decide +kernel

/-- "at least one entry" is necessary: an archive without entries starts with the end record, which the
entry loop rejects as an invalid local header (the real crate does the same) -/
def exEmpty : Layout := { exL with entries := [] }

example : exEmpty.Fits ∧ Contiguous exEmpty ∧ LocalSizes exEmpty ∧ exEmpty.entries = [] := by decide +kernel
example :
    (match (streamEntriesC exExt [⟨0, 0, 65536⟩] ((build exEmpty).length / 30 + 1) 0).runPure (Dev.ofBytes (build exEmpty)) with
     | (.err .invalidArchive, _) => true
     | _ => false) = true := by decide +kernel

/-- `Contiguous` is necessary: one junk byte before the central directory and the entry loop reports an
invalid header instead of the end of entries -/
def exGap : Layout := { exL with gapBeforeCd := [0] }

example : exGap.Fits ∧ LocalSizes exGap ∧ ¬ Contiguous exGap := by decide +kernel
example :
    (match (streamEntriesC exExt [⟨0, 0, 65536⟩] ((build exGap).length / 30 + 1) 0).runPure (Dev.ofBytes (build exGap)) with
     | (.err .invalidArchive, _) => true
     | _ => false) = true := by decide +kernel

end ZipVerif.Props.C10
