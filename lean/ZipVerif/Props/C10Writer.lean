import ZipVerif.Props.C10
import ZipVerif.Props.C02
import ZipVerif.Props.C02Full
/-
C10 (writer corollary) — every archive a fresh `ZipWriter` produces with the plain calls
(`start_file`, `add_directory`, `add_symlink`, `write`, `set_comment`; no raw copies, no encryption)
can be streamed: the emitted layout is `Contiguous` (no prefix, no gaps, no data descriptors) and
`LocalSizes` (the local headers carry the sizes: they are back-patched by `finish_file`), so
`Props.C10.stream_eq_seek` applies to it.  Second half of the file: the same for the writer's WHOLE
unencrypted alphabet (aligned entries, extra-data mode, raw copies): `writer_output_streams_full`.
-/

namespace ZipVerif.Props.C10Writer
open ZipVerif ZipVerif.Model ZipVerif.Spec.Zip ZipVerif.WL
open ZipVerif.Props.C12 (Call step runCalls)

/-- Level 1 without raw copies. -/
def Plain : Call → Prop
  | .rawCopy _ _ _ => False
  | c => Level1 c

instance : DecidablePred Plain := fun c => by
  cases c <;> unfold Plain <;> infer_instance

theorem Plain.level1R {c : Call} (h : Plain c) : Level1R c := by
  cases c <;> first | exact h | exact h.elim

/-- what a closed entry of such a script looks like to a stream -/
def SE (e : Spec.Zip.Entry) : Prop := LocalSizesOk e ∧ e.gapBefore = [] ∧ e.desc = .none

/-- the record of the open entry: unencrypted, a method with an encoder/decoder -/
def RQ (f : FileData) : Prop := f.encrypted = false ∧ writable f.method = true

/-- ghost-level invariant: no dead bytes anywhere, no raw copy open -/
def Tight : Ghost → Prop
  | .idle done gap _ => gap = [] ∧ ∀ e ∈ done, SE e
  | .opened done gap _ o => gap = [] ∧ (∀ e ∈ done, SE e) ∧ o.raw = false ∧ RQ o.f
  | .dead => True
  | .stuck .. => True
  | .lost => True

theorem flagOf_no_desc (f : FileData) (h : f.encrypted = false) : (flagOf f &&& 0x0008 != 0) = false := by
  unfold flagOf
  rw [h]
  cases isAscii f.fileName <;> decide

theorem toNat_le_of_not_gt {x : UInt64} (h : ¬ x > ZIP64_BYTES_THR) : x.toNat < 4294967296 := by
  have h1 : ¬ ZIP64_BYTES_THR.toNat < x.toNat := fun h' => h (UInt64.lt_iff_toNat_lt.mpr h')
  have : ZIP64_BYTES_THR.toNat = 0xFFFFFFFF := by decide
  omega

theorem se_final {f : FileData} (hq : RQ f) (dp : UInt16) (plain data : Bytes) (lv : UInt16)
    (hov : ¬ (f.largeFile = false ∧ (UInt64.ofNat data.length > ZIP64_BYTES_THR ∨ plain.length > 0xFFFFFFFF))) :
    SE (specEntry (finalRec f plain data) dp [] [] data lv) := by
  refine ⟨⟨rfl, flagOf_plain _ hq.1, flagOf_no_desc _ hq.1, (by show ExtraOk []; decide), ?_, ?_⟩, rfl, rfl⟩
  · show (Method.fromU16 f.method.toU16).decodable = true
    rw [C01.fromU16_toU16 hq.2]
    cases hm : f.method <;> simp_all [writable, Method.decodable, RQ]
  · intro hl
    have hl' : f.largeFile = false := hl
    have h1 : ¬ UInt64.ofNat data.length > ZIP64_BYTES_THR := fun h => hov ⟨hl', Or.inl h⟩
    have h2 : ¬ plain.length > 0xFFFFFFFF := fun h => hov ⟨hl', Or.inr h⟩
    refine ⟨toNat_le_of_not_gt h1, ?_⟩
    show (UInt64.ofNat plain.length).toNat < 4294967296
    rw [UInt64.toNat_ofNat', Nat.mod_eq_of_lt (by omega)]
    omega

theorem Tight.close {ext : WExt} {g : Ghost} (hG : Tight g) {es : List Spec.Zip.Entry} {gap c : Bytes}
    (hg : g.close ext = some (es, gap, c)) : gap = [] ∧ ∀ e ∈ es, SE e := by
  cases g with
  | dead => cases hg
  | stuck ss n wf => cases hg
  | lost => cases hg
  | idle done gap0 c0 => cases hg; exact hG
  | opened done gap0 c0 o =>
    obtain ⟨hgap, hd, hraw, ho⟩ := hG
    simp only [Ghost.close, closeRec] at hg
    cases hdp : o.f.time.datepart with
    | none => rw [hdp] at hg; cases hg
    | some dp =>
      rw [hdp, hraw] at hg
      simp only [Bool.false_eq_true, if_false] at hg
      by_cases hov : o.f.largeFile = false ∧ (UInt64.ofNat (dataOf ext o.f o.plain).length > ZIP64_BYTES_THR ∨ o.plain.length > 0xFFFFFFFF)
      · rw [if_pos hov] at hg; cases hg
      rw [if_neg hov] at hg
      cases hg
      refine ⟨rfl, ?_⟩
      intro e he
      rcases mem_snoc he with h | h
      · exact hd e h
      · rw [h, hgap]; exact se_final ho dp _ _ _ hov

theorem Tight.startG {ext : WExt} {g : Ghost} (hG : Tight g) (name : Bytes) (o : FileOptions) (ok : Bool)
    (wf : Bool) (t : Bytes) (henc : o.encryptWith = none) (hm : ok = true → writable o.method = true) :
    Tight (startG ext g name o none ok fun f => ⟨f, false, t, [], wf⟩) := by
  unfold WL.startG
  split
  · exact hG
  split
  · split <;> trivial
  next es gap c f hst =>
  cases ok with
  | false => trivial
  | true =>
    simp only [if_true]
    obtain ⟨hs, ds, hf⟩ := Ghost.start_rec hst
    obtain ⟨h1, h2⟩ := hG.close (Ghost.start_close hst)
    refine ⟨h1, h2, rfl, ?_, ?_⟩
    · show f.encrypted = false
      rw [hf]; show o.encryptWith.isSome = false; rw [henc]; rfl
    · show writable f.method = true
      rw [hf]; exact hm rfl

theorem tight_step (ext : WExt) (g : Ghost) (c : Call) (hc : Plain c) (out : Out (Option Nat))
    (hG : Tight g) : Tight (ghostStep ext g c out) := by
  by_cases ha : ¬ g.alive
  · have := ghostStep_not_alive ext ha c out
    cases h : ghostStep ext g c out with
    | dead => trivial
    | stuck ss n wf => trivial
    | lost => trivial
    | idle D gap c0 => rw [h] at this; exact absurd trivial this
    | opened D gap c0 o => rw [h] at this; exact absurd trivial this
  have ha : g.alive := Classical.not_not.mp ha
  unfold ghostStep
  split
  · trivial
  rw [ghostStep_alive ext ha]
  unfold ghostStepAlive
  cases c with
  | startFile n o =>
    refine hG.startG _ _ _ _ _ hc ?_
    intro h
    cases h1 : okO out <;> rw [h1] at h <;> simp at h
    exact h
  | addDirectory n o => exact hG.startG _ _ _ _ _ hc (fun _ => rfl)
  | addSymlink n t o => exact hG.startG _ _ _ _ _ hc (fun _ => rfl)
  | rawCopy src raw n => exact hc.elim
  | write b =>
    cases g with
    | dead => trivial
    | stuck ss n wf => trivial
    | lost => trivial
    | idle done gap c0 => exact hG
    | opened done gap c0 o =>
      simp only [Ghost.writeStep]
      split
      · split
        · obtain ⟨h1, h2, h3, h4⟩ := hG
          have hw : o.write b = { o with plain := o.plain ++ b } := by simp [OpenRec.write, h3]
          rw [hw]
          exact ⟨h1, h2, h3, h4⟩
        · trivial
      · exact hG
  | setComment c' =>
    cases g with
    | dead => trivial
    | stuck ss n wf => trivial
    | lost => trivial
    | idle done gap c0 => exact hG
    | opened done gap c0 o => exact hG
  | endExtraData => exact hG
  | endLocalStartCentral => exact hG
  | startFileWithExtraData n o => exact hc.elim
  | startFileAligned n o a => exact hc.elim
  | finish => exact hc.elim
  | drop => exact hc.elim

theorem tight_run (ext : WExt) : ∀ (calls : List Call) (outs : List (Out (Option Nat))) (g : Ghost),
    (∀ c ∈ calls, Plain c) → Tight g → Tight (ghostOf ext g calls outs)
  | [], outs, g, _, hG => by cases outs <;> exact hG
  | c :: cs, [], g, _, hG => hG
  | c :: cs, o :: os, g, hc, hG =>
    tight_run ext cs os _ (fun c' h' => hc c' (by simp [h'])) (tight_step ext g c (hc c (by simp)) o hG)

/-- **`writer_output_streams`** — a fresh writer, a script of plain calls, `finish` returns `Ok`: the
sink is `build L` for a layout `L` that is `Contiguous` and `LocalSizes` (and `Readable`; `Fits` under
the size bounds) … -/
theorem writer_output_streams (ext : WExt) (calls : List Call) (hc : ∀ c ∈ calls, Plain c)
    (ha : ∀ c ∈ calls, c.Admissible) (es : List Spec.Zip.Entry) (gap c : Bytes)
    (hg : (C01.finalGhost ext calls).close ext = some (es, gap, c))
    (v : Option Nat) (s' : WState) (d' : Dev)
    (hfin : step ext .finish (runCalls ext calls WState.init none (Dev.ofBytes [])).2.1 none
      (runCalls ext calls WState.init none (Dev.ofBytes [])).2.2 = (.ok (.ok v, s'), d')) :
    d'.buf = build (layoutOf es gap c []) ∧
    C10.Contiguous (layoutOf es gap c []) ∧ C10.LocalSizes (layoutOf es gap c []) ∧
    (layoutOf es gap c []).Readable ∧ c.length ≤ 65535 ∧ (∀ e ∈ es, EntryOk e) := by
  obtain ⟨hbuf, hok, hclen, hR⟩ := C02.writer_output_valid ext calls (fun c h => (hc c h).level1R) ha
    es gap c hg v s' d' hfin
  have hT : Tight (C01.finalGhost ext calls) :=
    tight_run ext calls _ _ hc (show Tight (.idle [] [] []) from ⟨rfl, fun e he => by cases he⟩)
  obtain ⟨hgap, hse⟩ := hT.close hg
  exact ⟨hbuf, ⟨rfl, fun e he => ⟨(hse e he).2.1, (hse e he).2.2⟩, hgap⟩, fun e he => (hse e he).1,
    hR, hclen, hok⟩

/-- … **hence the streaming reader and the seekable reader agree on it** (`C10.stream_eq_seek`, whose
remaining hypotheses are the size bounds, a non-empty archive and the property's own `NoFalseSig`). -/
theorem writer_output_stream_eq_seek (wext : WExt) (rext : Ext) (calls : List Call)
    (hc : ∀ c ∈ calls, Plain c) (ha : ∀ c ∈ calls, c.Admissible)
    (es : List Spec.Zip.Entry) (gap c : Bytes)
    (hg : (C01.finalGhost wext calls).close wext = some (es, gap, c))
    (v : Option Nat) (s' : WState) (d' : Dev)
    (hfin : step wext .finish (runCalls wext calls WState.init none (Dev.ofBytes [])).2.1 none
      (runCalls wext calls WState.init none (Dev.ofBytes [])).2.2 = (.ok (.ok v, s'), d'))
    (hne : es ≠ []) (hN : C03.NoFalseSig (layoutOf es gap c []))
    (hsize : (build (layoutOf es gap c [])).length < 2 ^ 63)
    (hu : ∀ e ∈ es, e.usize.toNat < 2 ^ 63) :
    ∃ a d1 files d2,
      openArchive.runPure (Dev.ofBytes d'.buf) = (.ok a, d1) ∧
      (streamEntries rext (d'.buf.length / 30 + 1)).runPure (Dev.ofBytes d'.buf) = (.ok files, d2) ∧
      files.length = a.files.length ∧ files.length = es.length ∧
      ∀ i, i < files.length → ∃ v sv res, a.files[i]? = some v ∧ files[i]? = some (sv, res) ∧
        sv.fileName = v.fileName ∧ sv.method = v.method ∧ sv.time = v.time ∧ sv.crc32 = v.crc32 ∧
        sv.compressedSize = v.compressedSize ∧ sv.uncompressedSize = v.uncompressedSize ∧
        (∃ ds d3, (byIndexRead rext a i none).runPure d1 = (.ok (.ok (ds, res)), d3)) := by
  obtain ⟨hbuf, hC, hS, hR, hclen, hok⟩ := writer_output_streams wext calls hc ha es gap c hg v s' d' hfin
  have hF := C02.writer_output_fits gap c hok hclen hsize hu
  obtain ⟨a, d1, files, d2, h1, h2, _, h4, h5, _, h7⟩ :=
    C10.stream_eq_seek rext _ hF hC hS hne hR hN (Or.inl rfl)
  rw [hbuf]
  refine ⟨a, d1, files, d2, h1, h2, h4, h5, ?_⟩
  intro i hi
  obtain ⟨v, sv, res, k1, k2, k3, _, k5, k6, k7, k8, k9, _, _, k12, _⟩ := h7 i hi
  exact ⟨v, sv, res, k1, k2, k3, k5, k6, k7, k8, k9, k12⟩

/-! ## Level 2: the writer's whole unencrypted alphabet

Aligned entries (`start_file_aligned`), extra-data mode (`start_file_with_extra_data`, `write` into the extra
field, `end_local_start_central_extra_data`, `end_extra_data`) and raw copies — everything the writer emits
without encryption.  The layout theorem is `C02Full.writer_emits_layout_full`; what is added here is the
ghost-level invariant `Tight2` (no dead bytes, every closed entry unencrypted with a decodable method and sizes
that fit its local header), which together with `Good2` (local extra data are validated records) gives
`LocalSizesOk`.  Raw copies: the source's method must have a decoder, and no non-empty `write` may follow the
copy while it is the open entry (`NoStray`: such bytes land between the entries — `C01.script2`). -/

/-- what `Tight2` says of a closed entry (`LocalSizesOk` minus the well-formedness of the local extra data,
which `Good2` provides) -/
def ST (e : Spec.Zip.Entry) : Prop :=
  (e.flags &&& 1 == 1) = false ∧ (e.flags &&& 0x0008 != 0) = false ∧
  (Method.fromU16 e.method).decodable = true ∧
  (e.localZip64 = false → e.csize.toNat < 4294967296 ∧ e.usize.toNat < 4294967296) ∧
  e.gapBefore = [] ∧ e.desc = .none

/-- the open entry -/
structure OpenT (o : Open2) : Prop where
  junk : o.junk = []
  enc : o.enc = none
  encF : o.f.encrypted = false
  meth : o.phase ≠ .localX → writable o.f.method = true
  rawP : o.raw = true → o.phase = .data
  rawS : o.raw = true → o.f.largeFile = false →
    o.plain.length < 4294967296 ∧ o.f.uncompressedSize.toNat < 4294967296

/-- `flag` = a raw copy may be the open entry -/
def Tight2 (flag : Bool) : Ghost2 → Prop
  | .idle done gap _ => gap = [] ∧ ∀ e ∈ done, ST e
  | .opened done gap _ o => gap = [] ∧ (∀ e ∈ done, ST e) ∧ OpenT o ∧ (o.raw = true → flag = true)
  | .dead => True
  | .stuck .. => True
  | .lost => True

theorem decodable_of_writable {m : Method} (h : writable m = true) :
    (Method.fromU16 m.toU16).decodable = true := by
  rw [C01.fromU16_toU16 h]
  cases m <;> simp_all [writable, Method.decodable]

theorem not_refused_writable {c : Method} {l : Option Int} (h : ¬ Refused c l) : writable c = true := by
  cases c with
  | aes => exact absurd trivial h
  | unsupported v => exact absurd trivial h
  | stored => rfl
  | deflated => rfl
  | bzip2 => rfl
  | zstd => rfl

theorem flagOf_no_desc2 (f : FileData) : (flagOf f &&& 0x0008 != 0) = false := by
  unfold flagOf
  cases isAscii f.fileName <;> cases f.encrypted <;> decide

theorem st_closed {ext : WExt} {o : Open2} (h : OpenT o) (hph : o.phase = .data) (dp : UInt16) (lv : UInt16)
    (h1 : ¬ (o.f.largeFile = false ∧ o.plain.length > 0xFFFFFFFF))
    (h2 : ¬ (o.f.largeFile = false ∧ UInt64.ofNat (dataOf2 ext o.f o.enc o.plain).length > ZIP64_BYTES_THR)) :
    ST (specEntry (closedRec o.f o.cx o.plain (dataOf2 ext o.f o.enc o.plain)) dp [] o.lx
      (dataOf2 ext o.f o.enc o.plain) lv) := by
  refine ⟨flagOf_plain _ h.encF, flagOf_no_desc2 _, ?_, ?_, rfl, rfl⟩
  · exact decodable_of_writable (h.meth (by rw [hph]; intro h'; cases h'))
  · intro hl
    have hl' : o.f.largeFile = false := hl
    have k1 : ¬ UInt64.ofNat (dataOf2 ext o.f o.enc o.plain).length > ZIP64_BYTES_THR := fun hh => h2 ⟨hl', hh⟩
    have k2 : ¬ o.plain.length > 0xFFFFFFFF := fun hh => h1 ⟨hl', hh⟩
    refine ⟨toNat_le_of_not_gt k1, ?_⟩
    show (UInt64.ofNat o.plain.length).toNat < 4294967296
    rw [UInt64.toNat_ofNat', Nat.mod_eq_of_lt (by omega)]
    omega

theorem st_raw {o : Open2} (h : OpenT o) (hraw : o.raw = true) (dp : UInt16) (lv : UInt16) :
    ST (specEntry o.f dp [] [] o.plain lv) := by
  refine ⟨flagOf_plain _ h.encF, flagOf_no_desc2 _, ?_, ?_, rfl, rfl⟩
  · exact decodable_of_writable (h.meth (by rw [h.rawP hraw]; intro h'; cases h'))
  · intro hl
    obtain ⟨k1, k2⟩ := h.rawS hraw hl
    refine ⟨?_, k2⟩
    show (UInt64.ofNat o.plain.length).toNat < 4294967296
    rw [UInt64.toNat_ofNat', Nat.mod_eq_of_lt (by omega)]
    exact k1

theorem OpenT.finData {ext : WExt} {o : Open2} (h : OpenT o) (hph : o.phase = .data)
    {done : List Spec.Zip.Entry} (hd : ∀ e ∈ done, ST e)
    {es : List Spec.Zip.Entry} {gap' : Bytes} (hf : o.finData ext done [] = .ok es gap') :
    gap' = [] ∧ ∀ e ∈ es, ST e := by
  unfold Open2.finData at hf
  split at hf
  · cases hf
  next dp hdp =>
    split at hf
    next hraw =>
      cases hf
      refine ⟨h.junk, ?_⟩
      intro e he
      rcases mem_snoc he with k | k
      · exact hd e k
      · rw [k]; exact st_raw h hraw _ _
    · split at hf
      · cases hf
      next h1 =>
        split at hf
        · cases hf
        · split at hf
          · split at hf <;> cases hf
          next h2 =>
            cases hf
            refine ⟨rfl, ?_⟩
            intro e he
            rcases mem_snoc he with k | k
            · exact hd e k
            · rw [k]; exact st_closed h hph _ _ h1 h2

theorem OpenT.endExtra {o o' : Open2} (h : OpenT o) (hx : o.endExtra = .ok o') :
    OpenT o' ∧ o'.phase = .data := by
  obtain ⟨ef, er, ep, ej, _, ee, _⟩ := endExtra_fields hx
  unfold Open2.endExtra at hx
  split at hx
  · cases hx
  · split at hx
    next hph =>
      split at hx
      · cases hx
      next hr =>
        cases hx
        exact ⟨⟨h.junk, h.enc, h.encF, fun _ => not_refused_writable hr, fun _ => rfl, h.rawS⟩, rfl⟩
    next hph =>
      cases hx
      exact ⟨⟨h.junk, h.enc, h.encF, fun _ => h.meth hph, fun _ => rfl, h.rawS⟩, rfl⟩

theorem OpenT.not_raw {o : Open2} (h : OpenT o) (hph : o.phase ≠ .data) : o.raw = false := by
  cases hr : o.raw
  · rfl
  · exact absurd (h.rawP hr) hph

theorem OpenT.setCx {o : Open2} (h : OpenT o) (hph : o.phase ≠ .data) (x : Bytes) : OpenT { o with cx := x } :=
  ⟨h.junk, h.enc, h.encF, h.meth, fun hr => absurd (h.rawP hr) hph, h.rawS⟩

theorem OpenT.endLocal {o o' : Open2} (h : OpenT o) (hph : o.phase ≠ .data) (hx : o.endLocal = .ok o') :
    OpenT o' ∧ o'.raw = false := by
  unfold Open2.endLocal at hx
  split at hx
  next o1 hx1 =>
    cases hx
    obtain ⟨h1, hp1⟩ := h.endExtra hx1
    have hraw : o1.raw = false := by rw [(endExtra_fields hx1).2.1]; exact h.not_raw hph
    refine ⟨⟨h1.junk, h1.enc, h1.encF, fun _ => h1.meth (by rw [hp1]; intro h'; cases h'), fun hr => ?_,
      fun hr => ?_⟩, hraw⟩
    · have : o1.raw = true := hr
      rw [hraw] at this; cases this
    · have : o1.raw = true := hr
      rw [hraw] at this; cases this
  · cases hx
  · cases hx

theorem finData_ne_unchanged {ext : WExt} {o : Open2} {done : List Spec.Zip.Entry} {gap : Bytes} :
    o.finData ext done gap ≠ .unchanged := by
  unfold Open2.finData
  split
  · intro h; cases h
  · split
    · intro h; cases h
    · split
      · intro h; cases h
      · split
        · intro h; cases h
        · split
          · split <;> (intro h; cases h)
          · intro h; cases h

theorem Tight2.fin {ext : WExt} {flag : Bool} {g : Ghost2} (hG : Tight2 flag g)
    {es : List Spec.Zip.Entry} {gap : Bytes} (hf : g.fin ext = .ok es gap) : gap = [] ∧ ∀ e ∈ es, ST e := by
  cases g with
  | dead => cases hf
  | stuck ss n wf => cases hf
  | lost => cases hf
  | idle done gap0 c => cases hf; exact hG
  | opened done gap0 c o =>
    obtain ⟨hg0, hd, ho, _⟩ := hG
    subst hg0
    have hf' : o.fin ext done [] = .ok es gap := hf
    unfold Open2.fin at hf'
    cases hph : o.phase with
    | data => rw [hph] at hf'; exact ho.finData hph hd hf'
    | localX =>
      rw [hph] at hf'
      dsimp only at hf'
      cases hx : o.endExtra with
      | ok o' => rw [hx] at hf'; exact (ho.endExtra hx).1.finData (ho.endExtra hx).2 hd hf'
      | unchanged => rw [hx] at hf'; cases hf'
      | dead => rw [hx] at hf'; cases hf'
    | centralX =>
      rw [hph] at hf'
      dsimp only at hf'
      cases hx : o.endExtra with
      | ok o' => rw [hx] at hf'; exact (ho.endExtra hx).1.finData (ho.endExtra hx).2 hd hf'
      | unchanged => rw [hx] at hf'; cases hf'
      | dead => rw [hx] at hf'; cases hf'

/-- a ghost whose `finish_file` is refused without effect is in extra-data mode: not a raw copy -/
theorem Tight2.of_unchanged {ext : WExt} {flag flag' : Bool} {g : Ghost2} (hG : Tight2 flag g)
    (hf : g.fin ext = .unchanged) : Tight2 flag' g := by
  cases g with
  | dead => trivial
  | stuck ss n wf => trivial
  | lost => trivial
  | idle done gap0 c => exact hG
  | opened done gap0 c o =>
    obtain ⟨hg0, hd, ho, _⟩ := hG
    refine ⟨hg0, hd, ho, fun hr => ?_⟩
    have hf' : o.fin ext done gap0 = .unchanged := hf
    unfold Open2.fin at hf'
    rw [ho.rawP hr] at hf'
    exact absurd hf' finData_ne_unchanged

theorem Tight2.mono {flag flag' : Bool} {g : Ghost2} (hG : Tight2 flag g) (h : flag = true → flag' = true) :
    Tight2 flag' g := by
  cases g with
  | dead => trivial
  | stuck ss n wf => trivial
  | lost => trivial
  | idle done gap0 c => exact hG
  | opened done gap0 c o => exact ⟨hG.1, hG.2.1, hG.2.2.1, fun hr => h (hG.2.2.2 hr)⟩

theorem Tight2.startG2 {ext : WExt} {flag flag' : Bool} {g : Ghost2} (hG : Tight2 flag g) (name : Bytes)
    (o : FileOptions) (raw : Option (UInt32 × UInt64 × UInt64))
    (after : List Spec.Zip.Entry → Bytes → Bytes → FileData → Ghost2)
    (hflag : name.length > 65535 → flag = true → flag' = true)
    (hafter : ∀ es c hs, name.length ≤ 65535 → (∀ e ∈ es, ST e) →
      Tight2 flag' (after es [] c (mkRec name o raw hs 0))) :
    Tight2 flag' (startG2 ext g name o raw after) := by
  unfold WL.startG2
  split
  next hn => exact hG.mono (hflag hn)
  next hn =>
  split
  next hf => exact hG.of_unchanged hf
  · trivial
  · trivial
  · trivial
  next es gap hf =>
    obtain ⟨hgap, hes⟩ := hG.fin hf
    subst hgap
    split
    · trivial
    next f dp hsr =>
      rw [startRec2_rec hsr]
      exact hafter es _ _ (by omega) hes

theorem openT_new (name : Bytes) (o : FileOptions) (hs : Nat) (plain : Bytes) (wf : Bool) (ph : Phase)
    (henc : o.encryptWith = none) (hm : ph ≠ .localX → writable o.method = true) :
    OpenT (newOpen (mkRec name o none hs 0) false plain wf none ph) :=
  ⟨rfl, rfl, (by show o.encryptWith.isSome = false; rw [henc]; rfl), hm, (fun h => by cases h),
    (fun h => by cases h)⟩

/-- The writer's unencrypted alphabet: `Level2R`, no encryption option, raw copies of entries whose method
has a decoder. -/
def Plain2 (c : Call) : Prop :=
  Level2R c ∧ match c with
    | .startFile _ o => o.encryptWith = none
    | .addDirectory _ o => o.encryptWith = none
    | .addSymlink _ _ o => o.encryptWith = none
    | .rawCopy src _ _ => writable src.method = true
    | _ => True

instance : DecidablePred Plain2 := fun c => by
  unfold Plain2
  cases c <;> infer_instance

/-- may a raw copy be the open entry after the call? (a call that starts an entry replaces the open entry
unless its name is refused) -/
def flagAfter (flag : Bool) : Call → Bool
  | .rawCopy _ _ _ => true
  | .startFile n _ => flag && decide (n.length > 65535)
  | .addDirectory n _ => flag && decide ((dirName n).length > 65535)
  | .addSymlink n _ _ => flag && decide (n.length > 65535)
  | .startFileWithExtraData n _ => flag && decide (n.length > 65535)
  | .startFileAligned n _ _ => flag && decide (n.length > 65535)
  | _ => flag

/-- no non-empty `write` while a raw copy may be the open entry (the bytes would land behind the copied
data, between the entries: `C01.script2`) -/
def writeOk (flag : Bool) : Call → Prop
  | .write b => flag = true → b = []
  | _ => True

instance (flag : Bool) : DecidablePred (writeOk flag) := fun c => by
  cases c <;> unfold writeOk <;> infer_instance

def NoStray : Bool → List Call → Prop
  | _, [] => True
  | flag, c :: cs => writeOk flag c ∧ NoStray (flagAfter flag c) cs

instance instDecNoStray : ∀ (flag : Bool) (cs : List Call), Decidable (NoStray flag cs)
  | _, [] => isTrue trivial
  | flag, c :: cs => by
    unfold NoStray
    have := instDecNoStray (flagAfter flag c) cs
    infer_instance

theorem flag_and_long {flag : Bool} {n : Nat} (h : n > 65535) :
    flag = true → (flag && decide (n > 65535)) = true := by
  intro hf; simp [h, hf]

theorem tight2_step (ext : WExt) (flag : Bool) (g : Ghost2) (c : Call) (hc : Plain2 c)
    (hw : writeOk flag c) (out : Out (Option Nat)) (hG : Tight2 flag g) : Tight2 (flagAfter flag c) (ghostStep2 ext g c out) := by
  obtain ⟨⟨⟨ha, hx⟩, hr⟩, hp⟩ := hc
  unfold ghostStep2
  split
  · trivial
  cases c with
  | startFile n o =>
    apply hG.startG2 _ _ _ _ (fun h => flag_and_long h)
    intro es c0 hs hn hes
    split
    next hok =>
      have hwr : writable (fileOpts o).method = true := by
        cases h1 : okO out <;> rw [h1] at hok <;> simp at hok
        exact hok
      have henc : o.encryptWith = none := hp
      rw [henc]
      exact ⟨rfl, hes, openT_new n (fileOpts o) hs [] true .data henc (fun _ => hwr), fun h => by cases h⟩
    · trivial
  | addDirectory n o =>
    apply hG.startG2 _ _ _ _ (fun h => flag_and_long h)
    intro es c0 hs hn hes
    split
    · have henc : o.encryptWith = none := hp
      rw [henc]
      exact ⟨rfl, hes, openT_new (dirName n) (dirOpts o) hs [] false .data henc (fun _ => rfl),
        fun h => by cases h⟩
    · trivial
  | addSymlink n t o =>
    apply hG.startG2 _ _ _ _ (fun h => flag_and_long h)
    intro es c0 hs hn hes
    split
    · have henc : o.encryptWith = none := hp
      rw [henc]
      exact ⟨rfl, hes, openT_new n (linkOpts o) hs t false .data henc (fun _ => rfl), fun h => by cases h⟩
    · trivial
  | rawCopy src raw n =>
    apply hG.startG2 (flag' := true) _ _ _ _ (fun h => ?_)
    · intro es c0 hs hn hes
      split
      · refine ⟨rfl, hes, ⟨rfl, rfl, rfl, fun _ => hp, fun _ => rfl, fun _ hl => ?_⟩, fun _ => rfl⟩
        have hlen : raw.length = src.compressedSize.toNat := hx
        have hle : ¬ (if src.compressedSize ≥ src.uncompressedSize then src.compressedSize
            else src.uncompressedSize) ≥ ZIP64_BYTES_THR :=
          of_decide_eq_false (show decide ((if src.compressedSize ≥ src.uncompressedSize then
            src.compressedSize else src.uncompressedSize) ≥ ZIP64_BYTES_THR) = false from hl)
        have hb := toNat_le_of_not_gt (fun h => hle (UInt64.le_of_lt h))
        show raw.length < 4294967296 ∧ src.uncompressedSize.toNat < 4294967296
        rw [hlen]
        by_cases hge : src.compressedSize ≥ src.uncompressedSize
        · rw [if_pos hge] at hb
          have : src.uncompressedSize.toNat ≤ src.compressedSize.toNat := UInt64.le_iff_toNat_le.mp hge
          omega
        · rw [if_neg hge] at hb
          have : src.compressedSize.toNat < src.uncompressedSize.toNat :=
            UInt64.lt_iff_toNat_lt.mp (UInt64.not_le.mp hge)
          omega
      · trivial
    · intro _; rfl
  | startFileWithExtraData n o =>
    apply hG.startG2 _ _ _ _ (fun h => flag_and_long h)
    intro es c0 hs hn hes
    have henc : (fileOpts o).encryptWith = none := ha.2
    exact ⟨rfl, hes, openT_new n (fileOpts o) hs [] true .localX henc (fun h' => absurd rfl h'),
      fun h => by cases h⟩
  | startFileAligned n o a =>
    apply hG.startG2 _ _ _ _ (fun h => flag_and_long h)
    intro es c0 hs hn hes
    have henc : (fileOpts o).encryptWith = none := ha.2
    have h1 := openT_new n (fileOpts o) hs [] true .localX henc (fun h' => absurd rfl h')
    have hph1 : (newOpen (mkRec n (fileOpts o) none hs 0) false [] true none .localX).phase ≠ .data := by
      intro h'; cases h'
    unfold alignedAfter
    dsimp only
    split
    · have h2 := h1.setCx hph1 (padRecord ((a.toNat -
        ((newOpen (mkRec n (fileOpts o) none hs 0) false [] true none .localX).dataStart es [] + 4) % a.toNat) % a.toNat))
      split
      · exact ⟨rfl, hes, h2, fun h => by cases h⟩
      · trivial
      next o3 hx3 =>
        obtain ⟨h3, hr3⟩ := h2.endLocal hph1 hx3
        split
        next o4 hx4 =>
          refine ⟨rfl, hes, (h3.endExtra hx4).1, fun h => ?_⟩
          rw [(endExtra_fields hx4).2.1, hr3] at h; cases h
        · exact ⟨rfl, hes, h3, fun h => by rw [hr3] at h; cases h⟩
        · trivial
    · split
      next o4 hx4 =>
        refine ⟨rfl, hes, (h1.endExtra hx4).1, fun h => ?_⟩
        rw [(endExtra_fields hx4).2.1] at h; cases h
      · exact ⟨rfl, hes, h1, fun h => by cases h⟩
      · trivial
  | write b =>
    cases g with
    | dead => trivial
    | stuck ss n wf =>
      show Tight2 flag (if wf = true then (if okO out = true then
        (if ss + (n + b.length) < 18446744073709551616 then Ghost2.stuck ss (n + b.length) wf else .lost)
        else .dead) else .stuck ss n wf)
      split
      · split
        · split <;> trivial
        · trivial
      · trivial
    | lost => trivial
    | idle done gap c0 => exact hG
    | opened done gap c0 o =>
      obtain ⟨hg0, hd, ho, hfl⟩ := hG
      show Tight2 flag (match o.phase with
        | .data => if o.wf then (if okO out then .opened done gap c0 (o.writeData b) else .dead)
            else .opened done gap c0 o
        | _ => .opened done gap c0 { o with cx := o.cx ++ b })
      split
      · split
        · split
          · unfold Open2.writeData
            split
            next hraw =>
              have hb : b = [] := hw (hfl hraw)
              subst hb
              exact ⟨hg0, hd, ⟨by show o.junk ++ [] = []; rw [List.append_nil]; exact ho.junk, ho.enc,
                ho.encF, ho.meth, ho.rawP, ho.rawS⟩, hfl⟩
            next hraw =>
              refine ⟨hg0, hd, ⟨ho.junk, ho.enc, ho.encF, ho.meth, ho.rawP, fun hr => absurd hr hraw⟩,
                fun hr => absurd hr hraw⟩
          · trivial
        · exact ⟨hg0, hd, ho, hfl⟩
      next hph => exact ⟨hg0, hd, ho.setCx (fun h' => hph h') _, hfl⟩
  | endExtraData =>
    cases g with
    | dead => trivial
    | stuck ss n wf => trivial
    | lost => trivial
    | idle done gap c0 => exact hG
    | opened done gap c0 o =>
      obtain ⟨hg0, hd, ho, hfl⟩ := hG
      show Tight2 flag (if o.phase = .data then _ else _)
      split
      · exact ⟨hg0, hd, ho, hfl⟩
      · split
        next o' hx' =>
          exact ⟨hg0, hd, (ho.endExtra hx').1, fun h => hfl (by rw [← (endExtra_fields hx').2.1]; exact h)⟩
        · exact ⟨hg0, hd, ho, hfl⟩
        · trivial
  | endLocalStartCentral =>
    cases g with
    | dead => trivial
    | stuck ss n wf => trivial
    | lost => trivial
    | idle done gap c0 => exact hG
    | opened done gap c0 o =>
      obtain ⟨hg0, hd, ho, hfl⟩ := hG
      show Tight2 flag (if o.phase = .data then _ else _)
      split
      · exact ⟨hg0, hd, ho, hfl⟩
      next hph =>
        split
        next o' hx' =>
          obtain ⟨h3, hr3⟩ := ho.endLocal hph hx'
          exact ⟨hg0, hd, h3, fun h => by rw [hr3] at h; cases h⟩
        · exact ⟨hg0, hd, ho, hfl⟩
        · trivial
  | setComment c' =>
    cases g with
    | dead => trivial
    | stuck ss n wf => trivial
    | lost => trivial
    | idle done gap c0 => exact hG
    | opened done gap c0 o => exact hG
  | finish => exact hx.elim
  | drop => exact hx.elim

theorem tight2_run (ext : WExt) : ∀ (calls : List Call) (outs : List (Out (Option Nat))) (flag : Bool)
    (g : Ghost2), (∀ c ∈ calls, Plain2 c) → NoStray flag calls → Tight2 flag g →
    ∃ flag', Tight2 flag' (ghostOf2 ext g calls outs)
  | [], outs, flag, g, _, _, hG => by cases outs <;> exact ⟨flag, hG⟩
  | c :: cs, [], flag, g, _, _, hG => ⟨flag, hG⟩
  | c :: cs, o :: os, flag, g, hc, hs, hG =>
    tight2_run ext cs os _ _ (fun c' h' => hc c' (by simp [h'])) hs.2
      (tight2_step ext flag g c (hc c (by simp)) hs.1 o hG)

/-- **`writer_output_streams_full`** — a fresh writer, a script over the writer's WHOLE unencrypted alphabet
(`Plain2`: plain entries, directories, symlinks, aligned entries, extra-data mode, raw copies of entries
whose method has a decoder; `NoStray`: no non-empty `write` into a raw copy), `finish` returns `Ok`: the sink
is `build L` for a layout `L` that is `Contiguous` and `LocalSizes` (and `Readable`). -/
theorem writer_output_streams_full (ext : WExt) (calls : List Call) (hc : ∀ c ∈ calls, Plain2 c)
    (hs : NoStray false calls) (es : List Spec.Zip.Entry) (gap c : Bytes)
    (hg : (C02Full.finalGhost2 ext calls).close ext = some (es, gap, c))
    (v : Option Nat) (s' : WState) (d' : Dev)
    (hfin : step ext .finish (runCalls ext calls WState.init none (Dev.ofBytes [])).2.1 none
      (runCalls ext calls WState.init none (Dev.ofBytes [])).2.2 = (.ok (.ok v, s'), d')) :
    d'.buf = build (layoutOf es gap c []) ∧
    C10.Contiguous (layoutOf es gap c []) ∧ C10.LocalSizes (layoutOf es gap c []) ∧
    (layoutOf es gap c []).Readable ∧ c.length ≤ 65535 ∧ (∀ e ∈ es, EntryOk2 e) := by
  obtain ⟨hbuf, hok, hclen, hR⟩ := C02Full.writer_output_valid_full ext calls (fun c h => (hc c h).1)
    es gap c hg v s' d' hfin
  obtain ⟨fl, hT⟩ := tight2_run ext calls (runCalls ext calls WState.init none (Dev.ofBytes [])).1 false
    (.idle [] [] []) hc hs (show Tight2 false (.idle [] [] []) from ⟨rfl, fun e he => by cases he⟩)
  obtain ⟨hgap, hst⟩ := hT.fin (Ghost2.close_fin hg).1
  refine ⟨hbuf, ⟨rfl, fun e he => ⟨(hst e he).2.2.2.2.1, (hst e he).2.2.2.2.2⟩, hgap⟩, fun e he => ?_,
    hR, hclen, hok⟩
  obtain ⟨k1, k2, k3, k4, _, k6⟩ := hst e he
  exact ⟨by simp [Spec.Zip.Entry.hasDesc, k6], k1, k2, (hok e he).lxOk, k3, k4⟩

/-- … **hence the streaming reader and the seekable reader agree on it** (`C10.stream_eq_seek`; remaining
hypotheses: the size bounds, room for a ZIP64 record next to the central extra data, a non-empty archive
and the property's own `NoFalseSig`). -/
theorem writer_output_stream_eq_seek_full (wext : WExt) (rext : Ext) (calls : List Call)
    (hc : ∀ c ∈ calls, Plain2 c) (hs : NoStray false calls)
    (es : List Spec.Zip.Entry) (gap c : Bytes)
    (hg : (C02Full.finalGhost2 wext calls).close wext = some (es, gap, c))
    (v : Option Nat) (s' : WState) (d' : Dev)
    (hfin : step wext .finish (runCalls wext calls WState.init none (Dev.ofBytes [])).2.1 none
      (runCalls wext calls WState.init none (Dev.ofBytes [])).2.2 = (.ok (.ok v, s'), d'))
    (hne : es ≠ []) (hN : C03.NoFalseSig (layoutOf es gap c []))
    (hsize : (build (layoutOf es gap c [])).length < 2 ^ 63)
    (hu : ∀ e ∈ es, e.usize.toNat < 2 ^ 63)
    (hcx : ∀ e ∈ es, e.centralExtra.length + 28 ≤ 0xFFFF) :
    ∃ a d1 files d2,
      openArchive.runPure (Dev.ofBytes d'.buf) = (.ok a, d1) ∧
      (streamEntries rext (d'.buf.length / 30 + 1)).runPure (Dev.ofBytes d'.buf) = (.ok files, d2) ∧
      files.length = a.files.length ∧ files.length = es.length ∧
      ∀ i, i < files.length → ∃ v sv res, a.files[i]? = some v ∧ files[i]? = some (sv, res) ∧
        sv.fileName = v.fileName ∧ sv.method = v.method ∧ sv.time = v.time ∧ sv.crc32 = v.crc32 ∧
        sv.compressedSize = v.compressedSize ∧ sv.uncompressedSize = v.uncompressedSize ∧
        (∃ ds d3, (byIndexRead rext a i none).runPure d1 = (.ok (.ok (ds, res)), d3)) := by
  obtain ⟨hbuf, hC, hS, _, hclen, hok⟩ :=
    writer_output_streams_full wext calls hc hs es gap c hg v s' d' hfin
  obtain ⟨hF, hR⟩ := layout_fits_readable2 gap c [] hok hclen hsize hu hcx
  obtain ⟨a, d1, files, d2, h1, h2, _, h4, h5, _, h7⟩ :=
    C10.stream_eq_seek rext _ hF hC hS hne hR hN (Or.inl rfl)
  rw [hbuf]
  refine ⟨a, d1, files, d2, h1, h2, h4, h5, ?_⟩
  intro i hi
  obtain ⟨v, sv, res, k1, k2, k3, _, k5, k6, k7, k8, k9, _, _, k12, _⟩ := h7 i hi
  exact ⟨v, sv, res, k1, k2, k3, k5, k6, k7, k8, k9, k12⟩

/-! ### Non-vacuity -/

example : ∀ c ∈ C01.script1, Plain c ∧ c.Admissible := by decide

/-- the layout `script1` of C01 emits is `Contiguous`, `LocalSizes`, non-empty -/
example :
    (match (C01.finalGhost C01.wext1 C01.script1).close C01.wext1 with
     | some (es, gap, c) =>
       decide (C10.Contiguous (layoutOf es gap c [])) && decide (C10.LocalSizes (layoutOf es gap c [])) &&
       !es.isEmpty
     | none => false) = true := by decide +kernel

/-- the restriction "no raw copy followed by a stray `write`" is needed: `script2` leaves a dead byte -/
example :
    (match (C01.finalGhost C01.wext1 C01.script2).close C01.wext1 with
     | some (es, gap, c) => decide (¬ C10.Contiguous (layoutOf es gap c []))
     | none => false) = true := by decide +kernel

/-- Level 2: extra data split between the local and the central header, an aligned entry (`C02Full.scriptX`),
then a raw copy of a Deflated entry, an EMPTY write into it, and a plain file behind it -/
def scriptZ : List Call :=
  C02Full.scriptX ++ [.rawCopy C01.srcRec [0xA, 0xB, 0xC] [0x72], .write [],
    .startFile [0x7a] (C12.opts .stored none), .write [4]]

example : (∀ c ∈ scriptZ, Plain2 c) ∧ NoStray false scriptZ := by decide

/-- the hypotheses of `writer_output_streams_full` hold for it (the ghost closes, `finish` is `Ok`), and so
does its conclusion, evaluated: four entries — extra data, padding record, raw copy, plain —, `Contiguous`,
`LocalSizes` -/
example :
    (match (C02Full.finalGhost2 C02Full.wext2 scriptZ).close C02Full.wext2, C01.finishDev C02Full.wext2 scriptZ with
     | some (es, gap, c), some d' =>
       d'.buf == build (layoutOf es gap c []) &&
       decide (C10.Contiguous (layoutOf es gap c [])) && decide (C10.LocalSizes (layoutOf es gap c [])) &&
       es.map Spec.Zip.Entry.name == [[0x78], [0x79], [0x72], [0x7a]] &&
       es.map Spec.Zip.Entry.localExtra == [C02Full.xrec, padRecord 51, [], []] &&
       es.map Spec.Zip.Entry.data == [[5, 6, 7, 0xEE], [1, 2], [0xA, 0xB, 0xC], [4]]
     | _, _ => false) = true := by decide +kernel

/-- `NoStray` is needed: a non-empty `write` into a raw copy (`C01.script2`) is refused by it, and the
archive that script produces is not `Contiguous` -/
example : (∀ c ∈ C01.script2, Plain2 c) ∧ ¬ NoStray false C01.script2 := by decide

example :
    (match (C02Full.finalGhost2 C01.wext1 C01.script2).close C01.wext1 with
     | some (es, gap, c) => decide (¬ C10.Contiguous (layoutOf es gap c []))
     | none => false) = true := by decide +kernel

/-- the encryption option is excluded by `Plain2`, and has to be: the ZipCrypto entry of `C02Full.scriptY`
is not `LocalSizes` (flag bit 0) — the stream refuses it (`C10.stream_refuses`) -/
example : ¬ (∀ c ∈ C02Full.scriptY, Plain2 c) := by decide

example :
    (match (C02Full.finalGhost2 C02Full.wext2 C02Full.scriptY).close C02Full.wext2 with
     | some (es, gap, c) => decide (¬ C10.LocalSizes (layoutOf es gap c []))
     | none => false) = true := by decide +kernel

end ZipVerif.Props.C10Writer
