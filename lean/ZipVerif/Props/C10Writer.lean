import ZipVerif.Props.C10
import ZipVerif.Props.C02
/-
C10 (writer corollary) — every archive a fresh `ZipWriter` produces with the plain calls
(`start_file`, `add_directory`, `add_symlink`, `write`, `set_comment`; no raw copies, no encryption)
can be streamed: the emitted layout is `Contiguous` (no prefix, no gaps, no data descriptors) and
`LocalSizes` (the local headers carry the sizes: they are back-patched by `finish_file`), so
`Props.C10.stream_eq_seek` applies to it.
-/

namespace ZipVerif.Props.C10Writer
open ZipVerif ZipVerif.Model ZipVerif.Spec.Zip ZipVerif.WL
open ZipVerif.Props.C12 (Call step runCalls)

/-- Level 1 without raw copies. -/
def Plain : Call → Prop
  | .rawCopy _ _ _ => False
  | c => Level1 c

instance : DecidablePred Plain := fun c => by
  cases c <;> unfold Plain <;> infer_instance

theorem Plain.level1R {c : Call} (h : Plain c) : Level1R c := by
  cases c <;> first | exact h | exact h.elim

/-- what a closed entry of such a script looks like to a stream -/
def SE (e : Spec.Zip.Entry) : Prop := LocalSizesOk e ∧ e.gapBefore = [] ∧ e.desc = .none

/-- the record of the open entry: unencrypted, a method with an encoder/decoder -/
def RQ (f : FileData) : Prop := f.encrypted = false ∧ writable f.method = true

/-- ghost-level invariant: no dead bytes anywhere, no raw copy open -/
def Tight : Ghost → Prop
  | .idle done gap _ => gap = [] ∧ ∀ e ∈ done, SE e
  | .opened done gap _ o => gap = [] ∧ (∀ e ∈ done, SE e) ∧ o.raw = false ∧ RQ o.f
  | .dead => True
  | .stuck .. => True
  | .lost => True

theorem flagOf_no_desc (f : FileData) (h : f.encrypted = false) : (flagOf f &&& 0x0008 != 0) = false := by
  unfold flagOf
  rw [h]
  cases isAscii f.fileName <;> decide

theorem toNat_le_of_not_gt {x : UInt64} (h : ¬ x > ZIP64_BYTES_THR) : x.toNat < 4294967296 := by
  have h1 : ¬ ZIP64_BYTES_THR.toNat < x.toNat := fun h' => h (UInt64.lt_iff_toNat_lt.mpr h')
  have : ZIP64_BYTES_THR.toNat = 0xFFFFFFFF := by decide
  omega

theorem se_final {f : FileData} (hq : RQ f) (dp : UInt16) (plain data : Bytes) (lv : UInt16)
    (hov : ¬ (f.largeFile = false ∧ (UInt64.ofNat data.length > ZIP64_BYTES_THR ∨ plain.length > 0xFFFFFFFF))) :
    SE (specEntry (finalRec f plain data) dp [] [] data lv) := by
  refine ⟨⟨rfl, flagOf_plain _ hq.1, flagOf_no_desc _ hq.1, (by show ExtraOk []; decide), ?_, ?_⟩, rfl, rfl⟩
  · show (Method.fromU16 f.method.toU16).decodable = true
    rw [C01.fromU16_toU16 hq.2]
    cases hm : f.method <;> simp_all [writable, Method.decodable, RQ]
  · intro hl
    have hl' : f.largeFile = false := hl
    have h1 : ¬ UInt64.ofNat data.length > ZIP64_BYTES_THR := fun h => hov ⟨hl', Or.inl h⟩
    have h2 : ¬ plain.length > 0xFFFFFFFF := fun h => hov ⟨hl', Or.inr h⟩
    refine ⟨toNat_le_of_not_gt h1, ?_⟩
    show (UInt64.ofNat plain.length).toNat < 4294967296
    rw [UInt64.toNat_ofNat', Nat.mod_eq_of_lt (by omega)]
    omega

theorem Tight.close {ext : WExt} {g : Ghost} (hG : Tight g) {es : List Spec.Zip.Entry} {gap c : Bytes}
    (hg : g.close ext = some (es, gap, c)) : gap = [] ∧ ∀ e ∈ es, SE e := by
  cases g with
  | dead => cases hg
  | stuck ss n wf => cases hg
  | lost => cases hg
  | idle done gap0 c0 => cases hg; exact hG
  | opened done gap0 c0 o =>
    obtain ⟨hgap, hd, hraw, ho⟩ := hG
    simp only [Ghost.close, closeRec] at hg
    cases hdp : o.f.time.datepart with
    | none => rw [hdp] at hg; cases hg
    | some dp =>
      rw [hdp, hraw] at hg
      simp only [Bool.false_eq_true, if_false] at hg
      by_cases hov : o.f.largeFile = false ∧ (UInt64.ofNat (dataOf ext o.f o.plain).length > ZIP64_BYTES_THR ∨ o.plain.length > 0xFFFFFFFF)
      · rw [if_pos hov] at hg; cases hg
      rw [if_neg hov] at hg
      cases hg
      refine ⟨rfl, ?_⟩
      intro e he
      rcases mem_snoc he with h | h
      · exact hd e h
      · rw [h, hgap]; exact se_final ho dp _ _ _ hov

theorem Tight.startG {ext : WExt} {g : Ghost} (hG : Tight g) (name : Bytes) (o : FileOptions) (ok : Bool)
    (wf : Bool) (t : Bytes) (henc : o.encryptWith = none) (hm : ok = true → writable o.method = true) :
    Tight (startG ext g name o none ok fun f => ⟨f, false, t, [], wf⟩) := by
  unfold WL.startG
  split
  · exact hG
  split
  · split <;> trivial
  next es gap c f hst =>
  cases ok with
  | false => trivial
  | true =>
    simp only [if_true]
    obtain ⟨hs, ds, hf⟩ := Ghost.start_rec hst
    obtain ⟨h1, h2⟩ := hG.close (Ghost.start_close hst)
    refine ⟨h1, h2, rfl, ?_, ?_⟩
    · show f.encrypted = false
      rw [hf]; show o.encryptWith.isSome = false; rw [henc]; rfl
    · show writable f.method = true
      rw [hf]; exact hm rfl

theorem tight_step (ext : WExt) (g : Ghost) (c : Call) (hc : Plain c) (out : Out (Option Nat))
    (hG : Tight g) : Tight (ghostStep ext g c out) := by
  by_cases ha : ¬ g.alive
  · have := ghostStep_not_alive ext ha c out
    cases h : ghostStep ext g c out with
    | dead => trivial
    | stuck ss n wf => trivial
    | lost => trivial
    | idle D gap c0 => rw [h] at this; exact absurd trivial this
    | opened D gap c0 o => rw [h] at this; exact absurd trivial this
  have ha : g.alive := Classical.not_not.mp ha
  unfold ghostStep
  split
  · trivial
  rw [ghostStep_alive ext ha]
  unfold ghostStepAlive
  cases c with
  | startFile n o =>
    refine hG.startG _ _ _ _ _ hc ?_
    intro h
    cases h1 : okO out <;> rw [h1] at h <;> simp at h
    exact h
  | addDirectory n o => exact hG.startG _ _ _ _ _ hc (fun _ => rfl)
  | addSymlink n t o => exact hG.startG _ _ _ _ _ hc (fun _ => rfl)
  | rawCopy src raw n => exact hc.elim
  | write b =>
    cases g with
    | dead => trivial
    | stuck ss n wf => trivial
    | lost => trivial
    | idle done gap c0 => exact hG
    | opened done gap c0 o =>
      simp only [Ghost.writeStep]
      split
      · split
        · obtain ⟨h1, h2, h3, h4⟩ := hG
          have hw : o.write b = { o with plain := o.plain ++ b } := by simp [OpenRec.write, h3]
          rw [hw]
          exact ⟨h1, h2, h3, h4⟩
        · trivial
      · exact hG
  | setComment c' =>
    cases g with
    | dead => trivial
    | stuck ss n wf => trivial
    | lost => trivial
    | idle done gap c0 => exact hG
    | opened done gap c0 o => exact hG
  | endExtraData => exact hG
  | endLocalStartCentral => exact hG
  | startFileWithExtraData n o => exact hc.elim
  | startFileAligned n o a => exact hc.elim
  | finish => exact hc.elim
  | drop => exact hc.elim

theorem tight_run (ext : WExt) : ∀ (calls : List Call) (outs : List (Out (Option Nat))) (g : Ghost),
    (∀ c ∈ calls, Plain c) → Tight g → Tight (ghostOf ext g calls outs)
  | [], outs, g, _, hG => by cases outs <;> exact hG
  | c :: cs, [], g, _, hG => hG
  | c :: cs, o :: os, g, hc, hG =>
    tight_run ext cs os _ (fun c' h' => hc c' (by simp [h'])) (tight_step ext g c (hc c (by simp)) o hG)

/-- **`writer_output_streams`** — a fresh writer, a script of plain calls, `finish` returns `Ok`: the
sink is `build L` for a layout `L` that is `Contiguous` and `LocalSizes` (and `Readable`; `Fits` under
the size bounds) … -/
theorem writer_output_streams (ext : WExt) (calls : List Call) (hc : ∀ c ∈ calls, Plain c)
    (ha : ∀ c ∈ calls, c.Admissible) (es : List Spec.Zip.Entry) (gap c : Bytes)
    (hg : (C01.finalGhost ext calls).close ext = some (es, gap, c))
    (v : Option Nat) (s' : WState) (d' : Dev)
    (hfin : step ext .finish (runCalls ext calls WState.init none (Dev.ofBytes [])).2.1 none
      (runCalls ext calls WState.init none (Dev.ofBytes [])).2.2 = (.ok (.ok v, s'), d')) :
    d'.buf = build (layoutOf es gap c []) ∧
    C10.Contiguous (layoutOf es gap c []) ∧ C10.LocalSizes (layoutOf es gap c []) ∧
    (layoutOf es gap c []).Readable ∧ c.length ≤ 65535 ∧ (∀ e ∈ es, EntryOk e) := by
  obtain ⟨hbuf, hok, hclen, hR⟩ := C02.writer_output_valid ext calls (fun c h => (hc c h).level1R) ha
    es gap c hg v s' d' hfin
  have hT : Tight (C01.finalGhost ext calls) :=
    tight_run ext calls _ _ hc (show Tight (.idle [] [] []) from ⟨rfl, fun e he => by cases he⟩)
  obtain ⟨hgap, hse⟩ := hT.close hg
  exact ⟨hbuf, ⟨rfl, fun e he => ⟨(hse e he).2.1, (hse e he).2.2⟩, hgap⟩, fun e he => (hse e he).1,
    hR, hclen, hok⟩

/-- … **hence the streaming reader and the seekable reader agree on it** (`C10.stream_eq_seek`, whose
remaining hypotheses are the size bounds, a non-empty archive and the property's own `NoFalseSig`). -/
theorem writer_output_stream_eq_seek (wext : WExt) (rext : Ext) (calls : List Call)
    (hc : ∀ c ∈ calls, Plain c) (ha : ∀ c ∈ calls, c.Admissible)
    (es : List Spec.Zip.Entry) (gap c : Bytes)
    (hg : (C01.finalGhost wext calls).close wext = some (es, gap, c))
    (v : Option Nat) (s' : WState) (d' : Dev)
    (hfin : step wext .finish (runCalls wext calls WState.init none (Dev.ofBytes [])).2.1 none
      (runCalls wext calls WState.init none (Dev.ofBytes [])).2.2 = (.ok (.ok v, s'), d'))
    (hne : es ≠ []) (hN : C03.NoFalseSig (layoutOf es gap c []))
    (hsize : (build (layoutOf es gap c [])).length < 2 ^ 63)
    (hu : ∀ e ∈ es, e.usize.toNat < 2 ^ 63) :
    ∃ a d1 files d2,
      openArchive.runPure (Dev.ofBytes d'.buf) = (.ok a, d1) ∧
      (streamEntries rext (d'.buf.length / 30 + 1)).runPure (Dev.ofBytes d'.buf) = (.ok files, d2) ∧
      files.length = a.files.length ∧ files.length = es.length ∧
      ∀ i, i < files.length → ∃ v sv res, a.files[i]? = some v ∧ files[i]? = some (sv, res) ∧
        sv.fileName = v.fileName ∧ sv.method = v.method ∧ sv.time = v.time ∧ sv.crc32 = v.crc32 ∧
        sv.compressedSize = v.compressedSize ∧ sv.uncompressedSize = v.uncompressedSize ∧
        (∃ ds d3, (byIndexRead rext a i none).runPure d1 = (.ok (.ok (ds, res)), d3)) := by
  obtain ⟨hbuf, hC, hS, hR, hclen, hok⟩ := writer_output_streams wext calls hc ha es gap c hg v s' d' hfin
  have hF := C02.writer_output_fits gap c hok hclen hsize hu
  obtain ⟨a, d1, files, d2, h1, h2, _, h4, h5, _, h7⟩ :=
    C10.stream_eq_seek rext _ hF hC hS hne hR hN (Or.inl rfl)
  rw [hbuf]
  refine ⟨a, d1, files, d2, h1, h2, h4, h5, ?_⟩
  intro i hi
  obtain ⟨v, sv, res, k1, k2, k3, _, k5, k6, k7, k8, k9, _, _, k12, _⟩ := h7 i hi
  exact ⟨v, sv, res, k1, k2, k3, k5, k6, k7, k8, k9, k12⟩

/-! ### Non-vacuity -/

example : ∀ c ∈ C01.script1, Plain c ∧ c.Admissible := by decide

/-- the layout `script1` of C01 emits is `Contiguous`, `LocalSizes`, non-empty -/
example :
    (match (C01.finalGhost C01.wext1 C01.script1).close C01.wext1 with
     | some (es, gap, c) =>
       decide (C10.Contiguous (layoutOf es gap c [])) && decide (C10.LocalSizes (layoutOf es gap c [])) &&
       !es.isEmpty
     | none => false) = true := by decide +kernel

/-- the restriction "no raw copy followed by a stray `write`" is needed: `script2` leaves a dead byte -/
example :
    (match (C01.finalGhost C01.wext1 C01.script2).close C01.wext1 with
     | some (es, gap, c) => decide (¬ C10.Contiguous (layoutOf es gap c []))
     | none => false) = true := by decide +kernel

end ZipVerif.Props.C10Writer
