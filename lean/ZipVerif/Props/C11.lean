import ZipVerif.Props.C12
import ZipVerif.Props.C05
/-
C11 — I/O failures surface as errors, never as panics or wrong results.

First layer (this file, until the fault-transparency development `Lemmas/Fault*.lean` is merged): the
"never a panic, then or on any later call" half, for EVERY injected fault index, as corollaries of the
two totality theorems that were proved for every fault index from the start (`Props.C12.writer_no_panic`,
`Props.C05.reader_total`), plus the elementary facts about how the model reports a failing call.
-/

namespace ZipVerif.Props.C11
open ZipVerif ZipVerif.Model

/-- **Writer: no call panics under any single fault, then or later.**  For every admissible call
sequence (legal or not, including calls made after the failing one, `finish` and `drop`), every
index `k` of the failing I/O call and every sink. -/
theorem writer_fault_no_panic (ext : WExt) (calls : List C12.Call) (hc : ∀ c ∈ calls, c.Admissible)
    (k : Nat) (d : Dev) (hd : C12.Dev.InRange (C12.runCalls ext calls WState.init (some k) d).2.2) :
    ∀ o ∈ (C12.runCalls ext calls WState.init (some k) d).1, o.isPanic = false :=
  C12.writer_no_panic ext calls hc (some k) d hd

/-- **Writer: a failing device never escapes a call as anything but that call's `Err`.** -/
theorem writer_fault_is_call_error (ext : WExt) (c : C12.Call) (hc : c.Admissible) (s : WState)
    (hI : Inv s) (k : Nat) (d : Dev) (e : ZErr) (d' : Dev) :
    C12.step ext c s (some k) d ≠ (.err e, d') :=
  C12.step_total ext c hc s hI (some k) d e d'

/-- **Reader: no step of any reader script panics under any single fault** (open, by_index,
by_name, by_index_raw, streaming, new_append; reading each returned entry to its end). -/
theorem reader_fault_no_panic (ext : Ext) (hext : ExtNoPanic ext) (bytes : Bytes)
    (hlen : bytes.length < 2 ^ 63) (k : Nat) (script : List C05.Step) :
    C05.runScript ext (some k) ⟨Dev.ofBytes bytes, none⟩ script = false :=
  C05.reader_total_bytes ext hext bytes hlen (some k) script

/-- The failing call is the `k`-th I/O call and reports the injected error; the device keeps its
contents and position (only the call counter advances). -/
theorem prim_fault {α} (f : Dev → Out α × Dev) (d : Dev) :
    M.prim f (some d.calls) d = (.err (.io .injected), { d with calls := d.calls + 1 }) := by
  unfold M.prim
  simp

/-- Any other call is unaffected by the fault. -/
theorem prim_no_fault {α} (f : Dev → Out α × Dev) (k : Nat) (d : Dev) (h : k ≠ d.calls) :
    M.prim f (some k) d = M.prim f none d := by
  unfold M.prim
  have : (some k = some d.calls) = False := by simp [h]
  simp [this]

/-- `io` (the model of `?` on a device result inside a writer call): a device error becomes the call's
`Err`, with the writer state reached so far. -/
theorem io_propagates {α β} (s : WState) (m : M α) (kont : α → M (Except ZErr β × WState))
    (fa : Option Nat) (d d' : Dev) (e : ZErr) (h : m fa d = (.err e, d')) :
    Model.io s m kont fa d = (.ok (.error e, s), d') := by
  unfold Model.io
  rw [M.bind_apply, M.attempt_apply, h]
  rfl

end ZipVerif.Props.C11
