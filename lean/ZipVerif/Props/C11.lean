import ZipVerif.Lemmas.FaultRun
import ZipVerif.Lemmas.FaultReader
import ZipVerif.Lemmas.FaultAppend
import ZipVerif.Lemmas.FaultVisit
import ZipVerif.Lemmas.MRun
import ZipVerif.Model.Interrupted
import ZipVerif.Lemmas.FaultInterrupted
import ZipVerif.Lemmas.FaultInterruptedW
import ZipVerif.Props.C05
import ZipVerif.Props.C12
/-
C11 — I/O failures surface as errors, never as panics or wrong results.

Property theorems only.  The fault model is that of `Model/IO.lean`: every model function runs in
`M α = Option Nat → Dev → Out α × Dev`; with `some k` the I/O call with index `k` (reads, writes,
flushes, seeks are counted in `Dev.calls`) fails with `Err(io::Error)` of the kind the device fails with
(`.io d.fkind` — ANY `io::ErrorKind` the crate can tell apart, `InvalidInput` and `UnexpectedEof` included;
`Uniform.kind`: no computation changes it), every other call behaves normally; `none` is the failure-free
run.  All theorems quantify over EVERY `k`, every device (hence every kind), every writer state / archive
value.

KINDS.  `M.prim` fails HARD with whatever kind the device has: sections A-D, and the calculus `Clean` / `Tight` /
`ErrOnFire` / `EP` they rest on, are statements about a reader / writer all of whose I/O calls forward every failure.
That is what the crate and std do for every `io::ErrorKind` but one: `Interrupted` is RETRIED by `read_exact`,
`read_to_end`, `io::copy` and `write_all`.  For that kind the theorems of A-D over `openArchive`, `byIndexRead`, `step` …
describe a device failure that std would have absorbed as if it were reported (a sound over-approximation of "is
reported", but not the code's behaviour: `interrupted_not_modelled_in_read_exact`); what the code does under
`Interrupted` is stated over the models with std's convention (`Model/Interrupted.lean`, `Model/InterruptedW.lean`) in
section F: `*_hard_kinds` (those models ARE the hard-failure ones when `d.fkind ≠ .interrupted` - the hypothesis under
which A-D speak about the code), `*_interrupted_trichotomy`, and the clause for ANY kind: `open_ok_is_faultfree_any_kind`,
`read_ok_is_faultfree_any_kind`, `all_ok_is_faultfree_any_kind`, `fired_fault_is_error_hard_kinds`.

Helper files: `Lemmas/FaultCore.lean` (`Fired`, `Uniform`, `Clean`/`Tight`, `ErrOnFire`, `EP`/`StepOK`,
the tactic `fault`), `Lemmas/FaultWriter.lean` (every writer function), `Lemmas/FaultReader.lean`
(every seekable-reader function, `new_append`, the probe seek), `Lemmas/FaultRun.lean` (call
sequences), `Lemmas/FaultAppend.lean` (`new_append` establishes the writer invariant).

A. no panic under any fault, then or later            — `*_no_panic_under_fault`
B. a fault that is not reached changes nothing          — `*_unreached_fault`
C. a fault that fires inside a call is that call's error — `fired_fault_is_error*`, with the one
   place where the crate deliberately ignores a failure made explicit (`Drop`: the discarded result
   of the implicit `finalize` and the ignored write of a live encoder's destructor).  The last seek of
   `new_append`, whose result was ignored (`let _ =`), was a defect (D22: every call `Ok`, everything
   written behind the old central directory) and is repaired (`?`): `append_fired_fault_is_error` now
   covers every I/O call of `new_append`, `append_repositioning_seek_reported` names that one, and
   `d22_pre_fix_witness` keeps the finding against the pre-repair definition.  Another one found by this development — the ZIP64 probe seek of
   `ZipArchive::new`, whose failure was taken for "no ZIP64 records" — was a defect (D18) and is
   repaired in two steps: first every failure other than `InvalidInput` was reported, now "no room for a
   locator" is decided from the position of the end record (`probe_skipped_without_room`: no I/O at all)
   and EVERY failure of the probe seek, of whatever kind, is reported (`probe_seek_error_reported`,
   `probe_injected_fault_reported`).
D. headline: `all_ok_is_faultfree`, `fault_outcome_dichotomy` (writer), `open_ok_is_faultfree`,
   `read_scenario_dichotomy`, `visit_fired_fault_is_error` / `visit_ok_is_faultfree` (`ZipStreamReader::visit`, ANY visitor
   consumption pattern: full strength since the visitor API drains explicitly), `stream_ok_is_faultfree_partial` (the
   bare `read_zipfile_from_stream`: the full clause is false, K-J), `append_ok_is_faultfree`
   (no exception any more), `append_all_ok_is_faultfree` (scripts that start with `new_append`)
F. `ErrorKind::Interrupted` (std's retry loops): the seekable reader, `new_append` and the writer with std's convention
   against the hard-failure models - `*_hard_kinds`, `*_interrupted_trichotomy`, `*_ok_is_faultfree_any_kind`,
   `all_ok_is_faultfree_any_kind`, `fired_fault_is_error_hard_kinds`, witnesses over every fault index.
E. concrete runs evaluated by the kernel, including the D18 regressions (`d18_regression`,
   `d18_regression_every_kind`) and the witnesses against the pre-repair definitions
   (`d18_pre_fix_witness`, `d18_invalid_input_pre_fix_witness`, `d22_pre_fix_witness`).
-/

namespace ZipVerif.Props.C11
open ZipVerif ZipVerif.Model ZipVerif.Props.C12

/-! ## A. No panic under any single fault — in the failing call or in any later one -/

/-- **Writer.**  Any sequence of admissible calls — including the calls made after the first error,
`finish`, and the implicit finalisation in `drop` — from a fresh writer, with the `k`-th I/O call of
the whole run failing: no call's outcome is a panic (the sink's position being a `u64`). -/
theorem writer_no_panic_under_fault (ext : WExt) (calls : List Call) (hc : ∀ c ∈ calls, c.Admissible)
    (k : Nat) (d : Dev) (hd : Dev.InRange (runCalls ext calls WState.init (some k) d).2.2) :
    ∀ o ∈ (runCalls ext calls WState.init (some k) d).1, o.isPanic = false :=
  writer_no_panic ext calls hc (some k) d hd

/-- The same from any writer state satisfying the invariant `Inv` of C12 (every state a call
sequence can reach, and every state `new_append` returns — `append_establishes_inv`). -/
theorem writer_no_panic_under_fault_from (ext : WExt) (calls : List Call)
    (hc : ∀ c ∈ calls, c.Admissible) (s : WState) (hI : Inv s) (fa : Option Nat) (d : Dev)
    (hd : Dev.InRange (runCalls ext calls s fa d).2.2) :
    ∀ o ∈ (runCalls ext calls s fa d).1, o.isPanic = false := by
  intro o ho
  cases hp : o.isPanic
  · rfl
  · have := (run_inv ext calls hc s hI fa d).2 ⟨o, ho, hp⟩
    unfold Huge at this
    unfold Dev.InRange at hd
    omega

/-- `ZipWriter::new_append` — for every input and every fault index — never panics, leaves the bytes
alone, and when it succeeds the writer it returns satisfies the invariant. -/
theorem append_establishes_inv (fa : Option Nat) (d : Dev) :
    ¬ (newAppend fa d).1.isPanic = true ∧ (newAppend fa d).2.buf = d.buf ∧
    ∀ s d', newAppend fa d = (.ok s, d') → Inv s :=
  ⟨(C05.append_open_total fa d).1, (C05.append_open_total fa d).2, fun _ _ h => newAppend_inv.elim h⟩

/-- **Append scenarios**: open an existing archive for appending, then any admissible calls, one fault
anywhere in the whole scenario (in `new_append` or in any later call): no panic. -/
theorem append_no_panic_under_fault (ext : WExt) (calls : List Call) (hc : ∀ c ∈ calls, c.Admissible)
    (fa : Option Nat) (d0 d : Dev) (s : WState) (h : newAppend fa d0 = (.ok s, d))
    (hd : Dev.InRange (runCalls ext calls s fa d).2.2) :
    ¬ (newAppend fa d0).1.isPanic = true ∧ ∀ o ∈ (runCalls ext calls s fa d).1, o.isPanic = false :=
  ⟨(C05.append_open_total fa d0).1,
   writer_no_panic_under_fault_from ext calls hc s (newAppend_inv.elim h) fa d hd⟩

/-- **Reader.**  Any script of `open / by_index(_decrypt) / by_index_raw / by_name(_decrypt) / stream
visit / new_append` calls on any bytes, the `k`-th I/O call failing: no step panics, neither the call
nor the read of the returned entry — in particular not the calls made after the failure. -/
theorem reader_no_panic_under_fault (ext : Ext) (hext : ExtNoPanic ext) (k : Nat)
    (script : List C05.Step) (s : C05.State) (hd : DevSane s.dev) :
    C05.runScript ext (some k) s script = false :=
  C05.reader_total ext hext (some k) script s hd

/-! ## B. Fault transparency: a fault that is not reached changes nothing -/

/-- The call counter never runs backwards (every writer call, every fault index). -/
theorem writer_call_counter_mono (ext : WExt) (c : Call) (s : WState) (fa : Option Nat) (d : Dev) :
    d.calls ≤ (step ext c s fa d).2.calls :=
  (step_uniform ext c s).mono fa d

/-- **One writer call (any call, `drop` included)**: if the fault index lies outside the window of
I/O calls the *failure-free* call makes, the call's result, the writer state and the sink are those of
the failure-free call. -/
theorem writer_call_unreached_fault (ext : WExt) (c : Call) (s : WState) (k : Nat) (d : Dev)
    (h : k < d.calls ∨ (step ext c s none d).2.calls ≤ k) :
    step ext c s (some k) d = step ext c s none d :=
  (step_uniform ext c s).same_of_outside h

/-- The same with the window of the *faulted* call: a fault that did not fire during the call. -/
theorem writer_call_not_fired (ext : WExt) (c : Call) (s : WState) (k : Nat) (d : Dev)
    (h : ¬ Fired k d (step ext c s (some k) d).2) :
    step ext c s (some k) d = step ext c s none d :=
  (step_uniform ext c s).same_of_not_fired h

/-- **A whole call sequence**: a fault index beyond (or before) the I/O calls of the failure-free run
changes nothing — outcomes, final writer state, final sink. -/
theorem writer_run_unreached_fault (ext : WExt) (calls : List Call) (s : WState) (k : Nat) (d : Dev)
    (h : k < d.calls ∨ (runCalls ext calls s none d).2.2.calls ≤ k) :
    runCalls ext calls s (some k) d = runCalls ext calls s none d :=
  run_unreached ext calls k s d h

/-- **Reader entry points and `new_append`**: counter monotone, and an unreached fault is invisible. -/
theorem reader_unreached_fault (ext : Ext) (a : Archive) (i : Nat) (name : Bytes) (pw : Option Bytes)
    (k : Nat) (d : Dev) :
    ((k < d.calls ∨ (openArchive none d).2.calls ≤ k) → openArchive (some k) d = openArchive none d) ∧
    ((k < d.calls ∨ (byIndexRead ext a i pw none d).2.calls ≤ k) →
      byIndexRead ext a i pw (some k) d = byIndexRead ext a i pw none d) ∧
    ((k < d.calls ∨ (byNameRead ext a name pw none d).2.calls ≤ k) →
      byNameRead ext a name pw (some k) d = byNameRead ext a name pw none d) ∧
    ((k < d.calls ∨ (byIndexRaw a i none d).2.calls ≤ k) →
      byIndexRaw a i (some k) d = byIndexRaw a i none d) ∧
    ((k < d.calls ∨ (newAppend none d).2.calls ≤ k) → newAppend (some k) d = newAppend none d) ∧
    ((k < d.calls ∨ (streamVisit ext none d).2.calls ≤ k) →
      streamVisit ext (some k) d = streamVisit ext none d) :=
  ⟨openArchive_uniform.same_of_outside, (byIndexRead_tight ext a i pw).uni.same_of_outside,
   (byNameRead_tight ext a name pw).uni.same_of_outside, (byIndexRaw_tight a i).uni.same_of_outside,
   newAppend_uniform.same_of_outside, (streamVisit_tight ext).uni.same_of_outside⟩

theorem reader_call_counter_mono (ext : Ext) (a : Archive) (i : Nat) (pw : Option Bytes)
    (fa : Option Nat) (d : Dev) :
    d.calls ≤ (openArchive fa d).2.calls ∧ d.calls ≤ (byIndexRead ext a i pw fa d).2.calls ∧
    d.calls ≤ (byIndexRaw a i fa d).2.calls ∧ d.calls ≤ (newAppend fa d).2.calls ∧
    d.calls ≤ (streamVisit ext fa d).2.calls :=
  ⟨openArchive_uniform.mono fa d, (byIndexRead_tight ext a i pw).uni.mono fa d,
   (byIndexRaw_tight a i).uni.mono fa d, newAppend_uniform.mono fa d,
   (streamVisit_tight ext).uni.mono fa d⟩

/-! ## C. A fault that fires inside a call is that call's error -/

/-- **Writer, every call other than `drop`**: if the injected failure happens during the call (its
index lies in the window of I/O calls the call performs), the call does not return `Ok`. -/
theorem fired_fault_is_error (ext : WExt) (c : Call) (hc : isDrop c = false) (s : WState) (k : Nat)
    (d : Dev) (hf : Fired k d (step ext c s (some k) d).2) :
    ∀ v s' d', step ext c s (some k) d ≠ (.ok (.ok v, s'), d') := by
  intro v s' d' h
  rw [h] at hf
  exact (step_stepOK ext c hc s).ep k d v s' d' h hf

/-- … and, the call being admissible and the writer in an `Inv` state, it returns `Err` (with the
writer in an `Inv` state again) — the only alternative, a panic, needs a sink position beyond `u64`. -/
theorem fired_fault_returns_err (ext : WExt) (c : Call) (hc : isDrop c = false) (ha : c.Admissible)
    (s : WState) (hI : Inv s) (k : Nat) (d : Dev) (hf : Fired k d (step ext c s (some k) d).2) :
    (∃ e s' d', step ext c s (some k) d = (.ok (.error e, s'), d') ∧ Inv s') ∨
    Huge (step ext c s (some k) d).2 := by
  have hs := inv_step ext c ha s hI (some k) d
  have hn := fired_fault_is_error ext c hc s k d hf
  unfold Sat at hs
  rcases h : step ext c s (some k) d with ⟨(⟨(e | v), s'⟩ | e | p), d'⟩ <;> rw [h] at hs <;>
    dsimp only at hs
  · exact Or.inl ⟨e, s', d', rfl, hs⟩
  · exact absurd h (hn v s' d')
  · exact Or.inr hs

/-- **`Drop` swallows errors by design** (Rust's `Drop` cannot return one).  Two failures are ignored
inside it: the result of the implicit `finalize` (the crate prints it to stderr and goes on), and — when
`finalize` failed before closing the current entry, so that a Deflate/Bzip2 encoder is still alive — the
result of the final write that encoder issues from its own destructor (`dropInner`).  Under any fault,
dropping a writer returns normally, the (unobservable) writer stays in an `Inv` state, and it cannot
panic on a sink whose position is a `u64`.  What the fault leaves behind is a sink holding a partial
archive (`drop_leaves_partial_archive` below); nothing else is observable from the dropped writer. -/
theorem drop_under_fault (ext : WExt) (s : WState) (hI : Inv s) (fa : Option Nat) (d : Dev) :
    Sat (dropWriter ext s) fa d (fun rs _ => rs.1 = .ok () ∧ Inv rs.2) := by
  unfold dropWriter
  split
  · exact Sat.pure ⟨rfl, hI⟩
  · apply Sat.bind
    apply Sat.mono (finalize_sat ext s hI fa d)
    intro ⟨r, s1⟩ d1 ⟨hI1, _⟩
    exact Sat.mono (dropInner_sat' ext s1 hI1 fa d1) (fun _ _ h => ⟨h.2, h.1⟩)

/-- The second ignored failure, made explicit: when the write issued by a live encoder's destructor is
the failing call, `Drop` still completes, the writer ends closed, and the encoder's pending output is
lost (the sink's bytes are untouched by that call). -/
theorem drop_destructor_write_ignored (ext : WExt) (s : WState) (m : Method) (l : Int) (pending : Bytes)
    (hin : s.inner = .compressor m l none pending) (hm : (m == .deflated || m == .bzip2) = true)
    (hne : ext.compress m l pending ≠ []) (d : Dev) :
    dropInner ext s (some d.calls) d = (.ok (.ok (), { s with inner := .closed }), d.tick) ∧
    (dropInner ext s (some d.calls) d).2.buf = d.buf := by
  have h : dropInner ext s (some d.calls) d = (.ok (.ok (), { s with inner := .closed }), d.tick) := by
    unfold dropInner
    rw [hin]
    dsimp only
    rw [if_pos hm, M.bind_apply, M.attempt_apply, M.writeAll_run _ hne, if_pos rfl]
    rfl
  exact ⟨h, by rw [h]; rfl⟩

/-- **Reading an entry** (`by_index` / `by_index_decrypt` / `by_name` / `by_index_raw` + read to end):
no failure is tolerated anywhere — a fault that fires is returned as that very error. -/
theorem read_fired_fault_is_error (ext : Ext) (a : Archive) (i : Nat) (name : Bytes)
    (pw : Option Bytes) (k : Nat) (d : Dev) :
    (Fired k d (byIndexRead ext a i pw (some k) d).2 →
      (byIndexRead ext a i pw (some k) d).1 = .err (.io d.fkind)) ∧
    (Fired k d (byNameRead ext a name pw (some k) d).2 →
      (byNameRead ext a name pw (some k) d).1 = .err (.io d.fkind)) ∧
    (Fired k d (byIndexRaw a i (some k) d).2 → (byIndexRaw a i (some k) d).1 = .err (.io d.fkind)) :=
  ⟨(byIndexRead_tight ext a i pw).reports, (byNameRead_tight ext a name pw).reports,
   (byIndexRaw_tight a i).reports⟩

/-- **The bare streaming function, consumers that read every entry to its end** (also the pre-repair
`ZipStreamReader::visit` with a visitor that reads each entry to end-of-file): a fault that fires is returned as that
very error.  (`visit` itself, under ANY visitor: `visit_fired_fault_is_error`.)

`_partial`: the full clause — ANY consumer of `read_zipfile_from_stream`, in particular one that reads part of an
entry and drops the handle — is FALSE (`stream_drain_fault_swallowed`, known finding K-J): `Drop for ZipFile`
drains the unread rest and cannot report a read error.  What holds for every consumption pattern is fault
transparency (`stream_entries_unreached_fault`). -/
theorem stream_fired_fault_is_error_partial (ext : Ext) (k : Nat) (d : Dev)
    (hf : Fired k d (streamVisit ext (some k) d).2) :
    (streamVisit ext (some k) d).1 = .err (.io d.fkind) :=
  (streamVisit_tight ext).reports hf

/-- the hypothesis of `stream_fired_fault_is_error_partial` is satisfiable: the first read of the stream failing -/
example : Fired 0 (Dev.ofBytes C05.oneEntry) (streamVisit storedExt (some 0) (Dev.ofBytes C05.oneEntry)).2 := by
  decide +kernel

/-- **Partial consumption + drop, any pattern** (`consume` decoded bytes asked for, `pulled` compressed bytes
pulled through the `Take`, then `ZipFile::drop` drains in 64 KiB reads): a fault index that is not reached
changes nothing — outcomes, entries, device.  (A fault that IS reached inside a drain is swallowed:
`stream_drain_fault_swallowed`.) -/
theorem stream_entries_unreached_fault (ext : Ext) (pattern : List Consume) (fuel i k : Nat) (d : Dev)
    (hn : ¬ Fired k d (streamEntriesC ext pattern fuel i (some k) d).2) :
    streamEntriesC ext pattern fuel i (some k) d = streamEntriesC ext pattern fuel i none d :=
  (streamEntriesC_uniform ext pattern fuel i).same_of_not_fired hn

/-- **`visit_fired_fault_is_error` — `ZipStreamReader::visit` under ANY visitor consumption pattern** (each entry:
`k` decoded bytes asked for, `pulled` compressed bytes pulled through the `Take`; a visitor that returns a failed
read to `visit`, as `extract` does): a fault that fires at ANY I/O call of `visit` — a header, one of the visitor's
reads, the drain of what the visitor left unread, the central directory — makes `visit` return an error.  Full
strength, no `_partial`: since the repair `visit` drains every entry itself (`ZipFile::drain_stream`) and returns the
drain's read error; before it the drain ran in `Drop` and swallowed it (K-J; `visit_pre_fix_witness`).
Hypothesis `hk`: the device's failures are hard ones.  A failure of kind `Interrupted` is, by std's convention,
retried where the code sits in a retry loop — every header read (`read_exact`) and, since the repair, the drain —
and is then invisible (`visit_interrupted_invisible`); in the visitor's own bare reads it is an error like any other. -/
theorem visit_fired_fault_is_error (ext : Ext) (pattern : List Consume) (k : Nat) (d : Dev)
    (hk : d.fkind ≠ .interrupted) (hf : Fired k d (streamVisitC ext pattern (some k) d).2) :
    ∃ e, (streamVisitC ext pattern (some k) d).1 = .err e :=
  streamVisitC_errOnFireH ext pattern k d hk hf

/-- **`visit_ok_is_faultfree`**: `visit` returning `Ok` under a fault — any consumption pattern — showed the visitor
exactly what the failure-free run shows (entries, bytes, metadata records; same device). -/
theorem visit_ok_is_faultfree (ext : Ext) (pattern : List Consume) {k : Nat} {d d' : Dev}
    {r : List (FileData × Bytes) × List FileData} (hk : d.fkind ≠ .interrupted)
    (h : streamVisitC ext pattern (some k) d = (.ok r, d')) : streamVisitC ext pattern none d = (.ok r, d') := by
  by_cases hf : Fired k d (streamVisitC ext pattern (some k) d).2
  · obtain ⟨e, he⟩ := visit_fired_fault_is_error ext pattern k d hk hf
    rw [h] at he
    cases he
  · rw [← (streamVisitC_uniform ext pattern).same_of_not_fired hf]
    exact h

/-- … and, for every kind (`Interrupted` included), a fault index `visit` does not reach changes nothing. -/
theorem visit_unreached_fault (ext : Ext) (pattern : List Consume) (k : Nat) (d : Dev)
    (hn : ¬ Fired k d (streamVisitC ext pattern (some k) d).2) :
    streamVisitC ext pattern (some k) d = streamVisitC ext pattern none d :=
  (streamVisitC_uniform ext pattern).same_of_not_fired hn

/-- **`Interrupted` inside one of std's retry loops is invisible** (`read_exact`, `write_all`, `read_to_end`,
`io::copy`, the loop of `drain_stream`): for a computation all of whose I/O calls sit in such loops (`M.retried m`: the
header reads, the drain, the central directory of the streaming reader), a device failing with `Interrupted` at a call
`m` makes yields the failure-free outcome and device, with one more call counted. -/
theorem visit_interrupted_invisible {α} (m : M α) (k : Nat) (d : Dev) (hi : d.fkind = .interrupted)
    (hf : Fired k d (m none d).2) :
    M.retried m (some k) d = ((m none d).1, { (m none d).2 with calls := (m none d).2.calls + 1 }) :=
  M.retried_interrupted m k d hi hf

/-- … and on a device failing with any other kind a retry loop changes nothing: the `Interrupted`-aware entry step
of the bare streaming function is `streamEntryC`. -/
theorem stream_entry_hard_kinds (ext : Ext) (c : Consume) (fa : Option Nat) (d : Dev) (hk : d.fkind ≠ .interrupted) :
    streamEntryCI ext c fa d = streamEntryC ext c fa d :=
  streamEntryCI_hard ext c fa d hk

/-- **`ZipArchive::new`**: a fault that fires — at ANY I/O call — is reported as an error (the injected
one; `InvalidArchive` when it hit the seek to the central directory, which the crate maps to that). -/
theorem open_fired_fault_is_error (k : Nat) (d : Dev) (hf : Fired k d (openArchive (some k) d).2) :
    ∃ e, (openArchive (some k) d).1 = .err e :=
  openArchive_errOnFire k d hf

/-- `get_directory_counts` (the ZIP64 probe, the locator parse, the ZIP64 end-record search): a fired
fault is returned as that very error. -/
theorem counts_fired_fault_is_error (footer : Eocd) (cde : Nat) (k : Nat) (d : Dev)
    (hf : Fired k d (getDirectoryCounts footer cde (some k) d).2) :
    (getDirectoryCounts footer cde (some k) d).1 = .err (.io d.fkind) :=
  (getDirectoryCounts_tight footer cde).reports hf

/-- **D18, repaired**: the injected fault on the probe seek (the first I/O call of
`get_directory_counts` when the end record lies 20 bytes or more into the file) is returned, WHATEVER the
kind of error the device fails with; nothing else is attempted. -/
theorem probe_injected_fault_reported (footer : Eocd) (cde : Nat) (d : Dev) (h20 : 20 ≤ cde) :
    getDirectoryCounts footer cde (some d.calls) d = (.err (.io d.fkind), d.shift 1) :=
  Model.probe_injected_fault_reported footer cde d h20

/-- **`probe_skipped_without_room`**: "there is no room for a ZIP64 locator" is decided from the known
position of the end record — found less than 20 bytes into the file, a locator (20 bytes) does not fit in
front of it — and no longer from the kind of a seek error: `get_directory_counts` then answers from the
22-byte end record (`countsNoZip64`) without ANY I/O call, for every fault index and every device … -/
theorem probe_skipped_without_room (footer : Eocd) (cde : Nat) (fa : Option Nat) (d : Dev)
    (h20 : cde < 20) :
    getDirectoryCounts footer cde fa d = (countsNoZip64 footer cde, d) :=
  Model.probe_skipped_without_room footer cde fa d h20

/-- … and otherwise EVERY error of the probe seek is returned unchanged — `InvalidInput` included, the kind
that the first D18 repair still took for "file too short" (`d18_invalid_input_pre_fix_witness`).
(`probe_seek_apply`: on a `Dev` the seek's outcomes are the injected fault of the device's kind,
`InvalidInput` iff the file is shorter than 42 + comment bytes, else success.) -/
theorem probe_seek_error_reported (footer : Eocd) (cde : Nat) (fa : Option Nat) (d d' : Dev)
    (e : ZErr) (h20 : 20 ≤ cde) (hs : M.seek (probePos footer) fa d = (.err e, d')) :
    getDirectoryCounts footer cde fa d = (.err e, d') :=
  Model.probe_seek_error_reported footer cde fa d d' e h20 hs

/-- `probe_seek_error_reported` is not vacuous, at the kind that used to be swallowed: a device failing with
`InvalidInput` at its next call. -/
example (footer : Eocd) (bs : Bytes) : M.seek (probePos footer) (some 0) (Dev.ofBytesK bs .invalidInput) =
    (.err (.io .invalidInput), (Dev.ofBytesK bs .invalidInput).shift 1) := by
  rw [probe_seek_apply]; exact if_pos rfl

/-- **`new_append`**: a fault that fires — at ANY of its I/O calls, the last, repositioning seek
included (D22, repaired) — is reported as an error (the injected one; `InvalidArchive` when it hit the
FIRST seek to the directory start, which the crate maps to that). -/
theorem append_fired_fault_is_error (k : Nat) (d : Dev)
    (hf : Fired k d (newAppend (some k) d).2) : ∃ e, (newAppend (some k) d).1 = .err e :=
  newAppend_errOnFire k d hf

/-- **The repositioning seek of `new_append` is reported** (`reader.seek(Start(directory_start))?`; the
crate had `let _ = …`: D22).  The failure-free call leaves the sink at the directory start `ds`; when
exactly that seek — the last I/O call of `new_append` — fails, the call returns the injected I/O error.
(Before the repair it returned `Ok` with the *same* writer state and the sink where parsing the central
directory ended, `d1.pos`: behind the old directory.  Entries added afterwards were written behind the
old central directory, which remained in the file as dead bytes — every call `Ok`, other bytes:
`d22_pre_fix_witness`.) -/
theorem append_repositioning_seek_reported {d d1 : Dev} {s : WState} {ds : Nat}
    (h : newAppendCore none d = (.ok (s, ds), d1)) :
    newAppend none d = (.ok s, { d1.shift 1 with pos := ds }) ∧
    newAppend (some d1.calls) d = (.err (.io d.fkind), d1.shift 1) :=
  newAppend_last_seek_reported h

/-! ## D. Headline: `Ok` everywhere ⇒ identical to the failure-free run -/

/-- **`all_ok_is_faultfree`.**  For every call sequence not containing `drop`, from every writer
state, on every sink, for every fault index `k`: if every call returned `Ok`, the run is *equal* to the
failure-free run — the same return values, the same final writer state and the same final sink (bytes,
position, and even the number of I/O calls made). -/
theorem all_ok_is_faultfree (ext : WExt) (calls : List Call) (hnd : ∀ c ∈ calls, isDrop c = false)
    (s : WState) (k : Nat) (d : Dev)
    (hok : ∀ o ∈ (runCalls ext calls s (some k) d).1, o.isOk = true) :
    runCalls ext calls s (some k) d = runCalls ext calls s none d := by
  rcases run_fault_dichotomy ext calls hnd k s d with h | h
  · exact h
  · obtain ⟨o, ho, hn⟩ := h.not_allOk
    rw [hok o ho] at hn
    cases hn

/-- In particular the bytes in the sink are those of the failure-free run. -/
theorem all_ok_same_bytes (ext : WExt) (calls : List Call) (hnd : ∀ c ∈ calls, isDrop c = false)
    (s : WState) (k : Nat) (d : Dev)
    (hok : ∀ o ∈ (runCalls ext calls s (some k) d).1, o.isOk = true) :
    (runCalls ext calls s (some k) d).2.2.buf = (runCalls ext calls s none d).2.2.buf := by
  rw [all_ok_is_faultfree ext calls hnd s k d hok]

/-- **`fault_outcome_dichotomy` (writer).**  Admissible calls without `drop`, from an `Inv` state (a
fresh writer, or one returned by `new_append`), one fault at any index `k`: either the whole run is
identical to the failure-free run, or there is a call `i` such that all calls before it returned
exactly what they return in the failure-free run and call `i` returned an error. -/
theorem fault_outcome_dichotomy (ext : WExt) (calls : List Call) (hc : ∀ c ∈ calls, c.Admissible)
    (hnd : ∀ c ∈ calls, isDrop c = false) (s : WState) (hI : Inv s) (k : Nat) (d : Dev)
    (hd : Dev.InRange (runCalls ext calls s (some k) d).2.2) :
    runCalls ext calls s (some k) d = runCalls ext calls s none d ∨
    ∃ i e, (runCalls ext calls s (some k) d).1.take i = (runCalls ext calls s none d).1.take i ∧
      (runCalls ext calls s (some k) d).1[i]? = some (.err e) := by
  rcases run_fault_dichotomy ext calls hnd k s d with h | h
  · exact Or.inl h
  · obtain ⟨i, o, h1, h2, h3⟩ := h.index
    have hmem : o ∈ (runCalls ext calls s (some k) d).1 := List.mem_of_getElem? h2
    have hnp := writer_no_panic_under_fault_from ext calls hc s hI (some k) d hd o hmem
    cases o with
    | ok v => cases h3
    | err e => exact Or.inr ⟨i, e, h1, h2⟩
    | panic p => cases hnp

/-- **`ZipArchive::new`**: `Ok` under a fault — at any index — is the failure-free result, device
included. -/
theorem open_ok_is_faultfree {k : Nat} {d d' : Dev} {a : Archive}
    (h : openArchive (some k) d = (.ok a, d')) : openArchive none d = (.ok a, d') :=
  openArchive_ok_faultfree h

/-- **Streaming reader, consumers that read every entry to its end**: `Ok` under a fault is the failure-free
result (every entry, every metadata record, the device).

`_partial`: for a consumer that drops partly read entries the clause is false — every call can return `Ok`
while the entries handed out are different ones (`stream_drain_fault_swallowed`, known finding K-J). -/
theorem stream_ok_is_faultfree_partial (ext : Ext) {k : Nat} {d d' : Dev}
    {r : List (FileData × Out Bytes) × List FileData}
    (h : streamVisit ext (some k) d = (.ok r, d')) : streamVisit ext none d = (.ok r, d') :=
  (streamVisit_tight ext).ok_faultfree h

/-- **Entry reads**: a call that returns `Ok` under a fault returns exactly the failure-free result
(the same `read_to_end` outcome, the same device). -/
theorem read_ok_is_faultfree (ext : Ext) (a : Archive) (i : Nat) (name : Bytes) (pw : Option Bytes)
    (k : Nat) (d d' : Dev) :
    (∀ r, byIndexRead ext a i pw (some k) d = (.ok r, d') → byIndexRead ext a i pw none d = (.ok r, d')) ∧
    (∀ r, byNameRead ext a name pw (some k) d = (.ok r, d') →
      byNameRead ext a name pw none d = (.ok r, d')) ∧
    (∀ r, byIndexRaw a i (some k) d = (.ok r, d') → byIndexRaw a i none d = (.ok r, d')) :=
  ⟨fun _ h => (byIndexRead_tight ext a i pw).ok_faultfree h,
   fun _ h => (byNameRead_tight ext a name pw).ok_faultfree h,
   fun _ h => (byIndexRaw_tight a i).ok_faultfree h⟩

/-- **`read_scenario_dichotomy`**: open an archive and read every entry, one fault at ANY I/O call
index — either everything (archive value, every entry's content or error, final device) is identical
to the failure-free run, or `new` reports an error, or one of the entry reads reports the injected
error. -/
theorem read_scenario_dichotomy (ext : Ext) (pw : Option Bytes) (k : Nat) (d : Dev) :
    openAndReadAll ext pw (some k) d = openAndReadAll ext pw none d ∨
    (∃ e, (openAndReadAll ext pw (some k) d).1 = .err e) ∨
    .err (.io d.fkind) ∈ (openAndReadAll ext pw (some k) d).2.1 :=
  openAndReadAll_dichotomy ext pw k d

/-- **`new_append`**: `Ok` under a fault — at any index — is the failure-free result: the same writer
state and the same sink (bytes, position = the directory start, number of I/O calls).  Full strength
since the D22 repair: the exception for the last, formerly ignored seek is gone. -/
theorem append_ok_is_faultfree {k : Nat} {d d' : Dev} {s : WState}
    (h : newAppend (some k) d = (.ok s, d')) : newAppend none d = (.ok s, d') :=
  newAppend_ok_faultfree h

/-- **`all_ok_is_faultfree` for scripts that start with `new_append`.**  Open ANY bytes for appending,
then any call sequence not containing `drop`, one fault at any index `k` of the whole scenario (inside
`new_append` or inside any later call): if `new_append` and every later call returned `Ok`, the whole
scenario is *equal* to the failure-free one — the writer `new_append` returned, the sink it left, the
return values of all calls, the final writer state and the final sink (bytes, position, number of I/O
calls). -/
theorem append_all_ok_is_faultfree (ext : WExt) (calls : List Call)
    (hnd : ∀ c ∈ calls, isDrop c = false) (k : Nat) (d0 d : Dev) (s : WState)
    (h : newAppend (some k) d0 = (.ok s, d))
    (hok : ∀ o ∈ (runCalls ext calls s (some k) d).1, o.isOk = true) :
    newAppend none d0 = (.ok s, d) ∧
    runCalls ext calls s (some k) d = runCalls ext calls s none d :=
  ⟨append_ok_is_faultfree h, all_ok_is_faultfree ext calls hnd s k d hok⟩

/-! ## E. Non-vacuity: concrete runs, evaluated by the kernel -/

/-- `start_file("a")`, `write([1,2,3])`, `finish()` on an empty sink: 49 I/O calls when nothing fails. -/
def script : List Call := [.startFile [0x61] (opts .stored none), .write [1, 2, 3], .finish]

def run (fa : Option Nat) := runCalls ext0 script WState.init fa (Dev.ofBytes [])

example : ∀ c ∈ script, c.Admissible ∧ isDrop c = false := by decide
example : (run none).2.2.calls = 49 ∧ (run none).1.map cls = [.ok, .ok, .ok] := by decide +kernel

/-- A fault on a header write (I/O call 1 is the second chunk of the local header) makes `start_file`
return `Err`; the later `write` is refused, the later `finish` succeeds — no panic, an error reported. -/
example : (run (some 1)).1.map cls = [.err, .err, .ok] := by decide +kernel
/-- A fault on the data write makes `write` return `Err`. -/
example : (run (some 14)).1.map cls = [.ok, .err, .ok] := by decide +kernel
/-- A fault anywhere in `finish` (calls 15 … 48) makes `finish` return `Err`. -/
example : (List.range 34).all (fun j => (run (some (15 + j))).1.map cls == [.ok, .ok, .err]) = true := by
  decide +kernel
/-- `fired_fault_is_error` is not vacuous: in the run with fault 20 the fault fires inside `finish`
(the hypothesis `Fired` holds for the writer state and sink reached after the first two calls). -/
example :
    let r := runCalls ext0 (script.take 2) WState.init (some 20) (Dev.ofBytes [])
    Fired 20 r.2.2 (step ext0 .finish r.2.1 (some 20) r.2.2).2 := by
  decide +kernel
/-- Exhaustively for this script: for EVERY fault index some call reports an error, or outcomes and
final bytes are those of the failure-free run (indices ≥ 49 are `writer_run_unreached_fault`). -/
example : (List.range 49).all (fun k => (run (some k)).1.any (fun o => cls o == .err)) = true := by
  decide +kernel
/-- A fault index beyond the run changes nothing (instance of `writer_run_unreached_fault`) … -/
example : run (some 49) = run none := by
  have h : (runCalls ext0 script WState.init none (Dev.ofBytes [])).2.2.calls ≤ 49 := by decide +kernel
  unfold run
  exact writer_run_unreached_fault ext0 script WState.init 49 (Dev.ofBytes []) (Or.inr h)
/-- … and `all_ok_is_faultfree` applies to it: its hypothesis holds. -/
example : (run (some 60)).2.2.buf = (run none).2.2.buf := by
  have hnd : ∀ c ∈ script, isDrop c = false := by decide
  have hok : ∀ o ∈ (runCalls ext0 script WState.init (some 60) (Dev.ofBytes [])).1, o.isOk = true := by
    decide +kernel
  unfold run
  exact all_ok_same_bytes ext0 script hnd WState.init 60 (Dev.ofBytes []) hok
/-- No panic in any of the faulted runs (instance of `writer_no_panic_under_fault`). -/
example : ∀ o ∈ (run (some 20)).1, o.isPanic = false := by
  have ha : ∀ c ∈ script, c.Admissible := by decide
  have hd : Dev.InRange (runCalls ext0 script WState.init (some 20) (Dev.ofBytes [])).2.2 := by
    unfold Dev.InRange; decide +kernel
  unfold run
  exact writer_no_panic_under_fault ext0 script ha 20 (Dev.ofBytes []) hd

/-- `fault_outcome_dichotomy` instantiated (fault 20, inside `finish`): all its hypotheses hold. -/
example : run (some 20) = run none ∨
    ∃ i e, (run (some 20)).1.take i = (run none).1.take i ∧ (run (some 20)).1[i]? = some (.err e) := by
  have ha : ∀ c ∈ script, c.Admissible := by decide
  have hnd : ∀ c ∈ script, isDrop c = false := by decide
  have hd : Dev.InRange (runCalls ext0 script WState.init (some 20) (Dev.ofBytes [])).2.2 := by
    unfold Dev.InRange; decide +kernel
  unfold run
  exact fault_outcome_dichotomy ext0 script ha hnd WState.init Model.inv_init 20 (Dev.ofBytes []) hd

/-- `drop` instead of `finish`: the fault (I/O call 20, inside the implicit finalisation) is
swallowed — every call returns `Ok` — and the sink holds a partial archive: its bytes differ from the
failure-free run's.  This is why `all_ok_is_faultfree` excludes `drop`. -/
theorem drop_leaves_partial_archive :
    let calls : List Call := [.startFile [0x61] (opts .stored none), .write [1, 2, 3], .drop]
    (runCalls ext0 calls WState.init (some 20) (Dev.ofBytes [])).1.map cls = [.ok, .ok, .ok] ∧
    (runCalls ext0 calls WState.init (some 20) (Dev.ofBytes [])).2.2.buf ≠
      (runCalls ext0 calls WState.init none (Dev.ofBytes [])).2.2.buf := by
  decide +kernel

/-! ### Reader -/

def isInjected {α} : Out α → Bool
  | .err (.io .injected) => true
  | _ => false

/-- A one-entry archive without ZIP64 records (`C05.oneEntry`, 101 bytes): 35 I/O calls; EVERY fault
index below 35 is an error (index 13, the ZIP64 probe seek, included — D18). -/
example : (openArchive none (Dev.ofBytes C05.oneEntry)).2.calls = 35 ∧
    C05.okEntries (openArchive none (Dev.ofBytes C05.oneEntry)).1 = some 1 := by decide +kernel
example : (List.range 35).all (fun k =>
    C05.isErr (openArchive (some k) (Dev.ofBytes C05.oneEntry)).1) = true := by decide +kernel
example : isInjected (openArchive (some 13) (Dev.ofBytes C05.oneEntry)).1 = true := by decide +kernel

/-- `read_scenario_dichotomy` instantiated at the former exception, fault index 13. -/
example :
    openAndReadAll storedExt none (some 13) (Dev.ofBytes C05.oneEntry) =
      openAndReadAll storedExt none none (Dev.ofBytes C05.oneEntry) ∨
    (∃ e, (openAndReadAll storedExt none (some 13) (Dev.ofBytes C05.oneEntry)).1 = .err e) ∨
    .err (.io .injected) ∈ (openAndReadAll storedExt none (some 13) (Dev.ofBytes C05.oneEntry)).2.1 :=
  read_scenario_dichotomy storedExt none 13 (Dev.ofBytes C05.oneEntry)

/-- `probe_skipped_without_room` is not vacuous: the empty archive (22 bytes) has its end record at 0 < 20;
nothing is probed (13 I/O calls: the end-record search and the seek to the directory, no probe seek) and
the archive opens with zero entries — under every fault kind, every fault index is an error. -/
example : C05.okEntries (openArchive none (Dev.ofBytes C05.emptyZip)).1 = some 0 ∧
    (List.range (openArchive none (Dev.ofBytes C05.emptyZip)).2.calls).all (fun k =>
      C05.isErr (openArchive (some k) (Dev.ofBytesK C05.emptyZip .invalidInput)).1) = true := by
  decide +kernel

/-- `new_append` on `C05.oneEntry` (`append_repositioning_seek_reported`): 36 I/O calls; the
failure-free call leaves the sink at the directory start 32; with its last seek (call 35) failing it
returns the injected I/O error … -/
example :
    (match newAppend none (Dev.ofBytes C05.oneEntry), newAppend (some 35) (Dev.ofBytes C05.oneEntry) with
    | (.ok s, d), (.err (.io .injected), d') =>
      d.pos == 32 && d.calls == 36 && d'.calls == 36 && s.files.length == 1
    | _, _ => false) = true := by decide +kernel
/-- … as EVERY fault index of the call does (`append_fired_fault_is_error` is not vacuous at any of the
36 calls), so the hypothesis of `append_ok_is_faultfree` holds exactly for `k` outside the call. -/
example : (List.range 36).all (fun k =>
    C05.isErr (newAppend (some k) (Dev.ofBytes C05.oneEntry)).1) = true := by decide +kernel
example : (newAppend (some 36) (Dev.ofBytes C05.oneEntry)).1.isOk = true := by decide +kernel

/-- `append_all_ok_is_faultfree` is not vacuous: append one entry onto `C05.oneEntry` and finish, the
fault (index 1000) beyond the scenario's I/O calls: `new_append` and every call return `Ok`. -/
example :
    (match newAppend (some 1000) (Dev.ofBytes C05.oneEntry) with
    | (.ok s, d) =>
      (runCalls ext0 [.startFile [0x62] (opts .stored none), .write [1, 2, 3], .finish] s (some 1000) d).1.all
        (·.isOk)
    | _ => false) = true := by decide +kernel

open M in
/-- `new_append` as it was before the D22 repair: the result of the last seek ignored (`let _ =`).  Local
copy, used only by `d22_pre_fix_witness`. -/
def newAppendPreD22 : M WState := do
  let (footer, cdeStart) ← findAndParseEocd
  if footer.diskNumber != footer.diskWithCd then throw .unsupportedArchive else do
    let (archiveOffset, directoryStart, numberOfFiles) ← getDirectoryCounts footer cdeStart
    if directoryStart > cdeStart then throw .invalidArchive else
    let r ← attempt (seek (.start directoryStart))
    match r with
    | .error _ => throw .invalidArchive
    | .ok _ =>
      let files ← newAppend.loop archiveOffset numberOfFiles
      let _ ← attempt (seek (.start directoryStart))
      pure { WState.init with files, comment := footer.comment, writingRaw := true }

/-- the scenario of `d22_pre_fix_witness`: open `C05.oneEntry` for appending (pre-repair definition), add
the stored entry `b` = `[1, 2, 3]`, finish -/
def d22Run (fa : Option Nat) : Option (List Cls × Bytes × Nat) :=
  match newAppendPreD22 fa (Dev.ofBytes C05.oneEntry) with
  | (.ok s, d) =>
    let r := runCalls ext0 [.startFile [0x62] (opts .stored none), .write [1, 2, 3], .finish] s fa d
    some (r.1.map cls, r.2.2.buf, r.2.2.pos)
  | _ => none

/-- **The finding (`d22_pre_fix_witness`), against the pre-repair definition** (replayed on the crate
before the repair: `corpus/fault.ops`).  With the repositioning seek (I/O call 35) failing, `new_append`
on the 101-byte `C05.oneEntry` returned `Ok` with the sink at 79 — the end record — instead of 32, the
directory start; `start_file`, `write` and `finish` then all return `Ok` as in the failure-free run, but
the new entry and the new directory are written BEHIND the old central directory, which stays in the
file as 47 dead bytes: every call `Ok`, a result that is not the failure-free one — which C11 forbids. -/
theorem d22_pre_fix_witness :
    (match d22Run none, d22Run (some 35) with
    | some (o, b, p), some (o', b', p') =>
      o == [.ok, .ok, .ok] && o' == o && b != b' && b'.length == b.length + 47 && p' == p + 47 &&
      b'.take 79 == C05.oneEntry.take 79
    | _, _ => false) = true := by
  decide +kernel

/-- The streaming reader on the same bytes: every fault index inside the run is the injected error. -/
example : (List.range (streamVisit storedExt none (Dev.ofBytes C05.oneEntry)).2.calls).all (fun k =>
    isInjected (streamVisit storedExt (some k) (Dev.ofBytes C05.oneEntry)).1) = true := by decide +kernel

/-! ### K-J: a read error in the drain of a dropped streamed entry is swallowed (known finding of the BARE function
`read_zipfile_from_stream`; repaired for `ZipStreamReader::visit` / `extract`: `visit_regression`) -/

/-- A 314-byte stream: stored entry `a` whose content is `"head"` followed by a complete stored archive with the one
entry `evil`; stored entry `b`; the central directory (built with CPython `zipfile`). -/
def nestedStream : Bytes :=
  [
     0x50,0x4b,0x03,0x04,0x14,0x00,0x00,0x00,0x00,0x00,0x00,0x00,0x21,0x00,0x04,0xee,0x70,0x7f,0x77,0x00,0x00,0x00,0x77,0x00,
     0x00,0x00,0x01,0x00,0x00,0x00,0x61,0x68,0x65,0x61,0x64,0x50,0x4b,0x03,0x04,0x14,0x00,0x00,0x00,0x00,0x00,0x00,0x00,0x21,
     0x00,0x3e,0x8d,0xac,0xb6,0x09,0x00,0x00,0x00,0x09,0x00,0x00,0x00,0x04,0x00,0x00,0x00,0x65,0x76,0x69,0x6c,0x65,0x76,0x69,
     0x6c,0x20,0x64,0x61,0x74,0x61,0x50,0x4b,0x01,0x02,0x14,0x03,0x14,0x00,0x00,0x00,0x00,0x00,0x00,0x00,0x21,0x00,0x3e,0x8d,
     0xac,0xb6,0x09,0x00,0x00,0x00,0x09,0x00,0x00,0x00,0x04,0x00,0x00,0x00,0x00,0x00,0x00,0x00,0x00,0x00,0x00,0x00,0xa4,0x01,
     0x00,0x00,0x00,0x00,0x65,0x76,0x69,0x6c,0x50,0x4b,0x05,0x06,0x00,0x00,0x00,0x00,0x01,0x00,0x01,0x00,0x32,0x00,0x00,0x00,
     0x2b,0x00,0x00,0x00,0x00,0x00,0x50,0x4b,0x03,0x04,0x14,0x00,0x00,0x00,0x00,0x00,0x00,0x00,0x21,0x00,0xc5,0xe9,0x2d,0x9f,
     0x11,0x00,0x00,0x00,0x11,0x00,0x00,0x00,0x01,0x00,0x00,0x00,0x62,0x73,0x65,0x76,0x65,0x6e,0x74,0x65,0x65,0x6e,0x20,0x62,
     0x79,0x74,0x65,0x73,0x21,0x21,0x50,0x4b,0x01,0x02,0x14,0x03,0x14,0x00,0x00,0x00,0x00,0x00,0x00,0x00,0x21,0x00,0x04,0xee,
     0x70,0x7f,0x77,0x00,0x00,0x00,0x77,0x00,0x00,0x00,0x01,0x00,0x00,0x00,0x00,0x00,0x00,0x00,0x00,0x00,0x00,0x00,0xa4,0x01,
     0x00,0x00,0x00,0x00,0x61,0x50,0x4b,0x01,0x02,0x14,0x03,0x14,0x00,0x00,0x00,0x00,0x00,0x00,0x00,0x21,0x00,0xc5,0xe9,0x2d,
     0x9f,0x11,0x00,0x00,0x00,0x11,0x00,0x00,0x00,0x01,0x00,0x00,0x00,0x00,0x00,0x00,0x00,0x00,0x00,0x00,0x00,0xa4,0x01,0x96,
     0x00,0x00,0x00,0x62,0x50,0x4b,0x05,0x06,0x00,0x00,0x00,0x00,0x02,0x00,0x02,0x00,0x5e,0x00,0x00,0x00,0xc6,0x00,0x00,0x00,
     0x00,0x00]

/-- names of the entries handed out and whether every call — `read_zipfile_from_stream` and the consumer's reads —
returned `Ok` -/
def streamSaw (r : Out (List (FileData × Out Bytes)) × Dev) : Option (List Bytes × Bool) :=
  match r.1 with
  | .ok es => some (es.map (·.1.fileName), es.all (fun e => e.2.isOk))
  | _ => none

/-- **`stream_drain_fault_swallowed`** — counterexample to the full streaming clause (the former
`stream_entries_fired_fault_is_error`, and "`Ok` everywhere implies the failure-free entries").  The consumer
reads 4 bytes of each entry and drops the handle.  Failure-free it sees `a`, `b`.  With I/O call 13 failing — the
first read of the drain `ZipFile::drop` runs for `a` (calls 0–11: the header, 12: the consumer's read) — the
drain ends silently, the stream stays inside `a`'s data, and the next `read_zipfile_from_stream` parses the
nested archive: EVERY call returns `Ok` and the entries are `a`, `evil`.  Replayed on the crate by the fault
stream (`fault.stream … consume=4 k=14` in corpus/fault.ops is the same with 64 KiB of filler in front, i.e. the
SECOND drain read; oracle message `K-J stream-drain-fault-swallowed:`). -/
theorem stream_drain_fault_swallowed :
    streamSaw (streamEntriesC storedExt [{ k := 4, pulled := 4 }] 8 0 none (Dev.ofBytes nestedStream))
      = some ([[0x61], [0x62]], true) ∧
    streamSaw (streamEntriesC storedExt [{ k := 4, pulled := 4 }] 8 0 (some 13) (Dev.ofBytes nestedStream))
      = some ([[0x61], [0x65, 0x76, 0x69, 0x6c]], true) ∧
    Fired 13 (Dev.ofBytes nestedStream)
      (streamEntriesC storedExt [{ k := 4, pulled := 4 }] 8 0 (some 13) (Dev.ofBytes nestedStream)).2 := by
  decide +kernel

/-- the error / the value of an outcome (projections with decidable equality) -/
def errOf {α} : Out α → Option ZErr
  | .err e => some e
  | _ => none
def okOf {α} : Out α → Option α
  | .ok a => some a
  | _ => none

/-- **Regression (`visit_regression`)**: the same stream, the same consumer (4 bytes of each entry) and the same fault
through `ZipStreamReader::visit`: failure-free the visitor is shown `a`, `b` and their two metadata records; with I/O
call 13 failing — the first read of the drain, now `visit`'s own `drain_stream()?` — `visit` returns the injected
error (`fault.visit … consume=4 k=14` in corpus/fault.ops: the same with 64 KiB of filler, second drain read), and so
it does for EVERY fault index of the run; hypotheses of `visit_fired_fault_is_error` / `visit_ok_is_faultfree`
instantiated. -/
theorem visit_regression :
    ((streamVisitC storedExt [{ k := 4, pulled := 4 }] none (Dev.ofBytes nestedStream)).1.isOk = true ∧
     (streamVisitC storedExt [{ k := 4, pulled := 4 }] none (Dev.ofBytes nestedStream)).2.calls = 65) ∧
    errOf (streamVisitC storedExt [{ k := 4, pulled := 4 }] (some 13) (Dev.ofBytes nestedStream)).1
      = some (.io .injected) ∧
    Fired 13 (Dev.ofBytes nestedStream)
      (streamVisitC storedExt [{ k := 4, pulled := 4 }] (some 13) (Dev.ofBytes nestedStream)).2 ∧
    (List.range 65).all (fun k =>
      C05.isErr (streamVisitC storedExt [{ k := 4, pulled := 4 }] (some k) (Dev.ofBytes nestedStream)).1) = true := by
  decide +kernel

/-- `visit` as it was before the repair: the entry loop is the bare function's (`streamEntriesC`: the drain runs in
`Drop`, silently), then the central directory. -/
def streamVisitPreFix (ext : Ext) (pattern : List Consume) : M (List Bytes × List Bytes) := do
  let d ← M.getDev
  let files ← streamEntriesC ext pattern (d.buf.length / 30 + 1) 0
  let metas ← visitCentral d.buf.length
  pure (files.map (·.1.fileName), metas.map (·.fileName))

/-- **The finding, against the pre-repair definition (`visit_pre_fix_witness`)**: with I/O call 13 failing `visit`
returned `Ok` having shown the visitor `a`, `evil` and the nested archive's one metadata record `evil`, instead of
`a`, `b` and the records `a`, `b`.  Replayed on the unrepaired crate by `fault.visit … consume=4 k=14`. -/
theorem visit_pre_fix_witness :
    okOf (streamVisitPreFix storedExt [{ k := 4, pulled := 4 }] none (Dev.ofBytes nestedStream)).1
      = some ([[0x61], [0x62]], [[0x61], [0x62]]) ∧
    okOf (streamVisitPreFix storedExt [{ k := 4, pulled := 4 }] (some 13) (Dev.ofBytes nestedStream)).1
      = some ([[0x61], [0x65, 0x76, 0x69, 0x6c]], [[0x65, 0x76, 0x69, 0x6c]]) := by
  decide +kernel

/-- `visit_interrupted_invisible` instantiated: a device failing with `Interrupted` at call 13 (inside the drain) or
at call 3 (inside a header `read_exact`): `visit` succeeds with the failure-free result, 66 calls instead of 65; at
call 12 — the visitor's own bare read — the visitor gets the error and `visit` returns it. -/
example :
    (streamVisitC storedExt [{ k := 4, pulled := 4 }] (some 13) (Dev.ofBytesK nestedStream .interrupted)).1.isOk = true ∧
    (streamVisitC storedExt [{ k := 4, pulled := 4 }] (some 13) (Dev.ofBytesK nestedStream .interrupted)).2.calls = 66 ∧
    (streamVisitC storedExt [{ k := 4, pulled := 4 }] (some 3) (Dev.ofBytesK nestedStream .interrupted)).2.calls = 66 ∧
    errOf (streamVisitC storedExt [{ k := 4, pulled := 4 }] (some 12) (Dev.ofBytesK nestedStream .interrupted)).1
      = some (.io .interrupted) := by
  decide +kernel

/-- **What the hard-failure primitives do NOT describe (`interrupted_not_modelled_in_read_exact`)**: `M.readExact` /
`M.writeAll` (and with them `openArchive`, `byIndexRead`, the writer model `step`) treat a failure of EVERY kind as a hard
one, whereas std's `read_exact` / `write_all` retry `Interrupted`: these functions answer `Err(Interrupted)` where the
code succeeds with one more I/O call (`fault.read … k=5 kind=interrupted` on `zip64Zero`: implementation `open=ok …
ncalls=52`, hard-failure model `open=err:io:interrupted ncalls=6`).  They are the models of the code for every OTHER kind
(`open_hard_kinds`, `writer_call_hard_kinds`); for `Interrupted` the models with std's convention are `openArchiveI`,
`byIndexReadI` / `byIndexReadB`, `stepI`, `newAppendI` (section F), from which the driver answers `fault.read` /
`fault.write … kind=interrupted` (`open_interrupted_witness`: call 5 succeeds there, as in the implementation). -/
theorem interrupted_not_modelled_in_read_exact :
    errOf (M.readExact 4 (some 0) (Dev.ofBytesK [1, 2, 3, 4] .interrupted)).1 = some (.io .interrupted) ∧
    okOf (M.retried (M.readExact 4) (some 0) (Dev.ofBytesK [1, 2, 3, 4] .interrupted)).1 = some [1, 2, 3, 4] := by
  decide +kernel

/-- … whereas the same fault while every entry is read to its end is reported. -/
example : C05.isErr (streamVisit storedExt (some 13) (Dev.ofBytes nestedStream)).1 = true := by decide +kernel

/-! ### D18: the swallowed probe-seek failure (found by this development, repaired in the crate) -/

/-- A 145-byte ZIP64 archive: one central header (`"a"`), a ZIP64 end record (1 entry, directory of 47
bytes at offset 0), its locator, and a 22-byte end record whose 16/32-bit fields are all zero. -/
def zip64Zero : Bytes :=
  [0x50,0x4b,0x01,0x02, 0x14,0x00, 0x14,0x00, 0,0, 0,0, 0,0, 0x21,0x00, 0,0,0,0, 0,0,0,0, 0,0,0,0,
   1,0, 0,0, 0,0, 0,0, 0,0, 0,0,0,0, 0,0,0,0, 0x61] ++
  [0x50,0x4b,0x06,0x06, 44,0,0,0,0,0,0,0, 45,0, 45,0, 0,0,0,0, 0,0,0,0, 1,0,0,0,0,0,0,0,
   1,0,0,0,0,0,0,0, 47,0,0,0,0,0,0,0, 0,0,0,0,0,0,0,0] ++
  [0x50,0x4b,0x06,0x07, 0,0,0,0, 47,0,0,0,0,0,0,0, 1,0,0,0] ++
  [0x50,0x4b,0x05,0x06, 0,0, 0,0, 0,0, 0,0, 0,0,0,0, 0,0,0,0, 0,0]

/-- **Regression (`d18_regression`).**  On `zip64Zero` the failure-free `ZipArchive::new` succeeds with
one entry in 49 I/O calls; with the probe seek (I/O call 13) failing it now returns the injected error,
and so does every other fault index inside the run except the seek to the directory (`InvalidArchive`):
no index yields a success. -/
theorem d18_regression :
    C05.okEntries (openArchive none (Dev.ofBytes zip64Zero)).1 = some 1 ∧
    (openArchive none (Dev.ofBytes zip64Zero)).2.calls = 49 ∧
    isInjected (openArchive (some 13) (Dev.ofBytes zip64Zero)).1 = true ∧
    (List.range 49).all (fun k => C05.isErr (openArchive (some k) (Dev.ofBytes zip64Zero)).1) = true := by
  decide +kernel

/-- the eight `io::ErrorKind`s the crate, std's retry loops (and this model) can tell apart -/
def allKinds : List IoKind :=
  [.unexpectedEof, .other, .brokenPipe, .invalidData, .invalidInput, .writeZero, .injected, .interrupted]

/-- **Regression, second part (`d18_regression_every_kind`).**  Whatever kind of error the device fails
with — `InvalidInput` included —, the probe seek (I/O call 13) failing returns exactly that error, and no
fault index yields a success. -/
theorem d18_regression_every_kind :
    allKinds.all (fun κ =>
      (match (openArchive (some 13) (Dev.ofBytesK zip64Zero κ)).1 with
        | .err (.io κ') => κ' == κ
        | _ => false) &&
      (List.range 49).all (fun k => C05.isErr (openArchive (some k) (Dev.ofBytesK zip64Zero κ)).1)) = true := by
  decide +kernel

open M in
/-- `get_directory_counts` as it was before the D18 repair: ANY failure of the probe seek was taken for
"no ZIP64 locator" (`.error _ => pure none`).  Local copy, used only by `d18_pre_fix_witness`. -/
def getDirectoryCountsPreD18 (footer : Eocd) (cdeStart : Nat) : M (Nat × Nat × Nat) := do
  let sk ← attempt (seek (.endOff (-(20 + 22 + (footer.comment.length : Int)))))
  let loc : Option Locator ← match sk with
    | .ok _ => do
      let r ← attempt parseLocator
      match r with
      | .ok l => pure (some l)
      | .error .invalidArchive => pure none
      | .error e => throw e
    | .error _ => pure none
  match loc with
  | none =>
    let sz := footer.cdSize.toNat
    let off := footer.cdOffset.toNat
    if cdeStart < sz + off then throw .invalidArchive else
    let archiveOffset := cdeStart - sz - off
    pure (archiveOffset, off + archiveOffset, footer.filesOnDisk.toNat)
  | some l =>
    if !footer.recordTooSmall && footer.diskNumber.toUInt32 != l.diskWithCd then
      throw .unsupportedArchive
    else if cdeStart < 60 then throw .invalidArchive else do
      let (f64, archiveOffset) ← findEocd64 l.eocd64Offset.toNat (cdeStart - 60)
      if f64.diskNumber != f64.diskWithCd then throw .unsupportedArchive else
      let ds := f64.cdOffset.toNat + archiveOffset
      if ds ≥ 18446744073709551616 then throw .invalidArchive else
      pure (archiveOffset, ds, f64.files.toNat)

open M in
/-- `ZipArchive::new` over the pre-repair `get_directory_counts`. -/
def openArchivePreD18 : M Archive := do
  let (footer, cdeStart) ← findAndParseEocd
  if !footer.recordTooSmall && footer.diskNumber != footer.diskWithCd then
    throw .unsupportedArchive
  else do
    let (archiveOffset, directoryStart, numberOfFiles) ← getDirectoryCountsPreD18 footer cdeStart
    let r ← attempt (seek (.start directoryStart))
    match r with
    | .error _ => throw .invalidArchive
    | .ok _ =>
      let files ← readCentralLoop archiveOffset numberOfFiles
      pure { files, offset := archiveOffset, comment := footer.comment }

/-- **The finding (`d18_pre_fix_witness`), against the pre-repair definition**: with the probe seek
(I/O call 13) failing, `ZipArchive::new` on `zip64Zero` returned `Ok` with ZERO entries (archive offset
123) where the failure-free run returns ONE — the seek error was swallowed and the reader fell back to
the 22-byte end record: a success carrying different entries, which C11 forbids.  (The same happened,
with 65535 of ≥ 65536 entries, on archives whose end record carries the real size/offset and the
`0xFFFF` count sentinel when the first central header is 76 bytes long.) -/
theorem d18_pre_fix_witness :
    C05.okEntries (openArchivePreD18 none (Dev.ofBytes zip64Zero)).1 = some 1 ∧
    C05.okEntries (openArchivePreD18 (some 13) (Dev.ofBytes zip64Zero)).1 = some 0 := by
  decide +kernel

open M in
/-- `get_directory_counts` as it was after the FIRST D18 repair: a failure of the probe seek of kind
`InvalidInput` — what a refused seek to a negative position yields — was still taken for "no ZIP64
locator", whoever produced it.  Local copy, used only by `d18_invalid_input_pre_fix_witness`. -/
def getDirectoryCountsPreD18b (footer : Eocd) (cdeStart : Nat) : M (Nat × Nat × Nat) := do
  let sk ← attempt (seek (.endOff (-(20 + 22 + (footer.comment.length : Int)))))
  let loc : Option Locator ← match sk with
    | .ok _ => do
      let r ← attempt parseLocator
      match r with
      | .ok l => pure (some l)
      | .error .invalidArchive => pure none
      | .error e => throw e
    | .error (.io .invalidInput) => pure none
    | .error e => throw e
  match loc with
  | none =>
    let sz := footer.cdSize.toNat
    let off := footer.cdOffset.toNat
    if cdeStart < sz + off then throw .invalidArchive else
    let archiveOffset := cdeStart - sz - off
    pure (archiveOffset, off + archiveOffset, footer.filesOnDisk.toNat)
  | some l =>
    if !footer.recordTooSmall && footer.diskNumber.toUInt32 != l.diskWithCd then
      throw .unsupportedArchive
    else if cdeStart < 60 then throw .invalidArchive else do
      let (f64, archiveOffset) ← findEocd64 l.eocd64Offset.toNat (cdeStart - 60)
      if f64.diskNumber != f64.diskWithCd then throw .unsupportedArchive else
      let ds := f64.cdOffset.toNat + archiveOffset
      if ds ≥ 18446744073709551616 then throw .invalidArchive else
      pure (archiveOffset, ds, f64.files.toNat)

open M in
/-- `ZipArchive::new` over that definition. -/
def openArchivePreD18b : M Archive := do
  let (footer, cdeStart) ← findAndParseEocd
  if !footer.recordTooSmall && footer.diskNumber != footer.diskWithCd then
    throw .unsupportedArchive
  else do
    let (archiveOffset, directoryStart, numberOfFiles) ← getDirectoryCountsPreD18b footer cdeStart
    let r ← attempt (seek (.start directoryStart))
    match r with
    | .error _ => throw .invalidArchive
    | .ok _ =>
      let files ← readCentralLoop archiveOffset numberOfFiles
      pure { files, offset := archiveOffset, comment := footer.comment }

/-- **The red-team finding (`d18_invalid_input_pre_fix_witness`), against the definition after the first
repair**: a device whose failing call fails with kind `InvalidInput` (fault stream: `kind=invalidinput`),
failing at the probe seek (I/O call 13): `ZipArchive::new` on `zip64Zero` returned `Ok` with ZERO entries
where the failure-free run returns ONE; with the kind the model used to assume (`injected`) the same
definition reported the error — the defect was hidden by the assumption that the injected error is
distinguishable from `InvalidInput`. -/
theorem d18_invalid_input_pre_fix_witness :
    C05.okEntries (openArchivePreD18b none (Dev.ofBytesK zip64Zero .invalidInput)).1 = some 1 ∧
    C05.okEntries (openArchivePreD18b (some 13) (Dev.ofBytesK zip64Zero .invalidInput)).1 = some 0 ∧
    isInjected (openArchivePreD18b (some 13) (Dev.ofBytes zip64Zero)).1 = true := by
  decide +kernel

/-! ### Elementary facts about how the model reports a failing call (first layer of C11) -/

/-- Same statement as `writer_no_panic_under_fault` under its first-layer name. -/
theorem writer_fault_no_panic (ext : WExt) (calls : List Call) (hc : ∀ c ∈ calls, c.Admissible)
    (k : Nat) (d : Dev) (hd : Dev.InRange (runCalls ext calls WState.init (some k) d).2.2) :
    ∀ o ∈ (runCalls ext calls WState.init (some k) d).1, o.isPanic = false :=
  writer_no_panic ext calls hc (some k) d hd

/-- **Writer: a failing device never escapes a call as anything but that call's `Err`.** -/
theorem writer_fault_is_call_error (ext : WExt) (c : Call) (hc : c.Admissible) (s : WState)
    (hI : Inv s) (k : Nat) (d : Dev) (e : ZErr) (d' : Dev) :
    step ext c s (some k) d ≠ (.err e, d') :=
  C12.step_total ext c hc s hI (some k) d e d'

/-- **Reader: no step of any reader script panics under any single fault**, for a fresh input. -/
theorem reader_fault_no_panic (ext : Ext) (hext : ExtNoPanic ext) (bytes : Bytes)
    (hlen : bytes.length < 2 ^ 63) (k : Nat) (script : List C05.Step) :
    C05.runScript ext (some k) ⟨Dev.ofBytes bytes, none⟩ script = false :=
  C05.reader_total_bytes ext hext bytes hlen (some k) script

/-- The failing call is the `k`-th I/O call and reports the injected error (of the device's kind); the device keeps its
contents and position (only the call counter advances). -/
theorem prim_fault {α} (f : Dev → Out α × Dev) (d : Dev) :
    M.prim f (some d.calls) d = (.err (.io d.fkind), { d with calls := d.calls + 1 }) := by
  unfold M.prim
  simp

/-- Any other call is unaffected by the fault. -/
theorem prim_no_fault {α} (f : Dev → Out α × Dev) (k : Nat) (d : Dev) (h : k ≠ d.calls) :
    M.prim f (some k) d = M.prim f none d := by
  unfold M.prim
  have : (some k = some d.calls) = False := by simp [h]
  simp [this]

/-- `io` (the model of `?` on a device result inside a writer call): a device error becomes the call's
`Err`, with the writer state reached so far. -/
theorem io_propagates {α β} (s : WState) (m : M α) (kont : α → M (Except ZErr β × WState))
    (fa : Option Nat) (d d' : Dev) (e : ZErr) (h : m fa d = (.err e, d')) :
    Model.io s m kont fa d = (.ok (.error e, s), d') := by
  unfold Model.io
  rw [M.bind_apply, M.attempt_apply, h]
  rfl

/-! ## F. `ErrorKind::Interrupted`: the models with std's retry convention

### `Interrupted` on the seekable reader: the generic parsers at `MI`

`Model/Interrupted.lean` instantiates the generic parsers (`G.openArchive`, `G.findContent`: the functions proved equal
to the model's at `M`, `Lemmas/ShortRead`) at the monad `MI`, where `read_exact` / `read_to_end` are std's retry loops and
`seek` is a bare call: `openArchiveI`, `findContentI`, and the entry reads `byIndexReadI` (consumer = std's `read_to_end` /
`io::copy`: retries) and `byIndexReadB` (consumer = a hand-written `read` loop that does not retry - what the fault
harness's `run_read` does; the driver answers `fault.read … kind=interrupted` from it).

PROVED (helper c11c, `Lemmas/FaultInterrupted`): the relation `RI x y` between a hard-failure computation and its
counterpart with std's convention - closed under bind / attempt / if / the primitives, established for every parser by
the induction `G.openArchive_M` needed - gives, for `ZipArchive::new`, `find_content` and both entry reads, on EVERY device
and fault index: equality with the hard-failure model when the device does not fail with `Interrupted`
(`open_hard_kinds` …), and under an `Interrupted` fault the trichotomy not reached / absorbed by a retry loop (outcome,
value, position of the failure-free run, one more call) / fired at a bare call and reported (`open_interrupted_trichotomy`
…).  The C11 clause for ANY kind: `open_ok_is_faultfree_any_kind`, `read_ok_is_faultfree_any_kind`,
`open_fault_outcome_any_kind`, `seekable_reader_no_panic_any_kind`.  Which calls are bare is a property of the run (the
`seek`s); named ones: `open_first_seek_reported`, `find_content_first_seek_reported`; all of them on a witness:
`open_interrupted_witness`.  The WRITER: `Model/InterruptedW.lean` (the generic writer `GW` at `MI`), theorems below
(`writer_call_hard_kinds` … `all_ok_is_faultfree_any_kind`). -/

/-- **On a device that fails with any kind but `Interrupted` the model with std's convention IS the hard-failure
model** - `ZipArchive::new`, `find_content`, both entry reads; every fault index, every device. -/
theorem open_hard_kinds (fa : Option Nat) (d : Dev) (hk : d.fkind ≠ .interrupted) :
    openArchiveI fa d = openArchive fa d ∧
    (∀ f, findContentI f fa d = findContent f fa d) ∧
    (∀ ext a i pw, byIndexReadI ext a i pw fa d = byIndexRead ext a i pw fa d) ∧
    (∀ ext a i pw, byIndexReadB ext a i pw fa d = byIndexRead ext a i pw fa d) :=
  ⟨openArchiveI_ri.hard fa d hk, fun f => (findContentI_ri f).hard fa d hk,
   fun ext a i pw => (byIndexReadI_ri ext a i pw).hard fa d hk,
   fun ext a i pw => (byIndexReadB_ri ext a i pw).hard fa d hk⟩

/-- … and without a fault, whatever kind the device would fail with. -/
theorem open_no_fault (d : Dev) :
    openArchiveI none d = openArchive none d ∧
    (∀ f, findContentI f none d = findContent f none d) ∧
    (∀ ext a i pw, byIndexReadI ext a i pw none d = byIndexRead ext a i pw none d) ∧
    (∀ ext a i pw, byIndexReadB ext a i pw none d = byIndexRead ext a i pw none d) :=
  ⟨openArchiveI_ri.no_fault d, fun f => (findContentI_ri f).no_fault d,
   fun ext a i pw => (byIndexReadI_ri ext a i pw).no_fault d,
   fun ext a i pw => (byIndexReadB_ri ext a i pw).no_fault d⟩

/-- **`ZipArchive::new` under one fault, `Interrupted` included - the trichotomy.**  (1) the fault is not reached: the
failure-free run; (2) the device fails with `Interrupted` and the fault hit a call inside a `read_exact`: it is
INVISIBLE - outcome, archive value, buffer and position of the failure-free run, one more I/O call; (3) the fault
fired in the hard-failure run as well - a bare `seek` when the kind is `Interrupted`, any call otherwise -: the answer
is the hard-failure model's, which is an error (`open_fired_fault_is_error`). -/
theorem open_interrupted_trichotomy (k : Nat) (d : Dev) :
    (¬ Fired k d (openArchive none d).2 ∧ openArchiveI (some k) d = openArchive none d) ∨
    (Fired k d (openArchive none d).2 ∧ d.fkind = .interrupted ∧
      openArchiveI (some k) d = ((openArchive none d).1, (openArchive none d).2.shift 1)) ∨
    (Fired k d (openArchive none d).2 ∧ Fired k d (openArchive (some k) d).2 ∧
      openArchiveI (some k) d = openArchive (some k) d ∧ ∃ e, (openArchiveI (some k) d).1 = .err e) := by
  rcases openArchiveI_ri.interrupted k d with h | h | ⟨h1, h2, h3⟩
  · exact Or.inl h
  · exact Or.inr (Or.inl h)
  · refine Or.inr (Or.inr ⟨h1, h2, h3, ?_⟩)
    rw [h3]
    exact openArchive_errOnFire k d h2

/-- the same for `find_content` -/
theorem find_content_interrupted_trichotomy (f : FileData) (k : Nat) (d : Dev) :
    (¬ Fired k d (findContent f none d).2 ∧ findContentI f (some k) d = findContent f none d) ∨
    (Fired k d (findContent f none d).2 ∧ d.fkind = .interrupted ∧
      findContentI f (some k) d = ((findContent f none d).1, (findContent f none d).2.shift 1)) ∨
    (Fired k d (findContent f none d).2 ∧ Fired k d (findContent f (some k) d).2 ∧
      findContentI f (some k) d = findContent f (some k) d ∧ (findContentI f (some k) d).1 = .err (.io d.fkind)) := by
  rcases (findContentI_ri f).interrupted k d with h | h | ⟨h1, h2, h3⟩
  · exact Or.inl h
  · exact Or.inr (Or.inl h)
  · refine Or.inr (Or.inr ⟨h1, h2, h3, ?_⟩)
    rw [h3]
    exact (findContent_tight f).reports h2

/-- … and for the entry reads, with a retrying consumer (`byIndexReadI`) and a bare one (`byIndexReadB`). -/
theorem read_interrupted_trichotomy (ext : Ext) (a : Archive) (i : Nat) (pw : Option Bytes) (k : Nat) (d : Dev) :
    ∀ y, (y = byIndexReadI ext a i pw ∨ y = byIndexReadB ext a i pw) →
    (¬ Fired k d (byIndexRead ext a i pw none d).2 ∧ y (some k) d = byIndexRead ext a i pw none d) ∨
    (Fired k d (byIndexRead ext a i pw none d).2 ∧ d.fkind = .interrupted ∧
      y (some k) d = ((byIndexRead ext a i pw none d).1, (byIndexRead ext a i pw none d).2.shift 1)) ∨
    (Fired k d (byIndexRead ext a i pw none d).2 ∧ Fired k d (byIndexRead ext a i pw (some k) d).2 ∧
      y (some k) d = byIndexRead ext a i pw (some k) d ∧ (y (some k) d).1 = .err (.io d.fkind)) := by
  intro y hy
  have hri : RI (byIndexRead ext a i pw) y := by
    rcases hy with rfl | rfl
    · exact byIndexReadI_ri ext a i pw
    · exact byIndexReadB_ri ext a i pw
  rcases hri.interrupted k d with h | h | ⟨h1, h2, h3⟩
  · exact Or.inl h
  · exact Or.inr (Or.inl h)
  · refine Or.inr (Or.inr ⟨h1, h2, h3, ?_⟩)
    rw [h3]
    exact (byIndexRead_tight ext a i pw).reports h2

/-- **`open_ok_is_faultfree_any_kind`** - the C11 clause for `ZipArchive::new` at full strength, `Interrupted` included:
`Ok` under one fault of ANY kind at ANY index carries the failure-free archive value, and the device is the
failure-free one (bytes, position, calls) - or, when a retry loop absorbed an `Interrupted`, that device with exactly one
more I/O call counted. -/
theorem open_ok_is_faultfree_any_kind {k : Nat} {d d' : Dev} {a : Archive}
    (h : openArchiveI (some k) d = (.ok a, d')) :
    ∃ d0, openArchive none d = (.ok a, d0) ∧
      (d' = d0 ∨ (d.fkind = .interrupted ∧ Fired k d d0 ∧ d' = d0.shift 1)) :=
  openArchiveI_ri.ok_is_faultfree openArchive_errOnFire h

/-- **`read_ok_is_faultfree_any_kind`** - the same for the entry reads (retrying or bare consumer) and
`find_content`. -/
theorem read_ok_is_faultfree_any_kind (ext : Ext) (a : Archive) (i : Nat) (pw : Option Bytes) (k : Nat) (d d' : Dev) :
    (∀ r, byIndexReadI ext a i pw (some k) d = (.ok r, d') →
      ∃ d0, byIndexRead ext a i pw none d = (.ok r, d0) ∧
        (d' = d0 ∨ (d.fkind = .interrupted ∧ Fired k d d0 ∧ d' = d0.shift 1))) ∧
    (∀ r, byIndexReadB ext a i pw (some k) d = (.ok r, d') →
      ∃ d0, byIndexRead ext a i pw none d = (.ok r, d0) ∧
        (d' = d0 ∨ (d.fkind = .interrupted ∧ Fired k d d0 ∧ d' = d0.shift 1))) ∧
    (∀ f r, findContentI f (some k) d = (.ok r, d') →
      ∃ d0, findContent f none d = (.ok r, d0) ∧
        (d' = d0 ∨ (d.fkind = .interrupted ∧ Fired k d d0 ∧ d' = d0.shift 1))) :=
  ⟨fun _ h => (byIndexReadI_ri ext a i pw).ok_is_faultfree (byIndexRead_tight ext a i pw).errOnFire h,
   fun _ h => (byIndexReadB_ri ext a i pw).ok_is_faultfree (byIndexRead_tight ext a i pw).errOnFire h,
   fun f _ h => (findContentI_ri f).ok_is_faultfree (findContent_tight f).errOnFire h⟩

/-- **`read_scenario_any_kind`** - open an archive and read every entry by index (consumer: a bare `read` loop - the
scenario the driver answers `fault.read` from), one fault of ANY kind at ANY I/O call index: on a device that does not
fail with `Interrupted` the scenario IS `openAndReadAll` (so `read_scenario_dichotomy` applies); in general, if `new`
returned an archive and every entry read returned a value, the archive value, every entry's result and the final device
are those of the failure-free scenario - with exactly one more call counted when a retry loop absorbed an `Interrupted`. -/
theorem read_scenario_any_kind (ext : Ext) (pw : Option Bytes) (k : Nat) (d : Dev) :
    (d.fkind ≠ .interrupted → openAndReadAllB ext pw (some k) d = openAndReadAll ext pw (some k) d) ∧
    ((openAndReadAllB ext pw (some k) d).1.isOk = true →
      (∀ o ∈ (openAndReadAllB ext pw (some k) d).2.1, o.isOk = true) →
      (openAndReadAllB ext pw (some k) d).1 = (openAndReadAll ext pw none d).1 ∧
      (openAndReadAllB ext pw (some k) d).2.1 = (openAndReadAll ext pw none d).2.1 ∧
      ((openAndReadAllB ext pw (some k) d).2.2 = (openAndReadAll ext pw none d).2.2 ∨
        (d.fkind = .interrupted ∧
          (openAndReadAllB ext pw (some k) d).2.2 = (openAndReadAll ext pw none d).2.2.shift 1))) :=
  ⟨fun hk => openAndReadAllB_hard ext pw (some k) d (Or.inl hk), openAndReadAllB_all_ok ext pw k d⟩

/-- the hypotheses instantiated (kernel): `C05.oneEntry` on a device failing with `Interrupted` at call 5 (inside a
`read_exact` of `new`) - `new` and the entry read return values, one more call than the failure-free scenario. -/
example :
    (openAndReadAllB storedExt none (some 5) (Dev.ofBytesK C05.oneEntry .interrupted)).1.isOk = true ∧
    (openAndReadAllB storedExt none (some 5) (Dev.ofBytesK C05.oneEntry .interrupted)).2.1.all (·.isOk) = true ∧
    (openAndReadAllB storedExt none (some 5) (Dev.ofBytesK C05.oneEntry .interrupted)).2.2.calls =
      (openAndReadAll storedExt none none (Dev.ofBytesK C05.oneEntry .interrupted)).2.2.calls + 1 := by
  refine ⟨by decide +kernel, by decide +kernel, by decide +kernel⟩

/-- **Under one fault of any kind every call of the seekable reader returns an error or the failure-free outcome**
(`ZipArchive::new`): the outcome component is `Err`, or it is the outcome of the failure-free run. -/
theorem open_fault_outcome_any_kind (k : Nat) (d : Dev) :
    (∃ e, (openArchiveI (some k) d).1 = .err e) ∨ (openArchiveI (some k) d).1 = (openArchive none d).1 := by
  rcases open_interrupted_trichotomy k d with ⟨_, h⟩ | ⟨_, _, h⟩ | ⟨_, _, _, h⟩
  · right; rw [h]
  · right; rw [h]
  · left; exact h

/-- **No panic, any kind**: `ZipArchive::new` never panics; `find_content` and the entry reads do not on a device
shorter than 2^63 bytes with codecs that do not panic (the hypotheses of the hard-failure theorem of C05). -/
theorem seekable_reader_no_panic_any_kind (ext : Ext) (hext : ExtNoPanic ext) (fa : Option Nat) (d : Dev) :
    (openArchiveI fa d).1.isPanic = false ∧
    (DevSane d → ∀ a i pw, (byIndexReadI ext a i pw fa d).1.isPanic = false ∧
      (byIndexReadB ext a i pw fa d).1.isPanic = false) := by
  refine ⟨?_, fun hd a i pw => ⟨?_, ?_⟩⟩
  · have := (openArchiveI_ri.noPanic openArchive_noPanic).elim fa d
    simpa using this
  · have := (byIndexReadI_ri ext a i pw).noPanicOn (byIndexRead_noPanicOn ext hext a i pw) fa d hd
    simpa using this
  · have := (byIndexReadB_ri ext a i pw).noPanicOn (byIndexRead_noPanicOn ext hext a i pw) fa d hd
    simpa using this

/-- **The first I/O call of `ZipArchive::new` is a bare `seek(End(0))`: its failure is reported, `Interrupted`
included** (nothing retries a `seek`). -/
theorem open_first_seek_reported (d : Dev) :
    openArchiveI (some d.calls) d = (.err (.io d.fkind), d.shift 1) :=
  openArchiveI_first_seek d

/-- … and the first I/O call of `find_content` (hence of every `by_index`): `seek(Start(header_start))`. -/
theorem find_content_first_seek_reported (f : FileData) (d : Dev) :
    findContentI f (some d.calls) d = (.err (.io d.fkind), d.shift 1) :=
  findContentI_first_seek f d

/-- hypotheses instantiated: on the witness archive call 5 (inside a `read_exact`) is absorbed - the second case of the
trichotomy -, call 0 (the bare seek) is the third. -/
example : Fired 5 (Dev.ofBytesK zip64Zero .interrupted) (openArchive none (Dev.ofBytesK zip64Zero .interrupted)).2 ∧
    (openArchiveI (some 5) (Dev.ofBytesK zip64Zero .interrupted)).2.calls =
      (openArchive none (Dev.ofBytesK zip64Zero .interrupted)).2.calls + 1 ∧
    C05.isErr (openArchiveI (some 0) (Dev.ofBytesK zip64Zero .interrupted)).1 = true := by
  refine ⟨by decide +kernel, by decide +kernel, by decide +kernel⟩

/-! ### `Interrupted` on the writer: the generic writer `GW` at `MI`

`Model/InterruptedW.lean`: `write_all` on the sink retries (headers, directory, end records, the buffered ZipCrypto
stream), `seek` / `flush` are bare, and the one sink `write` of `ZipWriter::write` is retried by that function's callers
(`write_all`, `io::copy`).  `stepI` is `GW.step` at `MI`; `GW.step` at `M` IS the writer model (`GW.step_M`).  NOT covered:
I/O inside the encoders (flate2 / bzip2 / zstd hand their output to the sink in loops that do not retry; the model
coalesces it into one `write_all`) - compressing scenarios under `Interrupted` stay with the oracle. -/

/-- **`ZipWriter::write` reports a failure of its sink call having changed nothing** (any error but the 4 GiB refusal,
which closes the writer): the caller's retry loop (`write_all`, `io::copy`) that sees `Interrupted` and calls it again
re-issues exactly that one sink call - why the `MI` writer treats it as a retried call. -/
theorem zipwriter_write_fault_leaves_state (acc : Bytes → Nat) (buf : Bytes) (s s' : WState) (fa : Option Nat)
    (d d' : Dev) (e : ZErr) (h : (GW.write acc buf s : M _) fa d = (.ok (.error e, s'), d')) (he : e ≠ .io .other) :
    s' = s :=
  GW.write_error_leaves_state acc buf s s' fa d d' e h he

/-- **On a device that fails with any kind but `Interrupted`, and without a fault, the writer with std's convention IS
the writer model** - every call of the alphabet, every state; `new_append`; whole call sequences. -/
theorem writer_call_hard_kinds (ext : WExt) (fa : Option Nat) (d : Dev) (hk : d.fkind ≠ .interrupted ∨ fa = none) :
    (∀ c s, stepI ext c s fa d = step ext c s fa d) ∧ newAppendI fa d = newAppend fa d ∧
    (∀ calls s, runCallsI ext calls s fa d = runCalls ext calls s fa d) := by
  refine ⟨fun c s => ?_, ?_, fun calls s => runCallsI_hard ext fa calls s d hk⟩
  · rcases hk with hk | rfl
    · exact (stepI_ri ext c s).hard fa d hk
    · exact (stepI_ri ext c s).no_fault d
  · rcases hk with hk | rfl
    · exact newAppendI_ri.hard fa d hk
    · exact newAppendI_ri.no_fault d

/-- **One writer call under one fault, `Interrupted` included - the trichotomy**: not reached (the failure-free call);
absorbed by a retry loop (`Interrupted` inside a `write_all`: outcome, writer state, sink bytes and position of the
failure-free call, one more I/O call); or the fault fired in the hard-failure model too (a bare `seek` / `flush`, or any
call when the kind is another one) and the answer is the writer model's - an error for every call but `drop`
(`fired_fault_is_error`). -/
theorem writer_call_interrupted_trichotomy (ext : WExt) (c : Call) (s : WState) (k : Nat) (d : Dev) :
    (¬ Fired k d (step ext c s none d).2 ∧ stepI ext c s (some k) d = step ext c s none d) ∨
    (Fired k d (step ext c s none d).2 ∧ d.fkind = .interrupted ∧
      stepI ext c s (some k) d = ((step ext c s none d).1, (step ext c s none d).2.shift 1)) ∨
    (Fired k d (step ext c s none d).2 ∧ Fired k d (step ext c s (some k) d).2 ∧
      stepI ext c s (some k) d = step ext c s (some k) d) :=
  (stepI_ri ext c s).interrupted k d

/-- **A writer call (not `drop`) that returns `Ok` under one fault of ANY kind returned the failure-free value, state
and sink** (bytes, position; one more call counted when a retry loop absorbed an `Interrupted`). -/
theorem writer_call_ok_is_faultfree_any_kind (ext : WExt) (c : Call) (hc : isDrop c = false) (s s' : WState)
    (k : Nat) (d d' : Dev) (v : Option Nat) (h : stepI ext c s (some k) d = (.ok (.ok v, s'), d')) :
    ∃ d0, step ext c s none d = (.ok (.ok v, s'), d0) ∧
      (d' = d0 ∨ (d.fkind = .interrupted ∧ Fired k d d0 ∧ d' = d0.shift 1)) :=
  (stepI_ri ext c s).step_ok_is_faultfree (step_stepOK ext c hc s).ep h

/-- **`new_append`**, likewise. -/
theorem append_ok_is_faultfree_any_kind {k : Nat} {d d' : Dev} {s : WState}
    (h : newAppendI (some k) d = (.ok s, d')) :
    ∃ d0, newAppend none d = (.ok s, d0) ∧
      (d' = d0 ∨ (d.fkind = .interrupted ∧ Fired k d d0 ∧ d' = d0.shift 1)) :=
  newAppendI_ri.ok_is_faultfree newAppend_errOnFire h

/-- **`all_ok_is_faultfree_any_kind`** - the headline at full strength over error kinds.  Every call sequence without
`drop`, every state, every sink, one fault of ANY kind (`Interrupted` included) at any index: if every call returned
`Ok`, the return values, the final writer state and the final sink - bytes AND position - are those of the
failure-free run; the call counter is the failure-free one, or exactly one more when the device fails with
`Interrupted` and a retry loop absorbed the fault. -/
theorem all_ok_is_faultfree_any_kind (ext : WExt) (calls : List Call) (hnd : ∀ c ∈ calls, isDrop c = false)
    (s : WState) (k : Nat) (d : Dev)
    (hok : ∀ o ∈ (runCallsI ext calls s (some k) d).1, o.isOk = true) :
    (runCallsI ext calls s (some k) d).1 = (runCalls ext calls s none d).1 ∧
    (runCallsI ext calls s (some k) d).2.1 = (runCalls ext calls s none d).2.1 ∧
    (runCallsI ext calls s (some k) d).2.2.buf = (runCalls ext calls s none d).2.2.buf ∧
    (runCallsI ext calls s (some k) d).2.2.pos = (runCalls ext calls s none d).2.2.pos ∧
    ((runCallsI ext calls s (some k) d).2.2.calls = (runCalls ext calls s none d).2.2.calls ∨
      (d.fkind = .interrupted ∧
        (runCallsI ext calls s (some k) d).2.2.calls = (runCalls ext calls s none d).2.2.calls + 1)) := by
  obtain ⟨h1, h2, h3⟩ := runCallsI_all_ok ext k calls s d hnd hok
  refine ⟨h1, h2, ?_, ?_, ?_⟩
  · rcases h3 with h3 | ⟨_, h3⟩ <;> rw [h3] <;> rfl
  · rcases h3 with h3 | ⟨_, h3⟩ <;> rw [h3] <;> rfl
  · rcases h3 with h3 | ⟨hi, h3⟩
    · exact Or.inl (by rw [h3])
    · exact Or.inr ⟨hi, by rw [h3]; rfl⟩

/-- No writer call panics under a fault of any kind (admissible calls from an `Inv` state on an in-range sink - the
hypotheses of `writer_no_panic_under_fault`): a panic of the writer with std's convention would be one of the model. -/
theorem writer_call_no_panic_any_kind (ext : WExt) (c : Call) (s : WState) (fa : Option Nat) (d : Dev)
    (hm : ∀ fa', (step ext c s fa' d).1.isPanic = false) : (stepI ext c s fa d).1.isPanic = false := by
  rcases (stepI_ri ext c s).rel fa d with e | ⟨k, _, _, _, e⟩
  · rw [e]; exact hm fa
  · rw [e]; exact hm none

/-- the script of section E under `Interrupted`, every fault index of the 49 I/O calls: calls 0, 13 (`stream_position` of
`start_file`), 15, 16, 20, 21, 40 (the seeks of `finish_file` / `finalize`) are bare and reported; every other fault is
absorbed - all three calls `Ok`, the failure-free bytes, 50 calls.  (The implementation answers the same on every
index: `corpus/fault.ops`.) -/
def runI (k : Nat) := runCallsI ext0 script WState.init (some k) (Dev.ofBytesK [] .interrupted)

theorem writer_interrupted_witness :
    (List.range 49).all (fun k =>
      if [0, 13, 15, 16, 20, 21, 40].contains k then (runI k).1.any (fun o => cls o == .err)
      else (runI k).1.map cls == [.ok, .ok, .ok] && (runI k).2.2.calls == 50 &&
        (runI k).2.2.buf == (run none).2.2.buf) = true := by
  decide +kernel

/-- **`fired_fault_is_error_hard_kinds`** - section C read over the models with std's convention, with the hypothesis
that makes it a statement about the code: on a device whose failures are NOT `Interrupted`, a fault that fires inside
`ZipArchive::new`, an entry read (either consumer) or a writer call other than `drop` is not `Ok`.  (For `Interrupted`
the clause is false by design - std absorbs it inside its loops: `open_interrupted_trichotomy`,
`writer_call_interrupted_trichotomy`, witnesses `open_interrupted_witness`, `writer_interrupted_witness`.) -/
theorem fired_fault_is_error_hard_kinds (k : Nat) (d : Dev) (hk : d.fkind ≠ .interrupted) :
    (Fired k d (openArchiveI (some k) d).2 → ∃ e, (openArchiveI (some k) d).1 = .err e) ∧
    (∀ ext a i pw, Fired k d (byIndexReadI ext a i pw (some k) d).2 →
      (byIndexReadI ext a i pw (some k) d).1 = .err (.io d.fkind)) ∧
    (∀ ext a i pw, Fired k d (byIndexReadB ext a i pw (some k) d).2 →
      (byIndexReadB ext a i pw (some k) d).1 = .err (.io d.fkind)) ∧
    (∀ ext c s, isDrop c = false → Fired k d (stepI ext c s (some k) d).2 →
      ∀ v s' d', stepI ext c s (some k) d ≠ (.ok (.ok v, s'), d')) := by
  refine ⟨?_, fun ext a i pw => ?_, fun ext a i pw => ?_, fun ext c s hc => ?_⟩
  · rw [(open_hard_kinds (some k) d hk).1]
    exact open_fired_fault_is_error k d
  · rw [(open_hard_kinds (some k) d hk).2.2.1 ext a i pw]
    exact (read_fired_fault_is_error ext a i [] pw k d).1
  · rw [(open_hard_kinds (some k) d hk).2.2.2 ext a i pw]
    exact (read_fired_fault_is_error ext a i [] pw k d).1
  · rw [(writer_call_hard_kinds ext (some k) d (Or.inl hk)).1 c s]
    exact fired_fault_is_error ext c hc s k d

/-- hypothesis instantiated: the devices of the generator's seven other kinds -/
example : (Dev.ofBytesK [] .injected).fkind ≠ .interrupted ∧ (Dev.ofBytesK [] .invalidInput).fkind ≠ .interrupted ∧
    (Dev.ofBytesK [] .unexpectedEof).fkind ≠ .interrupted := by decide

/-- **`read_exact_interrupted`**: an `Interrupted` failure of a call `read_exact` makes is invisible - the failure-free
result and device, one more call counted. -/
theorem readExact_interrupted (n k : Nat) (d : Dev) (hi : d.fkind = .interrupted)
    (hf : Fired k d (M.readExact n none d).2) :
    MI.readExact n (some k) d =
      ((M.readExact n none d).1, { (M.readExact n none d).2 with calls := (M.readExact n none d).2.calls + 1 }) :=
  M.retried_interrupted _ k d hi hf

/-- **`write_all_interrupted`**: the same for `write_all`. -/
theorem writeAll_interrupted (bs : Bytes) (k : Nat) (d : Dev) (hi : d.fkind = .interrupted)
    (hf : Fired k d (M.writeAll bs none d).2) :
    MI.writeAll bs (some k) d =
      ((M.writeAll bs none d).1, { (M.writeAll bs none d).2 with calls := (M.writeAll bs none d).2.calls + 1 }) :=
  M.retried_interrupted _ k d hi hf

/-- … and for a consumer draining a `Take` (`read_to_end`, `io::copy`). -/
theorem takeAll_interrupted (limit k : Nat) (d : Dev) (hi : d.fkind = .interrupted)
    (hf : Fired k d (takeAll limit none d).2) :
    MI.takeAll limit (some k) d =
      ((takeAll limit none d).1, { (takeAll limit none d).2 with calls := (takeAll limit none d).2.calls + 1 }) :=
  M.retried_interrupted _ k d hi hf

/-- On a device whose failures are hard ones the three loops are the model's. -/
theorem retry_loops_hard_kinds (fa : Option Nat) (d : Dev) (hk : d.fkind ≠ .interrupted) :
    (∀ n, MI.readExact n fa d = M.readExact n fa d) ∧ (∀ bs, MI.writeAll bs fa d = M.writeAll bs fa d) ∧
    (∀ limit, MI.takeAll limit fa d = takeAll limit fa d) :=
  ⟨fun _ => M.retried_hard _ fa d hk, fun _ => M.retried_hard _ fa d hk, fun _ => M.retried_hard _ fa d hk⟩

example : Fired 0 (Dev.ofBytesK [1, 2, 3, 4] .interrupted) (M.readExact 4 none (Dev.ofBytesK [1, 2, 3, 4] .interrupted)).2 := by
  decide

/-- **`open_interrupted_witness`** (kernel-checked on `zip64Zero`, 49 I/O calls failure-free): on a device failing with
`Interrupted`, `ZipArchive::new` with std's convention (`openArchiveI`) - for EVERY fault index inside the run -
either succeeds with the failure-free entry list and one more call (the fault hit a call inside `read_exact`), or
stops at the failing call with an error (the fault hit one of the bare `seek`s: calls 0, 1, 3, 4, 13, 18, 29, 30);
call 5 - the witness of `interrupted_not_modelled_in_read_exact` - succeeds, as the implementation does; and on a
device with hard failures it answers as `openArchive` does, at every index. -/
theorem open_interrupted_witness :
    (List.range 49).all (fun k =>
      match openArchiveI (some k) (Dev.ofBytesK zip64Zero .interrupted) with
      | (.ok a, d) => a.files.length == 1 && d.calls == 50 && !([0, 1, 3, 4, 13, 18, 29, 30].contains k)
      | (.err _, d) => d.calls == k + 1 && [0, 1, 3, 4, 13, 18, 29, 30].contains k
      | _ => false) = true ∧
    C05.okEntries (openArchiveI (some 5) (Dev.ofBytesK zip64Zero .interrupted)).1 = some 1 ∧
    (List.range 50).all (fun k =>
      C05.okEntries (openArchiveI (some k) (Dev.ofBytes zip64Zero)).1 == C05.okEntries (openArchive (some k) (Dev.ofBytes zip64Zero)).1 &&
      errOf (openArchiveI (some k) (Dev.ofBytes zip64Zero)).1 == errOf (openArchive (some k) (Dev.ofBytes zip64Zero)).1 &&
      (openArchiveI (some k) (Dev.ofBytes zip64Zero)).2.calls == (openArchive (some k) (Dev.ofBytes zip64Zero)).2.calls) = true := by
  refine ⟨by decide +kernel, by decide +kernel, by decide +kernel⟩

end ZipVerif.Props.C11
