import ZipVerif.Lemmas.WriterSat
import ZipVerif.Lemmas.WriterTrack
import ZipVerif.Lemmas.WriterValid
/-
C12 — Any order of writer calls is safe; misuse is reported, not absorbed.
Property theorems only.  The Hoare toolkit over the I/O monad, the invariant `Inv` and the
per-function lemmas are in `Lemmas/WriterSat.lean`; closed-writer behaviour and the bookkeeping
relation `Track` in `Lemmas/WriterTrack.lean`; `Refused`, `Ready` and the success lemmas in
`Lemmas/WriterValid.lean`.
-/

namespace ZipVerif.Props.C12
open ZipVerif ZipVerif.Model

/-! ### The call alphabet -/

/-- One public `ZipWriter` call (`set_comment` takes the raw bytes; a raw copy is given the source
entry's metadata and the bytes its raw reader delivers). -/
inductive Call
  | startFile (name : Bytes) (o : FileOptions)
  | startFileWithExtraData (name : Bytes) (o : FileOptions)
  | startFileAligned (name : Bytes) (o : FileOptions) (align : UInt16)
  | write (buf : Bytes)
  | endLocalStartCentral
  | endExtraData
  | addDirectory (name : Bytes) (o : FileOptions)
  | addSymlink (name target : Bytes) (o : FileOptions)
  | setComment (c : Bytes)
  | rawCopy (src : FileData) (raw : Bytes) (name : Bytes)
  | finish
  | drop

/-- Forget the kind of the success value (`Unit` or the returned offset). -/
def mapStep {α β} (f : α → β) (st : Step α) : Step β := fun s => do
  let (r, s') ← st s
  pure (r.map f, s')

/-- Dispatch of one call on the model (`Model/Writer.lean`); success carries the returned offset, if any. -/
def step (ext : WExt) : Call → Step (Option Nat)
  | .startFile n o => mapStep (fun _ => none) (startFile ext n o)
  | .startFileWithExtraData n o => mapStep some (startFileWithExtraData ext n o)
  | .startFileAligned n o a => mapStep some (startFileAligned ext n o a)
  | .write b => mapStep (fun _ => none) (writeData b)
  | .endLocalStartCentral => mapStep some (endLocalStartCentral ext)
  | .endExtraData => mapStep some (endExtraData ext)
  | .addDirectory n o => mapStep (fun _ => none) (addDirectory ext n o)
  | .addSymlink n t o => mapStep (fun _ => none) (addSymlink ext n t o)
  | .setComment c => fun s => pure (.ok none, { s with comment := c })
  | .rawCopy src raw n => mapStep (fun _ => none) (rawCopy ext src raw n)
  | .finish => mapStep (fun _ => none) (finish ext)
  | .drop => mapStep (fun _ => none) (dropWriter ext)

/-- Run a call sequence from state `s` on device `d` with injected-fault index `fa` (the device's
call counter runs through the whole sequence, so `fa = some k` fails the k-th I/O call of the run).
Returns the per-call outcomes, the final writer state and the final device.  A panic ends the run
(unwinding); its device is the one the panic happened on. -/
def runCalls (ext : WExt) : List Call → WState → Option Nat → Dev → List (Out (Option Nat)) × WState × Dev
  | [], s, _, d => ([], s, d)
  | c :: cs, s, fa, d =>
    match step ext c s fa d with
    | (.ok (.ok v, s'), d') =>
      let r := runCalls ext cs s' fa d'
      (.ok v :: r.1, r.2)
    | (.ok (.error e, s'), d') =>
      let r := runCalls ext cs s' fa d'
      (.err e :: r.1, r.2)
    | (.err e, d') =>            -- never produced by a call (`step_total`); kept total as in the driver
      let r := runCalls ext cs s fa d'
      (.err e :: r.1, r.2)
    | (.panic site, d') => ([.panic site], s, d')

/-- What the property's quantifier admits: timestamps are `DateTime` values of the public API
(year ≥ 1980, see C18 `datepart_no_underflow`), and the experimental encryption option is used with
`start_file` (+ `write`), `add_directory`, `add_symlink` — not with the extra-data calls
(`encryption_with_extra_data_panics` below shows that this restriction is necessary). -/
def Call.Admissible : Call → Prop
  | .startFile _ o => TimeOk o.time
  | .startFileWithExtraData _ o => TimeOk o.time ∧ o.encryptWith = none
  | .startFileAligned _ o _ => TimeOk o.time ∧ o.encryptWith = none
  | .addDirectory _ o => TimeOk o.time
  | .addSymlink _ _ o => TimeOk o.time
  | .rawCopy src _ _ => TimeOk src.time
  | _ => True

instance : DecidablePred Call.Admissible := fun c => by
  cases c <;> unfold Call.Admissible <;> unfold TimeOk <;> infer_instance

/-! ### The invariant is established by `new` and preserved by every call -/

/-- `ZipWriter::new` establishes the invariant. -/
theorem inv_init : Inv WState.init := Model.inv_init

theorem mapStep_sat {α β} (f : α → β) (st : Step α) (s : WState) (fa : Option Nat) (d : Dev)
    (Q : Except ZErr α × WState → Dev → Prop) (Q' : Except ZErr β × WState → Dev → Prop)
    (h : Sat (st s) fa d Q) (hq : ∀ r s' d', Q (r, s') d' → Q' (r.map f, s') d') :
    Sat (mapStep f st s) fa d Q' := by
  unfold mapStep
  apply Sat.bind
  apply Sat.mono h
  intro ⟨r, s'⟩ d' hr
  exact Sat.pure (hq r s' d' hr)

/-- **Every admissible call preserves the invariant** — from every `Inv` state, on every device,
for every injected fault; it returns `Ok`/`Err` (never a device-level escape), and it can only
panic on a device whose position has left the `u64` range. -/
theorem inv_step (ext : WExt) (c : Call) (hc : c.Admissible) (s : WState) (hI : Inv s)
    (fa : Option Nat) (d : Dev) : Sat (step ext c s) fa d (fun rs _ => Inv rs.2) := by
  cases c with
  | startFile n o =>
    exact mapStep_sat _ _ s fa d _ _ (startFile_sat ext n o hc s hI fa d) (fun _ _ _ h => h.1)
  | startFileWithExtraData n o =>
    exact mapStep_sat _ _ s fa d _ _ (startFileWithExtraData_sat ext n o hc.1 hc.2 s hI fa d) (fun _ _ _ h => h.1)
  | startFileAligned n o a =>
    exact mapStep_sat _ _ s fa d _ _ (startFileAligned_sat ext n o a hc.1 hc.2 s hI fa d) (fun _ _ _ h => h.1)
  | write b => exact mapStep_sat _ _ s fa d _ _ (writeData_sat b s hI fa d) (fun _ _ _ h => h.1)
  | endLocalStartCentral =>
    exact mapStep_sat _ _ s fa d _ _ (endLocalStartCentral_sat ext s hI fa d) (fun _ _ _ h => h.1)
  | endExtraData => exact mapStep_sat _ _ s fa d _ _ (endExtraData_sat ext s hI fa d) (fun _ _ _ h => h.1)
  | addDirectory n o =>
    exact mapStep_sat _ _ s fa d _ _ (addDirectory_sat ext n o hc s hI fa d) (fun _ _ _ h => h.1)
  | addSymlink n t o =>
    exact mapStep_sat _ _ s fa d _ _ (addSymlink_sat ext n t o hc s hI fa d) (fun _ _ _ h => h.1)
  | setComment c =>
    exact Sat.pure ⟨hI.extraFiles, hI.fileFiles, hI.centralExtra, hI.extraPlain, hI.innerOk, hI.times⟩
  | rawCopy src raw n =>
    exact mapStep_sat _ _ s fa d _ _ (rawCopy_sat ext src raw n hc s hI fa d) (fun _ _ _ h => h.1)
  | finish => exact mapStep_sat _ _ s fa d _ _ (finish_sat ext s hI fa d) (fun _ _ _ h => h.1)
  | drop => exact mapStep_sat _ _ s fa d _ _ (dropWriter_sat ext s hI fa d) (fun _ _ _ h => h.1)

/-- A call never escapes with a device-level error: an I/O failure inside a call is that call's
`Err` (with the writer state reached so far), as in the Rust code's `?`. -/
theorem step_total (ext : WExt) (c : Call) (hc : c.Admissible) (s : WState) (hI : Inv s)
    (fa : Option Nat) (d : Dev) (e : ZErr) (d' : Dev) : step ext c s fa d ≠ (.err e, d') := by
  intro h
  have := inv_step ext c hc s hI fa d
  unfold Sat at this
  rw [h] at this
  exact this

/-- A device whose position is a `u64` (every device a Rust `Seek` can describe). -/
def Dev.InRange (d : Dev) : Prop := d.pos < 18446744073709551616

/-- Induction over the call list: the run ends in an `Inv` state, and any panic outcome comes with a
final device outside the `u64` range. -/
theorem run_inv (ext : WExt) (calls : List Call) (hc : ∀ c ∈ calls, c.Admissible) :
    ∀ (s : WState), Inv s → ∀ (fa : Option Nat) (d : Dev),
      Inv (runCalls ext calls s fa d).2.1 ∧
      ((∃ o ∈ (runCalls ext calls s fa d).1, o.isPanic = true) → Huge (runCalls ext calls s fa d).2.2) := by
  induction calls with
  | nil => intro s hI fa d; exact ⟨hI, fun ⟨o, ho, _⟩ => by cases ho⟩
  | cons c cs ih =>
    intro s hI fa d
    have hstep := inv_step ext c (hc c (by simp)) s hI fa d
    have ih' := ih (fun c' h' => hc c' (by simp [h']))
    unfold Sat at hstep
    unfold runCalls
    split at hstep
    · next r d' heq =>
      obtain ⟨r1, s'⟩ := r
      cases r1 with
      | ok v =>
        rw [heq]
        obtain ⟨h1, h2⟩ := ih' s' hstep fa d'
        refine ⟨h1, ?_⟩
        rintro ⟨o, ho, hp⟩
        rcases List.mem_cons.mp ho with h | h
        · subst h; cases hp
        · exact h2 ⟨o, h, hp⟩
      | error e =>
        rw [heq]
        obtain ⟨h1, h2⟩ := ih' s' hstep fa d'
        refine ⟨h1, ?_⟩
        rintro ⟨o, ho, hp⟩
        rcases List.mem_cons.mp ho with h | h
        · subst h; cases hp
        · exact h2 ⟨o, h, hp⟩
    · exact hstep.elim
    · next site d' heq =>
      rw [heq]
      exact ⟨hI, fun _ => hstep⟩

/-- **No call of any call sequence panics.**  For every sequence of admissible calls — legal or not
— from a fresh writer, on every sink, for every injected I/O fault: no call's outcome is a panic
(the sink's position being a `u64`, as it is for every Rust `Seek`). -/
theorem writer_no_panic (ext : WExt) (calls : List Call) (hc : ∀ c ∈ calls, c.Admissible)
    (fa : Option Nat) (d : Dev) (hd : Dev.InRange (runCalls ext calls WState.init fa d).2.2) :
    ∀ o ∈ (runCalls ext calls WState.init fa d).1, o.isPanic = false := by
  intro o ho
  cases hp : o.isPanic
  · rfl
  · have := (run_inv ext calls hc WState.init inv_init fa d).2 ⟨o, ho, hp⟩
    unfold Huge at this
    unfold Dev.InRange at hd
    omega

/-! ### Documented misuse returns an error (`misuse_is_error`: one lemma per misuse) -/

/-- Writing data while no file is open (before any file, after `add_directory`, after
`add_symlink`, after `finish`) is `Err(io::ErrorKind::Other, "No file has been started")`, and the
writer is unchanged. -/
theorem write_without_file_is_error (buf : Bytes) (hb : buf ≠ []) (s : WState)
    (h : s.writingToFile = false) : writeData buf s = pure (.error (.io .other), s) := by
  unfold writeData
  have : buf.isEmpty = false := by cases buf <;> simp_all
  simp [this, h]

/-- … before any file is started. -/
theorem write_before_any_file_is_error (buf : Bytes) (hb : buf ≠ []) :
    writeData buf WState.init = pure (.error (.io .other), WState.init) :=
  write_without_file_is_error buf hb _ rfl

/-- … after a directory: whenever `add_directory` succeeds, every following non-empty `write` fails. -/
theorem write_after_directory_is_error (ext : WExt) (name : Bytes) (o : FileOptions) (ho : TimeOk o.time)
    (s : WState) (hI : Inv s) (fa : Option Nat) (d : Dev) :
    Sat (addDirectory ext name o s) fa d (fun rs _ => rs.1 = .ok () →
      ∀ buf, buf ≠ [] → writeData buf rs.2 = pure (.error (.io .other), rs.2)) := by
  apply Sat.mono (addDirectory_sat ext name o ho s hI fa d)
  intro rs d' ⟨_, h⟩ hok buf hb
  exact write_without_file_is_error buf hb _ (h () hok)

/-- … after a symlink. -/
theorem write_after_symlink_is_error (ext : WExt) (name target : Bytes) (o : FileOptions)
    (ho : TimeOk o.time) (s : WState) (hI : Inv s) (fa : Option Nat) (d : Dev) :
    Sat (addSymlink ext name target o s) fa d (fun rs _ => rs.1 = .ok () →
      ∀ buf, buf ≠ [] → writeData buf rs.2 = pure (.error (.io .other), rs.2)) := by
  apply Sat.mono (addSymlink_sat ext name target o ho s hI fa d)
  intro rs d' ⟨_, h⟩ hok buf hb
  exact write_without_file_is_error buf hb _ (h () hok)

/-- … after `finish`: whenever `finish` succeeds the writer is closed, a following `write` fails,
and so does every further `finish`. -/
theorem write_after_finish_is_error (ext : WExt) (s : WState) (hI : Inv s) (fa : Option Nat) (d : Dev) :
    Sat (finish ext s) fa d (fun rs _ => rs.1 = .ok () →
      (∀ buf, buf ≠ [] → writeData buf rs.2 = pure (.error (.io .other), rs.2)) ∧
      ∃ e, finish ext rs.2 = pure (.error e, rs.2)) := by
  apply Sat.mono (finish_sat ext s hI fa d)
  intro rs d' ⟨_, h⟩ hok
  exact ⟨fun buf hb => write_without_file_is_error buf hb _ (h () hok).2, finish_closed ext (h () hok).1⟩

/-- `end_extra_data` without `start_file_with_extra_data` is
`Err(io::ErrorKind::Other, "Not writing to extra field")`; the writer is unchanged. -/
theorem end_extra_data_not_begun_is_error (ext : WExt) (s : WState) (h : s.writingToExtraField = false) :
    endExtraData ext s = pure (.error (.io .other), s) := by
  unfold endExtraData; simp [h]

/-- The same for `end_local_start_central_extra_data`. -/
theorem end_local_not_begun_is_error (ext : WExt) (s : WState) (h : s.writingToExtraField = false) :
    endLocalStartCentral ext s = pure (.error (.io .other), s) := by
  unfold endLocalStartCentral
  rw [end_extra_data_not_begun_is_error ext s h]
  rfl

/-- Extra data that `validate_extra_data` refuses makes `end_extra_data` return that error; nothing
is written and the writer is unchanged (it stays in extra-data mode). -/
theorem invalid_extra_data_is_error (ext : WExt) (s : WState) (f : FileData) (e : ZErr)
    (hwe : s.writingToExtraField = true) (hcl : s.inner ≠ .closed)
    (hf : s.files.getLast? = some f) (hv : validateExtraData f = .error e) :
    endExtraData ext s = pure (.error e, s) := by
  unfold endExtraData
  have : s.inner.isClosed = false := by
    cases hi : s.inner <;> simp_all [Inner.isClosed]
  simp [hwe, this, hf, hv]

/-- What `validate_extra_data` refuses (1): a record that overruns the 16-bit length field together
with the ZIP64 record reserved for `large_file` — `InvalidData`. -/
theorem validate_rejects_too_long (f : FileData)
    (h : f.extraField.length + (if f.largeFile then 20 else 0) > 65535) :
    validateExtraData f = .error (.io .invalidData) := by
  unfold validateExtraData; rw [if_pos h]

/-- (2) malformed: fewer than 4 bytes where a record header should start. -/
theorem validate_rejects_truncated_header (f : FileData) (h1 : f.extraField ≠ [])
    (h4 : f.extraField.length < 4) : validateExtraData f = .error (.io .other) := by
  unfold validateExtraData
  have : ¬ (f.extraField.length + (if f.largeFile then 20 else 0) > 65535) := by split <;> omega
  rw [if_neg this]
  unfold validateExtraDataLoop
  have : f.extraField.isEmpty = false := by cases h : f.extraField <;> simp_all
  simp [this, h4]

/-- (3) reserved: a first record whose header ID is the ZIP64 ID, an ID ≤ 31, or one of the IDs
of APPNOTE 4.5.2 / 4.6.1 (the table `reservedExtraIds`). -/
theorem validate_rejects_reserved (f : FileData) (a b c d : UInt8) (rest : Bytes)
    (hx : f.extraField = a :: b :: c :: d :: rest)
    (hk : mk16 a b = 0x0001 ∨ mk16 a b ≤ 31 ∨ validateExtraDataLoop.reservedExtraIds.contains (mk16 a b) = true) :
    ∃ e, validateExtraData f = .error e := by
  unfold validateExtraData
  by_cases hlen : f.extraField.length + (if f.largeFile then 20 else 0) > 65535
  · rw [if_pos hlen]; exact ⟨_, rfl⟩
  · rw [if_neg hlen]
    unfold validateExtraDataLoop
    rw [hx]
    simp only [List.isEmpty_cons, Bool.false_eq_true, if_false, List.length_cons, rd16]
    have : ¬ (rest.length + 1 + 1 + 1 + 1 < 4) := by omega
    rw [if_neg this]
    by_cases h1 : (mk16 a b == 0x0001) = true
    · rw [if_pos h1]; exact ⟨_, rfl⟩
    · rw [if_neg h1]
      have : (decide (mk16 a b ≤ 31) || validateExtraDataLoop.reservedExtraIds.contains (mk16 a b)) = true := by
        rcases hk with h | h | h
        · exact absurd (by rw [h]; rfl) h1
        · simp [h]
        · rw [h]; simp
      rw [if_pos this]
      exact ⟨_, rfl⟩

/-- (4) malformed: a first record whose declared size runs past the end of the data. -/
theorem validate_rejects_overlong_record (f : FileData) (a b c d : UInt8) (rest : Bytes)
    (hx : f.extraField = a :: b :: c :: d :: rest) (hs : (mk16 c d).toNat > rest.length) :
    ∃ e, validateExtraData f = .error e := by
  unfold validateExtraData
  by_cases hlen : f.extraField.length + (if f.largeFile then 20 else 0) > 65535
  · rw [if_pos hlen]; exact ⟨_, rfl⟩
  · rw [if_neg hlen]
    unfold validateExtraDataLoop
    rw [hx]
    simp only [List.isEmpty_cons, Bool.false_eq_true, if_false, List.length_cons, rd16]
    have : ¬ (rest.length + 1 + 1 + 1 + 1 < 4) := by omega
    rw [if_neg this]
    split
    · exact ⟨_, rfl⟩
    · split
      · exact ⟨_, rfl⟩
      · exact ⟨_, rfl⟩

/-- **An unsupported method, or a level outside the range of a compressing method, makes
`start_file` return an error** — from every state, on every sink, for every injected fault. -/
theorem refused_start_is_error (ext : WExt) (name : Bytes) (o : FileOptions) (ho : TimeOk o.time)
    (hr : Refused o.method o.level) (s : WState) (hI : Inv s) (fa : Option Nat) (d : Dev) :
    Sat (startFile ext name o s) fa d (fun rs _ => ∃ e, rs.1 = .error e) := by
  unfold startFile
  apply Sat.bind
  apply Sat.mono (startEntry_sat ext name (withFilePerm o 0o644 0o100000) none ho s hI fa d)
  intro ⟨r, s1⟩ d1 ⟨hI1, hp⟩
  dsimp only at hI1 hp ⊢
  cases r with
  | error e => exact Sat.pure ⟨e, rfl⟩
  | ok u =>
    obtain ⟨_, _, _, _, hin, _⟩ := hp () rfl
    dsimp only
    have : ∃ enc, s1.inner = .storer enc := by
      rw [hin]; cases (withFilePerm o 0o644 0o100000).encryptWith <;> exact ⟨_, rfl⟩
    obtain ⟨enc, henc⟩ := this
    rw [switchTo_refuses ext (withFilePerm o 0o644 0o100000).method (withFilePerm o 0o644 0o100000).level s1 enc henc hr]
    exact Sat.pure ⟨_, rfl⟩

/-- **`rejected_start_poisons`.**  When the refusal happens after the entry's header was written
(`start_entry` succeeded), `start_file` returns `UnsupportedArchive`, the entry stays in `files` and
the writer is left closed — so that every later `finish` fails (`finish_closed`) and the
half-created entry never reaches an archive. -/
theorem rejected_start_poisons (ext : WExt) (name : Bytes) (o : FileOptions)
    (hr : Refused o.method o.level) (s s1 : WState) (fa : Option Nat) (d d1 : Dev)
    (enc : Option EncState) (hin : s1.inner = .storer enc)
    (hse : startEntry ext name (withFilePerm o 0o644 0o100000) none s fa d = (.ok (.ok (), s1), d1)) :
    startFile ext name o s fa d = (.ok (.error .unsupportedArchive, { s1 with inner := .closed }), d1) ∧
    ∃ e, finish ext { s1 with inner := .closed } = pure (.error e, { s1 with inner := .closed }) := by
  refine ⟨?_, finish_closed ext rfl⟩
  unfold startFile
  dsimp only
  rw [M.bind_apply, hse]
  dsimp only
  rw [switchTo_refuses ext (withFilePerm o 0o644 0o100000).method (withFilePerm o 0o644 0o100000).level s1 enc hin hr]
  rfl

/-- Documented quirk (an observation, not a misuse): `Stored` with a compression level is silently
accepted by `start_file`, because `switch_to` returns early when the writer already is a storer. -/
theorem stored_level_is_accepted (ext : WExt) (l : Option Int) (s : WState) (enc : Option EncState)
    (hin : s.inner = .storer enc) : switchTo ext .stored l s = pure (.ok (), s) := by
  unfold switchTo
  simp [hin, Inner.currentCompression]

/-- **`misuse_is_error`** — the state-independent misuses in one statement: from every writer state,
a non-empty `write` with no file open, `end_extra_data` / `end_local_start_central_extra_data`
never begun, and `end_extra_data` on extra data that `validate_extra_data` refuses each return an
error and leave the writer as it was; a refused method / level closes a storer with
`UnsupportedArchive`.  (The state-dependent ones — write after `add_directory` / `add_symlink` /
`finish`, refused `start_file`, poisoning — are the `Sat` lemmas above.) -/
theorem misuse_is_error (ext : WExt) (s : WState) :
    (∀ buf, buf ≠ [] → s.writingToFile = false → writeData buf s = pure (.error (.io .other), s)) ∧
    (s.writingToExtraField = false → endExtraData ext s = pure (.error (.io .other), s)) ∧
    (s.writingToExtraField = false → endLocalStartCentral ext s = pure (.error (.io .other), s)) ∧
    (∀ f e, s.writingToExtraField = true → s.inner ≠ .closed → s.files.getLast? = some f →
      validateExtraData f = .error e → endExtraData ext s = pure (.error e, s)) ∧
    (∀ c l enc, s.inner = .storer enc → Refused c l →
      switchTo ext c l s = pure (.error .unsupportedArchive, { s with inner := .closed })) ∧
    (s.inner = .closed → ∃ e, finish ext s = pure (.error e, s)) :=
  ⟨fun buf hb h => write_without_file_is_error buf hb s h,
   end_extra_data_not_begun_is_error ext s,
   end_local_not_begun_is_error ext s,
   fun f e hwe hcl hf hv => invalid_extra_data_is_error ext s f e hwe hcl hf hv,
   fun c l enc hin hr => switchTo_refuses ext c l s enc hin hr,
   fun h => finish_closed ext h⟩

/-! ### Every call that is valid in its state succeeds (fault-free sink) -/

/-- `write` succeeds whenever a file is open and the writer is not closed, as long as the entry
stays within 4 GiB or was started with `large_file(true)` (in extra-data mode: always). -/
theorem write_succeeds (buf : Bytes) (s : WState) (hI : Inv s) (hwf : s.writingToFile = true)
    (hcl : s.inner ≠ .closed)
    (hsz : s.writingToExtraField = true ∨
      ∀ f, s.files.getLast? = some f → f.largeFile = true ∨ s.statsBytes + buf.length ≤ 0xFFFFFFFF)
    (d : Dev) : Sat (writeData buf s) none d (fun rs _ => rs.1 = .ok ()) := by
  refine Sat.mono ((writeData_sat buf s hI none d).andW (?_ : WSat _ none d (fun rs _ => rs.1 = .ok ()))) (fun _ _ h => h.2)
  obtain ⟨inner, files, sS, sB, sH, wF, wE, cO, wR, cm⟩ := s
  dsimp only at hwf hcl hsz
  subst hwf
  unfold writeData
  split
  · exact WSat.pure rfl
  simp only [Bool.not_true, Bool.false_eq_true, if_false]
  have hacc : ∀ (f : FileData), files.getLast? = some f → wE = false →
      ¬ ((decide (sB + buf.length > 0xFFFFFFFF) && !f.largeFile) = true) := by
    intro f hf hwe
    rcases hsz with h | h
    · rw [hwe] at h; cases h
    · rcases h f hf with h | h
      · simp [h]
      · simp; omega
  cases inner with
  | closed => exact absurd rfl hcl
  | storer enc =>
    split
    · split
      · exact WSat.panic
      · exact WSat.pure rfl
    · next hwe =>
      have hwe' : wE = false := by simpa using hwe
      cases enc with
      | none =>
        apply WSat.io_none (MSat.writeAll _ none d); intro _ d1 _
        split
        · exact WSat.panic
        · next f hf => rw [if_neg (hacc f hf hwe')]; exact WSat.pure rfl
      | some e =>
        dsimp only
        split
        · exact WSat.panic
        · next f hf => rw [if_neg (hacc f hf hwe')]; exact WSat.pure rfl
  | compressor m l enc p =>
    dsimp only
    split
    · split
      · exact WSat.panic
      · exact WSat.pure rfl
    · next hwe =>
      have hwe' : wE = false := by simpa using hwe
      split
      · exact WSat.panic
      · next f hf => rw [if_neg (hacc f hf hwe')]; exact WSat.pure rfl

/-- `end_extra_data` succeeds in extra-data mode on an open writer whose buffered extra data is
valid and whose method / level is not refused. -/
theorem end_extra_data_succeeds (ext : WExt) (s : WState) (hI : Inv s) (f : FileData)
    (hwe : s.writingToExtraField = true) (hcl : s.inner ≠ .closed) (hf : s.files.getLast? = some f)
    (hv : validateExtraData f = .ok ()) (hr : ¬ Refused f.method f.level) (d : Dev) :
    Sat (endExtraData ext s) none d (fun rs _ => ∃ ds, rs.1 = .ok ds) := by
  refine Sat.mono ((endExtraData_sat ext s hI none d).andW (?_ : WSat _ none d (fun rs _ => ∃ ds, rs.1 = .ok ds))) (fun _ _ h => h.2)
  obtain ⟨inner, files, sS, sB, sH, wF, wE, cO, wR, cm⟩ := s
  dsimp only at hwe hcl hf
  subst hwe
  unfold endExtraData
  have hnc : inner.isClosed = false := by cases inner <;> simp_all [Inner.isClosed]
  simp only [hnc, hf, hv, Bool.not_true, Bool.false_eq_true, if_false]
  split
  · split
    · next hin =>
      apply WSat.io_none (MSat.writeAll _ none d); intro _ d1 _
      split
      · exact WSat.panic
      · next e h =>
        obtain ⟨el, hel⟩ := localExtraLen_ok (f := { f with dataStart := UInt64.ofNat (f.dataStart.toNat + f.extraField.length) }) (validate_len hv)
        rw [hel] at h; cases h
      · apply WSat.io_none (MSat.seekStart _ none d1); intro _ d2 _
        apply WSat.io_none (MSat.writeAll _ none d2); intro _ d3 _
        apply WSat.io_none (MSat.seekStart _ none d3); intro _ d4 _
        obtain ⟨i, hi⟩ := switchTo_accepts ext f.method f.level
          { inner := .storer none, files := setLast files ({ f with dataStart := UInt64.ofNat (f.dataStart.toNat + f.extraField.length) }), statsStart := f.dataStart.toNat + f.extraField.length, statsBytes := sB, statsHasher := sH, writingToFile := wF, writingToExtraField := true, centralOnly := cO, writingRaw := wR, comment := cm } none rfl hr
        rw [hi]
        exact WSat.pure ⟨_, rfl⟩
    · exact WSat.panic
  · exact WSat.pure ⟨_, rfl⟩

/-- **`start_file` succeeds** between entries (`Ready`), for a name that fits its 16-bit length
field, a timestamp of the public API and a method / level that is not refused. -/
theorem start_file_succeeds (ext : WExt) (name : Bytes) (o : FileOptions) (s : WState) (hI : Inv s)
    (d : Dev) (hr : Ready s d) (hn : name.length ≤ 65535) (ho : TimeOk o.time)
    (hm : ¬ Refused o.method o.level) :
    Sat (startFile ext name o s) none d (fun rs _ => rs.1 = .ok ()) := by
  refine Sat.mono ((startFile_sat ext name o ho s hI none d).andW (?_ : WSat _ none d (fun rs _ => rs.1 = .ok ()))) (fun _ _ h => h.2)
  unfold startFile
  apply WSat.bind
  apply WSat.mono ((startEntry_sat ext name (withFilePerm o 0o644 0o100000) none ho s hI none d).toWSat.and
    (startEntry_ok ext name (withFilePerm o 0o644 0o100000) none s hI d hr hn ho))
  intro ⟨r, s1⟩ d1 ⟨⟨hI1, hp⟩, hok⟩
  dsimp only at hI1 hp hok ⊢
  subst hok
  obtain ⟨_, _, _, _, hin, _⟩ := hp () rfl
  have : ∃ enc, s1.inner = .storer enc := by
    rw [hin]; cases (withFilePerm o 0o644 0o100000).encryptWith <;> exact ⟨_, rfl⟩
  obtain ⟨enc, henc⟩ := this
  dsimp only
  obtain ⟨i, hi⟩ := switchTo_accepts ext (withFilePerm o 0o644 0o100000).method (withFilePerm o 0o644 0o100000).level s1 enc henc hm
  rw [hi]
  exact WSat.pure rfl

/-- **`add_directory` succeeds** between entries. -/
theorem add_directory_succeeds (ext : WExt) (name : Bytes) (o : FileOptions) (s : WState) (hI : Inv s)
    (d : Dev) (hr : Ready s d) (hn : name.length + 1 ≤ 65535) (ho : TimeOk o.time) :
    Sat (addDirectory ext name o s) none d (fun rs _ => rs.1 = .ok ()) := by
  refine Sat.mono ((addDirectory_sat ext name o ho s hI none d).andW (?_ : WSat _ none d (fun rs _ => rs.1 = .ok ()))) (fun _ _ h => h.2)
  unfold addDirectory
  dsimp only
  apply WSat.bind
  apply WSat.mono (startEntry_ok ext _ _ none s hI d hr (by split <;> (try simp only [List.length_append, List.length_cons, List.length_nil]) <;> omega) (by exact ho))
  intro ⟨r, s1⟩ d1 hok
  dsimp only at hok ⊢
  subst hok
  exact WSat.pure rfl

/-- **`start_file_with_extra_data` succeeds** between entries (any method: it is only switched to by
`end_extra_data`). -/
theorem start_file_with_extra_data_succeeds (ext : WExt) (name : Bytes) (o : FileOptions) (s : WState)
    (hI : Inv s) (d : Dev) (hr : Ready s d) (hn : name.length ≤ 65535) (ho : TimeOk o.time)
    (henc : o.encryptWith = none) :
    Sat (startFileWithExtraData ext name o s) none d (fun rs _ => ∃ v, rs.1 = .ok v) := by
  refine Sat.mono ((startFileWithExtraData_sat ext name o ho henc s hI none d).andW (?_ : WSat _ none d (fun rs _ => ∃ v, rs.1 = .ok v))) (fun _ _ h => h.2)
  unfold startFileWithExtraData
  apply WSat.bind
  apply WSat.mono (startEntry_ok ext name (withFilePerm o 0o644 0o100000) none s hI d hr hn ho)
  intro ⟨r, s1⟩ d1 hok
  dsimp only at hok ⊢
  subst hok
  dsimp only
  split
  · exact WSat.panic
  · exact WSat.pure ⟨_, rfl⟩

/-- **`finish` succeeds** between entries when the comment and every entry's central extra field fit
their 16-bit length fields. -/
theorem finish_succeeds (ext : WExt) (s : WState) (hI : Inv s) (d : Dev) (hr : Ready s d)
    (hc : s.comment.length ≤ 65535) (hx : ∀ f ∈ s.files, f.extraField.length ≤ 65507) :
    Sat (finish ext s) none d (fun rs _ => rs.1 = .ok ()) := by
  refine Sat.mono ((finish_sat ext s hI none d).andW (?_ : WSat _ none d (fun rs _ => rs.1 = .ok ()))) (fun _ _ h => h.2)
  unfold finish
  apply WSat.bind
  have hfin : WSat (finalize ext s) none d (fun rs _ => rs.1 = .ok () ∧ rs.2.inner = .storer none) := by
    unfold finalize
    rw [if_neg (by omega)]
    apply WSat.bind
    apply WSat.mono (((finishFile_sat ext s hI none d).toWSat.and (finishFile_ok ext s d hr)).and (finishFile_extra ext s d hr))
    intro ⟨r, s1⟩ d1 ⟨⟨⟨hI1, hp⟩, hok⟩, hex⟩
    dsimp only at hI1 hp hok hex ⊢
    subst hok
    obtain ⟨hin, _⟩ := hp () rfl
    have hx1 : ∀ g ∈ s1.files, g.extraField.length ≤ 65507 := by
      intro g hg
      obtain ⟨f, hf, he⟩ := hex g hg
      rw [he]; exact hx f hf
    dsimp only
    split
    · apply WSat.io_none (MSat.streamPosition none d1); intro cs d2 _
      apply WSat.bind
      apply WSat.mono (writeAllCentral_ok s1 s1.files hx1 d2)
      intro ⟨r3, s3⟩ d3 h3
      cases h3
      dsimp only
      apply WSat.io_none (MSat.streamPosition none d3); intro ce d4 _
      split
      · exact WSat.panic
      · apply WSat.bind
        have hz : WSat (if (decide (s1.files.length > ZIP64_ENTRY_THR) || decide (max (ce - cs) cs > 0xFFFFFFFF)) = true then
            io s1 (M.writeChunks (eocd64Chunks {
              versionMadeBy := DEFAULT_VERSION.toUInt16, versionNeeded := DEFAULT_VERSION.toUInt16,
              diskNumber := 0, diskWithCd := 0, filesOnDisk := UInt64.ofNat s1.files.length, files := UInt64.ofNat s1.files.length,
              cdSize := UInt64.ofNat (ce - cs), cdOffset := UInt64.ofNat cs })) fun _ =>
            io s1 (M.writeChunks (locatorChunks {
              diskWithCd := 0, eocd64Offset := UInt64.ofNat (cs + (ce - cs)), disks := 1 })) fun _ =>
            pure (.ok (), s1)
          else pure (.ok (), s1)) none d4 (fun rs _ => rs = (.ok (), s1)) := by
          split
          · apply WSat.io_none (MSat.writeChunks _ none d4); intro _ d5 _
            apply WSat.io_none (MSat.writeChunks _ none d5); intro _ d6 _
            exact WSat.pure rfl
          · exact WSat.pure rfl
        apply WSat.mono hz
        intro ⟨r5, s5⟩ d5 h5
        cases h5
        dsimp only
        apply WSat.io_none (MSat.writeChunks _ none d5); intro _ d7 _
        exact WSat.pure ⟨rfl, hin⟩
    · exact WSat.panic
  apply WSat.mono hfin
  intro ⟨r, s1⟩ d1 ⟨hok, hin⟩
  dsimp only at hok hin ⊢
  subst hok
  dsimp only
  rw [hin]
  exact WSat.pure rfl

/-- `set_comment` always succeeds (the length is only checked by `finish`). -/
theorem set_comment_succeeds (ext : WExt) (c : Bytes) (s : WState) :
    step ext (.setComment c) s = pure (.ok none, { s with comment := c }) := rfl

/-- Dropping the writer never fails and never panics, whatever state it is in and whatever the sink
does: `Drop` finalizes unless the writer is closed and discards the error. -/
theorem drop_succeeds (ext : WExt) (s : WState) (hI : Inv s) (fa : Option Nat) (d : Dev) :
    Sat (dropWriter ext s) fa d (fun rs _ => rs.1 = .ok ()) := by
  unfold dropWriter
  split
  · exact Sat.pure rfl
  · apply Sat.bind
    apply Sat.mono (finalize_sat ext s hI fa d)
    intro ⟨r, s1⟩ d1 ⟨hI1, _⟩
    exact Sat.mono (dropInner_sat' ext s1 hI1 fa d1) (fun _ _ h => h.2)

/-- **`add_symlink` succeeds** between entries (the target fits 32 bits or `large_file` is set). -/
theorem add_symlink_succeeds (ext : WExt) (name target : Bytes) (o : FileOptions) (s : WState) (hI : Inv s)
    (d : Dev) (hr : Ready s d) (hn : name.length ≤ 65535) (ho : TimeOk o.time)
    (ht : o.largeFile = true ∨ target.length ≤ 0xFFFFFFFF) :
    Sat (addSymlink ext name target o s) none d (fun rs _ => rs.1 = .ok ()) := by
  refine Sat.mono ((addSymlink_sat ext name target o ho s hI none d).andW (?_ : WSat _ none d (fun rs _ => rs.1 = .ok ()))) (fun _ _ h => h.2)
  unfold addSymlink
  dsimp only
  apply WSat.bind
  apply WSat.mono (((startEntry_sat ext name _ none (by exact ho) s hI none d).toWSat.and
    (startEntry_ok ext name _ none s hI d hr hn (by exact ho))).and (startEntry_fresh ext name _ none s d))
  intro ⟨r, s1⟩ d1 ⟨⟨⟨hI1, hp⟩, hok⟩, hfr⟩
  dsimp only at hI1 hp hok hfr ⊢
  subst hok
  obtain ⟨hwe, _, _, _, hin, f, hf, _⟩ := hp () rfl
  obtain ⟨hsb, f', hf', hlf⟩ := hfr rfl
  rw [hf] at hf'; cases hf'
  dsimp only
  apply WSat.bind
  have hI1' : Inv { s1 with writingToFile := true } :=
    ⟨hI1.extraFiles, (fun _ => ne_nil_of_getLast? hf), hI1.centralExtra, hI1.extraPlain, hI1.innerOk, hI1.times⟩
  have hncl : ({ s1 with writingToFile := true } : WState).inner ≠ .closed := by
    show s1.inner ≠ .closed
    rw [hin]; split <;> (intro h; cases h)
  apply WSat.mono (write_succeeds target _ hI1' rfl hncl (Or.inr (by
    intro g hg
    have : g = f := by rw [show ({ s1 with writingToFile := true } : WState).files = s1.files from rfl, hf] at hg; exact (Option.some.inj hg).symm
    subst this
    rcases ht with h | h
    · left; rw [hlf]; exact h
    · right; show s1.statsBytes + target.length ≤ 0xFFFFFFFF; rw [hsb]; omega)) d1).toWSat
  intro ⟨r2, s2⟩ d2 hok2
  dsimp only at hok2 ⊢
  subst hok2
  exact WSat.pure rfl

/-- **`raw_copy_file` succeeds** between entries (for raw data below 4 GiB; larger sources are
declared `large_file` by the call itself when their recorded sizes say so). -/
theorem raw_copy_succeeds (ext : WExt) (src : FileData) (raw name : Bytes) (s : WState) (hI : Inv s)
    (d : Dev) (hr : Ready s d) (hn : name.length ≤ 65535) (ho : TimeOk src.time)
    (ht : raw.length ≤ 0xFFFFFFFF) :
    Sat (rawCopy ext src raw name s) none d (fun rs _ => rs.1 = .ok ()) := by
  refine Sat.mono ((rawCopy_sat ext src raw name ho s hI none d).andW (?_ : WSat _ none d (fun rs _ => rs.1 = .ok ()))) (fun _ _ h => h.2)
  unfold rawCopy
  dsimp only
  apply WSat.bind
  apply WSat.mono (((startEntry_sat ext name _ _ (by exact ho) s hI none d).toWSat.and
    (startEntry_ok ext name _ _ s hI d hr hn (by exact ho))).and (startEntry_fresh ext name _ _ s d))
  intro ⟨r, s1⟩ d1 ⟨⟨⟨hI1, hp⟩, hok⟩, hfr⟩
  dsimp only at hI1 hp hok hfr ⊢
  subst hok
  obtain ⟨hwe, _, _, _, hin, f, hf, _⟩ := hp () rfl
  obtain ⟨hsb, _⟩ := hfr rfl
  dsimp only
  have hI1' : Inv { s1 with writingToFile := true, writingRaw := true } :=
    ⟨hI1.extraFiles, (fun _ => ne_nil_of_getLast? hf), hI1.centralExtra, hI1.extraPlain, hI1.innerOk, hI1.times⟩
  have hncl : ({ s1 with writingToFile := true, writingRaw := true } : WState).inner ≠ .closed := by
    show s1.inner ≠ .closed
    rw [hin]; intro h; cases h
  exact (write_succeeds raw _ hI1' rfl hncl (Or.inr (by
    intro g _
    right; show s1.statsBytes + raw.length ≤ 0xFFFFFFFF; rw [hsb]; omega)) d1).toWSat

/- Not proved here (left): success conditions for `start_file_aligned` and
`end_local_start_central_extra_data`; and `Ready` for writers whose current entry is compressed or
encrypted (the bytes `finish_file` still has to flush depend on the external encoder). -/

/-! ### `ZipWriter.files` tracks the calls that succeeded -/

/-- The fragment of the alphabet covered by `files_track_calls_partial`: everything except the two
calls that open extra-data mode and `drop` (which consumes the writer in Rust). -/
def Call.InFragment : Call → Prop
  | .startFileWithExtraData _ _ => False
  | .startFileAligned _ _ _ => False
  | .drop => False
  | _ => True

instance : DecidablePred Call.InFragment := fun c => by
  cases c <;> unfold Call.InFragment <;> infer_instance

/-- What a call that returned `o` contributes to the expected archive contents. -/
def logStep (log : List Entry) : Call → Out (Option Nat) → List Entry
  | .startFile n _, .ok _ => log ++ [⟨n, [], none⟩]
  | .addDirectory n _, .ok _ => log ++ [⟨dirName n, [], none⟩]
  | .addSymlink n t _, .ok _ => log ++ [⟨n, t, none⟩]
  | .rawCopy src _ n, .ok _ => log ++ [⟨n, [], some src⟩]
  | .write b, .ok _ => appendData log b
  | _, _ => log

/-- The expected contents after a run: fold of `logStep` over the calls and their outcomes. -/
def logOf : List Entry → List Call → List (Out (Option Nat)) → List Entry
  | log, c :: cs, o :: os => logOf (logStep log c o) cs os
  | log, _, _ => log

def outcomeOf : Except ZErr (Option Nat) → Out (Option Nat)
  | .ok v => .ok v
  | .error e => .err e

theorem mapStep_wsat {α β} (f : α → β) (st : Step α) (s : WState) (fa : Option Nat) (d : Dev)
    (Q : Except ZErr α × WState → Dev → Prop) (Q' : Except ZErr β × WState → Dev → Prop)
    (h : WSat (st s) fa d Q) (hq : ∀ r s' d', Q (r, s') d' → Q' (r.map f, s') d') :
    WSat (mapStep f st s) fa d Q' := by
  unfold mapStep
  apply WSat.bind
  apply WSat.mono h
  intro ⟨r, s'⟩ d' hr
  exact WSat.pure (hq r s' d' hr)

theorem mapStep_pure {α β} (f : α → β) (st : Step α) (s s' : WState) (r : Except ZErr α)
    (h : st s = pure (r, s')) : mapStep f st s = pure (r.map f, s') := by
  unfold mapStep; rw [h]; rfl

/-- On a fault-free sink every call of the fragment keeps `ZipWriter.files` in step with the log of
successful calls — or leaves the writer poisoned (closed), after which `finish` can only fail. -/
theorem track_step (ext : WExt) (c : Call) (hc : c.InFragment) (log : List Entry) (s : WState)
    (hT : Track log s) (d : Dev) :
    WSat (step ext c s) none d (fun rs _ => Track (logStep log c (outcomeOf rs.1)) rs.2) := by
  rcases hT with hcl | hT
  · -- poisoned: every call leaves the writer closed
    have hpure : ∀ (r : Except ZErr (Option Nat)), step ext c s = pure (r, s) →
        WSat (step ext c s) none d (fun rs _ => Track (logStep log c (outcomeOf rs.1)) rs.2) := by
      intro r h; rw [h]; exact WSat.pure (Or.inl hcl)
    cases c with
    | startFile n o => obtain ⟨e, he⟩ := startFile_closed ext n o hcl; exact hpure _ (mapStep_pure _ _ _ _ _ he)
    | startFileWithExtraData n o => exact hc.elim
    | startFileAligned n o a => exact hc.elim
    | write b => obtain ⟨r, he⟩ := writeData_closed b hcl; exact hpure _ (mapStep_pure _ _ _ _ _ he)
    | endLocalStartCentral =>
      obtain ⟨e, he⟩ := endLocalStartCentral_closed ext hcl; exact hpure _ (mapStep_pure _ _ _ _ _ he)
    | endExtraData => obtain ⟨e, he⟩ := endExtraData_closed ext hcl; exact hpure _ (mapStep_pure _ _ _ _ _ he)
    | addDirectory n o => obtain ⟨e, he⟩ := addDirectory_closed ext n o hcl; exact hpure _ (mapStep_pure _ _ _ _ _ he)
    | addSymlink n t o => obtain ⟨e, he⟩ := addSymlink_closed ext n t o hcl; exact hpure _ (mapStep_pure _ _ _ _ _ he)
    | setComment cm => exact WSat.pure (Or.inl hcl)
    | rawCopy src raw n => obtain ⟨e, he⟩ := rawCopy_closed ext src raw n hcl; exact hpure _ (mapStep_pure _ _ _ _ _ he)
    | finish => obtain ⟨e, he⟩ := finish_closed ext hcl; exact hpure _ (mapStep_pure _ _ _ _ _ he)
    | drop => exact hc.elim
  · cases c with
    | startFile n o =>
      apply mapStep_wsat _ _ s none d _ _ (startFile_track ext n o log s hT d)
      intro r s' d' h
      cases r with
      | error e => exact h
      | ok u => exact Or.inr h
    | startFileWithExtraData n o => exact hc.elim
    | startFileAligned n o a => exact hc.elim
    | write b =>
      apply mapStep_wsat _ _ s none d _ _ (writeData_track b log s hT d)
      intro r s' d' h
      cases r with
      | error e => exact h
      | ok u => exact Or.inr h
    | endLocalStartCentral =>
      have : endLocalStartCentral ext s = pure (.error (.io .other), s) := by
        unfold endLocalStartCentral endExtraData; simp [hT.noExtra]; rfl
      rw [show step ext .endLocalStartCentral s = _ from mapStep_pure _ _ _ _ _ this]
      exact WSat.pure (Or.inr hT)
    | endExtraData =>
      have : endExtraData ext s = pure (.error (.io .other), s) := by
        unfold endExtraData; simp [hT.noExtra]
      rw [show step ext .endExtraData s = _ from mapStep_pure _ _ _ _ _ this]
      exact WSat.pure (Or.inr hT)
    | addDirectory n o =>
      apply mapStep_wsat _ _ s none d _ _ (addDirectory_track ext n o log s hT d)
      intro r s' d' h
      cases r with
      | error e => exact h
      | ok u => exact Or.inr h
    | addSymlink n t o =>
      apply mapStep_wsat _ _ s none d _ _ (addSymlink_track ext n t o log s hT d)
      intro r s' d' h
      cases r with
      | error e => exact h
      | ok u => exact Or.inr h
    | setComment cm => exact WSat.pure (Or.inr (hT.congr rfl rfl rfl rfl rfl))
    | rawCopy src raw n =>
      apply mapStep_wsat _ _ s none d _ _ (rawCopy_track ext src raw n log s hT d)
      intro r s' d' h
      cases r with
      | error e => exact h
      | ok u => exact Or.inr h
    | finish =>
      apply mapStep_wsat _ _ s none d _ _ (finish_track ext log s hT d)
      intro r s' d' h
      cases r with
      | error e => exact h
      | ok u => exact Or.inl h.2
    | drop => exact hc.elim

theorem logOf_nil_outs (log : List Entry) (cs : List Call) : logOf log cs [] = log := by
  cases cs <;> rfl

theorem tr_init : Tr [] WState.init :=
  ⟨rfl, by simp [WState.init], Or.inl ⟨rfl, rfl, rfl⟩⟩

/-- Induction over the call list (fault-free sink): the final state is tracked by `logOf`. -/
theorem run_track (ext : WExt) (calls : List Call) (hc : ∀ c ∈ calls, c.InFragment) :
    ∀ (log : List Entry) (s : WState), Track log s → ∀ (d : Dev),
      Track (logOf log calls (runCalls ext calls s none d).1) (runCalls ext calls s none d).2.1 := by
  induction calls with
  | nil => intro log s hT d; exact hT
  | cons c cs ih =>
    intro log s hT d
    have hstep := track_step ext c (hc c (by simp)) log s hT d
    have ih' := ih (fun c' h' => hc c' (by simp [h']))
    unfold runCalls
    split
    · next v s' d' heq =>
      have := hstep.elim heq
      exact ih' _ s' this d'
    · next e s' d' heq =>
      have := hstep.elim heq
      exact ih' _ s' this d'
    · next e d' heq =>
      exact ih' _ s (by cases c <;> exact hT) d'
    · next site d' heq =>
      show Track (logOf (logStep log c (.panic site)) cs []) s
      rw [logOf_nil_outs]
      cases c <;> exact hT

/-- **`files_track_calls` (partial: the fragment without `start_file_with_extra_data`,
`start_file_aligned` and `drop`; fault-free sink).**  After any call sequence of the fragment, legal
or not, from a fresh writer: if `finish()` then succeeds, the central directory that was written
(`ZipWriter.files`) is exactly the list of entries whose creation succeeded, in order, each entry
started through the writer with `crc32 = CRC-32 (bytes successfully written to it)` and
`uncompressed_size = their number`, each raw copy with its source's CRC, sizes and method.

Full statement (not proved here): the same for the whole alphabet, where bytes written in
extra-data mode go to the extra field instead of the content; and the archive-level form
(`finish_contents`: reading the sink back yields these entries) which needs the reader model
(C01/C14). -/
theorem files_track_calls_partial (ext : WExt) (calls : List Call) (hc : ∀ c ∈ calls, c.InFragment)
    (d : Dev) (v : Option Nat) (s' : WState) (d' : Dev)
    (hfin : step ext .finish (runCalls ext calls WState.init none d).2.1 none
      (runCalls ext calls WState.init none d).2.2 = (.ok (.ok v, s'), d')) :
    Forall2 Closed (logOf [] calls (runCalls ext calls WState.init none d).1) s'.files := by
  have hT := run_track ext calls hc [] WState.init (Or.inr tr_init) d
  generalize logOf [] calls (runCalls ext calls WState.init none d).1 = log at hT ⊢
  generalize (runCalls ext calls WState.init none d).2.1 = s at hT hfin
  generalize (runCalls ext calls WState.init none d).2.2 = d0 at hfin
  rcases hT with hcl | hT
  · obtain ⟨e, he⟩ := finish_closed ext hcl
    have h2 : step ext .finish s = pure (.error e, s) := mapStep_pure _ _ _ _ _ he
    rw [h2] at hfin
    cases hfin
  · have h3 := (mapStep_wsat (fun _ => (none : Option Nat)) (finish ext) s none d0 _
      (fun rs _ => ∀ v, rs.1 = .ok v → Forall2 Closed log rs.2.files)
      (finish_track ext log s hT d0) (by
        intro r s1 d1 h
        cases r with
        | error e => intro v hv; cases hv
        | ok u => intro v _; exact h.1)).elim hfin
    exact h3 v rfl

/-! ### Non-vacuity: concrete runs, evaluated by the kernel -/

/-- outcome classes, for comparing runs -/
inductive Cls | ok | err | panic
  deriving DecidableEq, Repr

def cls : Out (Option Nat) → Cls
  | .ok _ => .ok
  | .err _ => .err
  | .panic _ => .panic

/-- an arbitrary instance of the external code (identity "compressor" / "cipher") -/
def ext0 : WExt := ⟨fun _ _ b => b, fun _ b => b⟩

def opts (m : Method) (l : Option Int) : FileOptions :=
  { method := m, level := l, time := DateTime.default, permissions := none, largeFile := false,
    encryptWith := none }

def classes (calls : List Call) : List Cls :=
  (runCalls ext0 calls WState.init none (Dev.ofBytes [])).1.map cls

/-- The D11 sequence (level out of range given to `start_file_with_extra_data`): the start succeeds,
`end_extra_data` reports the refusal and closes the writer, `finish` then fails with BrokenPipe —
`[ok, err, err]`, no panic (before the `fix:` commit the third call panicked in `get_plain`). -/
def d11 : List Call :=
  [.startFileWithExtraData [0x78] (opts .deflated (some 99)), .endExtraData, .finish]

example : ∀ c ∈ d11, c.Admissible := by decide
example : classes d11 = [.ok, .err, .err] := by decide +kernel

/-- `writer_no_panic` instantiated: its hypotheses hold on this run (the final sink position is a
`u64`), also when the 3rd I/O call of the run is made to fail. -/
example : ∀ o ∈ (runCalls ext0 d11 WState.init (some 2) (Dev.ofBytes [])).1, o.isPanic = false :=
  writer_no_panic ext0 d11 (by decide) (some 2) (Dev.ofBytes []) (by unfold Dev.InRange; decide +kernel)

/-- A misuse sequence: write before any file, end extra data never begun, then a legal file, a
directory, a write after the directory, `finish`, a write and a second `finish` after it. -/
def misuse : List Call :=
  [.write [1], .endExtraData, .startFile [0x61] (opts .stored none), .write [1, 2, 3],
   .addDirectory [0x64] (opts .stored none), .write [4], .finish, .write [5], .finish]

example : ∀ c ∈ misuse, c.Admissible ∧ c.InFragment := by decide
example : classes misuse = [.err, .err, .ok, .ok, .ok, .err, .ok, .err, .err] := by decide +kernel

/-- Unsupported method, Bzip2 level 0 (D10: refused, not a panic inside the encoder), Stored with a
level (accepted). -/
example : classes [.startFile [0x61] (opts (.unsupported 1) none), .finish] = [.err, .err] := by
  decide +kernel
example : classes [.startFile [0x61] (opts .bzip2 (some 0)), .finish] = [.err, .err] := by
  decide +kernel
example : classes [.startFile [0x61] (opts .stored (some 99)), .finish] = [.ok, .ok] := by
  decide +kernel
example : Refused .deflated (some 99) ∧ Refused .bzip2 (some 0) ∧ Refused .aes none ∧
    ¬ Refused .deflated none ∧ ¬ Refused .zstd (some (-5)) ∧ ¬ Refused .stored (some 99) := by decide

/-- The restriction in `Call.Admissible` is necessary: with the experimental encryption option,
`start_file_with_extra_data` followed by `end_extra_data` reaches `get_plain`'s panic (recorded in
DESIGN.md, outside the property's quantifier), … -/
theorem encryption_with_extra_data_panics :
    classes [.startFileWithExtraData [0x78] { opts .stored none with encryptWith := some [1] },
      .endExtraData] = [.ok, .panic] := by decide +kernel

/-- … and a timestamp before 1980 — which no `DateTime` constructor produces (C18) — would panic in
`datepart`. -/
theorem year_before_1980_panics :
    classes [.startFile [0x61] { opts .stored none with time := ⟨1979, 1, 1, 0, 0, 0⟩ }] = [.panic] := by
  decide +kernel

/-- `Ready` holds for a fresh writer on any sink. -/
example (d : Dev) : Ready WState.init d := ⟨rfl, rfl, Or.inr (fun f h => by simp [WState.init] at h)⟩

/-- A concrete instance of `files_track_calls_partial`: the central directory after
`start_file("a")`, `write([1,2,3])`, `add_directory("d")`, `finish`. -/
example :
    ((runCalls ext0 [.startFile [0x61] (opts .stored none), .write [1, 2, 3],
        .addDirectory [0x64] (opts .stored none), .finish] WState.init none (Dev.ofBytes [])).2.1.files.map
      fun f => (f.fileName, f.crc32, f.uncompressedSize)) =
    [([0x61], Spec.Crc32.crc32 [1, 2, 3], 3), ([0x64, 0x2f], 0, 0)] := by decide +kernel

/-! ### `Write::flush` (outside the call alphabet)

`impl Write for ZipWriter` has a second method besides `write`: `flush`.  It is not a constructor of `Call`
(adding one would touch every induction over call lists in C01/C02/C10/C12/C13/C14); it is modelled by
`Model.flushWriter`, answered by the driver from the model state in the `write` / `callseq` / `fault`
correspondence (token `fl`), and these three facts are what the property needs of it: it never panics and
never changes the writer, a closed writer reports the misuse, an open one succeeds on a fault-free sink. -/

/-- `flush` leaves the writer state as it is — whatever it returns, from every state (no invariant
needed), on every device, under every injected fault — and it does not panic.  Hence it can be
interleaved anywhere in a call sequence without affecting `inv_step` / `writer_no_panic`. -/
theorem flush_keeps_state (s : WState) (fa : Option Nat) (d : Dev) :
    Sat (flushWriter s) fa d (fun rs _ => rs.2 = s) := by
  unfold flushWriter
  split
  · exact Sat.pure rfl
  · exact Sat.io_flush (fun _ _ => Sat.pure rfl) (fun _ _ _ => rfl)
  · exact Sat.pure rfl
  · exact Sat.pure rfl

/-- Misuse is reported: `flush` on a closed writer (after `finish`, or after a call that closed it) is
`Err(BrokenPipe)`, without touching the sink. -/
theorem flush_closed_is_error (s : WState) (h : s.inner = .closed) (fa : Option Nat) (d : Dev) :
    flushWriter s fa d = (.ok (.error (.io .brokenPipe), s), d) := by
  unfold flushWriter; rw [h]; rfl

/-- … and only then: on a fault-free sink `flush` on a writer that is not closed returns `Ok`. -/
theorem flush_open_ok (s : WState) (h : s.inner ≠ .closed) (d : Dev) :
    ∃ d', flushWriter s none d = (.ok (.ok (), s), d') := by
  unfold flushWriter
  cases hi : s.inner with
  | closed => exact absurd hi h
  | storer enc =>
    cases enc with
    | none => exact ⟨_, rfl⟩
    | some e => exact ⟨d, rfl⟩
  | compressor m l enc pending => exact ⟨d, rfl⟩

/-- after a successful `finish` the writer is closed, so `flush` is refused (with `finish_closed`) -/
example (d : Dev) : flushWriter { WState.init with inner := .closed } none d =
    (.ok (.error (.io .brokenPipe), { WState.init with inner := .closed }), d) :=
  flush_closed_is_error _ rfl none d


end ZipVerif.Props.C12
