import ZipVerif.Props.C01
import ZipVerif.Props.C02Full
/-
C12 at ARCHIVE level — the clause C12's state-machine theorems left open:

  "the output of `finish()` contains exactly the entries whose creation succeeded, with exactly the bytes
   whose `write` returned Ok; raw copies hold the source's raw bytes."

The expected contents are computed here from the CALLS AND THEIR OUTCOMES ALONE by a small fold
(`madeOf`: no ghost, no device, no sizes): a start call that returned `Ok` opens an entry (closing the
previous one), a `write` that returned `Ok` while an entry that accepts data is open appends its buffer,
everything else — misuse calls, failed calls, writes in the wrong state — changes nothing.  The theorem:
for ANY admissible Level-1 script from a fresh writer, if `finish` returns `Ok`, re-opening the sink
yields exactly one entry per element of `madeOf`, in call order, with that name, those stored bytes
(`dataOf`: the plaintext itself for `Stored`, the encoder's output otherwise; the raw bytes for a raw
copy) and that plaintext when decoded.

Level 1 = everything except extra-data mode / aligned files / ZipCrypto.  For the full alphabet
(Level 2) the writer development tracks no plaintext origins yet, so §4 states what is available there:
the archive is the layout the Level-2 ghost computes, and re-opening returns its entries, in order, with
their stored bytes (`C02Full.write_read_roundtrip_full`).
-/

namespace ZipVerif.Props.C12Archive
open ZipVerif ZipVerif.Model ZipVerif.Spec.Zip ZipVerif.WL
open ZipVerif.Props.C12 (Call step runCalls)

/-! ## 1. What the calls and their outcomes say the archive contains -/

/-- An entry as the successful calls describe it. -/
structure Made where
  /-- the name given to the start call (a directory's name with its `/`) -/
  name : Bytes
  /-- the options `start_entry` received -/
  opts : FileOptions
  /-- CRC and sizes handed over by a raw copy -/
  rawv : Option (UInt32 × UInt64 × UInt64)
  isRaw : Bool
  /-- the plaintext: the buffers of the `write` calls that returned `Ok` while the entry was open, in
  order (a symlink: its target; a raw copy: the raw bytes of the source) -/
  bytes : Bytes
  /-- whether `write` is accepted while the entry is open -/
  accepts : Bool

/-- the entry a start call opens when it succeeds -/
def opened? : Call → Option Made
  | .startFile n o => some ⟨n, fileOpts o, none, false, [], true⟩
  | .addDirectory n o => some ⟨dirName n, dirOpts o, none, false, [], false⟩
  | .addSymlink n t o => some ⟨n, linkOpts o, none, false, t, false⟩
  | .rawCopy src raw n => some ⟨n, rawOpts src, rawVals src, true, raw, true⟩
  | _ => none

/-- "the call returned `Ok`" (for `start_file` the ghost additionally records that the method has an
encoder — `start_file` returns `Err` otherwise, so on a run of the writer this is the same thing) -/
def succeeded : Call → Out (Option Nat) → Bool
  | .startFile _ o, out => okO out && writable (fileOpts o).method
  | _, out => okO out

/-- One call: finished entries and the open one. -/
def madeStep (st : List Made × Option Made) (c : Call) (out : Out (Option Nat)) : List Made × Option Made :=
  match opened? c with
  | some m =>
    if m.name.length > 65535 then st            -- refused before anything happens (always `Err`)
    else if succeeded c out then (st.1 ++ st.2.toList, some m)
    else st
  | none =>
    match c, st.2 with
    | .write b, some m =>
      if m.accepts && okO out && !m.isRaw then (st.1, some { m with bytes := m.bytes ++ b }) else st
    | _, _ => st

def madeFold : List Made × Option Made → List Call → List (Out (Option Nat)) → List Made × Option Made
  | st, c :: cs, o :: os => madeFold (madeStep st c o) cs os
  | st, _, _ => st

/-- **The expected entries**, from the calls and their outcomes alone. -/
def madeOf (calls : List Call) (outs : List (Out (Option Nat))) : List Made :=
  let st := madeFold ([], none) calls outs
  st.1 ++ st.2.toList

/-! ### The misuse facts, on the expectation -/

/-- A `write` that returned `Err` contributes nothing. -/
theorem failed_write_contributes_nothing (st : List Made × Option Made) (b : Bytes) (e : ZErr) :
    madeStep st (.write b) (.err e) = st := by
  unfold madeStep
  simp only [opened?]
  split <;> simp [okO]

/-- A `write` while no entry is open, or while a directory / symlink is open, contributes nothing. -/
theorem stray_write_contributes_nothing (l : List Made) (b : Bytes) (out : Out (Option Nat)) :
    madeStep (l, none) (.write b) out = (l, none) ∧
    ∀ m, m.accepts = false → madeStep (l, some m) (.write b) out = (l, some m) := by
  refine ⟨rfl, fun m hm => ?_⟩
  unfold madeStep
  simp [opened?, hm]

/-- A start call that returned `Err` creates no entry (and closes none). -/
theorem refused_start_creates_nothing (st : List Made × Option Made) (c : Call) (e : ZErr) :
    madeStep st c (.err e) = st := by
  unfold madeStep
  cases c <;> simp [opened?, succeeded] <;> (try split) <;> simp [okO]

/-- A raw copy's bytes are the source's raw bytes: later `write`s do not touch them. -/
theorem raw_copy_bytes_fixed (l : List Made) (m : Made) (hr : m.isRaw = true) (b : Bytes)
    (out : Out (Option Nat)) : madeStep (l, some m) (.write b) out = (l, some m) := by
  unfold madeStep
  simp [opened?, hr]

/-- The calls outside the Level-1 start / write calls never change the expectation. -/
theorem other_calls_contribute_nothing (st : List Made × Option Made) (out : Out (Option Nat)) :
    madeStep st .endExtraData out = st ∧ madeStep st .endLocalStartCentral out = st ∧
    (∀ c, madeStep st (.setComment c) out = st) := by
  refine ⟨?_, ?_, fun c => ?_⟩ <;> (unfold madeStep; simp [opened?])

/-! ## 2. The ghost agrees with the expectation -/

/-- the open entry of the ghost is the open entry of the expectation -/
def AgreeOpen (m : Made) (o : OpenRec) : Prop :=
  o.raw = m.isRaw ∧ o.wf = m.accepts ∧ o.plain = m.bytes ∧ ∃ hs ds, o.f = mkRec m.name m.opts m.rawv hs ds

/-- an origin of the ghost is an expected entry: same kind, same bytes, and the record `start_entry`
pushed for it carries the call's name and options (at some header offset) -/
def MadeRel (m : Made) : Origin → Prop
  | .written f p => m.isRaw = false ∧ p = m.bytes ∧ ∃ hs ds, f = mkRec m.name m.opts m.rawv hs ds
  | .raw f p => m.isRaw = true ∧ p = m.bytes ∧ ∃ hs ds, f = mkRec m.name m.opts m.rawv hs ds
  | .old => False

theorem AgreeOpen.rel {m : Made} {o : OpenRec} (h : AgreeOpen m o) : MadeRel m o.origin := by
  obtain ⟨h1, _, h3, h4⟩ := h
  unfold OpenRec.origin
  cases hr : o.raw
  · simp only [Bool.false_eq_true, if_false]; exact ⟨by rw [← h1, hr], h3, h4⟩
  · simp only [if_true]; exact ⟨by rw [← h1, hr], h3, h4⟩

def Agree (g : Ghost) (org : List Origin) (st : List Made × Option Made) : Prop :=
  Forall2 MadeRel st.1 org ∧
  match g, st.2 with
  | .idle _ _ _, none => True
  | .opened _ _ _ o, some m => AgreeOpen m o
  | _, _ => False

theorem Agree.alive {g : Ghost} {org : List Origin} {st : List Made × Option Made} (h : Agree g org st) :
    g.alive := by
  obtain ⟨_, h2⟩ := h
  cases g <;> first | trivial | (cases hs : st.2 <;> simp [hs] at h2)

/-- a start call -/
theorem agree_startG (ext : WExt) {g : Ghost} {org : List Origin} {st : List Made × Option Made}
    (h : Agree g org st) (m : Made) (ok : Bool) (mk : FileData → OpenRec)
    (hmk : ∀ hs ds, AgreeOpen m (mk (mkRec m.name m.opts m.rawv hs ds)))
    (ha' : (startG ext g m.name m.opts m.rawv ok mk).alive) :
    Agree (startG ext g m.name m.opts m.rawv ok mk) (orgNext g (startG ext g m.name m.opts m.rawv ok mk) org)
      (if m.name.length > 65535 then st else if ok then (st.1 ++ st.2.toList, some m) else st) := by
  revert ha'
  unfold startG
  by_cases hn : m.name.length > 65535
  · rw [if_pos hn, if_pos hn]
    intro _
    have : orgNext g g org = org := by
      unfold orgNext; cases g <;> simp
    rw [this]; exact h
  · rw [if_neg hn, if_neg hn]
    split
    · split <;> exact fun hf => hf.elim
    next es gap c f hst =>
      cases ok with
      | false => exact fun hf => hf.elim
      | true =>
        simp only [if_true]
        intro _
        obtain ⟨hs, ds, hf⟩ := Ghost.start_rec hst
        have hcl := Ghost.start_close hst
        obtain ⟨h1, h2⟩ := h
        refine ⟨?_, by rw [hf]; exact hmk hs ds⟩
        cases g with
        | dead => cases hcl
        | stuck ss n wf => cases hcl
        | lost => cases hcl
        | idle D gap0 c0 =>
          cases hs2 : st.2 with
          | some m0 => simp [hs2] at h2
          | none =>
            show Forall2 MadeRel (st.1 ++ [] ) org
            rw [List.append_nil]; exact h1
        | opened D gap0 c0 o =>
          cases hs2 : st.2 with
          | none => simp [hs2] at h2
          | some m0 =>
            rw [hs2] at h2
            obtain ⟨e, hes, _⟩ := close_opened hcl
            subst hes
            have hne : ¬ (D ++ [e]).length = D.length := by simp
            show Forall2 MadeRel (st.1 ++ [m0]) (if (D ++ [e]).length = D.length then org else org ++ [o.origin])
            rw [if_neg hne]
            exact h1.snoc (AgreeOpen.rel h2)

/-- **One call**: if the ghost survives it, ghost / origins / expectation stay in step. -/
theorem agree_step (ext : WExt) {g : Ghost} {org : List Origin} {st : List Made × Option Made}
    (h : Agree g org st) (c : Call) (out : Out (Option Nat))
    (ha' : (ghostStep ext g c out).alive) :
    Agree (ghostStep ext g c out) (originStep ext g c out org) (madeStep st c out) := by
  have ha := h.alive
  unfold originStep
  revert ha'
  unfold ghostStep
  split
  · exact fun hf => hf.elim
  rw [ghostStep_alive ext ha]
  have hsame : orgNext g g org = org := by unfold orgNext; cases g <;> simp
  have hstay : ∀ st', st' = st → Agree g (orgNext g g org) st' := by
    intro st' e; rw [e, hsame]; exact h
  unfold ghostStepAlive
  cases c with
  | startFile n o =>
    intro ha'
    exact agree_startG ext h ⟨n, fileOpts o, none, false, [], true⟩ _ _
      (fun hs ds => ⟨rfl, rfl, rfl, hs, ds, rfl⟩) ha'
  | addDirectory n o =>
    intro ha'
    exact agree_startG ext h ⟨dirName n, dirOpts o, none, false, [], false⟩ _ _
      (fun hs ds => ⟨rfl, rfl, rfl, hs, ds, rfl⟩) ha'
  | addSymlink n t o =>
    intro ha'
    exact agree_startG ext h ⟨n, linkOpts o, none, false, t, false⟩ _ _
      (fun hs ds => ⟨rfl, rfl, rfl, hs, ds, rfl⟩) ha'
  | rawCopy src raw n =>
    intro ha'
    exact agree_startG ext h ⟨n, rawOpts src, rawVals src, true, raw, true⟩ _ _
      (fun hs ds => ⟨rfl, rfl, rfl, hs, ds, rfl⟩) ha'
  | write b =>
    obtain ⟨h1, h2⟩ := h
    cases g with
    | dead => exact ha.elim
    | stuck ss n wf => exact ha.elim
    | lost => exact ha.elim
    | idle D gap c0 =>
      intro _
      cases hs2 : st.2 with
      | some m0 => simp [hs2] at h2
      | none =>
        have : madeStep st (.write b) out = st := by
          unfold madeStep; simp [opened?, hs2]
        rw [this]
        exact ⟨h1, by rw [hs2]; trivial⟩
    | opened D gap c0 o =>
      cases hs2 : st.2 with
      | none => simp [hs2] at h2
      | some m0 =>
        rw [hs2] at h2
        obtain ⟨k1, k2, k3, k4⟩ := h2
        simp only [Ghost.writeStep]
        by_cases hwf : o.wf = true
        · rw [if_pos hwf]
          cases hok : okO out with
          | false => simp only [Bool.false_eq_true, if_false]; exact fun hf => hf.elim
          | true =>
            simp only [if_true]
            intro _
            have hacc : m0.accepts = true := by rw [← k2]; exact hwf
            have hstep : madeStep st (.write b) out =
                (if !m0.isRaw then (st.1, some { m0 with bytes := m0.bytes ++ b }) else st) := by
              unfold madeStep; simp [opened?, hs2, hacc, hok]
            rw [hstep]
            have horg : orgNext (.opened D gap c0 o) (.opened D gap c0 (o.write b)) org = org := by
              simp [orgNext]
            rw [horg]
            unfold OpenRec.write
            cases hr : o.raw with
            | true =>
              have : m0.isRaw = true := by rw [← k1]; exact hr
              simp only [this, Bool.not_true, Bool.false_eq_true, if_false, if_true]
              exact ⟨h1, by rw [hs2]; exact ⟨this.symm, k2, k3, k4⟩⟩
            | false =>
              have : m0.isRaw = false := by rw [← k1]; exact hr
              simp only [this, Bool.not_false, if_true, Bool.false_eq_true, if_false]
              exact ⟨h1, ⟨rfl, k2, by show o.plain ++ b = m0.bytes ++ b; rw [k3], k4⟩⟩
        · rw [if_neg hwf]
          intro _
          have hacc : m0.accepts = false := by
            rw [← k2]; cases h : o.wf <;> simp_all
          have hstep : madeStep st (.write b) out = st := by
            unfold madeStep; simp [opened?, hs2, hacc]
          rw [hstep]
          have horg : orgNext (.opened D gap c0 o) (.opened D gap c0 o) org = org := by simp [orgNext]
          rw [horg]
          exact ⟨h1, by rw [hs2]; exact ⟨k1, k2, k3, k4⟩⟩
  | setComment c' =>
    intro _
    have hst : madeStep st (.setComment c') out = st := by unfold madeStep; simp [opened?]
    rw [hst]
    obtain ⟨h1, h2⟩ := h
    cases g with
    | dead => exact ha.elim
    | stuck ss n wf => exact ha.elim
    | lost => exact ha.elim
    | idle D gap c0 =>
      refine ⟨h1, ?_⟩
      cases hs2 : st.2 <;> simp [hs2, Ghost.setComment] at h2 ⊢
    | opened D gap c0 o =>
      refine ⟨?_, ?_⟩
      case refine_2 =>
        cases hs2 : st.2 with
        | none => simp [hs2] at h2
        | some m0 => rw [hs2] at h2; exact h2
      have : orgNext (.opened D gap c0 o) (Ghost.setComment c' (.opened D gap c0 o)) org = org := by
        simp [orgNext, Ghost.setComment]
      rw [this]; exact h1
  | endExtraData => intro _; exact hstay _ (by unfold madeStep; simp [opened?])
  | endLocalStartCentral => intro _; exact hstay _ (by unfold madeStep; simp [opened?])
  | startFileWithExtraData n o => intro _; exact hstay _ (by unfold madeStep; simp [opened?])
  | startFileAligned n o a => intro _; exact hstay _ (by unfold madeStep; simp [opened?])
  | finish => intro _; exact hstay _ (by unfold madeStep; simp [opened?])
  | drop => intro _; exact hstay _ (by unfold madeStep; simp [opened?])

theorem ghostOf_alive_step (ext : WExt) : ∀ (calls : List Call) (outs : List (Out (Option Nat))) (g : Ghost),
    (ghostOf ext g calls outs).alive → g.alive :=
  fun calls outs g h => (done_prefix_run ext calls outs g h).1

/-- **A whole run**: if the ghost is alive at the end, it agrees with the expectation. -/
theorem agree_run (ext : WExt) : ∀ (calls : List Call) (outs : List (Out (Option Nat))) (g : Ghost)
    (org : List Origin) (st : List Made × Option Made), Agree g org st →
    (ghostOf ext g calls outs).alive →
    Agree (ghostOf ext g calls outs) (originsOf ext g org calls outs) (madeFold st calls outs)
  | [], outs, g, org, st, h, _ => by cases outs <;> exact h
  | c :: cs, [], g, org, st, h, _ => h
  | c :: cs, o :: os, g, org, st, h, ha =>
    agree_run ext cs os _ _ _
      (agree_step ext h c o (ghostOf_alive_step ext cs os _ ha)) ha

/-- … hence the origins of the emitted entries ARE the expected entries, in call order. -/
theorem origins_are_made (ext : WExt) (calls : List Call) (outs : List (Out (Option Nat)))
    (ha : (ghostOf ext (.idle [] [] []) calls outs).alive) :
    Forall2 MadeRel (madeOf calls outs)
      ((ghostOf ext (.idle [] [] []) calls outs).closeOrigins
        (originsOf ext (.idle [] [] []) [] calls outs)) := by
  have h0 : Agree (.idle [] [] []) [] ([], none) := ⟨.nil, trivial⟩
  obtain ⟨h1, h2⟩ := agree_run ext calls outs _ _ _ h0 ha
  unfold madeOf
  generalize ghostOf ext (.idle [] [] []) calls outs = g at h1 h2 ⊢
  generalize originsOf ext (.idle [] [] []) [] calls outs = org at h1 ⊢
  generalize madeFold ([], none) calls outs = st at h1 h2 ⊢
  cases g with
  | dead => cases hs : st.2 <;> simp at h2
  | stuck ss n wf => cases hs : st.2 <;> simp at h2
  | lost => cases hs : st.2 <;> simp at h2
  | idle D gap c0 =>
    cases hs : st.2 with
    | some m => simp [hs] at h2
    | none => simp only [Ghost.closeOrigins, Option.toList, hs, List.append_nil]; exact h1
  | opened D gap c0 o =>
    cases hs : st.2 with
    | none => simp [hs] at h2
    | some m =>
      rw [hs] at h2
      simp only [Ghost.closeOrigins, Option.toList, hs]
      exact h1.snoc (AgreeOpen.rel h2)

/-! ## 3. The archive contains exactly the expected entries -/

theorem Forall2.get_left {α β} {R : α → β → Prop} {l1 : List α} {l2 : List β} (h : Forall2 R l1 l2) :
    ∀ (i : Nat) (a : α), l1[i]? = some a → ∃ b, l2[i]? = some b ∧ R a b := by
  induction h with
  | nil => intro i a ha; simp at ha
  | cons hab _ ih =>
    intro i a ha
    cases i with
    | zero => simp at ha; subst ha; exact ⟨_, rfl, hab⟩
    | succ i => simp at ha; simpa using ih i a ha

/-- the stored bytes of an expected entry: the raw bytes of a raw copy; for an entry written through the
writer the plaintext itself (`Stored`) or the encoder's output on the whole plaintext -/
def Made.stored (ext : WExt) (m : Made) : Bytes :=
  if m.isRaw then m.bytes
  else if m.opts.method = .stored then m.bytes
  else ext.compress m.opts.method (effLevel m.opts.method m.opts.level) m.bytes

/-- **What the emitted entry of an expected entry is**: the call's name and method; for an entry written
through the writer the CRC-32 and length of exactly the bytes whose `write` returned `Ok`; for a raw copy
the source's CRC and sizes; and the stored bytes `m.stored`. -/
theorem made_entry (ext : WExt) {m : Made} {org : Origin} {e : Spec.Zip.Entry}
    (hm : MadeRel m org) (ho : OriginRel ext org e) :
    e.name = m.name ∧ e.method = m.opts.method.toU16 ∧ e.data = m.stored ext ∧
    e.externalAttrs = (m.opts.permissions.getD 0o100644) <<< 16 ∧ e.time = m.opts.time.timepart ∧
    (m.isRaw = false → e.crc = Spec.Crc32.crc32 m.bytes ∧ e.usize = UInt64.ofNat m.bytes.length) ∧
    (m.isRaw = true → e.crc = (m.rawv.getD (0, 0, 0)).1 ∧ e.usize = (m.rawv.getD (0, 0, 0)).2.2) := by
  cases org with
  | old => exact hm.elim
  | written f p =>
    obtain ⟨h1, h2, hs, ds, hf⟩ := hm
    obtain ⟨dp, gap, _, he⟩ := ho
    subst he hf h2
    refine ⟨rfl, rfl, ?_, rfl, rfl, ?_, ?_⟩
    · show dataOf ext _ _ = _
      unfold Made.stored dataOf
      rw [h1]; rfl
    · intro _; exact ⟨rfl, rfl⟩
    · intro h; rw [h1] at h; cases h
  | raw f p =>
    obtain ⟨h1, h2, hs, ds, hf⟩ := hm
    obtain ⟨dp, gap, _, he⟩ := ho
    subst he hf h2
    refine ⟨rfl, rfl, ?_, rfl, rfl, ?_, ?_⟩
    · unfold Made.stored
      rw [h1]; rfl
    · intro h; rw [h1] at h; cases h
    · intro _; exact ⟨rfl, rfl⟩

/-- **`finish_output_exact`** (C12, archive level, Level 1).  A fresh writer and ANY admissible Level-1
call sequence — legal or not: calls in the wrong state, calls that failed, stray writes all included.
If `finish` returns `Ok` (and the archive embeds no false signature and stays below 2^63 bytes), then
re-opening the sink yields EXACTLY one entry per element of `madeOf calls outs` — the start calls that
returned `Ok` — in call order; entry `i` has the name, method, time and permissions of its call, CRC and
size of exactly the bytes whose `write` returned `Ok` while it was open (a raw copy: the source's values),
and `by_index_raw(i)` returns its stored bytes `m.stored` (a raw copy: the raw bytes, verbatim). -/
theorem finish_output_exact (ext : WExt) (calls : List Call) (hc : ∀ c ∈ calls, Level1R c)
    (ha : ∀ c ∈ calls, c.Admissible) (es : List Spec.Zip.Entry) (gap c : Bytes)
    (hg : (C01.finalGhost ext calls).close ext = some (es, gap, c))
    (v : Option Nat) (s' : WState) (d' : Dev)
    (hfin : step ext .finish (runCalls ext calls WState.init none (Dev.ofBytes [])).2.1 none
      (runCalls ext calls WState.init none (Dev.ofBytes [])).2.2 = (.ok (.ok v, s'), d'))
    (hS : C03.NoFalseSig (layoutOf es gap c []))
    (hsize : (build (layoutOf es gap c [])).length < 2 ^ 63)
    (hu : ∀ e ∈ es, e.usize.toNat < 2 ^ 63) :
    let made := madeOf calls (runCalls ext calls WState.init none (Dev.ofBytes [])).1
    d'.buf = build (layoutOf es gap c []) ∧
    ∃ a d1, openArchive.runPure (Dev.ofBytes d'.buf) = (.ok a, d1) ∧
      a.files.length = made.length ∧ es.length = made.length ∧
      ∀ (i : Nat) (m : Made), made[i]? = some m →
        ∃ e off chs ds d2, es[i]? = some e ∧ a.files[i]? = some (viewEntry e off 0 chs) ∧
          e.name = m.name ∧ e.method = m.opts.method.toU16 ∧ e.data = m.stored ext ∧
          e.externalAttrs = (m.opts.permissions.getD 0o100644) <<< 16 ∧ e.time = m.opts.time.timepart ∧
          (m.isRaw = false → e.crc = Spec.Crc32.crc32 m.bytes ∧ e.usize = UInt64.ofNat m.bytes.length) ∧
          (m.isRaw = true → e.crc = (m.rawv.getD (0, 0, 0)).1 ∧ e.usize = (m.rawv.getD (0, 0, 0)).2.2) ∧
          (byIndexRaw a i).runPure d1 = (.ok (ds, m.stored ext), d2) := by
  intro made
  obtain ⟨hbuf, hF, _, horg, d1, hopen, hd1, _, _, hfiles, hlen⟩ :=
    C01.write_read_roundtrip ext calls hc ha es gap c hg v s' d' hfin hS hsize hu
  have hmade : Forall2 MadeRel made (C01.finalOrigins ext calls) :=
    origins_are_made ext calls _ (alive_of_close hg)
  have hl1 := WL.Forall2.length_eq hmade
  have hl2 := WL.Forall2.length_eq horg
  refine ⟨hbuf, archiveOf (layoutOf es gap c []), d1, hopen, by rw [hlen]; omega, by omega, ?_⟩
  intro i m hi
  obtain ⟨org, ho1, hr1⟩ := Forall2.get_left hmade i m hi
  obtain ⟨e, he, hr2⟩ := Forall2.get_left horg i org ho1
  obtain ⟨off, chs, _, hv⟩ := C03.entry_view (layoutOf es gap c []) i e he
  obtain ⟨ds, d2, hraw, _⟩ := C01.roundtrip_entry_raw hF i e he d1 hd1
  obtain ⟨k1, k2, k3, k4, k5, k6, k7⟩ := made_entry ext hr1 hr2
  exact ⟨e, off, chs, ds, d2, he, hv, k1, k2, k3, k4, k5, k6, k7, by rw [← k3]; exact hraw⟩

/-- **… and reading entry `i` returns exactly the bytes whose `write` returned `Ok`** (an unencrypted
entry written through the writer, the codec round-tripping on its plaintext — the identity for `Stored`). -/
theorem finish_output_plaintext (wext : WExt) (rext : Ext) (calls : List Call)
    (es : List Spec.Zip.Entry) (gap c : Bytes)
    (hg : (C01.finalGhost wext calls).close wext = some (es, gap, c))
    (hF : (layoutOf es gap c []).Fits) (i : Nat) (m : Made)
    (hi : (madeOf calls (runCalls wext calls WState.init none (Dev.ofBytes [])).1)[i]? = some m)
    (hraw : m.isRaw = false) (henc : m.opts.encryptWith = none) (hw : writable m.opts.method = true)
    (hcodec : rext.decode m.opts.method (m.stored wext) = .ok m.bytes)
    (pw : Option Bytes) (d : Dev) (hd : d.buf = build (layoutOf es gap c [])) :
    ∃ ds d', (byIndexRead rext (archiveOf (layoutOf es gap c [])) i pw).runPure d =
        (.ok (.ok (ds, .ok m.bytes)), d') := by
  have hmade := origins_are_made wext calls (runCalls wext calls WState.init none (Dev.ofBytes [])).1
    (alive_of_close hg)
  have horg : Forall2 (OriginRel wext) (C01.finalOrigins wext calls) es :=
    traced_final (traced_run wext calls _ _ _ (traced_init wext [] [])) hg
  obtain ⟨org, ho1, hr1⟩ := Forall2.get_left hmade i m hi
  obtain ⟨e, he, hr2⟩ := Forall2.get_left horg i org ho1
  cases org with
  | old => exact hr1.elim
  | raw f p => rw [hr1.1] at hraw; cases hraw
  | written f p =>
    obtain ⟨_, h2, hs, ds0, hf⟩ := hr1
    subst h2
    have hstored : dataOf wext f m.bytes = m.stored wext := by
      unfold Made.stored dataOf; rw [hraw, hf]; rfl
    obtain ⟨ds, d', h, _⟩ := C01.roundtrip_entry_plain wext rext hF i e he f m.bytes hr2
      (by rw [hf]; show m.opts.encryptWith.isSome = false; rw [henc]; rfl)
      (by rw [hf]; exact hw) (by rw [hstored, hf]; exact hcodec) pw d hd
    exact ⟨ds, d', h⟩

/-! ## 4. Misuse at archive level -/

/-- A refused start that is not the name-length check poisons the writer (the previous entry was already
closed when `start_entry` failed), and so does a `write` that returned `Err` on an open entry … -/
theorem refused_calls_poison (ext : WExt) (D : List Spec.Zip.Entry) (gap c : Bytes) (o : OpenRec) (e : ZErr) :
    (o.wf = true → ∀ b, ghostStep ext (.opened D gap c o) (.write b) (.err e) = .dead) ∧
    (∀ g n opts, n.length ≤ 65535 → (g.start ext n (fileOpts opts) none).isSome →
      ghostStep ext g (.startFile n opts) (.err e) = .dead ∨ ¬ g.alive) := by
  refine ⟨fun hwf b => ?_, fun g n opts hn hst => ?_⟩
  · show Ghost.writeStep b false (.opened D gap c o) = .dead
    simp [Ghost.writeStep, hwf]
  · by_cases ha : g.alive
    · left
      show ghostStepRet ext g _ _ = .dead
      rw [ghostStep_alive ext ha]
      show startG ext g n (fileOpts opts) none (okO (.err e) && _) _ = .dead
      unfold startG
      rw [if_neg (by omega)]
      obtain ⟨x, hx⟩ := Option.isSome_iff_exists.mp hst
      rw [hx]
      simp [okO]
    · exact Or.inr ha

/-- … after which no archive comes out: `finish` returns an error, without I/O. -/
theorem poisoned_finish_fails (ext : WExt) (calls : List Call) (hc : ∀ c ∈ calls, Level1 c)
    (ha : ∀ c ∈ calls, c.Admissible) (hg : C01.finalGhost ext calls = .dead) :
    ∃ e, finish ext (runCalls ext calls WState.init none (Dev.ofBytes [])).2.1 =
      pure (.error e, (runCalls ext calls WState.init none (Dev.ofBytes [])).2.1) :=
  C01.dead_finish_fails ext calls hc ha 0 _ _ _ inv_init lay_init_empty hg

/-- A start refused for its over-long name has no effect whatever: no I/O, writer unchanged
(`C02.unrepresentable_rejected`), expectation unchanged. -/
theorem long_name_no_effect (ext : WExt) (s : WState) (n : Bytes) (o : FileOptions) (hn : n.length > 65535)
    (st : List Made × Option Made) (out : Out (Option Nat)) :
    startFile ext n o s = pure (.error .invalidArchive, s) ∧ madeStep st (.startFile n o) out = st := by
  refine ⟨(C02.unrepresentable_rejected ext s).1 n o hn, ?_⟩
  unfold madeStep
  simp only [opened?]
  rw [if_pos hn]

/-! ## 5. The full alphabet (Level 2): what is available

The Level-2 development (`Lemmas/WL2Run.lean`) computes the entries of the archive with the ghost fold
`ghostOf2` but does not (yet) trace plaintext origins, so for scripts that use extra-data mode, aligned
files or ZipCrypto the archive-level clause is available in this form: the sink is the layout the ghost
computes, re-opening it returns exactly those entries, in order, and `by_index_raw` their stored bytes.
That the entries are one per successful start call with exactly the `Ok`-written bytes is proved above
for Level-1 scripts only. -/
theorem finish_output_full (ext : WExt) (calls : List Call) (hc : ∀ c ∈ calls, Level2R c)
    (es : List Spec.Zip.Entry) (gap c : Bytes)
    (hg : (C02Full.finalGhost2 ext calls).close ext = some (es, gap, c))
    (v : Option Nat) (s' : WState) (d' : Dev)
    (hfin : step ext .finish (runCalls ext calls WState.init none (Dev.ofBytes [])).2.1 none
      (runCalls ext calls WState.init none (Dev.ofBytes [])).2.2 = (.ok (.ok v, s'), d'))
    (hS : C03.NoFalseSig (layoutOf es gap c []))
    (hsize : (build (layoutOf es gap c [])).length < 2 ^ 63)
    (hu : ∀ e ∈ es, e.usize.toNat < 2 ^ 63)
    (hcx : ∀ e ∈ es, e.centralExtra.length + 28 ≤ 0xFFFF) :
    d'.buf = build (layoutOf es gap c []) ∧
    ∃ a d1, openArchive.runPure (Dev.ofBytes d'.buf) = (.ok a, d1) ∧ a.comment = c ∧
      a.files = viewOf (layoutOf es gap c []) ∧ a.files.length = es.length ∧
      ∀ (i : Nat) e, es[i]? = some e → ∃ ds d2, (byIndexRaw a i).runPure d1 = (.ok (ds, e.data), d2) := by
  obtain ⟨h1, _, d1, h2, _, h4, h5, h6, h7⟩ :=
    C02Full.write_read_roundtrip_full ext calls hc es gap c hg v s' d' hfin hS hsize hu hcx
  exact ⟨h1, _, d1, h2, h4, h5, h6, h7⟩

/-! ## 6. Non-vacuity -/

open ZipVerif.Props.C01 (wext1 rext1 script1 script2 srcRec finishDev finalGhost)

/-- A script full of misuse: a write before any entry, a stray `end_extra_data`, a write after a raw copy
(dead bytes), a write into a symlink.  Every call is Level-1 and admissible. -/
def messy : List Call :=
  [.write [9], .startFile [0x61] (C12.opts .stored none), .write [1, 2], .endExtraData, .write [3],
   .rawCopy srcRec [0xA, 0xB, 0xC] [0x72], .write [0x99],
   .addSymlink [0x6c] [0x61] (C12.opts .stored none), .write [8]]

example : ∀ c ∈ messy, Level1R c ∧ c.Admissible := by decide +kernel

/-- the outcomes of the run (3 of the 9 calls are refused) and the expectation computed from
calls and outcomes alone: three entries, with exactly the accepted bytes -/
example :
    let outs := (runCalls wext1 messy WState.init none (Dev.ofBytes [])).1
    outs.map okO == [false, true, true, false, true, true, true, true, false] &&
    (madeOf messy outs).map (fun m => (m.name, m.bytes, m.isRaw)) ==
      [([0x61], [1, 2, 3], false), ([0x72], [0xA, 0xB, 0xC], true), ([0x6c], [0x61], false)] = true := by decide +kernel

/-- the hypotheses of `finish_output_exact` hold on `messy` … -/
example :
    (match (finalGhost wext1 messy).close wext1 with
     | some (es, gap, c) =>
       decide (Spec.Zip.NoFalseSig (layoutOf es gap c [])) &&
       decide ((build (layoutOf es gap c [])).length < 2 ^ 63) &&
       decide (∀ e ∈ es, e.usize.toNat < 2 ^ 63) && (finishDev wext1 messy).isSome
     | none => false) = true := by decide +kernel

/-- … and the model's reader really returns those three entries with those stored bytes -/
example :
    (match finishDev wext1 messy with
     | some d' =>
       (match openArchive.runPure (Dev.ofBytes d'.buf) with
        | (.ok a, d1) =>
          a.files.map (·.fileName) == [[0x61], [0x72], [0x6c]] &&
          (List.range 3).map (fun i => match ((byIndexRaw a i).runPure d1).1 with
            | .ok (_, b) => b | _ => [0xFF]) == [[1, 2, 3], [0xA, 0xB, 0xC], [0x61]]
        | _ => false)
     | none => false) = true := by decide +kernel

end ZipVerif.Props.C12Archive
