import ZipVerif.Props.C12Archive
import ZipVerif.Props.C02Full
/-
C12 at archive level for the FULL call alphabet (Level 2): extra-data mode, aligned files, ZipCrypto.

`madeOf2` extends the expectation fold of `Props/C12Archive.lean`: it is computed from the calls, the
outcomes of the start / `write` calls, and the crate's pure checks (`validate_extra_data`, the
method/level check of `switch_to`) — no ghost, no device, no offsets, no sizes.  While an entry is in
extra-data mode a `write` goes to its extra field; `end_extra_data` /
`end_local_start_central_extra_data` move it to the local header / keep it for the central header only;
a `write` that returned `Ok` in DATA mode appends to the content.

`finish_output_exact_full`: for ANY `Level2R` script from a fresh writer, if `finish` returns `Ok`,
re-opening the sink yields exactly one entry per element of `madeOf2`, in call order, with the call's
name, the extra data written in extra-field mode as its local / central extra data, and
`by_index(i)` — with the entry's password for a ZipCrypto entry — returns exactly the bytes whose
`write` returned `Ok` while entry `i` was open in data mode.

The only position-dependent item is the padding record `start_file_aligned` puts into the LOCAL extra
field: the expectation leaves the local extra data of an aligned entry unspecified (`lx = none`;
`C02Full.aligned_data_in_archive` says what it is), and `AlignOk` (alignment ≤ 65511) keeps the padding
record within what `validate_extra_data` accepts.
-/

namespace ZipVerif.Props.C12ArchiveFull
open ZipVerif ZipVerif.Model ZipVerif.Spec.Zip ZipVerif.WL
open ZipVerif.Props.C12 (Call step runCalls)
open ZipVerif.Props.C12Archive (Forall2.get_left)

/-! ## 1. The expectation -/

/-- An entry as the calls describe it (Level 2). -/
structure Made2 where
  name : Bytes
  opts : FileOptions
  rawv : Option (UInt32 × UInt64 × UInt64)
  isRaw : Bool
  /-- the bytes whose `write` returned `Ok` while the entry was open in DATA mode (a symlink: its target;
  a raw copy: the source's raw bytes) -/
  bytes : Bytes
  accepts : Bool
  /-- the ZipCrypto password, if any -/
  enc : Option Bytes
  /-- local extra data (`none`: the position-dependent padding of an aligned entry) -/
  lx : Option Bytes
  /-- extra data held for the central header -/
  cx : Bytes
  phase : Phase

/-- the record `start_entry` pushes for it, at position 0 (only position-free fields are ever used) -/
def Made2.rec0 (m : Made2) : FileData := mkRec m.name m.opts m.rawv 0 0

inductive XRes2
  | ok (m : Made2)
  | unchanged
  | dead

/-- `end_extra_data`: refused when the extra data do not validate; a refused method/level poisons -/
def Made2.endExtra (m : Made2) : XRes2 :=
  match validateExtraData { m.rec0 with extraField := m.cx } with
  | .error _ => .unchanged
  | .ok () =>
    match m.phase with
    | .localX =>
      if Refused m.opts.method m.opts.level then .dead else .ok { m with lx := some m.cx, phase := .data }
    | _ => .ok { m with phase := .data }

/-- `end_local_start_central_extra_data` -/
def Made2.endLocal (m : Made2) : XRes2 :=
  match m.endExtra with
  | .ok m' => .ok { m' with cx := [], phase := .centralX }
  | .unchanged => .unchanged
  | .dead => .dead

/-- the entry as `finish_file` closes it (implicit `end_extra_data`) -/
def Made2.closing (m : Made2) : Made2 :=
  match m.phase with
  | .data => m
  | _ => match m.endExtra with
    | .ok m' => m'
    | _ => m

/-- closing is refused: the implicit `end_extra_data` does not validate -/
def Made2.closeRefused (m : Made2) : Bool :=
  match m.phase with
  | .data => false
  | _ => match m.endExtra with
    | .unchanged => true
    | _ => false

def fresh (n : Bytes) (o : FileOptions) (rawv : Option (UInt32 × UInt64 × UInt64)) (isRaw : Bool)
    (bytes : Bytes) (accepts : Bool) (enc : Option Bytes) (lx : Option Bytes) (ph : Phase) : Made2 :=
  ⟨n, o, rawv, isRaw, bytes, accepts, enc, lx, [], ph⟩

/-- the entry a start call opens when it goes through (`none`: not a start call, or the call failed) -/
def opened2? (c : Call) (out : Out (Option Nat)) : Option (Option Made2) :=
  match c with
  | .startFile n o => some (if okO out && writable (fileOpts o).method then
      some (fresh n (fileOpts o) none false [] true o.encryptWith (some []) .data) else none)
  | .addDirectory n o => some (if okO out then
      some (fresh (dirName n) (dirOpts o) none false [] false o.encryptWith (some []) .data) else none)
  | .addSymlink n t o => some (if okO out then
      some (fresh n (linkOpts o) none false t false o.encryptWith (some []) .data) else none)
  | .rawCopy src raw n => some (if okO out then
      some (fresh n (rawOpts src) (rawVals src) true raw true none (some []) .data) else none)
  | .startFileWithExtraData n o => some (some (fresh n (fileOpts o) none false [] true none (some []) .localX))
  | .startFileAligned n o _ => some (if Refused (fileOpts o).method (fileOpts o).level then none else
      some (fresh n (fileOpts o) none false [] true none none .data))
  | _ => none

def startName : Call → Bytes
  | .startFile n _ => n
  | .addDirectory n _ => dirName n
  | .addSymlink n _ _ => n
  | .rawCopy _ _ n => n
  | .startFileWithExtraData n _ => n
  | .startFileAligned n _ _ => n
  | _ => []

/-- a start call that got past `finish_file`: the previous entry is closed, the new one (if the call
succeeded) is open -/
def afterStart (st : List Made2 × Option Made2) (r : Option Made2) : List Made2 × Option Made2 :=
  match r with
  | some m => (st.1 ++ (st.2.map Made2.closing).toList, some m)
  | none => st

/-- a start call: refused for its name, or because the open entry's extra data do not validate (nothing
happens then), else `afterStart` -/
def startStep (st : List Made2 × Option Made2) (nameLen : Nat) (r : Option Made2) : List Made2 × Option Made2 :=
  if nameLen > 65535 then st
  else if (match st.2 with | some m => m.closeRefused | none => false) then st
  else afterStart st r

/-- One call. -/
def madeStep2 (st : List Made2 × Option Made2) (c : Call) (out : Out (Option Nat)) : List Made2 × Option Made2 :=
  match opened2? c out with
  | some r => startStep st (startName c).length r
  | none =>
    match c, st.2 with
    | .write b, some m =>
      (match m.phase with
       | .data => if m.accepts && okO out && !m.isRaw then (st.1, some { m with bytes := m.bytes ++ b }) else st
       | _ => (st.1, some { m with cx := m.cx ++ b }))
    | .endExtraData, some m =>
      if m.phase = .data then st else
      (match m.endExtra with | .ok m' => (st.1, some m') | _ => st)
    | .endLocalStartCentral, some m =>
      if m.phase = .data then st else
      (match m.endLocal with | .ok m' => (st.1, some m') | _ => st)
    | _, _ => st

def madeFold2 : List Made2 × Option Made2 → List Call → List (Out (Option Nat)) → List Made2 × Option Made2
  | st, c :: cs, o :: os => madeFold2 (madeStep2 st c o) cs os
  | st, _, _ => st

/-- **The expected entries** (Level 2). -/
def madeOf2 (calls : List Call) (outs : List (Out (Option Nat))) : List Made2 :=
  let st := madeFold2 ([], none) calls outs
  st.1 ++ (st.2.map Made2.closing).toList

/-! ## 2. The ghost's open entry agrees with the expectation's -/

def AgreeOpen2 (m : Made2) (o : Open2) : Prop :=
  o.raw = m.isRaw ∧ o.plain = m.bytes ∧ o.wf = m.accepts ∧ o.enc = m.enc ∧ o.cx = m.cx ∧
  o.phase = m.phase ∧ (∀ l, m.lx = some l → o.lx = l) ∧
  ∃ hs ds, o.f = mkRec m.name m.opts m.rawv hs ds

def XAgree : XRes2 → XRes → Prop
  | .ok m', .ok o' => AgreeOpen2 m' o'
  | .unchanged, .unchanged => True
  | .dead, .dead => True
  | _, _ => False

theorem agree_endExtra {m : Made2} {o : Open2} (h : AgreeOpen2 m o) : XAgree m.endExtra o.endExtra := by
  obtain ⟨h1, h2, h3, h4, h5, h6, h7, hs, ds, hf⟩ := h
  obtain ⟨f, raw, plain, junk, wf, enc, lx, cx, phase⟩ := o
  dsimp only at h1 h2 h3 h4 h5 h6 h7 hf
  subst h1 h2 h3 h4 h5 h6 hf
  unfold Made2.endExtra Open2.endExtra
  have hv : validateExtraData { mkRec m.name m.opts m.rawv hs ds with extraField := m.cx } =
      validateExtraData { m.rec0 with extraField := m.cx } := rfl
  dsimp only
  rw [hv]
  cases validateExtraData { m.rec0 with extraField := m.cx } with
  | error e => exact trivial
  | ok u =>
    dsimp only
    cases hph : m.phase with
    | localX =>
      dsimp only
      show XAgree (if Refused m.opts.method m.opts.level then _ else _)
        (if Refused m.opts.method m.opts.level then _ else _)
      split
      · exact trivial
      · exact ⟨rfl, rfl, rfl, rfl, rfl, rfl, fun l hl => by cases hl; rfl, hs, ds, rfl⟩
    | data => exact ⟨rfl, rfl, rfl, rfl, rfl, rfl, h7, hs, ds, rfl⟩
    | centralX => exact ⟨rfl, rfl, rfl, rfl, rfl, rfl, h7, hs, ds, rfl⟩

theorem agree_endLocal {m : Made2} {o : Open2} (h : AgreeOpen2 m o) : XAgree m.endLocal o.endLocal := by
  have := agree_endExtra h
  unfold Made2.endLocal Open2.endLocal
  cases hm : m.endExtra <;> cases ho : o.endExtra <;> rw [hm, ho] at this <;>
    first | exact this.elim | exact trivial | skip
  obtain ⟨h1, h2, h3, h4, _, _, h7, h8⟩ := this
  exact ⟨h1, h2, h3, h4, rfl, rfl, h7, h8⟩

theorem agree_closing {m : Made2} {o : Open2} (h : AgreeOpen2 m o) : AgreeOpen2 m.closing o.closing := by
  have hx := agree_endExtra h
  have hph := h.2.2.2.2.2.1
  unfold Made2.closing Open2.closing
  rw [hph]
  cases m.phase with
  | data => exact h
  | localX =>
    dsimp only
    cases hm : m.endExtra <;> cases ho : o.endExtra <;> rw [hm, ho] at hx <;>
      first | exact hx.elim | exact h | exact hx
  | centralX =>
    dsimp only
    cases hm : m.endExtra <;> cases ho : o.endExtra <;> rw [hm, ho] at hx <;>
      first | exact hx.elim | exact h | exact hx

/-! ### `start_file_aligned` -/

theorem validate_nil (f : FileData) : validateExtraData { f with extraField := [] } = .ok () := by
  unfold validateExtraData
  cases f.largeFile <;> rfl

theorem padRecord_eq (p : Nat) : padRecord p = le16 0x617a ++ (le16 (UInt16.ofNat p) ++ List.replicate p 0) := rfl

theorem validate_pad (f : FileData) (p : Nat) (hp : p + 24 ≤ 65535) :
    validateExtraData { f with extraField := padRecord p } = .ok () := by
  have hlen : (padRecord p).length = p + 4 := by
    rw [padRecord_eq]; simp; omega
  unfold validateExtraData
  dsimp only
  rw [hlen]
  have hle : ¬ (p + 4 + (if f.largeFile = true then 20 else 0) > 65535) := by split <;> omega
  rw [if_neg hle]
  have hfuel : p + 4 + 1 = (p + 3 + 1) + 1 := by omega
  rw [hfuel]
  unfold validateExtraDataLoop
  have hne : (padRecord p).isEmpty = false := by rw [padRecord_eq]; simp [le16]
  rw [hne]
  simp only [Bool.false_eq_true, if_false, hlen]
  rw [if_neg (by omega), padRecord_eq]
  simp only [rd16_le16]
  have ht : (UInt16.ofNat p).toNat = p := by rw [UInt16.toNat_ofNat']; omega
  rw [if_neg (by decide), if_neg (by decide), ht, List.length_replicate, if_neg (by omega)]
  have hd : (List.replicate p (0 : UInt8)).drop p = [] := by simp
  rw [hd]
  unfold validateExtraDataLoop
  rfl

theorem aligned_agree (a : UInt16) (ha : a.toNat ≤ 65511) (es : List Spec.Zip.Entry) (gap c : Bytes)
    (n : Bytes) (opts : FileOptions) (hs : Nat) (ds : UInt64) :
    let f := mkRec n opts none hs ds
    (Refused opts.method opts.level → alignedAfter a es gap c f = .dead) ∧
    (¬ Refused opts.method opts.level → ∃ o', alignedAfter a es gap c f = .opened es gap c o' ∧
      AgreeOpen2 (fresh n opts none false [] true none none .data) o') := by
  intro f
  have hm : f.method = opts.method := rfl
  have hl : f.level = opts.level := rfl
  unfold alignedAfter
  dsimp only
  split
  · next hpad =>
    have hp : (a.toNat - ((newOpen f false [] true none .localX).dataStart es gap + 4) % a.toNat) % a.toNat + 24
        ≤ 65535 := by
      have : (a.toNat - ((newOpen f false [] true none .localX).dataStart es gap + 4) % a.toNat) % a.toNat
          < a.toNat := Nat.mod_lt _ (by omega)
      omega
    generalize (a.toNat - ((newOpen f false [] true none .localX).dataStart es gap + 4) % a.toNat) % a.toNat = p
      at hp
    have hv := validate_pad f p hp
    have hv0 := validate_nil f
    constructor
    · intro hr
      have : Open2.endLocal { newOpen f false [] true none .localX with cx := padRecord p } = .dead := by
        unfold Open2.endLocal Open2.endExtra newOpen
        dsimp only
        rw [hv]
        dsimp only
        rw [if_pos (by rw [hm, hl]; exact hr)]
      rw [this]
    · intro hr
      have h1 : Open2.endLocal { newOpen f false [] true none .localX with cx := padRecord p } =
          .ok ⟨f, false, [], [], true, none, padRecord p, [], .centralX⟩ := by
        unfold Open2.endLocal Open2.endExtra newOpen
        dsimp only
        rw [hv]
        dsimp only
        rw [if_neg (by rw [hm, hl]; exact hr)]
      rw [h1]
      dsimp only
      have h2 : Open2.endExtra ⟨f, false, [], [], true, none, padRecord p, [], .centralX⟩ =
          .ok ⟨f, false, [], [], true, none, padRecord p, [], .data⟩ := by
        unfold Open2.endExtra
        dsimp only
        rw [hv0]
      rw [h2]
      refine ⟨_, rfl, ?_⟩
      exact ⟨rfl, rfl, rfl, rfl, rfl, rfl, (fun l (hl : (none : Option Bytes) = some l) => by cases hl), hs, ds, rfl⟩
  · have hv0 := validate_nil f
    constructor
    · intro hr
      have : Open2.endExtra (newOpen f false [] true none .localX) = .dead := by
        unfold Open2.endExtra newOpen
        dsimp only
        rw [hv0]
        dsimp only
        rw [if_pos (by rw [hm, hl]; exact hr)]
      rw [this]
    · intro hr
      have h1 : Open2.endExtra (newOpen f false [] true none .localX) =
          .ok ⟨f, false, [], [], true, none, [], [], .data⟩ := by
        unfold Open2.endExtra newOpen
        dsimp only
        rw [hv0]
        dsimp only
        rw [if_neg (by rw [hm, hl]; exact hr)]
      rw [h1]
      refine ⟨_, rfl, ?_⟩
      exact ⟨rfl, rfl, rfl, rfl, rfl, rfl, (fun l (hl : (none : Option Bytes) = some l) => by cases hl), hs, ds, rfl⟩

/-! ## 3. Ghost, origins and expectation stay in step -/

def MadeRel2 (m : Made2) : Origin2 → Prop
  | .written f enc lx cx p => m.isRaw = false ∧ p = m.bytes ∧ enc = m.enc ∧ cx = m.cx ∧
      (∀ l, m.lx = some l → lx = l) ∧ ∃ hs ds, f = mkRec m.name m.opts m.rawv hs ds
  | .raw f p => m.isRaw = true ∧ p = m.bytes ∧ ∃ hs ds, f = mkRec m.name m.opts m.rawv hs ds
  | .old => False

theorem AgreeOpen2.rel {m : Made2} {o : Open2} (h : AgreeOpen2 m o) : MadeRel2 m.closing o.origin := by
  obtain ⟨h1, h2, _, h4, h5, _, h7, h8⟩ := agree_closing h
  unfold Open2.origin
  cases hr : o.closing.raw
  · simp only [Bool.false_eq_true, if_false]
    exact ⟨by rw [← h1, hr], h2, h4, h5, h7, h8⟩
  · simp only [if_true]
    exact ⟨by rw [← h1, hr], h2, h8⟩

def Agree2 (g : Ghost2) (org : List Origin2) (st : List Made2 × Option Made2) : Prop :=
  Forall2 MadeRel2 st.1 org ∧
  match g, st.2 with
  | .idle _ _ _, none => True
  | .opened _ _ _ o, some m => AgreeOpen2 m o
  | _, _ => False

theorem orgNext2_self (g : Ghost2) (org : List Origin2) : orgNext2 g g org = org := by
  unfold orgNext2; cases g <;> simp

/-- the alignment of a `start_file_aligned` call keeps its padding record within `validate_extra_data` -/
def AlignOk : Call → Prop
  | .startFileAligned _ _ a => a.toNat ≤ 65511
  | _ => True

instance : DecidablePred AlignOk := fun c => by cases c <;> unfold AlignOk <;> infer_instance

/-- what the rest of a start call makes of the pushed record: opens the expected entry, or poisons -/
def AfterOk (r : Option Made2) (g' : Ghost2) (es : List Spec.Zip.Entry) (gap c : Bytes) : Prop :=
  match r with
  | some m => ∃ o', g' = .opened es gap c o' ∧ AgreeOpen2 m o'
  | none => g' = .dead

/-- a start call -/
theorem agree_startG2 (ext : WExt) {g : Ghost2} {org : List Origin2} {st : List Made2 × Option Made2}
    (h : Agree2 g org st) (n : Bytes) (opts : FileOptions) (raw : Option (UInt32 × UInt64 × UInt64))
    (after : List Spec.Zip.Entry → Bytes → Bytes → FileData → Ghost2) (r : Option Made2)
    (hafter : ∀ es gap c hs ds, AfterOk r (after es gap c (mkRec n opts raw hs ds)) es gap c)
    (ha' : (startG2 ext g n opts raw after).alive) :
    Agree2 (startG2 ext g n opts raw after) (orgNext2 g (startG2 ext g n opts raw after) org)
      (startStep st n.length r) := by
  revert ha'
  unfold startG2 startStep afterStart
  by_cases hn : n.length > 65535
  · rw [if_pos hn, if_pos hn]
    intro _; rw [orgNext2_self]; exact h
  rw [if_neg hn, if_neg hn]
  obtain ⟨h1, h2⟩ := h
  cases g with
  | dead => cases hs2 : st.2 <;> simp at h2
  | stuck ss n0 wf => cases hs2 : st.2 <;> simp at h2
  | lost => cases hs2 : st.2 <;> simp at h2
  | idle D gap0 c0 =>
    cases hs2 : st.2 with
    | some m0 => simp [hs2] at h2
    | none =>
      simp only [Bool.false_eq_true, if_false]
      have hfe : (Ghost2.idle D gap0 c0).fin ext = .ok D gap0 := rfl
      have hce : (Ghost2.idle D gap0 c0).cmt = c0 := rfl
      rw [hfe, hce]
      dsimp only
      cases hsr : startRec2 n opts raw D gap0 with
      | none => exact fun hf => hf.elim
      | some fd =>
        obtain ⟨f, dp⟩ := fd
        have hf := startRec2_rec hsr
        dsimp only
        have := hafter D gap0 c0 ((localsBytes D).length + gap0.length) 0
        rw [← hf] at this
        cases r with
        | none => have this : after D gap0 c0 f = .dead := this; rw [this]; exact fun hf => hf.elim
        | some m =>
          obtain ⟨o', ho', hag⟩ := this
          rw [ho']
          intro _
          refine ⟨?_, hag⟩
          show Forall2 MadeRel2 (st.1 ++ []) org
          rw [List.append_nil]; exact h1
  | opened D gap0 c0 o =>
    cases hs2 : st.2 with
    | none => simp [hs2] at h2
    | some m0 =>
      rw [hs2] at h2
      have hxe := agree_endExtra h2
      have hph : o.phase = m0.phase := h2.2.2.2.2.2.1
      -- the outcome of closing the open entry, on both sides
      have hfe : (Ghost2.opened D gap0 c0 o).fin ext = o.fin ext D gap0 := rfl
      have hce : (Ghost2.opened D gap0 c0 o).cmt = c0 := rfl
      rw [hfe, hce]
      cases hfin : o.fin ext D gap0 with
      | dead => exact fun hf => hf.elim
      | stuck ss n0 wf => exact fun hf => hf.elim
      | lost => exact fun hf => hf.elim
      | unchanged =>
        intro _
        have hcr : m0.closeRefused = true := by
          unfold Open2.fin at hfin
          unfold Made2.closeRefused
          rw [← hph]
          cases hp : o.phase with
          | data =>
            rw [hp] at hfin
            dsimp only at hfin
            unfold Open2.finData at hfin
            split at hfin
            · cases hfin
            · split at hfin
              · cases hfin
              · split at hfin
                · cases hfin
                · split at hfin
                  · cases hfin
                  · split at hfin
                    · split at hfin <;> cases hfin
                    · cases hfin
          | localX =>
            rw [hp] at hfin; dsimp only at hfin ⊢
            cases hm : m0.endExtra <;> cases ho : o.endExtra <;> rw [hm, ho] at hxe <;>
              first | exact hxe.elim | rfl | skip
            · rw [ho] at hfin
              dsimp only at hfin
              unfold Open2.finData at hfin
              split at hfin
              · cases hfin
              · split at hfin
                · cases hfin
                · split at hfin
                  · cases hfin
                  · split at hfin
                    · cases hfin
                    · split at hfin
                      · split at hfin <;> cases hfin
                      · cases hfin
            · rw [ho] at hfin; cases hfin
          | centralX =>
            rw [hp] at hfin; dsimp only at hfin ⊢
            cases hm : m0.endExtra <;> cases ho : o.endExtra <;> rw [hm, ho] at hxe <;>
              first | exact hxe.elim | rfl | skip
            · rw [ho] at hfin
              dsimp only at hfin
              unfold Open2.finData at hfin
              split at hfin
              · cases hfin
              · split at hfin
                · cases hfin
                · split at hfin
                  · cases hfin
                  · split at hfin
                    · cases hfin
                    · split at hfin
                      · split at hfin <;> cases hfin
                      · cases hfin
            · rw [ho] at hfin; cases hfin
        simp only [hcr, if_true]
        rw [orgNext2_self]
        exact ⟨h1, by rw [hs2]; exact h2⟩
      | ok es gap =>
        have hcr : m0.closeRefused = false := by
          unfold Open2.fin at hfin
          unfold Made2.closeRefused
          rw [← hph]
          cases hp : o.phase with
          | data => rfl
          | localX =>
            rw [hp] at hfin; dsimp only at hfin ⊢
            cases hm : m0.endExtra <;> cases ho : o.endExtra <;> rw [hm, ho] at hxe <;>
              first | exact hxe.elim | rfl | skip
            rw [ho] at hfin; cases hfin
          | centralX =>
            rw [hp] at hfin; dsimp only at hfin ⊢
            cases hm : m0.endExtra <;> cases ho : o.endExtra <;> rw [hm, ho] at hxe <;>
              first | exact hxe.elim | rfl | skip
            rw [ho] at hfin; cases hfin
        simp only [hcr, Bool.false_eq_true, if_false]
        cases hsr : startRec2 n opts raw es gap with
        | none => exact fun hf => hf.elim
        | some fd =>
          obtain ⟨f, dp⟩ := fd
          have hf := startRec2_rec hsr
          dsimp only
          have := hafter es gap c0 ((localsBytes es).length + gap.length) 0
          rw [← hf] at this
          cases r with
          | none => have this : after es gap c0 f = .dead := this; rw [this]; exact fun hf => hf.elim
          | some m =>
            obtain ⟨o', ho', hag⟩ := this
            rw [ho']
            intro _
            refine ⟨?_, hag⟩
            obtain ⟨e, hes, _⟩ := fin_opened (show (Ghost2.opened D gap0 c0 o).fin ext = .ok es gap from hfin)
            subst hes
            have hne : ¬ (D ++ [e]).length = D.length := by simp
            show Forall2 MadeRel2 (st.1 ++ [m0.closing])
              (if (D ++ [e]).length = D.length then org else org ++ [o.origin])
            rw [if_neg hne]
            exact h1.snoc (AgreeOpen2.rel h2)

theorem Agree2.alive {g : Ghost2} {org : List Origin2} {st : List Made2 × Option Made2}
    (h : Agree2 g org st) : g.alive := by
  obtain ⟨_, h2⟩ := h
  cases g <;> first | trivial | (cases hs : st.2 <;> simp at h2)

/-- **One call**: if the ghost survives it, ghost / origins / expectation stay in step. -/
theorem agree_step2 (ext : WExt) {g : Ghost2} {org : List Origin2} {st : List Made2 × Option Made2}
    (h : Agree2 g org st) (c : Call) (hc : AlignOk c) (out : Out (Option Nat))
    (ha' : (ghostStep2 ext g c out).alive) :
    Agree2 (ghostStep2 ext g c out) (originStep2 ext g c out org) (madeStep2 st c out) := by
  unfold originStep2
  revert ha'
  unfold ghostStep2
  split
  · exact fun hf => hf.elim
  have hstay : ∀ st', st' = st → Agree2 g (orgNext2 g g org) st' := by
    intro st' e; rw [e, orgNext2_self]; exact h
  -- open-entry updates that keep the closed entries
  have hupd : ∀ (D : List Spec.Zip.Entry) (gap c0 : Bytes) (o o' : Open2) (m m' : Made2),
      g = .opened D gap c0 o → st.2 = some m → AgreeOpen2 m' o' →
      Agree2 (.opened D gap c0 o') (orgNext2 g (.opened D gap c0 o') org) (st.1, some m') := by
    intro D gap c0 o o' m m' hg _ hag
    subst hg
    refine ⟨?_, hag⟩
    have : orgNext2 (.opened D gap c0 o) (.opened D gap c0 o') org = org := by simp [orgNext2]
    rw [this]; exact h.1
  cases c with
  | startFile n o =>
    intro ha'
    have := agree_startG2 ext h n (fileOpts o) none _
      (if okO out && writable (fileOpts o).method then
        some (fresh n (fileOpts o) none false [] true o.encryptWith (some []) .data) else none)
      (by
        intro es gap c hs ds
        split
        · exact ⟨_, rfl, rfl, rfl, rfl, rfl, rfl, rfl, (fun l hl => by cases hl; rfl), hs, ds, rfl⟩
        · rfl) ha'
    exact this
  | addDirectory n o =>
    intro ha'
    have := agree_startG2 ext h (dirName n) (dirOpts o) none _
      (if okO out then some (fresh (dirName n) (dirOpts o) none false [] false o.encryptWith (some []) .data)
        else none)
      (by
        intro es gap c hs ds
        split
        · exact ⟨_, rfl, rfl, rfl, rfl, rfl, rfl, rfl, (fun l hl => by cases hl; rfl), hs, ds, rfl⟩
        · rfl) ha'
    exact this
  | addSymlink n t o =>
    intro ha'
    have := agree_startG2 ext h n (linkOpts o) none _
      (if okO out then some (fresh n (linkOpts o) none false t false o.encryptWith (some []) .data) else none)
      (by
        intro es gap c hs ds
        split
        · exact ⟨_, rfl, rfl, rfl, rfl, rfl, rfl, rfl, (fun l hl => by cases hl; rfl), hs, ds, rfl⟩
        · rfl) ha'
    exact this
  | rawCopy src raw n =>
    intro ha'
    have := agree_startG2 ext h n (rawOpts src) (rawVals src) _
      (if okO out then some (fresh n (rawOpts src) (rawVals src) true raw true none (some []) .data) else none)
      (by
        intro es gap c hs ds
        split
        · exact ⟨_, rfl, rfl, rfl, rfl, rfl, rfl, rfl, (fun l hl => by cases hl; rfl), hs, ds, rfl⟩
        · rfl) ha'
    exact this
  | startFileWithExtraData n o =>
    intro ha'
    have := agree_startG2 ext h n (fileOpts o) none _
      (some (fresh n (fileOpts o) none false [] true none (some []) .localX))
      (by
        intro es gap c hs ds
        exact ⟨_, rfl, rfl, rfl, rfl, rfl, rfl, rfl, (fun l hl => by cases hl; rfl), hs, ds, rfl⟩) ha'
    exact this
  | startFileAligned n o a =>
    intro ha'
    have := agree_startG2 ext h n (fileOpts o) none (alignedAfter a)
      (if Refused (fileOpts o).method (fileOpts o).level then none else
        some (fresh n (fileOpts o) none false [] true none none .data))
      (by
        intro es gap c hs ds
        obtain ⟨k1, k2⟩ := aligned_agree a hc es gap c n (fileOpts o) hs ds
        split
        · next hr => exact k1 hr
        · next hr => exact k2 hr) ha'
    exact this
  | write b =>
    obtain ⟨h1, h2⟩ := h
    cases g with
    | dead => cases hs2 : st.2 <;> simp at h2
    | stuck ss n wf => cases hs2 : st.2 <;> simp at h2
    | lost => cases hs2 : st.2 <;> simp at h2
    | idle D gap c0 =>
      intro _
      cases hs2 : st.2 with
      | some m0 => simp [hs2] at h2
      | none =>
        have : madeStep2 st (.write b) out = st := by unfold madeStep2; simp [opened2?, hs2]
        rw [this]
        exact ⟨h1, by rw [hs2]; trivial⟩
    | opened D gap c0 o =>
      cases hs2 : st.2 with
      | none => simp [hs2] at h2
      | some m0 =>
        rw [hs2] at h2
        obtain ⟨k1, k2, k3, k4, k5, k6, k7, k8⟩ := h2
        have hw : Ghost2.write b (okO out) (.opened D gap c0 o) = (match o.phase with
          | .data => if o.wf then (if okO out then Ghost2.opened D gap c0 (o.writeData b) else .dead)
              else .opened D gap c0 o
          | _ => .opened D gap c0 { o with cx := o.cx ++ b }) := rfl
        dsimp only
        rw [hw]
        have hstep : madeStep2 st (.write b) out = (match m0.phase with
            | .data => if m0.accepts && okO out && !m0.isRaw then (st.1, some { m0 with bytes := m0.bytes ++ b })
                else st
            | _ => (st.1, some { m0 with cx := m0.cx ++ b })) := by
          unfold madeStep2; simp [opened2?, hs2]
        rw [hstep, ← k6]
        cases hp : o.phase with
        | data =>
          dsimp only
          by_cases hwf : o.wf = true
          · rw [if_pos hwf]
            have hacc : m0.accepts = true := by rw [← k3]; exact hwf
            cases hok : okO out with
            | false => simp only [Bool.false_eq_true, if_false]; exact fun hf => hf.elim
            | true =>
              simp only [if_true, hacc, Bool.true_and]
              intro _
              unfold Open2.writeData
              cases hr : o.raw with
              | true =>
                have : m0.isRaw = true := by rw [← k1]; exact hr
                simp only [this, Bool.not_true, Bool.false_eq_true, if_false, if_true]
                have e : (st.1, some m0) = st := by rw [← hs2]
                have hh := hupd D gap c0 o _ m0 m0 rfl hs2
                  (show AgreeOpen2 m0 ⟨o.f, true, o.plain, o.junk ++ b, o.wf, o.enc, o.lx, o.cx, o.phase⟩ from
                    ⟨this.symm, k2, k3, k4, k5, k6, k7, k8⟩)
                rw [e] at hh
                exact hh
              | false =>
                have : m0.isRaw = false := by rw [← k1]; exact hr
                simp only [this, Bool.not_false, if_true, Bool.false_eq_true, if_false]
                exact hupd D gap c0 o _ m0 _ rfl hs2
                  (show AgreeOpen2 { m0 with isRaw := false, bytes := m0.bytes ++ b, accepts := true, phase := .data }
                      ⟨o.f, false, o.plain ++ b, o.junk, o.wf, o.enc, o.lx, o.cx, o.phase⟩ from
                    ⟨rfl, by show o.plain ++ b = m0.bytes ++ b; rw [k2], by rw [k3, hacc], k4, k5,
                      by show o.phase = Phase.data; exact hp, k7, k8⟩)
          · rw [if_neg hwf]
            intro _
            have hacc : m0.accepts = false := by rw [← k3]; cases h : o.wf <;> simp_all
            simp only [hacc, Bool.false_and, Bool.false_eq_true, if_false]
            rw [orgNext2_self]
            exact ⟨h1, by rw [hs2]; exact ⟨k1, k2, k3, k4, k5, k6, k7, k8⟩⟩
        | localX =>
          dsimp only
          intro _
          exact hupd D gap c0 o _ m0 _ rfl hs2
            (show AgreeOpen2 { m0 with cx := m0.cx ++ b, phase := .localX }
                ⟨o.f, o.raw, o.plain, o.junk, o.wf, o.enc, o.lx, o.cx ++ b, .localX⟩ from
              ⟨k1, k2, k3, k4, by show o.cx ++ b = m0.cx ++ b; rw [k5], rfl, k7, k8⟩)
        | centralX =>
          dsimp only
          intro _
          exact hupd D gap c0 o _ m0 _ rfl hs2
            (show AgreeOpen2 { m0 with cx := m0.cx ++ b, phase := .centralX }
                ⟨o.f, o.raw, o.plain, o.junk, o.wf, o.enc, o.lx, o.cx ++ b, .centralX⟩ from
              ⟨k1, k2, k3, k4, by show o.cx ++ b = m0.cx ++ b; rw [k5], rfl, k7, k8⟩)
  | endExtraData =>
    obtain ⟨h1, h2⟩ := h
    cases g with
    | dead => cases hs2 : st.2 <;> simp at h2
    | stuck ss n wf => cases hs2 : st.2 <;> simp at h2
    | lost => cases hs2 : st.2 <;> simp at h2
    | idle D gap c0 =>
      intro _
      cases hs2 : st.2 with
      | some m0 => simp [hs2] at h2
      | none =>
        have : madeStep2 st .endExtraData out = st := by unfold madeStep2; simp [opened2?, hs2]
        rw [this]
        exact ⟨h1, by rw [hs2]; trivial⟩
    | opened D gap c0 o =>
      cases hs2 : st.2 with
      | none => simp [hs2] at h2
      | some m0 =>
        rw [hs2] at h2
        have hph : o.phase = m0.phase := h2.2.2.2.2.2.1
        have hx := agree_endExtra h2
        have hstep : madeStep2 st .endExtraData out = (if m0.phase = .data then st else
            (match m0.endExtra with | .ok m' => (st.1, some m') | _ => st)) := by
          unfold madeStep2; simp [opened2?, hs2]
        rw [hstep]
        have hw : Ghost2.endExtraCall (.opened D gap c0 o) = (if o.phase = .data then Ghost2.opened D gap c0 o else
          match o.endExtra with
          | .ok o' => .opened D gap c0 o'
          | .unchanged => .opened D gap c0 o
          | .dead => .dead) := rfl
        dsimp only
        rw [hw, hph]
        by_cases hd : m0.phase = .data
        · rw [if_pos hd, if_pos hd]
          intro _
          rw [orgNext2_self]
          exact ⟨h1, by rw [hs2]; exact h2⟩
        · rw [if_neg hd, if_neg hd]
          cases hm : m0.endExtra <;> cases ho : o.endExtra <;> rw [hm, ho] at hx <;>
            first | exact hx.elim | skip
          · intro _
            exact hupd D gap c0 o _ m0 _ rfl hs2 hx
          · intro _
            rw [orgNext2_self]
            exact ⟨h1, by rw [hs2]; exact h2⟩
          · exact fun hf => hf.elim
  | endLocalStartCentral =>
    obtain ⟨h1, h2⟩ := h
    cases g with
    | dead => cases hs2 : st.2 <;> simp at h2
    | stuck ss n wf => cases hs2 : st.2 <;> simp at h2
    | lost => cases hs2 : st.2 <;> simp at h2
    | idle D gap c0 =>
      intro _
      cases hs2 : st.2 with
      | some m0 => simp [hs2] at h2
      | none =>
        have : madeStep2 st .endLocalStartCentral out = st := by unfold madeStep2; simp [opened2?, hs2]
        rw [this]
        exact ⟨h1, by rw [hs2]; trivial⟩
    | opened D gap c0 o =>
      cases hs2 : st.2 with
      | none => simp [hs2] at h2
      | some m0 =>
        rw [hs2] at h2
        have hph : o.phase = m0.phase := h2.2.2.2.2.2.1
        have hx := agree_endLocal h2
        have hstep : madeStep2 st .endLocalStartCentral out = (if m0.phase = .data then st else
            (match m0.endLocal with | .ok m' => (st.1, some m') | _ => st)) := by
          unfold madeStep2; simp [opened2?, hs2]
        rw [hstep]
        have hw : Ghost2.endLocalCall (.opened D gap c0 o) = (if o.phase = .data then Ghost2.opened D gap c0 o else
          match o.endLocal with
          | .ok o' => .opened D gap c0 o'
          | .unchanged => .opened D gap c0 o
          | .dead => .dead) := rfl
        dsimp only
        rw [hw, hph]
        by_cases hd : m0.phase = .data
        · rw [if_pos hd, if_pos hd]
          intro _
          rw [orgNext2_self]
          exact ⟨h1, by rw [hs2]; exact h2⟩
        · rw [if_neg hd, if_neg hd]
          cases hm : m0.endLocal <;> cases ho : o.endLocal <;> rw [hm, ho] at hx <;>
            first | exact hx.elim | skip
          · intro _
            exact hupd D gap c0 o _ m0 _ rfl hs2 hx
          · intro _
            rw [orgNext2_self]
            exact ⟨h1, by rw [hs2]; exact h2⟩
          · exact fun hf => hf.elim
  | setComment c' =>
    intro _
    have hst : madeStep2 st (.setComment c') out = st := by
      unfold madeStep2; cases st.2 <;> simp [opened2?]
    rw [hst]
    obtain ⟨h1, h2⟩ := h
    cases g with
    | dead => cases hs2 : st.2 <;> simp at h2
    | stuck ss n wf => cases hs2 : st.2 <;> simp at h2
    | lost => cases hs2 : st.2 <;> simp at h2
    | idle D gap c0 =>
      refine ⟨h1, ?_⟩
      cases hs2 : st.2 <;> simp [hs2, Ghost2.setComment] at h2 ⊢
    | opened D gap c0 o =>
      refine ⟨?_, ?_⟩
      · have : orgNext2 (.opened D gap c0 o) (Ghost2.setComment c' (.opened D gap c0 o)) org = org := by
          simp [orgNext2, Ghost2.setComment]
        rw [this]; exact h1
      · cases hs2 : st.2 with
        | none => simp [hs2] at h2
        | some m0 => rw [hs2] at h2; exact h2
  | finish => intro _; exact hstay _ (by unfold madeStep2; cases st.2 <;> simp [opened2?])
  | drop => intro _; exact hstay _ (by unfold madeStep2; cases st.2 <;> simp [opened2?])

theorem alive_back2 (ext : WExt) (g : Ghost2) (c : Call) (out : Out (Option Nat))
    (h : (ghostStep2 ext g c out).alive) : g.alive := by
  rcases ghostStep2_cases ext g c out with h1 | ⟨_, h2, _⟩ | ⟨es, gap, c', o', hf, _⟩
  · exact absurd h h1
  · exact h2
  · exact fin_alive hf

theorem ghostOf2_alive_back (ext : WExt) : ∀ (calls : List Call) (outs : List (Out (Option Nat))) (g : Ghost2),
    (ghostOf2 ext g calls outs).alive → g.alive
  | [], outs, g, h => by cases outs <;> exact h
  | c :: cs, [], g, h => h
  | c :: cs, o :: os, g, h => alive_back2 ext g c o (ghostOf2_alive_back ext cs os _ h)

/-- **A whole run**: if the ghost is alive at the end, it agrees with the expectation. -/
theorem agree_run2 (ext : WExt) : ∀ (calls : List Call) (outs : List (Out (Option Nat))) (g : Ghost2)
    (org : List Origin2) (st : List Made2 × Option Made2), Agree2 g org st → (∀ c ∈ calls, AlignOk c) →
    (ghostOf2 ext g calls outs).alive →
    Agree2 (ghostOf2 ext g calls outs) (originsOf2 ext g org calls outs) (madeFold2 st calls outs)
  | [], outs, g, org, st, h, _, _ => by cases outs <;> exact h
  | c :: cs, [], g, org, st, h, _, _ => h
  | c :: cs, o :: os, g, org, st, h, hc, ha =>
    agree_run2 ext cs os _ _ _
      (agree_step2 ext h c (hc c (by simp)) o (ghostOf2_alive_back ext cs os _ ha))
      (fun c' h' => hc c' (by simp [h'])) ha

/-- **The origins of the emitted entries ARE the expected entries, in call order** (Level 2). -/
theorem origins_are_made2 (ext : WExt) (calls : List Call) (hc : ∀ c ∈ calls, AlignOk c)
    (outs : List (Out (Option Nat))) (ha : (ghostOf2 ext (.idle [] [] []) calls outs).alive) :
    Forall2 MadeRel2 (madeOf2 calls outs)
      ((ghostOf2 ext (.idle [] [] []) calls outs).closeOrigins
        (originsOf2 ext (.idle [] [] []) [] calls outs)) := by
  have h0 : Agree2 (.idle [] [] []) [] ([], none) := ⟨.nil, trivial⟩
  obtain ⟨h1, h2⟩ := agree_run2 ext calls outs _ _ _ h0 hc ha
  unfold madeOf2
  generalize ghostOf2 ext (.idle [] [] []) calls outs = g at h1 h2 ⊢
  generalize originsOf2 ext (.idle [] [] []) [] calls outs = org at h1 ⊢
  generalize madeFold2 ([], none) calls outs = st at h1 h2 ⊢
  cases g with
  | dead => cases hs : st.2 <;> simp at h2
  | stuck ss n wf => cases hs : st.2 <;> simp at h2
  | lost => cases hs : st.2 <;> simp at h2
  | idle D gap c0 =>
    cases hs : st.2 with
    | some m => simp [hs] at h2
    | none => simp only [Ghost2.closeOrigins, Option.map, Option.toList, hs, List.append_nil]; exact h1
  | opened D gap c0 o =>
    cases hs : st.2 with
    | none => simp [hs] at h2
    | some m =>
      rw [hs] at h2
      simp only [Ghost2.closeOrigins, Option.map, Option.toList, hs]
      exact h1.snoc (AgreeOpen2.rel h2)

/-! ## 4. The archive contains exactly the expected entries -/

/-- **What the emitted entry of an expected entry is**: the call's name; the extra data written in
extra-field mode as its central extra data and (unless it is the position-dependent padding of an
aligned entry) its local extra data; for an entry written through the writer CRC-32 and length of
exactly the bytes whose `write` returned `Ok` in data mode; a raw copy holds the source's raw bytes. -/
theorem made_entry2 (ext : WExt) {m : Made2} {org : Origin2} {e : Spec.Zip.Entry}
    (hm : MadeRel2 m org) (ho : OriginRel2 ext org e) :
    e.name = m.name ∧ e.method = m.opts.method.toU16 ∧
    (m.isRaw = false → e.centralExtra = m.cx ∧ (∀ l, m.lx = some l → e.localExtra = l) ∧
      e.crc = Spec.Crc32.crc32 m.bytes ∧ e.usize = UInt64.ofNat m.bytes.length) ∧
    (m.isRaw = true → e.data = m.bytes ∧ e.crc = (m.rawv.getD (0, 0, 0)).1 ∧
      e.usize = (m.rawv.getD (0, 0, 0)).2.2) := by
  cases org with
  | old => exact hm.elim
  | written f enc lx cx p =>
    obtain ⟨h1, h2, _, h4, h5, hs, ds, hf⟩ := hm
    obtain ⟨dp, gap, _, he⟩ := ho
    subst he hf h2 h4
    refine ⟨rfl, rfl, ?_, ?_⟩
    · intro _; exact ⟨rfl, h5, rfl, rfl⟩
    · intro h; rw [h1] at h; cases h
  | raw f p =>
    obtain ⟨h1, h2, hs, ds, hf⟩ := hm
    obtain ⟨dp, gap, _, he⟩ := ho
    subst he hf h2
    refine ⟨rfl, rfl, ?_, ?_⟩
    · intro h; rw [h1] at h; cases h
    · intro _; exact ⟨rfl, rfl, rfl⟩

/-- **`finish_output_exact_full`** (C12, archive level, the WHOLE call alphabet).  A fresh writer and ANY
`Level2R` call sequence (extra-data mode, aligned files, ZipCrypto included; legal or not).  If `finish`
returns `Ok`, re-opening the sink yields EXACTLY one entry per element of `madeOf2 calls outs`, in call
order; entry `i` has its call's name and method, the extra data written in extra-field mode as
central / local extra data, CRC and size of exactly the bytes whose `write` returned `Ok` in data mode (a
raw copy: the source's values and raw bytes). -/
theorem finish_output_exact_full (ext : WExt) (calls : List Call) (hc : ∀ c ∈ calls, Level2R c)
    (hal : ∀ c ∈ calls, AlignOk c) (es : List Spec.Zip.Entry) (gap c : Bytes)
    (hg : (C02Full.finalGhost2 ext calls).close ext = some (es, gap, c))
    (v : Option Nat) (s' : WState) (d' : Dev)
    (hfin : step ext .finish (runCalls ext calls WState.init none (Dev.ofBytes [])).2.1 none
      (runCalls ext calls WState.init none (Dev.ofBytes [])).2.2 = (.ok (.ok v, s'), d'))
    (hS : C03.NoFalseSig (layoutOf es gap c []))
    (hsize : (build (layoutOf es gap c [])).length < 2 ^ 63)
    (hu : ∀ e ∈ es, e.usize.toNat < 2 ^ 63)
    (hcx : ∀ e ∈ es, e.centralExtra.length + 28 ≤ 0xFFFF) :
    let made := madeOf2 calls (runCalls ext calls WState.init none (Dev.ofBytes [])).1
    d'.buf = build (layoutOf es gap c []) ∧
    ∃ a d1, openArchive.runPure (Dev.ofBytes d'.buf) = (.ok a, d1) ∧
      a.files.length = made.length ∧ es.length = made.length ∧
      ∀ (i : Nat) (m : Made2), made[i]? = some m →
        ∃ e off chs ds d2, es[i]? = some e ∧ a.files[i]? = some (viewEntry e off 0 chs) ∧
          e.name = m.name ∧ e.method = m.opts.method.toU16 ∧
          (m.isRaw = false → e.centralExtra = m.cx ∧ (∀ l, m.lx = some l → e.localExtra = l) ∧
            e.crc = Spec.Crc32.crc32 m.bytes ∧ e.usize = UInt64.ofNat m.bytes.length) ∧
          (m.isRaw = true → e.data = m.bytes ∧ e.crc = (m.rawv.getD (0, 0, 0)).1 ∧
            e.usize = (m.rawv.getD (0, 0, 0)).2.2) ∧
          (byIndexRaw a i).runPure d1 = (.ok (ds, e.data), d2) := by
  intro made
  obtain ⟨hbuf, hF, d1, hopen, _, _, hfiles, hlen, hraw⟩ :=
    C02Full.write_read_roundtrip_full ext calls hc es gap c hg v s' d' hfin hS hsize hu hcx
  have horg := C02Full.emitted_origins_full ext calls es gap c hg
  have hmade : Forall2 MadeRel2 made (C02Full.finalOrigins2 ext calls) :=
    origins_are_made2 ext calls hal _ (fin_alive (Ghost2.close_fin hg).1)
  have hl1 := WL.Forall2.length_eq hmade
  have hl2 := WL.Forall2.length_eq horg
  refine ⟨hbuf, archiveOf (layoutOf es gap c []), d1, hopen, by rw [hlen]; omega, by omega, ?_⟩
  intro i m hi
  obtain ⟨org, ho1, hr1⟩ := Forall2.get_left hmade i m hi
  obtain ⟨e, he, hr2⟩ := Forall2.get_left horg i org ho1
  obtain ⟨off, chs, _, hv⟩ := C03.entry_view (layoutOf es gap c []) i e he
  obtain ⟨ds, d2, hrw⟩ := hraw i e he
  obtain ⟨k1, k2, k3, k4⟩ := made_entry2 ext hr1 hr2
  exact ⟨e, off, chs, ds, d2, he, hv, k1, k2, k3, k4, hrw⟩

/-- **Reading an unencrypted entry returns exactly the bytes whose `write` returned `Ok` in data mode** —
also for entries started in extra-data or aligned mode. -/
theorem finish_output_plaintext_full (wext : WExt) (rext : Ext) (calls : List Call)
    (hal : ∀ c ∈ calls, AlignOk c) (es : List Spec.Zip.Entry) (gap c : Bytes)
    (hg : (C02Full.finalGhost2 wext calls).close wext = some (es, gap, c))
    (hF : (layoutOf es gap c []).Fits) (i : Nat) (m : Made2)
    (hi : (madeOf2 calls (runCalls wext calls WState.init none (Dev.ofBytes [])).1)[i]? = some m)
    (hraw : m.isRaw = false) (henc : m.enc = none) (hopt : m.opts.encryptWith = none)
    (hw : writable m.opts.method = true)
    (hcodec : rext.decode m.opts.method (dataOf wext m.rec0 m.bytes) = .ok m.bytes)
    (pw : Option Bytes) (d : Dev) (hd : d.buf = build (layoutOf es gap c [])) :
    ∃ ds d', (byIndexRead rext (archiveOf (layoutOf es gap c [])) i pw).runPure d =
        (.ok (.ok (ds, .ok m.bytes)), d') := by
  have hmade := origins_are_made2 wext calls hal (runCalls wext calls WState.init none (Dev.ofBytes [])).1
    (fin_alive (Ghost2.close_fin hg).1)
  have horg := C02Full.emitted_origins_full wext calls es gap c hg
  obtain ⟨org, ho1, hr1⟩ := Forall2.get_left hmade i m hi
  obtain ⟨e, he, hr2⟩ := Forall2.get_left horg i org ho1
  cases org with
  | old => exact hr1.elim
  | raw f p => rw [hr1.1] at hraw; cases hraw
  | written f enc lx cx p =>
    obtain ⟨_, h2, h3, _, _, hs, ds0, hf⟩ := hr1
    subst h2
    rw [henc] at h3
    subst h3
    obtain ⟨ds, d', h, _⟩ := C02Full.roundtrip_entry_plain_full wext rext hF i e he f lx cx m.bytes hr2
      (by rw [hf]; show m.opts.encryptWith.isSome = false; rw [hopt]; rfl)
      (by rw [hf]; exact hw) (by rw [hf]; exact hcodec) pw d hd
    exact ⟨ds, d', h⟩

/-- **Reading a ZipCrypto entry with its password returns exactly the bytes whose `write` returned `Ok`**,
under the cipher round trip of `C02Full.roundtrip_entry_zc_full` and the codec round trip. -/
theorem finish_output_zc_full (wext : WExt) (rext : Ext) (calls : List Call)
    (hal : ∀ c ∈ calls, AlignOk c) (es : List Spec.Zip.Entry) (gap c : Bytes)
    (hg : (C02Full.finalGhost2 wext calls).close wext = some (es, gap, c))
    (hF : (layoutOf es gap c []).Fits) (i : Nat) (m : Made2) (pw : Bytes)
    (hi : (madeOf2 calls (runCalls wext calls WState.init none (Dev.ofBytes [])).1)[i]? = some m)
    (hraw : m.isRaw = false) (henc : m.enc = some pw) (hopt : m.opts.encryptWith.isSome = true)
    (hw : writable m.opts.method = true)
    (hcipher : rext.zipCrypto pw (Spec.Crc32.crc32 m.bytes >>> 24).toUInt8
      (wext.zcEncrypt pw (zcPlain (Spec.Crc32.crc32 m.bytes) (dataOf wext m.rec0 m.bytes))) =
        .ok (some (dataOf wext m.rec0 m.bytes)))
    (hcodec : rext.decode m.opts.method (dataOf wext m.rec0 m.bytes) = .ok m.bytes)
    (d : Dev) (hd : d.buf = build (layoutOf es gap c [])) :
    ∃ ds d', (byIndexRead rext (archiveOf (layoutOf es gap c [])) i (some pw)).runPure d =
        (.ok (.ok (ds, .ok m.bytes)), d') := by
  have hmade := origins_are_made2 wext calls hal (runCalls wext calls WState.init none (Dev.ofBytes [])).1
    (fin_alive (Ghost2.close_fin hg).1)
  have horg := C02Full.emitted_origins_full wext calls es gap c hg
  obtain ⟨org, ho1, hr1⟩ := Forall2.get_left hmade i m hi
  obtain ⟨e, he, hr2⟩ := Forall2.get_left horg i org ho1
  cases org with
  | old => exact hr1.elim
  | raw f p => rw [hr1.1] at hraw; cases hraw
  | written f enc lx cx p =>
    obtain ⟨_, h2, h3, _, _, hs, ds0, hf⟩ := hr1
    subst h2
    rw [henc] at h3
    subst h3
    obtain ⟨ds, d', h, _⟩ := C02Full.roundtrip_entry_zc_full wext rext hF i e he f pw lx cx m.bytes hr2
      (by rw [hf]; exact hopt) (by rw [hf]; exact hw) (by rw [hf]; exact hcipher)
      (by rw [hf]; exact hcodec) d hd
    exact ⟨ds, d', h⟩

/-! ## 5. Non-vacuity -/

open ZipVerif.Props.C02Full (scriptX scriptY wext2 xrec)

example : (∀ c ∈ scriptX ++ scriptY, Level2R c ∧ AlignOk c) := by decide +kernel

/-- `scriptX`: extra data split between local and central header, then an aligned file.  The expectation,
from calls and outcomes alone: "x" with content [5,6,7], local extra data `xrec`, central extra data the
0xbeef record; "y" (aligned) with content [1,2], local extra data unspecified (padding), no central
extra data. -/
example :
    (madeOf2 scriptX (runCalls wext2 scriptX WState.init none (Dev.ofBytes [])).1).map
        (fun m => (m.name, m.bytes, m.lx, m.cx)) =
      [([0x78], [5, 6, 7], some xrec, le16 0xbeef ++ le16 1 ++ [9]), ([0x79], [1, 2], none, [])] := by
  decide +kernel

/-- `scriptY`: a ZipCrypto file, an entry left in extra-data mode (closed by the next start: its extra
data go to both headers), an encrypted directory -/
example :
    (madeOf2 scriptY (runCalls wext2 scriptY WState.init none (Dev.ofBytes [])).1).map
        (fun m => (m.name, m.bytes, m.enc, m.lx, m.cx)) =
      [([0x7a], [8, 8], some [0x70, 0x77], some [], []), ([0x77], [], none, some xrec, xrec),
       ([0x64, 0x2f], [], some [1], some [], [])] := by
  decide +kernel

/-- … and the emitted layouts of the ghost agree with these on the names and extra data -/
example :
    (match (C02Full.finalGhost2 wext2 scriptX).close wext2 with
     | some (es, _, _) => es.map (fun e => (e.name, e.centralExtra)) ==
        [([0x78], le16 0xbeef ++ le16 1 ++ [9]), ([0x79], [])] &&
        (es.map (·.localExtra)).take 1 == [xrec] && es.map (·.usize) == [3, 2]
     | none => false) = true := by decide +kernel

end ZipVerif.Props.C12ArchiveFull
