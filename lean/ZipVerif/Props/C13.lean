import ZipVerif.Lemmas.AppendClosed
import ZipVerif.Props.C03
/-
C13 — Appending to an existing archive: the OPENING half.

What `ZipWriter::new_append` (`Model.newAppend`) returns on the bytes of a well-formed archive from any
producer (`Spec.Zip.build l`, as in C03), and that the state it returns is the base shape of the
"writer emits a layout" invariant (`Lemmas/WLDefs.lean`): the re-hydrated records are `WL.Closed` for
explicitly NORMALISED spec entries (`WL.appendNorm`), which say exactly what the rewritten central
directory will contain.  Proofs: `Lemmas/AppendOpen.lean`, `Lemmas/AppendClosed.lean`.
-/

namespace ZipVerif.Props.C13
open ZipVerif ZipVerif.Model ZipVerif.Spec.Zip ZipVerif.WL

/-! ## 1. What `new_append` returns -/

/-- **`newAppend_on_layout`** — for every layout that `reader_on_wf` (C03) covers: `new_append` returns
the writer state `{ init with files := (viewOf l).map appendRecord, comment := l.comment, writing_raw := true }`; the sink
still holds the archive and is positioned on the first byte of the OLD central directory
(`l.pre.length + l.cdOffset`), which the appending writer overwrites.  The unconditional disk-number
check and the D16 check `directory_start > cde_start` pass on a layout.

`hN` (NEW with the A6 repair; the theorem was false for the repaired code without it and described a
writer that could only produce a corrupt archive before): every DECODED name still fits the 16-bit name
length field.  It follows from `Fits` for every name that decodes to itself (`appendNameFits_of_clean`);
when it fails `new_append` refuses the archive: `newAppend_refuses_long_name`. -/
theorem newAppend_on_layout (l : Layout) (hF : l.Fits) (hN : ∀ e ∈ l.entries, AppendNameFits e)
    (hR : l.Readable) (hS : Spec.Zip.NoFalseSig l)
    (ht : l.trailing = [] ∨ l.needs64 = false) :
    ∃ d', newAppend.runPure (Dev.ofBytes (build l)) =
        (.ok { WState.init with files := (viewOf l).map appendRecord, comment := l.comment,
                                writingRaw := true }, d') ∧
      d'.buf = build l ∧ d'.pos = l.cdStart :=
  Model.newAppend_on_layout l hF hN hR hS ht

/-- **`newAppend_refuses_long_name`** (A6 repair) — on the bytes of a layout one of whose entries has a
name that DECODES (CP437 → UTF-8, or ill-formed flagged UTF-8 → U+FFFD) to more than 65535 bytes,
`new_append` returns `UnsupportedArchive` and the sink still holds exactly the old archive.  Before the
repair it returned a writer; `finish()` then wrote `name.len() as u16` into the rewritten central record,
followed by the whole name, and reported success for an archive that no longer opens (witness: one entry
named 21846 × 0xB0, corpus/append.ops). -/
theorem newAppend_refuses_long_name (l : Layout) (hF : l.Fits) (hR : l.ReadableZ)
    (hS : Spec.Zip.NoFalseSig l) (ht : l.trailing = [] ∨ l.needs64 = false)
    (hbad : ∃ e ∈ l.entries, ¬ AppendNameFits e) :
    ∃ d', newAppend.runPure (Dev.ofBytes (build l)) = (.err .unsupportedArchive, d') ∧
      d'.buf = build l :=
  Model.newAppend_refuses_long_name l hF hR hS ht hbad

/-- A name that decodes to itself is never refused. -/
theorem appendNameFits_of_clean (e : Entry) (hf : e.Fits) (hc : AppendClean e) : AppendNameFits e :=
  WL.appendNameFits_of_clean e hf hc

/-- CP437 0xB0 ('░', U+2591) needs three UTF-8 bytes. -/
theorem mapToChar_b0 : ∀ n : Nat, ∃ cs : List Char, Model.mapToChar (List.replicate n 0xB0) = .ok cs ∧
    (Spec.utf8Encode cs).length = 3 * n
  | 0 => ⟨[], rfl, rfl⟩
  | n + 1 => by
    obtain ⟨cs, h1, h2⟩ := mapToChar_b0 n
    have hc : Model.toChar 0xB0 = .ok (Char.ofNat 0x2591) := by rfl
    refine ⟨Char.ofNat 0x2591 :: cs, ?_, ?_⟩
    · rw [List.replicate_succ]
      unfold Model.mapToChar
      rw [hc, h1]
    · show (Spec.utf8EncodeChar (Char.ofNat 0x2591) ++ Spec.utf8Encode cs).length = _
      rw [List.length_append, h2]
      have : (Spec.utf8EncodeChar (Char.ofNat 0x2591)).length = 3 := by decide
      omega

theorem decode_b0_length (n : Nat) :
    (Text.decodeToUtf8 false (List.replicate (n + 1) 0xB0)).length = 3 * (n + 1) := by
  obtain ⟨cs, h1, h2⟩ := mapToChar_b0 (n + 1)
  unfold Text.decodeToUtf8 Model.decodeName Model.fromCp437
  have ha : Model.allAscii (List.replicate (n + 1) 0xB0) = false := by
    rw [List.replicate_succ]; rfl
  simp only [ha, Bool.false_eq_true, if_false, h1]
  exact h2

/-- Non-vacuity of `hbad`, and the boundary: an unflagged name of 21846 bytes 0xB0 `Fits` (21846 ≤ 65535)
but decodes to 65538 bytes, one of 21845 bytes decodes to exactly 65535 bytes and is accepted. -/
theorem long_cp437_name_not_rewritable (e : Entry) (hfl : e.flagsOut &&& 0x0800 = 0) :
    ¬ AppendNameFits { e with name := List.replicate 21846 0xB0 } ∧
    (e.name = List.replicate 21845 0xB0 → AppendNameFits e) := by
  constructor
  · unfold AppendNameFits
    have hf : ({ e with name := List.replicate 21846 0xB0 } : Entry).flagsOut = e.flagsOut := rfl
    rw [hf, hfl]
    show ¬ (Text.decodeToUtf8 false (List.replicate (21845 + 1) 0xB0)).length ≤ 65535
    rw [decode_b0_length]; omega
  · intro hn
    unfold AppendNameFits
    rw [hfl, hn]
    show (Text.decodeToUtf8 false (List.replicate (21844 + 1) 0xB0)).length ≤ 65535
    rw [decode_b0_length]; omega

open ZipVerif.Props.C03 (exA) in
example : exA.flagsOut &&& 0x0800 = 0 := by decide

/-- What `appendRecord` (the D20 repair) does to a re-hydrated record: only the extra field changes — the
inherited ZIP64 records are dropped; for a `Readable` entry exactly the foreign records remain. -/
theorem appendRecord_view (e : Entry) (off pre chs : Nat) :
    appendRecord (viewEntry e off pre chs) =
      { viewEntry e off pre chs with extraField := e.keptExtra (UInt64.ofNat off) } ∧
    (ExtraOk e.centralExtra → e.keptExtra (UInt64.ofNat off) = e.centralExtra) :=
  ⟨rfl, keptExtra_of_extraOk e _⟩

/-- The live part of the sink (what lies in front of the position) after `new_append`. -/
theorem newAppend_live (l : Layout) :
    (build l).take l.cdStart = l.pre ++ localsBytes l.entries ++ l.gapBeforeCd :=
  take_cdStart l

/-! ## 2. The bridge: re-hydrated records are `Closed` for the normalised entries -/

/-- What the normalised entry records, field by field (`v` = the re-hydrated record). -/
theorem appendNorm_fields (e : Entry) (off pre : Nat) :
    let v := viewEntry e off pre 0
    let n := appendNorm e off pre
    n.madeBy = ((System.fromU8 (e.madeBy >>> 8).toUInt8).discr <<< 8) ||| e.madeBy.toUInt8.toUInt16 ∧
    n.versionNeeded = v.versionNeeded ∧ n.flags = centralFlagOf v ∧ n.flagsOut = centralFlagOf v ∧
    centralFlagOf v = (((if !isAscii v.fileName then (0x0800 : UInt16) else 0) |||
      (if e.flagsOut &&& 1 == 1 then 1 else 0)) ||| (if e.flagsOut &&& 0x0008 != 0 then 8 else 0)) ∧
    n.method = e.method ∧ n.time = e.time ∧ n.date = e.date ∧ n.crc = e.crc ∧ n.usize = e.usize ∧
    n.csize = e.csize ∧ n.name = Text.decodeToUtf8 (e.flagsOut &&& 0x0800 != 0) e.name ∧
    n.centralExtra = e.keptExtra (UInt64.ofNat off) ∧
    n.comment = [] ∧ n.internalAttrs = 0 ∧ n.externalAttrs = e.externalAttrs ∧
    n.z64 = (false, false, false) ∧ n.desc = e.desc ∧
    n.localExtra = e.localExtra ∧ n.localZip64 = e.localZip64 ∧ n.gapBefore = e.gapBefore ∧
    n.data = e.data ∧ n.localVersion = some (e.localVersion.getD e.versionNeeded) :=
  ⟨rfl, rfl, rfl, appendNorm_flagsOut e off pre 0, rfl, rfl, rfl, rfl, rfl, rfl, rfl, rfl, rfl, rfl, rfl,
    rfl, rfl, rfl, rfl, rfl, rfl, rfl, rfl⟩

/-- The method and the DOS stamp the writer re-emits are the old ones: `from_u16`/`to_u16` and
`from_msdos`/`datepart`,`timepart` round-trip on EVERY value (C18 `dos_unpack_pack`), so `appendNorm`
keeps `e.method`, `e.time`, `e.date` verbatim. -/
theorem appendNorm_method_time (e : Entry) (off pre chs : Nat) :
    let v := viewEntry e off pre chs
    v.method.toU16 = e.method ∧ v.time.timepart = e.time ∧ v.time.datepart = some e.date :=
  ⟨method_roundtrip e.method, (msdos_roundtrip e.date e.time).2, (msdos_roundtrip e.date e.time).1⟩

/-- **`view_closed`** — the record `new_append` holds for entry `e` (local header `off` bytes behind a
prefix of `pre` bytes) serialises, through `write_central_directory_header`, to the spec's central
record of `appendNorm e off pre` at the absolute offset `off + pre`.  The only side condition is that
the new ZIP64 record plus the kept old extra field fit the 16-bit length field. -/
theorem view_closed (e : Entry) (off pre chs : Nat) (hfit : AppendFits e off pre) :
    Closed (appendNorm e off pre) (off + pre) (appendRecord (viewEntry e off pre chs)) :=
  WL.view_closed e off pre chs hfit

/-- Since D20 `AppendFits` holds for every entry that `Fits` and is `Readable`. -/
theorem appendFits_of_fits_readable (e : Entry) (off pre : Nat) (hf : e.Fits) (hr : e.Readable) :
    AppendFits e off pre := WL.appendFits_of_fits_readable e off pre hf hr

/-- `AppendFits` holds when the foreign extra data leave room for two ZIP64 records. -/
theorem appendFits_of_small (e : Entry) (off pre : Nat) (h : e.centralExtra.length + 56 ≤ 0xFFFF) :
    AppendFits e off pre := WL.appendFits_of_small e off pre h

/-- **The local record survives** exactly under `AppendClean`: the name decodes to itself, the flag word
is what the writer recomputes (bit 11 iff the name is not ASCII; bit 0 and bit 3 kept; nothing else).
Then the normalised entry — whose central record is what the writer emits — has the OLD local bytes,
data descriptor included. -/
theorem appendNorm_localBytes (e : Entry) (off pre : Nat) (h : AppendClean e) :
    (appendNorm e off pre).localBytes = e.localBytes := WL.appendNorm_localBytes e off pre h

/-- A sufficient condition for the name clause of `AppendClean`: ASCII, or flagged UTF-8 and well formed. -/
theorem name_stable (utf8 : Bool) (name : Bytes)
    (h : isAscii name = true ∨ (utf8 = true ∧ (Spec.utf8Strict name).isSome = true)) :
    Text.decodeToUtf8 utf8 name = name := decode_stable utf8 name h

/-- **Entries the crate's own writer produced are `AppendClean`** (their name is a Rust `String`) … -/
theorem writer_entries_clean (f : FileData) (dp : UInt16) (gap lx data : Bytes) (lv : UInt16)
    (hs : (Spec.utf8Strict f.fileName).isSome = true) :
    AppendClean (specEntry f dp gap lx data lv) := specEntry_appendClean f dp gap lx data lv hs

/-- … **and EXACT fixed points of `appendNorm`** (since D20): write → append → append … re-emits the
same central record each time; the inherited ZIP64 record is dropped and regenerated, the extra field does
not grow.  (`hm`: the method is not an `Unsupported(v)` with `v` one of the known codes — true of every
value the reader produces; `hx`: the record's own extra data carry no ZIP64 / AES record.) -/
theorem writer_entries_fixed (f : FileData) (dp : UInt16) (gap lx data : Bytes) (lv : UInt16) (off : Nat)
    (hs : (Spec.utf8Strict f.fileName).isSome = true)
    (hm : Method.fromU16 f.method.toU16 = f.method)
    (hcs : f.compressedSize = UInt64.ofNat data.length)
    (hoff : f.headerStart = UInt64.ofNat off) (hx : ExtraOk f.extraField) :
    appendNorm (specEntry f dp gap lx data lv) off 0 = specEntry f dp gap lx data lv :=
  appendNorm_specEntry f dp gap lx data lv off hs hm hcs hoff hx

/-! ## 3. The whole directory -/

/-- **`viewOf_closedAll`** — the re-hydrated records are `ClosedAll`, from offset 0, for the normalised
entries of the prefix-less archive the appending writer continues (`appendNormAll l`: the old prefix
becomes dead bytes in front of the first local header). -/
theorem viewOf_closedAll (l : Layout)
    (hall : ∀ e ∈ l.entries, AppendClean e ∧ e.centralExtra.length + 56 ≤ 0xFFFF) :
    ClosedAll (appendNormAll l) 0 ((viewOf l).map appendRecord) := WL.viewOf_closedAll l hall

/-- … and their local part, followed by the dead bytes `appendGap l`, is what the sink holds in front of
the old central directory. -/
theorem appendNormAll_bytes (l : Layout) (hall : ∀ e ∈ l.entries, AppendClean e) :
    localsBytes (appendNormAll l) ++ appendGap l = (build l).take l.cdStart := by
  rw [take_cdStart]; exact WL.appendNormAll_bytes l hall

/-- **`append_open_is_base_state`** — shape (A) of the writer invariant. -/
theorem append_open_is_base_state (l : Layout) (hF : l.Fits) (hR : l.Readable) (hS : Spec.Zip.NoFalseSig l)
    (ht : l.trailing = [] ∨ l.needs64 = false)
    (hall : ∀ e ∈ l.entries, AppendClean e ∧ e.centralExtra.length + 56 ≤ 0xFFFF) :
    ∃ s d, newAppend.runPure (Dev.ofBytes (build l)) = (.ok s, d) ∧
      d.buf = build l ∧ d.pos = l.cdStart ∧
      d.buf.take d.pos = localsBytes (appendNormAll l) ++ appendGap l ∧
      ClosedAll (appendNormAll l) 0 s.files ∧
      s.files = (viewOf l).map appendRecord ∧ s.comment = l.comment ∧
      s.inner = .storer none ∧ s.writingToFile = false ∧ s.writingToExtraField = false ∧
      s.centralOnly = false ∧ (s.files = [] ∨ s.writingRaw = true) :=
  WL.append_open_is_base_state l hF hR hS ht hall

/-- **The continued archive is again one that C03 reads** (since D20, ZIP64 or not): the normalised entry
of an `AppendClean`, `Readable` entry that `Fits` again `Fits` and is `Readable`. -/
theorem appendNorm_again_wf (e : Entry) (off pre : Nat) (hf : e.Fits) (hr : e.Readable)
    (hc : AppendClean e) :
    (appendNorm e off pre).Fits ∧ (appendNorm e off pre).Readable :=
  ⟨appendNorm_fits e off pre hf hc hr, appendNorm_readable e off pre hr⟩

/-! ## 4. Non-vacuity and findings (kernel evaluation) -/

open ZipVerif.Props.C03 (exA exB exL)

/-- `new_append` on the 251-byte archive `build exL` (5-byte prefix, two entries, comment "hi") really
evaluates to the stated state and position. -/
example :
    (match newAppend.runPure (Dev.ofBytes (build exL)) with
     | (.ok s, d) => s.files == (viewOf exL).map appendRecord && s.comment == [0x68, 0x69] && s.writingRaw &&
        s.files.map (·.extraField) == [exA.centralExtra, exB.centralExtra] &&
        s.inner == .storer none && !s.writingToFile && !s.writingToExtraField && !s.centralOnly &&
        d.buf == build exL && d.pos == exL.cdStart && d.pos == 5 + exL.cdOffset &&
        s.files.map (·.headerStart) == [5, 48]
     | _ => false) = true := by decide +kernel

/-- `exA` is `AppendClean` and its re-hydrated record is `Closed` hypotheses-wise. -/
example : AppendClean exA ∧ AppendFits exA 0 5 ∧ exA.centralExtra.length + 56 ≤ 0xFFFF := by decide +kernel

/-- The bridge on the concrete entry, evaluated: the writer's central header for the re-hydrated `exA`
IS the spec's central record of the normalised entry at offset 0 + 5, and the local bytes are kept. -/
example :
    (match centralHeaderChunks (appendRecord (viewEntry exA 0 5 107)) with
     | .ok cs => ser cs == centralRecord (appendNorm exA 0 5) 5
     | _ => false) = true ∧
    (appendNorm exA 0 5).localBytes = exA.localBytes := by decide +kernel

/-- **A data-descriptor entry stays consistent.**  `exBd` = `exB` (streamed: data descriptor with zeroed
local CRC/sizes, 3 junk bytes before its header, DOS host, ZIP64 record in the central header) with
an honest flag word (no UTF-8 bit on its ASCII name): it is `AppendClean`; the rewritten central record
keeps bit 3 (`0x0008`), exactly the flag word of its untouched local header, and the normalised entry has
the old local bytes (descriptor included).  The entry comment and the internal attributes are dropped
from the central record. -/
def exBd : Entry := { exB with flags := 0 }

example :
    AppendClean exBd ∧ exBd.hasDesc = true ∧ exBd.flagsOut = 0x0008 ∧
    (appendNorm exBd 43 5).flagsOut = 0x0008 ∧
    (appendNorm exBd 43 5).localBytes = exBd.localBytes ∧
    (appendNorm exBd 43 5).comment = [] ∧ exBd.comment = [0x63] ∧
    (appendNorm exBd 43 5).internalAttrs = 0 ∧ exBd.internalAttrs = 1 ∧
    (match centralHeaderChunks (appendRecord (viewEntry exBd 43 5 158)) with
     | .ok cs => ser cs == centralRecord (appendNorm exBd 43 5) 48 &&
        ((ser cs).drop 8).take 2 == [0x08, 0x00]
     | _ => false) = true ∧
    ((localRecord exBd).drop 6).take 2 = [0x08, 0x00] := by decide +kernel

/-- **Finding (UTF-8 flag on an ASCII name).**  `exB` itself sets bit 11 although its name "b" is ASCII
(legal, and common).  The writer recomputes bit 11 from the decoded name: the rewritten central record
has flags 0x0008 while the untouched local header keeps 0x0808 — the two records of the entry disagree
after append + finish.  `exB` is not `AppendClean`. -/
example :
    ¬ AppendClean exB ∧ exB.flagsOut = 0x0808 ∧ (appendNorm exB 43 5).flagsOut = 0x0008 ∧
    (match centralHeaderChunks (appendRecord (viewEntry exB 43 5 158)) with
     | .ok cs => ser cs == centralRecord (appendNorm exB 43 5) 48 &&
        ((ser cs).drop 8).take 2 == [0x08, 0x00]
     | _ => false) = true ∧
    ((localRecord exB).drop 6).take 2 = [0x08, 0x08] := by decide +kernel

/-- **D20 regression (ZIP64 record no longer duplicated).**  `exB`'s old central header carries a ZIP64
record (compressed size forced through it).  `new_append` drops it: the rewritten central extra field
is exactly the foreign records, and the normalised entry is `Readable` in the sense of C03 again.  (Before
the repair the old record was kept and a new one put in front on every round — see
`C13LayoutZ.d20_pre_fix_witness`.) -/
example :
    (appendNorm exB 43 5).centralExtra = exB.centralExtra ∧ (appendNorm exB 43 5).Readable := by
  decide +kernel

/-- A host other than DOS/Unix is renumbered to 4, the low byte is kept. -/
example : (appendNorm { exA with madeBy := 0x0a3f } 0 0).madeBy = 0x043f ∧
    (appendNorm { exA with madeBy := 0x033f } 0 0).madeBy = 0x033f ∧
    (appendNorm { exA with madeBy := 0x0014 } 0 0).madeBy = 0x0014 := by decide +kernel

/-- "version needed" is recomputed, not kept (45 in the old record of a plain stored entry becomes 20);
general-purpose bits other than 0, 3 and 11 (here bits 1-2, a deflate option) are dropped — such an entry is
not `AppendClean`. -/
example : (appendNorm { exA with versionNeeded := 45 } 0 0).versionNeeded = 20 ∧
    (appendNorm { exA with flags := 0x0006 } 0 0).flags = 0 ∧
    ¬ AppendClean { exA with flags := 0x0006 } := by decide +kernel

/-- A CP437 name (0x81 = 'ü') is transcoded: the rewritten central record has the UTF-8 name (2 bytes)
with bit 11 set, the local header keeps the 1-byte CP437 name — not `AppendClean`, and the local
record's LENGTH changes, so not even the offsets of later entries survive in `appendNorm`'s terms. -/
example :
    let e : Entry := { exA with name := [0x81] }
    (appendNorm e 0 0).name = [0xc3, 0xbc] ∧ (appendNorm e 0 0).flags = 0x0800 ∧ ¬ AppendClean e ∧
    (appendNorm e 0 0).localBytes.length = e.localBytes.length + 1 := by decide +kernel

/-- **K-A2 (known finding), kernel-checked counterexample to "the rewritten central record and the untouched
local header of an old entry agree"**: one entry with the unflagged CP437 name `[0x81]`.  The central
record the writer emits for the re-hydrated record IS the spec's central record of the normalised entry
(so the model says exactly what the code writes), that record names the entry `[0xc3, 0xbc]` with bit 11
set, while the local header — which `new_append` never touches — still carries `[0x81]` with flags 0.
What holds instead: `C13Layout.old_names_kept` (`old_names_kept_partial`) under `AppendClean`. -/
theorem ka2_names_disagree_witness :
    let e : Entry := { exA with name := [0x81] }
    (match centralHeaderChunks (appendRecord (viewEntry e 0 0 0)) with
     | .ok cs => ser cs == centralRecord (appendNorm e 0 0) 0 &&
        ((ser cs).drop 8).take 2 == [0x00, 0x08] && ((ser cs).drop 46).take 2 == [0xc3, 0xbc]
     | _ => false) = true ∧
    ((localRecord e).drop 6).take 2 = [0x00, 0x00] ∧ ((localRecord e).drop 30).take 1 = [0x81] ∧
    ¬ AppendClean e ∧ e.Fits ∧ e.Readable ∧ AppendNameFits e := by decide +kernel

/-- A layout all of whose entries are `AppendClean`, satisfying every hypothesis of
`append_open_is_base_state`; the conclusion evaluated. -/
def exLc : Layout :=
  { exL with entries := [exA, { exA with name := [0xc3, 0xbc], flags := 0x0800, gapBefore := [7, 7] }, exBd] }

example : exLc.Fits ∧ exLc.Readable ∧ Spec.Zip.NoFalseSig exLc ∧ exLc.needs64 = false ∧
    (∀ e ∈ exLc.entries, AppendClean e ∧ e.centralExtra.length + 56 ≤ 0xFFFF) ∧
    (∀ e ∈ exLc.entries, AppendNameFits e) := by decide +kernel

example :
    localsBytes (appendNormAll exLc) ++ appendGap exLc = (build exLc).take exLc.cdStart ∧
    (appendNormAll exLc).map (·.gapBefore) = [[0x23, 0x21, 0x2f, 0x62, 0x0a], [7, 7], [0xde, 0xad, 0xbe]] ∧
    localOffsets (appendNormAll exLc) 0 = (viewOf exLc).map (·.headerStart.toNat) := by decide +kernel

def bigPayload : Bytes := List.replicate 65503 0
theorem bigPayload_length : bigPayload.length = 65503 := List.length_replicate

/-- **D20 regression (was: finding "`AppendFits` is a real restriction").**  An entry that `Fits`, is
`Readable`, whose central header has all three ZIP64 fields forced and whose uncompressed size really is
≥ 0xFFFFFFFF, with 65507 bytes of foreign extra data.  Before the repair the re-hydrated extra field had
65535 bytes (old ZIP64 record kept), the new ZIP64 record added 12 and `write_central_directory_header`
failed with `InvalidArchive`.  Now the old record is dropped: 65507 + 12 bytes fit, `finish()` succeeds. -/
def exBig : Entry :=
  { exA with usize := 0xFFFFFFFF, z64 := (true, true, true),
             centralExtra := le16 0xcafe ++ le16 65503 ++ bigPayload }

theorem exBig_len : exBig.centralExtra.length = 65507 := by
  show (le16 0xcafe ++ le16 65503 ++ bigPayload).length = 65507
  simp only [List.length_append, le16_length, bigPayload_length]

theorem exBig_fits : exBig.Fits := by
  refine ⟨by decide, by decide, by decide, ?_, by decide, by decide⟩
  rw [exBig_len]; decide

theorem exBig_readable : exBig.Readable := by
  refine ⟨?_, by decide⟩
  have := extraOk_single 0xcafe bigPayload (by decide) (by decide) (by rw [bigPayload_length]; decide)
  rw [bigPayload_length] at this
  exact this

theorem regression_append_extra_fits : exBig.Fits ∧ exBig.Readable ∧ AppendFits exBig 0 0 ∧
    Closed (appendNorm exBig 0 0) 0 (appendRecord (viewEntry exBig 0 0 0)) :=
  ⟨exBig_fits, exBig_readable, appendFits_of_fits_readable exBig 0 0 exBig_fits exBig_readable,
    WL.view_closed exBig 0 0 0 (appendFits_of_fits_readable exBig 0 0 exBig_fits exBig_readable)⟩

end ZipVerif.Props.C13
