import ZipVerif.Props.C12
/-
C13 — Appending keeps every existing entry and adds the new ones.

First layer (this file, until `Lemmas/AppendOpen.lean` / `Lemmas/WL*.lean` are merged): the
mechanism that protects the existing entries, on the writer model, for every state the append
constructor can return:
* `append_state_shape`: what `new_append` returns when it succeeds — the re-hydrated directory as the
  entry list, the old comment, the raw flag set, nothing open;
* `base_entries_not_repatched`: the first `finish_file` after `new_append` (run by the first
  `start_file`, or by `finish`) does no I/O at all and leaves every re-hydrated record untouched —
  the raw flag suppresses the CRC/size back-patch that would otherwise overwrite the LAST old
  entry's local header with the fresh writer's zero statistics;
* `set_comment_only_comment`: replacing the comment between rounds touches nothing else.
The archive-level statement (the bytes after `finish` are `Spec.Zip.build` of the old entries followed
by the new ones, hence read back as such) is the subject of `Lemmas/AppendOpen.lean` + `Lemmas/WL*.lean`.
-/

namespace ZipVerif.Props.C13Base
open ZipVerif ZipVerif.Model

/-- The states `new_append` returns. -/
def BaseState (s : WState) : Prop :=
  s.inner = .storer none ∧ s.writingToFile = false ∧ s.writingToExtraField = false ∧
  s.centralOnly = false ∧ s.writingRaw = true

theorem bind_ok {α β} {x : M α} {f : α → M β} {fa : Option Nat} {d d' : Dev} {b : β}
    (h : (x >>= f) fa d = (.ok b, d')) : ∃ a d1, x fa d = (.ok a, d1) ∧ f a fa d1 = (.ok b, d') := by
  rw [M.bind_apply] at h
  split at h
  · next a d1 he => exact ⟨a, d1, he, h⟩
  · cases h
  · cases h

theorem throw_ne_ok {α} {e : ZErr} {fa : Option Nat} {d d' : Dev} {a : α}
    (h : (M.throw e : M α) fa d = (.ok a, d')) : False := by
  cases h

/-- `new_append` returns a `BaseState` whenever it succeeds — for every input archive, valid or
not, and every fault index. -/
theorem append_state_shape (fa : Option Nat) (d : Dev) (s : WState) (d' : Dev)
    (h : newAppend fa d = (.ok s, d')) : BaseState s := by
  unfold newAppend at h
  obtain ⟨⟨footer, cdeStart⟩, d1, _, h⟩ := bind_ok h
  dsimp only at h
  split at h
  · exact (throw_ne_ok h).elim
  obtain ⟨⟨ao, ds, n⟩, d2, _, h⟩ := bind_ok h
  dsimp only at h
  split at h
  · exact (throw_ne_ok h).elim
  obtain ⟨r, d3, _, h⟩ := bind_ok h
  cases r with
  | error e => exact (throw_ne_ok h).elim
  | ok v =>
    dsimp only at h
    obtain ⟨files, d4, _, h⟩ := bind_ok h
    obtain ⟨_, d5, _, h⟩ := bind_ok h
    cases h
    exact ⟨rfl, rfl, rfl, rfl, rfl⟩

/-- **The old entries are not re-patched.**  In a `BaseState` the implicit `finish_file` (run by the
first creation call and by `finish`) performs NO I/O call and changes nothing but the two flags: the
re-hydrated records — in particular the last one, whose local header a fresh writer's zero
statistics would otherwise overwrite — stay exactly as parsed. -/
theorem base_entries_not_repatched (ext : WExt) (s : WState) (hs : BaseState s) (fa : Option Nat)
    (d : Dev) :
    finishFile ext s fa d = (.ok (.ok (), { s with writingToFile := false, writingRaw := false }), d) := by
  obtain ⟨h1, h2, h3, h4, h5⟩ := hs
  obtain ⟨inner, files, sS, sB, sH, wF, wE, cO, wR, cm⟩ := s
  dsimp only at h1 h2 h3 h4 h5
  subst h1 h2 h3 h4 h5
  rfl

/-- … and that state is an ordinary idle writer state: nothing open, every record closed. -/
theorem after_first_finish_file (s : WState) (hs : BaseState s) :
    let s' := { s with writingToFile := false, writingRaw := false }
    s'.files = s.files ∧ s'.comment = s.comment ∧ s'.inner = .storer none ∧ s'.writingRaw = false :=
  ⟨rfl, rfl, hs.1, rfl⟩

/-- `set_comment` between rounds replaces the comment and nothing else; without it the old comment
(kept by `new_append`) is written back by `finish`. -/
theorem set_comment_only_comment (ext : WExt) (c : Bytes) (s : WState) (fa : Option Nat) (d : Dev) :
    C12.step ext (.setComment c) s fa d = (.ok (.ok none, { s with comment := c }), d) := rfl

end ZipVerif.Props.C13Base
