import ZipVerif.Lemmas.WLGoodP
import ZipVerif.Lemmas.AppendClosedZ
import ZipVerif.Props.C01
import ZipVerif.Props.C02Full
/-
C13 (layout level) — appending to an existing archive.

`WL.append_open_is_base_state` (Lemmas/AppendClosed.lean): `new_append` on `build l` (entries
`AppendClean`) lands in shape (A) of the writer invariant with `done = appendNormAll l`,
`gap = appendGap l`.  `C01.writer_emits_layout` (general form): from shape (A), any Level-1 script and
a successful `finish` leave `build (layoutOf es gap c stale)` in the sink.  Composed here:
`append_emits_layout`; the old entries are kept, in order, in front of the new ones
(`append_keeps_old`, `old_fields_kept`); reading back with C03 (`append_read_back`); the result is again
a layout of `AppendClean` entries (`append_iterates`); the empty script (`append_nothing`).
-/

namespace ZipVerif.Props.C13Layout
open ZipVerif ZipVerif.Model ZipVerif.Spec.Zip ZipVerif.WL
open ZipVerif.Props.C12 (Call step runCalls)

/-! ## 1. The base state -/

theorem timeOk_fromMsdos (d t : UInt16) : TimeOk (DateTime.fromMsdos d t) := by
  unfold TimeOk
  have h := (DateTime.fromMsdos_toNat d t).1
  have e : (1980 : UInt16).toNat = 1980 := by decide
  rw [UInt16.lt_iff_toNat_lt, e, h]
  omega

theorem viewList_timeOk (pre : Nat) : ∀ (es : List Spec.Zip.Entry) (loc chs : Nat),
    ∀ f ∈ viewList pre es loc chs, TimeOk f.time := by
  intro es
  induction es with
  | nil => intro _ _ f hf; cases hf
  | cons e es ih =>
    intro loc chs f hf
    rcases List.mem_cons.mp hf with h | h
    · rw [h]; exact timeOk_fromMsdos _ _
    · exact ih _ _ f h

/-- the ghost a writer opened with `new_append` on `build l` starts from -/
def baseGhost (l : Layout) : Ghost := .idle (appendNormAll l) (appendGap l) l.comment

/-- **The state `new_append` returns on `build l` is in step with `baseGhost l`** (shape (A) of the
writer invariant; at most `(build l).length - l.cdStart` stale bytes — the old central directory and
end records — follow the live part), and satisfies the C12 invariant. -/
theorem append_base (l : Layout) (hF : l.Fits) (hR : l.Readable) (hS : NoFalseSig l)
    (ht : l.trailing = [] ∨ l.needs64 = false)
    (hall : ∀ e ∈ l.entries, AppendClean e ∧ e.centralExtra.length + 56 ≤ 0xFFFF) :
    ∃ s0 d0, newAppend.runPure (Dev.ofBytes (build l)) = (.ok s0, d0) ∧
      d0.buf = build l ∧ d0.pos = l.cdStart ∧ Inv s0 ∧
      Lay ((build l).length - l.cdStart) (baseGhost l) s0 d0 := by
  obtain ⟨s, d, h1, h2, h3, h4, h5, h6, h7, h8, h9, h10, h11, h12⟩ :=
    append_open_is_base_state l hF hR hS ht hall
  have hle : d.pos ≤ d.buf.length := by
    rw [h2, h3, build_length]; unfold Layout.eocdPos; omega
  refine ⟨s, d, h1, h2, h3, ?_, ?_⟩
  · refine inv_idle h8 h9 h10 h11 ?_
    rw [h6]
    intro f hf
    obtain ⟨g, hg, rfl⟩ := List.mem_map.mp hf
    exact viewList_timeOk _ _ _ _ g hg
  · have := lay_idle_intro hle h4 h5 h8 h9 h10 h12
    rw [h7, h2, h3] at this
    exact this

/-! ## 2. Appending emits a layout -/

/-- **`append_emits_layout`** — after `new_append` on `build l`, any Level-1 script and a successful
`finish`: the sink is `build (layoutOf es gap c stale)`, where `es`, `gap`, `c` are computed from `l`
and the calls by the ghost fold started at `baseGhost l`, and `stale` is what is left of the old end of
the archive behind the new end record (nothing when the archive grew). -/
theorem append_emits_layout (ext : WExt) (l : Layout) (hF : l.Fits) (hR : l.Readable)
    (hS : NoFalseSig l) (ht : l.trailing = [] ∨ l.needs64 = false)
    (hall : ∀ e ∈ l.entries, AppendClean e ∧ e.centralExtra.length + 56 ≤ 0xFFFF)
    (calls : List Call) (hc : ∀ c ∈ calls, Level1 c) (ha : ∀ c ∈ calls, c.Admissible) :
    ∃ s0 d0, newAppend.runPure (Dev.ofBytes (build l)) = (.ok s0, d0) ∧
      ∀ (es : List Spec.Zip.Entry) (gap c : Bytes),
        (ghostOf ext (baseGhost l) calls (runCalls ext calls s0 none d0).1).close ext = some (es, gap, c) →
      ∀ (v : Option Nat) (s' : WState) (d' : Dev),
        step ext .finish (runCalls ext calls s0 none d0).2.1 none (runCalls ext calls s0 none d0).2.2 =
          (.ok (.ok v, s'), d') →
        d'.buf = build (layoutOf es gap c (d'.buf.drop d'.pos)) ∧
        d'.buf.take d'.pos = build (layoutOf es gap c []) ∧
        (d'.buf.drop d'.pos).length ≤ (build l).length - l.cdStart ∧
        c.length ≤ 65535 ∧ s'.inner = .closed := by
  obtain ⟨s0, d0, h1, _, _, hI, hL⟩ := append_base l hF hR hS ht hall
  refine ⟨s0, d0, h1, ?_⟩
  intro es gap c hg v s' d' hfin
  obtain ⟨k1, k2, k3, k4, k5, k6⟩ := C01.writer_emits_layout ext calls hc ha _ _ s0 d0 hI hL es gap c hg
    v s' d' hfin
  refine ⟨k2, k1, ?_, k5, k6⟩
  rw [List.length_drop]
  omega

/-! ## 2b. Level 2: the whole call alphabet after `new_append` -/

/-- the Level-2 ghost a writer opened with `new_append` on `build l` starts from -/
def baseGhost2 (l : Layout) : Ghost2 := .idle (appendNormAll l) (appendGap l) l.comment

/-- **`append_emits_layout_full`** — `append_emits_layout` for scripts over the WHOLE call alphabet
(`Level2`: extra-data mode, aligned files, ZipCrypto, …), for a `ReadableZ` (in particular `Readable`)
base: after `new_append` on `build l`, the script and a successful `finish`, the sink is
`build (layoutOf es gap c stale)` with `es`, `gap`, `c` computed by the Level-2 ghost fold started at
`baseGhost2 l`. -/
theorem append_emits_layout_full (ext : WExt) (l : Layout) (hF : l.Fits) (hR : l.ReadableZ)
    (hS : NoFalseSig l) (ht : l.trailing = [] ∨ l.needs64 = false)
    (hall : ∀ e ∈ l.entries, AppendClean e ∧ e.centralExtra.length + 56 ≤ 0xFFFF)
    (calls : List Call) (hc : ∀ c ∈ calls, Level2 c) :
    ∃ s0 d0, newAppend.runPure (Dev.ofBytes (build l)) = (.ok s0, d0) ∧
      ∀ (es : List Spec.Zip.Entry) (gap c : Bytes),
        (ghostOf2 ext (baseGhost2 l) calls (runCalls ext calls s0 none d0).1).close ext = some (es, gap, c) →
      ∀ (v : Option Nat) (s' : WState) (d' : Dev),
        step ext .finish (runCalls ext calls s0 none d0).2.1 none (runCalls ext calls s0 none d0).2.2 =
          (.ok (.ok v, s'), d') →
        d'.buf = build (layoutOf es gap c (d'.buf.drop d'.pos)) ∧
        d'.buf.take d'.pos = build (layoutOf es gap c []) ∧
        (d'.buf.drop d'.pos).length ≤ (build l).length - l.cdStart ∧
        c.length ≤ 65535 ∧ s'.inner = .closed := by
  obtain ⟨s, d, h1, h2, h3, h4, h5, h6, h7, h8, h9, h10, h11, h12⟩ :=
    append_open_is_base_stateZ l hF hR hS ht hall
  have hle : d.pos ≤ d.buf.length := by
    rw [h2, h3, build_length]; unfold Layout.eocdPos; omega
  have hI : Inv s := by
    refine inv_idle h8 h9 h10 h11 ?_
    rw [h6]
    intro f hf
    obtain ⟨g, hg, rfl⟩ := List.mem_map.mp hf
    exact viewList_timeOk _ _ _ _ g hg
  have hL : Lay2 ((build l).length - l.cdStart) (baseGhost2 l) s d := by
    have := lay2_idle_intro hle h4 h5 h8 h9 h10 h11 h12
    rw [h7, h2, h3] at this
    exact this
  refine ⟨s, d, h1, ?_⟩
  intro es gap c hg v s' d' hfin
  obtain ⟨k1, k2, k3, k4, k5, k6⟩ := C02Full.writer_emits_layout_full ext calls hc _ _ s d hI hL es gap c hg
    v s' d' hfin
  refine ⟨k2, k1, ?_, k5, k6⟩
  rw [List.length_drop]
  omega

/-! ## 3. The old entries are kept, in order, in front of the new ones -/

/-- **The entries of the appended archive start with the (normalised) old entries**, whatever the script. -/
theorem append_keeps_old (ext : WExt) (l : Layout) (calls : List Call) (outs : List (Out (Option Nat)))
    (es : List Spec.Zip.Entry) (gap c : Bytes)
    (hg : (ghostOf ext (baseGhost l) calls outs).close ext = some (es, gap, c)) :
    appendNormAll l <+: es := by
  have h1 := (done_prefix_run ext calls outs (baseGhost l) (alive_of_close hg)).2
  exact List.IsPrefix.trans h1 (close_prefix hg)

theorem appendNormList_map {α} (p q : Spec.Zip.Entry → α) (pre : Nat)
    (h : ∀ e off, p (appendNorm e off pre) = q e) : ∀ (es : List Spec.Zip.Entry) (loc : Nat),
    (appendNormList pre es loc).map p = es.map q := by
  intro es
  induction es with
  | nil => intro _; rfl
  | cons e es ih =>
    intro loc
    show p (appendNorm e _ pre) :: (appendNormList pre es _).map p = _
    rw [h, ih]; rfl

theorem appendNormAll_map {α} (p q : Spec.Zip.Entry → α) (l : Layout)
    (h : ∀ e off, p (appendNorm e off l.pre.length) = q e)
    (hg : ∀ (e : Spec.Zip.Entry) g, p { e with gapBefore := g } = p e) :
    (appendNormAll l).map p = l.entries.map q := by
  unfold appendNormAll
  rw [← appendNormList_map p q l.pre.length h l.entries 0]
  cases appendNormList l.pre.length l.entries 0 with
  | nil => rfl
  | cons e es => show p _ :: es.map p = p e :: es.map p; rw [hg]

/-- **What is kept of an old entry**: its stored bytes, CRC, sizes, method, DOS time and date, external
attributes (hence its Unix mode), local extra data and descriptor are unchanged; its name becomes the
DECODED name (for an `AppendClean` entry: the same bytes). -/
theorem old_fields_kept (l : Layout) :
    (appendNormAll l).map Spec.Zip.Entry.data = l.entries.map Spec.Zip.Entry.data ∧
    (appendNormAll l).map Spec.Zip.Entry.crc = l.entries.map Spec.Zip.Entry.crc ∧
    (appendNormAll l).map Spec.Zip.Entry.usize = l.entries.map Spec.Zip.Entry.usize ∧
    (appendNormAll l).map Spec.Zip.Entry.method = l.entries.map Spec.Zip.Entry.method ∧
    (appendNormAll l).map Spec.Zip.Entry.time = l.entries.map Spec.Zip.Entry.time ∧
    (appendNormAll l).map Spec.Zip.Entry.date = l.entries.map Spec.Zip.Entry.date ∧
    (appendNormAll l).map Spec.Zip.Entry.externalAttrs = l.entries.map Spec.Zip.Entry.externalAttrs ∧
    (appendNormAll l).map Spec.Zip.Entry.name =
      l.entries.map (fun e => Text.decodeToUtf8 (e.flagsOut &&& 0x0800 != 0) e.name) :=
  ⟨appendNormAll_map _ _ l (fun _ _ => rfl) (fun _ _ => rfl),
   appendNormAll_map _ _ l (fun _ _ => rfl) (fun _ _ => rfl),
   appendNormAll_map _ _ l (fun _ _ => rfl) (fun _ _ => rfl),
   appendNormAll_map _ _ l (fun _ _ => rfl) (fun _ _ => rfl),
   appendNormAll_map _ _ l (fun _ _ => rfl) (fun _ _ => rfl),
   appendNormAll_map _ _ l (fun _ _ => rfl) (fun _ _ => rfl),
   appendNormAll_map _ _ l (fun _ _ => rfl) (fun _ _ => rfl),
   appendNormAll_map _ _ l (fun _ _ => rfl) (fun _ _ => rfl)⟩

/-- For `AppendClean` entries the names are kept byte for byte. -/
theorem old_names_kept (l : Layout) (hall : ∀ e ∈ l.entries, AppendClean e) :
    (appendNormAll l).map Spec.Zip.Entry.name = l.entries.map Spec.Zip.Entry.name := by
  rw [(old_fields_kept l).2.2.2.2.2.2.2]
  apply List.map_congr_left
  intro e he
  exact (hall e he).1

/-- The name clause of the property as far as it holds (`_partial`): for a base with an unflagged non-ASCII
name the FULL statement "every old name is kept byte for byte in both records" is false — known finding
K-A2, kernel-checked witness `C13.ka2_names_disagree_witness`; the decoded name (what this crate's reader
reports) is kept for every base (`old_fields_kept`). -/
theorem old_names_kept_partial (l : Layout) (hall : ∀ e ∈ l.entries, AppendClean e) :
    (appendNormAll l).map Spec.Zip.Entry.name = l.entries.map Spec.Zip.Entry.name :=
  old_names_kept l hall

/-! ## 4. Reading the appended archive back -/

/-- **`append_read_back`** — the appended archive, read with `ZipArchive::new` (C03 `reader_on_wf`, under
`Fits` / `Readable` / `NoFalseSig` of the NEW layout, and nothing stale or no ZIP64 end records):
`offset() = 0`, the comment is `c`, the entries are the views of `es` in order — the old entries first
(`append_keeps_old`) — and `by_index_raw(i)` returns the stored bytes of entry `i` (for an old entry:
its old stored bytes, `old_fields_kept`). -/
theorem append_read_back (es : List Spec.Zip.Entry) (gap c stale : Bytes) (d' : Dev)
    (hbuf : d'.buf = build (layoutOf es gap c stale))
    (hF : (layoutOf es gap c stale).Fits) (hR : (layoutOf es gap c stale).Readable)
    (hS : NoFalseSig (layoutOf es gap c stale))
    (ht : stale = [] ∨ (layoutOf es gap c stale).needs64 = false) :
    ∃ d1, openArchive.runPure (Dev.ofBytes d'.buf) = (.ok (archiveOf (layoutOf es gap c stale)), d1) ∧
      d1.buf = build (layoutOf es gap c stale) ∧
      (archiveOf (layoutOf es gap c stale)).offset = 0 ∧
      (archiveOf (layoutOf es gap c stale)).comment = c ∧
      (archiveOf (layoutOf es gap c stale)).files = viewOf (layoutOf es gap c stale) ∧
      (∀ (i : Nat) e, es[i]? = some e → ∃ off chs,
        (archiveOf (layoutOf es gap c stale)).files[i]? = some (viewEntry e off 0 chs)) ∧
      (∀ (i : Nat) e, es[i]? = some e → ∃ ds d2,
        (byIndexRaw (archiveOf (layoutOf es gap c stale)) i).runPure d1 = (.ok (ds, e.data), d2)) := by
  obtain ⟨d1, h1, h2⟩ := C03.reader_on_wf _ hF hR hS ht
  refine ⟨d1, by rw [hbuf]; exact h1, h2, rfl, rfl, rfl, ?_, ?_⟩
  · intro i e he
    obtain ⟨off, chs, _, h⟩ := C03.entry_view (layoutOf es gap c stale) i e he
    exact ⟨off, chs, h⟩
  · intro i e he
    obtain ⟨off, d2, _, h, _⟩ := C03.reader_entry_raw (layoutOf es gap c stale) hF i e he d1 h2
    exact ⟨_, d2, h⟩

/-! ## 4b. `Readable` of the appended archive, discharged (the point of the D20 repair)

`new_append` drops the inherited ZIP64 extra records (`strip_zip64_extra_field`), so the normalised old
entries are `Readable` whatever ZIP64 records the base carried — for a `Readable` base and even for a
`ReadableZ` one (redundant ZIP64 records in the foreign extra data) — with no condition on sizes or
offsets; the entries the writer adds are `Readable` as before. -/

/-- what is asked of the record `start_entry` pushes: no extra data yet, not WinZip-AES -/
def ZRec (f : FileData) : Prop := f.extraField = [] ∧ f.method.toU16 ≠ 99

theorem zSpec : GoodSpec Spec.Zip.Entry.Readable ZRec :=
  ⟨fun f dp gap data lv h => ⟨by
      show ExtraOk f.extraField
      rw [h.1]; decide, h.2⟩,
   fun _ _ _ h => h⟩

/-- a decidable sufficient condition on a call: the method it asks for is not code 99 -/
def ZCall : Call → Prop
  | .startFile _ o => o.method.toU16 ≠ 99
  | .rawCopy src _ _ => src.method.toU16 ≠ 99
  | _ => True

instance : DecidablePred ZCall := fun c => by cases c <;> unfold ZCall <;> infer_instance

theorem zCall_callQ {c : Call} (h : ZCall c) : CallQ ZRec c := by
  cases c with
  | startFile n o => exact fun _ _ => ⟨rfl, h⟩
  | addDirectory n o => exact fun _ _ => ⟨rfl, show (0 : UInt16) ≠ 99 by decide⟩
  | addSymlink n t o => exact fun _ _ => ⟨rfl, show (0 : UInt16) ≠ 99 by decide⟩
  | rawCopy src raw n => exact fun _ _ => ⟨rfl, h⟩
  | _ => trivial

/-- **Every entry of the appended archive is `Readable`** for a `ReadableZ` (in particular: `Readable`)
base — ZIP64 entries included — and calls that do not ask for method 99. -/
theorem append_entries_readable (ext : WExt) (l : Layout) (hR : l.ReadableZ)
    (calls : List Call) (hz : ∀ c ∈ calls, ZCall c) (outs : List (Out (Option Nat)))
    (es : List Spec.Zip.Entry) (gap c : Bytes)
    (hg : (ghostOf ext (baseGhost l) calls outs).close ext = some (es, gap, c)) :
    ∀ e ∈ es, e.Readable := by
  have h0 : GoodP Spec.Zip.Entry.Readable ZRec (baseGhost l) := appendNormAll_readable l hR
  exact (goodP_run zSpec ext calls outs _ (fun c hc => zCall_callQ (hz c hc)) h0).close zSpec hg

/-- … hence the appended archive is a `Readable` layout. -/
theorem appended_readable (ext : WExt) (l : Layout) (hR : l.ReadableZ)
    (calls : List Call) (hz : ∀ c ∈ calls, ZCall c) (outs : List (Out (Option Nat)))
    (es : List Spec.Zip.Entry) (gap c stale : Bytes)
    (hg : (ghostOf ext (baseGhost l) calls outs).close ext = some (es, gap, c)) :
    (layoutOf es gap c stale).Readable :=
  append_entries_readable ext l hR calls hz outs es gap c hg

/-- **`append_read_back`, `Readable` discharged.**  For any `ReadableZ` base (so: any `Readable` base,
whatever ZIP64 records it has), the appended archive is read back by `ZipArchive::new` as the views of
its entries and `by_index_raw` returns their stored bytes; what is left to check on the result is only
`Fits` and `NoFalseSig`. -/
theorem append_read_back_discharged (ext : WExt) (l : Layout) (hR : l.ReadableZ)
    (calls : List Call) (hz : ∀ c ∈ calls, ZCall c) (outs : List (Out (Option Nat)))
    (es : List Spec.Zip.Entry) (gap c stale : Bytes)
    (hg : (ghostOf ext (baseGhost l) calls outs).close ext = some (es, gap, c))
    (d' : Dev) (hbuf : d'.buf = build (layoutOf es gap c stale))
    (hF : (layoutOf es gap c stale).Fits) (hS : NoFalseSig (layoutOf es gap c stale))
    (ht : stale = [] ∨ (layoutOf es gap c stale).needs64 = false) :
    ∃ d1, openArchive.runPure (Dev.ofBytes d'.buf) = (.ok (archiveOf (layoutOf es gap c stale)), d1) ∧
      d1.buf = build (layoutOf es gap c stale) ∧
      (archiveOf (layoutOf es gap c stale)).offset = 0 ∧
      (archiveOf (layoutOf es gap c stale)).comment = c ∧
      (archiveOf (layoutOf es gap c stale)).files = viewOf (layoutOf es gap c stale) ∧
      (∀ (i : Nat) e, es[i]? = some e → ∃ off chs,
        (archiveOf (layoutOf es gap c stale)).files[i]? = some (viewEntry e off 0 chs)) ∧
      (∀ (i : Nat) e, es[i]? = some e → ∃ ds d2,
        (byIndexRaw (archiveOf (layoutOf es gap c stale)) i).runPure d1 = (.ok (ds, e.data), d2)) :=
  append_read_back es gap c stale d' hbuf hF (appended_readable ext l hR calls hz outs es gap c stale hg) hS ht

/-! ## 5. Iteration: the result can be appended to again -/

theorem appendNorm_clean (e : Spec.Zip.Entry) (off pre : Nat) (h : AppendClean e) :
    AppendClean (appendNorm e off pre) := by
  have hname : (appendNorm e off pre).name = e.name := h.1
  have hflags : (appendNorm e off pre).flagsOut = e.flagsOut := by
    rw [appendNorm_flagsOut e off pre 0]
    show ((if !isAscii (Text.decodeToUtf8 (e.flagsOut &&& 0x0800 != 0) e.name) then (0x0800 : UInt16) else 0) |||
      (if (e.flagsOut &&& 1 == 1) then 1 else 0)) ||| (if (e.flagsOut &&& 0x0008 != 0) then 8 else 0) = e.flagsOut
    rw [h.1]
    exact h.2.symm
  unfold AppendClean
  rw [hflags, hname]
  exact h

theorem appendNormList_clean (pre : Nat) : ∀ (es : List Spec.Zip.Entry) (loc : Nat),
    (∀ e ∈ es, AppendClean e) → ∀ e ∈ appendNormList pre es loc, AppendClean e := by
  intro es
  induction es with
  | nil => intro _ _ e he; cases he
  | cons x xs ih =>
    intro loc hall e he
    rcases List.mem_cons.mp he with h | h
    · rw [h]; exact appendNorm_clean _ _ _ (hall x List.mem_cons_self)
    · exact ih _ (fun y hy => hall y (List.mem_cons_of_mem _ hy)) e h

theorem appendNormAll_clean (l : Layout) (hall : ∀ e ∈ l.entries, AppendClean e) :
    ∀ e ∈ appendNormAll l, AppendClean e := by
  have h := appendNormList_clean l.pre.length l.entries 0 hall
  unfold appendNormAll
  cases hl : appendNormList l.pre.length l.entries 0 with
  | nil => intro e he; cases he
  | cons x xs =>
    rw [hl] at h
    intro e he
    rcases List.mem_cons.mp he with h' | h'
    · rw [h']; exact h x List.mem_cons_self
    · exact h e (List.mem_cons_of_mem _ h')

/-- names given to the start calls are Rust `String`s: well-formed UTF-8 -/
def Utf8Names : Call → Prop :=
  CallQ (fun f => (Spec.utf8Strict f.fileName).isSome = true)

/-- **`append_iterates`** — when the new names are valid UTF-8 (they are Rust `String`s), every entry of
the appended archive is again `AppendClean`: the result is again a layout `new_append` can continue
(`append_base` applies to it, given `Fits` / `Readable` / `NoFalseSig` and small extra fields). -/
theorem append_iterates (ext : WExt) (l : Layout) (hall : ∀ e ∈ l.entries, AppendClean e)
    (calls : List Call) (hu : ∀ c ∈ calls, Utf8Names c) (outs : List (Out (Option Nat)))
    (es : List Spec.Zip.Entry) (gap c : Bytes)
    (hg : (ghostOf ext (baseGhost l) calls outs).close ext = some (es, gap, c)) :
    ∀ e ∈ es, AppendClean e := by
  have hS : GoodSpec AppendClean (fun f => (Spec.utf8Strict f.fileName).isSome = true) :=
    ⟨fun f dp gap data lv h => specEntry_appendClean f dp gap [] data lv h, fun _ _ _ h => h⟩
  have h0 : GoodP AppendClean (fun f => (Spec.utf8Strict f.fileName).isSome = true) (baseGhost l) :=
    appendNormAll_clean l hall
  exact (goodP_run hS ext calls outs _ hu h0).close hS hg

/-- **`append_iterates`, with `Readable`**: the result is again a layout of `AppendClean`, `Readable`
entries — `append_base` applies to it once more given only `Fits` / `NoFalseSig` and small extra fields;
ZIP64 entries of the base are no obstacle (D20). -/
theorem append_iterates_readable (ext : WExt) (l : Layout) (hR : l.ReadableZ)
    (hall : ∀ e ∈ l.entries, AppendClean e)
    (calls : List Call) (hu : ∀ c ∈ calls, Utf8Names c) (hz : ∀ c ∈ calls, ZCall c)
    (outs : List (Out (Option Nat))) (es : List Spec.Zip.Entry) (gap c stale : Bytes)
    (hg : (ghostOf ext (baseGhost l) calls outs).close ext = some (es, gap, c)) :
    (∀ e ∈ es, AppendClean e) ∧ (layoutOf es gap c stale).Readable :=
  ⟨append_iterates ext l hall calls hu outs es gap c hg,
   appended_readable ext l hR calls hz outs es gap c stale hg⟩

/-! ## 6. Appending nothing -/

/-- **`append_nothing`** — `new_append` followed directly by `finish`: the sink is the layout of the
normalised old entries with the old comment; what is left of the old end of the archive is `stale`. -/
theorem append_nothing (ext : WExt) (l : Layout) (hF : l.Fits) (hR : l.Readable)
    (hS : NoFalseSig l) (ht : l.trailing = [] ∨ l.needs64 = false)
    (hall : ∀ e ∈ l.entries, AppendClean e ∧ e.centralExtra.length + 56 ≤ 0xFFFF) :
    ∃ s0 d0, newAppend.runPure (Dev.ofBytes (build l)) = (.ok s0, d0) ∧
      ∀ (v : Option Nat) (s' : WState) (d' : Dev),
        step ext .finish s0 none d0 = (.ok (.ok v, s'), d') →
        d'.buf = build (layoutOf (appendNormAll l) (appendGap l) l.comment (d'.buf.drop d'.pos)) ∧
        d'.buf.take d'.pos = build (layoutOf (appendNormAll l) (appendGap l) l.comment []) := by
  obtain ⟨s0, d0, h1, h2⟩ := append_emits_layout ext l hF hR hS ht hall [] (fun _ h => by cases h)
    (fun _ h => by cases h)
  refine ⟨s0, d0, h1, ?_⟩
  intro v s' d' hfin
  obtain ⟨k1, k2, _⟩ := h2 (appendNormAll l) (appendGap l) l.comment rfl v s' d' hfin
  exact ⟨k1, k2⟩

/-- the archive comment the ghost carries -/
def cmt : Ghost → Option Bytes
  | .idle _ _ c => some c
  | .opened _ _ c _ => some c
  | _ => none

theorem close_cmt {ext : WExt} {g : Ghost} {es : List Spec.Zip.Entry} {gap c : Bytes}
    (h : g.close ext = some (es, gap, c)) : cmt g = some c := by
  cases g with
  | dead => cases h
  | stuck ss n wf => cases h
  | lost => cases h
  | idle D gap0 c0 => cases h; rfl
  | opened D gap0 c0 o =>
    simp only [Ghost.close] at h
    split at h
    · cases h; rfl
    · cases h

/-- Only `set_comment` changes the comment: any other call that leaves the ghost idle or open leaves
its comment as it was. -/
theorem comment_kept_step (ext : WExt) (g : Ghost) (c : Call) (out : Out (Option Nat))
    (hc : ∀ c', c ≠ .setComment c') (ha' : (ghostStep ext g c out).alive) :
    cmt (ghostStep ext g c out) = cmt g := by
  by_cases ha : ¬ g.alive
  · exact absurd ha' (ghostStep_not_alive ext ha c out)
  have ha : g.alive := Classical.not_not.mp ha
  revert ha'
  unfold ghostStep
  split
  · intro h; exact h.elim
  rw [ghostStep_alive ext ha]
  have hstart : ∀ name o raw ok mk, (startG ext g name o raw ok mk).alive →
      cmt (startG ext g name o raw ok mk) = cmt g := by
    intro name o raw ok mk hal
    rcases startG_cases ext g name o raw ok mk with h | h | ⟨es, gap, c0, f, h1, h2⟩
    · rw [h]
    · exact absurd hal h
    · rw [h2, close_cmt h1]; rfl
  unfold ghostStepAlive
  cases c with
  | startFile n o => exact hstart _ _ _ _ _
  | addDirectory n o => exact hstart _ _ _ _ _
  | addSymlink n t o => exact hstart _ _ _ _ _
  | rawCopy src raw n => exact hstart _ _ _ _ _
  | write b =>
    cases g with
    | dead => exact ha.elim
    | stuck ss n wf => exact ha.elim
    | lost => exact ha.elim
    | idle D gap c0 => intro _; rfl
    | opened D gap c0 o =>
      simp only [Ghost.writeStep]
      split
      · split
        · intro _; rfl
        · intro h; exact h.elim
      · intro _; rfl
  | setComment c' => exact absurd rfl (hc c')
  | endExtraData => intro _; rfl
  | endLocalStartCentral => intro _; rfl
  | startFileWithExtraData n o => intro _; rfl
  | startFileAligned n o a => intro _; rfl
  | finish => intro _; rfl
  | drop => intro _; rfl

/-- **The comment is kept unless `set_comment` replaced it**: a script without `set_comment` appended to
`build l` finishes with the old comment. -/
theorem comment_kept (ext : WExt) (l : Layout) : ∀ (calls : List Call) (outs : List (Out (Option Nat)))
    (g : Ghost), cmt g = some l.comment → (∀ c ∈ calls, ∀ c', c ≠ .setComment c') →
    ∀ (es : List Spec.Zip.Entry) (gap cm : Bytes),
      (ghostOf ext g calls outs).close ext = some (es, gap, cm) → cm = l.comment
  | [], outs, g, hg, _, es, gap, cm, h => by
    have h' : g.close ext = some (es, gap, cm) := by cases outs <;> exact h
    have := close_cmt h'
    rw [hg] at this
    exact (Option.some.inj this).symm
  | c :: cs, [], g, hg, _, es, gap, cm, h => by
    have := close_cmt (show g.close ext = some (es, gap, cm) from h)
    rw [hg] at this
    exact (Option.some.inj this).symm
  | c :: cs, o :: os, g, hg, hc, es, gap, cm, h => by
    have hal : (ghostStep ext g c o).alive :=
      (done_prefix_run ext cs os _ (alive_of_close h)).1
    have h1 := comment_kept_step ext g c o (hc c (by simp)) hal
    exact comment_kept ext l cs os _ (by rw [h1, hg]) (fun c' h' => hc c' (by simp [h'])) es gap cm h

/-! ## 7. Non-vacuity -/

open ZipVerif.Props.C01 (wext1 script1 script2 finishDev finalGhost)

/-- The archive `script1` of C01 produces is a layout `append_base` applies to (its hypotheses hold), and
appending `script2` to it through the model gives what the ghost started at `baseGhost` computes. -/
example :
    (match (finalGhost wext1 script1).close wext1 with
     | some (es, gap, c) =>
       let l := layoutOf es gap c []
       decide (l.Fits) && decide (l.Readable) && decide (NoFalseSig l) &&
       decide (∀ e ∈ l.entries, AppendClean e ∧ e.centralExtra.length + 56 ≤ 0xFFFF) &&
       (match newAppend.runPure (Dev.ofBytes (build l)) with
        | (.ok s0, d0) =>
          let run := runCalls wext1 script2 s0 none d0
          (match (ghostOf wext1 (baseGhost l) script2 run.1).close wext1,
             step wext1 .finish run.2.1 none run.2.2 with
           | some (es', gap', c'), (.ok (.ok _, _), d') =>
             d'.buf == build (layoutOf es' gap' c' (d'.buf.drop d'.pos)) && es'.length == 5 &&
             c' == c && (es'.take 3).map Spec.Zip.Entry.data == es.map Spec.Zip.Entry.data
           | _, _ => false)
        | _ => false)
     | none => false) = true := by decide +kernel

example : ∀ c ∈ script2, Utf8Names c := by
  intro c hc
  simp only [script2, List.mem_cons, List.mem_nil_iff, or_false] at hc
  rcases hc with h | h | h <;> subst h
  · intro hs ds; show (Spec.utf8Strict [0x72]).isSome = true; decide
  · trivial
  · intro hs ds; show (Spec.utf8Strict [0x6c]).isSome = true; decide

end ZipVerif.Props.C13Layout
