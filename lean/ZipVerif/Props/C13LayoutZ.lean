import ZipVerif.Props.C13Layout
import ZipVerif.Props.C03Z
import ZipVerif.Props.C13
import ZipVerif.Lemmas.AppendClosedZ
/-
C13 (layout level) for `ReadableZ` bases, and the D20 record.

* §1: the C13Layout theorems (`append_base`, `append_emits_layout`, `append_nothing`) for a base that is
  only `ReadableZ` (a foreign archive with redundant ZIP64 records in its central extra data,
  Lemmas/CentralParseZ.lean, Props/C03Z.lean).  Reading the result back needs nothing new:
  `C13Layout.append_read_back_discharged` already takes a `ReadableZ` base, because since the D20 repair
  `new_append` drops every inherited ZIP64 record and the appended archive is plainly `Readable`.
* §2: non-vacuity — a ZIP64 base, "append nothing" twice, read back through the model; the extra field
  no longer grows.
* §3: D20 — the defect (`new_append` kept the old ZIP64 record inside the re-hydrated extra field and
  `finish` put a new one in front; an entry whose compressed size is exactly 0xFFFFFFFF was corrupted),
  witnessed against LOCAL copies of the pre-repair definitions, and the regression on the repaired model.
-/

namespace ZipVerif.Props.C13LayoutZ
open ZipVerif ZipVerif.Model ZipVerif.Spec.Zip ZipVerif.WL
open ZipVerif.Props.C12 (Call step runCalls)
open ZipVerif.Props.C13Layout (baseGhost viewList_timeOk Utf8Names)

/-! ## 1. The C13Layout theorems under `ReadableZ` -/

/-- `C13Layout.append_base` under `ReadableZ`. -/
theorem append_baseZ (l : Layout) (hF : l.Fits) (hR : l.ReadableZ) (hS : NoFalseSig l)
    (ht : l.trailing = [] ∨ l.needs64 = false)
    (hall : ∀ e ∈ l.entries, AppendClean e ∧ e.centralExtra.length + 56 ≤ 0xFFFF) :
    ∃ s0 d0, newAppend.runPure (Dev.ofBytes (build l)) = (.ok s0, d0) ∧
      d0.buf = build l ∧ d0.pos = l.cdStart ∧ Inv s0 ∧
      Lay ((build l).length - l.cdStart) (baseGhost l) s0 d0 := by
  obtain ⟨s, d, h1, h2, h3, h4, h5, h6, h7, h8, h9, h10, h11, h12⟩ :=
    append_open_is_base_stateZ l hF hR hS ht hall
  have hle : d.pos ≤ d.buf.length := by
    rw [h2, h3, build_length]; unfold Layout.eocdPos; omega
  refine ⟨s, d, h1, h2, h3, ?_, ?_⟩
  · refine inv_idle h8 h9 h10 h11 ?_
    rw [h6]
    intro f hf
    obtain ⟨g, hg, rfl⟩ := List.mem_map.mp hf
    exact viewList_timeOk _ _ _ _ g hg
  · have := lay_idle_intro hle h4 h5 h8 h9 h10 h12
    rw [h7, h2, h3] at this
    exact this

/-- `C13Layout.append_emits_layout` under `ReadableZ`. -/
theorem append_emits_layoutZ (ext : WExt) (l : Layout) (hF : l.Fits) (hR : l.ReadableZ)
    (hS : NoFalseSig l) (ht : l.trailing = [] ∨ l.needs64 = false)
    (hall : ∀ e ∈ l.entries, AppendClean e ∧ e.centralExtra.length + 56 ≤ 0xFFFF)
    (calls : List Call) (hc : ∀ c ∈ calls, Level1 c) (ha : ∀ c ∈ calls, c.Admissible) :
    ∃ s0 d0, newAppend.runPure (Dev.ofBytes (build l)) = (.ok s0, d0) ∧
      ∀ (es : List Spec.Zip.Entry) (gap c : Bytes),
        (ghostOf ext (baseGhost l) calls (runCalls ext calls s0 none d0).1).close ext = some (es, gap, c) →
      ∀ (v : Option Nat) (s' : WState) (d' : Dev),
        step ext .finish (runCalls ext calls s0 none d0).2.1 none (runCalls ext calls s0 none d0).2.2 =
          (.ok (.ok v, s'), d') →
        d'.buf = build (layoutOf es gap c (d'.buf.drop d'.pos)) ∧
        d'.buf.take d'.pos = build (layoutOf es gap c []) ∧
        (d'.buf.drop d'.pos).length ≤ (build l).length - l.cdStart ∧
        c.length ≤ 65535 ∧ s'.inner = .closed := by
  obtain ⟨s0, d0, h1, _, _, hI, hL⟩ := append_baseZ l hF hR hS ht hall
  refine ⟨s0, d0, h1, ?_⟩
  intro es gap c hg v s' d' hfin
  obtain ⟨k1, k2, k3, k4, k5, k6⟩ := C01.writer_emits_layout ext calls hc ha _ _ s0 d0 hI hL es gap c hg
    v s' d' hfin
  refine ⟨k2, k1, ?_, k5, k6⟩
  rw [List.length_drop]
  omega

/-- `C13Layout.append_nothing` under `ReadableZ`. -/
theorem append_nothingZ (ext : WExt) (l : Layout) (hF : l.Fits) (hR : l.ReadableZ)
    (hS : NoFalseSig l) (ht : l.trailing = [] ∨ l.needs64 = false)
    (hall : ∀ e ∈ l.entries, AppendClean e ∧ e.centralExtra.length + 56 ≤ 0xFFFF) :
    ∃ s0 d0, newAppend.runPure (Dev.ofBytes (build l)) = (.ok s0, d0) ∧
      ∀ (v : Option Nat) (s' : WState) (d' : Dev),
        step ext .finish s0 none d0 = (.ok (.ok v, s'), d') →
        d'.buf = build (layoutOf (appendNormAll l) (appendGap l) l.comment (d'.buf.drop d'.pos)) ∧
        d'.buf.take d'.pos = build (layoutOf (appendNormAll l) (appendGap l) l.comment []) := by
  obtain ⟨s0, d0, h1, h2⟩ := append_emits_layoutZ ext l hF hR hS ht hall [] (fun _ h => by cases h)
    (fun _ h => by cases h)
  refine ⟨s0, d0, h1, ?_⟩
  intro v s' d' hfin
  obtain ⟨k1, k2, _⟩ := h2 (appendNormAll l) (appendGap l) l.comment rfl v s' d' hfin
  exact ⟨k1, k2⟩

/-- **`append_read_backZ`** — `C13Layout.append_read_back` under `ReadableZ` of the new layout. -/
theorem append_read_backZ (es : List Spec.Zip.Entry) (gap c stale : Bytes) (d' : Dev)
    (hbuf : d'.buf = build (layoutOf es gap c stale))
    (hF : (layoutOf es gap c stale).Fits) (hR : (layoutOf es gap c stale).ReadableZ)
    (hS : NoFalseSig (layoutOf es gap c stale))
    (ht : stale = [] ∨ (layoutOf es gap c stale).needs64 = false) :
    ∃ d1, openArchive.runPure (Dev.ofBytes d'.buf) = (.ok (archiveOf (layoutOf es gap c stale)), d1) ∧
      d1.buf = build (layoutOf es gap c stale) ∧
      (archiveOf (layoutOf es gap c stale)).offset = 0 ∧
      (archiveOf (layoutOf es gap c stale)).comment = c ∧
      (archiveOf (layoutOf es gap c stale)).files = viewOf (layoutOf es gap c stale) ∧
      (∀ (i : Nat) e, es[i]? = some e → ∃ off chs,
        (archiveOf (layoutOf es gap c stale)).files[i]? = some (viewEntry e off 0 chs)) ∧
      (∀ (i : Nat) e, es[i]? = some e → ∃ ds d2,
        (byIndexRaw (archiveOf (layoutOf es gap c stale)) i).runPure d1 = (.ok (ds, e.data), d2)) := by
  obtain ⟨d1, h1, h2⟩ := C03Z.reader_on_wfZ _ hF hR hS ht
  refine ⟨d1, by rw [hbuf]; exact h1, h2, rfl, rfl, rfl, ?_, ?_⟩
  · intro i e he
    obtain ⟨off, chs, _, h⟩ := C03.entry_view (layoutOf es gap c stale) i e he
    exact ⟨off, chs, h⟩
  · intro i e he
    obtain ⟨off, d2, _, h, _⟩ := C03.reader_entry_raw (layoutOf es gap c stale) hF i e he d1 h2
    exact ⟨_, d2, h⟩

/-! ## 2. Non-vacuity: a ZIP64 base, "append nothing" twice, read back through the model -/

open ZipVerif.Props.C03 (exA exL)
open ZipVerif.Props.C13 (exBd)
open ZipVerif.Props.C01 (wext1)
open ZipVerif.Props.C13Layout (ZCall)

/-- "a.txt" claiming 4 GiB of content: its uncompressed size NEEDS the ZIP64 record -/
def exA64 : Spec.Zip.Entry := { exA with usize := 0x100000000 }

/-- prefix, `exA64`, the descriptor entry `exBd` (compressed size FORCED through ZIP64), comment -/
def exLq : Layout := { exL with entries := [exA64, exBd] }

/-- `new_append` followed directly by `finish`, on the bytes `b`: the sink afterwards -/
def appendNothingDev (b : Bytes) : Option Dev :=
  match newAppend.runPure (Dev.ofBytes b) with
  | (.ok s0, d0) =>
    (match step wext1 .finish s0 none d0 with
     | (.ok (.ok _, _), d') => some d'
     | _ => none)
  | _ => none

/-- … its whole contents (a `Cursor<Vec<u8>>` is not truncated: stale bytes of the old end may remain) -/
def appendNothing (b : Bytes) : Option Bytes := (appendNothingDev b).map (·.buf)

/-- … and its live part (everything in front of the position) -/
def appendNothingLive (b : Bytes) : Option Bytes := (appendNothingDev b).map fun d => d.buf.take d.pos

/-- the layouts `append_nothing` predicts for round 1 and round 2 -/
def exLq1 : Layout := layoutOf (appendNormAll exLq) (appendGap exLq) exLq.comment []
def exLq2 : Layout := layoutOf (appendNormAll exLq1) (appendGap exLq1) exLq1.comment []

/-- the base satisfies every hypothesis of `append_base` / `append_read_back_discharged` -/
example : exLq.Fits ∧ exLq.Readable ∧ exLq.ReadableZ ∧ NoFalseSig exLq ∧ exLq.needs64 = false ∧
    (∀ e ∈ exLq.entries, AppendClean e ∧ e.centralExtra.length + 56 ≤ 0xFFFF) := by
  decide +kernel

/-- **D20 regression, layout level**: after round 1 the archive is `Readable` again (before the repair it
was not: second 0x0001 record), satisfies every hypothesis once more, and round 2 reproduces it EXACTLY —
appending nothing is idempotent from the first round on, the extra field no longer grows. -/
example : exLq1.Fits ∧ exLq1.Readable ∧ NoFalseSig exLq1 ∧ exLq1.needs64 = false ∧
    (∀ e ∈ exLq1.entries, AppendClean e ∧ e.centralExtra.length + 56 ≤ 0xFFFF) ∧
    build exLq2 = build exLq1 := by
  decide +kernel

/-- **The model agrees**: both rounds produce exactly the predicted layouts; the twice-appended archive is
read back as the views of `exLq2`, with the real sizes, ONE ZIP64 record (12 bytes) on the entry that needs
it and none on the one where it was merely forced, and `by_index_raw` returns the old stored bytes. -/
example : appendNothingLive (build exLq) = some (build exLq1) := by decide +kernel

example : appendNothing (build exLq1) = some (build exLq2) := by decide +kernel

/-- the untruncated sink of round 1 (the rewritten directory is 13 bytes shorter: the old end record's
tail stays behind as stale bytes) is the same layout with those bytes as `trailing` -/
example :
    (match appendNothingDev (build exLq) with
     | some d => d.buf == build (layoutOf (appendNormAll exLq) (appendGap exLq) exLq.comment (d.buf.drop d.pos)) &&
        (d.buf.drop d.pos).length == 13
     | none => false) = true := by decide +kernel

example :
    (match openArchive.runPure (Dev.ofBytes (build exLq2)) with
     | (.ok a, d) =>
        a.files == viewOf exLq2 &&
        a.files.map (·.uncompressedSize) == [0x100000000, 5] && a.files.map (·.compressedSize) == [5, 5] &&
        a.files.map (·.extraField.length) == [12, 9] && a.files.map (·.largeFile) == [true, false] &&
        (match (byIndexRaw a 0).runPure d, (byIndexRaw a 1).runPure d with
         | (.ok (_, r0), _), (.ok (_, r1), _) => r0 == exA.data && r1 == exBd.data
         | _, _ => false)
     | _ => false) = true := by decide +kernel

/-- A `ReadableZ`-only base (`C03Z.exLz`: a redundant ZIP64 record in the foreign extra data): `new_append`
drops it, the result is `Readable`. -/
example : ¬ C03Z.exLz.Readable ∧ C03Z.exLz.ReadableZ ∧
    (∀ e ∈ appendNormAll C03Z.exLz, e.Readable) ∧
    (appendNormAll C03Z.exLz).map (·.centralExtra) = [le16 0x5455 ++ le16 1 ++ [3], C03.exB.centralExtra] := by
  decide +kernel

/-! ## 3. D20: the defect (against the pre-repair definitions) and the regression -/

/-- LOCAL copy of `new_append` as it was before the D20 repair: the re-hydrated records are pushed as
read, their `extra_field` still containing the old ZIP64 record. -/
def newAppendOld : M WState := do
  let (footer, cdeStart) ← findAndParseEocd
  if footer.diskNumber != footer.diskWithCd then M.throw .unsupportedArchive else do
    let (archiveOffset, directoryStart, numberOfFiles) ← getDirectoryCounts footer cdeStart
    if directoryStart > cdeStart then M.throw .invalidArchive else
    let r ← M.attempt (M.seek (.start directoryStart))
    match r with
    | .error _ => M.throw .invalidArchive
    | .ok _ =>
      let files ← readCentralLoop archiveOffset numberOfFiles
      let _ ← M.attempt (M.seek (.start directoryStart))
      pure { WState.init with files, comment := footer.comment, writingRaw := true }

def appendNothingOld (b : Bytes) : Option Bytes :=
  match newAppendOld.runPure (Dev.ofBytes b) with
  | (.ok s0, d0) =>
    (match step wext1 .finish s0 none d0 with
     | (.ok (.ok _, _), d') => some d'.buf
     | _ => none)
  | _ => none

/-- A central record (no local data is needed: neither `ZipArchive::new` nor `new_append` looks at it)
of an entry "a" with compressed size EXACTLY 0xFFFFFFFF and uncompressed size 5, written by a producer
that puts BOTH sizes into the ZIP64 record (both 32-bit slots 0xFFFFFFFF; ZIP64 record = 5, 0xFFFFFFFF). -/
def recThr : Bytes :=
  le32 sigCentral ++ le16 0x0314 ++ le16 45 ++ le16 0 ++ le16 0 ++ le16 0x6000 ++ le16 0x5821 ++
  le32 0x3610a686 ++ le32 0xFFFFFFFF ++ le32 0xFFFFFFFF ++ le16 1 ++ le16 20 ++ le16 0 ++ le16 0 ++ le16 0 ++
  le32 0x81A40000 ++ le32 0 ++ [0x61] ++ (le16 1 ++ le16 16 ++ le64 5 ++ le64 0xFFFFFFFF)

/-- … and the 89-byte archive consisting of that central directory and its end record -/
def arcThr : Bytes :=
  recThr ++ (le32 sigEocd ++ le16 0 ++ le16 0 ++ le16 1 ++ le16 1 ++ le32 (UInt32.ofNat recThr.length) ++
    le32 0 ++ le16 0)

/-- the (compressed size, uncompressed size, extra field length) the reader reports for each entry -/
def sizesOf (b : Bytes) : Option (List (UInt64 × UInt64 × Nat)) :=
  match openArchive.runPure (Dev.ofBytes b) with
  | (.ok a, _) => some (a.files.map fun (f : FileData) => (f.compressedSize, f.uncompressedSize, f.extraField.length))
  | _ => none

/-- **`d20_pre_fix_witness`** (replayed on the crate before the repair).  `ZipArchive::new` reads `arcThr`
correctly: compressed size 0xFFFFFFFF, uncompressed size 5.  The OLD `new_append` + `finish` — nothing
added — rewrote the central record as `new ZIP64 record (compressed size only) ++ old ZIP64 record (both
sizes)`, the 32-bit slot of the uncompressed size now holding 5.  On re-reading, the first record
restores the compressed size 0xFFFFFFFF; it EQUALS the placeholder, so the second record is consumed
too, and its first 8 bytes — the old UNCOMPRESSED size — overwrite the compressed size: the archive
reported compressed size 5 (`by_index_raw` / extraction would deliver 5 of the 4 GiB − 1 stored bytes).
On the ZIP64 base `exLq` the old code grew the extra field by one ZIP64 record per round (12 → 24 → 36). -/
theorem d20_pre_fix_witness :
    arcThr.length = 89 ∧
    sizesOf arcThr = some [(0xFFFFFFFF, 5, 20)] ∧
    (appendNothingOld arcThr).bind sizesOf = some [(5, 5, 32)] := by decide +kernel

/-- … and the growth of the extra field under the old code, on the ZIP64 base `exLq` -/
theorem d20_pre_fix_growth :
    sizesOf (build exLq) = some [(5, 0x100000000, 12), (5, 5, 21)] ∧
    (appendNothingOld (build exLq)).bind sizesOf = some [(5, 0x100000000, 24), (5, 5, 21)] ∧
    ((appendNothingOld (build exLq)).bind appendNothingOld).bind sizesOf =
      some [(5, 0x100000000, 36), (5, 5, 21)] := by decide +kernel

/-- **`d20_regression`** — the repaired model: appending nothing to `arcThr` keeps (0xFFFFFFFF, 5), with
exactly one (regenerated) ZIP64 record; a second round changes nothing; on `exLq` the extra field no
longer grows. -/
theorem d20_regression :
    (appendNothing arcThr).bind sizesOf = some [(0xFFFFFFFF, 5, 12)] ∧
    ((appendNothing arcThr).bind appendNothing).bind sizesOf = some [(0xFFFFFFFF, 5, 12)] ∧
    (appendNothing arcThr).bind appendNothing = appendNothing arcThr := by decide +kernel

theorem d20_regression_exLq :
    (appendNothing (build exLq)).bind sizesOf = some [(5, 0x100000000, 12), (5, 5, 9)] ∧
    ((appendNothing (build exLq)).bind appendNothing).bind sizesOf =
      some [(5, 0x100000000, 12), (5, 5, 9)] := by decide +kernel

end ZipVerif.Props.C13LayoutZ
