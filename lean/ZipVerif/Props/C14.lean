import ZipVerif.Lemmas.RawCopy
import ZipVerif.Lemmas.AppendClosed
import ZipVerif.Props.C03
/-
C14 — Raw copy (`raw_copy_file` / `raw_copy_file_rename`): the source facts (what the reader hands to the
copy) and the writer-side facts (what record is created, what reaches the sink, that `finish_file` does
not re-patch it).  Proofs: `Lemmas/RawCopy.lean` (exact fault-free runs of `start_entry`,
`raw_copy_file_rename`, `finish_file`), `Lemmas/ReadEntry.lean` (C03's `by_index_raw`).
-/

namespace ZipVerif.Props.C14
open ZipVerif ZipVerif.Model ZipVerif.Spec.Zip ZipVerif.WL

/-! ## 1. The source: what `by_index_raw` delivers for an entry of a well-formed archive -/

/-- **`raw_copy_source`** — entry `i` of a layout: `by_index_raw(i)` read to the end yields the stored
bytes `e.data` (from the data start computed out of the LOCAL header's lengths), and the metadata record
the copy takes its values from is `viewEntry e …`, whose compressed size is the number of raw bytes and
whose CRC / size / method / time / attributes are the central record's. -/
theorem raw_copy_source (l : Layout) (hF : l.Fits) (i : Nat) (e : Entry)
    (he : l.entries[i]? = some e) (d : Dev) (hd : d.buf = build l) :
    ∃ off chs d', (localOffsets l.entries 0)[i]? = some off ∧
      (archiveOf l).files[i]? = some (viewEntry e off l.pre.length chs) ∧
      (byIndexRaw (archiveOf l) i).runPure d = (.ok (e.dataStart off l.pre.length, e.data), d') ∧
      d'.buf = build l ∧
      (let src := viewEntry e off l.pre.length chs
       src.compressedSize = UInt64.ofNat e.data.length ∧ src.compressedSize.toNat = e.data.length ∧
       src.crc32 = e.crc ∧ src.uncompressedSize = e.usize ∧ src.method = Method.fromU16 e.method ∧
       src.time = DateTime.fromMsdos e.date e.time ∧
       src.unixMode.map UInt32.toNat = unixModeSpec e.madeBy e.externalAttrs) := by
  obtain ⟨off, chs, rest, h1, h2, h3, h4⟩ := entry_at l hF i e he
  obtain ⟨off', d', h1', hrun, hb⟩ := C03.reader_entry_raw l hF i e he d hd
  have : off' = off := by rw [h1] at h1'; cases h1'; rfl
  subst this
  refine ⟨off', chs, d', h1, h2, hrun, hb, rfl, ?_, rfl, rfl, rfl, rfl, ?_⟩
  · exact u64_ofNat_toNat (by omega)
  · exact C03.unix_mode_spec e off' l.pre.length chs

/-! ## 2. The record a raw copy creates -/

/-- **`raw_copy_record_spec`** — the record `start_entry` pushes for a raw copy of `src` under `name` at
sink position `hs`: method, CRC, both sizes and the time stamp are the source's; `large_file` exactly
when the larger of the two sizes is at least 0xFFFFFFFF, i.e. does not fit 32 bits or EQUALS the marker
value (since the repair of F6 for raw copies: a size of exactly 0xFFFFFFFF written literally into the
local header without a ZIP64 record reads as a marker without its record); host system Unix, version made by 46, not encrypted,
no extra data, no comment; external attributes `mode << 16` where `mode` is the source's `unix_mode()` —
and `0o100644` when the source has none.  So (as the model stands):
* a source without mode (all-zero attributes, or a host other than DOS/Unix) becomes a regular 0644 file;
* a Unix source whose upper attribute half is zero but whose lower half is not (`unix_mode() = Some(0)`)
  gets attributes 0; the lower 16 bits (DOS attribute byte) of a Unix source are never copied;
* a DOS source is converted: the mode derived from its directory / read-only bits, host Unix. -/
theorem raw_copy_record_spec (src : FileData) (name : Bytes) (hs : Nat) :
    let f := rawFile src name hs
    f.method = src.method ∧ f.crc32 = src.crc32 ∧ f.compressedSize = src.compressedSize ∧
    f.uncompressedSize = src.uncompressedSize ∧ f.time = src.time ∧ f.fileName = name ∧
    f.largeFile = decide ((if src.compressedSize ≥ src.uncompressedSize then src.compressedSize
                           else src.uncompressedSize) ≥ 0xFFFFFFFF) ∧
    f.externalAttributes = (src.unixMode.getD 0o100644) <<< 16 ∧
    f.system = .unix ∧ f.versionMadeBy = 46 ∧ f.encrypted = false ∧ f.usingDataDescriptor = false ∧
    f.extraField = [] ∧ f.fileComment = [] ∧ f.level = none ∧ f.aesMode = none ∧
    f.headerStart = UInt64.ofNat hs :=
  ⟨rfl, rfl, rfl, rfl, rfl, rfl, rfl, rfl, rfl, rfl, rfl, rfl, rfl, rfl, rfl, rfl, rfl⟩

/-- The three cases of the attribute rule. -/
theorem raw_copy_attributes (src : FileData) (name : Bytes) (hs : Nat) :
    (src.unixMode = none → (rawFile src name hs).externalAttributes = 0x81A40000) ∧
    (src.unixMode = some 0 → (rawFile src name hs).externalAttributes = 0) ∧
    (∀ m, src.unixMode = some m → (rawFile src name hs).externalAttributes = m <<< 16) := by
  refine ⟨fun h => ?_, fun h => ?_, fun m h => ?_⟩ <;>
    · show (src.unixMode.getD 0o100644) <<< 16 = _
      rw [h]; rfl

/-- the reader's view of an all-zero-attribute entry has no mode: the copy becomes `-rw-r--r--` -/
example : (viewEntry { C03.exA with externalAttrs := 0 } 0 0 0).unixMode = none := by decide +kernel
/-- a Unix entry with only the DOS directory bit: `unix_mode() = Some(0)`, the copy gets attributes 0 -/
example : (viewEntry { C03.exA with externalAttrs := 0x10 } 0 0 0).unixMode = some 0 ∧
    (rawFile (viewEntry { C03.exA with externalAttrs := 0x10 } 0 0 0) [0x61] 0).externalAttributes = 0 := by
  decide +kernel
/-- a DOS read-only file: `unix_mode()` is 0o444 (the read-only mask also clears the file-type bits), so
the copy is a Unix-host entry with mode 0o444 and no file type -/
example : (rawFile (viewEntry { C03.exA with madeBy := 0x0014, externalAttrs := 0x21 } 0 0 0) [0x61] 0).externalAttributes
    = (0o444 : UInt32) <<< 16 := by decide +kernel

/-! ## 3. What reaches the sink -/

/-- **`raw_copy_bytes_verbatim`** — fault-free run on an in-bounds sink, after `finish_file` has closed
the previous entry (state `s1`, device `d1`): `raw_copy_file_rename` succeeds, the sink's live part
(everything in front of the position) grows by exactly `local header ++ raw`, the bytes behind are
untouched, and the state is `rawCopyState`: the record of §2 pushed with `data_start` at the header's
end, `writing_to_file` and `writing_raw` set.  The raw bytes take the stored path
(`Storer(Unencrypted)` before and after): no compressor is created (`switch_to` is not called by a raw
copy) and nothing is buffered.  `hraw`: see `raw_len_ok`. -/
theorem raw_copy_bytes_verbatim (ext : WExt) (src : FileData) (raw name : Bytes) (dp : UInt16)
    (s s1 : WState) (d d1 : Dev)
    (hn : name.length ≤ 65535) (hdp : src.time.datepart = some dp)
    (hfin : finishFile ext s none d = (.ok (.ok (), s1), d1)) (hin : s1.inner = .storer none)
    (hwe : s1.writingToExtraField = false) (hp1 : d1.pos ≤ d1.buf.length)
    (hraw : raw.length ≤ 0xFFFFFFFF ∨ (rawFile src name d1.pos).largeFile = true) :
    let hdr := ser (rawHeader src name dp d1.pos)
    ∃ d2, rawCopy ext src raw name s none d =
        (.ok (.ok (), rawCopyState s1 src raw name d1.pos hdr.length), d2) ∧
      d2.pos = d1.pos + hdr.length + raw.length ∧
      d2.buf.take d2.pos = d1.buf.take d1.pos ++ hdr ++ raw ∧
      d2.buf.drop d2.pos = d1.buf.drop d2.pos ∧ d2.pos ≤ d2.buf.length ∧
      (rawCopyState s1 src raw name d1.pos hdr.length).inner = .storer none := by
  intro hdr
  obtain ⟨d2, hrun, hb, hp⟩ := rawCopy_runs ext src raw name dp s s1 d d1 d1.buf d1.pos hn hdp hfin rfl rfl
    hin hwe hp1 hraw
  have hh : hdr = ser (rawHeader src name dp d1.pos) := rfl
  rw [← hh] at hrun hb hp
  clear_value hdr
  have hlen : (d1.buf.take d1.pos ++ (hdr ++ raw)).length = d1.pos + (hdr ++ raw).length := by
    rw [List.length_append, List.length_take, Nat.min_eq_left hp1]
  refine ⟨d2, hrun, ?_, ?_, ?_, ?_, hin⟩
  · rw [hp, List.length_append]; omega
  · rw [hb, hp, ← hlen, List.take_left']
    · simp only [List.append_assoc]
    · rfl
  · rw [hb, hp, ← hlen, List.drop_left' rfl, hlen]
  · rw [hb, hp]
    simp only [List.length_append, List.length_take, List.length_drop, Nat.min_eq_left hp1]
    omega

/-- **`raw_copy_large_iff`** (the format's clause, F6 for raw copies) — a raw copy is written as a
large-file entry, i.e. `rawHeader` carries the marker in both 32-bit size fields and the local ZIP64
record with both sizes, EXACTLY when one of the source's sizes does not fit 32 bits or equals the marker
value 0xFFFFFFFF.  (Before the repair the rule was `>`: a size of exactly 0xFFFFFFFF went literally into
the local header, a marker without its record for every reader that follows APPNOTE 4.4.8/4.4.9.) -/
theorem raw_copy_large_iff (src : FileData) (name : Bytes) (hs : Nat) :
    (rawFile src name hs).largeFile = true ↔
      (src.compressedSize.toNat ≥ 0xFFFFFFFF ∨ src.uncompressedSize.toNat ≥ 0xFFFFFFFF) := by
  show decide ((if src.compressedSize ≥ src.uncompressedSize then src.compressedSize
      else src.uncompressedSize) ≥ ZIP64_BYTES_THR) = true ↔ _
  have e : ZIP64_BYTES_THR.toNat = 4294967295 := by decide
  rw [decide_eq_true_eq]
  by_cases hge : src.compressedSize ≥ src.uncompressedSize
  · rw [if_pos hge]
    have h1 : src.uncompressedSize.toNat ≤ src.compressedSize.toNat := UInt64.le_iff_toNat_le.mp hge
    constructor
    · intro h; have := UInt64.le_iff_toNat_le.mp h; omega
    · intro h; apply UInt64.le_iff_toNat_le.mpr; omega
  · rw [if_neg hge]
    have h1 : src.compressedSize.toNat < src.uncompressedSize.toNat :=
      UInt64.lt_iff_toNat_lt.mp (UInt64.not_le.mp hge)
    constructor
    · intro h; have := UInt64.le_iff_toNat_le.mp h; omega
    · intro h; apply UInt64.le_iff_toNat_le.mpr; omega

/-- … so a raw copy that is NOT large has both sizes strictly below the marker: the literal 32-bit
fields of its local header hold the sizes themselves and neither can be taken for a marker. -/
theorem raw_copy_small_fields_literal (src : FileData) (name : Bytes) (hs : Nat)
    (h : (rawFile src name hs).largeFile = false) :
    (trunc32 src.compressedSize).toNat = src.compressedSize.toNat ∧
    (trunc32 src.uncompressedSize).toNat = src.uncompressedSize.toNat ∧
    trunc32 src.compressedSize ≠ 0xFFFFFFFF ∧ trunc32 src.uncompressedSize ≠ 0xFFFFFFFF := by
  have hn : ¬ (src.compressedSize.toNat ≥ 0xFFFFFFFF ∨ src.uncompressedSize.toNat ≥ 0xFFFFFFFF) :=
    fun hh => by rw [(raw_copy_large_iff src name hs).mpr hh] at h; cases h
  have e1 : (trunc32 src.compressedSize).toNat = src.compressedSize.toNat := by
    show src.compressedSize.toUInt32.toNat = _
    rw [UInt64.toNat_toUInt32]; omega
  have e2 : (trunc32 src.uncompressedSize).toNat = src.uncompressedSize.toNat := by
    show src.uncompressedSize.toUInt32.toNat = _
    rw [UInt64.toNat_toUInt32]; omega
  refine ⟨e1, e2, ?_, ?_⟩
  · intro hc; have := congrArg UInt32.toNat hc; rw [e1] at this
    have : (0xFFFFFFFF : UInt32).toNat = 4294967295 := by decide
    omega
  · intro hc; have := congrArg UInt32.toNat hc; rw [e2] at this
    have : (0xFFFFFFFF : UInt32).toNat = 4294967295 := by decide
    omega

/-- non-vacuity: a source of exactly 0xFFFFFFFF uncompressed bytes is large, one byte less is not -/
example : (rawFile { viewEntry C03.exA 0 0 0 with compressedSize := 5, uncompressedSize := 0xFFFFFFFF } [0x61] 0).largeFile = true ∧
    (rawFile { viewEntry C03.exA 0 0 0 with compressedSize := 5, uncompressedSize := 0xFFFFFFFE } [0x61] 0).largeFile = false := by
  decide +kernel

/-- `hraw` holds whenever the raw bytes have the length the source record announces (as they do when
they come from `by_index_raw`, §1). -/
theorem raw_len_ok (src : FileData) (raw name : Bytes) (hs : Nat)
    (h : raw.length = src.compressedSize.toNat) :
    raw.length ≤ 0xFFFFFFFF ∨ (rawFile src name hs).largeFile = true := by
  by_cases hl : raw.length ≤ 0xFFFFFFFF
  · exact Or.inl hl
  · right
    show decide ((if src.compressedSize ≥ src.uncompressedSize then src.compressedSize
      else src.uncompressedSize) ≥ ZIP64_BYTES_THR) = true
    have e : ZIP64_BYTES_THR.toNat = 4294967295 := by decide
    rw [decide_eq_true_eq]
    apply UInt64.le_iff_toNat_le.mpr
    split
    · omega
    · next hge =>
      have : src.compressedSize.toNat ≤ src.uncompressedSize.toNat := by
        have : ¬ src.uncompressedSize.toNat ≤ src.compressedSize.toNat :=
          fun h' => hge (UInt64.le_iff_toNat_le.mpr h')
        omega
      omega

/-- The starting points `hfin` covers without further work: a writer just opened by `new_append`, or
whose current entry is itself a raw copy (`writing_raw`): `finish_file` does no I/O. -/
theorem finish_before_raw_copy (ext : WExt) (s : WState) (hin : s.inner = .storer none)
    (hwe : s.writingToExtraField = false) (hwr : s.writingRaw = true) (d : Dev) :
    finishFile ext s none d = (.ok (.ok (), { s with writingToFile := false, writingRaw := false }), d) :=
  finishFile_raw ext s hin hwe hwr none d

/-- … and a fresh writer without entries. -/
theorem finish_before_first_entry (ext : WExt) (s : WState) (hin : s.inner = .storer none)
    (hwe : s.writingToExtraField = false) (hwr : s.writingRaw = false) (hf : s.files = []) (d : Dev) :
    finishFile ext s none d = (.ok (.ok (), s), d) :=
  finishFile_empty ext s hin hwe hwr hf none d

/-! ## 4. No re-patching -/

/-- **`raw_copy_not_repatched`** — the `finish_file` that closes a raw copy (called by the next
`start_*`, by `finish`, or by `Drop`) performs NO I/O at all — in particular no seek back to the local
header — and leaves every record untouched: CRC, compressed and uncompressed size stay the source's, NOT
the CRC/length of the raw bytes that `write` accounted in `stats`.  Only `writing_to_file` and
`writing_raw` are reset. -/
theorem raw_copy_not_repatched (ext : WExt) (s1 : WState) (src : FileData) (raw name : Bytes)
    (p1 hlen : Nat) (hin : s1.inner = .storer none) (hwe : s1.writingToExtraField = false)
    (fa : Option Nat) (d : Dev) :
    let s3 := rawCopyState s1 src raw name p1 hlen
    finishFile ext s3 fa d = (.ok (.ok (), { s3 with writingToFile := false, writingRaw := false }), d) ∧
    (∃ f, s3.files.getLast? = some f ∧ f.crc32 = src.crc32 ∧ f.compressedSize = src.compressedSize ∧
      f.uncompressedSize = src.uncompressedSize ∧ f.method = src.method ∧
      f.dataStart = UInt64.ofNat (p1 + hlen) ∧ f.headerStart = UInt64.ofNat p1) := by
  intro s3
  refine ⟨finishFile_raw ext s3 hin hwe rfl fa d, _, List.getLast?_concat .., rfl, rfl, rfl, rfl, rfl, rfl⟩

/-- The statistics DID count the raw bytes (so a non-raw `finish_file` would have overwritten the
record with the CRC of the COMPRESSED bytes): it is `writing_raw` alone that protects the record. -/
theorem raw_copy_stats (s1 : WState) (src : FileData) (raw name : Bytes) (p1 hlen : Nat) :
    (rawCopyState s1 src raw name p1 hlen).statsBytes = raw.length ∧
    hasherFinalize (rawCopyState s1 src raw name p1 hlen).statsHasher = Spec.Crc32.crc32 raw ∧
    (rawCopyState s1 src raw name p1 hlen).writingRaw = true := ⟨rfl, rfl, rfl⟩

/-! ## 5. The copy as a spec entry -/

/-- **The bytes a raw copy adds are the spec's local bytes of an entry with the source's values**, and its
record is `WL.Closed` for that entry: with `raw` of the announced length, `header ++ raw` is
`localBytes` of `specEntry (rawFile src name p1) dp [] [] raw lv` (no gap, no descriptor, local version =
the record's version needed), whose method / CRC / sizes / time are the source's. -/
theorem raw_copy_is_entry (src : FileData) (raw name : Bytes) (dp : UInt16) (p1 : Nat)
    (hdp : src.time.datepart = some dp) (hcs : src.compressedSize = UInt64.ofNat raw.length) :
    let f := rawFile src name p1
    let e := specEntry f dp [] [] raw f.versionNeeded
    ser (rawHeader src name dp p1) ++ raw = e.localBytes ∧
    Closed e p1 { f with dataStart := UInt64.ofNat (p1 + (ser (rawHeader src name dp p1)).length) } ∧
    e.method = src.method.toU16 ∧ e.crc = src.crc32 ∧ e.usize = src.uncompressedSize ∧
    e.csize = src.compressedSize ∧ e.data = raw ∧ e.time = src.time.timepart ∧ e.date = dp ∧
    e.name = name := by
  intro f e
  refine ⟨?_, ?_, rfl, rfl, rfl, hcs.symm, rfl, rfl, rfl, rfl⟩
  · rw [rawHeader_is_localRecord src raw name [] dp p1 hcs]
    simp [e, f, Entry.localBytes, descriptor, specEntry]
  · have h := closed_specEntry
      { f with dataStart := UInt64.ofNat (p1 + (ser (rawHeader src name dp p1)).length) } dp [] [] raw
      f.versionNeeded f.largeFile p1 hdp (by
        have := centralZip64Bytes_length_le
          { f with dataStart := UInt64.ofNat (p1 + (ser (rawHeader src name dp p1)).length) }
        show _ + ([] : Bytes).length ≤ 65535
        simp only [List.length_nil]; omega) hcs rfl rfl
    exact h

/-- End to end on the source side: copying entry `i` of a well-formed archive yields an entry with the
SAME method code, CRC, sizes, DOS time/date and stored bytes as the source entry `e`. -/
theorem raw_copy_preserves (e : Entry) (off pre chs : Nat) (name : Bytes) (p1 : Nat) :
    let src := viewEntry e off pre chs
    let f := rawFile src name p1
    let c := specEntry f e.date [] [] e.data f.versionNeeded
    c.method = e.method ∧ c.crc = e.crc ∧ c.usize = e.usize ∧ c.csize = e.csize ∧ c.data = e.data ∧
    c.time = e.time ∧ c.date = e.date ∧ src.time.datepart = some e.date ∧
    src.compressedSize = UInt64.ofNat e.data.length :=
  ⟨method_roundtrip e.method, rfl, rfl, rfl, rfl, (msdos_roundtrip e.date e.time).2, rfl,
    (msdos_roundtrip e.date e.time).1, rfl⟩

/-! ## 6. Non-vacuity (kernel evaluation) -/

open ZipVerif.Props.C03 (exA exB exL)

def ext0 : WExt := { compress := fun _ _ b => b, zcEncrypt := fun _ b => b }

/-- Open `build exL` for append, raw-copy its entry 1 (`exB`, a descriptor entry whose compressed size
went through ZIP64) under the name "c": the hypotheses of §3 hold and the model computes the stated state
and sink. -/
example :
    let s0 : WState := { WState.init with files := viewOf exL, comment := exL.comment, writingRaw := true }
    let src := viewEntry exB 43 5 158
    let d0 : Dev := { buf := build exL, pos := exL.cdStart, calls := 0 }
    src.time.datepart = some exB.date ∧ exB.data.length = src.compressedSize.toNat ∧
    d0.pos ≤ d0.buf.length ∧
    (match rawCopy ext0 src exB.data [0x63] s0 none d0 with
     | (.ok (.ok (), s), d) =>
        d.buf.take d.pos == (build exL).take exL.cdStart ++ ser (rawHeader src [0x63] exB.date exL.cdStart) ++ exB.data &&
        s.files == viewOf exL ++ [{ rawFile src [0x63] exL.cdStart with dataStart := UInt64.ofNat (exL.cdStart + 31) }] &&
        s.writingRaw && s.writingToFile && s.inner == .storer none &&
        (match finishFile ext0 s none d with
         | (.ok (.ok (), s'), d') => s'.files == s.files && d'.buf == d.buf && d'.pos == d.pos && d'.calls == d.calls
         | _ => false)
     | _ => false) = true := by decide +kernel

/-- … and the record differs from what a NON-raw `finish_file` would have computed: the source's CRC is
the CRC of the uncompressed content, here the same 5 stored bytes, so take a source with another CRC. -/
example :
    let src := { viewEntry exA 0 0 0 with crc32 := 0xdeadbeef, uncompressedSize := 77 }
    (match rawCopy ext0 src exA.data [0x63] WState.init none (Dev.ofBytes []) with
     | (.ok (.ok (), s), d) =>
        (match finishFile ext0 s none d with
         | (.ok (.ok (), s'), _) => s'.files.map (fun f => (f.crc32, f.uncompressedSize, f.compressedSize)) ==
              [(0xdeadbeef, 77, 5)] &&
            hasherFinalize s'.statsHasher != 0xdeadbeef && s'.statsBytes == 5
         | _ => false)
     | _ => false) = true := by decide +kernel

end ZipVerif.Props.C14
