import ZipVerif.Props.C12Archive
import ZipVerif.Lemmas.AppendClosed
/-
C14 at ARCHIVE level — raw copies and their neighbours.

1. **Neighbouring entries are unaffected.**  For Level-1 scripts `pre ++ [raw_copy src raw name] ++ post`
   and `pre ++ post` that both finish: the entries of the first archive, with the copy removed, have the
   same CONTENT as the entries of the second — name, method, DOS time and date, CRC, sizes, stored bytes,
   extra data, attributes, flags, local ZIP64 choice: everything except what depends on the position of
   the entry in the file (`gapBefore`, the version-needed values, which look at the header offset, and the
   offset-dependent part of the central ZIP64 record).  Proved through the expectation fold of
   `Props/C12Archive.lean` (`madeOf`): on a run whose ghost survives, the expectation is a function of the
   CALLS alone (`madeFold_eq_A`), and the entry of the emitted layout is a function of the expected entry
   up to its header offset (`entry_content`).
   Side condition (it is necessary — see the counterexample): `post` is empty or begins with a start
   call; a `write` directly behind the copy would go to the copy's dead bytes in one script and to the
   previous entry in the other.
2. **The copy decodes to the same content**: `by_index` on the destination entry and on the source entry
   return the same `decode method data` under the same CRC check, for every method the reader decodes
   and an unencrypted source; for a method it cannot decode both fail with `UnsupportedArchive` while
   `by_index_raw` returns identical bytes.
3. Finding: a raw copy of a ZipCrypto-ENCRYPTED entry loses the encryption flag (witness at the end).
-/

namespace ZipVerif.Props.C14Archive
open ZipVerif ZipVerif.Model ZipVerif.Spec.Zip ZipVerif.WL
open ZipVerif.Props.C12 (Call step runCalls)
open ZipVerif.Props.C12Archive

/-! ## 1. On a surviving run the expectation depends on the calls alone -/

/-- `madeStep` with every start call with a legal name and every accepted `write` taken as successful -/
def madeStepA (st : List Made × Option Made) (c : Call) : List Made × Option Made :=
  match opened? c with
  | some m => if m.name.length > 65535 then st else (st.1 ++ st.2.toList, some m)
  | none =>
    match c, st.2 with
    | .write b, some m =>
      if m.accepts && !m.isRaw then (st.1, some { m with bytes := m.bytes ++ b }) else st
    | _, _ => st

def madeFoldA : List Made × Option Made → List Call → List Made × Option Made
  | st, c :: cs => madeFoldA (madeStepA st c) cs
  | st, [] => st

def madeOfA (calls : List Call) : List Made :=
  (madeFoldA ([], none) calls).1 ++ (madeFoldA ([], none) calls).2.toList

theorem startG_alive_ok (ext : WExt) (g : Ghost) (name : Bytes) (o : FileOptions)
    (raw : Option (UInt32 × UInt64 × UInt64)) (ok : Bool) (mk : FileData → OpenRec)
    (hn : ¬ name.length > 65535) (ha : (startG ext g name o raw ok mk).alive) : ok = true := by
  revert ha
  unfold startG
  rw [if_neg hn]
  split
  · split <;> exact fun h => h.elim
  · cases ok
    · exact fun h => h.elim
    · exact fun _ => rfl

/-- One call on a run whose ghost survives it: the outcome is determined. -/
theorem madeStep_eq_A (ext : WExt) {g : Ghost} {org : List Origin} {st : List Made × Option Made}
    (h : Agree g org st) (c : Call) (out : Out (Option Nat)) (ha' : (ghostStep ext g c out).alive) :
    madeStep st c out = madeStepA st c := by
  have ha := h.alive
  revert ha'
  unfold ghostStep
  split
  · exact fun hf => hf.elim
  rw [ghostStep_alive ext ha]
  unfold ghostStepAlive
  have hstart : ∀ (m : Made) (ok : Bool) (mk : FileData → OpenRec), opened? c = some m →
      succeeded c out = ok → (startG ext g m.name m.opts m.rawv ok mk).alive →
      madeStep st c out = madeStepA st c := by
    intro m ok mk ho hs hal
    unfold madeStep madeStepA
    rw [ho]
    dsimp only
    by_cases hn : m.name.length > 65535
    · rw [if_pos hn, if_pos hn]
    · rw [if_neg hn, if_neg hn, hs, startG_alive_ok ext g _ _ _ ok mk hn hal]
      rfl
  cases c with
  | startFile n o => exact hstart ⟨n, fileOpts o, none, false, [], true⟩ _ _ rfl rfl
  | addDirectory n o => exact hstart ⟨dirName n, dirOpts o, none, false, [], false⟩ _ _ rfl rfl
  | addSymlink n t o => exact hstart ⟨n, linkOpts o, none, false, t, false⟩ _ _ rfl rfl
  | rawCopy src raw n => exact hstart ⟨n, rawOpts src, rawVals src, true, raw, true⟩ _ _ rfl rfl
  | write b =>
    obtain ⟨_, h2⟩ := h
    cases g with
    | dead => exact ha.elim
    | stuck ss n wf => exact ha.elim
    | lost => exact ha.elim
    | idle D gap c0 =>
      intro _
      cases hs2 : st.2 with
      | some m0 => simp [hs2] at h2
      | none => unfold madeStep madeStepA; simp [opened?, hs2]
    | opened D gap c0 o =>
      cases hs2 : st.2 with
      | none => simp [hs2] at h2
      | some m0 =>
        rw [hs2] at h2
        obtain ⟨_, k2, _, _⟩ := h2
        simp only [Ghost.writeStep]
        unfold madeStep madeStepA
        simp only [opened?, hs2]
        cases hacc : m0.accepts with
        | false => intro _; simp
        | true =>
          have hwf : o.wf = true := by rw [k2]; exact hacc
          rw [if_pos hwf]
          cases hok : okO out with
          | false => simp only [Bool.false_eq_true, if_false]; exact fun hf => hf.elim
          | true => intro _; simp
  | setComment c' => intro _; unfold madeStep madeStepA; simp [opened?]
  | endExtraData => intro _; unfold madeStep madeStepA; simp [opened?]
  | endLocalStartCentral => intro _; unfold madeStep madeStepA; simp [opened?]
  | startFileWithExtraData n o => intro _; unfold madeStep madeStepA; simp [opened?]
  | startFileAligned n o a => intro _; unfold madeStep madeStepA; simp [opened?]
  | finish => intro _; unfold madeStep madeStepA; simp [opened?]
  | drop => intro _; unfold madeStep madeStepA; simp [opened?]

theorem madeFold_eq_A (ext : WExt) : ∀ (calls : List Call) (outs : List (Out (Option Nat))) (g : Ghost)
    (org : List Origin) (st : List Made × Option Made), Agree g org st → outs.length = calls.length →
    (ghostOf ext g calls outs).alive → madeFold st calls outs = madeFoldA st calls
  | [], outs, g, org, st, _, _, _ => by cases outs <;> rfl
  | c :: cs, [], g, org, st, _, hl, _ => by simp at hl
  | c :: cs, o :: os, g, org, st, h, hl, ha => by
    have ha1 := ghostOf_alive_step ext cs os _ ha
    show madeFold (madeStep st c o) cs os = madeFoldA (madeStepA st c) cs
    rw [← madeStep_eq_A ext h c o ha1]
    exact madeFold_eq_A ext cs os _ _ _ (agree_step ext h c o ha1) (by simpa using hl) ha

/-- a run whose ghost is alive at the end did not panic: there is one outcome per call -/
theorem alive_run_length (ext : WExt) : ∀ (calls : List Call) (s : WState) (fa : Option Nat) (d : Dev)
    (g : Ghost), (ghostOf ext g calls (runCalls ext calls s fa d).1).alive →
    (runCalls ext calls s fa d).1.length = calls.length
  | [], _, _, _, _, _ => rfl
  | c :: cs, s, fa, d, g, ha => by
    unfold runCalls at ha ⊢
    split at ha
    · simp only [List.length_cons]; rw [alive_run_length ext cs _ fa _ _ ha]
    · simp only [List.length_cons]; rw [alive_run_length ext cs _ fa _ _ ha]
    · simp only [List.length_cons]; rw [alive_run_length ext cs _ fa _ _ ha]
    · exfalso
      have : ghostOf ext g (c :: cs) [Out.panic ‹String›] = .lost := by
        show ghostOf ext (ghostStep ext g c (.panic _)) cs [] = .lost
        cases cs <;> rfl
      rw [this] at ha
      exact ha

/-- **On a run that finishes, the expected entries are a function of the calls alone.** -/
theorem madeOf_eq_A (ext : WExt) (calls : List Call)
    (ha : (C01.finalGhost ext calls).alive) :
    madeOf calls (runCalls ext calls WState.init none (Dev.ofBytes [])).1 = madeOfA calls := by
  unfold madeOf madeOfA
  rw [madeFold_eq_A ext calls _ (.idle [] [] []) [] ([], none) ⟨.nil, trivial⟩
    (alive_run_length ext calls _ _ _ _ ha) ha]

/-! ## 2. Inserting a raw copy into the expectation -/

theorem madeStepA_prefix (l : List Made) (cur : Option Made) (c : Call) :
    madeStepA (l, cur) c = (l ++ (madeStepA ([], cur) c).1, (madeStepA ([], cur) c).2) := by
  unfold madeStepA
  cases ho : opened? c with
  | some m => dsimp only; split <;> simp
  | none =>
    dsimp only
    cases c <;> cases cur <;> simp <;> split <;> simp

theorem madeFoldA_prefix : ∀ (calls : List Call) (l : List Made) (cur : Option Made),
    madeFoldA (l, cur) calls = (l ++ (madeFoldA ([], cur) calls).1, (madeFoldA ([], cur) calls).2)
  | [], l, cur => by simp [madeFoldA]
  | c :: cs, l, cur => by
    have e1 : madeFoldA (l, cur) (c :: cs) = madeFoldA (madeStepA (l, cur) c) cs := rfl
    have e2 : madeFoldA ([], cur) (c :: cs) = madeFoldA (madeStepA ([], cur) c) cs := rfl
    rw [e1, e2, madeStepA_prefix]
    generalize madeStepA ([], cur) c = p
    obtain ⟨X, cur1⟩ := p
    rw [madeFoldA_prefix cs (l ++ X) cur1, madeFoldA_prefix cs X cur1]
    simp [List.append_assoc]

theorem madeFoldA_append : ∀ (a b : List Call) (st : List Made × Option Made),
    madeFoldA st (a ++ b) = madeFoldA (madeFoldA st a) b
  | [], _, _ => rfl
  | _ :: cs, b, _ => madeFoldA_append cs b _

/-- "`post` is empty or begins with a start call with a legal name" -/
def StartsFresh (post : List Call) : Prop :=
  post = [] ∨ ∃ c rest m, post = c :: rest ∧ opened? c = some m ∧ m.name.length ≤ 65535

/-- the expected entry of the copy -/
def copyMade (src : FileData) (raw name : Bytes) : Made := ⟨name, rawOpts src, rawVals src, true, raw, true⟩

/-- **Inserting `raw_copy` inserts exactly one expected entry and changes no other.** -/
theorem madeOfA_insert (pre post : List Call) (src : FileData) (raw name : Bytes)
    (hn : name.length ≤ 65535) (hp : StartsFresh post) :
    ∃ k, k ≤ (madeOfA (pre ++ post)).length ∧
      madeOfA (pre ++ [.rawCopy src raw name] ++ post) =
        (madeOfA (pre ++ post)).take k ++ copyMade src raw name :: (madeOfA (pre ++ post)).drop k := by
  unfold madeOfA
  rw [madeFoldA_append, madeFoldA_append, madeFoldA_append]
  generalize madeFoldA ([], none) pre = st0
  obtain ⟨l, cur⟩ := st0
  have hcopy : madeFoldA (l, cur) [.rawCopy src raw name] = (l ++ cur.toList, some (copyMade src raw name)) := by
    show madeStepA (l, cur) (.rawCopy src raw name) = _
    unfold madeStepA
    simp only [opened?]
    rw [if_neg (by show ¬ name.length > 65535; omega)]
    rfl
  rw [hcopy]
  rcases hp with hp | ⟨c, rest, m, hp, ho, hm⟩
  · subst hp
    refine ⟨(l ++ cur.toList).length, by simp [madeFoldA], ?_⟩
    show (l ++ cur.toList) ++ [copyMade src raw name] =
      (l ++ cur.toList).take (l ++ cur.toList).length ++ copyMade src raw name :: (l ++ cur.toList).drop _
    rw [List.take_length, List.drop_length]
  · subst hp
    have h1 : madeFoldA (l, cur) (c :: rest) = madeFoldA (l ++ cur.toList, some m) rest := by
      show madeFoldA (madeStepA (l, cur) c) rest = _
      unfold madeStepA; rw [ho]; dsimp only; rw [if_neg (by omega)]
    have h2 : madeFoldA (l ++ cur.toList, some (copyMade src raw name)) (c :: rest) =
        madeFoldA (l ++ cur.toList ++ [copyMade src raw name], some m) rest := by
      show madeFoldA (madeStepA _ c) rest = _
      unfold madeStepA; rw [ho]; dsimp only; rw [if_neg (by omega)]; rfl
    rw [h1, h2, madeFoldA_prefix rest (l ++ cur.toList ++ [copyMade src raw name]),
      madeFoldA_prefix rest (l ++ cur.toList)]
    generalize l ++ cur.toList = X
    generalize madeFoldA ([], some m) rest = R
    refine ⟨X.length, by simp, ?_⟩
    show (X ++ [copyMade src raw name] ++ R.1) ++ R.2.toList =
      ((X ++ R.1) ++ R.2.toList).take X.length ++ copyMade src raw name :: ((X ++ R.1) ++ R.2.toList).drop X.length
    rw [List.append_assoc X R.1, List.take_left' rfl, List.drop_left' rfl]
    simp

/-! ## 3. The emitted entry is a function of the expected entry, up to its position -/

/-- Everything of an entry that does not depend on where it lies in the file. -/
structure Content where
  name : Bytes
  method : UInt16
  time : UInt16
  date : UInt16
  crc : UInt32
  usize : UInt64
  data : Bytes
  flags : UInt16
  madeBy : UInt16
  externalAttrs : UInt32
  internalAttrs : UInt16
  localExtra : Bytes
  centralExtra : Bytes
  comment : Bytes
  localZip64 : Bool
  hasDesc : Bool
  z64 : Bool × Bool × Bool
  deriving DecidableEq

def contentOf (e : Spec.Zip.Entry) : Content :=
  ⟨e.name, e.method, e.time, e.date, e.crc, e.usize, e.data, e.flags, e.madeBy, e.externalAttrs,
   e.internalAttrs, e.localExtra, e.centralExtra, e.comment, e.localZip64, e.hasDesc, e.z64⟩

/-- the content an expected entry is emitted with (`dp` = the DOS date of its timestamp) -/
def madeContent (ext : WExt) (m : Made) (dp : UInt16) : Content :=
  let f := mkRec m.name m.opts m.rawv 0 0
  ⟨m.name, m.opts.method.toU16, m.opts.time.timepart, dp,
   if m.isRaw then (m.rawv.getD (0, 0, 0)).1 else Spec.Crc32.crc32 m.bytes,
   if m.isRaw then (m.rawv.getD (0, 0, 0)).2.2 else UInt64.ofNat m.bytes.length,
   m.stored ext, flagOf f, (System.unix.discr <<< 8) ||| DEFAULT_VERSION.toUInt16,
   (m.opts.permissions.getD 0o100644) <<< 16, 0, [], [], [], m.opts.largeFile, false, (false, false, false)⟩

theorem entry_content (ext : WExt) {m : Made} {org : Origin} {e : Spec.Zip.Entry}
    (hm : MadeRel m org) (ho : OriginRel ext org e) :
    ∃ dp, m.opts.time.datepart = some dp ∧ contentOf e = madeContent ext m dp := by
  cases org with
  | old => exact hm.elim
  | written f p =>
    obtain ⟨h1, h2, hs, ds, hf⟩ := hm
    obtain ⟨dp, gap, hdp, he⟩ := ho
    subst he hf h2
    refine ⟨dp, hdp, ?_⟩
    unfold contentOf madeContent Made.stored
    simp only [h1, Bool.false_eq_true, if_false]
    rfl
  | raw f p =>
    obtain ⟨h1, h2, hs, ds, hf⟩ := hm
    obtain ⟨dp, gap, hdp, he⟩ := ho
    subst he hf h2
    refine ⟨dp, hdp, ?_⟩
    unfold contentOf madeContent Made.stored
    simp only [h1, if_true]
    rfl

def madeContentD (ext : WExt) (m : Made) : Content := madeContent ext m (m.opts.time.datepart.getD 0)

theorem Forall2.map_eq {α β γ} {R : α → β → Prop} {f : α → γ} {g : β → γ} {l1 : List α} {l2 : List β}
    (h : Forall2 R l1 l2) (hfg : ∀ a b, R a b → f a = g b) : l1.map f = l2.map g := by
  induction h with
  | nil => rfl
  | cons hab _ ih => simp [hfg _ _ hab, ih]

/-- **The contents of the emitted entries are the contents of the expected entries**, whatever the
positions. -/
theorem emitted_contents (ext : WExt) (calls : List Call) (es : List Spec.Zip.Entry) (gap c : Bytes)
    (hg : (C01.finalGhost ext calls).close ext = some (es, gap, c)) :
    es.map contentOf = (madeOfA calls).map (madeContentD ext) := by
  have hmade := origins_are_made ext calls (runCalls ext calls WState.init none (Dev.ofBytes [])).1
    (alive_of_close hg)
  rw [madeOf_eq_A ext calls (alive_of_close hg)] at hmade
  have horg : Forall2 (OriginRel ext) (C01.finalOrigins ext calls) es :=
    traced_final (traced_run ext calls _ _ _ (traced_init ext [] [])) hg
  -- compose pointwise
  have key : ∀ (ms : List Made) (os : List Origin) (es : List Spec.Zip.Entry),
      Forall2 MadeRel ms os → Forall2 (OriginRel ext) os es →
      es.map contentOf = ms.map (madeContentD ext) := by
    intro ms os es h1
    induction h1 generalizing es with
    | nil => intro h2; cases h2; rfl
    | cons hab _ ih =>
      intro h2
      cases h2 with
      | cons hbc hrest =>
        obtain ⟨dp, hdp, hc⟩ := entry_content ext hab hbc
        simp only [List.map_cons, ih _ hrest, hc, madeContentD, hdp, Option.getD_some]
  exact key _ _ _ hmade horg

/-! ## 4. Neighbours of a raw copy are unaffected -/

/-- **`raw_copy_neighbours_unaffected`** — both scripts finish (their ghosts close; by
`C01.writer_emits_layout` the sinks are then the layouts of `esA` resp. `esB`).  Then `esA` is `esB` with
one entry inserted — the copy, whose content is the source's values and `raw` — and every other entry has
the SAME content in both archives: name, method, time, date, CRC, uncompressed size, stored bytes, flags,
made-by, attributes, extra data, local ZIP64 choice. -/
theorem raw_copy_neighbours_unaffected (ext : WExt) (pre post : List Call) (src : FileData)
    (raw name : Bytes) (hn : name.length ≤ 65535) (hp : StartsFresh post)
    (esA esB : List Spec.Zip.Entry) (gapA gapB cA cB : Bytes)
    (hA : (C01.finalGhost ext (pre ++ [.rawCopy src raw name] ++ post)).close ext = some (esA, gapA, cA))
    (hB : (C01.finalGhost ext (pre ++ post)).close ext = some (esB, gapB, cB)) :
    ∃ k, k ≤ esB.length ∧ esA.length = esB.length + 1 ∧
      esA.map contentOf =
        (esB.map contentOf).take k ++ madeContentD ext (copyMade src raw name) :: (esB.map contentOf).drop k := by
  obtain ⟨k, hk, hins⟩ := madeOfA_insert pre post src raw name hn hp
  have eA := emitted_contents ext _ esA gapA cA hA
  have eB := emitted_contents ext _ esB gapB cB hB
  have hlB : esB.length = (madeOfA (pre ++ post)).length := by
    have := congrArg List.length eB; simpa using this
  refine ⟨k, by omega, ?_, ?_⟩
  · have := congrArg List.length eA
    rw [hins] at this
    simp only [List.length_map, List.length_append, List.length_cons, List.length_take, List.length_drop] at this
    omega
  · rw [eA, eB, hins]
    simp only [List.map_append, List.map_cons, List.map_take, List.map_drop]

/-- what the copy's content is -/
theorem copy_content (ext : WExt) (src : FileData) (raw name : Bytes) :
    let c := madeContentD ext (copyMade src raw name)
    c.name = name ∧ c.method = src.method.toU16 ∧ c.crc = src.crc32 ∧ c.usize = src.uncompressedSize ∧
    c.data = raw ∧ c.time = src.time.timepart ∧
    c.externalAttrs = (src.unixMode.getD 0o100644) <<< 16 := ⟨rfl, rfl, rfl, rfl, rfl, rfl, rfl⟩

/-- **The side condition is necessary**: with a `write` directly behind the copy, that write goes to the
copy's dead bytes in one script and into the previous entry in the other. -/
example :
    let pre : List Call := [.startFile [0x61] (C12.opts .stored none), .write [1]]
    let post : List Call := [.write [2]]
    (madeOfA (pre ++ [.rawCopy C01.srcRec [0xA, 0xB, 0xC] [0x72]] ++ post)).map (·.bytes) = [[1], [0xA, 0xB, 0xC]] ∧
    (madeOfA (pre ++ post)).map (·.bytes) = [[1, 2]] := by decide +kernel

/-- the theorem's hypotheses on concrete scripts (both ghosts close, `post` begins with a start call), and
its conclusion evaluated: the archive with the copy is the other one with the copy's entry inserted at
index 1 -/
def preX : List Call := [.startFile [0x61] (C12.opts .stored none), .write [1, 2]]
def postX : List Call := [.addSymlink [0x6c] [0x61] (C12.opts .stored none), .write [8]]

example : StartsFresh postX := Or.inr ⟨_, _, _, rfl, rfl, by decide⟩

example :
    (match (C01.finalGhost C01.wext1 (preX ++ [.rawCopy C01.srcRec [0xA, 0xB, 0xC] [0x72]] ++ postX)).close C01.wext1,
       (C01.finalGhost C01.wext1 (preX ++ postX)).close C01.wext1 with
     | some (esA, _, _), some (esB, _, _) =>
       esA.map contentOf == (esB.map contentOf).take 1 ++
         madeContentD C01.wext1 (copyMade C01.srcRec [0xA, 0xB, 0xC] [0x72]) :: (esB.map contentOf).drop 1 &&
       esA.map (·.gapBefore) == [[], [], []] && esA.length == 3 &&
       -- positions DO differ: the symlink's header moves by the length of the copy
       (localOffsets esA 0 != localOffsets esB 0 ++ [0])
     | _, _ => false) = true := by decide +kernel

/-! ## 5. The copy decodes to the same content -/

/-- the record `raw_copy_file` pushes for the source entry `eS` of an archive (whatever the offsets) -/
def IsCopyOf (f : FileData) (eS : Spec.Zip.Entry) : Prop :=
  ∃ name offS preS chs hs ds,
    f = mkRec name (rawOpts (viewEntry eS offS preS chs)) (rawVals (viewEntry eS offS preS chs)) hs ds

/-- what the destination entry of a copy shares with its source entry -/
theorem copy_entry_values (ext : WExt) (eS e : Spec.Zip.Entry) (f : FileData) (hf : IsCopyOf f eS)
    (hrel : OriginRel ext (.raw f eS.data) e) :
    e.method = eS.method ∧ e.crc = eS.crc ∧ e.usize = eS.usize ∧ e.data = eS.data ∧ e.time = eS.time ∧
    e.date = eS.date ∧ (e.flagsOut &&& 1 == 1) = false := by
  obtain ⟨name, offS, preS, chs, hs, ds, hf⟩ := hf
  obtain ⟨dp, gap, hdp, he⟩ := hrel
  subst he hf
  have hd : (DateTime.fromMsdos eS.date eS.time).datepart = some dp := hdp
  rw [(msdos_roundtrip eS.date eS.time).1] at hd
  cases hd
  refine ⟨method_roundtrip eS.method, rfl, rfl, rfl, (msdos_roundtrip eS.date eS.time).2, rfl, ?_⟩
  show (flagOf _ &&& 1 == 1) = false
  exact flagOf_plain _ rfl

/-- **`raw_copy_decodes_same`** — entry `j` of the source archive (`lS`), unencrypted, copied raw into a
writer whose finished archive is `layoutOf es gap c []` with the copy at index `i`.  For every method the
reader can decode, `by_index` on the copy and on the source return the SAME result: the decoder applied
to the same stored bytes, passed through the CRC check against the same CRC — whatever `Ext.decode` is. -/
theorem raw_copy_decodes_same (wext : WExt) (rext : Ext) (lS : Layout) (hFS : lS.Fits) (j : Nat)
    (eS : Spec.Zip.Entry) (heS : lS.entries[j]? = some eS)
    (hencS : (eS.flagsOut &&& 1 == 1) = false) (hdec : (Method.fromU16 eS.method).decodable = true)
    (es : List Spec.Zip.Entry) (gap c : Bytes) (hFD : (layoutOf es gap c []).Fits)
    (i : Nat) (e : Spec.Zip.Entry) (he : es[i]? = some e) (f : FileData) (hf : IsCopyOf f eS)
    (hrel : OriginRel wext (.raw f eS.data) e) (pwS pwD : Option Bytes)
    (dS dD : Dev) (hdS : dS.buf = build lS) (hdD : dD.buf = build (layoutOf es gap c [])) :
    ∃ (R : Out Bytes) (posS posD : Nat) (dS' dD' : Dev),
      R = (rext.decode (Method.fromU16 eS.method) eS.data >>= fun x => crcCheck false eS.crc x) ∧
      (byIndexRead rext (archiveOf lS) j pwS).runPure dS = (.ok (.ok (posS, R)), dS') ∧
      (byIndexRead rext (archiveOf (layoutOf es gap c [])) i pwD).runPure dD = (.ok (.ok (posD, R)), dD') := by
  obtain ⟨k1, k2, _, k4, _, _, k7⟩ := copy_entry_values wext eS e f hf hrel
  obtain ⟨offS, dS', _, hS, _⟩ := C03.reader_entry_read rext lS hFS j eS heS pwS hencS hdec dS hdS
  obtain ⟨offD, dD', _, hD, _⟩ := C03.reader_entry_read rext (layoutOf es gap c []) hFD i e he pwD k7
    (by rw [k1]; exact hdec) dD hdD
  rw [k1, k2, k4] at hD
  exact ⟨_, _, _, dS', dD', rfl, hS, hD⟩

/-- **… and for a method the reader cannot decode** both `by_index` calls fail with `UnsupportedArchive`,
while `by_index_raw` returns identical bytes on both sides. -/
theorem raw_copy_unsupported_same (wext : WExt) (rext : Ext) (lS : Layout) (hFS : lS.Fits) (j : Nat)
    (eS : Spec.Zip.Entry) (heS : lS.entries[j]? = some eS)
    (hencS : (eS.flagsOut &&& 1 == 1) = false) (v : UInt16) (hm : Method.fromU16 eS.method = .unsupported v)
    (es : List Spec.Zip.Entry) (gap c : Bytes) (hFD : (layoutOf es gap c []).Fits)
    (i : Nat) (e : Spec.Zip.Entry) (he : es[i]? = some e) (f : FileData) (hf : IsCopyOf f eS)
    (hrel : OriginRel wext (.raw f eS.data) e) (pwS pwD : Option Bytes)
    (dS dD : Dev) (hdS : dS.buf = build lS) (hdD : dD.buf = build (layoutOf es gap c [])) :
    (∃ dS' dD', (byIndexRead rext (archiveOf lS) j pwS).runPure dS = (.err .unsupportedArchive, dS') ∧
      (byIndexRead rext (archiveOf (layoutOf es gap c [])) i pwD).runPure dD = (.err .unsupportedArchive, dD')) ∧
    (∃ pS pD dS' dD', (byIndexRaw (archiveOf lS) j).runPure dS = (.ok (pS, eS.data), dS') ∧
      (byIndexRaw (archiveOf (layoutOf es gap c [])) i).runPure dD = (.ok (pD, eS.data), dD')) := by
  obtain ⟨k1, _, _, k4, _, _, k7⟩ := copy_entry_values wext eS e f hf hrel
  obtain ⟨⟨dS1, hS1, _⟩, ⟨pS, dS2, hS2⟩⟩ := C03.unsupported_is_per_entry rext lS hFS j eS heS pwS
    (by rw [hencS]; simp) v hm dS hdS
  obtain ⟨⟨dD1, hD1, _⟩, ⟨pD, dD2, hD2⟩⟩ := C03.unsupported_is_per_entry rext (layoutOf es gap c []) hFD i e he pwD
    (by rw [k7]; simp) v (by rw [k1]; exact hm) dD hdD
  rw [k4] at hD2
  exact ⟨⟨dS1, dD1, hS1, hD1⟩, ⟨pS, pD, dS2, dD2, hS2, hD2⟩⟩

/-! ## 6. Finding: a raw copy of an ENCRYPTED entry loses the encryption flag -/

/-- `raw_copy_file` builds its options from `FileOptions::default()`: `encrypt_with` is `None`, so
`start_entry` pushes a record with `encrypted = false` whatever the source says.  The hypothesis
"unencrypted source" of `raw_copy_decodes_same` is therefore necessary: the copy of a ZipCrypto entry holds
the ciphertext (12-byte header included) but its general-purpose bit 0 is clear.  On the source `by_index`
without a password answers `PasswordRequired`; on the copy it "succeeds" and hands the ciphertext to the
decoder, and the CRC check (against the plaintext's CRC) then fails. -/
theorem copy_never_encrypted (src : FileData) (name : Bytes) (hs : Nat) (ds : UInt64) :
    (mkRec name (rawOpts src) (rawVals src) hs ds).encrypted = false ∧
    (flagOf (mkRec name (rawOpts src) (rawVals src) hs ds) &&& 1 == 1) = false :=
  ⟨rfl, flagOf_plain _ rfl⟩

/-- an encrypted variant of C01's source record -/
def srcEnc : FileData := { C01.srcRec with encrypted := true, method := .stored, compressedSize := 3 }

/-- **Witness** (model run): raw-copy the encrypted `srcEnc`, finish, re-open: the entry is reported as NOT
encrypted, with the source's CRC; reading it without a password does not answer `PasswordRequired` (as it
does for every entry flagged encrypted) but hands the stored bytes — for a real source: the ciphertext —
to the decoder and the CRC check, which rejects them (in this toy source the three "stored bytes" are not
a ciphertext of anything; what matters is the path taken: decode + CRC instead of `PasswordRequired`). -/
theorem finding_raw_copy_drops_encryption :
    srcEnc.encrypted = true ∧
    (match C01.finishDev C01.wext1 [.rawCopy srcEnc [0xA, 0xB, 0xC] [0x72]] with
     | some d' =>
       (match openArchive.runPure (Dev.ofBytes d'.buf) with
        | (.ok a, d1) =>
          a.files.map (·.encrypted) == [false] && a.files.map (·.crc32) == [srcEnc.crc32] &&
          (match ((byIndexRead C01.rext1 a 0 none).runPure d1).1 with
           | .ok (.ok (_, .err (.io .other))) => true
           | _ => false)
        | _ => false)
     | none => false) = true := by decide +kernel

end ZipVerif.Props.C14Archive
