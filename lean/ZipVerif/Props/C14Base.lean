import ZipVerif.Props.C12
/-
C14 — Raw copy transfers an entry bit-exactly without recompression.

First layer (this file, until `Lemmas/WL*.lean` / `Lemmas/AppendClosed.lean` are merged), on the writer
model and a fault-free sink:
* `raw_copy_record_keeps_source_values`: after ANY further calls of the fragment and a successful
  `finish()`, the central-directory record of a raw copy carries its source's CRC-32, compressed and
  uncompressed sizes and method (nothing is recomputed from the bytes that flowed through the writer),
  while ordinary entries carry the CRC-32 / length of their own bytes — neighbours are unaffected;
The byte-level statement (the sink holds the source's raw bytes verbatim behind a header pre-filled from
the source's metadata; the stored path, no encoder) is the subject of `Lemmas/WL*.lean`.
-/

namespace ZipVerif.Props.C14Base
open ZipVerif ZipVerif.Model

/-- Position `i` of the log is a raw copy of `src`. -/
def IsRawCopyOf (e : Entry) (src : FileData) : Prop := e.raw = some src

theorem forall2_get {α β} {R : α → β → Prop} {l1 : List α} {l2 : List β} (h : Forall2 R l1 l2) :
    ∀ (i : Nat) (a : α), l1[i]? = some a → ∃ b, l2[i]? = some b ∧ R a b := by
  induction h with
  | nil => intro i a h; simp at h
  | cons hab _ ih =>
    intro i a h
    cases i with
    | zero => simp at h; subst h; exact ⟨_, rfl, hab⟩
    | succ n => simp at h; simpa using ih n a h

/-- **The record of a raw copy carries the source's values; every other record its own.**  For every
call sequence of the fragment (raw copies interleaved with ordinary entries in any order, misuse
included) after which `finish()` succeeds: entry `i` of the directory written is — for a raw copy —
the source's CRC-32, sizes and method under the requested name, and — for an ordinary entry — the
CRC-32 and length of the bytes written to it. -/
theorem raw_copy_record_keeps_source_values (ext : WExt) (calls : List C12.Call)
    (hc : ∀ c ∈ calls, c.InFragment) (d : Dev) (v : Option Nat) (s' : WState) (d' : Dev)
    (hfin : C12.step ext .finish (C12.runCalls ext calls WState.init none d).2.1 none
      (C12.runCalls ext calls WState.init none d).2.2 = (.ok (.ok v, s'), d'))
    (i : Nat) (e : Entry)
    (he : (C12.logOf [] calls (C12.runCalls ext calls WState.init none d).1)[i]? = some e) :
    ∃ f, s'.files[i]? = some f ∧ f.fileName = e.name ∧
      match e.raw with
      | some src => f.crc32 = src.crc32 ∧ f.compressedSize = src.compressedSize ∧
          f.uncompressedSize = src.uncompressedSize ∧ f.method = src.method
      | none => f.crc32 = Spec.Crc32.crc32 e.data ∧ f.uncompressedSize = UInt64.ofNat e.data.length := by
  have h := C12.files_track_calls_partial ext calls hc d v s' d' hfin
  obtain ⟨f, hf, hcl⟩ := forall2_get h i e he
  refine ⟨f, hf, hcl.1, ?_⟩
  have h2 := hcl.2
  cases hr : e.raw with
  | none => rw [hr] at h2; exact h2
  | some src => rw [hr] at h2; exact h2

end ZipVerif.Props.C14Base
