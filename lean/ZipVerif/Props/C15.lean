import ZipVerif.Lemmas.ZipCrypto
import ZipVerif.Tie.ZipCrypto
/-
C15 — ZipCrypto entries: right password decrypts, none/wrong is refused.
Property theorems only; helper lemmas are in `Lemmas/ZipCrypto.lean`, `Spec/Crc32.lean`, `Spec/Pkware.lean`.

Not claimed: "the plaintext does not appear in the file" (not a theorem about a stream cipher; the
harness reports it as an observation), and anything about the compressors (the payload here is the
already-compressed byte string the writer buffers; for Stored it is the content itself).
-/

namespace ZipVerif.Props.C15
open ZipVerif ZipVerif.Spec ZipVerif.Model.ZipCrypto

/-! ### The table and the cipher are the standard ones -/

/-- The crate's literal `CRCTABLE` (as regenerated from the source on this run) holds, at every `u8`
index, the CRC-32 remainder computed bit by bit from the polynomial 0xEDB88320; it has 256 entries,
so the `u8` index never goes out of bounds. -/
theorem crctable_eq_spec (i : UInt8) :
    Gen.CRCTABLE.size = 256 ∧ Gen.CRCTABLE[i.toNat]? = some (Crc32.tableEntry i) :=
  ⟨Tie.ZipCrypto.tie_crctable_size, Tie.ZipCrypto.tie_crctable i⟩

/-- The table-driven byte update the cipher uses is the bit-serial CRC-32 division. -/
theorem crc_update_eq_bitwise (c : UInt32) (b : UInt8) : crc32 c b = Crc32.updateBitwise c b := by
  rw [crc32_eq_spec]; exact Crc32.updateByte_eq_bitwise c b

/-- APPNOTE computes the key-stream byte from `temp = Key(2) | 2`, the crate from `| 3`:
the products `temp * (temp ^ 1)` are the same number. -/
theorem or2_or3_same_product (n : Nat) :
    (n ||| 2) * ((n ||| 2) ^^^ 1) = (n ||| 3) * ((n ||| 3) ^^^ 1) :=
  or2_or3_product n

/-- **The crate's cipher is the APPNOTE 6.1 cipher**: same initial keys, same `update_keys`, same
`decrypt_byte` (including `| 2` vs `| 3` and the 16-bit wrapping product), hence the same key state
after any password and the same bulk encryption / decryption. -/
theorem keys_eq_spec (k : Keys) (b : UInt8) (pw bs : Bytes) :
    toSpec Keys.new = Pkware.initKeys ∧
    toSpec (k.update b) = Pkware.updateKeys (toSpec k) b ∧
    k.streamByte = Pkware.decryptByte (toSpec k) ∧
    toSpec (derive pw) = Pkware.keysFor pw ∧
    (encryptAll k bs).1 = Pkware.encrypt (toSpec k) bs ∧
    (decryptAll k bs).1 = Pkware.decrypt (toSpec k) bs :=
  ⟨new_eq_spec, update_eq_spec k b, streamByte_eq_spec k, derive_eq_spec pw, encryptAll_eq_spec k bs,
    decryptAll_eq_spec k bs⟩

/-! ### Round trip of the cipher -/

/-- **Decryption inverts encryption from every key state, for every byte string**, and both sides
end in the same key state. -/
theorem decrypt_encrypt (k : Keys) (p : Bytes) :
    decryptAll k (encryptAll k p).1 = (p, (encryptAll k p).2) :=
  decryptAll_encryptAll k p

/-- … and conversely (so encryption under a key state is a bijection on byte strings). -/
theorem encrypt_decrypt (k : Keys) (c : Bytes) :
    encryptAll k (decryptAll k c).1 = (c, (decryptAll k c).2) :=
  encryptAll_decryptAll k c

/-- Ciphertext has the length of the plaintext (12 header bytes + payload for an entry). -/
theorem encrypt_length (k : Keys) (p : Bytes) : (encryptAll k p).1.length = p.length :=
  encryptAll_length k p

/-! ### Writer -/

/-- What the writer has buffered after `start_entry` and any sequence of `write` calls. -/
theorem writer_buffer (pw : Bytes) (writes : List Bytes) :
    writes.foldl Writer.write (Writer.start pw) =
      ⟨List.replicate 12 0 ++ writes.flatten, derive pw⟩ := by
  have gen : ∀ (w : Writer), writes.foldl Writer.write w = ⟨w.buffer ++ writes.flatten, w.keys⟩ := by
    induction writes with
    | nil => intro w; simp
    | cons x xs ih => intro w; rw [List.foldl_cons, ih]; simp [Writer.write]
  rw [gen]; rfl

theorem writerHeader_ok (crc : UInt32) : Pkware.HeaderOk (writerHeader crc) (Pkware.checkByte false crc 0) :=
  ⟨rfl, rfl⟩

/-- **The bytes stored for an encrypted entry are the APPNOTE encryption, under the password's keys,
of (11 zero bytes ++ [crc >>> 24] ++ payload)** — for every password, every sequence of writes and
every CRC; in particular `finish` does not panic. This is the formal content of "an independent
PKWARE implementation decrypts it with that password". -/
theorem writer_emits_pkware (pw : Bytes) (writes : List Bytes) (crc : UInt32) :
    writeEntry pw writes crc = .ok (Pkware.encryptEntry pw (writerHeader crc) writes.flatten) := by
  unfold writeEntry Writer.finish
  rw [writer_buffer]
  have hl : 11 < (List.replicate 12 (0 : UInt8) ++ writes.flatten).length := by
    rw [List.length_append, List.length_replicate]; omega
  rw [if_pos hl, encryptAll_eq_spec, derive_eq_spec, shr24_toUInt8]
  rfl

/-- `buffer[11]` in `finish` panics exactly on a buffer shorter than 12 bytes … -/
theorem finish_panics_iff (w : Writer) (crc : UInt32) :
    (w.finish crc).isPanic = true ↔ w.buffer.length < 12 := by
  unfold Writer.finish
  by_cases h : 11 < w.buffer.length
  · rw [if_pos h]; simp [Out.isPanic]; omega
  · rw [if_neg h]; simp [Out.isPanic]; omega

/-- … which no writer created by `start_entry` can have, whatever is written afterwards. -/
theorem writer_no_panic (pw : Bytes) (writes : List Bytes) (crc : UInt32) :
    (writeEntry pw writes crc).isPanic = false := by
  rw [writer_emits_pkware]; rfl

/-- The panic branch is real in the model (a `ZipCryptoWriter` built by hand with an empty buffer). -/
example : ((Writer.mk [] Keys.new).finish 0).isPanic = true := by decide

/-! ### Reading with the right password -/

/-- Any entry that follows APPNOTE 6.1 — stored bytes = encryption under the password's keys of a
12-byte header whose last byte is the validator's byte, followed by the payload — validates and
decrypts to exactly the payload.  Covers entries of other producers, with either check-byte rule. -/
theorem pkware_entry_decrypts (pw hdr payload : Bytes) (v : Validator)
    (h : Pkware.HeaderOk hdr v.byte) :
    decrypt pw v (Pkware.encryptEntry pw hdr payload) = .ok (some payload) := by
  obtain ⟨hl, hc⟩ := h
  unfold decrypt Reader.validate Reader.new Pkware.encryptEntry
  rw [← derive_eq_spec, ← encryptAll_eq_spec, encryptAll_append]
  simp only []
  rw [rdN_append' 12 _ _ (by rw [encryptAll_length, hl])]
  simp only [decryptAll_encryptAll, hc, if_true, Reader.readAll]

/-- **Right password**: what the writer stored validates against the CRC validator and decrypts to
exactly the bytes that were written, for every password, payload, write pattern and CRC value. -/
theorem read_right_password (pw : Bytes) (writes : List Bytes) (crc : UInt32) :
    ∃ stored, writeEntry pw writes crc = .ok stored ∧
      decrypt pw (.pkzipCrc32 crc) stored = .ok (some writes.flatten) := by
  refine ⟨_, writer_emits_pkware pw writes crc, ?_⟩
  apply pkware_entry_decrypts
  have hb : (Validator.pkzipCrc32 crc).byte = Pkware.checkByte false crc 0 := shr24_toUInt8 crc
  rw [hb]
  exact writerHeader_ok crc

/-- The same through `by_index_decrypt`: an entry the writer produced (flag bit 0 set, no data
descriptor) opens with its password as a ZipCrypto reader whose full read is the payload. -/
theorem open_right_password (pw : Bytes) (writes : List Bytes) (crc : UInt32) (t : UInt16) :
    ∃ stored r, writeEntry pw writes crc = .ok stored ∧
      openEntry (some pw) true false crc t stored = .ok (.zipCrypto r) ∧
      r.readAll = writes.flatten := by
  obtain ⟨stored, hw, hd⟩ := read_right_password pw writes crc
  refine ⟨stored, ?_⟩
  unfold decrypt at hd
  unfold openEntry openDecision makeCryptoReader chooseValidator
  simp only [Bool.false_eq_true, if_false]
  cases hv : (Reader.new stored pw).validate (.pkzipCrc32 crc) with
  | ok o =>
    rw [hv] at hd
    cases o with
    | none => cases hd
    | some r =>
      refine ⟨r, hw, rfl, ?_⟩
      simp only [Out.ok.injEq, Option.some.injEq] at hd
      exact hd
  | err e => rw [hv] at hd; cases hd
  | panic s => rw [hv] at hd; cases hd

/-- **Entries of other producers, both check-byte rules.** Stored bytes that follow APPNOTE 6.1 with
the PKZIP rule (no data descriptor: last header byte = high byte of the CRC) or the Info-ZIP rule
(bit 3 set: high byte of the DOS modification time) open with the password, and the reader
delivers exactly the payload; for a Stored entry whose declared CRC is the payload's, the complete
read returns the payload. -/
theorem foreign_entry_decrypts (pw hdr payload : Bytes) (dd : Bool) (crc : UInt32) (t : UInt16)
    (h : Pkware.HeaderOk hdr (Pkware.checkByte dd crc t)) :
    (∃ r, openEntry (some pw) true dd crc t (Pkware.encryptEntry pw hdr payload) = .ok (.zipCrypto r) ∧
      r.readAll = payload) ∧
    (Crc32.crc32 payload = crc →
      readStoredEntry (some pw) true dd crc t (Pkware.encryptEntry pw hdr payload) = .ok (some payload)) := by
  have hb : (chooseValidator dd crc t).byte = Pkware.checkByte dd crc t := by
    cases dd
    · exact shr24_toUInt8 crc
    · exact shr8_toUInt8 t
  have hd := pkware_entry_decrypts pw hdr payload (chooseValidator dd crc t) (by rw [hb]; exact h)
  unfold decrypt at hd
  have ho : ∃ r, openEntry (some pw) true dd crc t (Pkware.encryptEntry pw hdr payload) =
      .ok (.zipCrypto r) ∧ r.readAll = payload := by
    unfold openEntry openDecision makeCryptoReader
    simp only []
    cases hv : (Reader.new (Pkware.encryptEntry pw hdr payload) pw).validate (chooseValidator dd crc t) with
    | ok o =>
      rw [hv] at hd
      cases o with
      | none => cases hd
      | some r =>
        refine ⟨r, rfl, ?_⟩
        simp only [Out.ok.injEq, Option.some.injEq] at hd
        exact hd
    | err e => rw [hv] at hd; cases hd
    | panic s => rw [hv] at hd; cases hd
  refine ⟨ho, ?_⟩
  intro hc
  obtain ⟨r, h1, h2⟩ := ho
  unfold readStoredEntry
  rw [h1]
  simp only []
  unfold crcCheckedRead
  rw [h2, if_pos hc]
  rfl

/-- **Reads may be split arbitrarily** (current tree: `read` decrypts exactly the bytes the inner
reader returned): any sequence of inner read sizes that covers the input yields the same plaintext
as one read of everything. -/
theorem read_chunking_irrelevant (r : Reader) (sizes : List Nat) (h : r.file.length ≤ sizes.sum) :
    r.readWith sizes = r.readAll := by
  induction sizes generalizing r with
  | nil =>
    have : r.file = [] := List.eq_nil_of_length_eq_zero (by simpa using h)
    unfold Reader.readWith Reader.readAll; rw [this]; rfl
  | cons n ns ih =>
    unfold Reader.readWith Reader.read
    simp only []
    rw [ih _ (by simp only [List.length_drop, List.sum_cons] at h ⊢; omega)]
    unfold Reader.readAll
    simp only []
    conv => rhs; rw [← List.take_append_drop n r.file, decryptAll_append]

/-! ### The open-time decisions of read.rs -/

/-- **No password on an encrypted entry**: `by_index_decrypt`-less opening fails with the
password-required error, whatever the entry contains (also through `by_index` / `by_name`). -/
theorem no_password_refused (dd : Bool) (crc : UInt32) (t : UInt16) (raw : Bytes) :
    openEntry none true dd crc t raw = .err .passwordRequired ∧
    byIndex true dd crc t raw = .err .passwordRequired := ⟨rfl, rfl⟩

/-- **A password given for an entry that is not encrypted is discarded**: the entry opens as
plaintext, exactly as without a password. -/
theorem password_ignored_when_not_encrypted (pw : Bytes) (dd : Bool) (crc : UInt32) (t : UInt16)
    (raw : Bytes) :
    openEntry (some pw) false dd crc t raw = .ok (.plaintext raw) ∧
    openEntry (some pw) false dd crc t raw = openEntry none false dd crc t raw := ⟨rfl, rfl⟩

/-- **Validator choice** is the APPNOTE / Info-ZIP rule: with the data-descriptor flag (bit 3) the
check byte is the high byte of the DOS time, otherwise the high byte of the CRC. -/
theorem validator_choice (dd : Bool) (crc : UInt32) (t : UInt16) :
    (chooseValidator dd crc t).byte = Pkware.checkByte dd crc t ∧
    chooseValidator true crc t = .infoZipMsdosTime t ∧
    chooseValidator false crc t = .pkzipCrc32 crc := by
  refine ⟨?_, rfl, rfl⟩
  cases dd
  · exact shr24_toUInt8 crc
  · exact shr8_toUInt8 t

/-- **All 256 check-byte outcomes**: for every key state, every 11 leading header bytes and every
value `c` of the 12th plaintext header byte, `validate` accepts iff `c` is the validator's byte
(and then hands over the rest of the input with the keys advanced over the header); otherwise it
reports a wrong password. Never an error or a panic once 12 bytes are there. -/
theorem check_byte_all (k : Keys) (hdr11 rest : Bytes) (c : UInt8) (v : Validator)
    (h : hdr11.length = 11) :
    Reader.validate ⟨(encryptAll k (hdr11 ++ [c])).1 ++ rest, k⟩ v =
      if c = v.byte then .ok (some ⟨rest, (encryptAll k (hdr11 ++ [c])).2⟩) else .ok none := by
  unfold Reader.validate
  simp only []
  rw [rdN_append' 12 _ _ (by rw [encryptAll_length, List.length_append, h]; rfl)]
  simp only [decryptAll_encryptAll]
  have e : (hdr11 ++ [c])[11]? = some c := by
    rw [List.getElem?_append_right (by omega), h]; rfl
  rw [e]
  by_cases hc : c = v.byte
  · rw [if_pos hc, if_pos (by rw [hc])]
  · rw [if_neg hc, if_neg (by intro x; exact hc (Option.some.inj x))]

/-- Every check byte is reachable by a chosen CRC (resp. DOS time), so the 256 outcomes above are
all realised by entries. -/
theorem check_byte_reachable (c : UInt8) :
    (Validator.pkzipCrc32 (c.toUInt32 <<< 24)).byte = c ∧
    (Validator.infoZipMsdosTime (c.toUInt16 <<< 8)).byte = c := by
  have H : ∀ n, n < 256 →
      (Validator.pkzipCrc32 ((UInt8.ofNat n).toUInt32 <<< 24)).byte = UInt8.ofNat n ∧
      (Validator.infoZipMsdosTime ((UInt8.ofNat n).toUInt16 <<< 8)).byte = UInt8.ofNat n := by
    decide +kernel
  have := H c.toNat c.toNat_lt
  rwa [UInt8.ofNat_toNat] at this

/-- A short entry (fewer than 12 stored bytes) is an I/O error (`UnexpectedEof`), not a panic. -/
theorem short_header_is_eof (r : Reader) (v : Validator) (h : r.file.length < 12) :
    r.validate v = .err (.io .unexpectedEof) := by
  unfold Reader.validate rdN
  rw [if_neg (by omega)]

/-! ### Wrong password -/

/-- The wrong-password clause of the property **as written** ("a different password is either rejected
up front or ends in a read error, never a completed read of other bytes"), over the model: for an
entry the writer produced from `data` under `pw`, reading it under any other password never completes
with bytes other than `data`. -/
def WrongPasswordClause : Prop :=
  ∀ (pw wrong data stored d : Bytes), wrong ≠ pw →
    writeEntry pw [data] (Crc32.crc32 data) = .ok stored →
    readStoredEntry (some wrong) true false (Crc32.crc32 data) 0 stored = .ok (some d) → d = data

/-- **The literal clause is FALSE (format-inherent; known finding K-H zipcrypto-crc-collision).**
ZipCrypto has no authentication besides the 1-byte header check and the CRC-32 of the plaintext: a
wrong password that passes the check byte (1 in 256) and whose decryption happens to have the declared
CRC-32 (1 in 2^32) completes with other bytes.  Kernel-checked witness (replayed on the crate by
`corpus/zc.ops`): password "correct horse", content 93 ce 56 00 00 08 42 1c (CRC-32 0x5a854337); the
password "wrong-205" passes the check and decrypts the entry to 3d f7 5f b8 de 38 34 8e, whose CRC-32 is
0x5a854337 as well. No repair exists inside the format; what holds instead is
`wrong_password_never_completes_other_partial`. -/
theorem wrong_password_clause_false : ¬ WrongPasswordClause := by
  intro h
  have w : ∃ stored,
      writeEntry [0x63, 0x6f, 0x72, 0x72, 0x65, 0x63, 0x74, 0x20, 0x68, 0x6f, 0x72, 0x73, 0x65]
        [[0x93, 0xce, 0x56, 0x00, 0x00, 0x08, 0x42, 0x1c]]
        (Crc32.crc32 [0x93, 0xce, 0x56, 0x00, 0x00, 0x08, 0x42, 0x1c]) = .ok stored ∧
      readStoredEntry (some [0x77, 0x72, 0x6f, 0x6e, 0x67, 0x2d, 0x32, 0x30, 0x35]) true false
        (Crc32.crc32 [0x93, 0xce, 0x56, 0x00, 0x00, 0x08, 0x42, 0x1c]) 0 stored =
        .ok (some [0x3d, 0xf7, 0x5f, 0xb8, 0xde, 0x38, 0x34, 0x8e]) :=
    ⟨[0x72, 0xd0, 0x0c, 0xfd, 0x00, 0xff, 0xba, 0x04, 0x6f, 0x88, 0x33, 0xee, 0x6a, 0x59, 0x8e, 0xc9,
      0xa2, 0xa4, 0xc8, 0x60], by decide +kernel⟩
  obtain ⟨stored, hw, hr⟩ := w
  have := h _ _ _ _ _ (by decide) hw hr
  exact absurd this (by decide)

/-- The witness spelled out: both byte strings have the declared CRC-32. -/
example : Crc32.crc32 [0x93, 0xce, 0x56, 0x00, 0x00, 0x08, 0x42, 0x1c] = 0x5a854337 ∧
    Crc32.crc32 [0x3d, 0xf7, 0x5f, 0xb8, 0xde, 0x38, 0x34, 0x8e] = 0x5a854337 := by decide +kernel

/-- **What holds instead of the wrong-password clause** (`_partial`: weaker than the property's wording,
which `wrong_password_clause_false` refutes): whatever password is supplied — right, wrong or none —
reading a Stored entry never panics (`open_never_panics`), a password whose decrypted 12th header
byte differs from the validator's byte is rejected up front (`check_byte_all`: exactly one of the 256
byte values passes, i.e. the check byte admits 1/256 of wrong passwords), and **a read that completes
returns bytes whose CRC-32 is the declared one**.  The CRC layer (C04, modelled here by
`crcCheckedRead`) is what refuses the rest.  A *different* completed plaintext is therefore exactly a
CRC-32 collision with the declared value under a password passing the check byte: about 2^-40 per
random (password, wrong password) pair, so not reachable by random testing but constructible.

Full statement (false, kept visible): `WrongPasswordClause`. -/
theorem wrong_password_never_completes_other_partial (pw : Option Bytes) (enc dd : Bool) (crc : UInt32)
    (t : UInt16) (raw d : Bytes)
    (h : readStoredEntry pw enc dd crc t raw = .ok (some d)) : Crc32.crc32 d = crc := by
  have key : ∀ x : Bytes, (some <$> crcCheckedRead crc x : Out (Option Bytes)) = .ok (some d) →
      Crc32.crc32 d = crc := by
    intro x hx
    unfold crcCheckedRead at hx
    by_cases hc : Crc32.crc32 x = crc
    · rw [if_pos hc] at hx
      have : x = d := by
        have := Out.ok.inj hx
        exact Option.some.inj this
      rw [← this]; exact hc
    · rw [if_neg hc] at hx; cases hx
  unfold readStoredEntry at h
  split at h
  · exact key _ h
  · exact key _ h
  · cases h
  · cases h
  · cases h

/-! ### Every method (the decoder is a parameter) -/

/-- For a Stored entry the decoder is the identity: `readEntry` is `readStoredEntry`. -/
theorem readEntry_stored (pw : Option Bytes) (enc dd : Bool) (crc : UInt32) (t : UInt16) (raw : Bytes) :
    readEntry Out.ok pw enc dd crc t raw = readStoredEntry pw enc dd crc t raw := by
  unfold readEntry readStoredEntry
  cases openEntry pw enc dd crc t raw with
  | ok o => cases o <;> rfl
  | err e => rfl
  | panic s => rfl

/-- **Right password, every method**: the writer buffers the compressor's output `comp`; if the
decoder maps `comp` back to `data` (codec round trip: external code, hypothesis) and the declared CRC
is `data`'s, then what the writer stored opens with the password and the complete read returns exactly
`data` — for every password, compressed payload, write pattern and DOS time. -/
theorem read_right_password_any_method (decode : Bytes → Out Bytes) (pw : Bytes) (writes : List Bytes)
    (data : Bytes) (t : UInt16) (hd : decode writes.flatten = .ok data) :
    ∃ stored, writeEntry pw writes (Crc32.crc32 data) = .ok stored ∧
      readEntry decode (some pw) true false (Crc32.crc32 data) t stored = .ok (some data) := by
  obtain ⟨stored, r, hw, ho, hr⟩ := open_right_password pw writes (Crc32.crc32 data) t
  refine ⟨stored, hw, ?_⟩
  unfold readEntry
  rw [ho]
  simp only []
  rw [hr, hd]
  simp only [Out.bind_ok]
  unfold crcCheckedRead
  rw [if_pos rfl]
  rfl

/-- Non-vacuity: a toy codec (compress = reverse) through the whole path, password "pw". -/
example : ∃ stored, writeEntry [0x70, 0x77] [[3, 2], [1]] (Crc32.crc32 [1, 2, 3]) = .ok stored ∧
    readEntry (fun b => .ok b.reverse) (some [0x70, 0x77]) true false (Crc32.crc32 [1, 2, 3]) 0 stored =
      .ok (some [1, 2, 3]) :=
  read_right_password_any_method (fun b => .ok b.reverse) _ _ _ _ rfl

/-- **Any password, every method, any decoder** (`_partial` for the same reason as below): a read
that completes returned bytes whose CRC-32 is the declared one; a decoder error or a CRC mismatch is
the read's error; nothing panics unless the decoder does. -/
theorem completed_read_has_declared_crc_partial (decode : Bytes → Out Bytes) (pw : Option Bytes)
    (enc dd : Bool) (crc : UInt32) (t : UInt16) (raw d : Bytes)
    (h : readEntry decode pw enc dd crc t raw = .ok (some d)) : Crc32.crc32 d = crc := by
  have key : ∀ x : Bytes, (some <$> (decode x >>= crcCheckedRead crc) : Out (Option Bytes)) = .ok (some d) →
      Crc32.crc32 d = crc := by
    intro x hx
    cases hdx : decode x with
    | ok y =>
      rw [hdx] at hx
      simp only [Out.bind_ok] at hx
      unfold crcCheckedRead at hx
      by_cases hc : Crc32.crc32 y = crc
      · rw [if_pos hc] at hx
        have : y = d := Option.some.inj (Out.ok.inj hx)
        rw [← this]; exact hc
      · rw [if_neg hc] at hx; cases hx
    | err e => rw [hdx] at hx; cases hx
    | panic s => rw [hdx] at hx; cases hx
  unfold readEntry at h
  split at h
  · exact key _ h
  · exact key _ h
  · cases h
  · cases h
  · cases h

/-- `validate` has exactly three outcomes: `io:eof`, wrong password, or a valid reader. -/
theorem validate_outcomes (r : Reader) (v : Validator) :
    r.validate v = .err (.io .unexpectedEof) ∨ r.validate v = .ok none ∨
      ∃ r', r.validate v = .ok (some r') := by
  unfold Reader.validate
  cases rdN 12 r.file with
  | none => exact Or.inl rfl
  | some x =>
    simp only []
    split
    · exact Or.inr (Or.inr ⟨_, rfl⟩)
    · exact Or.inr (Or.inl rfl)

/-- Opening with any password on any stored bytes never panics: the result is a ZipCrypto reader,
`InvalidPassword`, `io:eof` (entry shorter than its header), plaintext, or password-required. -/
theorem open_never_panics (pw : Option Bytes) (enc dd : Bool) (crc : UInt32) (t : UInt16) (raw : Bytes) :
    (openEntry pw enc dd crc t raw).isPanic = false := by
  unfold openEntry openDecision makeCryptoReader
  cases pw <;> cases enc <;> simp only [] <;> try rfl
  rename_i pw
  rcases validate_outcomes (Reader.new raw pw) (chooseValidator dd crc t) with h | h | ⟨r', h⟩ <;>
    rw [h] <;> rfl

/-! ### Non-vacuity: concrete instances (the same vectors are replayed on the implementation by the
`zc` stream; the ciphertext below is also what CPython's `zipfile` decrypter inverts) -/

/-- Password "pw", content 01 02 03 (CRC-32 0x55BC801D): the stored bytes. -/
example : writeEntry [0x70, 0x77] [[1, 2, 3]] 0x55BC801D =
    .ok [0xe3, 0xc1, 0xad, 0xd0, 0x90, 0xc1, 0xc8, 0x17, 0xc2, 0x8c, 0xf3, 0x64, 0xb1, 0x0f, 0xec] := by
  decide +kernel

example : Crc32.crc32 [1, 2, 3] = 0x55BC801D := by decide

/-- Right password, PKZIP validator: the payload comes back; split writes give the same bytes. -/
example : decrypt [0x70, 0x77] (.pkzipCrc32 0x55BC801D)
    [0xe3, 0xc1, 0xad, 0xd0, 0x90, 0xc1, 0xc8, 0x17, 0xc2, 0x8c, 0xf3, 0x64, 0xb1, 0x0f, 0xec] =
    .ok (some [1, 2, 3]) := by decide +kernel
example : writeEntry [0x70, 0x77] [[1], [], [2, 3]] 0x55BC801D = writeEntry [0x70, 0x77] [[1, 2, 3]] 0x55BC801D := by
  decide +kernel

/-- Info-ZIP validator (bit 3): the same header byte 0x55 is matched against the DOS time 0x55xx. -/
example : decrypt [0x70, 0x77] (.infoZipMsdosTime 0x5512)
    [0xe3, 0xc1, 0xad, 0xd0, 0x90, 0xc1, 0xc8, 0x17, 0xc2, 0x8c, 0xf3, 0x64, 0xb1, 0x0f, 0xec] =
    .ok (some [1, 2, 3]) := by decide +kernel

/-- A wrong password ("px") is rejected by the check byte … -/
example : decrypt [0x70, 0x78] (.pkzipCrc32 0x55BC801D)
    [0xe3, 0xc1, 0xad, 0xd0, 0x90, 0xc1, 0xc8, 0x17, 0xc2, 0x8c, 0xf3, 0x64, 0xb1, 0x0f, 0xec] =
    .ok none := by decide +kernel

/-- … the wrong password 00 1f *passes* the 1-byte check (decrypts the header to …55) and yields
9f ca 25, which the CRC gate then refuses: a read error, not a completed read of other bytes. -/
example : readStoredEntry (some [0x00, 0x1f]) true false 0x55BC801D 0
    [0xe3, 0xc1, 0xad, 0xd0, 0x90, 0xc1, 0xc8, 0x17, 0xc2, 0x8c, 0xf3, 0x64, 0xb1, 0x0f, 0xec] =
    .err (.io .other) := by decide +kernel

/-- Right password through the whole reading path. -/
example : readStoredEntry (some [0x70, 0x77]) true false 0x55BC801D 0
    [0xe3, 0xc1, 0xad, 0xd0, 0x90, 0xc1, 0xc8, 0x17, 0xc2, 0x8c, 0xf3, 0x64, 0xb1, 0x0f, 0xec] =
    .ok (some [1, 2, 3]) := by decide +kernel

/-- The hypotheses of `foreign_entry_decrypts` are satisfiable with both rules. -/
example : Pkware.HeaderOk (List.replicate 11 7 ++ [0x55]) (Pkware.checkByte false 0x55BC801D 0) ∧
    Pkware.HeaderOk (List.replicate 11 7 ++ [0x55]) (Pkware.checkByte true 0 0x5512) := by
  unfold Pkware.HeaderOk; decide

/-- An 11-byte encrypted entry: `io:eof` from `validate`, through `by_index_decrypt` as well. -/
example : openEntry (some [0x70, 0x77]) true false 0 0 (List.replicate 11 0xAA) =
    .err (.io .unexpectedEof) := by decide +kernel

/-- Empty and binary passwords are ordinary passwords. -/
example : derive [] = Keys.new := rfl
example : derive [0x00] ≠ derive [] ∧ derive [0xff, 0x00] ≠ derive [0xff] := by decide +kernel

/-- A short read pattern (1 byte at a time, then a 0-byte read, then the rest). -/
example (r : Reader) (h : r.file.length = 5) : r.readWith [1, 1, 0, 1, 7] = r.readAll :=
  read_chunking_irrelevant r _ (by rw [h]; decide)

/-- `check_byte_all` instantiated: with the header 0…0 ++ [c] only c = 0x55 opens a CRC-0x55…… entry. -/
example : Reader.validate ⟨(encryptAll Keys.new (List.replicate 11 0 ++ [0x54])).1 ++ [9], Keys.new⟩
    (.pkzipCrc32 0x55BC801D) = .ok none := by
  rw [check_byte_all Keys.new (List.replicate 11 0) [9] 0x54 _ rfl]; rfl

end ZipVerif.Props.C15
