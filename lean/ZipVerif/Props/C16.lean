import ZipVerif.Lemmas.AesEntry
/-
C16 — WinZip-AES entries decrypt correctly and tampering is detected.
Property theorems only (helper lemmas: `Lemmas/Aes*.lean`). PBKDF2, the AES block function and
HMAC-SHA1 are uninterpreted (`AesPrims`); the only facts used about them are the output lengths
(`AesPrims.WF`).
-/

namespace ZipVerif.Props.C16
open ZipVerif ZipVerif.Model.Aes

/-- A toy instance of the primitives for the non-vacuity examples (NOT cryptography). -/
def toy : AesPrims where
  pbkdf2 pw salt n := (List.range n).map fun i =>
    UInt8.ofNat (7 * i + pw.length) + pw.foldl (· + ·) 0 + 3 * salt.foldl (· + ·) 0
  block key inp := (List.range 16).map fun i =>
    UInt8.ofNat (i * 11 + key.length) ^^^ (inp.headD 0) ^^^ (inp.getD 1 0)
  hmac key msg := (List.range 20).map fun i =>
    UInt8.ofNat (i + key.length) ^^^ msg.foldl (· + ·) 0

/-- successful value of an outcome (for `decide`d examples) -/
def okVal {α} : Out α → Option α
  | .ok a => some a
  | _ => none

theorem toy_wf : toy.WF := ⟨fun _ _ _ => by simp [toy], fun _ _ => by simp [toy], fun _ _ => by simp [toy]⟩

/-! ## The key stream (`aes_ctr.rs`) -/

/-- **Chunking does not matter**: encrypting/decrypting `a ++ b` in one call equals doing `a`, then
`b` from the state the first call left (so any split of a buffer gives the same bytes). -/
theorem ctr_chunk_independent (P : AesPrims) (hW : P.WF) (key : Bytes) (st : CtrState)
    (hg : st.Good) (a b : Bytes) :
    cryptInPlace P key st (a ++ b) =
      (cryptInPlace P key st a >>= fun r1 =>
       cryptInPlace P key r1.2 b >>= fun r2 => Out.ok (r1.1 ++ r2.1, r2.2)) := by
  rw [cryptInPlace_eq_bytes P key hW hg, cryptInPlace_eq_bytes P key hW hg, cryptBytes_append]
  cases h : cryptBytes P key st a with
  | ok r1 =>
    simp only [Out.bind_ok]
    rw [cryptInPlace_eq_bytes P key hW (cryptBytes_keeps_good P key hW hg (c := r1.1) (st' := r1.2) h)]
  | err e => rfl
  | panic m => rfl

example : CtrState.new.Good := ⟨Nat.le_refl _, rfl⟩

/-- **Decrypt ∘ encrypt = id** from the same start state (and the end states agree). -/
theorem ctr_involutive (P : AesPrims) (hW : P.WF) (key : Bytes) (st st' : CtrState) (hg : st.Good)
    (t c : Bytes) (h : cryptInPlace P key st t = .ok (c, st')) :
    cryptInPlace P key st c = .ok (t, st') := by
  rw [cryptInPlace_eq_bytes P key hW hg] at h ⊢
  obtain ⟨ks, hk, rfl⟩ := (cryptBytes_ok_iff P key st t _ st').mp h
  have hl := ksGen_length P key hk
  rw [cryptBytes_ok_iff]
  refine ⟨ks, ?_, (xorBytes_cancel t ks (by omega)).symm⟩
  rw [xorBytes_length, hl, Nat.min_self]
  exact hk

/-- **Key stream byte `i` is byte `i % 16` of AES_k(le128 (i / 16 + 1))**: the counter is a 128-bit
little-endian integer starting at 1, there is no nonce, and nothing else enters. No panic (the
`u128` counter cannot overflow) for any length below 2^64. -/
theorem ctr_block_boundary (P : AesPrims) (hW : P.WF) (key t : Bytes) (ht : t.length < U64) :
    ∃ out st', cryptInPlace P key CtrState.new t = .ok (out, st') ∧ out.length = t.length ∧
      ∀ i (hi : i < t.length), ∃ k, (P.block key (le128 (i / 16 + 1)))[i % 16]? = some k ∧
        out[i]? = some (t[i] ^^^ k) := by
  have hg : CtrState.new.Good := ⟨Nat.le_refl _, rfl⟩
  obtain ⟨st', h1, _, _⟩ := cryptBytes_closed P key hW CtrState.new t (t.length / 16 + 1) hg
    (by show t.length + 16 ≤ _; omega) (by show 1 + _ < U128; unfold U64 at ht; unfold U128; omega)
  have hd : CtrState.new.buffer.drop CtrState.new.pos = [] := rfl
  have hc1 : CtrState.new.counter = 1 := rfl
  rw [hd, List.nil_append, hc1] at h1
  have hkl := ksBlocks_length P key hW 1 (t.length / 16 + 1)
  refine ⟨_, st', by rw [cryptInPlace_eq_bytes P key hW hg, h1], ?_, ?_⟩
  · rw [xorBytes_length, hkl]; omega
  · intro i hi
    have hlt : i < 16 * (t.length / 16 + 1) := by omega
    have hb := ksBlocks_getElem? P key hW 1 (t.length / 16 + 1) i hlt
    have hik : i < (ksBlocks P key 1 (t.length / 16 + 1)).length := by rw [hkl]; exact hlt
    refine ⟨(ksBlocks P key 1 (t.length / 16 + 1))[i], ?_, ?_⟩
    · rw [Nat.add_comm, ← hb, List.getElem?_eq_getElem hik]
    · show (List.zipWith _ _ _)[i]? = _
      rw [List.getElem?_zipWith, List.getElem?_eq_getElem hi, List.getElem?_eq_getElem hik]

/-- Distinct block numbers below 2^128 are distinct AES inputs: no key stream block is reused. -/
theorem ctr_counter_distinct {a b : Nat} (ha : a < U128) (hb : b < U128) (h : le128 a = le128 b) :
    a = b := le128_inj ha hb h

-- non-vacuity: 40 bytes in chunks 1 / 16 / 23 and in one go, with the toy block function
example :
    (cryptInPlace toy [1, 2, 3] CtrState.new ((List.range 40).map UInt8.ofNat)).isOk = true ∧
    okVal (cryptInPlace toy [1, 2, 3] CtrState.new ((List.range 40).map UInt8.ofNat)) =
      okVal (cryptInPlace toy [1, 2, 3] CtrState.new ((List.range 1).map UInt8.ofNat) >>= fun r1 =>
       cryptInPlace toy [1, 2, 3] r1.2 (((List.range 40).map UInt8.ofNat).drop 1 |>.take 16) >>= fun r2 =>
       cryptInPlace toy [1, 2, 3] r2.2 (((List.range 40).map UInt8.ofNat).drop 17) >>= fun r3 =>
       Out.ok (r1.1 ++ r2.1 ++ r3.1, r3.2)) := by decide +kernel

-- the first key stream block is AES_k(01 00 … 00), the second AES_k(02 00 … 00)
example : le128 1 = 1 :: List.replicate 15 0 ∧ le128 2 = 2 :: List.replicate 15 0 ∧
    le128 258 = 2 :: 1 :: List.replicate 14 0 := by decide

/-! ## `AesReader::new`, `validate` -/

/-- **Former D4**: an entry shorter than salt + 2 + 10 bytes is an `InvalidData` I/O error at
`validate` (the checked subtraction in `new` yields `None`), before anything is read. -/
theorem aes_short_entry_error {σ} (P : AesPrims) (S : Src σ) (mode : AesMode) (csize : Nat) (s : σ)
    (pw : Bytes) (h : csize < mode.saltLength + 2 + 10) :
    dataLength mode csize = none ∧
      validate P S mode (dataLength mode csize) s pw = (.err (.io .invalidData), s) := by
  have e : dataLength mode csize = none := by
    unfold dataLength PWD_VERIFY_LENGTH AUTH_CODE_LENGTH
    simp only
    rw [if_neg (by omega)]
  exact ⟨e, by rw [e]; rfl⟩

theorem dataLength_exact (mode : AesMode) (L : Nat) :
    dataLength mode (mode.saltLength + 2 + L + 10) = some L := by
  unfold dataLength PWD_VERIFY_LENGTH AUTH_CODE_LENGTH
  simp only
  rw [if_pos (by omega)]
  congr 1; omega

example : dataLength .aes128 19 = none ∧ dataLength .aes128 20 = some 0 ∧ dataLength .aes256 28 = some 0 ∧
    dataLength .aes192 0 = none := by decide

/-- **Wrong verifier ⇒ `Ok(None)`** (reported as `InvalidPassword` by `make_crypto_reader`). -/
theorem aes_wrong_verifier {σ} (P : AesPrims) (S : Src σ) (mode : AesMode) (L : Nat) (s s1 s2 : σ)
    (pw salt pvv : Bytes) (h1 : readExact S s mode.saltLength = (.ok salt, s1))
    (h2 : readExact S s1 PWD_VERIFY_LENGTH = (.ok pvv, s2))
    (hne : pvv ≠ (P.pbkdf2 pw salt (2 * mode.keyLength + 2)).drop (2 * mode.keyLength)) :
    validate P S mode (some L) s pw = (.ok none, s2) := by
  unfold validate
  simp only [h1, h2]
  rw [if_pos]
  show pvv ≠ (P.pbkdf2 pw salt (2 * mode.keyLength + 2)).drop (2 * mode.keyLength + 2 - 2)
  simpa using hne

/-- Matching verifier ⇒ the reader starts with `data_remaining = L`, counter 1, empty HMAC, keys
`dk[0..k]`, `dk[k..2k]`; the `GenericArray::from_slice` panic is unreachable. -/
theorem aes_validate_accepts {σ} (P : AesPrims) (hW : P.WF) (S : Src σ) (mode : AesMode) (L : Nat)
    (s s1 s2 : σ) (pw salt pvv : Bytes) (h1 : readExact S s mode.saltLength = (.ok salt, s1))
    (h2 : readExact S s1 PWD_VERIFY_LENGTH = (.ok pvv, s2))
    (heq : pvv = (P.pbkdf2 pw salt (2 * mode.keyLength + 2)).drop (2 * mode.keyLength)) :
    validate P S mode (some L) s pw =
      (.ok (some (initValid s2 L ((P.pbkdf2 pw salt (2 * mode.keyLength + 2)).take mode.keyLength)
        (((P.pbkdf2 pw salt (2 * mode.keyLength + 2)).drop mode.keyLength).take mode.keyLength))), s2) := by
  unfold validate
  simp only [h1, h2]
  rw [if_neg, if_neg]
  · rfl
  · rw [List.length_take, hW.pbkdf2_len]
    show ¬ (min mode.keyLength (2 * mode.keyLength + 2) ≠ mode.keyLength)
    omega
  · show ¬ (pvv ≠ (P.pbkdf2 pw salt (2 * mode.keyLength + 2)).drop (2 * mode.keyLength + 2 - 2))
    simpa using heq

/-! ## `AesReaderValid::read` -/

/-- **End-of-file implies the authentication code was checked — for every declared length, 0
included** (after the repair of K-I).  Any sequence of successful `read` calls (any buffer sizes, any
inner reader — no assumption that it delivers the declared amount, none that it respects the `Read`
contract) that is followed by an `Ok(0)` for a non-empty buffer has, in the state that call leaves:
pulled exactly `L` ciphertext bytes from the inner reader, compared `HMAC(hmac_key, those bytes)[0..10]`
with the ten bytes read after them and found them equal, and returned exactly the CTR decryption of
those bytes.  For `L = 0` the comparison is made by the end-of-file call itself. -/
theorem aes_eof_implies_mac {σ} (P : AesPrims) (hW : P.WF) (S : Src σ) (mode : AesMode) (L : Nat)
    (s s' : σ) (pw : Bytes) (v0 : Valid σ)
    (hv : validate P S mode (some L) s pw = (.ok (some v0), s')) (hL : L < U64)
    (bufs : List Nat) (out : Bytes) (v1 : Valid σ) (hrun : drain P S bufs v0 [] = (.ok out, v1))
    (n : Nat) (hn : 0 < n) (v2 : Valid σ) (heof : Valid.read P S v1 n = (.ok [], v2)) :
    v2.dataRemaining = 0 ∧ v2.ghostCt.length = L ∧
    v2.ghostMac = some ((P.hmac v0.hmacKey v2.ghostCt).take AUTH_CODE_LENGTH,
                        (P.hmac v0.hmacKey v2.ghostCt).take AUTH_CODE_LENGTH) ∧
    cryptInPlace P v0.key CtrState.new v2.ghostCt = .ok (out, v2.ctr) := by
  obtain ⟨L', salt, pvv, s1, hdl, _, _, _, rfl⟩ := validate_ok P S mode _ s s' pw v0 hv
  cases hdl
  have hR := drain_runInv P hW S hL bufs _ v1 [] out (RunInv.init P s' _ _ _) hrun
  have hR2 := hR.step P hW S hL n heof
  rw [List.append_nil] at hR2
  have hrem := eof_rem_zero P hW S hL hR.inv hn heof
  have hfin := eof_finalized P hW S hL hR.inv hn heof
  obtain ⟨c, hc⟩ := hR2.passed hfin
  obtain ⟨hc1, _, _⟩ := hR2.inv.mac c c hc
  have hlen := hR2.inv.len
  refine ⟨hrem, by omega, ?_, ?_⟩
  · rw [hc, hc1, hR2.hkeyEq]; rfl
  · rw [cryptInPlace_eq_bytes P _ hW ⟨Nat.le_refl _, rfl⟩]
    exact hR2.crypt

/-- **An entry without ciphertext** (`data_length = 0`; after the repair of K-I): a `read` that
succeeds has read the ten bytes behind the verifier and found them equal to
`HMAC(hmac_key, "")[0..10]`.  So a declared-empty AE-x entry must carry a valid code over the empty
ciphertext — declaring a non-empty entry empty, or destroying the code of an empty one, is a read
error. -/
theorem aes_empty_entry_mac_checked {σ} (P : AesPrims) (hW : P.WF) (S : Src σ) (mode : AesMode) (s s' : σ)
    (pw : Bytes) (v0 : Valid σ) (hv : validate P S mode (some 0) s pw = (.ok (some v0), s'))
    (n : Nat) (out : Bytes) (v1 : Valid σ) (hr : Valid.read P S v0 n = (.ok out, v1)) :
    out = [] ∧ ∃ code, readExact S s' AUTH_CODE_LENGTH = (.ok code, v1.inner) ∧
      (P.hmac v0.hmacKey []).take AUTH_CODE_LENGTH = code ∧ v1.ghostMac = some (code, code) := by
  obtain ⟨L', salt, pvv, s1, hdl, _, _, _, rfl⟩ := validate_ok P S mode _ s s' pw v0 hv
  cases hdl
  have hL : 0 < U64 := by unfold U64; omega
  have hI := initValid_inv P s' 0
    ((P.pbkdf2 pw salt (2 * mode.keyLength + 2)).take mode.keyLength)
    (((P.pbkdf2 pw salt (2 * mode.keyLength + 2)).drop mode.keyLength).take mode.keyLength)
  have sp := read_spec P hW S hL _ hI n
  rw [hr] at sp
  obtain ⟨bs, hct, _, hb, _, _, hol, _, _, hpass⟩ := sp.ok out rfl
  obtain ⟨hfin, code, hre, c, hm⟩ := sp.emp out rfl rfl rfl
  have hfin : v1.finalized = true := hfin
  have hm : v1.ghostMac = some (c, code) := hm
  have hb : bs.length ≤ 0 := hb
  have hbs : bs = [] := List.eq_nil_of_length_eq_zero (by omega)
  have hct : v1.ghostCt = [] ++ bs := hct
  rw [hbs] at hct
  obtain ⟨c', hc'⟩ := hpass hfin rfl
  have hc' : v1.ghostMac = some (c', c') := hc'
  rw [hm] at hc'
  simp only [Option.some.injEq, Prod.mk.injEq] at hc'
  obtain ⟨h1, h2⟩ := hc'
  obtain ⟨hcc, _, _⟩ := sp.inv.mac c code hm
  have hcc : c = (P.hmac v1.hmacKey v1.ghostCt).take AUTH_CODE_LENGTH := hcc
  have hk : v1.hmacKey = ((P.pbkdf2 pw salt (2 * mode.keyLength + 2)).drop mode.keyLength).take mode.keyLength := sp.hkey
  refine ⟨List.eq_nil_of_length_eq_zero (by rw [hol, hbs]; rfl), code, hre, ?_, ?_⟩
  · show (P.hmac (((P.pbkdf2 pw salt (2 * mode.keyLength + 2)).drop mode.keyLength).take mode.keyLength) []).take
      AUTH_CODE_LENGTH = code
    rw [← hk, h2, ← h1, hcc, hct]; rfl
  · rw [hm, h1, h2]

/-- **The `finalized` assertion is unreachable**: in every reachable state `finalized` implies
`data_remaining = 0`, and then `read` returns at its first line — the code is checked at most once. -/
theorem mac_checked_once {σ} (P : AesPrims) (S : Src σ) (L : Nat) (v : Valid σ) (hI : Inv P L v)
    (hf : v.finalized = true) (n : Nat) : Valid.read P S v n = (.ok [], v) := by
  unfold Valid.read; rw [if_pos (hI.fin hf), if_pos hf]

/-- Every state reached from `validate` by `read` calls (successful or not) satisfies `Inv`. -/
theorem aes_reachable_inv {σ} (P : AesPrims) (hW : P.WF) (S : Src σ) (L : Nat) (hL : L < U64)
    (v : Valid σ) (hI : Inv P L v) (n : Nat) : Inv P L (Valid.read P S v n).2 :=
  (read_spec P hW S hL v hI n).inv

/-- **No arithmetic or assertion panic**: when the inner reader keeps the `Read` contract (at most the
requested number of bytes), `data_remaining -= read` cannot underflow, `buf[0..read]` is in range, the
`u128` counter cannot overflow and `assert!(!finalized)` cannot fire. -/
theorem aes_remaining_inv {σ} (P : AesPrims) (hW : P.WF) (S : Src σ) (hC : S.Contract) (L : Nat)
    (hL : L < U64) (v : Valid σ) (hI : Inv P L v) (n : Nat) (m : String) :
    (Valid.read P S v n).1 ≠ .panic m :=
  read_no_panic P hW S hC hL v hI n m

/-- **Former D9**: the inner reader ends before the declared amount was delivered ⇒ `UnexpectedEof`
(not a clean end-of-file). -/
theorem aes_early_eof_error {σ} (P : AesPrims) (hW : P.WF) (S : Src σ) (L : Nat) (hL : L < U64)
    (v : Valid σ) (hI : Inv P L v) (n : Nat) (hn : 0 < n) (hr : 0 < v.dataRemaining) (s' : σ)
    (hrd : S.rd v.inner (min v.dataRemaining n) = (.ok [], s')) :
    (Valid.read P S v n).1 = .err (.io .unexpectedEof) :=
  (read_spec P hW S hL v hI n).eof s' hr hn hrd

/-- **Right password**: for an entry `salt ‖ verifier ‖ ct ‖ HMAC(ct)[0..10]` (followed by anything),
under every caller buffer schedule `bufs` and every short-read schedule `sched` of the source: no
call fails, the bytes returned so far are the CTR decryption of the ciphertext consumed so far, and
once the schedule contains `ct.length` non-empty buffers the output is the whole decryption and
every further call is `Ok(0)`. Holds for every length including 0. -/
theorem aes_right_password (P : AesPrims) (hW : P.WF) (mode : AesMode) (pw salt ct rest dk : Bytes)
    (sched bufs : List Nat) (hs : salt.length = mode.saltLength) (hL : ct.length < U64)
    (hdk : dk = P.pbkdf2 pw salt (2 * mode.keyLength + 2)) :
    ∃ v0 s', validate P listSrc mode (some ct.length)
        ⟨salt ++ dk.drop (2 * mode.keyLength) ++
          (ct ++ ((P.hmac ((dk.drop mode.keyLength).take mode.keyLength) ct).take AUTH_CODE_LENGTH ++ rest)), sched⟩ pw
        = (.ok (some v0), s') ∧ v0.key = dk.take mode.keyLength ∧
      ∃ out v1, drain P listSrc bufs v0 [] = (.ok out, v1) ∧
        cryptBytes P (dk.take mode.keyLength) CtrState.new (ct.take (ct.length - v1.dataRemaining)) = .ok (out, v1.ctr) ∧
        (ct.length ≤ posCount bufs →
          cryptInPlace P (dk.take mode.keyLength) CtrState.new ct = .ok (out, v1.ctr) ∧
          ∀ n, (Valid.read P listSrc v1 n).1 = .ok []) := by
  subst hdk
  have hpl : ((P.pbkdf2 pw salt (2 * mode.keyLength + 2)).drop (2 * mode.keyLength)).length = PWD_VERIFY_LENGTH := by
    rw [List.length_drop, hW.pbkdf2_len]; show _ = 2; omega
  obtain ⟨sc1, sc2, e1, e2⟩ := validate_list_reads mode.saltLength salt _
    (ct ++ ((P.hmac (((P.pbkdf2 pw salt (2 * mode.keyLength + 2)).drop mode.keyLength).take mode.keyLength) ct).take AUTH_CODE_LENGTH ++ rest))
    sched hs hpl
  have hv := aes_validate_accepts P hW listSrc mode ct.length _ _ _ pw salt _ e1 e2 rfl
  refine ⟨_, _, hv, rfl, ?_⟩
  obtain ⟨out, v1, hd, hI1, hle⟩ := drain_list P hW hL rfl bufs _ [] (ListInv.init P ct _ rest _ _ sc2)
  refine ⟨out, v1, hd, ?_, ?_⟩
  · have := hI1.run.crypt
    rw [hI1.ghost] at this
    exact this
  · intro hpc
    have hz : v1.dataRemaining = 0 := by
      change v1.dataRemaining ≤ ct.length - posCount bufs at hle
      omega
    refine ⟨?_, fun n => ?_⟩
    rotate_left
    · obtain ⟨o, v', hr, _, _, _⟩ := hI1.step P hW hL rfl n
      have sp := read_spec P hW listSrc hL v1 hI1.run.inv n
      rw [hr] at sp
      obtain ⟨bs, _, _, hb, _, _, hol, _⟩ := sp.ok o rfl
      have hb : bs.length ≤ v1.dataRemaining := hb
      have : o = [] := List.eq_nil_of_length_eq_zero (by omega)
      rw [hr, this]
    rw [cryptInPlace_eq_bytes P _ hW ⟨Nat.le_refl _, rfl⟩]
    have := hI1.run.crypt
    rw [hI1.ghost, hz, Nat.sub_zero, List.take_length] at this
    exact this

/-- **Tampering is detected no later than end-of-file** (AES layer): if an entry
`salt ‖ verifier ‖ ct ‖ code` (`ct` of any length, empty included) is opened with `pw` and read to a successful
end-of-file under any schedules, then `code = HMAC(k_mac(pw, salt), ct)[0..10]`. Contrapositive: after
any change to salt, ciphertext or code that breaks this equation (which is what HMAC is for) every
run fails — at `validate` (wrong verifier), or with an error from `read` — before or at end-of-file. -/
theorem aes_tamper_detected (P : AesPrims) (hW : P.WF) (mode : AesMode) (pw salt pvv ct code rest : Bytes)
    (sched bufs : List Nat) (hs : salt.length = mode.saltLength) (hp : pvv.length = PWD_VERIFY_LENGTH)
    (hc : code.length = AUTH_CODE_LENGTH) (hL : ct.length < U64)
    (v0 : Valid ListSrc) (s' : ListSrc)
    (hv : validate P listSrc mode (some ct.length) ⟨salt ++ pvv ++ (ct ++ (code ++ rest)), sched⟩ pw
      = (.ok (some v0), s'))
    (out : Bytes) (v1 : Valid ListSrc) (hrun : drain P listSrc bufs v0 [] = (.ok out, v1))
    (n : Nat) (hn : 0 < n) (v2 : Valid ListSrc) (heof : Valid.read P listSrc v1 n = (.ok [], v2)) :
    (P.hmac (((P.pbkdf2 pw salt (2 * mode.keyLength + 2)).drop mode.keyLength).take mode.keyLength) ct).take
        AUTH_CODE_LENGTH = code ∧
      pvv = (P.pbkdf2 pw salt (2 * mode.keyLength + 2)).drop (2 * mode.keyLength) ∧
      cryptInPlace P ((P.pbkdf2 pw salt (2 * mode.keyLength + 2)).take mode.keyLength) CtrState.new ct
        = .ok (out, v2.ctr) := by
  obtain ⟨hrem2, hlen, hmac, hcr⟩ := aes_eof_implies_mac P hW listSrc mode ct.length _ s' pw v0 hv hL
    bufs out v1 hrun n hn v2 heof
  obtain ⟨L', salt', pvv', s1, hdl, hr1, hr2, hpv, rfl⟩ := validate_ok P listSrc mode _ _ s' pw v0 hv
  cases hdl
  obtain ⟨sc1, sc2, e1, e2⟩ := validate_list_reads mode.saltLength salt pvv (ct ++ (code ++ rest)) sched hs hp
  rw [e1] at hr1
  simp only [Prod.mk.injEq, Out.ok.injEq] at hr1
  obtain ⟨rfl, rfl⟩ := hr1
  rw [e2] at hr2
  simp only [Prod.mk.injEq, Out.ok.injEq] at hr2
  obtain ⟨rfl, rfl⟩ := hr2
  have hI1 := drain_list_ok P hW hL hc bufs _ v1 [] out (ListInv.init P ct code rest _ _ sc2) hrun
  have hI2 := (hI1.step_ok P hW hL hc n heof).1
  have hg : v2.ghostCt = ct := by rw [hI2.ghost, hrem2, Nat.sub_zero, List.take_length]
  rw [hg] at hmac hcr
  refine ⟨?_, hpv, hcr⟩
  exact (hI2.stored _ _ hmac).symm ▸ rfl

/-! ## `ZipFile::read`: any decoder on top of the AES reader (after the fix of D12) -/

/-- **End-of-file of the entry implies the authentication code was checked — for ANY decoder.**
The decoder is an arbitrary strategy (`DecStep`: any number of pulls of any sizes from the AES reader,
any returned bytes, an end-of-file as early as it likes, spurious errors, no `Read` contract towards
its caller); the only assumption is `Decoder.Faithful`: an error of the reader below ends the
decoder's call with an error. Nothing is assumed about the inner byte source or the CRC parameters.
If a sequence of successful `ZipFile::read` calls is followed by `Ok(0)` for a non-empty buffer (on an
entry of any declared length, 0 included), the AES reader is at its end: exactly `L` ciphertext bytes were consumed and
`HMAC(hmac_key, those bytes)[0..10]` was compared with the stored code and found equal. -/
theorem entry_eof_implies_mac {σ δ H} (P : AesPrims) (hW : P.WF) (S : Src σ) (D : Decoder δ)
    (hD : D.Faithful) (upd : H → Bytes → H) (fin : H → UInt32) (mode : AesMode) (L : Nat) (s s' : σ)
    (pw : Bytes) (v0 : Valid σ) (hv : validate P S mode (some L) s pw = (.ok (some v0), s'))
    (hL : L < U64) (d0 : δ) (c0 : CrcSt H) (bufs : List Nat) (out : Bytes)
    (st1 st2 : EntrySt σ δ H)
    (hrun : entryDrain P S D true upd fin bufs ⟨d0, v0, c0⟩ [] = (.ok out, st1))
    (n : Nat) (hn : 0 < n) (heof : entryRead P S D true upd fin st1 n = (.ok [], st2)) :
    st2.aes.dataRemaining = 0 ∧ st2.aes.ghostCt.length = L ∧
    st2.aes.ghostMac = some ((P.hmac v0.hmacKey st2.aes.ghostCt).take AUTH_CODE_LENGTH,
                             (P.hmac v0.hmacKey st2.aes.ghostCt).take AUTH_CODE_LENGTH) := by
  obtain ⟨L', salt, pvv, s1, hdl, _, _, _, rfl⟩ := validate_ok P S mode _ s s' pw v0 hv
  cases hdl
  have hQ := macOk_stable P hW S hL
    ((P.pbkdf2 pw salt (2 * mode.keyLength + 2)).take mode.keyLength)
    (((P.pbkdf2 pw salt (2 * mode.keyLength + 2)).drop mode.keyLength).take mode.keyLength)
  have h1 := entryDrain_ok P hW S hL hQ D hD true upd fin bufs _ st1 [] out ⟨[], RunInv.init P s' _ _ _⟩ hrun
  obtain ⟨⟨acc, hR⟩, hz⟩ := entryRead_ok P hW S hL hQ D hD true upd fin st1 st2 n [] h1 heof
  obtain ⟨hrem, hfin⟩ := hz rfl rfl hn
  obtain ⟨c, hc⟩ := hR.passed hfin
  obtain ⟨hc1, _, _⟩ := hR.inv.mac c c hc
  have hlen := hR.inv.len
  exact ⟨hrem, by omega, by rw [hc, hc1, hR.hkeyEq]; rfl⟩

/-- The same for `Stored` (no decoder, `finish_crypto` does nothing): the entry's `Ok(0)` *is* the AES
reader's. -/
theorem entry_eof_implies_mac_stored {σ H} (P : AesPrims) (hW : P.WF) (S : Src σ)
    (upd : H → Bytes → H) (fin : H → UInt32) (mode : AesMode) (L : Nat) (s s' : σ)
    (pw : Bytes) (v0 : Valid σ) (hv : validate P S mode (some L) s pw = (.ok (some v0), s'))
    (hL : L < U64) (c0 : CrcSt H) (bufs : List Nat) (out : Bytes)
    (st1 st2 : EntrySt σ Unit H)
    (hrun : entryDrain P S storedDec false upd fin bufs ⟨(), v0, c0⟩ [] = (.ok out, st1))
    (n : Nat) (hn : 0 < n) (heof : entryRead P S storedDec false upd fin st1 n = (.ok [], st2)) :
    st2.aes.dataRemaining = 0 ∧ st2.aes.ghostCt.length = L ∧
    st2.aes.ghostMac = some ((P.hmac v0.hmacKey st2.aes.ghostCt).take AUTH_CODE_LENGTH,
                             (P.hmac v0.hmacKey st2.aes.ghostCt).take AUTH_CODE_LENGTH) := by
  obtain ⟨L', salt, pvv, s1, hdl, _, _, _, rfl⟩ := validate_ok P S mode _ s s' pw v0 hv
  cases hdl
  have hQ := macOk_stable P hW S hL
    ((P.pbkdf2 pw salt (2 * mode.keyLength + 2)).take mode.keyLength)
    (((P.pbkdf2 pw salt (2 * mode.keyLength + 2)).drop mode.keyLength).take mode.keyLength)
  have h1 := entryDrain_ok P hW S hL hQ storedDec storedDec_faithful false upd fin bufs _ st1 [] out
    ⟨[], RunInv.init P s' _ _ _⟩ hrun
  obtain ⟨⟨acc, hR⟩, _⟩ := entryRead_ok P hW S hL hQ storedDec storedDec_faithful false upd fin st1 st2 n [] h1 heof
  obtain ⟨hrem, hfin⟩ := entryRead_stored_eof P hW S hL hQ storedDec storedDec_storedLike upd fin st1 st2 n hn h1 heof
  obtain ⟨c, hc⟩ := hR.passed hfin
  obtain ⟨hc1, _, _⟩ := hR.inv.mac c c hc
  have hlen := hR.inv.len
  exact ⟨hrem, by omega, by rw [hc, hc1, hR.hkeyEq]; rfl⟩

/-- **Tampering is detected no later than end-of-file, at the level of `ZipFile::read`, for every
inner method** (the statement that was partial before the fix of D12). Entry
`salt ‖ verifier ‖ ct ‖ code` with `ct` of any length (empty included, after the repair of K-I); inner method either compressing with an arbitrary
`Faithful` decoder, or `Stored` (`StoredLike` pass-through); any CRC parameters (AE-1 or AE-2), any
schedules. If a sequence of successful reads ends with `Ok(0)` for a non-empty buffer then
`code = HMAC(k_mac(pw, salt), ct)[0..10]` and the verifier is the derived one. So after any change of
salt, verifier, ciphertext or code that breaks these equations no run reaches a successful
end-of-file — whatever the decoder makes of the altered bytes. -/
theorem aes_tamper_detected_entry {δ H} (P : AesPrims) (hW : P.WF) (mode : AesMode)
    (pw salt pvv ct code rest : Bytes) (sched bufs : List Nat) (compressing : Bool) (D : Decoder δ)
    (hD : D.Faithful) (hS : compressing = false → D.StoredLike) (upd : H → Bytes → H) (fin : H → UInt32)
    (hs : salt.length = mode.saltLength) (hp : pvv.length = PWD_VERIFY_LENGTH)
    (hc : code.length = AUTH_CODE_LENGTH) (hL : ct.length < U64)
    (v0 : Valid ListSrc) (s' : ListSrc)
    (hv : validate P listSrc mode (some ct.length) ⟨salt ++ pvv ++ (ct ++ (code ++ rest)), sched⟩ pw
      = (.ok (some v0), s'))
    (d0 : δ) (c0 : CrcSt H) (out : Bytes) (st1 st2 : EntrySt ListSrc δ H)
    (hrun : entryDrain P listSrc D compressing upd fin bufs ⟨d0, v0, c0⟩ [] = (.ok out, st1))
    (n : Nat) (hn : 0 < n) (heof : entryRead P listSrc D compressing upd fin st1 n = (.ok [], st2)) :
    (P.hmac (((P.pbkdf2 pw salt (2 * mode.keyLength + 2)).drop mode.keyLength).take mode.keyLength) ct).take
        AUTH_CODE_LENGTH = code ∧
      pvv = (P.pbkdf2 pw salt (2 * mode.keyLength + 2)).drop (2 * mode.keyLength) := by
  obtain ⟨L', salt', pvv', s1, hdl, hr1, hr2, hpv, rfl⟩ := validate_ok P listSrc mode _ _ s' pw v0 hv
  cases hdl
  obtain ⟨sc1, sc2, e1, e2⟩ := validate_list_reads mode.saltLength salt pvv (ct ++ (code ++ rest)) sched hs hp
  rw [e1] at hr1
  simp only [Prod.mk.injEq, Out.ok.injEq] at hr1
  obtain ⟨rfl, rfl⟩ := hr1
  rw [e2] at hr2
  simp only [Prod.mk.injEq, Out.ok.injEq] at hr2
  obtain ⟨rfl, rfl⟩ := hr2
  have hQ := listOk_stable P hW (rest := rest)
    (key := (P.pbkdf2 pw salt (2 * mode.keyLength + 2)).take mode.keyLength)
    (hk := ((P.pbkdf2 pw salt (2 * mode.keyLength + 2)).drop mode.keyLength).take mode.keyLength) hL hc
  have h1 := entryDrain_ok P hW listSrc hL hQ D hD compressing upd fin bufs _ st1 [] out
    ⟨[], ListInv.init P ct code rest _ _ sc2⟩ hrun
  obtain ⟨⟨acc, hI⟩, hz⟩ := entryRead_ok P hW listSrc hL hQ D hD compressing upd fin st1 st2 n [] h1 heof
  have hrf : st2.aes.dataRemaining = 0 ∧ st2.aes.finalized = true := by
    cases compressing with
    | true => exact hz rfl rfl hn
    | false => exact entryRead_stored_eof P hW listSrc hL hQ D (hS rfl) upd fin st1 st2 n hn h1 heof
  obtain ⟨hrem, hfin⟩ := hrf
  have hg : st2.aes.ghostCt = ct := by rw [hI.ghost, hrem, Nat.sub_zero, List.take_length]
  obtain ⟨c, hcm⟩ := hI.run.passed hfin
  obtain ⟨hc1, _, _⟩ := hI.run.inv.mac c c hcm
  have hst := hI.stored c c hcm
  refine ⟨?_, hpv⟩
  rw [← hst, hc1, hg, hI.run.hkeyEq]

/-! ## Open-time decisions (`read.rs`) -/

/-- **No password ⇒ the password-required error**, for every entry with the encryption flag. -/
theorem aes_no_password {σ} (P : AesPrims) (S : Src σ) (e : Entry) (s : σ) (he : e.encrypted = true) :
    byIndex P S e s = .err .passwordRequired := by
  unfold byIndex byIndexOpt; rw [he]

/-- **Former D2**: an entry with an AES extra field but a clear encryption flag makes `by_index`
return an error (password-required, or unsupported for method 99 / unknown inner methods) — it used
to unwrap `Ok(Err(InvalidPassword))`; `by_index_decrypt` discards the password and answers
`InvalidPassword`. Neither panics, neither touches the data. -/
theorem aes_flag_clear_no_panic {σ} (P : AesPrims) (S : Src σ) (e : Entry) (s : σ)
    (ha : e.aesMode.isSome = true) (he : e.encrypted = false) :
    (byIndex P S e s = .err .passwordRequired ∨ byIndex P S e s = .err .unsupportedArchive) ∧
    ∀ pw, (∃ r, byIndexDecrypt P S e pw s = .ok r ∧ r matches .invalidPassword) ∨
      byIndexDecrypt P S e pw s = .err .unsupportedArchive := by
  obtain ⟨enc, m, am, cs, crc⟩ := e
  simp only at ha he
  subst he
  cases am with
  | none => cases ha
  | some a =>
    cases m <;> simp [byIndex, byIndexDecrypt, byIndexOpt, makeCryptoReader]

/-- With the flag set and a password, an AES entry goes to `AesReader::new(..).validate(pw)`:
wrong verifier ⇒ `InvalidPassword`, I/O errors (former D4: too short ⇒ `InvalidData`) are passed on,
and a successful open yields the AES reader tagged with the vendor version of the extra field. -/
theorem aes_open_decrypt {σ} (P : AesPrims) (S : Src σ) (e : Entry) (s : σ) (pw : Bytes)
    (mode : AesMode) (ver : VendorVersion) (ha : e.aesMode = some (mode, ver)) (he : e.encrypted = true)
    (hm : e.method = .stored ∨ e.method = .deflated ∨ e.method = .bzip2 ∨ e.method = .zstd) :
    byIndexDecrypt P S e pw s =
      match (validate P S mode (dataLength mode e.compressedSize) s pw).1 with
      | .err er => .err er
      | .panic m => .panic m
      | .ok none => .ok .invalidPassword
      | .ok (some r) => .ok (.reader (.aes r ver)) := by
  obtain ⟨enc, m, am, cs, crc⟩ := e
  simp only at ha he hm
  subst ha he
  rcases hm with rfl | rfl | rfl | rfl <;>
  · simp only [byIndexDecrypt, byIndexOpt, makeCryptoReader]
    cases validate P S mode (dataLength mode cs) s pw with
    | mk r s' => cases r with
      | ok o => cases o <;> rfl
      | err _ => rfl
      | panic _ => rfl

/-- **Former D3**: method 99 (no inner method) or an unknown method never reaches a decoder: it is
`UnsupportedArchive` at open; and after a successful open `make_reader`'s `panic!` arm is unreachable. -/
theorem aes_method99_rejected {σ} (P : AesPrims) (S : Src σ) (e : Entry) (s : σ) (pw : Option Bytes)
    (hm : e.method = .aes ∨ ∃ v, e.method = .unsupported v) :
    makeCryptoReader P S e pw s = .err .unsupportedArchive := by
  obtain ⟨enc, m, am, cs, crc⟩ := e
  simp only at hm
  rcases hm with rfl | ⟨v, rfl⟩ <;> rfl

theorem make_reader_no_panic {σ} (P : AesPrims) (S : Src σ) (e : Entry) (s : σ) (pw : Option Bytes)
    (r : CryptoReader σ) (h : makeCryptoReader P S e pw s = .ok (.reader r)) :
    makeReaderFlag e.method r = .ok r.isAe2Encrypted := by
  obtain ⟨enc, m, am, cs, crc⟩ := e
  cases m <;> first | rfl | (simp [makeCryptoReader] at h)

/-! ## CRC: enforced for AE-1, ignored for AE-2 -/

/-- The flag handed to `Crc32Reader::new` is exactly "vendor version of the AES extra field = AE-2". -/
theorem crc_flag_is_vendor_version {σ} (P : AesPrims) (S : Src σ) (e : Entry) (s : σ) (pw : Bytes)
    (mode : AesMode) (ver : VendorVersion) (ha : e.aesMode = some (mode, ver))
    (r : CryptoReader σ) (h : makeCryptoReader P S e (some pw) s = .ok (.reader r)) :
    makeReaderFlag e.method r = .ok (decide (ver = .ae2)) := by
  rw [make_reader_no_panic P S e s (some pw) r h]
  obtain ⟨enc, m, am, cs, crc⟩ := e
  simp only at ha
  subst ha
  have : ∃ v, r = .aes v ver := by
    cases m <;> simp only [makeCryptoReader] at h <;>
    first
      | (cases h)
      | (cases hv : validate P S mode (dataLength mode cs) s pw with
         | mk o s' =>
           rw [hv] at h
           cases o with
           | ok x => cases x with
             | none => simp at h
             | some w => simp only [Out.ok.injEq, Opened.reader.injEq] at h; exact ⟨w, h.symm⟩
           | err _ => simp at h
           | panic _ => simp at h)
  obtain ⟨v, rfl⟩ := this
  cases ver <;> rfl

/-- **AE-2: the CRC is ignored** — with the flag set `Crc32Reader::read` never produces its own
error; its result is the inner reader's, whatever the stored CRC says. -/
theorem ae2_crc_ignored {H ι} (upd : H → Bytes → H) (fin : H → UInt32)
    (rd : ι → Nat → Out Bytes × ι) (h : H) (check : UInt32) (i : ι) (n : Nat) (hn : n ≠ 0) :
    (crcRead upd fin rd ⟨h, check, true⟩ i n).1 = (rd i n).1 := by
  unfold crcRead
  rw [if_neg hn]
  cases rd i n with
  | mk o i' => cases o <;> simp

/-- A zero-length read is `Ok(0)` and reaches neither the decoder nor the CRC comparison. -/
theorem crc_empty_buffer {H ι} (upd : H → Bytes → H) (fin : H → UInt32)
    (rd : ι → Nat → Out Bytes × ι) (c : CrcSt H) (i : ι) : crcRead upd fin rd c i 0 = (.ok [], c, i) := by
  unfold crcRead; rw [if_pos rfl]

/-- **AE-1: the CRC is enforced** — at the inner reader's end-of-file a mismatch between the CRC of
everything delivered and the stored CRC is the "Invalid checksum" error, a match passes `Ok(0)` on. -/
theorem ae1_crc_enforced {H ι} (upd : H → Bytes → H) (fin : H → UInt32)
    (rd : ι → Nat → Out Bytes × ι) (h : H) (check : UInt32) (i i' : ι) (n : Nat) (hn : n ≠ 0)
    (heof : rd i n = (.ok [], i')) :
    (fin h ≠ check → (crcRead upd fin rd ⟨h, check, false⟩ i n).1 = .err (.io .other)) ∧
    (fin h = check → (crcRead upd fin rd ⟨h, check, false⟩ i n).1 = .ok []) := by
  unfold crcRead
  rw [if_neg hn, heof]
  constructor <;> intro hc <;> simp [hc]

/-! ## The 0x9901 extra field -/

/-- **Exactly which AES records are accepted**: data size 7, vendor id "AE" (0x4541), vendor version
1 or 2, strength 1, 2 or 3 — and then the entry's method becomes the record's method field, the mode
and version are stored, and the cursor moves exactly the 7 bytes of the record (K-C repaired: `len_left`
is decremented in this arm too; before, 7 further bytes were skipped). -/
theorem aes_extra_parse_spec (len : UInt16) (rest : Bytes) (st : ExtraSt) :
    (∃ k st', aesRec len rest st = (.ok k, st')) ↔
      (len = 7 ∧ ∃ v0 v1 i0 i1 m c0 c1 tail, rest = v0 :: v1 :: i0 :: i1 :: m :: c0 :: c1 :: tail ∧
        mk16 i0 i1 = 0x4541 ∧ (mk16 v0 v1 = 1 ∨ mk16 v0 v1 = 2) ∧ (m = 1 ∨ m = 2 ∨ m = 3)) := by
  unfold aesRec
  by_cases hl : len = 7
  · rw [if_neg (by simpa using hl)]
    match rest with
    | v0 :: v1 :: i0 :: i1 :: m :: c0 :: c1 :: tail =>
      simp only
      by_cases hv : mk16 i0 i1 = 0x4541
      · rw [if_neg (by simpa using hv)]
        by_cases hver : mk16 v0 v1 = 1 ∨ mk16 v0 v1 = 2
        · rw [if_neg (by rcases hver with h | h <;> simp [h])]
          by_cases h1 : m = 1
          · rw [if_pos h1]
            exact ⟨fun _ => ⟨hl, _, _, _, _, _, _, _, _, rfl, hv, hver, Or.inl h1⟩, fun _ => ⟨_, _, rfl⟩⟩
          · rw [if_neg h1]
            by_cases h2 : m = 2
            · rw [if_pos h2]
              exact ⟨fun _ => ⟨hl, _, _, _, _, _, _, _, _, rfl, hv, hver, Or.inr (Or.inl h2)⟩, fun _ => ⟨_, _, rfl⟩⟩
            · rw [if_neg h2]
              by_cases h3 : m = 3
              · rw [if_pos h3]
                exact ⟨fun _ => ⟨hl, _, _, _, _, _, _, _, _, rfl, hv, hver, Or.inr (Or.inr h3)⟩, fun _ => ⟨_, _, rfl⟩⟩
              · rw [if_neg h3]
                constructor
                · rintro ⟨k, st', h⟩; cases h
                · rintro ⟨_, a, b, c, d, e, f, g, t, hr, _, _, hm⟩
                  cases hr
                  rcases hm with h | h | h <;> contradiction
        · rw [if_pos (by
            constructor
            · intro h; exact hver (Or.inl h)
            · intro h; exact hver (Or.inr h))]
          constructor
          · rintro ⟨k, st', h⟩; cases h
          · rintro ⟨_, a, b, c, d, e, f, g, t, hr, _, hv', _⟩
            cases hr; exact absurd hv' hver
      · rw [if_pos (by simpa using hv)]
        constructor
        · rintro ⟨k, st', h⟩; cases h
        · rintro ⟨_, a, b, c, d, e, f, g, t, hr, hv', _⟩
          cases hr; exact absurd hv' hv
    | [] | [_] | [_, _] | [_, _, _] | [_, _, _, _] | [_, _, _, _, _] | [_, _, _, _, _, _] =>
      simp only
      constructor
      · rintro ⟨k, st', h⟩; cases h
      · rintro ⟨_, a, b, c, d, e, f, g, t, hr, _⟩; cases hr
  · rw [if_pos (by simpa using hl)]
    constructor
    · rintro ⟨k, st', h⟩; cases h
    · rintro ⟨h, _⟩; exact absurd h hl

/-- What an accepted record stores. -/
theorem aes_extra_fields (v0 v1 m c0 c1 : UInt8) (tail : Bytes) (st : ExtraSt)
    (hver : mk16 v0 v1 = 1 ∨ mk16 v0 v1 = 2) (hm : m = 1 ∨ m = 2 ∨ m = 3) :
    aesRec 7 (v0 :: v1 :: 0x41 :: 0x45 :: m :: c0 :: c1 :: tail) st =
      (.ok 7, { st with
        aesMode := some (if m = 1 then .aes128 else if m = 2 then .aes192 else .aes256,
                         if mk16 v0 v1 = 1 then .ae1 else .ae2),
        method := Method.fromU16 (mk16 c0 c1) }) := by
  unfold aesRec
  rw [if_neg (by decide)]
  simp only
  rw [if_neg (by decide), if_neg (by rcases hver with h | h <;> simp [h])]
  rcases hm with rfl | rfl | rfl <;> simp

/-- Records of other kinds are passed over by their declared length. -/
theorem extra_other_record_skipped (k0 k1 l0 l1 : UInt8) (rest : Bytes) (st : ExtraSt)
    (h1 : mk16 k0 k1 ≠ 0x0001) (h2 : mk16 k0 k1 ≠ 0x9901) :
    parseExtraLoop 0 (k0 :: k1 :: l0 :: l1 :: rest) st = parseExtraLoop (mk16 l0 l1).toNat rest st := by
  rw [parseExtraLoop]
  rw [if_neg h1, if_neg h2]

theorem extra_skip (a b : Bytes) (st : ExtraSt) : parseExtraLoop a.length (a ++ b) st = parseExtraLoop 0 b st := by
  induction a with
  | nil =>
    cases b with
    | nil => rfl
    | cons x t => rfl
  | cons x a ih => simpa [parseExtraLoop] using ih

/-! ## Non-vacuity and edge cases on concrete entries (toy primitives, evaluated by the kernel) -/

def errOf {α} : Out α → Option ZErr
  | .err e => some e
  | _ => none

/-- The independent encryptor, in Lean, over the toy primitives: salt ‖ verifier ‖ ct ‖ code. -/
def toyEntry (mode : AesMode) (pw salt plain : Bytes) : Bytes :=
  let k := mode.keyLength
  let dk := toy.pbkdf2 pw salt (2 * k + 2)
  match cryptInPlace toy (dk.take k) CtrState.new plain with
  | .ok (ct, _) => salt ++ dk.drop (2 * k) ++ (ct ++ (toy.hmac ((dk.drop k).take k) ct).take 10)
  | _ => []

def toyPlain (n : Nat) : Bytes := (List.range n).map fun i => UInt8.ofNat (i * 37 + 5)

/-- open with `pw`, then read with the buffer schedule; `none` = could not open -/
def toyRun (mode : AesMode) (payload : Bytes) (csize : Nat) (pw : Bytes) (sched bufs : List Nat) :
    Option (Out Bytes × Option (Bytes × Bytes) × Nat) :=
  match (validate toy listSrc mode (dataLength mode csize) ⟨payload, sched⟩ pw).1 with
  | .ok (some v) =>
    let r := drain toy listSrc bufs v []
    some (r.1, r.2.ghostMac, r.2.dataRemaining)
  | _ => none

def flipBit (bs : Bytes) (i : Nat) : Bytes := bs.set (i / 8) ((bs.getD (i / 8) 0) ^^^ (1 <<< UInt8.ofNat (i % 8)))

-- right password, lengths 0, 1, 15, 16, 17, 33, byte-wise / odd / large buffers and short reads
example : ∀ n ∈ [0, 1, 15, 16, 17, 33],
    ((toyRun .aes128 (toyEntry .aes128 [1, 2] (toyPlain 8) (toyPlain n)) (8 + 2 + n + 10) [1, 2]
        [0, 2, 0, 1] ([3, 0, 1, 16, 5] ++ List.replicate 30 1)).map fun r => (okVal r.1, r.2.2))
      = some (some (toyPlain n), 0) := by decide +kernel

example : ((toyRun .aes256 (toyEntry .aes256 [9] (toyPlain 16) (toyPlain 40)) (16 + 2 + 40 + 10) [9]
        [] [64, 64]).map fun r => (okVal r.1, r.2.2)) = some (some (toyPlain 40), 0) := by decide +kernel

-- wrong password: rejected at `validate`
example : (validate toy listSrc .aes128 (dataLength .aes128 38)
      ⟨toyEntry .aes128 [1, 2] (toyPlain 8) (toyPlain 18), []⟩ [1, 2, 3]).1 matches .ok none := by
  decide +kernel

-- every single-bit flip of salt / verifier / ciphertext / code of a 3-byte entry (23 bytes, 184 bits):
-- never a successful complete read
example : ∀ i ∈ List.range 184,
    (match toyRun .aes128 (flipBit (toyEntry .aes128 [1, 2] (toyPlain 8) (toyPlain 3)) i) 23 [1, 2] [] [2, 2, 2] with
     | none => true
     | some r => (errOf r.1).isSome) = true := by decide +kernel

-- a flipped ciphertext bit: the first chunks are returned, the last call is the `InvalidData` error
example : (toyRun .aes128 (flipBit (toyEntry .aes128 [1, 2] (toyPlain 8) (toyPlain 3)) 81) 23 [1, 2] [] [2, 2, 2]).map
    (fun r => errOf r.1) = some (some (.io .invalidData)) := by decide +kernel

-- truncated entry (declared 23 bytes, 15 present): `UnexpectedEof`, not a clean end-of-file
example : (toyRun .aes128 ((toyEntry .aes128 [1, 2] (toyPlain 8) (toyPlain 3)).take 12) 23 [1, 2] [] [2, 2, 2]).map
    (fun r => errOf r.1) = some (some (.io .unexpectedEof)) := by decide +kernel

-- the empty-entry edge (after the repair of K-I): the code of an empty entry is compared too - a destroyed
-- one is the `InvalidData` error, the honest one reads as the empty content with the code compared
example : (toyRun .aes128 ((toyEntry .aes128 [1, 2] (toyPlain 8) []).take 10 ++ List.replicate 10 0) 20 [1, 2] [] [4, 4]).map
    (fun r => errOf r.1) = some (some (.io .invalidData)) := by decide +kernel
example : (toyRun .aes128 (toyEntry .aes128 [1, 2] (toyPlain 8) []) 20 [1, 2] [] [4, 4]).map
    (fun r => (okVal r.1, r.2.1.isSome, r.2.2)) = some (some [], true, 0) := by decide +kernel

/-! ### K-I (repaired): "empty" is decided by an attacker-writable field, so it must be authenticated too

Whether an entry is "empty" is decided by `data_length = compressed_size - overhead`, and the compressed
size is a header field outside the authentication code.  Before the repair `read` returned `Ok(0)` at
`data_remaining == 0` without ever comparing the code, so a NON-empty entry could be presented as a
successful empty one (declared compressed size = bare overhead; AE-2: no CRC behind it).  The crate now
verifies the code of an entry without ciphertext before reporting end-of-file
(`aes_empty_entry_mac_checked`), and the tamper theorems above hold for every declared length. -/

/-- The former K-I witness as a regression: the honest 6-byte entry reads as its content; the SAME bytes
with the declared compressed size 20 (the overhead of AES-128) are now the `InvalidData` error — the ten
bytes standing where the code is read are not `HMAC(k, "")[0..10]`.  Replayed on the crate by
corpus/aes.ops (`csize-field28of3028`, `csize-field20of21`). -/
theorem declared_empty_regression :
    (toyRun .aes128 (toyEntry .aes128 [1, 2] (toyPlain 8) (toyPlain 6)) 20 [1, 2] [] [4, 4]).map
      (fun r => errOf r.1) = some (some (.io .invalidData)) ∧
    (toyRun .aes128 (toyEntry .aes128 [1, 2] (toyPlain 8) (toyPlain 6)) 26 [1, 2] [] [4, 4]).map
      (fun r => (okVal r.1, r.2.2)) = some (some (toyPlain 6), 0) := by
  constructor <;> decide +kernel

/-- **Tamper detection without the declared-nonempty restriction** (the statement that was `_partial`
while K-I was open), AES layer, for every primitive triple, inner reader and declared length `L ≥ 0`:
a run of successful reads that ends in `Ok(0)` for a non-empty buffer has consumed exactly `L`
ciphertext bytes and compared `HMAC(hmac_key, those bytes)[0..10]` with the stored code, equal. -/
theorem tamper_detected_any_declared_length {σ} (P : AesPrims) (hW : P.WF) (S : Src σ) (mode : AesMode)
    (L : Nat) (s s' : σ) (pw : Bytes) (v0 : Valid σ)
    (hv : validate P S mode (some L) s pw = (.ok (some v0), s')) (hL : L < U64)
    (bufs : List Nat) (out : Bytes) (v1 : Valid σ) (hrun : drain P S bufs v0 [] = (.ok out, v1))
    (n : Nat) (hn : 0 < n) (v2 : Valid σ) (heof : Valid.read P S v1 n = (.ok [], v2)) :
    v2.ghostCt.length = L ∧
    v2.ghostMac = some ((P.hmac v0.hmacKey v2.ghostCt).take AUTH_CODE_LENGTH,
                        (P.hmac v0.hmacKey v2.ghostCt).take AUTH_CODE_LENGTH) :=
  let h := aes_eof_implies_mac P hW S mode L s s' pw v0 hv hL bufs out v1 hrun n hn v2 heof
  ⟨h.2.1, h.2.2.1⟩

/-- Non-vacuity of the hypotheses at `L = 0`: the honest empty entry validates, and its first `read`
with a non-empty buffer is the successful end-of-file. -/
example : ∃ v0 s' v2, validate toy listSrc .aes128 (some 0) ⟨toyEntry .aes128 [1, 2] (toyPlain 8) [], []⟩ [1, 2]
      = (.ok (some v0), s') ∧ drain toy listSrc [] v0 [] = (.ok [], v0) ∧
      Valid.read toy listSrc v0 4 = (.ok [], v2) ∧ v2.ghostMac.isSome = true := by
  refine ⟨_, _, _, rfl, rfl, rfl, ?_⟩
  decide +kernel

/-- A toy decoder whose compressed stream is complete after 3 bytes: it refills 4 bytes at a time
and reports end-of-file once it has seen 3. State = number of bytes seen. -/
def earlyDec : Decoder Nat :=
  ⟨fun seen _ =>
    if 3 ≤ seen then .done (.ok []) seen
    else .pull 4 fun r => match r with
      | .ok bs => .done (.ok bs) (seen + bs.length)
      | .err e => .done (.err e) seen⟩

theorem earlyDec_faithful : earlyDec.Faithful := by
  intro d n
  unfold earlyDec
  simp only
  split
  · exact .done _ _
  · exact .pull _ _ (fun e => ⟨e, d, rfl⟩) (fun bs => .done _ _)

/-- entry with 6 ciphertext bytes whose authentication code has been destroyed -/
def badCodeEntry : Bytes := (toyEntry .aes128 [1, 2] (toyPlain 8) (toyPlain 6)).take 16 ++ List.replicate 10 0

def idUpd : Unit → Bytes → Unit := fun _ _ => ()
def zeroFin : Unit → UInt32 := fun _ => 0

/-- **D12 on the model (pre-fix `ZipFile::read`)** — end-of-file of a *decoder* does not imply
end-of-file of the AES reader: with `earlyDec` over `badCodeEntry` the pre-fix entry read returns 4
bytes and then `Ok(0)` with `data_remaining = 2`, no code was ever compared. -/
theorem d12_decoder_eof_without_mac :
    ∃ v : Valid ListSrc,
      (validate toy listSrc .aes128 (dataLength .aes128 26) ⟨badCodeEntry, []⟩ [1, 2]).1 = .ok (some v) ∧
      let r1 := entryReadPreFix toy listSrc earlyDec idUpd zeroFin ⟨0, v, ⟨(), 0, true⟩⟩ 16
      let r2 := entryReadPreFix toy listSrc earlyDec idUpd zeroFin r1.2 16
      (okVal r1.1).map List.length = some 4 ∧ okVal r2.1 = some [] ∧
      r2.2.aes.dataRemaining = 2 ∧ r2.2.aes.ghostMac = none := by
  refine ⟨_, rfl, ?_⟩
  decide +kernel

/-- … and the same calls through the current `ZipFile::read`: the second one drains the AES reader
(`finish_crypto`) and reports the `InvalidData` error of the code check instead of end-of-file. -/
theorem d12_fixed_on_witness :
    ∃ v : Valid ListSrc,
      (validate toy listSrc .aes128 (dataLength .aes128 26) ⟨badCodeEntry, []⟩ [1, 2]).1 = .ok (some v) ∧
      let r1 := entryRead toy listSrc earlyDec true idUpd zeroFin ⟨0, v, ⟨(), 0, true⟩⟩ 16
      let r2 := entryRead toy listSrc earlyDec true idUpd zeroFin r1.2 16
      (okVal r1.1).map List.length = some 4 ∧ errOf r2.1 = some (.io .invalidData) ∧
      r2.2.aes.dataRemaining = 0 := by
  refine ⟨_, rfl, ?_⟩
  decide +kernel

/-! ### extra field examples -/

def st99 (cs us : UInt64) : ExtraSt := ⟨us, cs, 0, false, none, .aes⟩

-- the sole AES record (AE-2, AES-256, deflated) of a method-99 entry
example : okVal (parseEntryExtra (st99 100 50) [0x01, 0x99, 7, 0, 2, 0, 0x41, 0x45, 3, 8, 0]) =
    some { st99 100 50 with aesMode := some (.aes256, .ae2), method := .deflated } := by decide

-- preceded by another record (the fixture has an NTFS record in front) and followed by one
example : okVal (parseEntryExtra (st99 100 50)
    ([0x0a, 0, 4, 0, 9, 9, 9, 9] ++ [0x01, 0x99, 7, 0, 1, 0, 0x41, 0x45, 1, 0, 0] ++ [0x55, 0x54, 5, 0, 1, 2, 3, 4, 5])) =
    some { st99 100 50 with aesMode := some (.aes128, .ae1), method := .stored } := by decide

-- method 99 without the record, with a truncated record (the I/O error is swallowed), wrong size
example : errOf (parseEntryExtra (st99 100 50) []) = some .invalidArchive ∧
    errOf (parseEntryExtra (st99 100 50) [0x01, 0x99, 7, 0, 2, 0, 0x41]) = some .invalidArchive ∧
    errOf (parseEntryExtra (st99 100 50) [0x01, 0x99, 8, 0, 2, 0, 0x41, 0x45, 3, 8, 0, 0]) = some .unsupportedArchive ∧
    errOf (parseEntryExtra (st99 100 50) [0x01, 0x99, 7, 0, 3, 0, 0x41, 0x45, 3, 8, 0]) = some .invalidArchive ∧
    errOf (parseEntryExtra (st99 100 50) [0x01, 0x99, 7, 0, 2, 0, 0x41, 0x46, 3, 8, 0]) = some .invalidArchive ∧
    errOf (parseEntryExtra (st99 100 50) [0x01, 0x99, 7, 0, 2, 0, 0x41, 0x45, 4, 8, 0]) = some .invalidArchive := by
  decide

/-- **K-C, repaired** (a C03 / C16 defect of the crate as found: the 0x9901 arm of `parse_extra_field` did not
decrement `len_left`, so 7 further bytes were skipped behind an AES record — an AES record FOLLOWED by the
ZIP64 record lost the ZIP64 sizes, `compressed_size` stayed 0xFFFFFFFF; `fixes/kc-aes-extra-consumed.patch`,
regression `seeded/revert-kc-aes-extra-consumed`).  Now the order of the two records does not matter. -/
theorem kc_aes_zip64_any_order :
    let z64 : Bytes := [1, 0, 16, 0] ++ le64 50 ++ le64 100
    let aes : Bytes := [0x01, 0x99, 7, 0, 2, 0, 0x41, 0x45, 3, 0, 0]
    okVal (parseEntryExtra (st99 0xFFFFFFFF 0xFFFFFFFF) (z64 ++ aes)) =
      some { st99 100 50 with largeFile := true, aesMode := some (.aes256, .ae2), method := .stored } ∧
    okVal (parseEntryExtra (st99 0xFFFFFFFF 0xFFFFFFFF) (aes ++ z64)) =
      some { st99 100 50 with largeFile := true, aesMode := some (.aes256, .ae2), method := .stored } := by
  decide

/-- ... nor do other records behind the AES record get misread (before the repair the cursor landed 7 bytes
into the record that follows). -/
example :
    let aes : Bytes := [0x01, 0x99, 7, 0, 1, 0, 0x41, 0x45, 1, 8, 0]
    let other : Bytes := [0xfe, 0xca, 9, 0, 1, 0, 8, 0, 0xff, 0xff, 0xff, 0xff, 0]
    let z64 : Bytes := [1, 0, 8, 0] ++ le64 77
    okVal (parseEntryExtra (st99 0xFFFFFFFF 5) (aes ++ other ++ z64)) =
      some { st99 77 5 with largeFile := true, aesMode := some (.aes128, .ae1), method := .deflated } := by
  decide

-- open-time decisions on concrete entries
example : byIndex toy listSrc ⟨true, .stored, some (.aes128, .ae2), 40, 0⟩ ⟨[], []⟩ matches .err .passwordRequired := by
  decide
example : byIndex toy listSrc ⟨false, .stored, some (.aes128, .ae2), 40, 0⟩ ⟨[], []⟩ matches .err .passwordRequired := by
  decide
example : byIndexDecrypt toy listSrc ⟨true, .aes, some (.aes128, .ae2), 40, 0⟩ [1] ⟨[], []⟩ matches .err .unsupportedArchive := by
  decide
example : byIndexDecrypt toy listSrc ⟨true, .stored, some (.aes128, .ae2), 19, 0⟩ [1] ⟨toyPlain 19, []⟩
    matches .err (.io .invalidData) := by decide

end ZipVerif.Props.C16
