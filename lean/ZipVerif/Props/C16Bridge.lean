import ZipVerif.Lemmas.ExtraBridge
import ZipVerif.Lemmas.EntryBridgeAes
import ZipVerif.Props.C16
/-
C16 — bridge between the two hand-written models of `parse_extra_field` (red-team finding B3).

The C16 theorems about open-time decisions (`Props/C16.lean`: which records are accepted, which method and
AES mode result) are stated over `Model.Aes.parseExtraLoop` / `parseEntryExtra`, a model that keeps only the
six fields of `ZipFileData` the function touches.  The model tied to the translated source is
`Model.parseExtraField` (`Tie.Parsers.tie_parse_extra_field`).  The theorems below show that the former IS
the latter seen through `extraView`, for every record, every extra field and every adequate fuel — so the
tie reaches the C16 theorems.  Proofs are in `Lemmas/ExtraBridge.lean`.
-/

namespace ZipVerif.Props.C16Bridge
open ZipVerif ZipVerif.Model ZipVerif.Lemmas.ExtraBridge

/-- **`parse_extra_field`: the C16 model and the reader model agree** on the outcome (Ok / the error that
ended the loop) and on every field the function can change. -/
theorem parse_extra_models_agree (fuel : Nat) (f : FileData) (extra : Bytes) (h : extra.length < fuel) :
    Aes.parseExtraLoop 0 extra (extraView f) =
      (outOf (parseExtraField fuel f extra).2, extraView (parseExtraField fuel f extra).1) :=
  parseExtra_bridge fuel f extra h

/-- **`parseEntryExtra` is the tail of `central_header_to_zip_file`** as the reader model has it
(`Model.centralHeaderInner`, with the fuel that function uses: the length of the extra field + 1). -/
theorem entry_extra_is_reader_tail (f : FileData) (extra : Bytes) :
    Aes.parseEntryExtra (extraView f) extra = readerTail f extra :=
  parseEntryExtra_bridge f extra

/-- The view loses nothing the C16 theorems speak about: method 99 and the AES mode are seen as they are. -/
theorem view_method_aes_iff (f : FileData) : (extraView f).method = Aes.Method.aes ↔ f.method = Model.Method.aes :=
  methodView_aes_iff f.method

theorem view_fromU16 (v : UInt16) : methodView (Model.Method.fromU16 v) = Aes.Method.fromU16 v :=
  methodView_fromU16 v

-- non-vacuity: a method-99 record with an AE-2 / AES-256 / Deflate record, on both sides
example : readerTail { (default : FileData) with method := .aes } [0x01, 0x99, 7, 0, 2, 0, 0x41, 0x45, 3, 8, 0] =
    .ok { uncompressedSize := 0, compressedSize := 0, headerStart := 0, largeFile := false,
          aesMode := some (.aes256, .ae2), method := .deflated } := by rfl
example : Aes.parseEntryExtra (extraView { (default : FileData) with method := .aes })
      [0x01, 0x99, 7, 0, 2, 0, 0x41, 0x45, 3, 8, 0] =
    .ok { uncompressedSize := 0, compressedSize := 0, headerStart := 0, largeFile := false,
          aesMode := some (.aes256, .ae2), method := .deflated } := by rfl
-- a ZIP64 record in front of it; a truncated AES record (swallowed I/O error, then method 99 without a mode)
example : readerTail { (default : FileData) with method := .aes, compressedSize := 0xFFFFFFFF }
      ([0x01, 0x00, 8, 0, 100, 0, 0, 0, 0, 0, 0, 0] ++ [0x01, 0x99, 7, 0, 1, 0, 0x41, 0x45, 1, 0, 0]) =
    .ok { uncompressedSize := 0, compressedSize := 100, headerStart := 0, largeFile := true,
          aesMode := some (.aes128, .ae1), method := .stored } := by rfl
example : readerTail { (default : FileData) with method := .aes } [0x01, 0x99, 7, 0, 2, 0, 0x41] =
    .err .invalidArchive := by rfl

/-! ## C16 at ARCHIVE level: every byte string `ZipArchive::new` accepts, every entry with an AES extra record

The theorems of `Props/C16.lean` speak about `AesReader::validate` / `AesReaderValid::read` / `ZipFile::read` with
free parameters (mode, declared length, the bytes underneath).  `Lemmas/EntryBridgeAes.lean` connects them with the
reader model: `openArchive` (the parsed central record: flag, 0x9901 record, `compressed_size`, CRC),
`find_content` (the data start from the LOCAL header), `make_crypto_reader`'s decision (`byIndexRead` IS
`cryptoChoice` followed by the layers: `Tie/ReaderGlue.byIndexRead_eq_choice`, `tie_make_crypto_reader`), the
crate's AES layer as `Model.cryptoExt` (`Aes.validate`, `Aes.Valid.read`: the functions `Tie/AesValidate`,
`Tie/AesLayer`, `Tie/AesCtr` tie to the translated `validate`, `read` and key stream). -/

/-- **Tampering of an AES entry of an accepted archive is detected no later than end-of-file.**  `bs` is ANY
byte string `ZipArchive::new` accepts, `i` any entry with the encryption flag and an AES extra record,
`by_index_decrypt(i, pw)` returns `r`:

* `r = Err(InvalidPassword)` exactly when the two bytes behind the salt are not the verifier derived from `pw` and
  the salt (a changed salt or verifier ends here, up to PBKDF2);
* `r = Ok(file)` with read-to-end result `res`: the verifier is the derived one, and for EVERY short-read schedule
  of a reader holding the stored bytes `validate` hands out `aesReader .. sc`, and EITHER the declared payload and
  the 10-byte code are all there and the code is `HMAC-SHA1(k_mac(pw, salt), payload)[0..10]`, OR `res` is an I/O
  error and NO run - `AesReaderValid::read` with any caller buffers; `ZipFile::read` with any error-propagating
  decoder, `Crc32Reader`, `finish_crypto` - is a sequence of successful reads followed by `Ok(0)` on a non-empty
  buffer (`Aes.NeverEof`).  So after any change to salt, verifier, ciphertext, code or the declared size that
  breaks the two equations (which is what HMAC is for), reading fails before or at end-of-file. -/
theorem archive_aes_tamper_detected (P : Aes.AesPrims) (hW : P.WF) (decode : Method → Bytes → Out Bytes)
    (bs : Bytes) {fa₀ : Option Nat} {a : Archive} {d₀ : Dev}
    (hopen : openArchive fa₀ (Dev.ofBytes bs) = (.ok a, d₀))
    {i : Nat} {data : FileData} (hfile : a.files[i]? = some data) (henc : data.encrypted = true)
    {mode : AesMode} {vv : AesVendorVersion} (haes : data.aesMode = some (mode, vv)) {pw : Bytes}
    {fa : Option Nat} {d' : Dev} {r : PwResult (Nat × Out Bytes)}
    (h : byIndexRead (cryptoExt P decode) a i (some pw) fa d₀ = (.ok r, d')) :
    ∃ ds L, Aes.dataLength (aesModeView mode) data.compressedSize.toNat = some L ∧
      (r = .invalidPassword → ¬ aesVerifierOk P pw mode ((bs.drop ds).take data.compressedSize.toNat)) ∧
      ∀ res, r = .ok (ds, res) →
        aesVerifierOk P pw mode ((bs.drop ds).take data.compressedSize.toNat) ∧
        ∀ sched : List Nat, ∃ sc,
          Aes.validate P Aes.listSrc (aesModeView mode) (some L)
              ⟨(bs.drop ds).take data.compressedSize.toNat, sched⟩ pw =
            (.ok (some (aesReader P pw mode ((bs.drop ds).take data.compressedSize.toNat) L sc)),
              ⟨aesBody mode ((bs.drop ds).take data.compressedSize.toNat), sc⟩) ∧
          ((L + Aes.AUTH_CODE_LENGTH ≤ (aesBody mode ((bs.drop ds).take data.compressedSize.toNat)).length ∧
              aesCodeOk P pw mode ((bs.drop ds).take data.compressedSize.toNat) L) ∨
            ((∃ k, res = .err (.io k)) ∧
              Aes.NeverEof P (aesReader P pw mode ((bs.drop ds).take data.compressedSize.toNat) L sc))) := by
  have hbuf : d₀.buf = bs := by
    have := openArchive_readOnly.elim fa₀ (Dev.ofBytes bs)
    rw [hopen] at this; exact this
  obtain ⟨ds, _, L, hdl, _, _, hA⟩ := entry_bridge_aes hW hfile henc haes h
  rw [hbuf] at hA
  refine ⟨ds, L, hdl, fun hinv => ((hA []).1 hinv).1, fun res hres => ⟨((hA []).2 res hres).1, fun sched => ?_⟩⟩
  obtain ⟨_, sc, hv, hV⟩ := (hA sched).2 res hres
  refine ⟨sc, hv, ?_⟩
  by_cases hgood : L + Aes.AUTH_CODE_LENGTH ≤ (aesBody mode ((bs.drop ds).take data.compressedSize.toNat)).length ∧
      aesCodeOk P pw mode ((bs.drop ds).take data.compressedSize.toNat) L
  · exact Or.inl hgood
  · exact Or.inr (hV.damaged hgood)

/-- **The right password returns the original bytes - archive level.**  `bs` is any byte string `ZipArchive::new`
accepts, entry `i` has the encryption flag and an AES extra record, `find_content` puts its data at `ds`, and the
`compressed_size` bytes there are what an AE-x encryptor writes for the compressed stream `plain` under `pw`:
`salt ‖ verifier(pw, salt) ‖ CTR_k(plain) ‖ HMAC(k_mac, CTR_k(plain))[0..10]` (the crate's key stream:
`cryptInPlace` from counter 1).  Then `by_index_decrypt(i, pw)` returns `Ok(file)`, reading it to the end gives
`decode(method, plain)` followed by the CRC comparison (skipped for AE-2), and under EVERY short-read schedule of a
reader holding the stored bytes `validate` accepts and `AesReaderValid` DENOTES `plain` followed by a clean
end-of-file: whatever the caller's buffer sizes, exactly these bytes, never an error. -/
theorem archive_aes_right_password (P : Aes.AesPrims) (hW : P.WF) (decode : Method → Bytes → Out Bytes)
    (bs : Bytes) {fa₀ : Option Nat} {a : Archive} {d₀ : Dev}
    (hopen : openArchive fa₀ (Dev.ofBytes bs) = (.ok a, d₀))
    {i : Nat} {data : FileData} (hfile : a.files[i]? = some data) (henc : data.encrypted = true)
    {mode : AesMode} {vv : AesVendorVersion} (haes : data.aesMode = some (mode, vv)) {pw : Bytes}
    {fa : Option Nat} {d' : Dev} {r : PwResult (Nat × Out Bytes)}
    (h : byIndexRead (cryptoExt P decode) a i (some pw) fa d₀ = (.ok r, d'))
    {ds : Nat} {d1 : Dev} (hfind : findContent data fa d₀ = (.ok ds, d1))
    (salt plain ct : Bytes) (st' : Aes.CtrState) (hs : salt.length = aesSl mode)
    (henc' : Aes.cryptInPlace P ((P.pbkdf2 pw salt (2 * aesK mode + 2)).take (aesK mode)) Aes.CtrState.new plain
      = .ok (ct, st'))
    (hcs : data.compressedSize.toNat = aesSl mode + 2 + ct.length + Aes.AUTH_CODE_LENGTH)
    (hraw : (bs.drop ds).take data.compressedSize.toNat =
      salt ++ (P.pbkdf2 pw salt (2 * aesK mode + 2)).drop (2 * aesK mode) ++
        (ct ++ (P.hmac (((P.pbkdf2 pw salt (2 * aesK mode + 2)).drop (aesK mode)).take (aesK mode)) ct).take
          Aes.AUTH_CODE_LENGTH)) :
    r = .ok (ds, decode data.method plain >>= crcCheck (vv == .ae2) data.crc32) ∧
    ∀ sched : List Nat, ∃ sc,
      Aes.validate P Aes.listSrc (aesModeView mode) (some ct.length)
          ⟨(bs.drop ds).take data.compressedSize.toNat, sched⟩ pw =
        (.ok (some (aesReader P pw mode ((bs.drop ds).take data.compressedSize.toNat) ct.length sc)),
          ⟨aesBody mode ((bs.drop ds).take data.compressedSize.toNat), sc⟩) ∧
      Layers.Denotes (aesSrc P Aes.listSrc)
        (aesReader P pw mode ((bs.drop ds).take data.compressedSize.toNat) ct.length sc) plain .eof := by
  have hbuf : d₀.buf = bs := by
    have := openArchive_readOnly.elim fa₀ (Dev.ofBytes bs)
    rw [hopen] at this; exact this
  obtain ⟨ds', ⟨d1', hf1, _, _⟩, L, hdl, hLU, _, hA⟩ := entry_bridge_aes hW hfile henc haes h
  obtain ⟨ds2, d2, hf2, _, _, hr⟩ := byIndexRead_aes_inv hfile henc haes h
  have e1 : ds' = ds := by rw [hfind] at hf1; injection hf1 with h1 _; injection h1 with h1; exact h1.symm
  have e2 : ds2 = ds := by rw [hfind] at hf2; injection hf2 with h1 _; injection h1 with h1; exact h1.symm
  rw [e1] at hA
  rw [e2] at hr
  rw [hbuf] at hA hr
  generalize hrawdef : (bs.drop ds).take data.compressedSize.toNat = raw at hA hr hraw ⊢
  -- the parts of `raw`
  have hvl : ((P.pbkdf2 pw salt (2 * aesK mode + 2)).drop (2 * aesK mode)).length = 2 := by
    rw [List.length_drop, hW.pbkdf2_len]; omega
  have hsalt : raw.take (aesSl mode) = salt := by
    rw [hraw, List.append_assoc, ← hs, List.take_left]
  have hdk : aesDk P pw mode raw = P.pbkdf2 pw salt (2 * aesK mode + 2) := by
    unfold aesDk; rw [hsalt]
  have hver : aesVerifierOk P pw mode raw := by
    unfold aesVerifierOk
    rw [hdk, hraw, List.append_assoc, ← hs, List.drop_left]
    exact List.take_left' hvl
  have hbody : aesBody mode raw = ct ++ (P.hmac (aesHk P pw mode raw) ct).take Aes.AUTH_CODE_LENGTH := by
    unfold aesBody aesHk
    rw [hdk, hraw]
    have : aesSl mode + 2 = (salt ++ (P.pbkdf2 pw salt (2 * aesK mode + 2)).drop (2 * aesK mode)).length := by
      rw [List.length_append, hvl, hs]
    rw [this, List.drop_left]
  have hL : L = ct.length := by
    have hk : (aesModeView mode).saltLength = aesSl mode := rfl
    unfold Aes.dataLength at hdl
    simp only [Aes.PWD_VERIFY_LENGTH, Aes.AUTH_CODE_LENGTH, hk] at hdl hcs
    split at hdl
    · injection hdl with hdl; omega
    · cases hdl
  subst hL
  have hml : ((P.hmac (aesHk P pw mode raw) ct).take Aes.AUTH_CODE_LENGTH).length = Aes.AUTH_CODE_LENGTH := by
    rw [List.length_take, hW.hmac_len]; decide
  have hlen : ct.length + Aes.AUTH_CODE_LENGTH ≤ (aesBody mode raw).length := by
    rw [hbody, List.length_append, hml]; omega
  have hcode : aesCodeOk P pw mode raw ct.length := by
    unfold aesCodeOk
    rw [hbody, List.take_left, List.drop_left]
    exact (List.take_of_length_le (Nat.le_of_eq hml)).symm
  have hkey : aesKey P pw mode raw = (P.pbkdf2 pw salt (2 * aesK mode + 2)).take (aesK mode) := by
    unfold aesKey; rw [hdk]
  -- decrypting the ciphertext gives the plaintext back
  have hdec : ∀ pt cfin, Aes.cryptBytes P (aesKey P pw mode raw) Aes.CtrState.new ((aesBody mode raw).take ct.length)
      = .ok (pt, cfin) → pt = plain := by
    intro pt cfin hpt
    have hg : Aes.CtrState.new.Good := ⟨Nat.le_refl _, rfl⟩
    have := Props.C16.ctr_involutive P hW _ _ _ hg plain ct henc'
    rw [Aes.cryptInPlace_eq_bytes P _ hW hg, ← hkey] at this
    rw [hbody, List.take_left, this] at hpt
    injection hpt with hpt; injection hpt with hpt _; exact hpt.symm
  have hrok : ∀ res, r = .ok (ds, res) →
      res = (decode data.method plain >>= crcCheck (vv == .ae2) data.crc32) := by
    intro res hres
    obtain ⟨_, sc, _, hV⟩ := (hA []).2 res hres
    obtain ⟨pt, cfin, hpt, hres2, _⟩ := hV.intact hlen hcode
    rw [hres2, hdec pt cfin hpt]; rfl
  refine ⟨?_, fun sched => ?_⟩
  · rcases hr with ⟨stream, _, hh⟩ | ⟨_, hinv⟩
    · rw [hh, ← hrok _ hh]
    · exact absurd hver ((hA []).1 hinv).1
  · rcases hr with ⟨stream, _, hh⟩ | ⟨_, hinv⟩
    · obtain ⟨_, sc, hv, hV⟩ := (hA sched).2 _ hh
      obtain ⟨pt, cfin, hpt, _, hden⟩ := hV.intact hlen hcode
      rw [hdec pt cfin hpt] at hden
      exact ⟨sc, hv, hden⟩
    · exact absurd hver ((hA []).1 hinv).1

/-! ### Non-vacuity: a concrete archive (stand-in primitives), evaluated by the kernel -/

/-- `Model.aesExArchive` (147 bytes: one entry, method 99, AE-2 / AES-128 / Stored record, payload produced by an
independent encryptor) is accepted; entry 0 has the flag and the record; `by_index_decrypt(0, "pw")` hands it out
with data start 42 and content `[1,2,3,4,5]` - the hypotheses of `archive_aes_right_password`,
`archive_aes_tamper_detected`, C09's `archive_entry_chunk_independent_aes` and C04's `archive_entry_sound_aes`; the
call-by-call read over a short-reading source with zero-length buffers interleaved returns the same. -/
example : aesOpenRead aesExArchive [0x70, 0x77] [0, 2] [2, 0, 1, 9, 9] =
    some (42, some [1, 2, 3, 4, 5], some [1, 2, 3, 4, 5]) := by decide +kernel

/-- Wrong password: `InvalidPassword` (no file). -/
example : aesOpenRead aesExArchive [0x70] [0, 2] [2, 0, 1, 9, 9] = some (0, none, none) := by decide +kernel

/-- One ciphertext byte changed; the code destroyed; the payload cut short (declared size kept): the archive is
still accepted, the entry is handed out, the one-shot result is an error and so is the call-by-call read. -/
example : aesOpenRead (aesExArchive.set 53 0) [0x70, 0x77] [0, 2] [2, 0, 1, 9, 9] = some (42, none, none) ∧
    aesOpenRead (aesExArchive.set 60 0) [0x70, 0x77] [] [9, 9] = some (42, none, none) ∧
    aesOpenRead (aesExArchiveOf ((aesExPayload [1, 2, 3, 4, 5]).take 20) 25) [0x70, 0x77] [1] [3, 3, 3] =
      some (42, none, none) := by
  refine ⟨by decide +kernel, by decide +kernel, by decide +kernel⟩

example : exPrims.WF := exPrims_wf

end ZipVerif.Props.C16Bridge
