import ZipVerif.Lemmas.ExtraBridge
/-
C16 — bridge between the two hand-written models of `parse_extra_field` (red-team finding B3).

The C16 theorems about open-time decisions (`Props/C16.lean`: which records are accepted, which method and
AES mode result) are stated over `Model.Aes.parseExtraLoop` / `parseEntryExtra`, a model that keeps only the
six fields of `ZipFileData` the function touches.  The model tied to the translated source is
`Model.parseExtraField` (`Tie.Parsers.tie_parse_extra_field`).  The theorems below show that the former IS
the latter seen through `extraView`, for every record, every extra field and every adequate fuel — so the
tie reaches the C16 theorems.  Proofs are in `Lemmas/ExtraBridge.lean`.
-/

namespace ZipVerif.Props.C16Bridge
open ZipVerif ZipVerif.Model ZipVerif.Lemmas.ExtraBridge

/-- **`parse_extra_field`: the C16 model and the reader model agree** on the outcome (Ok / the error that
ended the loop) and on every field the function can change. -/
theorem parse_extra_models_agree (fuel : Nat) (f : FileData) (extra : Bytes) (h : extra.length < fuel) :
    Aes.parseExtraLoop 0 extra (extraView f) =
      (outOf (parseExtraField fuel f extra).2, extraView (parseExtraField fuel f extra).1) :=
  parseExtra_bridge fuel f extra h

/-- **`parseEntryExtra` is the tail of `central_header_to_zip_file`** as the reader model has it
(`Model.centralHeaderInner`, with the fuel that function uses: the length of the extra field + 1). -/
theorem entry_extra_is_reader_tail (f : FileData) (extra : Bytes) :
    Aes.parseEntryExtra (extraView f) extra = readerTail f extra :=
  parseEntryExtra_bridge f extra

/-- The view loses nothing the C16 theorems speak about: method 99 and the AES mode are seen as they are. -/
theorem view_method_aes_iff (f : FileData) : (extraView f).method = Aes.Method.aes ↔ f.method = Model.Method.aes :=
  methodView_aes_iff f.method

theorem view_fromU16 (v : UInt16) : methodView (Model.Method.fromU16 v) = Aes.Method.fromU16 v :=
  methodView_fromU16 v

-- non-vacuity: a method-99 record with an AE-2 / AES-256 / Deflate record, on both sides
example : readerTail { (default : FileData) with method := .aes } [0x01, 0x99, 7, 0, 2, 0, 0x41, 0x45, 3, 8, 0] =
    .ok { uncompressedSize := 0, compressedSize := 0, headerStart := 0, largeFile := false,
          aesMode := some (.aes256, .ae2), method := .deflated } := by rfl
example : Aes.parseEntryExtra (extraView { (default : FileData) with method := .aes })
      [0x01, 0x99, 7, 0, 2, 0, 0x41, 0x45, 3, 8, 0] =
    .ok { uncompressedSize := 0, compressedSize := 0, headerStart := 0, largeFile := false,
          aesMode := some (.aes256, .ae2), method := .deflated } := by rfl
-- a ZIP64 record in front of it; a truncated AES record (swallowed I/O error, then method 99 without a mode)
example : readerTail { (default : FileData) with method := .aes, compressedSize := 0xFFFFFFFF }
      ([0x01, 0x00, 8, 0, 100, 0, 0, 0, 0, 0, 0, 0] ++ [0x01, 0x99, 7, 0, 1, 0, 0x41, 0x45, 1, 0, 0]) =
    .ok { uncompressedSize := 0, compressedSize := 100, headerStart := 0, largeFile := true,
          aesMode := some (.aes128, .ae1), method := .stored } := by rfl
example : readerTail { (default : FileData) with method := .aes } [0x01, 0x99, 7, 0, 2, 0, 0x41] =
    .err .invalidArchive := by rfl

end ZipVerif.Props.C16Bridge
