import ZipVerif.Lemmas.Align
import ZipVerif.Lemmas.AlignCentral
import ZipVerif.Lemmas.WriterWedge
/-
C17 — Aligned entries are aligned; extra data lands where requested.
Property theorems only; helper lemmas are in `Lemmas/Align.lean`, the model in `Model/Align.lean`,
the APPNOTE record grammar in `Spec/Extra.lean`.
-/

namespace ZipVerif.Props.C17
open ZipVerif ZipVerif.Model.Align ZipVerif.Spec.Extra

/-- The header, the name, the ZIP64 record and a maximal extra field all lie below 2^64
(65585 = 30 + 20 + 65535): no `u64` offset computation near this entry can wrap. -/
def NoWrap (hs : UInt64) (nameLen : Nat) : Prop := hs.toNat + nameLen + 65585 < 18446744073709551616

instance (hs : UInt64) (n : Nat) : Decidable (NoWrap hs n) := by unfold NoWrap; infer_instance

example : NoWrap 0 5 := by decide
example : NoWrap 4294967296000 65535 := by decide

/-! ## 1. The padding arithmetic -/

/-- **The pad the crate computes aligns the data**: with the 4-byte record header in front, the
padded offset is a multiple of the alignment, and the pad is smaller than the alignment. -/
theorem pad_correct (ds a : UInt64) (ha : 1 < a) (h4 : ds.toNat + 4 < 18446744073709551616) :
    (ds.toNat + 4 + (padLength ds a).toNat) % a.toNat = 0 ∧ (padLength ds a).toNat < a.toNat := by
  have ha' : 0 < a.toNat := by
    have := UInt64.lt_iff_toNat_lt.mp ha
    have e : (1 : UInt64).toNat = 1 := by decide
    omega
  rw [padLength_toNat ds a h4 ha']
  exact ⟨padNat_aligned _ _ ha', padNat_lt _ _ ha'⟩

example : padLength 31 64 = 29 ∧ (31 + 4 + 29) % 64 = 0 := by decide

/-- The subtraction `align - (data_start + 4) % align` cannot underflow. -/
theorem pad_sub_no_underflow (ds a : UInt64) (ha : 0 < a.toNat) :
    ((ds + 4) % a).toNat ≤ a.toNat := by
  rw [UInt64.toNat_mod]; exact Nat.le_of_lt (Nat.mod_lt _ ha)

/-- `pad.len() as u16` loses nothing: the pad is below the 16-bit alignment. -/
theorem pad_cast_lossless (ds : UInt64) (al : UInt16) (ha : 1 < al.toNat)
    (h4 : ds.toNat + 4 < 18446744073709551616) :
    (padLength ds al.toUInt64).toUInt16.toNat = (padLength ds al.toUInt64).toNat := by
  have h := padLength_toNat ds al.toUInt64 h4 (by rw [UInt16.toNat_toUInt64]; omega)
  rw [UInt16.toNat_toUInt64] at h
  have := padNat_lt ds.toNat al.toNat (by omega)
  have := al.toNat_lt
  rw [UInt64.toNat_toUInt16, h]
  omega

/-- The pad is the *only* value below the alignment that aligns the data … -/
theorem pad_unique (d a p : Nat) (ha : 0 < a) (hp : p < a) (h : (d + 4 + p) % a = 0) :
    p = padNat d a := by
  have hq := padNat_lt d a ha
  have h' := padNat_aligned d a ha
  have d1 := Nat.dvd_of_mod_eq_zero h
  have d2 := Nat.dvd_of_mod_eq_zero h'
  rcases Nat.le_total p (padNat d a) with hle | hle
  · have hd : a ∣ padNat d a - p := by
      have := Nat.dvd_sub d2 d1
      have e : d + 4 + padNat d a - (d + 4 + p) = padNat d a - p := by omega
      rwa [e] at this
    have := Nat.eq_zero_of_dvd_of_lt hd (by omega)
    omega
  · have hd : a ∣ p - padNat d a := by
      have := Nat.dvd_sub d1 d2
      have e : d + 4 + p - (d + 4 + padNat d a) = p - padNat d a := by omega
      rwa [e] at this
    have := Nat.eq_zero_of_dvd_of_lt hd (by omega)
    omega

/-- … hence the smallest padding that does. -/
theorem pad_minimal (d a p : Nat) (ha : 0 < a) (h : (d + 4 + p) % a = 0) : padNat d a ≤ p := by
  rcases Nat.lt_or_ge p (padNat d a) with hlt | hge
  · have := padNat_lt d a ha
    have := pad_unique d a p ha (by omega) h
    omega
  · exact hge

example : padNat 31 64 = 29 := by decide

/-! ## 2. `start_file_aligned` -/

/-- **A successfully started aligned entry is aligned** (no side condition): whenever the call
returns `Ok`, the alignment is 0 or 1, or the final data offset is a multiple of it. -/
theorem aligned_ok {hs : UInt64} {n : Nat} {lf : Bool} {al : UInt16} {r : AlignResult}
    (h : alignedPlacement hs n lf al = .ok r) : al.toNat ≤ 1 ∨ r.dataStart.toNat % al.toNat = 0 := by
  rw [alignedPlacement_eq] at h
  split at h
  · cases h
  split at h
  · rename_i hp
    right
    split at h
    · rename_i h4
      dsimp only at h
      split at h
      · cases h
      split at h
      · rename_i hv h1
        split at h
        · injection h with h
          subst h
          show (prelim hs n lf + UInt64.ofNat (4 + padNat (prelim hs n lf).toNat al.toNat)).toNat % _ = 0
          have hlt := padNat_lt (prelim hs n lf).toNat al.toNat (by omega)
          have := al.toNat_lt
          have e64 : (UInt64.ofNat (4 + padNat (prelim hs n lf).toNat al.toNat)).toNat =
              4 + padNat (prelim hs n lf).toNat al.toNat := by
            rw [UInt64.toNat_ofNat']; omega
          rw [UInt64.toNat_add, e64, Nat.mod_eq_of_lt h1, ← Nat.add_assoc]
          exact padNat_aligned _ _ (by omega)
        · cases h
      · cases h
    · cases h
  · rename_i hp
    split at h
    · injection h with h
      subst h
      show al.toNat ≤ 1 ∨ (prelim hs n lf).toNat % al.toNat = 0
      by_cases h1 : 1 < al.toNat
      · right
        exact Classical.byContradiction fun hne => hp ⟨h1, hne⟩
      · left; omega
    · cases h

/-- The only panics of the model of `start_file_aligned` are `u64` offset overflows. -/
theorem aligned_panic_sites {hs : UInt64} {n : Nat} {lf : Bool} {al : UInt16} {s : String}
    (h : alignedPlacement hs n lf al = .panic s) :
    s = "write.rs end_extra_data: header_start + 28" ∨
    s = "write.rs end_extra_data: data_start + len" ∨
    s = "write.rs start_file_aligned: data_start + 4" := by
  rw [alignedPlacement_eq] at h
  split at h
  · cases h
  split at h
  · split at h
    · dsimp only at h
      split at h
      · cases h
      split at h
      · split at h
        · cases h
        · injection h with h; exact Or.inl h.symm
      · injection h with h; exact Or.inr (Or.inl h.symm)
    · injection h with h; exact Or.inr (Or.inr h.symm)
  · split at h
    · cases h
    · injection h with h; exact Or.inl h.symm

/-- **The `assert_eq!` in `start_file_aligned` is unreachable** … -/
theorem aligned_assert_unreachable (hs : UInt64) (n : Nat) (lf : Bool) (al : UInt16) :
    alignedPlacement hs n lf al ≠ .panic "write.rs start_file_aligned: assert_eq" := by
  intro h
  rcases aligned_panic_sites h with e | e | e <;> exact absurd e (by decide)

/-- … and so are the `20 + len as u16` addition (the length check in `validate_extra_data` comes
first), `align - x % align` and `extra_data_end - data_start`. -/
theorem aligned_u16_add_unreachable (hs : UInt64) (n : Nat) (lf : Bool) (al : UInt16) :
    alignedPlacement hs n lf al ≠ .panic "write.rs end_extra_data: 20 + len as u16" ∧
    alignedPlacement hs n lf al ≠ .panic "write.rs start_file_aligned: align - x % align" ∧
    alignedPlacement hs n lf al ≠ .panic "write.rs start_file_aligned: extra_data_end - data_start" := by
  refine ⟨?_, ?_, ?_⟩ <;> intro h <;>
    rcases aligned_panic_sites h with e | e | e <;> exact absurd e (by decide)

/-- **Closed form**: away from the 2^64 boundary the call either refuses with `InvalidArchive`
(name too long), refuses with `io::ErrorKind::InvalidData` (the padding record, plus the ZIP64
record of a large file, does not fit the 16-bit extra-field length), or succeeds with the
minimal padding. -/
theorem aligned_closed_form (hs : UInt64) (n : Nat) (lf : Bool) (al : UInt16) (hw : NoWrap hs n) :
    alignedPlacement hs n lf al =
      let ds := hs.toNat + 30 + n + zip64Reserve lf
      let pad := padNat ds al.toNat
      if n > 65535 then .err .invalidArchive
      else if 1 < al.toNat ∧ ds % al.toNat ≠ 0 then
        if 4 + pad + zip64Reserve lf > 65535 then .err (.io .invalidData)
        else .ok ⟨UInt64.ofNat (4 + pad), UInt64.ofNat (ds + 4 + pad),
                  UInt16.ofNat (zip64Reserve lf + 4 + pad), zaBytes pad, []⟩
      else .ok ⟨0, UInt64.ofNat ds, UInt16.ofNat (zip64Reserve lf), [], []⟩ := by
  unfold NoWrap at hw
  have hr : zip64Reserve lf ≤ 20 := by cases lf <;> decide
  rw [alignedPlacement_eq]
  dsimp only
  by_cases hn : n > 65535
  · rw [if_pos hn, if_pos hn]
  rw [if_neg hn, if_neg hn]
  have hpre : (prelim hs n lf).toNat = hs.toNat + 30 + n + zip64Reserve lf := by
    unfold prelim
    rw [UInt64.toNat_add, UInt64.toNat_ofNat']
    omega
  have hpreq : prelim hs n lf = UInt64.ofNat (hs.toNat + 30 + n + zip64Reserve lf) := by
    apply UInt64.toNat_inj.mp
    rw [hpre, UInt64.toNat_ofNat']; omega
  have hb : base16 lf = UInt16.ofNat (zip64Reserve lf) := by cases lf <;> rfl
  have h28 : hs.toNat + 28 < 18446744073709551616 := by omega
  rw [hpre, if_pos h28, if_pos h28]
  by_cases hp : 1 < al.toNat ∧ (hs.toNat + 30 + n + zip64Reserve lf) % al.toNat ≠ 0
  · rw [if_pos hp, if_pos hp]
    have h4 : hs.toNat + 30 + n + zip64Reserve lf + 4 < 18446744073709551616 := by omega
    rw [if_pos h4]
    by_cases hv : 4 + padNat (hs.toNat + 30 + n + zip64Reserve lf) al.toNat + zip64Reserve lf > 65535
    · rw [if_pos hv, if_pos hv]
    · rw [if_neg hv, if_neg hv]
      have h1 : hs.toNat + 30 + n + zip64Reserve lf +
          (4 + padNat (hs.toNat + 30 + n + zip64Reserve lf) al.toNat) < 18446744073709551616 := by omega
      rw [if_pos h1, hpreq, hb]
      congr 2
      · apply UInt64.toNat_inj.mp
        rw [UInt64.toNat_add, UInt64.toNat_ofNat', UInt64.toNat_ofNat', UInt64.toNat_ofNat']
        omega
      · apply UInt16.toNat_inj.mp
        rw [UInt16.toNat_add, UInt16.toNat_ofNat', UInt16.toNat_ofNat', UInt16.toNat_ofNat']
        omega
  · rw [if_neg hp, if_neg hp, hpreq, hb]

/-- **No panic**: `start_file_aligned` never panics for any alignment, name length and
`large_file` setting (away from the 2^64 boundary).  This is the full statement; before the
`fix:` of the extra-length check it failed for `large_file` with a pad of 65512..65531
(`20 + len as u16` overflowed). -/
theorem aligned_no_panic (hs : UInt64) (n : Nat) (lf : Bool) (al : UInt16) (hw : NoWrap hs n) (s : String) :
    alignedPlacement hs n lf al ≠ .panic s := by
  rw [aligned_closed_form hs n lf al hw]
  dsimp only
  split
  · exact fun h => by cases h
  split
  · split
    · exact fun h => by cases h
    · exact fun h => by cases h
  · exact fun h => by cases h

/-- **A request that cannot be honoured is refused with an error**, and only such a request:
the call fails exactly when the name is longer than 65535 bytes or padding is needed and the
padding record (4 + pad bytes, + 20 for a large file) exceeds the 16-bit extra-field length. -/
theorem aligned_refused_iff (hs : UInt64) (n : Nat) (lf : Bool) (al : UInt16) (hw : NoWrap hs n) :
    (∃ e, alignedPlacement hs n lf al = .err e) ↔
      n > 65535 ∨
      (1 < al.toNat ∧ (hs.toNat + 30 + n + zip64Reserve lf) % al.toNat ≠ 0 ∧
        4 + padNat (hs.toNat + 30 + n + zip64Reserve lf) al.toNat + zip64Reserve lf > 65535) := by
  rw [aligned_closed_form hs n lf al hw]
  dsimp only
  by_cases hn : n > 65535
  · rw [if_pos hn]
    exact ⟨fun _ => Or.inl hn, fun _ => ⟨_, rfl⟩⟩
  rw [if_neg hn]
  by_cases hp : 1 < al.toNat ∧ (hs.toNat + 30 + n + zip64Reserve lf) % al.toNat ≠ 0
  · rw [if_pos hp]
    by_cases hv : 4 + padNat (hs.toNat + 30 + n + zip64Reserve lf) al.toNat + zip64Reserve lf > 65535
    · rw [if_pos hv]
      exact ⟨fun _ => Or.inr ⟨hp.1, hp.2, hv⟩, fun _ => ⟨_, rfl⟩⟩
    · rw [if_neg hv]
      constructor
      · rintro ⟨e, he⟩; cases he
      · rintro (h | ⟨_, _, h⟩)
        · exact absurd h hn
        · exact absurd h hv
  · rw [if_neg hp]
    constructor
    · rintro ⟨e, he⟩; cases he
    · rintro (h | ⟨h1, h2, _⟩)
      · exact absurd h hn
      · exact absurd ⟨h1, h2⟩ hp

/-- What a successful call reports and leaves behind: the returned value is the number of bytes
added (0, or 4 + the minimal pad), the data start moved by exactly that much, the local
extra-length field counts it (plus the ZIP64 record), the local header holds exactly the `za`
padding record and **nothing of it reaches the central record**. -/
theorem aligned_reports {hs : UInt64} {n : Nat} {lf : Bool} {al : UInt16} {r : AlignResult}
    (hw : NoWrap hs n) (h : alignedPlacement hs n lf al = .ok r) :
    r.dataStart.toNat = hs.toNat + 30 + n + zip64Reserve lf + r.ret.toNat ∧
    r.xlenField.toNat = zip64Reserve lf + r.ret.toNat ∧
    r.localExtra.length = r.ret.toNat ∧
    r.centralExtra = [] ∧
    ((r.ret = 0 ∧ r.localExtra = []) ∨
     (r.ret.toNat = 4 + padNat (hs.toNat + 30 + n + zip64Reserve lf) al.toNat ∧
      r.localExtra = zaBytes (padNat (hs.toNat + 30 + n + zip64Reserve lf) al.toNat))) := by
  have hw' := hw
  unfold NoWrap at hw'
  have hr : zip64Reserve lf ≤ 20 := by cases lf <;> decide
  rw [aligned_closed_form hs n lf al hw] at h
  dsimp only at h
  split at h
  · cases h
  split at h
  · rename_i hp
    split at h
    · cases h
    · rename_i hv
      injection h with h
      subst h
      have hlt := padNat_lt (hs.toNat + 30 + n + zip64Reserve lf) al.toNat (by omega)
      have := al.toNat_lt
      refine ⟨?_, ?_, ?_, rfl, Or.inr ⟨?_, rfl⟩⟩
      · show (UInt64.ofNat _).toNat = _ + (UInt64.ofNat _).toNat
        rw [UInt64.toNat_ofNat', UInt64.toNat_ofNat']; omega
      · show (UInt16.ofNat _).toNat = _ + (UInt64.ofNat _).toNat
        rw [UInt16.toNat_ofNat', UInt64.toNat_ofNat']; omega
      · show (zaBytes _).length = (UInt64.ofNat _).toNat
        rw [zaBytes_length, UInt64.toNat_ofNat']; omega
      · show (UInt64.ofNat _).toNat = _
        rw [UInt64.toNat_ofNat']; omega
  · injection h with h
    subst h
    refine ⟨?_, ?_, rfl, rfl, Or.inl ⟨rfl, rfl⟩⟩
    · show (UInt64.ofNat _).toNat = _ + (0 : UInt64).toNat
      rw [UInt64.toNat_ofNat']
      have e : (0 : UInt64).toNat = 0 := rfl
      omega
    · show (UInt16.ofNat _).toNat = _ + (0 : UInt64).toNat
      rw [UInt16.toNat_ofNat']
      have e : (0 : UInt64).toNat = 0 := rfl
      omega

/-- **The reader reports the same offset**: `find_content` recomputes the data start from the
local header's own name-length and extra-length fields and arrives at the writer's final
`data_start` (where the content was written), so the content is read back from where it is. -/
theorem aligned_reader_agrees {hs : UInt64} {n : Nat} {lf : Bool} {al : UInt16} {r : AlignResult}
    (hw : NoWrap hs n) (h : alignedPlacement hs n lf al = .ok r) :
    readerDataStart hs (UInt16.ofNat n) r.xlenField = .ok r.dataStart := by
  have hn : n ≤ 65535 := by
    rw [alignedPlacement_eq] at h
    split at h
    · cases h
    · omega
  obtain ⟨h1, h2, h3, -, -⟩ := aligned_reports hw h
  have hw' := hw
  unfold NoWrap at hw'
  have hr : zip64Reserve lf ≤ 20 := by cases lf <;> decide
  have hx := r.xlenField.toNat_lt
  have en : (UInt16.ofNat n).toNat = n := by rw [UInt16.toNat_ofNat']; omega
  unfold readerDataStart
  rw [en]
  have hlt : hs.toNat + 30 + n + r.xlenField.toNat < 18446744073709551616 := by omega
  rw [if_pos hlt]
  congr 1
  apply UInt64.toNat_inj.mp
  have e30 : (30 : UInt64).toNat = 30 := by decide
  rw [UInt64.toNat_add, UInt64.toNat_add, UInt64.toNat_add, UInt16.toNat_toUInt64,
    UInt16.toNat_toUInt64, en, e30, h1, h2]
  omega

/-! Non-vacuity and the boundary of the 16-bit extra-field length (the former defect D7). -/

-- an ordinary aligned entry: header at 0, 1-byte name, align 64 → 29 zero bytes in a `za` record
example : alignedPlacement 0 1 false 64 =
    .ok ⟨33, 64, 33, zaBytes 29, []⟩ := by
  rw [aligned_closed_form 0 1 false 64 (by decide)]; rfl
-- already aligned, alignment 0 and 1: nothing is written
example : alignedPlacement 34 0 false 64 = .ok ⟨0, 64, 0, [], []⟩ := by
  rw [aligned_closed_form _ _ _ _ (by decide)]; rfl
example : alignedPlacement 0 1 true 0 = .ok ⟨0, 51, 20, [], []⟩ := by
  rw [aligned_closed_form _ _ _ _ (by decide)]; rfl
-- the largest pad that fits without / with the ZIP64 record (65531 / 65511) succeeds …
example : alignedPlacement 65500 1 false 65533 =
    .ok ⟨65535, 131066, 65535, zaBytes 65531, []⟩ := by
  rw [aligned_closed_form _ _ _ _ (by decide)]; rfl
example : alignedPlacement 65504 1 true 65535 =
    .ok ⟨65515, 131070, 65535, zaBytes 65511, []⟩ := by
  rw [aligned_closed_form _ _ _ _ (by decide)]; rfl
-- … one more byte is refused with an error: for `large_file` this input (pad 65512) made
-- `20 + len as u16` overflow (panic) before the fix; it is now `InvalidData`
example : alignedPlacement 65503 1 true 65535 = .err (.io .invalidData) := by
  rw [aligned_closed_form _ _ _ _ (by decide)]; rfl
example : alignedPlacement 65503 1 false 65535 = .err (.io .invalidData) := by
  rw [aligned_closed_form _ _ _ _ (by decide)]; rfl
example : alignedPlacement 0 65536 false 64 = .err .invalidArchive := by
  rw [aligned_closed_form _ _ _ _ (by decide)]; rfl

/-! ## 3. `validate_extra_data` accepts exactly the well-formed user extra fields -/

/-- **Validation = APPNOTE 4.5 grammar**: the data is accepted iff it is a sequence of complete
records with user-writable header IDs (not 0x0001, not 0..31, not a defined or registered ID)
that fits the 16-bit extra-field length. -/
theorem validate_extra_iff (ed : Bytes) : validateExtraData false ed = .ok () ↔ WFExtra ed := by
  rw [validateExtraData_ok_iff]
  constructor
  · exact fun h => h.1
  · intro h
    exact ⟨h, by have := h.1; show ed.length + 0 ≤ 65535; omega⟩

/-- For a `large_file` entry the 20-byte ZIP64 record shares the local field, so 20 bytes less
are available. -/
theorem validate_extra_large_iff (large : Bool) (ed : Bytes) :
    validateExtraData large ed = .ok () ↔
      WFExtra ed ∧ ed.length + zip64LocalRecordLen large ≤ 65535 :=
  validateExtraData_ok_iff large ed

/-- Validation never panics: everything that is not accepted is refused with an `io::Error`
(`InvalidData` for an over-long field, `Other` for everything else). -/
theorem validate_extra_total (large : Bool) (ed : Bytes) :
    validateExtraData large ed = .ok () ∨
    validateExtraData large ed = .err (.io .invalidData) ∨
    validateExtraData large ed = .err (.io .other) := by
  unfold validateExtraData
  split
  · exact Or.inr (Or.inl rfl)
  · rename_i hlen
    clear hlen
    generalize hf : ed.length = fuel
    have hle : ed.length ≤ fuel := by omega
    clear hf
    fun_induction validateLoop fuel ed with
    | case1 => exact Or.inl rfl
    | case2 => simp at hle
    | case3 => exact Or.inr (Or.inr rfl)
    | case4 => exact Or.inr (Or.inr rfl)
    | case5 => exact Or.inr (Or.inr rfl)
    | case6 fuel a b c d rest kind size hk hr r hd ih =>
      apply ih
      obtain ⟨p, _, hrest⟩ := dropExact_some hd
      rw [hrest] at hle
      simp only [List.length_cons, List.length_append] at hle
      omega
    | case7 => exact Or.inr (Or.inr rfl)

/-- **Truncated records, the ZIP64 header ID and reserved header IDs are rejected with an
error**, wherever they occur: after any number of good records, a remainder that is a truncated
header, starts with a record whose ID is 0x0001 / in 0..31 / defined or registered, or declares
more data than is left. -/
theorem validate_rejects_malformed (large : Bool) (rs : List Record)
    (hrs : ∀ r ∈ rs, r.Fits ∧ r.Allowed) (tail : Bytes) (h : Malformed tail) :
    validateExtraData large (encodeAll rs ++ tail) = .err (.io .invalidData) ∨
    validateExtraData large (encodeAll rs ++ tail) = .err (.io .other) :=
  validateExtraData_malformed large rs hrs tail h

/-- The crate's reserved-ID table is the APPNOTE list (4.5.2 ++ 4.6.1). -/
theorem reserved_table_is_appnote : extraFieldMapping.map UInt16.toNat = reservedIds :=
  extraFieldMapping_toNat

-- accepted: the `za` padding record, an empty field, two records
example : WFExtra [0x7a, 0x61, 0x02, 0x00, 0x00, 0x00] := (validate_extra_iff _).mp (by decide)
example : WFExtra [] := (validate_extra_iff _).mp (by decide)
example : validateExtraData true [0xfe, 0xca, 0x00, 0x00, 0x7a, 0x61, 0x01, 0x00, 0xff] = .ok () := by decide
-- rejected: ZIP64 ID, an ID ≤ 31, a registered ID (0x5455 extended timestamp), a truncated
-- header, a truncated payload
example : ¬ WFExtra [0x01, 0x00, 0x00, 0x00] := fun h => absurd ((validate_extra_iff _).mpr h) (by decide)
example : validateExtraData false [0x1f, 0x00, 0x00, 0x00] = .err (.io .other) := by decide
example : validateExtraData false [0x55, 0x54, 0x00, 0x00] = .err (.io .other) := by decide
example : validateExtraData false [0x7a, 0x61, 0x00] = .err (.io .other) := by decide
example : validateExtraData false [0x7a, 0x61, 0x02, 0x00, 0xaa] = .err (.io .other) := by decide
example : Malformed [0x7a, 0x61, 0x00] := .shortHeader _ (by decide) (by decide)
example : Malformed (Record.encode ⟨0x0001, [1, 2]⟩ ++ [9]) :=
  .badId _ _ (by decide) (by decide)

/-! ## 4. Where the extra data lands -/

/-- **Shared extra data** (`start_file_with_extra_data; write…; end_extra_data`): on success the
local header and the central record both carry the written bytes verbatim, the local
extra-length field and the data start account for them, and the data was well-formed. -/
theorem extra_placement_shared {hs : UInt64} {n : Nat} {lf : Bool} {lo ce : Bytes} {st : EntrySt}
    (h : extraPlacement hs n lf .shared lo ce = .ok st) :
    st.localExtra = lo ∧ st.extraField = lo ∧
    st.dataStart = prelim hs n lf + UInt64.ofNat lo.length ∧
    st.xlenField = base16 lf + UInt16.ofNat lo.length ∧
    WFExtra lo ∧ lo.length + zip64LocalRecordLen lf ≤ 65535 := by
  rw [extraPlacement_eq] at h
  have hl : localPart .shared lo = lo := rfl
  rw [hl] at h
  cases hv : validateExtraData lf lo with
  | err e => rw [hv] at h; cases h
  | panic s => rw [hv] at h; cases h
  | ok u =>
    rw [hv] at h
    dsimp only at h
    by_cases h1 : (prelim hs n lf).toNat + lo.length < 18446744073709551616
    · rw [if_pos h1] at h
      by_cases h28 : hs.toNat + 28 < 18446744073709551616
      · rw [if_pos h28, if_pos rfl] at h
        injection h with h
        subst h
        obtain ⟨w1, w2⟩ := (validateExtraData_ok_iff lf lo).mp hv
        exact ⟨rfl, rfl, rfl, rfl, w1, w2⟩
      · rw [if_neg h28] at h; cases h
    · rw [if_neg h1] at h; cases h

/-- **Split extra data** (`…; write local…; end_local_start_central_extra_data; write central…;
end_extra_data`; `centralOnly` writes no local part): on success the local part is *only* in the
local header and the central part *only* in `file.extra_field`, the user's share of the central record
(section 5 says what the record and the reader's `extra_data()` hold: the writer's own ZIP64 record, when
the entry needs one, followed by exactly these bytes), both verbatim; the data start and the local extra-length field depend
on the local part alone; both parts were well-formed. -/
theorem extra_placement_split {hs : UInt64} {n : Nat} {lf : Bool} {mode : ExtraMode} {lo ce : Bytes}
    {st : EntrySt} (hm : mode ≠ .shared) (h : extraPlacement hs n lf mode lo ce = .ok st) :
    st.localExtra = localPart mode lo ∧ st.extraField = ce ∧
    st.dataStart = prelim hs n lf + UInt64.ofNat (localPart mode lo).length ∧
    st.xlenField = base16 lf + UInt16.ofNat (localPart mode lo).length ∧
    WFExtra (localPart mode lo) ∧ (localPart mode lo).length + zip64LocalRecordLen lf ≤ 65535 ∧
    WFExtra ce ∧ ce.length + zip64LocalRecordLen lf ≤ 65535 := by
  rw [extraPlacement_eq] at h
  cases hv : validateExtraData lf (localPart mode lo) with
  | err e => rw [hv] at h; cases h
  | panic s => rw [hv] at h; cases h
  | ok u =>
    rw [hv] at h
    dsimp only at h
    by_cases h1 : (prelim hs n lf).toNat + (localPart mode lo).length < 18446744073709551616
    · rw [if_pos h1] at h
      by_cases h28 : hs.toNat + 28 < 18446744073709551616
      · rw [if_pos h28, if_neg hm] at h
        cases hc : validateExtraData lf ce with
        | err e => rw [hc] at h; cases h
        | panic s => rw [hc] at h; cases h
        | ok u' =>
          rw [hc] at h
          injection h with h
          subst h
          obtain ⟨w1, w2⟩ := (validateExtraData_ok_iff lf _).mp hv
          obtain ⟨w3, w4⟩ := (validateExtraData_ok_iff lf _).mp hc
          exact ⟨rfl, rfl, rfl, rfl, w1, w2, w3, w4⟩
      · rw [if_neg h28] at h; cases h
    · rw [if_neg h1] at h; cases h

/-- **Acceptance**: the sequence succeeds exactly when every part is a well-formed user extra
field that fits (and otherwise fails with an error — it never panics). -/
theorem extra_placement_ok_iff (hs : UInt64) (n : Nat) (lf : Bool) (mode : ExtraMode) (lo ce : Bytes)
    (hw : NoWrap hs n) :
    (∃ st, extraPlacement hs n lf mode lo ce = .ok st) ↔
      (WFExtra (localPart mode lo) ∧ (localPart mode lo).length + zip64LocalRecordLen lf ≤ 65535) ∧
      (mode = .shared ∨ (WFExtra ce ∧ ce.length + zip64LocalRecordLen lf ≤ 65535)) := by
  unfold NoWrap at hw
  have hr : zip64Reserve lf ≤ 20 := by cases lf <;> decide
  have hpre : (prelim hs n lf).toNat = hs.toNat + 30 + n + zip64Reserve lf := by
    unfold prelim
    rw [UInt64.toNat_add, UInt64.toNat_ofNat']
    omega
  rw [extraPlacement_eq, ← validateExtraData_ok_iff, ← validateExtraData_ok_iff]
  cases hv : validateExtraData lf (localPart mode lo) with
  | err e => exact ⟨fun ⟨_, h⟩ => (by cases h), fun ⟨h, _⟩ => (by cases h)⟩
  | panic s => exact ⟨fun ⟨_, h⟩ => (by cases h), fun ⟨h, _⟩ => (by cases h)⟩
  | ok u =>
    dsimp only
    have hlen := validate_ok_len hv
    have h1 : (prelim hs n lf).toNat + (localPart mode lo).length < 18446744073709551616 := by omega
    have h28 : hs.toNat + 28 < 18446744073709551616 := by omega
    rw [if_pos h1, if_pos h28]
    by_cases hm : mode = .shared
    · rw [if_pos hm]
      exact ⟨fun _ => ⟨rfl, Or.inl hm⟩, fun _ => ⟨_, rfl⟩⟩
    · rw [if_neg hm]
      cases hc : validateExtraData lf ce with
      | err e => exact ⟨fun ⟨_, h⟩ => (by cases h), fun ⟨_, h⟩ => (by rcases h with h | ⟨h, _⟩ <;> first | exact absurd h hm | cases h)⟩
      | panic s => exact ⟨fun ⟨_, h⟩ => (by cases h), fun ⟨_, h⟩ => (by rcases h with h | ⟨h, _⟩ <;> first | exact absurd h hm | cases h)⟩
      | ok u' => exact ⟨fun _ => ⟨rfl, Or.inr rfl⟩, fun _ => ⟨_, rfl⟩⟩

theorem extra_placement_no_panic (hs : UInt64) (n : Nat) (lf : Bool) (mode : ExtraMode) (lo ce : Bytes)
    (hw : NoWrap hs n) (s : String) : extraPlacement hs n lf mode lo ce ≠ .panic s := by
  unfold NoWrap at hw
  have hr : zip64Reserve lf ≤ 20 := by cases lf <;> decide
  have hpre : (prelim hs n lf).toNat = hs.toNat + 30 + n + zip64Reserve lf := by
    unfold prelim
    rw [UInt64.toNat_add, UInt64.toNat_ofNat']
    omega
  rw [extraPlacement_eq]
  cases hv : validateExtraData lf (localPart mode lo) with
  | err e => exact fun h => by cases h
  | panic s' => exact absurd hv (validateExtraData_no_panic _ _ _)
  | ok u =>
    dsimp only
    have hlen := validate_ok_len hv
    have h1 : (prelim hs n lf).toNat + (localPart mode lo).length < 18446744073709551616 := by omega
    have h28 : hs.toNat + 28 < 18446744073709551616 := by omega
    rw [if_pos h1, if_pos h28]
    split
    · exact fun h => by cases h
    · cases hc : validateExtraData lf ce with
      | err e => exact fun h => by cases h
      | panic s' => exact absurd hc (validateExtraData_no_panic _ _ _)
      | ok u' => exact fun h => by cases h

/-- The reader's data start agrees with the writer's after any successful extra-data sequence. -/
theorem extra_placement_reader_agrees {hs : UInt64} {n : Nat} {lf : Bool} {mode : ExtraMode}
    {lo ce : Bytes} {st : EntrySt} (hw : NoWrap hs n) (hn : n ≤ 65535)
    (h : extraPlacement hs n lf mode lo ce = .ok st) :
    readerDataStart hs (UInt16.ofNat n) st.xlenField = .ok st.dataStart := by
  unfold NoWrap at hw
  have hr : zip64Reserve lf ≤ 20 := by cases lf <;> decide
  have hpre : (prelim hs n lf).toNat = hs.toNat + 30 + n + zip64Reserve lf := by
    unfold prelim
    rw [UInt64.toNat_add, UInt64.toNat_ofNat']
    omega
  have hb : (base16 lf).toNat = zip64Reserve lf := by cases lf <;> rfl
  -- both modes leave `dataStart = prelim + len` and `xlenField = base + len` with `len + reserve ≤ 65535`
  obtain ⟨l, hds, hxl, hlen⟩ : ∃ l : Bytes, st.dataStart = prelim hs n lf + UInt64.ofNat l.length ∧
      st.xlenField = base16 lf + UInt16.ofNat l.length ∧ l.length + zip64Reserve lf ≤ 65535 := by
    by_cases hm : mode = .shared
    · subst hm
      obtain ⟨_, _, a, b, _, c⟩ := extra_placement_shared h
      exact ⟨lo, a, b, c⟩
    · obtain ⟨_, _, a, b, _, c, _, _⟩ := extra_placement_split hm h
      exact ⟨_, a, b, c⟩
  have en : (UInt16.ofNat n).toNat = n := by rw [UInt16.toNat_ofNat']; omega
  have e16 : (UInt16.ofNat l.length).toNat = l.length := by rw [UInt16.toNat_ofNat']; omega
  have e64 : (UInt64.ofNat l.length).toNat = l.length := by rw [UInt64.toNat_ofNat']; omega
  have hx : st.xlenField.toNat = zip64Reserve lf + l.length := by
    rw [hxl, UInt16.toNat_add, hb, e16]; omega
  unfold readerDataStart
  rw [en, hx]
  have hlt : hs.toNat + 30 + n + (zip64Reserve lf + l.length) < 18446744073709551616 := by omega
  rw [if_pos hlt]
  congr 1
  apply UInt64.toNat_inj.mp
  have e30 : (30 : UInt64).toNat = 30 := by decide
  rw [UInt64.toNat_add, UInt64.toNat_add, UInt64.toNat_add, UInt16.toNat_toUInt64,
    UInt16.toNat_toUInt64, en, e30, hx, hds, UInt64.toNat_add, hpre, e64]
  omega

-- shared / split / central-only on concrete data
example : (extraPlacement 0 1 false .shared [0x7a, 0x61, 0x01, 0x00, 0xff] []).isOk = true := by decide
example : extraPlacement 0 1 true .split [0x7a, 0x61, 0x01, 0x00, 0xff] [0xfe, 0xca, 0x00, 0x00] =
    .ok ⟨0, true, 56, [0xfe, 0xca, 0x00, 0x00], false, false, false, [0x7a, 0x61, 0x01, 0x00, 0xff], 25⟩ := by
  decide
example : extraPlacement 0 1 false .centralOnly [0x7a, 0x61, 0x01, 0x00, 0xff] [0xfe, 0xca, 0x00, 0x00] =
    .ok ⟨0, false, 31, [0xfe, 0xca, 0x00, 0x00], false, false, false, [], 0⟩ := by decide
example : extraPlacement 0 1 false .split [0x7a, 0x61, 0x00, 0x00] [0x01, 0x00, 0x00, 0x00] =
    .err (.io .other) := by decide

/-! ## 5. The central record at `finish`, and what the reader's `extra_data()` returns

`ZipFile::extra_data()` is the central record's WHOLE extra field.  `write_central_directory_header`
puts the ZIP64 record it generates itself in front of `file.extra_field`, so for an entry whose header
offset (or a size) is ≥ 0xFFFFFFFF the reader returns that record followed by the caller's central part —
not the central part alone (red-team finding A5: `align.start off=4294967296 …` returns
`cx=010008000000000001000000`).  The supplied bytes are a verbatim suffix in every case and the whole
answer exactly when no ZIP64 record is needed. -/

/-- The ZIP64 record is absent exactly when both sizes and the header offset are below the marker. -/
theorem central_zip64_nil_iff (st : EntrySt) (us cs : UInt64) :
    st.centralZip64 us cs = [] ↔
      ¬ (us ≥ Model.ZIP64_BYTES_THR ∨ cs ≥ Model.ZIP64_BYTES_THR ∨ st.headerStart ≥ Model.ZIP64_BYTES_THR) := by
  unfold EntrySt.centralZip64 Model.centralZip64Bytes
  by_cases hu : us ≥ Model.ZIP64_BYTES_THR <;>
  by_cases hc : cs ≥ Model.ZIP64_BYTES_THR <;>
  by_cases hh : st.headerStart ≥ Model.ZIP64_BYTES_THR <;>
  simp [hu, hc, hh, le16]

/-- For the entries of the `align` stream (sizes of a few bytes) the record is the header offset alone:
`01 00 08 00` and the 8-byte offset. -/
theorem central_zip64_offset_only (st : EntrySt) (us cs : UInt64)
    (hu : ¬ us ≥ Model.ZIP64_BYTES_THR) (hc : ¬ cs ≥ Model.ZIP64_BYTES_THR)
    (hh : st.headerStart ≥ Model.ZIP64_BYTES_THR) :
    st.centralZip64 us cs = le16 0x0001 ++ le16 8 ++ le64 st.headerStart := by
  unfold EntrySt.centralZip64 Model.centralZip64Bytes
  simp [hu, hc, hh]

theorem central_zip64_length_le (st : EntrySt) (us cs : UInt64) : (st.centralZip64 us cs).length ≤ 28 :=
  Model.centralZip64Bytes_length _

/-- `finish` fails on the central record exactly when the ZIP64 record and `extra_field` together exceed
the 16-bit length field — with `InvalidArchive`, before anything is written. -/
theorem central_extra_all_ok_iff (st : EntrySt) (us cs : UInt64) :
    (∃ x, st.centralExtraAll us cs = .ok x) ↔
      (st.centralZip64 us cs).length + st.extraField.length ≤ 65535 := by
  unfold EntrySt.centralExtraAll
  dsimp only
  by_cases h : (st.centralZip64 us cs).length + st.extraField.length > 65535
  · rw [if_pos h]
    constructor
    · rintro ⟨_, hx⟩; cases hx
    · intro hle; omega
  · rw [if_neg h]
    constructor
    · intro _; omega
    · intro _; exact ⟨_, rfl⟩

theorem central_extra_all_err {st : EntrySt} {us cs : UInt64}
    (h : (st.centralZip64 us cs).length + st.extraField.length > 65535) :
    st.centralExtraAll us cs = .err .invalidArchive := by
  unfold EntrySt.centralExtraAll
  dsimp only
  rw [if_pos h]

/-- **What the central record's extra field holds**: the regenerated ZIP64 record (present iff needed:
`central_zip64_nil_iff`), then the bytes of `extra_field` — the supplied central part is a verbatim
suffix, and the whole field when no ZIP64 record is needed. -/
theorem central_extra_all_eq {st : EntrySt} {us cs : UInt64} {x : Bytes}
    (h : st.centralExtraAll us cs = .ok x) :
    x = st.centralZip64 us cs ++ st.extraField ∧ st.extraField <:+ x ∧
    (¬ (us ≥ Model.ZIP64_BYTES_THR ∨ cs ≥ Model.ZIP64_BYTES_THR ∨ st.headerStart ≥ Model.ZIP64_BYTES_THR) →
      x = st.extraField) := by
  unfold EntrySt.centralExtraAll at h
  dsimp only at h
  split at h
  · cases h
  · injection h with h
    subst h
    refine ⟨rfl, List.suffix_append _ _, fun hz => ?_⟩
    rw [(central_zip64_nil_iff st us cs).mpr hz, List.nil_append]

/-- What the state after a successful extra-data sequence holds for `finish`: the header offset it was
started at and the central part (`lo` for the shared variant). -/
theorem extra_placement_central_part {hs : UInt64} {n : Nat} {lf : Bool} {mode : ExtraMode} {lo ce : Bytes}
    {st : EntrySt} (h : extraPlacement hs n lf mode lo ce = .ok st) :
    st.headerStart = hs ∧ st.largeFile = lf ∧ st.extraField = centralPart mode lo ce ∧
    validateExtraData lf st.extraField = .ok () := by
  rw [extraPlacement_eq] at h
  cases hv : validateExtraData lf (localPart mode lo) with
  | err e => rw [hv] at h; cases h
  | panic s => rw [hv] at h; cases h
  | ok u =>
    rw [hv] at h
    dsimp only at h
    split at h
    · split at h
      · split at h
        · rename_i hm
          injection h with h
          subst h
          subst hm
          exact ⟨rfl, rfl, rfl, hv⟩
        · rename_i hm
          cases hc : validateExtraData lf ce with
          | err e => rw [hc] at h; cases h
          | panic s => rw [hc] at h; cases h
          | ok u' =>
            rw [hc] at h
            injection h with h
            subst h
            refine ⟨rfl, rfl, ?_, hc⟩
            show ce = centralPart mode lo ce
            unfold centralPart; rw [if_neg hm]
      · cases h
    · cases h

/-- **The central part as the central record carries it**, for every variant of the call sequence: if
`finish` can write the record at all, its extra field is the ZIP64 record of the entry (exactly when
needed) followed by the supplied central part verbatim. -/
theorem extra_placement_central {hs : UInt64} {n : Nat} {lf : Bool} {mode : ExtraMode} {lo ce : Bytes}
    {st : EntrySt} (h : extraPlacement hs n lf mode lo ce = .ok st) {us cs : UInt64} {x : Bytes}
    (hx : st.centralExtraAll us cs = .ok x) :
    x = st.centralZip64 us cs ++ centralPart mode lo ce ∧ centralPart mode lo ce <:+ x ∧
    (¬ (us ≥ Model.ZIP64_BYTES_THR ∨ cs ≥ Model.ZIP64_BYTES_THR ∨ hs ≥ Model.ZIP64_BYTES_THR) →
      x = centralPart mode lo ce) := by
  obtain ⟨h1, _, h3, _⟩ := extra_placement_central_part h
  have := central_extra_all_eq hx
  rw [h3, h1] at this
  exact this

/-- **The reader returns exactly these bytes.**  For the finished record `f` of an entry whose extra
field passed `validate_extra_data`, `write_central_directory_header` succeeds whenever the ZIP64 record
and the extra field fit 65535 bytes, and `central_header_to_zip_file` (the reader model of
`Model/Records.lean`), run on the bytes written — at any position `p` of any stream that continues with
them — returns a record whose `extra_field`, i.e. `ZipFile::extra_data()`, is
`centralZip64Bytes f ++ f.extraField`, and whose header offset is the writer's. -/
theorem reader_returns_central_extra (f : Model.FileData) (dp : UInt16) (hdp : f.time.datepart = some dp)
    (hn : f.fileName.length ≤ 65535) (hv : validateExtraData f.largeFile f.extraField = .ok ())
    (hlen : (Model.centralZip64Bytes f).length + f.extraField.length ≤ 65535)
    (hdd : f.usingDataDescriptor = false) (hm : f.method.toU16 ≠ 99) (p : Nat) :
    ∃ cs g, Model.centralHeaderChunks f = .ok cs ∧
      Model.Parses (Model.centralHeader 0) p (Model.ser cs) g ∧
      g.extraField = Model.centralZip64Bytes f ++ f.extraField ∧ g.headerStart = f.headerStart :=
  WL.reader_on_written_central f dp hdp hn (WL.align_validate_extraOk hv) hlen hdd hm p

/-- The same, from a successful extra-data call sequence: any record `f` the writer finishes for that
entry (same header offset, `large_file` flag and `extra_field` as the state the calls left) reads back
with `extra_data()` = its ZIP64 record ++ the supplied central part. -/
theorem extra_placement_reader {hs : UInt64} {n : Nat} {lf : Bool} {mode : ExtraMode} {lo ce : Bytes}
    {st : EntrySt} (h : extraPlacement hs n lf mode lo ce = .ok st)
    (f : Model.FileData) (hfx : f.extraField = st.extraField) (hfl : f.largeFile = lf)
    (dp : UInt16) (hdp : f.time.datepart = some dp) (hn : f.fileName.length ≤ 65535)
    (hlen : (Model.centralZip64Bytes f).length + f.extraField.length ≤ 65535)
    (hdd : f.usingDataDescriptor = false) (hm : f.method.toU16 ≠ 99) (p : Nat) :
    ∃ cs g, Model.centralHeaderChunks f = .ok cs ∧
      Model.Parses (Model.centralHeader 0) p (Model.ser cs) g ∧
      g.extraField = Model.centralZip64Bytes f ++ centralPart mode lo ce := by
  obtain ⟨_, _, h3, h4⟩ := extra_placement_central_part h
  obtain ⟨cs, g, a, b, c, _⟩ := reader_returns_central_extra f dp hdp hn (by rw [hfl, hfx]; exact h4) hlen hdd hm p
  exact ⟨cs, g, a, b, by rw [c, hfx, h3]⟩

-- the A5 witness: header at 2^32, central part `fe ca 00 00`: the reader returns the 12-byte ZIP64 record first
example : (⟨4294967296, false, 4294967327, [0xfe, 0xca, 0, 0], false, false, false, [], 0⟩ : EntrySt).centralExtraAll 26 26 =
    .ok [0x01, 0x00, 0x08, 0x00, 0, 0, 0, 0, 1, 0, 0, 0, 0xfe, 0xca, 0, 0] := by decide
-- one byte below the marker: the central part alone
example : (⟨4294967294, false, 4294967325, [0xfe, 0xca, 0, 0], false, false, false, [], 0⟩ : EntrySt).centralExtraAll 26 26 =
    .ok [0xfe, 0xca, 0, 0] := by decide
-- `reader_returns_central_extra` instantiated: a record at offset 2^32 with one user record
/-- A finished record at header offset 2^32 with the user record `fe ca 00 00` (1980-01-01). -/
def witnessRecord : Model.FileData :=
  { (default : Model.FileData) with
    time := { year := 1980, month := 1, day := 1, hour := 0, minute := 0, second := 0 }
    headerStart := 4294967296
    extraField := [0xfe, 0xca, 0, 0] }

example : ∃ cs g, Model.centralHeaderChunks witnessRecord = .ok cs ∧
    Model.Parses (Model.centralHeader 0) 0 (Model.ser cs) g ∧
    g.extraField = [0x01, 0x00, 0x08, 0x00, 0, 0, 0, 0, 1, 0, 0, 0, 0xfe, 0xca, 0, 0] := by
  obtain ⟨cs, g, a, b, c, _⟩ := reader_returns_central_extra witnessRecord
    33 (by decide) (by decide) (by decide) (by decide) (by decide) (by decide) 0
  exact ⟨cs, g, a, b, by rw [c]; decide⟩

/-! ## 6. Accepted extra data can make the archive unfinishable (known finding K-G)

Full statement (FALSE): "extra data accepted by every extra-data call is stored" —
`extraPlacement hs n lf mode lo ce = .ok st → ∃ x, st.centralExtraAll us cs = .ok x`.
`validate_extra_data` reserves room only for the 20-byte LOCAL ZIP64 record of `large_file` entries; the
central record's own ZIP64 record (12..28 bytes) is not accounted for — and cannot be exactly, since the
sizes are not known when the data is validated.  What holds is the exact bound (`finish_central_ok_iff`),
the partial statements below, and a kernel-checked counterexample. -/

/-- **Exact bound**: `write_central_directory_header` succeeds iff the ZIP64 record plus the extra field
fit the 16-bit length (for every constructible timestamp); otherwise it fails with `InvalidArchive` — and
`finish` with it, on every later call as well (the entry stays in `files`). -/
theorem finish_central_ok_iff (f : Model.FileData) (dp : UInt16) (hdp : f.time.datepart = some dp) :
    (∃ cs, Model.centralHeaderChunks f = .ok cs) ↔
      (Model.centralZip64Bytes f).length + f.extraField.length ≤ 65535 := by
  constructor
  · rintro ⟨cs, h⟩
    apply Classical.byContradiction
    intro hgt
    have : Model.centralHeaderChunks f = .err .invalidArchive := by
      unfold Model.centralHeaderChunks
      simp only [show (Model.centralZip64Bytes f).length + f.extraField.length > 65535 by omega, if_true]
    rw [this] at h; cases h
  · intro hle
    exact ⟨_, WL.centralHeaderChunks_ok f dp hdp hle⟩

theorem finish_central_err (f : Model.FileData)
    (h : (Model.centralZip64Bytes f).length + f.extraField.length > 65535) :
    Model.centralHeaderChunks f = .err .invalidArchive := by
  unfold Model.centralHeaderChunks
  simp only [h, if_true]

/-- **Partial (1)**: accepted extra data is finishable whenever the entry needs no ZIP64 record (sizes and
header offset below 0xFFFFFFFF): the central record carries exactly the central part. -/
theorem extra_placement_finishable_partial {hs : UInt64} {n : Nat} {lf : Bool} {mode : ExtraMode}
    {lo ce : Bytes} {st : EntrySt} (h : extraPlacement hs n lf mode lo ce = .ok st) (us cs : UInt64)
    (hsmall : ¬ (us ≥ Model.ZIP64_BYTES_THR ∨ cs ≥ Model.ZIP64_BYTES_THR ∨ hs ≥ Model.ZIP64_BYTES_THR)) :
    st.centralExtraAll us cs = .ok (centralPart mode lo ce) := by
  obtain ⟨h1, _, h3, h4⟩ := extra_placement_central_part h
  have hz : st.centralZip64 us cs = [] := (central_zip64_nil_iff st us cs).mpr (by rw [h1]; exact hsmall)
  have hl := validate_ok_len h4
  unfold EntrySt.centralExtraAll
  dsimp only
  rw [hz, List.nil_append, List.length_nil, if_neg (by omega), h3]

/-- **Partial (2)**: … and in every case when the central part is at most 65507 bytes long. -/
theorem extra_placement_finishable_short {hs : UInt64} {n : Nat} {lf : Bool} {mode : ExtraMode}
    {lo ce : Bytes} {st : EntrySt} (h : extraPlacement hs n lf mode lo ce = .ok st) (us cs : UInt64)
    (hshort : (centralPart mode lo ce).length ≤ 65507) :
    ∃ x, st.centralExtraAll us cs = .ok x := by
  obtain ⟨_, _, h3, _⟩ := extra_placement_central_part h
  have := central_zip64_length_le st us cs
  exact (central_extra_all_ok_iff st us cs).mpr (by rw [h3]; omega)

/-- One record with ID 0xcafe and `k` zero bytes of data. -/
def bigRecord (k : Nat) : Bytes := Record.encode ⟨0xcafe, List.replicate k 0⟩

theorem bigRecord_length (k : Nat) : (bigRecord k).length = 4 + k := by
  simp [bigRecord, Record.encode, u16le]; omega

theorem bigRecord_valid (k : Nat) (hk : 4 + k ≤ 65535) : validateExtraData false (bigRecord k) = .ok () := by
  rw [validate_extra_iff]
  refine ⟨by rw [bigRecord_length]; exact hk, [⟨0xcafe, List.replicate k 0⟩], ?_, ?_⟩
  · intro r hr
    rw [List.mem_singleton] at hr
    subst hr
    refine ⟨⟨?_, ?_⟩, ?_⟩
    · show (0xcafe : Nat) < 65536
      decide
    · show (List.replicate k (0 : UInt8)).length < 65536
      rw [List.length_replicate]; omega
    · show (0xcafe : Nat) ≠ 0x0001 ∧ 31 < (0xcafe : Nat) ∧ (0xcafe : Nat) ∉ reservedIds
      decide
  · simp [encodeAll, bigRecord]

/-- **Counterexample to the full statement** (the K-G witness of the `align` stream): a non-large entry
whose header lies at offset 2^32, central-only extra data of 65524 bytes.  Every extra-data call accepts
it; the central record needs 12 + 65524 = 65536 bytes of extra field; `finish` fails with
`InvalidArchive`.  With 65523 bytes it succeeds. -/
theorem accepted_extra_unfinishable :
    (∃ st, extraPlacement 4294967296 1 false .centralOnly [] (bigRecord 65520) = .ok st ∧
        st.centralExtraAll 26 26 = .err .invalidArchive) ∧
    (∃ st x, extraPlacement 4294967296 1 false .centralOnly [] (bigRecord 65519) = .ok st ∧
        st.centralExtraAll 26 26 = .ok x) := by
  have hz : ∀ st : EntrySt, st.headerStart = 4294967296 → (st.centralZip64 26 26).length = 12 := by
    intro st h
    unfold EntrySt.centralZip64
    rw [h]
    decide
  constructor
  · obtain ⟨st, hst⟩ := (extra_placement_ok_iff 4294967296 1 false .centralOnly [] (bigRecord 65520) (by decide)).mpr
      ⟨(validateExtraData_ok_iff false _).mp (validate_nil false),
       Or.inr ((validateExtraData_ok_iff false _).mp (bigRecord_valid 65520 (by omega)))⟩
    obtain ⟨h1, _, h3, _⟩ := extra_placement_central_part hst
    refine ⟨st, hst, central_extra_all_err ?_⟩
    rw [hz st h1, h3, centralPart, if_neg (by decide), bigRecord_length]
    omega
  · obtain ⟨st, hst⟩ := (extra_placement_ok_iff 4294967296 1 false .centralOnly [] (bigRecord 65519) (by decide)).mpr
      ⟨(validateExtraData_ok_iff false _).mp (validate_nil false),
       Or.inr ((validateExtraData_ok_iff false _).mp (bigRecord_valid 65519 (by omega)))⟩
    obtain ⟨h1, _, h3, _⟩ := extra_placement_central_part hst
    obtain ⟨x, hx⟩ := (central_extra_all_ok_iff st 26 26).mpr (by
      rw [hz st h1, h3, centralPart, if_neg (by decide), bigRecord_length]
      omega)
    exact ⟨st, x, hst, hx⟩

/-! ## 7. The writer after a refusal (finding B6)

"Truncated records, the ZIP64 header ID and reserved header IDs are rejected with an error" — they are
(`validate_rejects_malformed`).  What the property text does not say, and the crate does: the refusal
leaves the writer in extra-field mode with the rejected bytes still in `extra_field`.  Every later
`start_*` and `finish` runs the same validation first and returns the SAME error with the state unchanged —
for ever —, nothing more reaches the sink (the entries written before are never given a central directory),
and a later `write` reports success and appends to the rejected extra field.  Stated over the full writer
state machine of `Model/Writer.lean` (the one tied to the source by `Tie.WriterSM` / the `write` stream). -/

/-- A refusal by `end_extra_data` because of the data (not because the writer is closed or not in
extra-field mode) IS the wedged state: the call returns the validation error and changes nothing. -/
theorem refused_extra_data_wedges (ext : Model.WExt) {s : Model.WState} {e : ZErr} (h : Model.Wedged s e) :
    Model.endExtraData ext s = pure (.error e, s) ∧
    Model.endLocalStartCentral ext s = pure (.error e, s) :=
  ⟨Model.endExtraData_wedged ext h, Model.endLocalStartCentral_wedged ext h⟩

/-- The refusal the C17 theorems speak about (`Model.Align.validateExtraData … = .err e`) is the one of
the writer model (bridge `Lemmas.ExtraBridge.validate_bridge`). -/
theorem wedged_of_refusal {s : Model.WState} {file : Model.FileData} {e : ZErr}
    (hx : s.writingToExtraField = true) (hc : s.inner.isClosed = false)
    (hl : s.files.getLast? = some file)
    (hv : validateExtraData file.largeFile file.extraField = .err e) : Model.Wedged s e := by
  refine ⟨hx, hc, file, hl, ?_⟩
  rw [Lemmas.ExtraBridge.validate_bridge] at hv
  cases hw : Model.validateExtraData file with
  | ok u => rw [hw] at hv; cases hv
  | error e' => rw [hw] at hv; injection hv with hv; rw [hv]

/-- **Every later `start_*` and `finish` fails with the same error and leaves the writer as it was** —
hence still wedged, so this holds for every later call as well. -/
theorem wedged_forever (ext : Model.WExt) {s : Model.WState} {e : ZErr} (h : Model.Wedged s e)
    (name : Bytes) (o : Model.FileOptions) (al : UInt16) (hn : name.length ≤ 65535)
    (hc : s.comment.length ≤ 65535) :
    Model.startFile ext name o s = pure (.error e, s) ∧
    Model.startFileWithExtraData ext name o s = pure (.error e, s) ∧
    Model.startFileAligned ext name o al s = pure (.error e, s) ∧
    Model.finish ext s = pure (.error e, s) :=
  ⟨Model.startFile_wedged ext name o h hn, Model.startFileWithExtraData_wedged ext name o h hn,
   Model.startFileAligned_wedged ext name o al h hn, Model.finish_wedged ext h hc⟩

/-- **A later `write` goes into the rejected extra field** (and reports success): the only way on is to
complete the data into something valid — impossible once a reserved or ZIP64 ID has been written. -/
theorem wedged_write_lands_in_extra_field (buf : Bytes) {s : Model.WState} {e : ZErr} (h : Model.Wedged s e)
    (hb : buf.isEmpty = false) (hw : s.writingToFile = true) :
    ∃ f, s.files.getLast? = some f ∧
      Model.writeData buf s =
        pure (.ok (), { s with files := Model.setLast s.files { f with extraField := f.extraField ++ buf } }) :=
  Model.writeData_wedged buf h hb hw

-- a wedged writer: one open entry whose extra field is a ZIP64 record
example : Model.Wedged
    { Model.WState.init with
        files := [{ (default : Model.FileData) with extraField := [0x01, 0x00, 0x00, 0x00] }],
        writingToFile := true, writingToExtraField := true } (.io .other) :=
  ⟨rfl, rfl, _, rfl, rfl⟩

end ZipVerif.Props.C17
