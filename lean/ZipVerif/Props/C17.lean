import ZipVerif.Lemmas.Align
/-
C17 — Aligned entries are aligned; extra data lands where requested.
Property theorems only; helper lemmas are in `Lemmas/Align.lean`, the model in `Model/Align.lean`,
the APPNOTE record grammar in `Spec/Extra.lean`.
-/

namespace ZipVerif.Props.C17
open ZipVerif ZipVerif.Model.Align ZipVerif.Spec.Extra

/-- The header, the name, the ZIP64 record and a maximal extra field all lie below 2^64
(65585 = 30 + 20 + 65535): no `u64` offset computation near this entry can wrap. -/
def NoWrap (hs : UInt64) (nameLen : Nat) : Prop := hs.toNat + nameLen + 65585 < 18446744073709551616

instance (hs : UInt64) (n : Nat) : Decidable (NoWrap hs n) := by unfold NoWrap; infer_instance

example : NoWrap 0 5 := by decide
example : NoWrap 4294967296000 65535 := by decide

/-! ## 1. The padding arithmetic -/

/-- **The pad the crate computes aligns the data**: with the 4-byte record header in front, the
padded offset is a multiple of the alignment, and the pad is smaller than the alignment. -/
theorem pad_correct (ds a : UInt64) (ha : 1 < a) (h4 : ds.toNat + 4 < 18446744073709551616) :
    (ds.toNat + 4 + (padLength ds a).toNat) % a.toNat = 0 ∧ (padLength ds a).toNat < a.toNat := by
  have ha' : 0 < a.toNat := by
    have := UInt64.lt_iff_toNat_lt.mp ha
    have e : (1 : UInt64).toNat = 1 := by decide
    omega
  rw [padLength_toNat ds a h4 ha']
  exact ⟨padNat_aligned _ _ ha', padNat_lt _ _ ha'⟩

example : padLength 31 64 = 29 ∧ (31 + 4 + 29) % 64 = 0 := by decide

/-- The subtraction `align - (data_start + 4) % align` cannot underflow. -/
theorem pad_sub_no_underflow (ds a : UInt64) (ha : 0 < a.toNat) :
    ((ds + 4) % a).toNat ≤ a.toNat := by
  rw [UInt64.toNat_mod]; exact Nat.le_of_lt (Nat.mod_lt _ ha)

/-- `pad.len() as u16` loses nothing: the pad is below the 16-bit alignment. -/
theorem pad_cast_lossless (ds : UInt64) (al : UInt16) (ha : 1 < al.toNat)
    (h4 : ds.toNat + 4 < 18446744073709551616) :
    (padLength ds al.toUInt64).toUInt16.toNat = (padLength ds al.toUInt64).toNat := by
  have h := padLength_toNat ds al.toUInt64 h4 (by rw [UInt16.toNat_toUInt64]; omega)
  rw [UInt16.toNat_toUInt64] at h
  have := padNat_lt ds.toNat al.toNat (by omega)
  have := al.toNat_lt
  rw [UInt64.toNat_toUInt16, h]
  omega

/-- The pad is the *only* value below the alignment that aligns the data … -/
theorem pad_unique (d a p : Nat) (ha : 0 < a) (hp : p < a) (h : (d + 4 + p) % a = 0) :
    p = padNat d a := by
  have hq := padNat_lt d a ha
  have h' := padNat_aligned d a ha
  have d1 := Nat.dvd_of_mod_eq_zero h
  have d2 := Nat.dvd_of_mod_eq_zero h'
  rcases Nat.le_total p (padNat d a) with hle | hle
  · have hd : a ∣ padNat d a - p := by
      have := Nat.dvd_sub d2 d1
      have e : d + 4 + padNat d a - (d + 4 + p) = padNat d a - p := by omega
      rwa [e] at this
    have := Nat.eq_zero_of_dvd_of_lt hd (by omega)
    omega
  · have hd : a ∣ p - padNat d a := by
      have := Nat.dvd_sub d1 d2
      have e : d + 4 + p - (d + 4 + padNat d a) = p - padNat d a := by omega
      rwa [e] at this
    have := Nat.eq_zero_of_dvd_of_lt hd (by omega)
    omega

/-- … hence the smallest padding that does. -/
theorem pad_minimal (d a p : Nat) (ha : 0 < a) (h : (d + 4 + p) % a = 0) : padNat d a ≤ p := by
  rcases Nat.lt_or_ge p (padNat d a) with hlt | hge
  · have := padNat_lt d a ha
    have := pad_unique d a p ha (by omega) h
    omega
  · exact hge

example : padNat 31 64 = 29 := by decide

/-! ## 2. `start_file_aligned` -/

/-- **A successfully started aligned entry is aligned** (no side condition): whenever the call
returns `Ok`, the alignment is 0 or 1, or the final data offset is a multiple of it. -/
theorem aligned_ok {hs : UInt64} {n : Nat} {lf : Bool} {al : UInt16} {r : AlignResult}
    (h : alignedPlacement hs n lf al = .ok r) : al.toNat ≤ 1 ∨ r.dataStart.toNat % al.toNat = 0 := by
  rw [alignedPlacement_eq] at h
  split at h
  · cases h
  split at h
  · rename_i hp
    right
    split at h
    · rename_i h4
      dsimp only at h
      split at h
      · cases h
      split at h
      · rename_i hv h1
        split at h
        · injection h with h
          subst h
          show (prelim hs n lf + UInt64.ofNat (4 + padNat (prelim hs n lf).toNat al.toNat)).toNat % _ = 0
          have hlt := padNat_lt (prelim hs n lf).toNat al.toNat (by omega)
          have := al.toNat_lt
          have e64 : (UInt64.ofNat (4 + padNat (prelim hs n lf).toNat al.toNat)).toNat =
              4 + padNat (prelim hs n lf).toNat al.toNat := by
            rw [UInt64.toNat_ofNat']; omega
          rw [UInt64.toNat_add, e64, Nat.mod_eq_of_lt h1, ← Nat.add_assoc]
          exact padNat_aligned _ _ (by omega)
        · cases h
      · cases h
    · cases h
  · rename_i hp
    split at h
    · injection h with h
      subst h
      show al.toNat ≤ 1 ∨ (prelim hs n lf).toNat % al.toNat = 0
      by_cases h1 : 1 < al.toNat
      · right
        exact Classical.byContradiction fun hne => hp ⟨h1, hne⟩
      · left; omega
    · cases h

/-- The only panics of the model of `start_file_aligned` are `u64` offset overflows. -/
theorem aligned_panic_sites {hs : UInt64} {n : Nat} {lf : Bool} {al : UInt16} {s : String}
    (h : alignedPlacement hs n lf al = .panic s) :
    s = "write.rs end_extra_data: header_start + 28" ∨
    s = "write.rs end_extra_data: data_start + len" ∨
    s = "write.rs start_file_aligned: data_start + 4" := by
  rw [alignedPlacement_eq] at h
  split at h
  · cases h
  split at h
  · split at h
    · dsimp only at h
      split at h
      · cases h
      split at h
      · split at h
        · cases h
        · injection h with h; exact Or.inl h.symm
      · injection h with h; exact Or.inr (Or.inl h.symm)
    · injection h with h; exact Or.inr (Or.inr h.symm)
  · split at h
    · cases h
    · injection h with h; exact Or.inl h.symm

/-- **The `assert_eq!` in `start_file_aligned` is unreachable** … -/
theorem aligned_assert_unreachable (hs : UInt64) (n : Nat) (lf : Bool) (al : UInt16) :
    alignedPlacement hs n lf al ≠ .panic "write.rs start_file_aligned: assert_eq" := by
  intro h
  rcases aligned_panic_sites h with e | e | e <;> exact absurd e (by decide)

/-- … and so are the `20 + len as u16` addition (the length check in `validate_extra_data` comes
first), `align - x % align` and `extra_data_end - data_start`. -/
theorem aligned_u16_add_unreachable (hs : UInt64) (n : Nat) (lf : Bool) (al : UInt16) :
    alignedPlacement hs n lf al ≠ .panic "write.rs end_extra_data: 20 + len as u16" ∧
    alignedPlacement hs n lf al ≠ .panic "write.rs start_file_aligned: align - x % align" ∧
    alignedPlacement hs n lf al ≠ .panic "write.rs start_file_aligned: extra_data_end - data_start" := by
  refine ⟨?_, ?_, ?_⟩ <;> intro h <;>
    rcases aligned_panic_sites h with e | e | e <;> exact absurd e (by decide)

/-- **Closed form**: away from the 2^64 boundary the call either refuses with `InvalidArchive`
(name too long), refuses with `io::ErrorKind::InvalidData` (the padding record, plus the ZIP64
record of a large file, does not fit the 16-bit extra-field length), or succeeds with the
minimal padding. -/
theorem aligned_closed_form (hs : UInt64) (n : Nat) (lf : Bool) (al : UInt16) (hw : NoWrap hs n) :
    alignedPlacement hs n lf al =
      let ds := hs.toNat + 30 + n + zip64Reserve lf
      let pad := padNat ds al.toNat
      if n > 65535 then .err .invalidArchive
      else if 1 < al.toNat ∧ ds % al.toNat ≠ 0 then
        if 4 + pad + zip64Reserve lf > 65535 then .err (.io .invalidData)
        else .ok ⟨UInt64.ofNat (4 + pad), UInt64.ofNat (ds + 4 + pad),
                  UInt16.ofNat (zip64Reserve lf + 4 + pad), zaBytes pad, []⟩
      else .ok ⟨0, UInt64.ofNat ds, UInt16.ofNat (zip64Reserve lf), [], []⟩ := by
  unfold NoWrap at hw
  have hr : zip64Reserve lf ≤ 20 := by cases lf <;> decide
  rw [alignedPlacement_eq]
  dsimp only
  by_cases hn : n > 65535
  · rw [if_pos hn, if_pos hn]
  rw [if_neg hn, if_neg hn]
  have hpre : (prelim hs n lf).toNat = hs.toNat + 30 + n + zip64Reserve lf := by
    unfold prelim
    rw [UInt64.toNat_add, UInt64.toNat_ofNat']
    omega
  have hpreq : prelim hs n lf = UInt64.ofNat (hs.toNat + 30 + n + zip64Reserve lf) := by
    apply UInt64.toNat_inj.mp
    rw [hpre, UInt64.toNat_ofNat']; omega
  have hb : base16 lf = UInt16.ofNat (zip64Reserve lf) := by cases lf <;> rfl
  have h28 : hs.toNat + 28 < 18446744073709551616 := by omega
  rw [hpre, if_pos h28, if_pos h28]
  by_cases hp : 1 < al.toNat ∧ (hs.toNat + 30 + n + zip64Reserve lf) % al.toNat ≠ 0
  · rw [if_pos hp, if_pos hp]
    have h4 : hs.toNat + 30 + n + zip64Reserve lf + 4 < 18446744073709551616 := by omega
    rw [if_pos h4]
    by_cases hv : 4 + padNat (hs.toNat + 30 + n + zip64Reserve lf) al.toNat + zip64Reserve lf > 65535
    · rw [if_pos hv, if_pos hv]
    · rw [if_neg hv, if_neg hv]
      have h1 : hs.toNat + 30 + n + zip64Reserve lf +
          (4 + padNat (hs.toNat + 30 + n + zip64Reserve lf) al.toNat) < 18446744073709551616 := by omega
      rw [if_pos h1, hpreq, hb]
      congr 2
      · apply UInt64.toNat_inj.mp
        rw [UInt64.toNat_add, UInt64.toNat_ofNat', UInt64.toNat_ofNat', UInt64.toNat_ofNat']
        omega
      · apply UInt16.toNat_inj.mp
        rw [UInt16.toNat_add, UInt16.toNat_ofNat', UInt16.toNat_ofNat', UInt16.toNat_ofNat']
        omega
  · rw [if_neg hp, if_neg hp, hpreq, hb]

/-- **No panic**: `start_file_aligned` never panics for any alignment, name length and
`large_file` setting (away from the 2^64 boundary).  This is the full statement; before the
`fix:` of the extra-length check it failed for `large_file` with a pad of 65512..65531
(`20 + len as u16` overflowed). -/
theorem aligned_no_panic (hs : UInt64) (n : Nat) (lf : Bool) (al : UInt16) (hw : NoWrap hs n) (s : String) :
    alignedPlacement hs n lf al ≠ .panic s := by
  rw [aligned_closed_form hs n lf al hw]
  dsimp only
  split
  · exact fun h => by cases h
  split
  · split
    · exact fun h => by cases h
    · exact fun h => by cases h
  · exact fun h => by cases h

/-- **A request that cannot be honoured is refused with an error**, and only such a request:
the call fails exactly when the name is longer than 65535 bytes or padding is needed and the
padding record (4 + pad bytes, + 20 for a large file) exceeds the 16-bit extra-field length. -/
theorem aligned_refused_iff (hs : UInt64) (n : Nat) (lf : Bool) (al : UInt16) (hw : NoWrap hs n) :
    (∃ e, alignedPlacement hs n lf al = .err e) ↔
      n > 65535 ∨
      (1 < al.toNat ∧ (hs.toNat + 30 + n + zip64Reserve lf) % al.toNat ≠ 0 ∧
        4 + padNat (hs.toNat + 30 + n + zip64Reserve lf) al.toNat + zip64Reserve lf > 65535) := by
  rw [aligned_closed_form hs n lf al hw]
  dsimp only
  by_cases hn : n > 65535
  · rw [if_pos hn]
    exact ⟨fun _ => Or.inl hn, fun _ => ⟨_, rfl⟩⟩
  rw [if_neg hn]
  by_cases hp : 1 < al.toNat ∧ (hs.toNat + 30 + n + zip64Reserve lf) % al.toNat ≠ 0
  · rw [if_pos hp]
    by_cases hv : 4 + padNat (hs.toNat + 30 + n + zip64Reserve lf) al.toNat + zip64Reserve lf > 65535
    · rw [if_pos hv]
      exact ⟨fun _ => Or.inr ⟨hp.1, hp.2, hv⟩, fun _ => ⟨_, rfl⟩⟩
    · rw [if_neg hv]
      constructor
      · rintro ⟨e, he⟩; cases he
      · rintro (h | ⟨_, _, h⟩)
        · exact absurd h hn
        · exact absurd h hv
  · rw [if_neg hp]
    constructor
    · rintro ⟨e, he⟩; cases he
    · rintro (h | ⟨h1, h2, _⟩)
      · exact absurd h hn
      · exact absurd ⟨h1, h2⟩ hp

/-- What a successful call reports and leaves behind: the returned value is the number of bytes
added (0, or 4 + the minimal pad), the data start moved by exactly that much, the local
extra-length field counts it (plus the ZIP64 record), the local header holds exactly the `za`
padding record and **nothing of it reaches the central record**. -/
theorem aligned_reports {hs : UInt64} {n : Nat} {lf : Bool} {al : UInt16} {r : AlignResult}
    (hw : NoWrap hs n) (h : alignedPlacement hs n lf al = .ok r) :
    r.dataStart.toNat = hs.toNat + 30 + n + zip64Reserve lf + r.ret.toNat ∧
    r.xlenField.toNat = zip64Reserve lf + r.ret.toNat ∧
    r.localExtra.length = r.ret.toNat ∧
    r.centralExtra = [] ∧
    ((r.ret = 0 ∧ r.localExtra = []) ∨
     (r.ret.toNat = 4 + padNat (hs.toNat + 30 + n + zip64Reserve lf) al.toNat ∧
      r.localExtra = zaBytes (padNat (hs.toNat + 30 + n + zip64Reserve lf) al.toNat))) := by
  have hw' := hw
  unfold NoWrap at hw'
  have hr : zip64Reserve lf ≤ 20 := by cases lf <;> decide
  rw [aligned_closed_form hs n lf al hw] at h
  dsimp only at h
  split at h
  · cases h
  split at h
  · rename_i hp
    split at h
    · cases h
    · rename_i hv
      injection h with h
      subst h
      have hlt := padNat_lt (hs.toNat + 30 + n + zip64Reserve lf) al.toNat (by omega)
      have := al.toNat_lt
      refine ⟨?_, ?_, ?_, rfl, Or.inr ⟨?_, rfl⟩⟩
      · show (UInt64.ofNat _).toNat = _ + (UInt64.ofNat _).toNat
        rw [UInt64.toNat_ofNat', UInt64.toNat_ofNat']; omega
      · show (UInt16.ofNat _).toNat = _ + (UInt64.ofNat _).toNat
        rw [UInt16.toNat_ofNat', UInt64.toNat_ofNat']; omega
      · show (zaBytes _).length = (UInt64.ofNat _).toNat
        rw [zaBytes_length, UInt64.toNat_ofNat']; omega
      · show (UInt64.ofNat _).toNat = _
        rw [UInt64.toNat_ofNat']; omega
  · injection h with h
    subst h
    refine ⟨?_, ?_, rfl, rfl, Or.inl ⟨rfl, rfl⟩⟩
    · show (UInt64.ofNat _).toNat = _ + (0 : UInt64).toNat
      rw [UInt64.toNat_ofNat']
      have e : (0 : UInt64).toNat = 0 := rfl
      omega
    · show (UInt16.ofNat _).toNat = _ + (0 : UInt64).toNat
      rw [UInt16.toNat_ofNat']
      have e : (0 : UInt64).toNat = 0 := rfl
      omega

/-- **The reader reports the same offset**: `find_content` recomputes the data start from the
local header's own name-length and extra-length fields and arrives at the writer's final
`data_start` (where the content was written), so the content is read back from where it is. -/
theorem aligned_reader_agrees {hs : UInt64} {n : Nat} {lf : Bool} {al : UInt16} {r : AlignResult}
    (hw : NoWrap hs n) (h : alignedPlacement hs n lf al = .ok r) :
    readerDataStart hs (UInt16.ofNat n) r.xlenField = .ok r.dataStart := by
  have hn : n ≤ 65535 := by
    rw [alignedPlacement_eq] at h
    split at h
    · cases h
    · omega
  obtain ⟨h1, h2, h3, -, -⟩ := aligned_reports hw h
  have hw' := hw
  unfold NoWrap at hw'
  have hr : zip64Reserve lf ≤ 20 := by cases lf <;> decide
  have hx := r.xlenField.toNat_lt
  have en : (UInt16.ofNat n).toNat = n := by rw [UInt16.toNat_ofNat']; omega
  unfold readerDataStart
  rw [en]
  have hlt : hs.toNat + 30 + n + r.xlenField.toNat < 18446744073709551616 := by omega
  rw [if_pos hlt]
  congr 1
  apply UInt64.toNat_inj.mp
  have e30 : (30 : UInt64).toNat = 30 := by decide
  rw [UInt64.toNat_add, UInt64.toNat_add, UInt64.toNat_add, UInt16.toNat_toUInt64,
    UInt16.toNat_toUInt64, en, e30, h1, h2]
  omega

/-! Non-vacuity and the boundary of the 16-bit extra-field length (the former defect D7). -/

-- an ordinary aligned entry: header at 0, 1-byte name, align 64 → 29 zero bytes in a `za` record
example : alignedPlacement 0 1 false 64 =
    .ok ⟨33, 64, 33, zaBytes 29, []⟩ := by
  rw [aligned_closed_form 0 1 false 64 (by decide)]; rfl
-- already aligned, alignment 0 and 1: nothing is written
example : alignedPlacement 34 0 false 64 = .ok ⟨0, 64, 0, [], []⟩ := by
  rw [aligned_closed_form _ _ _ _ (by decide)]; rfl
example : alignedPlacement 0 1 true 0 = .ok ⟨0, 51, 20, [], []⟩ := by
  rw [aligned_closed_form _ _ _ _ (by decide)]; rfl
-- the largest pad that fits without / with the ZIP64 record (65531 / 65511) succeeds …
example : alignedPlacement 65500 1 false 65533 =
    .ok ⟨65535, 131066, 65535, zaBytes 65531, []⟩ := by
  rw [aligned_closed_form _ _ _ _ (by decide)]; rfl
example : alignedPlacement 65504 1 true 65535 =
    .ok ⟨65515, 131070, 65535, zaBytes 65511, []⟩ := by
  rw [aligned_closed_form _ _ _ _ (by decide)]; rfl
-- … one more byte is refused with an error: for `large_file` this input (pad 65512) made
-- `20 + len as u16` overflow (panic) before the fix; it is now `InvalidData`
example : alignedPlacement 65503 1 true 65535 = .err (.io .invalidData) := by
  rw [aligned_closed_form _ _ _ _ (by decide)]; rfl
example : alignedPlacement 65503 1 false 65535 = .err (.io .invalidData) := by
  rw [aligned_closed_form _ _ _ _ (by decide)]; rfl
example : alignedPlacement 0 65536 false 64 = .err .invalidArchive := by
  rw [aligned_closed_form _ _ _ _ (by decide)]; rfl

/-! ## 3. `validate_extra_data` accepts exactly the well-formed user extra fields -/

/-- **Validation = APPNOTE 4.5 grammar**: the data is accepted iff it is a sequence of complete
records with user-writable header IDs (not 0x0001, not 0..31, not a defined or registered ID)
that fits the 16-bit extra-field length. -/
theorem validate_extra_iff (ed : Bytes) : validateExtraData false ed = .ok () ↔ WFExtra ed := by
  rw [validateExtraData_ok_iff]
  constructor
  · exact fun h => h.1
  · intro h
    exact ⟨h, by have := h.1; show ed.length + 0 ≤ 65535; omega⟩

/-- For a `large_file` entry the 20-byte ZIP64 record shares the local field, so 20 bytes less
are available. -/
theorem validate_extra_large_iff (large : Bool) (ed : Bytes) :
    validateExtraData large ed = .ok () ↔
      WFExtra ed ∧ ed.length + zip64LocalRecordLen large ≤ 65535 :=
  validateExtraData_ok_iff large ed

/-- Validation never panics: everything that is not accepted is refused with an `io::Error`
(`InvalidData` for an over-long field, `Other` for everything else). -/
theorem validate_extra_total (large : Bool) (ed : Bytes) :
    validateExtraData large ed = .ok () ∨
    validateExtraData large ed = .err (.io .invalidData) ∨
    validateExtraData large ed = .err (.io .other) := by
  unfold validateExtraData
  split
  · exact Or.inr (Or.inl rfl)
  · rename_i hlen
    clear hlen
    generalize hf : ed.length = fuel
    have hle : ed.length ≤ fuel := by omega
    clear hf
    fun_induction validateLoop fuel ed with
    | case1 => exact Or.inl rfl
    | case2 => simp at hle
    | case3 => exact Or.inr (Or.inr rfl)
    | case4 => exact Or.inr (Or.inr rfl)
    | case5 => exact Or.inr (Or.inr rfl)
    | case6 fuel a b c d rest kind size hk hr r hd ih =>
      apply ih
      obtain ⟨p, _, hrest⟩ := dropExact_some hd
      rw [hrest] at hle
      simp only [List.length_cons, List.length_append] at hle
      omega
    | case7 => exact Or.inr (Or.inr rfl)

/-- **Truncated records, the ZIP64 header ID and reserved header IDs are rejected with an
error**, wherever they occur: after any number of good records, a remainder that is a truncated
header, starts with a record whose ID is 0x0001 / in 0..31 / defined or registered, or declares
more data than is left. -/
theorem validate_rejects_malformed (large : Bool) (rs : List Record)
    (hrs : ∀ r ∈ rs, r.Fits ∧ r.Allowed) (tail : Bytes) (h : Malformed tail) :
    validateExtraData large (encodeAll rs ++ tail) = .err (.io .invalidData) ∨
    validateExtraData large (encodeAll rs ++ tail) = .err (.io .other) :=
  validateExtraData_malformed large rs hrs tail h

/-- The crate's reserved-ID table is the APPNOTE list (4.5.2 ++ 4.6.1). -/
theorem reserved_table_is_appnote : extraFieldMapping.map UInt16.toNat = reservedIds :=
  extraFieldMapping_toNat

-- accepted: the `za` padding record, an empty field, two records
example : WFExtra [0x7a, 0x61, 0x02, 0x00, 0x00, 0x00] := (validate_extra_iff _).mp (by decide)
example : WFExtra [] := (validate_extra_iff _).mp (by decide)
example : validateExtraData true [0xfe, 0xca, 0x00, 0x00, 0x7a, 0x61, 0x01, 0x00, 0xff] = .ok () := by decide
-- rejected: ZIP64 ID, an ID ≤ 31, a registered ID (0x5455 extended timestamp), a truncated
-- header, a truncated payload
example : ¬ WFExtra [0x01, 0x00, 0x00, 0x00] := fun h => absurd ((validate_extra_iff _).mpr h) (by decide)
example : validateExtraData false [0x1f, 0x00, 0x00, 0x00] = .err (.io .other) := by decide
example : validateExtraData false [0x55, 0x54, 0x00, 0x00] = .err (.io .other) := by decide
example : validateExtraData false [0x7a, 0x61, 0x00] = .err (.io .other) := by decide
example : validateExtraData false [0x7a, 0x61, 0x02, 0x00, 0xaa] = .err (.io .other) := by decide
example : Malformed [0x7a, 0x61, 0x00] := .shortHeader _ (by decide) (by decide)
example : Malformed (Record.encode ⟨0x0001, [1, 2]⟩ ++ [9]) :=
  .badId _ _ (by decide) (by decide)

/-! ## 4. Where the extra data lands -/

/-- **Shared extra data** (`start_file_with_extra_data; write…; end_extra_data`): on success the
local header and the central record both carry the written bytes verbatim, the local
extra-length field and the data start account for them, and the data was well-formed. -/
theorem extra_placement_shared {hs : UInt64} {n : Nat} {lf : Bool} {lo ce : Bytes} {st : EntrySt}
    (h : extraPlacement hs n lf .shared lo ce = .ok st) :
    st.localExtra = lo ∧ st.extraField = lo ∧
    st.dataStart = prelim hs n lf + UInt64.ofNat lo.length ∧
    st.xlenField = base16 lf + UInt16.ofNat lo.length ∧
    WFExtra lo ∧ lo.length + zip64LocalRecordLen lf ≤ 65535 := by
  rw [extraPlacement_eq] at h
  have hl : localPart .shared lo = lo := rfl
  rw [hl] at h
  cases hv : validateExtraData lf lo with
  | err e => rw [hv] at h; cases h
  | panic s => rw [hv] at h; cases h
  | ok u =>
    rw [hv] at h
    dsimp only at h
    by_cases h1 : (prelim hs n lf).toNat + lo.length < 18446744073709551616
    · rw [if_pos h1] at h
      by_cases h28 : hs.toNat + 28 < 18446744073709551616
      · rw [if_pos h28, if_pos rfl] at h
        injection h with h
        subst h
        obtain ⟨w1, w2⟩ := (validateExtraData_ok_iff lf lo).mp hv
        exact ⟨rfl, rfl, rfl, rfl, w1, w2⟩
      · rw [if_neg h28] at h; cases h
    · rw [if_neg h1] at h; cases h

/-- **Split extra data** (`…; write local…; end_local_start_central_extra_data; write central…;
end_extra_data`; `centralOnly` writes no local part): on success the local part is *only* in the
local header and the central part *only* in the central record (which is what the reader's
`extra_data()` returns), both verbatim; the data start and the local extra-length field depend
on the local part alone; both parts were well-formed. -/
theorem extra_placement_split {hs : UInt64} {n : Nat} {lf : Bool} {mode : ExtraMode} {lo ce : Bytes}
    {st : EntrySt} (hm : mode ≠ .shared) (h : extraPlacement hs n lf mode lo ce = .ok st) :
    st.localExtra = localPart mode lo ∧ st.extraField = ce ∧
    st.dataStart = prelim hs n lf + UInt64.ofNat (localPart mode lo).length ∧
    st.xlenField = base16 lf + UInt16.ofNat (localPart mode lo).length ∧
    WFExtra (localPart mode lo) ∧ (localPart mode lo).length + zip64LocalRecordLen lf ≤ 65535 ∧
    WFExtra ce ∧ ce.length + zip64LocalRecordLen lf ≤ 65535 := by
  rw [extraPlacement_eq] at h
  cases hv : validateExtraData lf (localPart mode lo) with
  | err e => rw [hv] at h; cases h
  | panic s => rw [hv] at h; cases h
  | ok u =>
    rw [hv] at h
    dsimp only at h
    by_cases h1 : (prelim hs n lf).toNat + (localPart mode lo).length < 18446744073709551616
    · rw [if_pos h1] at h
      by_cases h28 : hs.toNat + 28 < 18446744073709551616
      · rw [if_pos h28, if_neg hm] at h
        cases hc : validateExtraData lf ce with
        | err e => rw [hc] at h; cases h
        | panic s => rw [hc] at h; cases h
        | ok u' =>
          rw [hc] at h
          injection h with h
          subst h
          obtain ⟨w1, w2⟩ := (validateExtraData_ok_iff lf _).mp hv
          obtain ⟨w3, w4⟩ := (validateExtraData_ok_iff lf _).mp hc
          exact ⟨rfl, rfl, rfl, rfl, w1, w2, w3, w4⟩
      · rw [if_neg h28] at h; cases h
    · rw [if_neg h1] at h; cases h

/-- **Acceptance**: the sequence succeeds exactly when every part is a well-formed user extra
field that fits (and otherwise fails with an error — it never panics). -/
theorem extra_placement_ok_iff (hs : UInt64) (n : Nat) (lf : Bool) (mode : ExtraMode) (lo ce : Bytes)
    (hw : NoWrap hs n) :
    (∃ st, extraPlacement hs n lf mode lo ce = .ok st) ↔
      (WFExtra (localPart mode lo) ∧ (localPart mode lo).length + zip64LocalRecordLen lf ≤ 65535) ∧
      (mode = .shared ∨ (WFExtra ce ∧ ce.length + zip64LocalRecordLen lf ≤ 65535)) := by
  unfold NoWrap at hw
  have hr : zip64Reserve lf ≤ 20 := by cases lf <;> decide
  have hpre : (prelim hs n lf).toNat = hs.toNat + 30 + n + zip64Reserve lf := by
    unfold prelim
    rw [UInt64.toNat_add, UInt64.toNat_ofNat']
    omega
  rw [extraPlacement_eq, ← validateExtraData_ok_iff, ← validateExtraData_ok_iff]
  cases hv : validateExtraData lf (localPart mode lo) with
  | err e => exact ⟨fun ⟨_, h⟩ => (by cases h), fun ⟨h, _⟩ => (by cases h)⟩
  | panic s => exact ⟨fun ⟨_, h⟩ => (by cases h), fun ⟨h, _⟩ => (by cases h)⟩
  | ok u =>
    dsimp only
    have hlen := validate_ok_len hv
    have h1 : (prelim hs n lf).toNat + (localPart mode lo).length < 18446744073709551616 := by omega
    have h28 : hs.toNat + 28 < 18446744073709551616 := by omega
    rw [if_pos h1, if_pos h28]
    by_cases hm : mode = .shared
    · rw [if_pos hm]
      exact ⟨fun _ => ⟨rfl, Or.inl hm⟩, fun _ => ⟨_, rfl⟩⟩
    · rw [if_neg hm]
      cases hc : validateExtraData lf ce with
      | err e => exact ⟨fun ⟨_, h⟩ => (by cases h), fun ⟨_, h⟩ => (by rcases h with h | ⟨h, _⟩ <;> first | exact absurd h hm | cases h)⟩
      | panic s => exact ⟨fun ⟨_, h⟩ => (by cases h), fun ⟨_, h⟩ => (by rcases h with h | ⟨h, _⟩ <;> first | exact absurd h hm | cases h)⟩
      | ok u' => exact ⟨fun _ => ⟨rfl, Or.inr rfl⟩, fun _ => ⟨_, rfl⟩⟩

theorem extra_placement_no_panic (hs : UInt64) (n : Nat) (lf : Bool) (mode : ExtraMode) (lo ce : Bytes)
    (hw : NoWrap hs n) (s : String) : extraPlacement hs n lf mode lo ce ≠ .panic s := by
  unfold NoWrap at hw
  have hr : zip64Reserve lf ≤ 20 := by cases lf <;> decide
  have hpre : (prelim hs n lf).toNat = hs.toNat + 30 + n + zip64Reserve lf := by
    unfold prelim
    rw [UInt64.toNat_add, UInt64.toNat_ofNat']
    omega
  rw [extraPlacement_eq]
  cases hv : validateExtraData lf (localPart mode lo) with
  | err e => exact fun h => by cases h
  | panic s' => exact absurd hv (validateExtraData_no_panic _ _ _)
  | ok u =>
    dsimp only
    have hlen := validate_ok_len hv
    have h1 : (prelim hs n lf).toNat + (localPart mode lo).length < 18446744073709551616 := by omega
    have h28 : hs.toNat + 28 < 18446744073709551616 := by omega
    rw [if_pos h1, if_pos h28]
    split
    · exact fun h => by cases h
    · cases hc : validateExtraData lf ce with
      | err e => exact fun h => by cases h
      | panic s' => exact absurd hc (validateExtraData_no_panic _ _ _)
      | ok u' => exact fun h => by cases h

/-- The reader's data start agrees with the writer's after any successful extra-data sequence. -/
theorem extra_placement_reader_agrees {hs : UInt64} {n : Nat} {lf : Bool} {mode : ExtraMode}
    {lo ce : Bytes} {st : EntrySt} (hw : NoWrap hs n) (hn : n ≤ 65535)
    (h : extraPlacement hs n lf mode lo ce = .ok st) :
    readerDataStart hs (UInt16.ofNat n) st.xlenField = .ok st.dataStart := by
  unfold NoWrap at hw
  have hr : zip64Reserve lf ≤ 20 := by cases lf <;> decide
  have hpre : (prelim hs n lf).toNat = hs.toNat + 30 + n + zip64Reserve lf := by
    unfold prelim
    rw [UInt64.toNat_add, UInt64.toNat_ofNat']
    omega
  have hb : (base16 lf).toNat = zip64Reserve lf := by cases lf <;> rfl
  -- both modes leave `dataStart = prelim + len` and `xlenField = base + len` with `len + reserve ≤ 65535`
  obtain ⟨l, hds, hxl, hlen⟩ : ∃ l : Bytes, st.dataStart = prelim hs n lf + UInt64.ofNat l.length ∧
      st.xlenField = base16 lf + UInt16.ofNat l.length ∧ l.length + zip64Reserve lf ≤ 65535 := by
    by_cases hm : mode = .shared
    · subst hm
      obtain ⟨_, _, a, b, _, c⟩ := extra_placement_shared h
      exact ⟨lo, a, b, c⟩
    · obtain ⟨_, _, a, b, _, c, _, _⟩ := extra_placement_split hm h
      exact ⟨_, a, b, c⟩
  have en : (UInt16.ofNat n).toNat = n := by rw [UInt16.toNat_ofNat']; omega
  have e16 : (UInt16.ofNat l.length).toNat = l.length := by rw [UInt16.toNat_ofNat']; omega
  have e64 : (UInt64.ofNat l.length).toNat = l.length := by rw [UInt64.toNat_ofNat']; omega
  have hx : st.xlenField.toNat = zip64Reserve lf + l.length := by
    rw [hxl, UInt16.toNat_add, hb, e16]; omega
  unfold readerDataStart
  rw [en, hx]
  have hlt : hs.toNat + 30 + n + (zip64Reserve lf + l.length) < 18446744073709551616 := by omega
  rw [if_pos hlt]
  congr 1
  apply UInt64.toNat_inj.mp
  have e30 : (30 : UInt64).toNat = 30 := by decide
  rw [UInt64.toNat_add, UInt64.toNat_add, UInt64.toNat_add, UInt16.toNat_toUInt64,
    UInt16.toNat_toUInt64, en, e30, hx, hds, UInt64.toNat_add, hpre, e64]
  omega

-- shared / split / central-only on concrete data
example : (extraPlacement 0 1 false .shared [0x7a, 0x61, 0x01, 0x00, 0xff] []).isOk = true := by decide
example : extraPlacement 0 1 true .split [0x7a, 0x61, 0x01, 0x00, 0xff] [0xfe, 0xca, 0x00, 0x00] =
    .ok ⟨0, true, 56, [0xfe, 0xca, 0x00, 0x00], false, false, false, [0x7a, 0x61, 0x01, 0x00, 0xff], 25⟩ := by
  decide
example : extraPlacement 0 1 false .centralOnly [0x7a, 0x61, 0x01, 0x00, 0xff] [0xfe, 0xca, 0x00, 0x00] =
    .ok ⟨0, false, 31, [0xfe, 0xca, 0x00, 0x00], false, false, false, [], 0⟩ := by decide
example : extraPlacement 0 1 false .split [0x7a, 0x61, 0x00, 0x00] [0x01, 0x00, 0x00, 0x00] =
    .err (.io .other) := by decide

end ZipVerif.Props.C17
